/-
  The workspace follows the buffers (model HL/Model/WsDocs.lean): for histories of
  didOpen / didChange / didSave / didClose on files of the client's view that keep their include
  lists,
  the workspace invariant `WInv` holds with respect to the CLIENT's view (buffers over disk),
  so the tree held for every member file is that of the client's current text.

  Include lists are kept fixed because `UpdateFile` reads files that BECOME reachable from disk
  (`addMissingReachableLocked`): a file that is open with unsaved edits at the moment it becomes
  reachable is indexed in its disk version — not covered here (C12's histories, where every
  edit is saved, cover changing include lists).
-/
import HL.Model.WsDocs
import HL.Lemmas.Init
namespace HL.Lemmas.WsDocs
open HL.Index HL.Workspace HL.WsDocs HL.Lemmas.AList HL.Lemmas.WsInv HL.Lemmas.Update
open HL.Lemmas.Init HL.Spec.Rebuild

/-- without a change of the include list `UpdateFile` does not look at the disk -/
theorem updateFile_indep (cfg : Cfg) (fsr fsr' : FS) (w : WS) (p : String) (c : Contrib)
    (h : isWorkspaceFile w p = false ∨ includesOf w p = (mkFileIdx p c).includes) :
    updateFile cfg fsr w p c = updateFile cfg fsr' w p c := by
  rw [updateFile_eq, updateFile_eq]
  rcases h with h | h
  · simp [h]
  · simp [h]

/-- `UpdateFile` with a text that keeps the file's include list: the invariant moves to the
    directory with that file replaced, whatever is on disk. -/
theorem updateFile_sameIncs (cfg : Cfg) (fs0 fsr : FS) (w : WS) (p : String) (c c0 : Contrib)
    (h : WInv cfg fs0 w) (hok : fsOk (fs0.set p c) = true) (h0 : fs0.get p = some c0)
    (hinc : resolveIncl p c.incs = resolveIncl p c0.incs) :
    WInv cfg (fs0.set p c) (updateFile cfg fsr w p c) ∧ (updateFile cfg fsr w p c).root = w.root := by
  have hcond : isWorkspaceFile w p = false ∨ includesOf w p = (mkFileIdx p c).includes := by
    cases hacc : isWorkspaceFile w p with
    | false => exact Or.inl rfl
    | true =>
      right
      have hr := accepted_reach cfg fs0 w h p hacc
      have hidx := (h.closed p).mpr ⟨hr, by rw [h0]; rfl⟩
      obtain ⟨fi, hfi⟩ := Option.isSome_iff_exists.mp hidx
      obtain ⟨c', hc', hfic⟩ := h.pinv.g.fresh p fi hfi
      rw [h0] at hc'
      cases hc'
      rw [includesOf_eq w p fi hfi, hfic]
      simp only [mkFileIdx]
      exact hinc.symm
  rw [updateFile_indep cfg fsr (fs0.set p c) w p c hcond]
  exact updateFile_ok cfg fs0 (fs0.set p c) (fs0.set p c) w p c h hok (get_set_self _ _ _)
    (fun y hy => get_set_ne _ _ _ _ (Ne.symm hy)) (fun _ _ => rfl)

/-- the event touches an existing file of the client's view and keeps its include list -/
def calmEv (s : DS) : Ev → Prop
  | .openDoc p c | .change p c =>
    p ≠ "" ∧ contribOk c = true ∧
      ∃ c0, s.view.get p = some c0 ∧ resolveIncl p c.incs = resolveIncl p c0.incs
  | .save _ => True
  | .close p =>
    p ≠ "" ∧ ∃ c c0, s.disk.get p = some c ∧ contribOk c = true ∧ s.view.get p = some c0 ∧
      resolveIncl p c.incs = resolveIncl p c0.incs

/-- every event of the history is calm in the state it is applied to -/
def calm (cfg : Cfg) : DS → List Ev → Prop
  | _, [] => True
  | s, e :: es => calmEv s e ∧ calm cfg (dstep {} cfg s e) es

structure DInv (cfg : Cfg) (root : String) (s : DS) : Prop where
  winv : WInv cfg s.view s.w
  ok : fsOk s.view = true
  opened : ∀ p c, s.bufs.get p = some c → s.view.get p = some c
  others : ∀ p, s.bufs.get p = none → s.view.get p = s.disk.get p
  root : s.w.root = root

theorem set_none {α : Type} (m : AList α) (p q : String) (c : α) (h : (m.set p c).get q = none) :
    p ≠ q ∧ m.get q = none := by
  rw [get_set] at h
  by_cases e : p = q
  · simp [e] at h
  · simp only [e, if_false] at h
    exact ⟨e, h⟩

theorem inv_step (cfg : Cfg) (root : String) (s : DS) (e : Ev) (h : DInv cfg root s)
    (hc : calmEv s e) : DInv cfg root (dstep {} cfg s e) := by
  cases e with
  | openDoc p c =>
    obtain ⟨hp, hcok, c0, h0, hinc⟩ := hc
    have hok' := fsOk_set s.view h.ok p c hp hcok
    obtain ⟨hw, hr⟩ := updateFile_sameIncs cfg s.view s.disk s.w p c c0 h.winv hok' h0 hinc
    refine ⟨hw, hok', ?_, ?_, hr.trans h.root⟩
    · intro q c' hq
      simp only [dstep, if_true] at hq ⊢
      rw [get_set] at hq ⊢
      by_cases e : p = q
      · simpa [e] using hq
      · simp only [e, if_false] at hq ⊢; exact h.opened q c' hq
    · intro q hq
      simp only [dstep, if_true] at hq ⊢
      obtain ⟨hne, hq'⟩ := set_none _ _ _ _ hq
      rw [get_set_ne _ _ _ _ hne]; exact h.others q hq'
  | change p c =>
    obtain ⟨hp, hcok, c0, h0, hinc⟩ := hc
    simp only [dstep]
    cases hb : s.bufs.get p with
    | none => exact h
    | some _ =>
      have hok' := fsOk_set s.view h.ok p c hp hcok
      obtain ⟨hw, hr⟩ := updateFile_sameIncs cfg s.view s.disk s.w p c c0 h.winv hok' h0 hinc
      refine ⟨hw, hok', ?_, ?_, hr.trans h.root⟩
      · intro q c' hq
        simp only at hq ⊢
        rw [get_set] at hq ⊢
        by_cases e : p = q
        · simpa [e] using hq
        · simp only [e, if_false] at hq ⊢; exact h.opened q c' hq
      · intro q hq
        simp only at hq ⊢
        obtain ⟨hne, hq'⟩ := set_none _ _ _ _ hq
        rw [get_set_ne _ _ _ _ hne]; exact h.others q hq'
  | save p =>
    simp only [dstep]
    cases hb : s.bufs.get p with
    | some c =>
      have h0 := h.opened p c hb
      obtain ⟨hp, hcok⟩ := fsOk_get s.view h.ok p c h0
      have hok' := fsOk_set s.view h.ok p c hp hcok
      obtain ⟨hw, hr⟩ := updateFile_sameIncs cfg s.view (s.disk.set p c) s.w p c c h.winv hok' h0 rfl
      refine ⟨hw, hok', ?_, ?_, hr.trans h.root⟩
      · intro q c' hq
        simp only at hq ⊢
        rw [get_set]
        by_cases e : p = q
        · subst e; rw [hb] at hq; simpa using hq
        · simp only [e, if_false]; exact h.opened q c' hq
      · intro q hq
        simp only at hq ⊢
        have hne : p ≠ q := fun e => by subst e; rw [hb] at hq; cases hq
        rw [get_set_ne _ _ _ _ hne, get_set_ne _ _ _ _ hne]; exact h.others q hq
    | none =>
      simp only
      cases hd : s.disk.get p with
      | none => exact h
      | some c =>
        simp only
        have h0 : s.view.get p = some c := by rw [h.others p hb, hd]
        obtain ⟨hp, hcok⟩ := fsOk_get s.view h.ok p c h0
        have hok' := fsOk_set s.view h.ok p c hp hcok
        obtain ⟨hw, hr⟩ := updateFile_sameIncs cfg s.view s.disk s.w p c c h.winv hok' h0 rfl
        refine ⟨hw, hok', ?_, ?_, hr.trans h.root⟩
        · intro q c' hq
          rw [get_set]
          by_cases e : p = q
          · subst e; rw [hb] at hq; cases hq
          · simp only [e, if_false]; exact h.opened q c' hq
        · intro q hq
          rw [get_set]
          by_cases e : p = q
          · subst e; simp [hd]
          · simp only [e, if_false]; exact h.others q hq

  | close p =>
    obtain ⟨hp, c, c0, hd, hcok, h0, hinc⟩ := hc
    simp only [dstep, hd, if_true]
    have hok' := fsOk_set s.view h.ok p c hp hcok
    obtain ⟨hw, hr⟩ := updateFile_sameIncs cfg s.view s.disk s.w p c c0 h.winv hok' h0 hinc
    refine ⟨hw, hok', ?_, ?_, hr.trans h.root⟩
    · intro q c' hq
      simp only at hq ⊢
      rw [get_erase] at hq
      by_cases e : p = q
      · simp [e] at hq
      · simp only [e, if_false] at hq
        rw [get_set_ne _ _ _ _ e]; exact h.opened q c' hq
    · intro q hq
      simp only at hq ⊢
      rw [get_erase] at hq
      by_cases e : p = q
      · subst e; rw [get_set_self, hd]
      · simp only [e, if_false] at hq
        rw [get_set_ne _ _ _ _ e]; exact h.others q hq

theorem inv_start (cfg : Cfg) (fs : FS) (hok : fsOk fs = true) (hne : fs ≠ [])
    (hclean : graphsClean cfg fs) (hlim : fs.length ≤ cfg.limit) :
    DInv cfg (rootSel fs) (dstart cfg fs) := by
  obtain ⟨i1, i2, _⟩ := init_ok cfg fs hok hne hclean hlim
  exact ⟨i1, hok, fun p c h => by simp [dstart, AList.get] at h, fun _ _ => rfl, i2⟩

theorem inv_run (cfg : Cfg) (root : String) : ∀ (es : List Ev) (s : DS), DInv cfg root s → calm cfg s es →
    DInv cfg root (es.foldl (dstep {} cfg) s) := by
  intro es
  induction es with
  | nil => intro s h _; exact h
  | cons e es ih =>
    intro s h hc
    exact ih _ (inv_step cfg root s e h hc.1) hc.2

/-- what the resolved journal holds for a member file is the file of the directory the
    invariant speaks about -/
theorem held_eq (cfg : Cfg) (fs : FS) (w : WS) (h : WInv cfg fs w) (p : String)
    (hm : (w.idx.files.get p).isSome = true) : held w p = fs.get p := by
  unfold held
  by_cases e : p = w.root
  · rw [if_pos e, h.pinv.r.primary, e]
  · rw [if_neg e, h.pinv.r.rfiles p]
    simp [e, hm]

end HL.Lemmas.WsDocs
