/-
  Helper lemmas for C17: from the lexer's contract (extents in bytes, on rune boundaries, line
  numbers) to UTF-16 positions — every piece of text that becomes a token is measured exactly
  by the cursor (`measAll_of_cuts`), and a plain token covers its lexeme (`plain_covers_cuts`).
-/
import HL.Lemmas.SemTokGeom
import HL.Lemmas.SemTokCuts
namespace HL.Lemmas.SemTok
open HL HL.SemTok HL.SemTokSpec

/-- What `plainSpan` measures is the UTF-16 length of the bytes it spans. -/
theorem plainSpan_len16 (text : Bytes) (t : Token) (x : UInt32) (he : ExtentP text t) :
    (plainSpan text t x).len16
      = u16lenB (sliceB text (plainSpan text t x).off ((plainSpan text t x).off + (plainSpan text t x).len)) := by
  by_cases hc : t.ty = .comment
  · have hc' : (t.ty == TokType.comment) = true := by simp [hc]
    have hlen := he.cmtLen hc
    have hraw := he.cmt hc
    simp only [plainSpan, hc', if_true]
    rw [show t.pos.off + (t.val.length + 1) = t.stop.off by omega, hraw,
      u16lenB_cons_ascii _ _ (by decide)]
    omega
  · have hc' : (t.ty == TokType.comment) = false := by simp [hc]
    simp only [plainSpan, hc', Bool.false_eq_true, if_false]
    have h1 := leadWs_trim_le (sliceB text t.pos.off t.stop.off)
    rw [sliceB_length _ _ _ he.inText] at h1
    rw [sliceB_sub text t.pos.off t.stop.off _ _ h1, drop_take_trim]

/-- Both ends of what `plainSpan` spans are rune boundaries when the token's ends are. -/
theorem plainSpan_cuts (text : Bytes) (t : Token) (x : UInt32) (he : ExtentP text t)
    (hp : Cut text t.pos.off) (hs : Cut text t.stop.off) :
    Cut text (plainSpan text t x).off ∧ Cut text ((plainSpan text t x).off + (plainSpan text t x).len) := by
  by_cases hc : t.ty = .comment
  · have hc' : (t.ty == TokType.comment) = true := by simp [hc]
    have hlen := he.cmtLen hc
    simp only [plainSpan, hc', if_true]
    rw [show t.pos.off + (t.val.length + 1) = t.stop.off by omega]
    exact ⟨hp, hs⟩
  · have hc' : (t.ty == TokType.comment) = false := by simp [hc]
    simp only [plainSpan, hc', Bool.false_eq_true, if_false]
    refine ⟨cut_slice hp hs he.le (cut_leadWs _), ?_⟩
    rw [Nat.add_assoc]
    exact cut_slice hp hs he.le (cut_trimEnd _)

theorem measured_of_cuts (text : Bytes) (sp : TagSpan) (hsmall : text.length < 2 ^ 32)
    (h1 : Cut text sp.off) (h2 : Cut text (sp.off + sp.len))
    (hl : NoLfP text sp.off (sp.off + sp.len))
    (h16 : sp.len16 = u16lenB (sliceB text sp.off (sp.off + sp.len))) :
    measured text sp = true := by
  have := colAt_add h1 h2 (Nat.le_add_right _ _) hl
  have hlt := colAt_lt text (sp.off + sp.len) hsmall
  simp only [measured, Bool.and_eq_true, decide_eq_true_eq]
  omega

/-- The pieces of a token that is not cut up into tags are `measured`. -/
theorem plain_measured (text : Bytes) (t : Token) (x : UInt32) (he : ExtentP text t)
    (hp : Cut text t.pos.off) (hs : Cut text t.stop.off) :
    measured text (plainSpan text t x) = true := by
  have hin := plainSpan_inside text t x he
  obtain ⟨c1, c2⟩ := plainSpan_cuts text t x he hp hs
  exact measured_of_cuts text _ he.small c1 c2
    (noLfP_sub he.oneLine hin.1 hin.2) (plainSpan_len16 text t x he)

/-! ### lines -/

theorem splitOn_length (sep : UInt8) (s : Bytes) : (splitOn sep s).length = s.count sep + 1 := by
  induction s with
  | nil => simp [splitOn]
  | cons b bs ih =>
    simp only [splitOn]
    split
    · rename_i hb
      simp [ih, hb]
    · rename_i hb
      split
      · rename_i p ps hp
        rw [hp] at ih
        simp only [List.length_cons] at ih ⊢
        rw [List.count_cons]
        have : (b == sep) = false := by simpa using hb
        simp only [this, Bool.false_eq_true, if_false]
        omega
      · rename_i hp
        exact absurd hp (splitOn_ne_nil _ _)

theorem take_eq_take_append_slice (text : Bytes) (p a : Nat) (h : p ≤ a) :
    text.take a = text.take p ++ sliceB text p a := by
  conv => lhs; rw [show a = p + (a - p) by omega, List.take_add]
  rfl

/-- Two offsets without a line feed between them are on the same line. -/
theorem posLine_same (text : Bytes) (p a : Nat) (h : p ≤ a) (hl : NoLfP text p a) :
    (posOfOffset text a).1 = (posOfOffset text p).1 := by
  have hno := noLf_slice_of_P hl
  simp only [posOfOffset, splitOn_length, take_eq_take_append_slice text p a h, List.count_append]
  have : (sliceB text p a).count lf = 0 := List.count_eq_zero.mpr hno
  rw [this]

/-- At a rune boundary the cursor's column is the LSP character of the offset. -/
theorem posCol_cut (text : Bytes) (a : Nat) (h : Cut text a) : (posOfOffset text a).2 = colAt text a := by
  rw [colAt_lastPiece h]; rfl

/-- A plain token covers its lexeme: the lexer's contract about the token (extent, rune
    boundaries, line number) suffices, unless it is a comment that includes a CR. -/
theorem plain_covers_cuts (text : Bytes) (t : Token) (semType mods : UInt32)
    (hty : mapTokenType t.ty = some semType ∨ (t.ty = .text ∧ semType = tyPayee))
    (he : ExtentP text t) (hp : Cut text t.pos.off) (hs : Cut text t.stop.off)
    (hline : lineOk text t = true) (hcr : devCrComment t = false)
    (hnz : u32 (plainSpan text t semType).len16 ≠ 0) :
    coversTok text t (absOf (plainToken text t semType mods)) = true := by
  have hn0 : (plainSpan text t semType).len16 ≠ 0 := by
    intro e; apply hnz; rw [e]; rfl
  obtain ⟨hr, _⟩ := plainSpan_lexeme text t semType he hcr hn0
  have hin := plainSpan_inside text t semType he
  obtain ⟨c1, _⟩ := plainSpan_cuts text t semType he hp hs
  refine plain_covers text t semType mods hty he ?_ hcr hnz
  simp only [placed, hr, beq_iff_eq]
  simp only [lineOk, beq_iff_eq] at hline
  have h1 := posLine_same text t.pos.off _ hin.1 (noLfP_sub he.oneLine (Nat.le_refl _) (by omega))
  have h2 := posCol_cut text _ c1
  rw [← hline, ← h1, ← h2]

/-! ### tag spans lie between rune boundaries -/

theorem u16lenB_snoc_ascii (s : Bytes) (x : UInt8) (h : x.toNat < 128) :
    u16lenB (s ++ [x]) = u16lenB s + 1 := by
  have hx : (s ++ [x])[s.length]? = some x := by simp
  have hc := (cut_ascii (s ++ [x]) s.length x hx h).1
  rw [u16lenB_cut hc, List.take_left', List.drop_left']
  · rw [u16lenB_cons_ascii x [] (by rw [UInt8.lt_iff_toNat_lt]; simpa using h)]
    rfl
  · rfl
  · rfl

/-- Both ends of a span are rune boundaries of the comment text. -/
def SpanCutP (comment : Bytes) (sp : TagSpan) : Prop :=
  Cut comment sp.off ∧ Cut comment (sp.off + sp.len)

theorem getElem?_of_take_one {α} (l : List α) (c : Nat) (x : α) (h : (l.drop c).take 1 = [x]) :
    l[c]? = some x := by
  have : ((l.drop c).take 1)[0]? = some x := by rw [h]; rfl
  rw [List.getElem?_take_of_lt (by omega), List.getElem?_drop] at this
  simpa using this

theorem extractStep_cutP (cls : Classes) (comment : Bytes) (st : Nat × List TagSpan)
    (part tail : Bytes) (hd : comment.drop st.1 = part ++ tail)
    (hc1 : Cut comment st.1) (hc2 : Cut comment (st.1 + part.length)) :
    ∀ sp ∈ (extractStep cls st part).2, sp ∈ st.2 ∨ SpanCutP comment sp := by
  -- boundaries of the part are boundaries of the comment
  have hpartSl : sliceB comment st.1 (st.1 + part.length) = part := by
    simp only [sliceB, hd, Nat.add_sub_cancel_left, List.take_left']
  have CutP : ∀ k, Cut part k → Cut comment (st.1 + k) := fun k hk =>
    cut_slice hc1 hc2 (Nat.le_add_right _ _) (by rw [hpartSl]; exact hk)
  have hpart := leadWs_trim_le part
  have htrSl : sliceB part (leadWs part) (leadWs part + (trimSpace part).length) = trimSpace part := by
    simp only [sliceB, Nat.add_sub_cancel_left]; exact drop_take_trim part
  have CutT : ∀ k, Cut (trimSpace part) k → Cut part (leadWs part + k) := fun k hk =>
    cut_slice (cut_leadWs part) (cut_trimEnd part) (Nat.le_add_right _ _) (by rw [htrSl]; exact hk)
  generalize hres : extractStep cls st part = res
  simp only [extractStep] at hres
  generalize trimSpace part = trimmed at hres hpart CutT
  split at hres
  · subst hres; exact fun sp h => Or.inl h
  · rename_i colonIdx hci
    have hcl := indexOf_le _ _ _ hci
    have hcs := indexOf_spec _ _ _ hci
    simp only [List.length_singleton] at hcl hcs
    have hcolon : trimmed[colonIdx]? = some colon := getElem?_of_take_one _ _ _ hcs
    obtain ⟨_, hcc⟩ := cut_ascii trimmed colonIdx colon hcolon (by decide)
    have hname : (List.take colonIdx trimmed).length = colonIdx := by
      simp only [List.length_take]; omega
    have hrest := leadWs_trim_le (List.drop (colonIdx + 1) trimmed)
    simp only [List.length_drop] at hrest
    have hrSl : sliceB trimmed (colonIdx + 1) trimmed.length = List.drop (colonIdx + 1) trimmed := by
      simp only [sliceB]; exact List.take_of_length_le (by simp)
    have CutR : ∀ k, Cut (List.drop (colonIdx + 1) trimmed) k → Cut trimmed (colonIdx + 1 + k) := fun k hk =>
      cut_slice hcc (cut_length trimmed) hcl (by rw [hrSl]; exact hk)
    have hT : SpanCutP comment (TagSpan.mk (st.1 + leadWs part)
        ((List.take colonIdx trimmed).length + 1) (u16lenB (List.take colonIdx trimmed) + 1) tyTag) := by
      refine ⟨CutP _ (cut_leadWs part), ?_⟩
      simp only [hname]
      rw [show st.1 + leadWs part + (colonIdx + 1) = st.1 + (leadWs part + (colonIdx + 1)) by omega]
      exact CutP _ (CutT _ hcc)
    split at hres
    · subst hres; exact fun sp h => Or.inl h
    · split at hres
      · subst hres
        intro sp h
        rcases List.mem_append.mp h with h | h
        · exact Or.inl h
        · rw [List.mem_singleton] at h; subst h; exact Or.inr hT
      · subst hres
        intro sp h
        rcases List.mem_append.mp h with h | h
        · rcases List.mem_append.mp h with h | h
          · exact Or.inl h
          · rw [List.mem_singleton] at h; subst h; exact Or.inr hT
        · rw [List.mem_singleton] at h; subst h
          refine Or.inr ⟨?_, ?_⟩
          · simp only [hname]
            rw [show st.1 + leadWs part + colonIdx + 1 + leadWs (List.drop (colonIdx + 1) trimmed)
              = st.1 + (leadWs part + (colonIdx + 1 + leadWs (List.drop (colonIdx + 1) trimmed))) by omega]
            exact CutP _ (CutT _ (CutR _ (cut_leadWs _)))
          · simp only [hname]
            rw [show st.1 + leadWs part + colonIdx + 1 + leadWs (List.drop (colonIdx + 1) trimmed)
                + (trimSpace (List.drop (colonIdx + 1) trimmed)).length
              = st.1 + (leadWs part + (colonIdx + 1 + (leadWs (List.drop (colonIdx + 1) trimmed)
                + (trimSpace (List.drop (colonIdx + 1) trimmed)).length))) by omega]
            exact CutP _ (CutT _ (CutR _ (cut_trimEnd _)))

theorem extractFold_cutP (cls : Classes) (comment : Bytes) (parts : List Bytes)
    (st : Nat × List TagSpan) (hne : parts ≠ []) (hd : comment.drop st.1 = joinParts comma parts)
    (hc : Cut comment st.1) :
    ∀ sp ∈ (parts.foldl (extractStep cls) st).2, sp ∈ st.2 ∨ SpanCutP comment sp := by
  induction parts generalizing st with
  | nil => exact absurd rfl hne
  | cons p rest ih =>
    obtain ⟨_, _, _, hnext, _⟩ := extractStep_spec cls st p
    have hle := cut_le hc
    cases rest with
    | nil =>
      simp only [List.foldl_cons, List.foldl_nil]
      have hd' : comment.drop st.1 = p ++ [] := by simpa [joinParts] using hd
      have hlen : st.1 + p.length = comment.length := by
        have := congrArg List.length hd'
        simp only [List.length_drop, List.append_nil] at this
        omega
      exact extractStep_cutP cls comment st p [] hd' hc (by rw [hlen]; exact cut_length _)
    | cons q r =>
      have hd' : comment.drop st.1 = p ++ (comma :: joinParts comma (q :: r)) := by
        simpa [joinParts] using hd
      have hcomma : comment[st.1 + p.length]? = some comma := by
        rw [← List.getElem?_drop, hd']; simp
      obtain ⟨hc2, hc3⟩ := cut_ascii comment _ comma hcomma (by decide)
      intro sp h
      have hnext' : comment.drop (extractStep cls st p).1 = joinParts comma (q :: r) := by
        rw [hnext, show st.1 + p.length + 1 = st.1 + (p.length + 1) by omega, ← List.drop_drop, hd']
        simp
      rcases ih (extractStep cls st p) (by simp) hnext' (by rw [hnext]; exact hc3) sp h with h | h
      · exact extractStep_cutP cls comment st p _ hd' hc hc2 sp h
      · exact Or.inr h

theorem extractSpans_cutP (cls : Classes) (comment : Bytes) :
    ∀ sp ∈ extractSpans cls comment, SpanCutP comment sp := by
  unfold extractSpans
  split
  · simp
  · intro sp h
    rcases extractFold_cutP cls comment _ (0, []) (splitOn_ne_nil _ _)
        (by simp [splitOn_join]) (cut_zero _) sp h with h | h
    · simp at h
    · exact h

/-- The UTF-16 length of a span is the UTF-16 length of the bytes it spans. -/
theorem span_len16 (cls : Classes) (comment : Bytes) (sp : TagSpan) (h : SpanContent cls comment sp) :
    sp.len16 = u16lenB ((comment.drop sp.off).take sp.len) := by
  rcases h with ⟨_, name, _, _, h16, hsl⟩ | ⟨_, value, _, _, _, h16, hsl⟩
  · rw [hsl, h16, u16lenB_snoc_ascii _ _ (by decide)]
  · rw [hsl, h16]

/-! ### all pieces are measured when the lexer's offsets are rune boundaries -/

theorem getElem?_slice_zero (text : Bytes) (a b : Nat) (x : UInt8) (l : Bytes)
    (h : sliceB text a b = x :: l) : text[a]? = some x := by
  have : (sliceB text a b)[0]? = some x := by rw [h]; rfl
  simp only [sliceB] at this
  have hlt : 0 < b - a := by
    have := (List.getElem?_eq_some_iff.mp this).1
    simp only [List.length_take] at this
    omega
  rw [List.getElem?_take_of_lt hlt, List.getElem?_drop] at this
  simpa using this

/-- The tag spans of a comment, shifted to offsets in the text, are `measured`. -/
theorem tags_measured (cls : Classes) (text : Bytes) (t : Token) (he : ExtentP text t)
    (hc : t.ty = .comment) (_hp : Cut text t.pos.off) (hs : Cut text t.stop.off) :
    ∀ sp ∈ extractSpans cls t.val, measured text { sp with off := t.pos.off + 1 + sp.off } = true := by
  intro sp hsp
  have hraw := he.cmt hc
  have hlen := he.cmtLen hc
  have hsemi : text[t.pos.off]? = some 0x3B := getElem?_slice_zero _ _ _ _ _ hraw
  obtain ⟨_, hp1⟩ := cut_ascii text t.pos.off 0x3B hsemi (by decide)
  have hval : sliceB text (t.pos.off + 1) t.stop.off = t.val := by
    have := sliceB_sub text t.pos.off t.stop.off 1 t.val.length (by omega)
    rw [show t.pos.off + 1 + t.val.length = t.stop.off by omega, hraw] at this
    simpa using this
  obtain ⟨hi, hhi, hs', _⟩ := extractSpans_spec cls t.val
  have hb := spansFrom_mem_le hs' sp hsp
  obtain ⟨c1, c2⟩ := extractSpans_cutP cls t.val sp hsp
  have hcontent := extractSpans_content cls t.val sp hsp
  have hle : t.pos.off + 1 ≤ t.stop.off := by omega
  refine measured_of_cuts text _ he.small ?_ ?_ ?_ ?_
  · exact cut_slice hp1 hs hle (by rw [hval]; exact c1)
  · have := cut_slice hp1 hs hle (j := sp.off + sp.len) (by rw [hval]; exact c2)
    simpa [Nat.add_assoc] using this
  · exact noLfP_sub he.oneLine (by simp only; omega) (by simp only; omega)
  · have := sliceB_sub text (t.pos.off + 1) t.stop.off sp.off sp.len (by omega)
    simp only
    rw [this, hval]
    exact span_len16 cls t.val sp hcontent

theorem emitted_measured (cls : Classes) (text : Bytes) (t : Token) (he : ExtentP text t)
    (hp : Cut text t.pos.off) (hs : Cut text t.stop.off) :
    (emitted cls text t).all (measured text) = true := by
  have hplain : (let sp := plainSpan text t 0; if (sp.len16 == 0) = true then [] else [sp]).all (measured text) = true := by
    simp only
    split
    · rfl
    · simp only [List.all_cons, List.all_nil, Bool.and_true]
      exact plain_measured text t 0 he hp hs
  by_cases hc : t.ty = .comment
  · have hc' : (t.ty == TokType.comment) = true := by simp [hc]
    by_cases hne : (extractSpans cls t.val).isEmpty = true
    · simp only [emitted, hc', if_true, hne, Bool.not_true, Bool.false_eq_true, if_false]
      exact hplain
    · have hne' : (extractSpans cls t.val).isEmpty = false := by simpa using hne
      simp only [emitted, hc', if_true, hne', Bool.not_false, List.all_map, List.all_eq_true]
      intro sp hsp
      exact tags_measured cls text t he hc hp hs sp hsp
  · have hc' : (t.ty == TokType.comment) = false := by simp [hc]
    simp only [emitted, hc', Bool.false_eq_true, if_false, List.isEmpty_nil, Bool.not_true]
    exact hplain

/-- **From the lexer's contract to the UTF-16 geometry.**  Well-formed extents on rune
    boundaries: every piece of text that becomes a token is measured exactly by the cursor. -/
theorem measAll_of_cuts (cls : Classes) (text : Bytes) (toks : List Token)
    (hx : (mappedBody toks).all (extentOk text) = true) (hc : cutsB text toks = true) :
    MeasAll cls text (mappedBody toks) := by
  intro t ht
  have he := extentP_of text t ((List.all_eq_true.mp hx) t ht)
  have hct := (List.all_eq_true.mp hc) t ht
  simp only [cutOk, Bool.and_eq_true] at hct
  exact emitted_measured cls text t he (cut_of_isCut hct.1) (cut_of_isCut hct.2)

end HL.Lemmas.SemTok
