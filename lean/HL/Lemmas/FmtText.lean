/-
  Lemmas about the byte-string helpers of HL/Model/FmtText.lean: Go's rune decoding is
  compositional at boundaries where the right part does not start with a continuation byte,
  so rune lists, rune counts and UTF-16 lengths add up there (in particular around ASCII).
-/
import HL.Model.FmtText
namespace HL.Lemmas.FmtText
open HL HL.FmtText

theorem accept2_isCont (b0 b1 : UInt8) (h : accept2 b0 b1 = true) : isCont b1 = true := by
  simp only [accept2, lo2, hi2, isCont, Bool.and_eq_true] at *
  obtain ⟨h1, h2⟩ := h
  have h1 := of_decide_eq_true h1
  have h2 := of_decide_eq_true h2
  refine ⟨decide_eq_true ?_, decide_eq_true ?_⟩
  · split at h1
    · exact UInt8.le_trans (by decide) h1
    · split at h1
      · exact UInt8.le_trans (by decide) h1
      · exact h1
  · split at h2
    · exact UInt8.le_trans h2 (by decide)
    · split at h2
      · exact UInt8.le_trans h2 (by decide)
      · exact h2

theorem accept2_false (b0 x : UInt8) (h : isCont x = false) : accept2 b0 x = false := by
  cases h' : accept2 b0 x
  · rfl
  · rw [accept2_isCont b0 x h'] at h; cases h

/-- `b` is empty or does not start with a continuation byte. -/
def NonCont (b : Bytes) : Prop := ∀ x, b.head? = some x → isCont x = false

theorem nonCont_nil : NonCont [] := by intro x h; cases h

theorem nonCont_ascii (x : UInt8) (b : Bytes) (h : x < 0x80) : NonCont (x :: b) := by
  intro y hy
  simp only [List.head?_cons, Option.some.injEq] at hy
  subst hy
  simp only [isCont, Bool.and_eq_false_iff, decide_eq_false_iff_not]
  left
  intro h'
  exact absurd (UInt8.lt_of_lt_of_le h h') (UInt8.lt_irrefl _)

/-- Decoding the first rune does not look past a boundary of this kind. -/
theorem decodeRune_append (a b : Bytes) (ha : a ≠ []) (hb : NonCont b) :
    decodeRune (a ++ b) = decodeRune a := by
  rcases a with _ | ⟨b0, r⟩
  · exact absurd rfl ha
  · rcases b with _ | ⟨x, b⟩
    · simp
    · have hx : isCont x = false := hb x rfl
      have hx2 : accept2 b0 x = false := accept2_false b0 x hx
      rcases r with _ | ⟨b1, _ | ⟨b2, _ | ⟨b3, r⟩⟩⟩ <;>
        simp [decodeRune, hx, hx2]

/-- The width of a decoded rune is between 1 and the number of bytes available. -/
theorem decodeRune_size (b0 : UInt8) (r : Bytes) :
    1 ≤ (decodeRune (b0 :: r)).2 ∧ (decodeRune (b0 :: r)).2 ≤ (b0 :: r).length := by
  rcases r with _ | ⟨b1, _ | ⟨b2, _ | ⟨b3, r⟩⟩⟩ <;>
    simp only [decodeRune, List.length_cons, List.length_nil] <;>
    (repeat' split) <;> simp

theorem runesAux_append (a b : Bytes) (hb : NonCont b) :
    ∀ k, k ≤ a.length → runesAux k (a ++ b) = runesAux k a ++ runesAux 0 b := by
  induction a with
  | nil =>
    intro k hk
    have : k = 0 := by simpa using hk
    subst this
    cases b <;> simp [runesAux]
  | cons x a ih =>
    intro k hk
    cases k with
    | zero =>
      have hd : decodeRune (x :: (a ++ b)) = decodeRune (x :: a) :=
        decodeRune_append (x :: a) b (by simp) hb
      have hs := decodeRune_size x a
      simp only [List.cons_append, runesAux, hd, List.cons.injEq, true_and]
      apply ih
      simp only [List.length_cons] at hs
      omega
    | succ k =>
      simp only [List.cons_append, runesAux]
      apply ih
      simp only [List.length_cons] at hk
      omega

theorem runes_append (a b : Bytes) (hb : NonCont b) : runes (a ++ b) = runes a ++ runes b :=
  runesAux_append a b hb 0 (Nat.zero_le _)

theorem runeCountAux_eq (k : Nat) (s : Bytes) : runeCountAux k s = (runesAux k s).length := by
  induction s generalizing k with
  | nil => cases k <;> rfl
  | cons x s ih => cases k <;> simp [runeCountAux, runesAux, ih, Nat.add_comm]

theorem runeCount_eq (s : Bytes) : runeCount s = (runes s).length := runeCountAux_eq 0 s

/-- Sum of the UTF-16 widths of a rune list. -/
def u16sum : List (Nat × Nat) → Nat
  | [] => 0
  | (r, _) :: rs => u16w r + u16sum rs

theorem u16sum_append (a b : List (Nat × Nat)) : u16sum (a ++ b) = u16sum a + u16sum b := by
  induction a with
  | nil => simp [u16sum]
  | cons x a ih => obtain ⟨r, s⟩ := x; simp [u16sum, ih, Nat.add_assoc]

theorem u16lenAux_eq (k : Nat) (s : Bytes) : u16lenAux k s = u16sum (runesAux k s) := by
  induction s generalizing k with
  | nil => cases k <;> rfl
  | cons x s ih => cases k <;> simp [u16lenAux, runesAux, u16sum, ih]

theorem u16len_eq (s : Bytes) : u16len s = u16sum (runes s) := u16lenAux_eq 0 s

theorem runeCount_append (a b : Bytes) (hb : NonCont b) : runeCount (a ++ b) = runeCount a + runeCount b := by
  rw [runeCount_eq, runeCount_eq, runeCount_eq, runes_append a b hb, List.length_append]

theorem u16len_append (a b : Bytes) (hb : NonCont b) : u16len (a ++ b) = u16len a + u16len b := by
  rw [u16len_eq, u16len_eq, u16len_eq, runes_append a b hb, u16sum_append]

/-! ### ASCII strings -/

def IsAscii (s : Bytes) : Prop := ∀ x ∈ s, x < 0x80

theorem decodeRune_ascii (x : UInt8) (s : Bytes) (h : x < 0x80) : decodeRune (x :: s) = (x.toNat, 1) := by
  simp [decodeRune, h]

theorem runeCount_ascii_append (a s : Bytes) (ha : IsAscii a) : runeCount (a ++ s) = a.length + runeCount s := by
  induction a with
  | nil => simp
  | cons x a ih =>
    have hx : x < 0x80 := ha x (by simp)
    have := ih (fun y hy => ha y (by simp [hy]))
    simp only [runeCount] at *
    simp only [List.cons_append, runeCountAux, decodeRune_ascii x _ hx, Nat.sub_self, List.length_cons, this]
    omega

theorem runeCount_ascii (a : Bytes) (ha : IsAscii a) : runeCount a = a.length := by
  have := runeCount_ascii_append a [] ha
  simpa [runeCount, runeCountAux] using this

theorem nonCont_of_ascii (a s : Bytes) (ha : IsAscii a) (hs : NonCont s) : NonCont (a ++ s) := by
  cases a with
  | nil => simpa using hs
  | cons x a => exact nonCont_ascii x _ (ha x (by simp))

theorem nonCont_isAscii (a : Bytes) (ha : IsAscii a) : NonCont a := by
  cases a with
  | nil => exact nonCont_nil
  | cons x a => exact nonCont_ascii x a (ha x (by simp))

theorem isAscii_spaces (n : Nat) : IsAscii (spaces n) := by
  intro x hx
  simp only [spaces, List.mem_replicate] at hx
  rw [hx.2]; decide

theorem spaces_length (n : Nat) : (spaces n).length = n := by simp [spaces]

end HL.Lemmas.FmtText
