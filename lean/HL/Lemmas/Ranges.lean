import HL.Model.Ranges
import HL.Spec.RangeSpec
import HL.Lemmas.Text
namespace HL.Lemmas.Ranges
open HL HL.Ast HL.Text HL.Ranges HL.RangeSpec HL.Lemmas.Text

/-- The wire values of a `protocol.Range`. -/
def toN (r : LRange) : NRange := ⟨r.sl.toNat, r.sc.toNat, r.el.toNat, r.ec.toNat⟩

/-! ### `uint32(x - 1)` -/

theorem m1_toNat {n : Nat} (h1 : 1 ≤ n) (h2 : n < 4294967296) : (m1 n).toNat = n - 1 := by
  unfold m1
  have : n ≠ 0 := by omega
  simp only [this, if_false]
  rw [UInt32.toNat_ofNat']
  omega

theorem m1_zero : (m1 0).toNat = 4294967295 := by decide

/-! ### Columns and UTF-16 offsets -/

theorem charsOf_one (l : Txt) (n : Nat) :
    charsOf one l n = if n ≤ l.length then some n else none := by
  induction l generalizing n with
  | nil => cases n <;> simp [charsOf]
  | cons c cs ih =>
    cases n with
    | zero => simp [charsOf]
    | succ n =>
      simp only [charsOf, one, Nat.le_add_left, if_true, Nat.add_sub_cancel, ih, List.length_cons]
      split <;> simp_all

theorem charsOf_some_le {w : Char → Nat} {l : Txt} {n k : Nat} (h : charsOf w l n = some k) :
    k ≤ l.length := by
  induction l generalizing n k with
  | nil => cases n <;> simp_all [charsOf]
  | cons c cs ih =>
    cases n with
    | zero => simp [charsOf] at h; subst h; simp
    | succ n =>
      simp only [charsOf] at h
      split at h
      · cases h' : charsOf w cs (n + 1 - w c) with
        | none => simp [h'] at h
        | some k' =>
          simp [h'] at h
          have := ih h'
          simp; omega
      · simp at h

/-- The number of chars reached after `n` UTF-16 units really spans `n` units. -/
theorem charsOf_u16_spec {l : Txt} {n k : Nat} (h : charsOf u16w l n = some k) :
    u16len (l.take k) = n := by
  induction l generalizing n k with
  | nil => cases n <;> simp_all [charsOf, u16len]
  | cons c cs ih =>
    cases n with
    | zero => simp [charsOf] at h; subst h; simp [u16len]
    | succ n =>
      simp only [charsOf] at h
      split at h
      · rename_i hle
        cases h' : charsOf u16w cs (n + 1 - u16w c) with
        | none => simp [h'] at h
        | some k' =>
          simp [h'] at h
          subst h
          simp only [List.take_succ_cons, u16len, ih h']
          omega
      · simp at h

/-- Conversely a whole prefix is reached at its UTF-16 length. -/
theorem charsOf_u16_take (l : Txt) (k : Nat) (hk : k ≤ l.length) :
    charsOf u16w l (u16len (l.take k)) = some k := by
  induction l generalizing k with
  | nil => simp at hk; subst hk; simp [charsOf, u16len]
  | cons c cs ih =>
    cases k with
    | zero => simp [charsOf, u16len]
    | succ k =>
      have hp := u16w_pos c
      simp only [List.take_succ_cons, u16len]
      obtain ⟨m, hm⟩ : ∃ m, u16w c + u16len (cs.take k) = m + 1 := ⟨u16w c + u16len (cs.take k) - 1, by omega⟩
      rw [hm]
      simp only [charsOf]
      have : u16w c ≤ m + 1 := by omega
      simp only [this, if_true]
      have e : m + 1 - u16w c = u16len (cs.take k) := by omega
      rw [e, ih k (by simpa using hk)]
      rfl

/-- `col_is_utf16_of_bmp`, list form: a prefix without non-BMP chars has as many UTF-16 units
    as chars. -/
theorem u16len_of_bmp (l : Txt) (h : ∀ c ∈ l, c.val.toNat < 0x10000) : u16len l = l.length := by
  induction l with
  | nil => rfl
  | cons c cs ih =>
    have hc := h c (by simp)
    have : u16w c = 1 := by unfold u16w; split <;> omega
    simp only [u16len, this, List.length_cons, ih (fun d hd => h d (by simp [hd]))]
    omega

theorem charsOf_u16_of_bmp (l : Txt) (n : Nat) (hn : n ≤ l.length)
    (hb : ∀ c ∈ l.take n, c.val.toNat < 0x10000) : charsOf u16w l n = some n := by
  have := charsOf_u16_take l n hn
  rwa [u16len_of_bmp _ hb, List.length_take, Nat.min_eq_left hn] at this

/-! ### From positions of the tree to LSP positions -/

theorem u16len_take_le (l : Txt) (k : Nat) : u16len (l.take k) ≤ u16len l := by
  have h : u16len l = u16len (l.take k) + u16len (l.drop k) := by
    rw [← u16len_append, List.take_append_drop]
  omega

/-- Prefixes of any length (also past the end) are ordered by UTF-16 length. -/
theorem u16len_take_mono' (l : Txt) {a b : Nat} (hab : a ≤ b) :
    u16len (l.take a) ≤ u16len (l.take b) := by
  have : l.take a = (l.take b).take a := by rw [List.take_take, Nat.min_eq_left hab]
  rw [this]; exact u16len_take_le _ _

theorem stripCR_prefix (l : Txt) : ∃ suf, l = stripCR l ++ suf := by
  unfold stripCR
  split
  · exact ⟨l.drop (l.length - 1), by simp [List.dropLast_eq_take]⟩
  · exact ⟨[], by simp⟩

theorem docLines_get (doc : Txt) (i : Nat) : (docLines doc)[i]? = ((lines doc)[i]?).map stripCR := by
  simp [docLines]

theorem take_stripCR (raw : Txt) {k : Nat} (hk : k ≤ (stripCR raw).length) :
    raw.take k = (stripCR raw).take k := by
  obtain ⟨suf, hsuf⟩ := stripCR_prefix raw
  have e : raw.take k = (stripCR raw ++ suf).take k := by rw [← hsuf]
  rw [e, List.take_append_of_le_length hk]

def rngPos (r : Rng) : Bool :=
  decide (1 ≤ r.start.line) && decide (1 ≤ r.start.col) && decide (1 ≤ r.stop.line) && decide (1 ≤ r.stop.col)

/-- The wire value of the character `columnMapper.lineColumn` computes for `p`: the UTF-16 length
    of the first `col − 1` runes of `p`'s line (the column itself where the mapper has no such
    line). -/
def cc (lns : List Txt) (p : Pos) : Nat :=
  match lns[p.line - 1]? with
  | some ln => u16len (ln.take (p.col - 1))
  | none => p.col - 1

/-- Every line of the mapper is shorter than 2³² UTF-16 units. -/
def linesSmall (lns : List Txt) : Prop := ∀ ln ∈ lns, u16len ln < 4294967296

theorem docSmall_lines {doc : Txt} (h : docSmall doc = true) : linesSmall (lines doc) := by
  simp only [docSmall, Bool.and_eq_true, List.all_eq_true, decide_eq_true_eq] at h
  exact h.2

theorem docSmall_length {doc : Txt} (h : docSmall doc = true) : (lines doc).length < 4294967296 := by
  simp only [docSmall, Bool.and_eq_true, List.all_eq_true, decide_eq_true_eq] at h
  exact h.1

/-- On a line the mapper has, the converted character is the UTF-16 length of the prefix,
    whatever the column. -/
theorem convChar_toNat_some {lns : List Txt} {line col : Nat} {ln : Txt} (hs : linesSmall lns)
    (h1 : 1 ≤ line) (hl : lns[line - 1]? = some ln) :
    (convChar lns line col).toNat = u16len (ln.take (col - 1)) := by
  unfold convChar
  have h0 : line ≠ 0 := by omega
  simp only [h0, if_false, hl]
  rw [UInt32.toNat_ofNat']
  have := hs ln (List.mem_of_getElem? hl)
  have := u16len_take_le ln (col - 1)
  omega

theorem convChar_toNat {lns : List Txt} {p : Pos} (hs : linesSmall lns) (h1 : 1 ≤ p.line)
    (h2 : 1 ≤ p.col) (h3 : p.col < 4294967296) : (convChar lns p.line p.col).toNat = cc lns p := by
  unfold cc
  cases hl : lns[p.line - 1]? with
  | some ln => exact convChar_toNat_some hs h1 hl
  | none =>
    unfold convChar
    have h0 : p.line ≠ 0 := by omega
    simp only [h0, if_false, hl]
    exact m1_toNat h2 h3

theorem toN_conv {lns : List Txt} {r : Rng} (hs : linesSmall lns) (hm : rngSmall r = true)
    (hp : rngPos r = true) :
    toN (astRangeToProtocol lns r) = ⟨r.start.line - 1, cc lns r.start, r.stop.line - 1, cc lns r.stop⟩ := by
  simp only [rngSmall, rngPos, Bool.and_eq_true, decide_eq_true_eq] at hm hp
  obtain ⟨⟨⟨m1', m2⟩, m3⟩, m4⟩ := hm
  obtain ⟨⟨⟨p1, p2⟩, p3⟩, p4⟩ := hp
  simp only [toN, astRangeToProtocol]
  rw [m1_toNat p1 m1', m1_toNat p3 m3, convChar_toNat hs p1 p2 m2, convChar_toNat hs p3 p4 m4]

theorem cc_mono {lns : List Txt} {a b : Pos} (hl : a.line = b.line) (hc : a.col ≤ b.col) :
    cc lns a ≤ cc lns b := by
  unfold cc
  rw [hl]
  split
  · exact u16len_take_mono' _ (by omega)
  · omega

theorem leqPos_conv {lns : List Txt} {x y : Pos} (hx : 1 ≤ x.line) (h : posLe x y = true) :
    leqPos (x.line - 1) (cc lns x) (y.line - 1) (cc lns y) = true := by
  simp only [posLe, leqPos, Bool.or_eq_true, Bool.and_eq_true, decide_eq_true_eq, beq_iff_eq] at h ⊢
  rcases h with h | ⟨h1, h2⟩
  · left; omega
  · right; exact ⟨by omega, cc_mono h1 h2⟩

/-- What a position of the text in rune columns gives: its line exists in the mapper, the
    column is within the line (CR excluded), and the converted character is the UTF-16 length
    of the prefix of the line as the client sees it. -/
theorem posSound_line {doc : Txt} {p : Pos} (h : posSound one doc p = true) :
    1 ≤ p.line ∧ 1 ≤ p.col ∧ ∃ raw, (lines doc)[p.line - 1]? = some raw ∧
      p.col - 1 ≤ (stripCR raw).length ∧
      cc (lines doc) p = u16len ((stripCR raw).take (p.col - 1)) := by
  simp only [posSound, Bool.and_eq_true, decide_eq_true_eq] at h
  obtain ⟨⟨h1, h2⟩, h3⟩ := h
  refine ⟨h1, h2, ?_⟩
  rw [docLines_get] at h3
  cases hl : (lines doc)[p.line - 1]? with
  | none => simp [hl] at h3
  | some raw =>
    simp only [hl, Option.map_some, charsOf_one] at h3
    have hle : p.col - 1 ≤ (stripCR raw).length := by
      by_cases hc : p.col - 1 ≤ (stripCR raw).length
      · exact hc
      · simp [hc] at h3
    refine ⟨raw, rfl, hle, ?_⟩
    unfold cc
    rw [hl]
    simp only []
    rw [take_stripCR raw hle]

theorem posOK_conv {doc : Txt} {p : Pos} (h : posSound one doc p = true) :
    posOK doc (p.line - 1) (cc (lines doc) p) = true := by
  obtain ⟨_, _, raw, hl, hle, hcc⟩ := posSound_line h
  unfold posOK charsOfUnits
  rw [docLines_get, hl, hcc]
  simp only [Option.map_some]
  rw [charsOf_u16_take _ _ hle]
  rfl

/-- The wire values of a converted range whose two ends are positions of the text. -/
theorem toN_conv_sound {doc : Txt} {r : Rng} (hs : rngSound one doc r = true) (hd : docSmall doc = true) :
    toN (astRangeToProtocol (lines doc) r) =
      ⟨r.start.line - 1, cc (lines doc) r.start, r.stop.line - 1, cc (lines doc) r.stop⟩ := by
  simp only [rngSound, Bool.and_eq_true] at hs
  obtain ⟨⟨h1, h2⟩, _⟩ := hs
  obtain ⟨a1, _, raw1, hl1, _, _⟩ := posSound_line h1
  obtain ⟨b1, _, raw2, hl2, _, _⟩ := posSound_line h2
  have hn := docSmall_length hd
  have hsm := docSmall_lines hd
  have e1 : r.start.line - 1 < (lines doc).length := (List.getElem?_eq_some_iff.mp hl1).1
  have e2 : r.stop.line - 1 < (lines doc).length := (List.getElem?_eq_some_iff.mp hl2).1
  simp only [toN, astRangeToProtocol]
  rw [m1_toNat a1 (by omega), m1_toNat b1 (by omega), convChar_toNat_some hsm a1 hl1,
    convChar_toNat_some hsm b1 hl2]
  simp only [cc, hl1, hl2]

/-- `columnMapper.toProtocol` of a range whose ends are positions of the text in rune columns is
    a well-formed range of the document — whatever characters precede it. -/
theorem conv_rangeOK {doc : Txt} {r : Rng} (hs : rngSound one doc r = true) (hd : docSmall doc = true) :
    rangeOK doc (toN (astRangeToProtocol (lines doc) r)) = true := by
  rw [toN_conv_sound hs hd]
  simp only [rngSound, Bool.and_eq_true] at hs
  obtain ⟨⟨h1, h2⟩, h3⟩ := hs
  obtain ⟨a1, _, _⟩ := posSound_line h1
  simp only [rangeOK, Bool.and_eq_true]
  exact ⟨⟨posOK_conv h1, posOK_conv h2⟩, leqPos_conv a1 h3⟩

/-- A range that delimits a lexeme is a range of the text. -/
theorem rngSound_of_lexSound {doc : Txt} {r : Rng} {lex : Txt} (hl : lexSound one doc r lex = true) :
    rngSound one doc r = true := by
  simp only [lexSound, Bool.and_eq_true, decide_eq_true_eq, beq_iff_eq] at hl
  obtain ⟨⟨⟨⟨l1, l2⟩, c1⟩, c2⟩, hl⟩ := hl
  cases hln : (docLines doc)[r.start.line - 1]? with
  | none => simp [hln] at hl
  | some ln =>
    simp only [hln, charsOf_one] at hl
    by_cases h1 : r.start.col - 1 ≤ ln.length
    · by_cases h2 : r.stop.col - 1 ≤ ln.length
      · simp only [h1, h2, if_true, Bool.and_eq_true, decide_eq_true_eq] at hl
        simp only [rngSound, posSound, posLe, ← l2, hln, charsOf_one, h1, h2, if_true, Option.isSome_some,
          Bool.and_eq_true, Bool.or_eq_true, decide_eq_true_eq, beq_iff_eq, and_true]
        refine ⟨⟨⟨l1, c1⟩, ⟨l1, c2⟩⟩, Or.inr ⟨trivial, by omega⟩⟩
      · simp [h1, h2] at hl
    · simp [h1] at hl

/-- … and the converted range covers exactly the chars between its two rune columns. -/
theorem conv_covers {doc : Txt} {r : Rng} {lex : Txt} (hl : lexSound one doc r lex = true)
    (hd : docSmall doc = true) : covers doc (toN (astRangeToProtocol (lines doc) r)) lex = true := by
  have hs := rngSound_of_lexSound hl
  have hok := conv_rangeOK hs hd
  simp only [covers, hok, Bool.true_and]
  rw [toN_conv_sound hs hd]
  simp only [rngSound, Bool.and_eq_true] at hs
  obtain ⟨⟨h1, h2⟩, _⟩ := hs
  obtain ⟨_, _, raw1, hl1, hle1, hcc1⟩ := posSound_line h1
  obtain ⟨_, _, raw2, hl2, hle2, hcc2⟩ := posSound_line h2
  simp only [lexSound, Bool.and_eq_true, decide_eq_true_eq, beq_iff_eq] at hl
  obtain ⟨⟨⟨⟨l1, l2⟩, c1⟩, c2⟩, hl⟩ := hl
  rw [← l2] at hl2
  rw [hl1] at hl2
  cases hl2
  rw [docLines_get, hl1] at hl
  simp only [Option.map_some, charsOf_one, hle1, hle2, if_true, Bool.and_eq_true, decide_eq_true_eq,
    beq_iff_eq] at hl
  obtain ⟨hab, hlex⟩ := hl
  simp only [slice, ← l2, ne_eq, not_true_eq_false, if_false, docLines_get, hl1, Option.map_some, charsOfUnits,
    hcc1, hcc2]
  rw [charsOf_u16_take _ _ hle1, charsOf_u16_take _ _ hle2]
  simp only [hab, if_true, hlex, beq_self_eq_true]

/-- Any range stored in the tree that has an End converts to a well-formed LSP range. -/
theorem node_rangeOK {doc : Txt} {j : Journal} {r : Rng}
    (ht : TreePositionsSound one doc j = true) (hd : docSmall doc = true) (hr : r ∈ nodeRanges j)
    (hg : hasEnd r = true) : rangeOK doc (toN (astRangeToProtocol (lines doc) r)) = true := by
  simp only [TreePositionsSound, List.all_eq_true, Bool.or_eq_true] at ht
  have hz' : ¬ (r.stop == Pos.zero) = true := by
    intro h; simp [hasEnd, bne, h] at hg
  exact conv_rangeOK ((ht r hr).resolve_left hz') hd

/-- The same for a list of converted ranges. -/
theorem map_conv_rangeOK {doc : Txt} {j : Journal} {rs : List Rng}
    (ht : TreePositionsSound one doc j = true) (hd : docSmall doc = true)
    (hsub : ∀ r ∈ rs, r ∈ nodeRanges j) (hg : ∀ r ∈ rs, hasEnd r = true) :
    ∀ x ∈ rs.map (astRangeToProtocol (lines doc)), rangeOK doc (toN x) = true := by
  intro x hx
  obtain ⟨r, hr, rfl⟩ := List.mem_map.mp hx
  exact node_rangeOK ht hd (hsub r hr) (hg r hr)

/-! ### Which ranges the features convert -/

def symbolRanges (j : Journal) : List Rng :=
  j.transactions.map (·.range) ++ j.directives.map (·.range) ++ j.includes.map (·.range)

theorem documentSymbols_eq (lns : List Txt) (j : Journal) :
    documentSymbols lns j = (symbolRanges j).map (astRangeToProtocol lns) := by
  simp [documentSymbols, symbolRanges, List.map_append, Function.comp_def]

theorem tx_range_mem {j : Journal} {tx : Transaction} (h : tx ∈ j.transactions) {r : Rng}
    (hr : r ∈ txRanges tx) : r ∈ nodeRanges j := by
  simp only [nodeRanges, List.mem_append, List.mem_flatMap]
  exact Or.inl (Or.inl ⟨tx, h, hr⟩)

theorem dir_range_mem {j : Journal} {d : Directive} (h : d ∈ j.directives) {r : Rng}
    (hr : r ∈ directiveRanges d) : r ∈ nodeRanges j := by
  simp only [nodeRanges, List.mem_append, List.mem_flatMap]
  exact Or.inl (Or.inr ⟨d, h, hr⟩)

theorem inc_range_mem {j : Journal} {i : Include} (h : i ∈ j.includes) : i.range ∈ nodeRanges j := by
  simp only [nodeRanges, List.mem_append, List.mem_map]
  exact Or.inr ⟨i, h, rfl⟩

theorem directive_range_mem (d : Directive) : d.range ∈ directiveRanges d := by
  cases d <;> simp [Directive.range, directiveRanges]

theorem symbolRanges_sub (j : Journal) : ∀ r ∈ symbolRanges j, r ∈ nodeRanges j := by
  intro r hr
  simp only [symbolRanges, List.mem_append, List.mem_map] at hr
  rcases hr with (⟨tx, h, rfl⟩ | ⟨d, h, rfl⟩) | ⟨i, h, rfl⟩
  · exact tx_range_mem h (by simp [txRanges])
  · exact dir_range_mem h (directive_range_mem d)
  · exact inc_range_mem h

theorem posting_range_mem {j : Journal} {tx : Transaction} {p : Posting} (h : tx ∈ j.transactions)
    (hp : p ∈ tx.postings) {r : Rng} (hr : r ∈ postingRanges p) : r ∈ nodeRanges j := by
  apply tx_range_mem h
  simp only [txRanges, List.mem_append, List.mem_flatMap]
  exact Or.inr ⟨p, hp, hr⟩

/-- A located element either was computed by column arithmetic (payee estimate, the two halves
    of a tag, a `nameRange`) or carries a range stored in the tree. -/
def hitNode (j : Journal) (h : Hit) : Prop := h.derived = true ∨ h.rng ∈ nodeRanges j

theorem findTag_derived {tags : List Tag} {c : Cur} {h : Hit} (hh : findTagAtPosition tags c = some h) :
    h.derived = true := by
  unfold findTagAtPosition at hh
  split at hh
  · simp at hh
  · simp only at hh
    split at hh <;> (simp at hh; subst hh; rfl)

theorem hoverPosting_node {j : Journal} {tx : Transaction} {p : Posting} {c : Cur} {h : Hit}
    (ht : tx ∈ j.transactions) (hp : p ∈ tx.postings) (hh : hoverPosting c p = some h) : hitNode j h := by
  unfold hoverPosting at hh
  split at hh
  · simp at hh; subst hh
    exact Or.inr (posting_range_mem ht hp (by simp [postingRanges]))
  · split at hh
    · rename_i a ha
      split at hh
      · simp at hh; subst hh
        exact Or.inr (posting_range_mem ht hp (by simp [postingRanges, ha, amountRanges]))
      · exact Or.inl (findTag_derived hh)
    · exact Or.inl (findTag_derived hh)

theorem hoverTx_node {lns : List Txt} {j : Journal} {tx : Transaction} {c : Cur} {h : Hit}
    (ht : tx ∈ j.transactions) (hh : hoverTx lns c tx = some h) : hitNode j h := by
  unfold hoverTx at hh
  split at hh
  · simp at hh; subst hh
    exact Or.inr (tx_range_mem ht (by simp [txRanges]))
  · simp only at hh
    split at hh
    · simp at hh; subst hh; exact Or.inl rfl
    · split at hh
      · rename_i h' hf
        simp at hh; subst hh
        obtain ⟨cm, _, hcm⟩ := List.exists_of_findSome?_eq_some hf
        exact Or.inl (findTag_derived hcm)
      · obtain ⟨p, hp, hpp⟩ := List.exists_of_findSome?_eq_some hh
        exact hoverPosting_node ht hp hpp

theorem findElement_node {lns : List Txt} {j : Journal} {c : Cur} {h : Hit}
    (hh : findElementAtPosition lns j c = some h) : hitNode j h := by
  obtain ⟨tx, ht, htx⟩ := List.exists_of_findSome?_eq_some hh
  exact hoverTx_node ht htx

theorem postingCommodities_mem {p : Posting} {cm : Commodity} (h : cm ∈ postingCommodities p) :
    cm.range ∈ postingRanges p := by
  simp only [postingCommodities, List.mem_append] at h
  simp only [postingRanges, List.mem_append]
  rcases h with (h | h) | h
  · split at h
    · rename_i a ha
      simp at h; subst h
      exact Or.inl (Or.inl (Or.inr (by simp [amountRanges, ha])))
    · simp at h
  · split at h
    · rename_i a ha
      simp at h; subst h
      exact Or.inl (Or.inr (by simp [amountRanges, ha]))
    · simp at h
  · split at h
    · rename_i a ha
      simp at h; subst h
      exact Or.inr (by simp [amountRanges, ha])
    · simp at h

theorem commodityAt_eq {c : Cur} {cm : Commodity} {h : Hit} (hh : commodityAt c cm = some h) :
    h.rng = cm.range := by
  unfold commodityAt at hh
  split at hh
  · simp at hh; subst hh; rfl
  · simp at hh

theorem defPosting_node {j : Journal} {tx : Transaction} {p : Posting} {c : Cur} {h : Hit}
    (ht : tx ∈ j.transactions) (hp : p ∈ tx.postings) (hh : defPosting c p = some h) : hitNode j h := by
  unfold defPosting at hh
  split at hh
  · simp at hh; subst hh; exact Or.inl rfl
  · obtain ⟨cm, hcm, hc⟩ := List.exists_of_findSome?_eq_some hh
    rw [hitNode, commodityAt_eq hc]
    exact Or.inr (posting_range_mem ht hp (postingCommodities_mem hcm))

/-- The located commodity of a directive: computed from the symbol when the tree has no End for
    it, otherwise the range stored in the tree. -/
theorem directiveCommodityHit_node {j : Journal} {d : Directive} (nm : Bytes) {cm : Commodity}
    (hd : d ∈ j.directives) (hc : cm.range ∈ directiveRanges d) :
    hitNode j (directiveCommodityHit nm cm) := by
  unfold hitNode directiveCommodityHit directiveCommodityRange
  cases h : cm.range.stop == Pos.zero
  · right
    simp only [bne, h, Bool.not_false, if_true]
    exact dir_range_mem hd hc
  · left; rfl

theorem defDirective_node {j : Journal} {d : Directive} {c : Cur} {h : Hit}
    (hd : d ∈ j.directives) (hh : defDirective c d = some h) : hitNode j h := by
  cases d with
  | account a tags cmt sub r =>
    simp only [defDirective] at hh
    split at hh
    · simp at hh; subst hh; exact Or.inl rfl
    · simp at hh
  | commodity cm f n sub r =>
    simp only [defDirective] at hh
    split at hh
    · simp at hh; subst hh; exact directiveCommodityHit_node _ hd (by simp [directiveRanges])
    · simp at hh
  | price dt cm p r =>
    simp only [defDirective] at hh
    split at hh
    · simp at hh; subst hh; exact directiveCommodityHit_node _ hd (by simp [directiveRanges])
    · rw [hitNode, commodityAt_eq hh]
      exact Or.inr (dir_range_mem hd (by simp [directiveRanges, amountRanges]))
  | year y r => simp [defDirective] at hh
  | defaultCommodity sy f r => simp [defDirective] at hh

theorem findDefinitionTargetR_node {lns : List Txt} {j : Journal} {c : Cur} {h : Hit}
    (hh : findDefinitionTargetR lns j c = some h) : hitNode j h := by
  unfold findDefinitionTargetR at hh
  split at hh
  · rename_i h' hf
    simp at hh; subst hh
    obtain ⟨tx, ht, htx⟩ := List.exists_of_findSome?_eq_some hf
    unfold defTx at htx
    simp only at htx
    split at htx
    · simp at htx; subst htx; exact Or.inl rfl
    · obtain ⟨p, hp, hpp⟩ := List.exists_of_findSome?_eq_some htx
      exact defPosting_node ht hp hpp
  · obtain ⟨d, hd, hdd⟩ := List.exists_of_findSome?_eq_some hh
    exact defDirective_node hd hdd

theorem findDefinitionTarget_node {lns : List Txt} {j : Journal} {c : Cur} {h : Hit}
    (hh : findDefinitionTarget lns j c = some h) : hitNode j h :=
  findDefinitionTargetR_node hh

theorem earliest_mem {best : Option (Date × Rng)} {l : List (Date × Rng)} {x : Date × Rng}
    (h : earliest best l = some x) : best = some x ∨ x ∈ l := by
  induction l generalizing best with
  | nil => simp [earliest] at h; exact Or.inl h
  | cons y ys ih =>
    cases best with
    | none =>
      simp only [earliest] at h
      rcases ih h with h1 | h1
      · simp at h1; subst h1; exact Or.inr (by simp)
      · exact Or.inr (by simp [h1])
    | some b =>
      simp only [earliest] at h
      split at h
      · rcases ih h with h1 | h1
        · simp at h1; subst h1; exact Or.inr (by simp)
        · exact Or.inr (by simp [h1])
      · rcases ih h with h1 | h1
        · exact Or.inl h1
        · exact Or.inr (by simp [h1])

theorem accountUsages_mem {j : Journal} {name : Bytes} {x : Date × Rng} (h : x ∈ accountUsages j name) :
    x.2 ∈ nodeRanges j := by
  simp only [accountUsages, List.mem_flatMap, List.mem_map, List.mem_filter] at h
  obtain ⟨tx, ht, p, ⟨hp, _⟩, rfl⟩ := h
  exact posting_range_mem ht hp (by simp [postingRanges])

theorem commodityUsages_mem {j : Journal} {sym : Bytes} {x : Date × Rng} (h : x ∈ commodityUsages j sym) :
    x.2 ∈ nodeRanges j := by
  simp only [commodityUsages, List.mem_flatMap, List.mem_filterMap] at h
  obtain ⟨tx, ht, p, hp, hx⟩ := h
  split at hx
  · rename_i a ha
    split at hx
    · simp at hx; subst hx
      exact posting_range_mem ht hp (by simp [postingRanges, ha, amountRanges])
    · simp at hx
  · simp at hx

theorem payeeUsages_mem {j : Journal} {payee : Bytes} {x : Date × Rng} (h : x ∈ payeeUsages j payee) :
    x.2 ∈ nodeRanges j := by
  simp only [payeeUsages, List.mem_map, List.mem_filter] at h
  obtain ⟨tx, ⟨ht, _⟩, rfl⟩ := h
  exact tx_range_mem ht (by simp [txRanges])

/-- Every definition location is the conversion of a range stored in the tree. -/
theorem definitionHit_mem {j : Journal} {t h : Hit} (hh : definitionHit j t = some h) :
    h.rng ∈ nodeRanges j := by
  unfold definitionHit at hh
  split at hh
  · split at hh
    · rename_i r hf
      simp at hh; subst hh
      obtain ⟨d, hd, hdd⟩ := List.exists_of_findSome?_eq_some hf
      split at hdd
      · split at hdd
        · simp at hdd; subst hdd; exact dir_range_mem hd (by simp [directiveRanges])
        · simp at hdd
      · simp at hdd
    · simp only [Option.map_eq_some_iff] at hh
      obtain ⟨x, hx, rfl⟩ := hh
      rcases earliest_mem hx with h1 | h1
      · simp at h1
      · exact accountUsages_mem h1
  · split at hh
    · rename_i r hf
      simp at hh; subst hh
      obtain ⟨d, hd, hdd⟩ := List.exists_of_findSome?_eq_some hf
      split at hdd
      · split at hdd
        · simp at hdd; subst hdd; exact dir_range_mem hd (by simp [directiveRanges])
        · simp at hdd
      · simp at hdd
    · simp only [Option.map_eq_some_iff] at hh
      obtain ⟨x, hx, rfl⟩ := hh
      rcases earliest_mem hx with h1 | h1
      · simp at h1
      · exact commodityUsages_mem h1
  · simp only [Option.map_eq_some_iff] at hh
    obtain ⟨x, hx, rfl⟩ := hh
    rcases earliest_mem hx with h1 | h1
    · simp at h1
    · exact payeeUsages_mem h1
  · simp at hh

theorem dedupFrom_sub {α} (p : α × LRange) (l : List (α × LRange)) : ∀ x ∈ dedupFrom p l, x = p ∨ x ∈ l := by
  induction l generalizing p with
  | nil => intro x hx; simp [dedupFrom] at hx; exact Or.inl hx
  | cons y ys ih =>
    intro x hx
    simp only [dedupFrom] at hx
    split at hx
    · rcases ih p x hx with h | h
      · exact Or.inl h
      · exact Or.inr (by simp [h])
    · simp only [List.mem_cons] at hx
      rcases hx with h | h
      · exact Or.inl h
      · rcases ih y x h with h1 | h1
        · exact Or.inr (by simp [h1])
        · exact Or.inr (by simp [h1])

theorem dedupAdj_sub {α} (l : List (α × LRange)) : ∀ x ∈ dedupAdj l, x ∈ l := by
  cases l with
  | nil => simp [dedupAdj]
  | cons y ys =>
    intro x hx
    simp only [dedupAdj] at hx
    rcases dedupFrom_sub y ys x hx with h | h
    · simp [h]
    · simp [h]

theorem mem_insertLe {α} (x z : α × LRange) (l : List (α × LRange)) (h : z ∈ insertLe x l) :
    z = x ∨ z ∈ l := by
  induction l with
  | nil => simp [insertLe] at h; exact Or.inl h
  | cons y ys ih =>
    simp only [insertLe] at h
    split at h
    · simp only [List.mem_cons] at h ⊢; exact h
    · simp only [List.mem_cons] at h ⊢
      rcases h with h | h
      · exact Or.inr (Or.inl h)
      · rcases ih h with h1 | h1
        · exact Or.inl h1
        · exact Or.inr (Or.inr h1)

theorem sortStart_sub {α} (l : List (α × LRange)) : ∀ x ∈ sortStart l, x ∈ l := by
  induction l with
  | nil => simp [sortStart]
  | cons y ys ih =>
    intro x hx
    simp only [sortStart, List.foldr_cons] at hx
    rcases mem_insertLe _ _ _ hx with h | h
    · simp [h]
    · simp [ih x h]

theorem sortAndDedup_sub {α} (l : List (α × LRange)) : ∀ x ∈ sortAndDedup l, x ∈ l := by
  intro x hx
  exact sortStart_sub _ x (dedupAdj_sub _ x hx)


theorem LRange.eq_of_beq {a b : LRange} (h : (a == b) = true) : a = b := by
  cases a; cases b
  have := h
  simp only [BEq.beq] at this
  simp_all [instBEqLRange.beq]

theorem mem_insertLe_self {α} (x : α × LRange) (l : List (α × LRange)) : x ∈ insertLe x l := by
  induction l with
  | nil => simp [insertLe]
  | cons y ys ih => simp only [insertLe]; split <;> simp [ih]

theorem mem_insertLe_of_mem {α} (x z : α × LRange) (l : List (α × LRange)) (h : z ∈ l) : z ∈ insertLe x l := by
  induction l with
  | nil => cases h
  | cons y ys ih =>
    simp only [insertLe]
    split
    · simp only [List.mem_cons] at h ⊢; exact Or.inr h
    · simp only [List.mem_cons] at h ⊢
      rcases h with h | h
      · exact Or.inl h
      · exact Or.inr (ih h)

theorem sortStart_sup {α} (l : List (α × LRange)) : ∀ x ∈ l, x ∈ sortStart l := by
  induction l with
  | nil => intro x hx; cases hx
  | cons y ys ih =>
    intro x hx
    simp only [sortStart, List.foldr_cons]
    simp only [List.mem_cons] at hx
    rcases hx with rfl | hx
    · exact mem_insertLe_self _ _
    · exact mem_insertLe_of_mem _ _ _ (ih x hx)

theorem dedupFrom_sup {α} (l : List (α × LRange)) : ∀ (p x : α × LRange), (x = p ∨ x ∈ l) →
    ∃ y ∈ dedupFrom p l, y.2 = x.2 := by
  induction l with
  | nil =>
    intro p x hx
    rcases hx with rfl | hx
    · exact ⟨x, by simp [dedupFrom], rfl⟩
    · cases hx
  | cons y rest ih =>
    intro p x hx
    simp only [dedupFrom]
    split
    · rename_i heq
      have he := LRange.eq_of_beq heq
      rcases hx with rfl | hx
      · exact ih x x (Or.inl rfl)
      · simp only [List.mem_cons] at hx
        rcases hx with rfl | hx
        · obtain ⟨z, hz, hz2⟩ := ih p p (Or.inl rfl)
          exact ⟨z, hz, by rw [hz2, he]⟩
        · exact ih p x (Or.inr hx)
    · rcases hx with rfl | hx
      · exact ⟨x, by simp, rfl⟩
      · obtain ⟨z, hz, hz2⟩ := ih y x (by simpa [List.mem_cons] using hx)
        exact ⟨z, by simp [hz], hz2⟩

/-- Nothing is lost by `sortAndDedup`: every collected location is in the response (merged with
    the locations that have the same range). -/
theorem sortAndDedup_sup {α} (l : List (α × LRange)) : ∀ x ∈ l, ∃ y ∈ sortAndDedup l, y.2 = x.2 := by
  intro x hx
  have hs := sortStart_sup l x hx
  unfold sortAndDedup
  cases hl : sortStart l with
  | nil => rw [hl] at hs; cases hs
  | cons a rest =>
    rw [hl] at hs
    simp only [dedupAdj]
    exact dedupFrom_sup rest a x (by simpa [List.mem_cons] using hs)

/-- Every reference location is the conversion of a hit that was computed by column arithmetic
    or carries a range stored in the tree. -/
theorem referenceHits_node {lns : List Txt} {j : Journal} {t : Hit} {decl : Bool} {h : Hit}
    (hh : h ∈ referenceHits lns j t decl) : hitNode j h := by
  unfold referenceHits at hh
  split at hh
  · simp only [List.mem_append, List.mem_flatMap, List.mem_map, List.mem_filter] at hh
    rcases hh with hh | ⟨tx, ht, p, ⟨hp, _⟩, rfl⟩
    · split at hh
      · simp only [List.mem_filterMap] at hh
        obtain ⟨d, hd, hdd⟩ := hh
        split at hdd
        · split at hdd
          · simp at hdd; subst hdd; exact Or.inl rfl
          · simp at hdd
        · simp at hdd
      · simp at hh
    · exact Or.inl rfl
  · simp only [List.mem_append, List.mem_flatMap, List.mem_map, List.mem_filter] at hh
    rcases hh with ⟨d, hd, hdd⟩ | ⟨tx, ht, p, hp, cm, ⟨hcm, _⟩, rfl⟩
    · cases d with
      | commodity cm f n sub r =>
        simp only [commodityRefDirective] at hdd
        split at hdd
        · simp at hdd; subst hdd; exact directiveCommodityHit_node _ hd (by simp [directiveRanges])
        · simp at hdd
      | price dt cm p r =>
        simp only [commodityRefDirective, List.mem_append] at hdd
        rcases hdd with hdd | hdd
        · split at hdd
          · simp at hdd; subst hdd; exact directiveCommodityHit_node _ hd (by simp [directiveRanges])
          · simp at hdd
        · split at hdd
          · simp at hdd; subst hdd
            exact Or.inr (dir_range_mem hd (by simp [directiveRanges, amountRanges]))
          · simp at hdd
      | account a tags cmt sub r => simp [commodityRefDirective] at hdd
      | year y r => simp [commodityRefDirective] at hdd
      | defaultCommodity sy f r => simp [commodityRefDirective] at hdd
    · exact Or.inr (posting_range_mem ht hp (postingCommodities_mem hcm))
  · simp only [List.mem_map, List.mem_filter] at hh
    obtain ⟨tx, _, rfl⟩ := hh
    exact Or.inl rfl
  · simp at hh

theorem payeeSymbols_derived {lns : List Txt} {seen : List Bytes} {txs : List Transaction} {h : Hit}
    (hh : h ∈ payeeSymbols lns seen txs) : h.derived = true := by
  induction txs generalizing seen with
  | nil => simp [payeeSymbols] at hh
  | cons tx rest ih =>
    simp only [payeeSymbols] at hh
    split at hh
    · simp only [List.mem_cons] at hh
      rcases hh with rfl | hh
      · rfl
      · exact ih hh
    · exact ih hh

theorem workspaceSymbolHits_node {lns : List Txt} {j : Journal} {h : Hit} (hh : h ∈ workspaceSymbolHits lns j) :
    hitNode j h := by
  simp only [workspaceSymbolHits, List.mem_append, List.mem_filterMap] at hh
  rcases hh with ⟨d, hd, hdd⟩ | hh
  · split at hdd
    · simp at hdd; subst hdd; exact Or.inl rfl
    · simp at hdd; subst hdd; exact directiveCommodityHit_node _ hd (by simp [directiveRanges])
    · simp at hdd
  · exact Or.inl (payeeSymbols_derived hh)

/-- Guard of a located element.  Payee ranges, the two halves of a tag and the `nameRange`s of
    definition / references / rename / workspace symbols are computed by column arithmetic, not
    stored in the tree: the guard asks that the computed rune columns be positions of the text
    (for a payee it holds on every header of the grammar: `HL.Props.C08.payeeRange_lexSound`;
    it failed under the estimate of the tree as pinned whenever a code, a secondary date or
    extra blanks preceded the payee).  The
    commodity of a `commodity` / `P` directive carries the range stored in the tree when the
    parser recorded its End (fix-quoted-commodity-directive.diff), and is computed from the symbol
    otherwise.  Every other element carries a range of the tree and only needs an End.  Nothing is asked about the characters that
    precede the range. -/
def hitGuard (doc : Txt) (h : Hit) : Bool :=
  if h.derived then rngSound one doc h.rng else hasEnd h.rng

theorem hit_rangeOK {doc : Txt} {j : Journal} {h : Hit}
    (ht : TreePositionsSound one doc j = true) (hd : docSmall doc = true) (hn : hitNode j h)
    (hg : hitGuard doc h = true) : rangeOK doc (toN (astRangeToProtocol (lines doc) h.rng)) = true := by
  unfold hitGuard at hg
  unfold hitNode at hn
  split at hg
  · exact conv_rangeOK hg hd
  · rename_i hdv
    rcases hn with hn | hn
    · exact absurd hn hdv
    · exact node_rangeOK ht hd hn hg

/-! ### Laminar families -/

theorem allPairs_map {α β} {rel : α → α → Bool} {rel' : β → β → Bool} (f : α → β) (l : List α)
    (h : ∀ a ∈ l, ∀ b ∈ l, rel a b = true → rel' (f a) (f b) = true)
    (hl : allPairs rel l = true) : allPairs rel' (l.map f) = true := by
  induction l with
  | nil => rfl
  | cons a rest ih =>
    simp only [allPairs, Bool.and_eq_true, List.all_eq_true, List.map_cons, List.mem_map] at hl ⊢
    refine ⟨?_, ih (fun x hx y hy => h x (by simp [hx]) y (by simp [hy])) hl.2⟩
    rintro _ ⟨b, hb, rfl⟩
    exact h a (by simp) b (by simp [hb]) (hl.1 b hb)

theorem allPairs_filterMap {α β} {rel : α → α → Bool} {rel' : β → β → Bool} (f : α → Option β) (l : List α)
    (h : ∀ a ∈ l, ∀ b ∈ l, rel a b = true → ∀ x, f a = some x → ∀ y, f b = some y → rel' x y = true)
    (hl : allPairs rel l = true) : allPairs rel' (l.filterMap f) = true := by
  induction l with
  | nil => rfl
  | cons a rest ih =>
    simp only [allPairs, Bool.and_eq_true, List.all_eq_true] at hl
    have ih' := ih (fun x hx y hy => h x (by simp [hx]) y (by simp [hy])) hl.2
    simp only [List.filterMap_cons]
    cases hfa : f a with
    | none => simpa using ih'
    | some x =>
      simp only [allPairs, Bool.and_eq_true, List.all_eq_true, List.mem_filterMap]
      refine ⟨?_, ih'⟩
      rintro y ⟨b, hb, hfb⟩
      exact h a (by simp) b (by simp [hb]) (hl.1 b hb) x hfa y hfb

/-- Half-open position ranges of the tree that do not overlap. -/
def astDisjoint (a b : Rng) : Bool := posLe a.stop b.start || posLe b.stop a.start

/-- The conversion is monotone on every line, whatever the text: ranges that do not overlap in
    the tree do not overlap on the wire. -/
theorem symRel_conv {lns : List Txt} {a b : Rng} (hs : linesSmall lns) (ha : rngSmall a = true)
    (hb : rngSmall b = true) (pa : rngPos a = true) (pb : rngPos b = true) (h : astDisjoint a b = true) :
    symRel (toN (astRangeToProtocol lns a)) (toN (astRangeToProtocol lns b)) = true := by
  rw [toN_conv hs ha pa, toN_conv hs hb pb]
  simp only [rngPos, Bool.and_eq_true, decide_eq_true_eq] at pa pb
  simp only [astDisjoint, Bool.or_eq_true] at h
  simp only [symRel, Bool.or_eq_true]
  rcases h with h | h
  · exact Or.inl (Or.inl (Or.inl (leqPos_conv pa.1.2 h)))
  · exact Or.inl (Or.inl (Or.inr (leqPos_conv pb.1.2 h)))

theorem u32_pred_toNat {e s : UInt32} (h : e > s) : (e - 1).toNat = e.toNat - 1 := by
  have h' : s.toNat < e.toNat := UInt32.lt_iff_toNat_lt.mp h
  have : (1 : UInt32) ≤ e := by
    rw [UInt32.le_iff_toNat_le]; simp; omega
  rw [UInt32.toNat_sub_of_le _ _ this]; rfl

/-- What the fold of one transaction is, in natural numbers. -/
theorem txFold_spec {fx : Fixes} {t : Transaction} {f : Fold} (st : rngSmall t.range = true)
    (pt : rngPos t.range = true) (hf : txFold fx t = some f) :
    f.s.toNat = t.range.start.line - 1 ∧ f.s.toNat < f.e.toNat ∧ f.e.toNat ≤ t.range.stop.line - 1 ∧
    (fx.fold = false → f.e.toNat = t.range.stop.line - 1) ∧
    (fx.fold = true → t.range.stop.col = 1 → f.e.toNat = t.range.stop.line - 2) := by
  simp only [rngSmall, rngPos, Bool.and_eq_true, decide_eq_true_eq] at st pt
  have e1 := m1_toNat pt.1.1.1 st.1.1.1
  have e2 := m1_toNat pt.1.2 st.1.2
  unfold txFold at hf
  by_cases hp : t.postings.isEmpty = true
  · simp [hp] at hf
  · simp only [hp, Bool.false_eq_true, if_false] at hf
    cases hc : (fx.fold && t.range.stop.col == 1 && decide (m1 t.range.stop.line > m1 t.range.start.line)) with
    | true =>
      simp only [hc, if_true] at hf
      simp only [Bool.and_eq_true, decide_eq_true_eq, beq_iff_eq] at hc
      have hpred := u32_pred_toNat hc.2
      by_cases hgt : m1 t.range.stop.line - 1 > m1 t.range.start.line
      · simp only [hgt, if_true, Option.some.injEq] at hf
        subst hf
        have hlt := UInt32.lt_iff_toNat_lt.mp hgt
        simp only
        rw [hpred] at hlt ⊢
        rw [e1] at hlt ⊢
        rw [e2] at hlt ⊢
        refine ⟨rfl, by omega, by omega, ?_, fun _ _ => by omega⟩
        intro h0; rw [h0] at hc; simp at hc
      · simp [hgt] at hf
    | false =>
      simp only [hc, Bool.false_eq_true, if_false] at hf
      by_cases hgt : m1 t.range.stop.line > m1 t.range.start.line
      · simp only [hgt, if_true, Option.some.injEq] at hf
        subst hf
        have hlt := UInt32.lt_iff_toNat_lt.mp hgt
        rw [e1, e2] at hlt
        simp only
        refine ⟨e1, by rw [e1, e2]; omega, by rw [e2]; omega, fun _ => e2, ?_⟩
        intro h1 h2
        exfalso
        simp [h1, h2, hgt] at hc
      · simp [hgt] at hf

/-! ### Completion edit range -/

theorem takeU16_of_charsOf {l : Txt} {n k : Nat} (suf : Txt) (h : charsOf u16w l n = some k) :
    takeU16 (l ++ suf) n = k := by
  induction l generalizing n k with
  | nil =>
    cases n with
    | zero => simp [charsOf] at h; subst h; cases suf <;> simp [takeU16]
    | succ n => simp [charsOf] at h
  | cons c cs ih =>
    cases n with
    | zero => simp [charsOf] at h; subst h; simp [takeU16]
    | succ n =>
      simp only [charsOf] at h
      split at h
      · cases h' : charsOf u16w cs (n + 1 - u16w c) with
        | none => simp [h'] at h
        | some k' =>
          simp [h'] at h
          subst h
          simp only [List.cons_append, takeU16, Nat.add_one_ne_zero, if_false, ih h']
          omega
      · simp at h

theorem u16len_take_mono (l : Txt) {a b : Nat} (hab : a ≤ b) (hb : b ≤ l.length) :
    u16len (l.take a) ≤ u16len (l.take b) := by
  rcases Nat.lt_or_ge a b with h | h
  · exact Nat.le_of_lt (u16len_take_lt l b a h hb)
  · have : a = b := by omega
    subst this; exact Nat.le_refl _

/-! ### Include links (fix-link-range.diff) -/

theorem indexOf_spec {pat s : Txt} {i p : Nat} (h : indexOf pat s i = some p) :
    i ≤ p ∧ p - i + pat.length ≤ s.length ∧ (s.drop (p - i)).take pat.length = pat := by
  induction s generalizing i with
  | nil =>
    simp only [indexOf] at h
    split at h
    · rename_i he
      simp at h; subst h
      have : pat = [] := by simpa using he
      subst this; simp
    · simp at h
  | cons c r ih =>
    simp only [indexOf] at h
    split at h
    · rename_i hp
      simp at h; subst h
      have hpre := List.isPrefixOf_iff_prefix.mp hp
      obtain ⟨t, ht⟩ := hpre
      refine ⟨Nat.le_refl _, ?_, ?_⟩
      · have := congrArg List.length ht
        simp at this; simp; omega
      · simp only [Nat.sub_self, List.drop_zero]
        rw [← ht]; simp
    · obtain ⟨h1, h2, h3⟩ := ih h
      refine ⟨by omega, by simp; omega, ?_⟩
      have : p - i = (p - (i + 1)) + 1 := by omega
      rw [this, List.drop_succ_cons]; exact h3

theorem u16len_take_add (l : Txt) (a n : Nat) :
    u16len (l.take (a + n)) = u16len (l.take a) + u16len ((l.drop a).take n) := by
  rw [← u16len_append, ← List.take_add]

/-! ### Fold regions computed from the text are line intervals of the document -/

/-- A fold whose two lines are `s < e < n`. -/
def foldIn (n : Nat) (f : Fold) : Prop := ∃ s e, f.s = UInt32.ofNat s ∧ f.e = UInt32.ofNat e ∧ s < e ∧ e < n

theorem indentedEnd_bound (rest : List Txt) (j e : Nat) (he : e < j) :
    e ≤ indentedEnd rest j e ∧ indentedEnd rest j e < j + rest.length := by
  induction rest generalizing j e with
  | nil => simp [indentedEnd]; omega
  | cons n rest ih =>
    simp only [indentedEnd]
    split
    · split
      · have := ih (j + 1) j (by omega)
        simp only [List.length_cons]; omega
      · have := ih (j + 1) e (by omega)
        simp only [List.length_cons]; omega
    · simp only [List.length_cons]; omega

theorem directiveFoldsFrom_in (fx : Fixes) (ls : List Txt) (i : Nat) :
    ∀ f ∈ directiveFoldsFrom fx ls i, foldIn (i + ls.length) f := by
  induction ls generalizing i with
  | nil => simp [directiveFoldsFrom]
  | cons l rest ih =>
    intro f hf
    simp only [directiveFoldsFrom, List.mem_append] at hf
    rcases hf with hf | hf
    · split at hf
      · split at hf
        · rename_i hgt
          simp only [List.mem_singleton] at hf
          subst hf
          have := indentedEnd_bound rest (i + 1) i (by omega)
          exact ⟨i, indentedEnd rest (i + 1) i, rfl, rfl, hgt, by simp only [List.length_cons]; omega⟩
        · simp at hf
      · simp at hf
    · obtain ⟨s, e, h1, h2, h3, h4⟩ := ih (i + 1) f hf
      exact ⟨s, e, h1, h2, h3, by simp only [List.length_cons]; omega⟩

theorem closeBlock_in {start : Option (Nat × Bool)} {i n : Nat} (hi : i ≤ n) :
    ∀ f ∈ closeBlock start i, foldIn n f := by
  intro f hf
  unfold closeBlock at hf
  split at hf
  · rename_i s cls
    split at hf
    · rename_i hgt
      simp only [List.mem_singleton] at hf
      subst hf
      exact ⟨s, i - 1, rfl, rfl, hgt, by omega⟩
    · simp at hf
  · simp at hf

theorem commentFoldsFrom_in (fx : Fixes) (ls : List Txt) (i : Nat) (start : Option (Nat × Bool)) :
    ∀ f ∈ commentFoldsFrom fx ls i start, foldIn (i + ls.length) f := by
  induction ls generalizing i start with
  | nil =>
    intro f hf
    simp only [commentFoldsFrom] at hf
    exact closeBlock_in (by simp) f hf
  | cons l rest ih =>
    intro f hf
    have hlen : i + 1 + rest.length = i + (l :: rest).length := by simp only [List.length_cons]; omega
    simp only [commentFoldsFrom] at hf
    split at hf
    · split at hf
      · rw [← hlen]; exact ih _ _ f hf
      · split at hf
        · simp only [List.mem_append] at hf
          rcases hf with hf | hf
          · exact closeBlock_in (by simp only [List.length_cons]; omega) f hf
          · rw [← hlen]; exact ih _ _ f hf
        · rw [← hlen]; exact ih _ _ f hf
    · simp only [List.mem_append] at hf
      rcases hf with hf | hf
      · exact closeBlock_in (by simp only [List.length_cons]; omega) f hf
      · rw [← hlen]; exact ih _ _ f hf

/-! ### Helpers for the payee theorems of HL.Props.C08 -/

/-- A line of the client's view is the mapper's line, or the mapper's line without the CR of a
    CRLF line end. -/
theorem docLines_lines (doc : Txt) (i : Nat) (ln : Txt) (h : (docLines doc)[i]? = some ln) :
    ∃ l, (lines doc)[i]? = some l ∧ (l = ln ∨ l = ln ++ ['\r']) := by
  simp only [docLines, List.getElem?_map, Option.map_eq_some_iff] at h
  obtain ⟨l, hl, hs⟩ := h
  refine ⟨l, hl, ?_⟩
  unfold stripCR at hs
  split at hs
  · rename_i hcr
    right
    rw [← hs]
    have hne : l ≠ [] := by intro e; simp [e] at hcr
    have := List.dropLast_concat_getLast hne
    rw [List.getLast?_eq_some_getLast hne] at hcr
    simp only [Option.some.injEq] at hcr
    rw [hcr] at this
    exact this.symm
  · left; exact hs

theorem findTag_kind {tags : List Tag} {c : Cur} {h : Hit} (hh : findTagAtPosition tags c = some h) :
    h.kind ≠ .payee := by
  unfold findTagAtPosition at hh
  split at hh
  · simp at hh
  · simp only at hh
    split at hh <;> (simp at hh; subst hh; simp)

theorem hoverPosting_kind {c : Cur} {p : Posting} {h : Hit} (hh : hoverPosting c p = some h) :
    h.kind ≠ .payee := by
  unfold hoverPosting at hh
  split at hh
  · simp at hh; subst hh; simp
  · split at hh
    · split at hh
      · simp at hh; subst hh; simp
      · exact findTag_kind hh
    · exact findTag_kind hh

theorem commodityAt_kind {c : Cur} {cm : Commodity} {h : Hit} (hh : commodityAt c cm = some h) :
    h.kind ≠ .payee := by
  unfold commodityAt at hh
  split at hh
  · simp at hh; subst hh; simp
  · simp at hh

theorem defPosting_kind {c : Cur} {p : Posting} {h : Hit} (hh : defPosting c p = some h) :
    h.kind ≠ .payee := by
  unfold defPosting at hh
  split at hh
  · simp at hh; subst hh; simp
  · obtain ⟨cm, _, hc⟩ := List.exists_of_findSome?_eq_some hh
    exact commodityAt_kind hc

theorem defDirective_kind {c : Cur} {d : Directive} {h : Hit} (hh : defDirective c d = some h) :
    h.kind ≠ .payee := by
  cases d with
  | account a tags cmt sub r =>
    simp only [defDirective] at hh
    split at hh
    · simp at hh; subst hh; simp
    · simp at hh
  | commodity cm f n sub r =>
    simp only [defDirective] at hh
    split at hh
    · simp at hh; subst hh; simp [directiveCommodityHit]
    · simp at hh
  | price dt cm p r =>
    simp only [defDirective] at hh
    split at hh
    · simp at hh; subst hh; simp [directiveCommodityHit]
    · exact commodityAt_kind hh
  | year y r => simp [defDirective] at hh
  | defaultCommodity sy f r => simp [defDirective] at hh

end HL.Lemmas.Ranges
