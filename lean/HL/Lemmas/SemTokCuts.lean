/-
  Helper lemmas for C17, rune boundaries: a byte offset is a *cut* of a string when it is the
  start of a rune (or the end) in the left-to-right decoding of the string.  At cuts the UTF-16
  cursor `colAt` measures UTF-16 lengths exactly (`colAt_add`, `colAt_lastPiece`); cuts of a
  piece between two cuts are cuts of the whole (`cut_slice`); the ends of a trimmed string
  (`cut_leadWs`, `cut_trimEnd`) and every ASCII byte (`cut_ascii`) are cuts.
-/
import HL.Lemmas.SemTokUtf
import HL.Spec.SemTokSpec
namespace HL.Lemmas.SemTok
open HL HL.SemTok HL.SemTokSpec

/-- Truncation: what `decodeRune` returns depends only on the bytes it consumes. -/
theorem decodeRune_take (s : Bytes) (n : Nat) (h : (decodeRune s).2 ≤ n) :
    decodeRune (s.take n) = decodeRune s := by
  rcases s with _ | ⟨b0, _ | ⟨b1, _ | ⟨b2, _ | ⟨b3, t⟩⟩⟩⟩ <;>
  rcases n with _ | _ | _ | _ | n <;>
  simp only [List.take, decodeRune] at h ⊢ <;>
  (repeat' split) <;> simp_all

theorem chunksF_fuel2 (f g : Nat) (s : Bytes) (h : s.length ≤ f) (h' : s.length ≤ g) :
    chunksF f s = chunksF g s := by
  induction f generalizing s g with
  | zero =>
    have : s = [] := by cases s with | nil => rfl | cons _ _ => simp at h
    subst this; cases g <;> rfl
  | succ f ih =>
    cases s with
    | nil => cases g <;> simp [chunksF]
    | cons b t =>
      cases g with
      | zero => simp at h'
      | succ g =>
        have hk1 := decodeRune_width_pos b t
        have hk2 := decodeRune_width_le b t
        simp only [List.length_cons] at h h' hk2
        have hl : ((b :: t).drop (decodeRune (b :: t)).2).length ≤ f := by
          simp only [List.length_drop, List.length_cons]; omega
        have hl' : ((b :: t).drop (decodeRune (b :: t)).2).length ≤ g := by
          simp only [List.length_drop, List.length_cons]; omega
        simp only [chunksF]
        rw [ih g _ hl hl']

theorem chunksF_fuel (f : Nat) (s : Bytes) (h : s.length ≤ f) : chunksF f s = chunks s :=
  chunksF_fuel2 f s.length s h (Nat.le_refl _)

theorem chunks_nil : chunks [] = [] := rfl

theorem chunks_cons (b : UInt8) (t : Bytes) :
    chunks (b :: t) = ((decodeRune (b :: t)).1, (b :: t).take (decodeRune (b :: t)).2)
      :: chunks ((b :: t).drop (decodeRune (b :: t)).2) := by
  have hk1 := decodeRune_width_pos b t
  have hk2 := decodeRune_width_le b t
  have hl' : ((b :: t).drop (decodeRune (b :: t)).2).length ≤ t.length := by
    simp only [List.length_drop, List.length_cons] at hk2 ⊢; omega
  simp only [chunks, List.length_cons, chunksF]
  rw [chunksF_fuel2 _ _ _ hl' (Nat.le_refl _)]

/-- Total byte length of a chunk list. -/
def clen (l : List (Nat × Bytes)) : Nat := (unchunk l).length

theorem clen_nil : clen [] = 0 := rfl
theorem clen_cons (c : Nat × Bytes) (l : List (Nat × Bytes)) : clen (c :: l) = c.2.length + clen l := by
  simp [clen, unchunk]
theorem clen_append (a b : List (Nat × Bytes)) : clen (a ++ b) = clen a + clen b := by
  simp [clen, unchunk_append]
theorem clen_chunks (s : Bytes) : clen (chunks s) = s.length := by simp [clen, unchunk_chunks]

/-- `n` is a rune boundary of `s`: the start of a rune, or the end, when `s` is decoded from its
    start (`for i := range s`). -/
def Cut (s : Bytes) (n : Nat) : Prop := ∃ j, n = clen ((chunks s).take j)

theorem cut_zero (s : Bytes) : Cut s 0 := ⟨0, rfl⟩
theorem cut_length (s : Bytes) : Cut s s.length :=
  ⟨(chunks s).length, by rw [List.take_length, clen_chunks]⟩

theorem cut_le {s : Bytes} {n : Nat} (h : Cut s n) : n ≤ s.length := by
  obtain ⟨j, rfl⟩ := h
  have := clen_chunks s
  have h2 : chunks s = (chunks s).take j ++ (chunks s).drop j := (List.take_append_drop j _).symm
  rw [h2, clen_append] at this
  omega

/-- Cutting at a rune boundary: the runes of the two pieces are the runes of the whole. -/
theorem chunks_take_drop (j : Nat) (s : Bytes) :
    chunks (s.take (clen ((chunks s).take j))) = (chunks s).take j ∧
    chunks (s.drop (clen ((chunks s).take j))) = (chunks s).drop j := by
  induction j generalizing s with
  | zero => simp [clen_nil, chunks_nil]
  | succ j ih =>
    cases s with
    | nil => simp [chunks_nil, clen_nil]
    | cons b t =>
      have hk1 := decodeRune_width_pos b t
      have hk2 := decodeRune_width_le b t
      rw [chunks_cons b t]
      simp only [List.take_succ_cons, List.drop_succ_cons, clen_cons, List.length_take]
      rw [Nat.min_eq_left hk2]
      obtain ⟨ih1, ih2⟩ := ih ((b :: t).drop (decodeRune (b :: t)).2)
      generalize hn : clen (List.take j (chunks (List.drop (decodeRune (b :: t)).2 (b :: t)))) = n at ih1 ih2
      constructor
      · have hk1' : (decodeRune (b :: t)).2 = (decodeRune (b :: t)).2 - 1 + 1 := by omega
        have htk : (b :: t).take ((decodeRune (b :: t)).2 + n) = b :: t.take ((decodeRune (b :: t)).2 - 1 + n) := by
          rw [show (decodeRune (b :: t)).2 + n = ((decodeRune (b :: t)).2 - 1 + n) + 1 by omega]
          rfl
        have hd := decodeRune_take (b :: t) ((decodeRune (b :: t)).2 + n) (by omega)
        rw [htk] at hd
        rw [htk, chunks_cons, hd, ← htk]
        simp only [List.take_take, List.drop_take]
        rw [Nat.min_eq_left (by omega), show (decodeRune (b :: t)).2 + n - (decodeRune (b :: t)).2 = n by omega, ih1]
      · rw [← List.drop_drop, ih2]

theorem chunks_cut {s : Bytes} {n : Nat} (h : Cut s n) :
    chunks s = chunks (s.take n) ++ chunks (s.drop n) := by
  obtain ⟨j, rfl⟩ := h
  obtain ⟨h1, h2⟩ := chunks_take_drop j s
  rw [h1, h2, List.take_append_drop]

theorem runes_cut {s : Bytes} {n : Nat} (h : Cut s n) :
    runes s = runes (s.take n) ++ runes (s.drop n) := by
  simp only [runes, chunks_cut h, List.map_append]

theorem u16sum_append (a b : List Nat) : u16sum (a ++ b) = u16sum a + u16sum b := by
  induction a with
  | nil => simp [u16sum]
  | cons x xs ih => simp [u16sum, ih]; omega

theorem u16lenB_cut {s : Bytes} {n : Nat} (h : Cut s n) :
    u16lenB s = u16lenB (s.take n) + u16lenB (s.drop n) := by
  simp only [u16lenB, runes_cut h, u16sum_append]

/-- The bytes of a rune after its first one are not ASCII. -/
theorem decodeRune_tail (s : Bytes) (j : Nat) (x : UInt8) (h0 : 0 < j) (h1 : j < (decodeRune s).2)
    (hx : s[j]? = some x) : 128 ≤ x.toNat := by
  rcases s with _ | ⟨b0, _ | ⟨b1, _ | ⟨b2, _ | ⟨b3, t⟩⟩⟩⟩ <;>
  simp only [decodeRune] at h1 <;>
  (repeat' split at h1) <;>
  (try simp only [] at h1) <;>
  (rcases j with _ | _ | _ | _ | j <;> try omega) <;>
  (simp only [List.getElem?_cons_succ, List.getElem?_cons_zero, Option.some.injEq
      ] at hx) <;>
  (try subst hx) <;>
  (simp only [isCont, Bool.and_eq_true, decide_eq_true_eq, UInt8.le_iff_toNat_le, UInt8.reduceToNat] at *) <;>
  (try omega)

/-! ### the cursor in terms of runes -/

theorem chunksF_pos (f : Nat) (s : Bytes) : ∀ c ∈ chunksF f s, 1 ≤ c.2.length := by
  induction f generalizing s with
  | zero => simp [chunksF]
  | succ f ih =>
    cases s with
    | nil => simp [chunksF]
    | cons b t =>
      have hk1 := decodeRune_width_pos b t
      have hk2 := decodeRune_width_le b t
      intro c hc
      simp only [chunksF, List.mem_cons] at hc
      rcases hc with rfl | hc
      · simp only [List.length_take]; omega
      · exact ih _ c hc

theorem chunks_pos (s : Bytes) : ∀ c ∈ chunks s, 1 ≤ c.2.length := chunksF_pos _ _

def colStep (col : Nat) (c : Nat × Bytes) : Nat := if c.1 == 0x0A then 0 else col + u16w c.1

/-- `colF` on the rune list. -/
def colC : List (Nat × Bytes) → Nat → Nat → Nat → Nat
  | [], _, col, _ => col
  | c :: cs, pos, col, off => if pos < off then colC cs (pos + c.2.length) (colStep col c) off else col

theorem colF_eq_colC (f : Nat) (s : Bytes) (pos col off : Nat) :
    colF f s pos col off = colC (chunksF f s) pos col off := by
  induction f generalizing s pos col with
  | zero => simp [colF, chunksF, colC]
  | succ f ih =>
    cases s with
    | nil => simp [colF, chunksF, colC]
    | cons b t =>
      have hk2 := decodeRune_width_le b t
      simp only [colF, chunksF, colC, colStep, List.length_take, Nat.min_eq_left hk2]
      split
      · exact ih _ _ _
      · rfl

/-- The column after a whole rune list. -/
def colEnd (l : List (Nat × Bytes)) (col : Nat) : Nat := l.foldl colStep col

theorem colC_prefix (l1 l2 : List (Nat × Bytes)) (pos col : Nat) (hp : ∀ c ∈ l1, 1 ≤ c.2.length) :
    colC (l1 ++ l2) pos col (pos + clen l1) = colEnd l1 col := by
  induction l1 generalizing pos col with
  | nil =>
    simp only [List.nil_append, clen_nil, Nat.add_zero, colEnd, List.foldl_nil]
    cases l2 <;> simp [colC]
  | cons c l1 ih =>
    have hc := hp c List.mem_cons_self
    simp only [List.cons_append, colC, clen_cons, colEnd, List.foldl_cons]
    rw [if_pos (by omega)]
    have := ih (pos + c.2.length) (colStep col c) (fun c' h' => hp c' (List.mem_cons_of_mem _ h'))
    rw [show pos + (c.2.length + clen l1) = pos + c.2.length + clen l1 by omega]
    exact this

/-- At a rune boundary the cursor's column is the column after the runes of the prefix. -/
theorem colAt_cut {text : Bytes} {a : Nat} (h : Cut text a) :
    colAt text a = colEnd (chunks (text.take a)) 0 := by
  obtain ⟨j, rfl⟩ := h
  rw [(chunks_take_drop j text).1]
  have := colC_prefix ((chunks text).take j) ((chunks text).drop j) 0 0
    (fun c hc => chunks_pos text c (List.mem_of_mem_take hc))
  rw [List.take_append_drop, Nat.zero_add] at this
  rw [← this, colAt, colF_eq_colC]
  rfl

/-! ### lines -/

/-- The bytes after the last line feed. -/
def lastPiece (p : Bytes) : Bytes := (splitOn lfB p).getLast?.getD []

theorem splitOn_noLf (y : Bytes) (h : lfB ∉ y) : splitOn lfB y = [y] := by
  induction y with
  | nil => rfl
  | cons b t ih =>
    simp only [List.mem_cons, not_or] at h
    have hb : ¬ b = lfB := fun e => h.1 e.symm
    simp only [splitOn, hb, if_false, ih h.2]

theorem lastPiece_noLf (y : Bytes) (h : lfB ∉ y) : lastPiece y = y := by
  simp [lastPiece, splitOn_noLf y h]

theorem splitOn_two (s : Bytes) (h : lfB ∈ s) : 2 ≤ (splitOn lfB s).length := by
  induction s with
  | nil => simp at h
  | cons b t ih =>
    simp only [splitOn]
    split
    · have := splitOn_ne_nil lfB t
      cases hs : splitOn lfB t with
      | nil => exact absurd hs this
      | cons _ _ => simp
    · rename_i hb
      have ht : lfB ∈ t := by
        rcases List.mem_cons.mp h with e | e
        · exact absurd e.symm hb
        · exact e
      have := ih ht
      split
      · rename_i p ps hp
        rw [hp] at this
        simpa using this
      · rename_i hp
        exact absurd hp (splitOn_ne_nil _ _)

theorem getLast?_cons_of_ne_nil {α} (a : α) (l : List α) (h : l ≠ []) : (a :: l).getLast? = l.getLast? := by
  cases l with
  | nil => exact absurd rfl h
  | cons b r => simp [List.getLast?_cons_cons]

theorem lastPiece_after_lf (x y : Bytes) : lastPiece (x ++ lfB :: y) = lastPiece y := by
  induction x with
  | nil =>
    simp only [lastPiece, List.nil_append, splitOn, if_true]
    rw [getLast?_cons_of_ne_nil _ _ (splitOn_ne_nil _ _)]
  | cons b xs ih =>
    simp only [lastPiece, List.cons_append, splitOn] at ih ⊢
    split
    · rw [getLast?_cons_of_ne_nil _ _ (splitOn_ne_nil _ _)]
      exact ih
    · have h2 := splitOn_two (xs ++ lfB :: y) (by simp)
      split
      · rename_i p ps hp
        rw [hp] at ih h2
        have hps : ps ≠ [] := by
          intro e; subst e; simp at h2
        rw [getLast?_cons_of_ne_nil _ _ hps]
        rw [getLast?_cons_of_ne_nil _ _ hps] at ih
        exact ih
      · rename_i hp
        exact absurd hp (splitOn_ne_nil _ _)

theorem lastPiece_append_of_lf (x y : Bytes) (h : lfB ∈ y) : lastPiece (x ++ y) = lastPiece y := by
  obtain ⟨u, v, rfl⟩ := List.append_of_mem h
  rw [← List.append_assoc, lastPiece_after_lf, lastPiece_after_lf]

theorem decodeRune_lf_cons (t : Bytes) : decodeRune (lfB :: t) = (0x0A, 1) := by
  simp [decodeRune, lfB]

/-- The first rune of a string that does not start with a line feed contains none. -/
theorem take_rune_noLf (b : UInt8) (t : Bytes) (hb : b ≠ lfB) :
    lfB ∉ (b :: t).take (decodeRune (b :: t)).2 := by
  intro hm
  obtain ⟨j, hj⟩ := List.getElem?_of_mem hm
  have hjk : j < (decodeRune (b :: t)).2 := by
    have := (List.getElem?_eq_some_iff.mp hj).1
    simp only [List.length_take] at this
    omega
  rw [List.getElem?_take_of_lt hjk] at hj
  cases j with
  | zero => simp at hj; exact hb hj
  | succ j =>
    have := decodeRune_tail (b :: t) (j + 1) lfB (by omega) hjk hj
    simp [lfB] at this

/-- The column after the runes of `p`, entered with column `col`: the UTF-16 length of what
    follows the last line feed, plus `col` when there is none. -/
theorem colEnd_chunks (p : Bytes) (col : Nat) :
    colEnd (chunks p) col = (if lfB ∈ p then 0 else col) + u16lenB (lastPiece p) := by
  generalize hn : p.length = n
  induction n using Nat.strongRecOn generalizing p col with
  | _ n ih =>
    cases p with
    | nil => simp [chunks_nil, colEnd, lastPiece, splitOn, u16lenB, runes, u16sum]
    | cons b t =>
      have hk1 := decodeRune_width_pos b t
      have hk2 := decodeRune_width_le b t
      have hsplit : b :: t = (b :: t).take (decodeRune (b :: t)).2 ++ (b :: t).drop (decodeRune (b :: t)).2 :=
        (List.take_append_drop _ _).symm
      have hrl : ((b :: t).drop (decodeRune (b :: t)).2).length < n := by
        simp only [List.length_drop, ← hn, List.length_cons] at hk2 ⊢; omega
      have hIH := fun c => ih _ hrl ((b :: t).drop (decodeRune (b :: t)).2) c rfl
      have hu : u16lenB (b :: t) = u16w (decodeRune (b :: t)).1 + u16lenB ((b :: t).drop (decodeRune (b :: t)).2) := by
        simp only [u16lenB, runes, chunks_cons b t, List.map_cons, u16sum]
      rw [chunks_cons b t]
      simp only [colEnd, List.foldl_cons]
      by_cases hb : b = lfB
      · subst hb
        have hd := decodeRune_lf_cons t
        have hrest := hIH 0
        simp only [hd, List.drop_succ_cons, List.drop_zero, colEnd] at hrest ⊢
        have hl : lastPiece (lfB :: t) = lastPiece t := lastPiece_after_lf [] t
        simp only [colStep, beq_self_eq_true, if_true, List.mem_cons, true_or, hl, Nat.zero_add]
        rw [hrest]; split <;> simp
      · have hr : (decodeRune (b :: t)).1 ≠ 0x0A := fun e => hb (decodeRune_lf b t e)
        have hr' : ((decodeRune (b :: t)).1 == 0x0A) = false := by simpa using hr
        have hpre := take_rune_noLf b t hb
        have hrest := hIH (col + u16w (decodeRune (b :: t)).1)
        simp only [colEnd] at hrest
        simp only [colStep, hr', Bool.false_eq_true, if_false]
        rw [hrest]
        by_cases hm : lfB ∈ (b :: t).drop (decodeRune (b :: t)).2
        · have hmp : lfB ∈ b :: t := by rw [hsplit]; exact List.mem_append_right _ hm
          have hl : lastPiece (b :: t) = lastPiece ((b :: t).drop (decodeRune (b :: t)).2) := by
            conv => lhs; rw [hsplit]
            exact lastPiece_append_of_lf _ _ hm
          rw [if_pos hm, if_pos hmp, hl]
        · have hmp : lfB ∉ b :: t := by
            rw [hsplit]; intro h
            rcases List.mem_append.mp h with h | h
            · exact hpre h
            · exact hm h
          rw [if_neg hm, if_neg hmp, lastPiece_noLf _ hm, lastPiece_noLf _ hmp, hu]
          omega

theorem cut_take {s : Bytes} {a b : Nat} (ha : Cut s a) (hb : Cut s b) (hab : a ≤ b) :
    Cut (s.take b) a := by
  obtain ⟨i, rfl⟩ := ha
  obtain ⟨j, rfl⟩ := hb
  unfold Cut
  rw [(chunks_take_drop j s).1]
  by_cases hij : i ≤ j
  · exact ⟨i, by rw [List.take_take, Nat.min_eq_left hij]⟩
  · refine ⟨j, ?_⟩
    rw [List.take_take, Nat.min_self]
    have h1 : (chunks s).take j = ((chunks s).take i).take j := by
      rw [List.take_take, Nat.min_eq_left (by omega)]
    have h2 : clen (((chunks s).take i).take j) ≤ clen ((chunks s).take i) := by
      have := List.take_append_drop j ((chunks s).take i)
      have e := congrArg clen this
      rw [clen_append] at e
      omega
    rw [← h1] at h2
    omega

theorem mem_slice_of (text : Bytes) (a b : Nat) (x : UInt8) (h : x ∈ sliceB text a b) :
    ∃ i, a ≤ i ∧ i < b ∧ text[i]? = some x := by
  obtain ⟨j, hj⟩ := List.getElem?_of_mem h
  simp only [sliceB] at hj
  have hlt : j < b - a := by
    have := (List.getElem?_eq_some_iff.mp hj).1
    simp only [List.length_take] at this
    omega
  rw [List.getElem?_take_of_lt hlt, List.getElem?_drop] at hj
  exact ⟨a + j, by omega, by omega, hj⟩

theorem noLf_slice_of_P {text : Bytes} {a b : Nat} (h : NoLfP text a b) : lfB ∉ sliceB text a b := by
  intro hm
  obtain ⟨i, h1, h2, h3⟩ := mem_slice_of text a b lfB hm
  exact h i h1 h2 h3

/-- **The cursor measures UTF-16 lengths.**  Between two rune boundaries of the text on one
    line the cursor advances by exactly the UTF-16 length of the text between them. -/
theorem colAt_add {text : Bytes} {a b : Nat} (ha : Cut text a) (hb : Cut text b) (hab : a ≤ b)
    (hl : NoLfP text a b) : colAt text b = colAt text a + u16lenB (sliceB text a b) := by
  have hc := cut_take ha hb hab
  have h1 := chunks_cut hc
  have e1 : (text.take b).take a = text.take a := by rw [List.take_take, Nat.min_eq_left hab]
  have e2 : (text.take b).drop a = sliceB text a b := by simp only [sliceB, List.drop_take]
  rw [e1, e2] at h1
  rw [colAt_cut hb, colAt_cut ha, h1]
  simp only [colEnd, List.foldl_append]
  have := colEnd_chunks (sliceB text a b) (List.foldl colStep 0 (chunks (text.take a)))
  simp only [colEnd] at this
  rw [this, if_neg (noLf_slice_of_P hl), lastPiece_noLf _ (noLf_slice_of_P hl)]

/-- At a rune boundary the cursor's column is the UTF-16 length of the line so far. -/
theorem colAt_lastPiece {text : Bytes} {a : Nat} (ha : Cut text a) :
    colAt text a = u16lenB (lastPiece (text.take a)) := by
  rw [colAt_cut ha, colEnd_chunks]
  split <;> simp

/-! ### rune boundaries of pieces -/

theorem cut_succ_chunk (s : Bytes) (j : Nat) : Cut s (clen ((chunks s).take j)) := ⟨j, rfl⟩

/-- A boundary expressed with rune lists: `chunks s = l1 ++ l2 ++ l3` and `n` = the bytes of
    `l1` and of some first runes of `l2`. -/
theorem cut_of_append {s : Bytes} {l1 l2 l3 : List (Nat × Bytes)} (h : chunks s = l1 ++ l2 ++ l3)
    (m : Nat) : Cut s (clen l1 + clen (l2.take m)) := by
  refine ⟨l1.length + min m l2.length, ?_⟩
  have e1 : List.take (l1.length + min m l2.length) l1 = l1 := List.take_of_length_le (by omega)
  have e2 : l1.length + min m l2.length - l1.length = min m l2.length := by omega
  have e3 : List.take (min m l2.length) (l2 ++ l3) = List.take (min m l2.length) l2 :=
    List.take_append_of_le_length (Nat.min_le_right _ _)
  have e4 : List.take (min m l2.length) l2 = List.take m l2 := by
    by_cases hm : m ≤ l2.length
    · rw [Nat.min_eq_left hm]
    · rw [Nat.min_eq_right (by omega), List.take_length, List.take_of_length_le (by omega)]
  rw [h, List.append_assoc, List.take_append, e1, e2, e3, e4, clen_append]

theorem cut_drop {s : Bytes} {a b : Nat} (ha : Cut s a) (hb : Cut s b) (hab : a ≤ b) :
    Cut (s.drop a) (b - a) := by
  obtain ⟨i, rfl⟩ := ha
  obtain ⟨j, hj⟩ := hb
  unfold Cut
  rw [(chunks_take_drop i s).2]
  by_cases hij : i ≤ j
  · refine ⟨j - i, ?_⟩
    have e : (chunks s).take j = (chunks s).take i ++ ((chunks s).drop i).take (j - i) := by
      conv => lhs; rw [show j = i + (j - i) by omega, List.take_add]
    rw [hj, e, clen_append]; omega
  · refine ⟨0, ?_⟩
    have h1 : (chunks s).take j = ((chunks s).take i).take j := by
      rw [List.take_take, Nat.min_eq_left (by omega)]
    have h2 : clen (((chunks s).take i).take j) ≤ clen ((chunks s).take i) := by
      have := List.take_append_drop j ((chunks s).take i)
      have e := congrArg clen this
      rw [clen_append] at e
      omega
    rw [← h1, ← hj] at h2
    simp [clen_nil]; omega

/-- A rune boundary of a piece that lies between two rune boundaries is a rune boundary of
    the whole. -/
theorem cut_slice {s : Bytes} {a b j : Nat} (ha : Cut s a) (hb : Cut s b) (hab : a ≤ b)
    (hj : Cut (sliceB s a b) j) : Cut s (a + j) := by
  have h1 := chunks_cut ha
  have h2 := chunks_cut (cut_drop ha hb hab)
  obtain ⟨m, rfl⟩ := hj
  have hsl : sliceB s a b = (s.drop a).take (b - a) := rfl
  have hc : chunks s = chunks (s.take a) ++ chunks (sliceB s a b) ++ chunks ((s.drop a).drop (b - a)) := by
    rw [h1, h2, hsl, List.append_assoc]
  have := cut_of_append hc m
  rw [clen_chunks, List.length_take, Nat.min_eq_left (cut_le ha)] at this
  exact this

/-- The ends of the trimmed middle of a string are rune boundaries of it. -/
theorem cut_leadWs (s : Bytes) : Cut s (leadWs s) := by
  let p : Nat × Bytes → Bool := fun c => isSpaceRune c.1
  have : (chunks s).takeWhile p = (chunks s).take ((chunks s).takeWhile p).length := by
    rw [List.takeWhile_eq_take_findIdx_not, List.length_take]
    simp only [List.take_eq_take_iff]
    omega
  refine ⟨((chunks s).takeWhile p).length, ?_⟩
  rw [← this]; rfl

theorem reverse_dropWhile_eq_take {α} (p : α → Bool) (x : List α) :
    (x.reverse.dropWhile p).reverse = x.take (x.length - (x.reverse.takeWhile p).length) := by
  have h := reverse_dropWhile_decomp p x
  have hl : x.length = (x.reverse.dropWhile p).length + (x.reverse.takeWhile p).length := by
    have := congrArg List.length h
    simpa using this
  conv => rhs; arg 2; rw [h]
  rw [List.take_append_of_le_length (by simp only [List.length_reverse]; omega)]
  rw [List.take_of_length_le (by simp only [List.length_reverse]; omega)]

theorem cut_trimEnd (s : Bytes) : Cut s (leadWs s + (trimSpace s).length) := by
  let p : Nat × Bytes → Bool := fun c => isSpaceRune c.1
  have hl : leadWs s = clen ((chunks s).takeWhile p) := rfl
  have ht : (trimSpace s).length = clen ((((chunks s).dropWhile p).reverse.dropWhile p).reverse) := rfl
  rw [hl, ht, reverse_dropWhile_eq_take]
  exact cut_of_append (l3 := []) (by rw [List.append_nil, List.takeWhile_append_dropWhile]) _

/-- An ASCII byte starts a rune, and the next rune starts right after it. -/
theorem cut_ascii (s : Bytes) (i : Nat) (x : UInt8) (hx : s[i]? = some x) (ha : x.toNat < 128) :
    Cut s i ∧ Cut s (i + 1) := by
  generalize hn : s.length = n
  induction n using Nat.strongRecOn generalizing s i with
  | _ n ih =>
    cases s with
    | nil => simp at hx
    | cons b t =>
      have hk1 := decodeRune_width_pos b t
      have hk2 := decodeRune_width_le b t
      have hch := chunks_cons b t
      by_cases hi : i < (decodeRune (b :: t)).2
      · -- `i` lies in the first rune: it is its first byte, and the rune is that byte
        have hi0 : i = 0 := by
          cases i with
          | zero => rfl
          | succ i =>
            have := decodeRune_tail (b :: t) (i + 1) x (by omega) hi hx
            omega
        subst hi0
        simp only [List.getElem?_cons_zero, Option.some.injEq] at hx
        subst hx
        have hd : decodeRune (b :: t) = (b.toNat, 1) := by
          have : b < 0x80 := by rw [UInt8.lt_iff_toNat_lt]; simpa using ha
          simp [decodeRune, this]
        refine ⟨cut_zero _, ⟨1, ?_⟩⟩
        rw [hch, hd]
        simp [clen_cons, clen_nil]
      · have hrl : ((b :: t).drop (decodeRune (b :: t)).2).length < n := by
          simp only [List.length_drop, ← hn, List.length_cons] at hk2 ⊢; omega
        have hx' : ((b :: t).drop (decodeRune (b :: t)).2)[i - (decodeRune (b :: t)).2]? = some x := by
          rw [List.getElem?_drop, show (decodeRune (b :: t)).2 + (i - (decodeRune (b :: t)).2) = i by omega]
          exact hx
        obtain ⟨⟨j1, h1⟩, ⟨j2, h2⟩⟩ := ih _ hrl _ _ hx' rfl
        have hlen : ((b :: t).take (decodeRune (b :: t)).2).length = (decodeRune (b :: t)).2 := by
          rw [List.length_take]; omega
        refine ⟨⟨j1 + 1, ?_⟩, ⟨j2 + 1, ?_⟩⟩
        · rw [hch, List.take_succ_cons, clen_cons, ← h1]; simp only [hlen]; omega
        · rw [hch, List.take_succ_cons, clen_cons, ← h2]; simp only [hlen]; omega

theorem cut_of_isCutF (f : Nat) (s : Bytes) (n : Nat) (h : isCutF f s n = true) : Cut s n := by
  induction f generalizing s n with
  | zero =>
    cases n with
    | zero => exact cut_zero _
    | succ n => simp [isCutF] at h
  | succ f ih =>
    cases n with
    | zero => exact cut_zero _
    | succ n =>
      cases s with
      | nil => simp [isCutF] at h
      | cons b t =>
        simp only [isCutF, Bool.and_eq_true, decide_eq_true_eq] at h
        obtain ⟨hk, hrec⟩ := h
        have hk2 := decodeRune_width_le b t
        obtain ⟨j, hj⟩ := ih _ _ hrec
        refine ⟨j + 1, ?_⟩
        rw [chunks_cons b t, List.take_succ_cons, clen_cons, ← hj]
        simp only [List.length_take, Nat.min_eq_left hk2]
        omega

theorem cut_of_isCut {s : Bytes} {n : Nat} (h : isCut s n = true) : Cut s n := cut_of_isCutF _ _ _ h

end HL.Lemmas.SemTok
