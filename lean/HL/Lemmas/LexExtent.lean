import HL.Lemmas.LexLines
/-!
  Layer L3 of DESIGN 7.C03, part 1: the loops of the lexer on a known lexeme.

  `z.over l rest` is the state after stepping over the ASCII bytes `l` with `rest` left to read.
  Each lemma says: if the unread input is `l ++ rest`, every byte of `l` keeps the loop going
  and `rest` is empty or starts with a byte that stops it, the loop ends in `z.over l rest` —
  for lexemes of every length (induction on `l`), for every lexer state `z` (any line, column,
  consumed input) and every continuation `rest` that satisfies the explicit stop predicate.
-/
namespace HL.Lex
open HL HL.Utf8

local notation "LF" => (0x0A : UInt8)

/-- the state after stepping over the ASCII bytes `l`, with `rest` still unread -/
def Z.over (z : Z) (l rest : Bytes) : Z :=
  ⟨l.reverse ++ z.before, rest, z.line, z.col + l.length, z.atStart⟩

/-- `rest` is empty or its first byte fails `p` -/
def Stops (p : UInt8 → Bool) (rest : Bytes) : Prop := ∀ c t, rest = c :: t → p c = false

theorem Stops.nil (p : UInt8 → Bool) : Stops p [] := by intro c t h; cases h

theorem Stops.cons {p : UInt8 → Bool} {c : UInt8} (t : Bytes) (h : p c = false) : Stops p (c :: t) := by
  intro c' t' h'; cases h'; exact h

@[simp] theorem over_after (z : Z) (l rest : Bytes) : (z.over l rest).after = rest := rfl
@[simp] theorem over_before (z : Z) (l rest : Bytes) : (z.over l rest).before = l.reverse ++ z.before := rfl
@[simp] theorem over_line (z : Z) (l rest : Bytes) : (z.over l rest).line = z.line := rfl
@[simp] theorem over_col (z : Z) (l rest : Bytes) : (z.over l rest).col = z.col + l.length := rfl
@[simp] theorem over_atStart (z : Z) (l rest : Bytes) : (z.over l rest).atStart = z.atStart := rfl

theorem over_nil (z : Z) (rest : Bytes) (h : z.after = rest) : z.over [] rest = z := by
  cases z; simp_all [Z.over]

theorem over_over (z : Z) (l1 r1 l2 r2 : Bytes) : (z.over l1 r1).over l2 r2 = z.over (l1 ++ l2) r2 := by
  simp [Z.over, Nat.add_assoc]

theorem over_position (z : Z) (l rest : Bytes) :
    (z.over l rest).position = ⟨z.line, z.col + l.length, z.before.length + l.length⟩ := by
  simp [Z.over, Z.position, Nat.add_comm]

/-- the bytes between a state and the state after stepping over `l` are `l` -/
theorem between_over (z : Z) (l rest : Bytes) : between z (z.over l rest) = l := by
  simp [between, Z.over]

theorem between_over_over (z : Z) (l1 r1 l2 r2 : Bytes) :
    between (z.over l1 r1) ((z.over l1 r1).over l2 r2) = l2 := between_over _ _ _

/-- one ASCII byte -/
theorem advance_over {z : Z} {c : UInt8} {t : Bytes} (hz : z.after = c :: t) (hc : c < 0x80) :
    advance z = z.over [c] t := by
  rw [advance_ascii hz hc]; simp [Z.over]

theorem bump_over {z : Z} {c : UInt8} {t : Bytes} (hz : z.after = c :: t) :
    z.bump 1 = z.over [c] t := by
  simp [Z.bump, Z.over, hz]

theorem decodeRune_ascii {c : UInt8} (t : Bytes) (hc : c < 0x80) : decodeRune (c :: t) = (c.toNat, 1) := by
  simp [decodeRune, hc]

/-! ### `advWhile` -/

theorem advWhileF_over (p : UInt8 → Bool) (l : Bytes) :
    ∀ (n : Nat) (z : Z) (rest : Bytes), z.after = l ++ rest → l.length ≤ n →
      (∀ c ∈ l, p c = true ∧ c < 0x80) → Stops p rest → advWhileF p n z = z.over l rest := by
  induction l with
  | nil =>
    intro n z rest hz _ _ hstop
    simp only [List.nil_append] at hz
    rw [over_nil z rest hz]
    cases n with
    | zero => rfl
    | succ n =>
      unfold advWhileF
      cases rest with
      | nil => simp [hz]
      | cons c t => simp [hz, hstop c t rfl]
  | cons c l ih =>
    intro n z rest hz hn hl hstop
    cases n with
    | zero => simp at hn
    | succ n =>
      have hc := hl c (by simp)
      have hz' : z.after = c :: (l ++ rest) := by simpa using hz
      unfold advWhileF
      simp only [hz', hc.1, if_true]
      rw [advance_over hz' hc.2, ih n _ rest rfl (by simpa using hn) (fun x hx => hl x (by simp [hx])) hstop,
        over_over]
      rfl

/-- **`advWhile` on a known lexeme.** -/
theorem advWhile_over (p : UInt8 → Bool) {z : Z} {l rest : Bytes} (hz : z.after = l ++ rest)
    (hl : ∀ c ∈ l, p c = true ∧ c < 0x80) (hstop : Stops p rest) : advWhile p z = z.over l rest := by
  unfold advWhile
  exact advWhileF_over p l _ z rest hz (by simp [hz]) hl hstop

/-! ### `advLine` -/

local notation "CR" => (0x0D : UInt8)

/-- where `advLine p` stops: `rest` is empty, stands at a line end (LF, or CR LF), or its first
    byte fails `p` -/
def StopsL (p : UInt8 → Bool) (rest : Bytes) : Prop :=
  ∀ c t, rest = c :: t → (p c && !atEol (c :: t)) = false

theorem StopsL.nil (p : UInt8 → Bool) : StopsL p [] := by intro c t h; cases h

theorem StopsL.eol {p : UInt8 → Bool} {rest : Bytes} (h : atEol rest = true) : StopsL p rest := by
  intro c t hr; subst hr; simp [h]

theorem StopsL.lf (p : UInt8 → Bool) (t : Bytes) : StopsL p (LF :: t) := StopsL.eol (atEol_lf t)

theorem StopsL.crlf (p : UInt8 → Bool) (t : Bytes) : StopsL p (CR :: LF :: t) := StopsL.eol (atEol_crlf t)

theorem StopsL.cons {p : UInt8 → Bool} {c : UInt8} (t : Bytes) (h : p c = false) : StopsL p (c :: t) := by
  intro c' t' h'; cases h'; simp [h]

/-- a stop of the loop that does not know about line ends (`q` fails at LF and wherever `p`
    fails) is a stop of `advLine p` -/
theorem StopsL.of_stops {p q : UInt8 → Bool} {rest : Bytes} (h : Stops q rest)
    (hq : ∀ c, q c = false → p c = false ∨ c = LF) : StopsL p rest := by
  intro c t hr
  rcases hq c (h c t hr) with h1 | h1
  · simp [h1]
  · subst h1; simp [atEol]

theorem advLineF_over (p : UInt8 → Bool) (l : Bytes) :
    ∀ (n : Nat) (z : Z) (rest : Bytes), z.after = l ++ rest → l.length ≤ n →
      (∀ c ∈ l, p c = true ∧ c < 0x80 ∧ c ≠ LF ∧ c ≠ CR) → StopsL p rest → advLineF p n z = z.over l rest := by
  induction l with
  | nil =>
    intro n z rest hz _ _ hstop
    simp only [List.nil_append] at hz
    rw [over_nil z rest hz]
    cases n with
    | zero => rfl
    | succ n =>
      unfold advLineF
      cases rest with
      | nil => simp [hz]
      | cons c t => simp only [hz, hstop c t rfl]; rfl
  | cons c l ih =>
    intro n z rest hz hn hl hstop
    cases n with
    | zero => simp at hn
    | succ n =>
      have hc := hl c (by simp)
      have hz' : z.after = c :: (l ++ rest) := by simpa using hz
      unfold advLineF
      simp only [hz', hc.1, atEol_of_ne hc.2.2.1 hc.2.2.2, Bool.not_false, Bool.and_self, if_true]
      rw [advance_over hz' hc.2.1, ih n _ rest rfl (by simpa using hn) (fun x hx => hl x (by simp [hx])) hstop,
        over_over]
      rfl

/-- **`advLine` on a known lexeme** (ASCII, no CR, no LF). -/
theorem advLine_over (p : UInt8 → Bool) {z : Z} {l rest : Bytes} (hz : z.after = l ++ rest)
    (hl : ∀ c ∈ l, p c = true ∧ c < 0x80 ∧ c ≠ LF ∧ c ≠ CR) (hstop : StopsL p rest) :
    advLine p z = z.over l rest := by
  unfold advLine
  exact advLineF_over p l _ z rest hz (by simp [hz]) hl hstop

/-- blanks in front of a token -/
theorem skipSpaces_over {z : Z} {sp rest : Bytes} (hz : z.after = sp ++ rest)
    (hsp : ∀ c ∈ sp, c = 0x20) (hstop : Stops isBlank rest) : skipSpaces z = z.over sp rest := by
  unfold skipSpaces
  refine advWhile_over isBlank hz ?_ hstop
  intro c hc; rw [hsp c hc]; decide

theorem skipSpaces_none {z : Z} (hstop : Stops isBlank z.after) : skipSpaces z = z := by
  rw [skipSpaces_over (sp := []) (rest := z.after) rfl (by simp) hstop, over_nil z _ rfl]

/-! ### the loop of `scanAccount` on an account name without blanks -/

/-- what ends an account name: end of input, an account terminator, or two blanks -/
def AcctStop (rest : Bytes) : Prop :=
  rest = [] ∨ (∃ c t, rest = c :: t ∧ c < 0x80 ∧ isAccountTerminator c.toNat = true) ∨
  (∃ t, rest = 0x20 :: 0x20 :: t)

/-- a byte of a blank-free account name -/
def acctByte (c : UInt8) : Bool := c < 0x80 && c != 0x20 && !isAccountTerminator c.toNat

theorem scanAccountF_stop (n : Nat) (z l : Z) (h : AcctStop z.after) : scanAccountF n z l = (z, l) := by
  cases n with
  | zero => rfl
  | succ n =>
    unfold scanAccountF
    rcases h with h | ⟨c, t, h, hc, ht⟩ | ⟨t, h⟩
    · simp [h]
    · have h20 : c.toNat ≠ 0x20 := by
        intro h'; rw [h'] at ht; simp [isAccountTerminator] at ht
      simp only [h, decodeRune_ascii t hc, ht, if_true]
      simp [h20]
    · simp [h, decodeRune_ascii _ (by decide : (0x20 : UInt8) < 0x80), headIs]

theorem scanAccountF_over (a : Bytes) :
    ∀ (n : Nat) (z l : Z) (rest : Bytes), z.after = a ++ rest → a.length ≤ n →
      (∀ c ∈ a, acctByte c = true) → AcctStop rest →
      scanAccountF n z l = (z.over a rest, if a = [] then l else z.over a rest) := by
  induction a with
  | nil =>
    intro n z l rest hz _ _ hstop
    simp only [List.nil_append] at hz
    rw [over_nil z rest hz, scanAccountF_stop n z l (hz ▸ hstop)]
    simp
  | cons c a ih =>
    intro n z l rest hz hn ha hstop
    cases n with
    | zero => simp at hn
    | succ n =>
      have hc := ha c (by simp)
      simp only [acctByte, Bool.and_eq_true, decide_eq_true_eq, bne_iff_ne, ne_eq, Bool.not_eq_true'] at hc
      obtain ⟨⟨hc1, hc2⟩, hc3⟩ := hc
      have hz' : z.after = c :: (a ++ rest) := by simpa using hz
      have h20 : ¬ c.toNat = 0x20 := by
        intro h'; apply hc2; exact UInt8.toNat_inj.mp (by simpa using h')
      unfold scanAccountF
      simp only [hz', decodeRune_ascii _ hc1, hc3, Bool.false_eq_true, if_false]
      rw [if_neg (by simpa using h20), bump_over hz',
        ih n _ (z.over [c] (a ++ rest)) rest rfl (by simpa using hn) (fun x hx => ha x (by simp [hx])) hstop]
      simp only [over_over, List.singleton_append, reduceCtorEq, if_false]
      split <;> simp_all

/-! ### the loop of `scanNumber` on digits and one kind of mark -/

/-- what ends a number: end of input or a byte that is none of digit, `.`, `,`, `E`, `e`,
    and not a blank in front of a digit -/
def NumStop (rest : Bytes) : Prop :=
  ∀ c t, rest = c :: t → isDigit c = false ∧ c ≠ 0x2E ∧ c ≠ 0x2C ∧ c ≠ 0x45 ∧ c ≠ 0x65 ∧
    (c = 0x20 → headIsDigit t = false)

/-- a byte of a plain number: digit or `.` -/
def numByte (c : UInt8) : Bool := isDigit c || c == 0x2E

theorem numByte_lt {c : UInt8} (h : numByte c = true) : c < 0x80 := by
  simp only [numByte, isDigit, Bool.or_eq_true, Bool.and_eq_true, decide_eq_true_eq, beq_iff_eq] at h
  rcases h with h | h
  · exact Nat.lt_of_le_of_lt (UInt8.le_iff_toNat_le.mp h.2) (by decide)
  · rw [h]; decide

theorem scanNumberF_over (l : Bytes) :
    ∀ (n : Nat) (z : Z) (hd : Bool) (rest : Bytes), z.after = l ++ rest → l.length ≤ n →
      (∀ c ∈ l, numByte c = true) → NumStop rest → scanNumberF n z hd = z.over l rest := by
  induction l with
  | nil =>
    intro n z hd rest hz _ _ hstop
    simp only [List.nil_append] at hz
    rw [over_nil z rest hz]
    cases n with
    | zero => rfl
    | succ n =>
      unfold scanNumberF
      cases rest with
      | nil => simp [hz]
      | cons c t =>
        obtain ⟨h1, h2, h3, h4, h5, h6⟩ := hstop c t rfl
        simp only [hz]
        by_cases hc : c = 0x20
        · subst hc; simp [h6 rfl, isDigit]
        · simp [h1, h2, h3, h4, h5, hc]
  | cons c l ih =>
    intro n z hd rest hz hn hl hstop
    cases n with
    | zero => simp at hn
    | succ n =>
      have hc := hl c (by simp)
      have hlt := numByte_lt hc
      have hz' : z.after = c :: (l ++ rest) := by simpa using hz
      have step : ∀ hd', scanNumberF n (advance z) hd' = z.over (c :: l) rest := by
        intro hd'
        rw [advance_over hz' hlt, ih n _ hd' rest rfl (by simpa using hn) (fun x hx => hl x (by simp [hx])) hstop,
          over_over]
        rfl
      unfold scanNumberF
      simp only [hz']
      simp only [numByte, Bool.or_eq_true, beq_iff_eq] at hc
      rcases hc with hc | hc
      · simp only [hc, if_true]; exact step _
      · subst hc
        have hnd : isDigit (0x2E : UInt8) = false := by decide
        simp only [hnd, Bool.false_eq_true, if_false, beq_self_eq_true, Bool.true_or, if_true]
        exact step _

end HL.Lex
