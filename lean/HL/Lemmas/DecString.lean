import HL.Lemmas.Num

/-! `Decimal.String()` followed by `NewFromString` returns the same value: the figures printed in
    the UNBALANCED message and in hovers denote exactly the decimals they were printed from. -/
namespace HL
namespace Num

/-- the digits of `natDigitsF`, as digits. -/
def digitsOfNatF : Nat → Nat → List G.Digit
  | 0, _ => []
  | fuel + 1, n => if n < 10 then [Fin.ofNat 10 n] else digitsOfNatF fuel (n / 10) ++ [Fin.ofNat 10 n]

theorem digitByte_ofNat (n : Nat) : G.digitByte (Fin.ofNat 10 n) = Dec.digitByte n := by
  unfold G.digitByte Dec.digitByte
  simp [Fin.ofNat]

theorem natDigitsF_eq (fuel n : Nat) : Dec.natDigitsF fuel n = G.digitsBytes (digitsOfNatF fuel n) := by
  induction fuel generalizing n with
  | zero => rfl
  | succ f ih =>
    unfold Dec.natDigitsF digitsOfNatF
    split
    · simp [G.digitsBytes, digitByte_ofNat]
    · rw [ih, digitsBytes_append]
      simp [G.digitsBytes, digitByte_ofNat]

theorem natOf_snoc (l : List G.Digit) (d : G.Digit) : G.natOf (l ++ [d]) = G.natOf l * 10 + d.val := by
  rw [natOf_append]; simp [G.natOf]

theorem natOf_digitsOfNatF (fuel n : Nat) (h : n < fuel) : G.natOf (digitsOfNatF fuel n) = n := by
  induction fuel generalizing n with
  | zero => omega
  | succ f ih =>
    unfold digitsOfNatF
    split
    · rename_i h10
      simp [G.natOf, Fin.ofNat]; omega
    · rw [natOf_snoc, ih (n / 10) (by omega)]
      simp [Fin.ofNat]; omega

theorem digitsOfNatF_ne_nil (fuel n : Nat) : digitsOfNatF (fuel + 1) n ≠ [] := by
  unfold digitsOfNatF
  split <;> simp

/-- digits of `|i|`. -/
def digitsOfNat (n : Nat) : List G.Digit := digitsOfNatF (n + 1) n

theorem natDigits_eq (n : Nat) : Dec.natDigits n = G.digitsBytes (digitsOfNat n) := natDigitsF_eq _ _
theorem natOf_digitsOfNat (n : Nat) : G.natOf (digitsOfNat n) = n := natOf_digitsOfNatF _ _ (by omega)
theorem digitsOfNat_ne_nil (n : Nat) : digitsOfNat n ≠ [] := digitsOfNatF_ne_nil _ _

theorem natOf_replicate_zero (k : Nat) : G.natOf (List.replicate k (0 : G.Digit)) = 0 := by
  induction k with
  | zero => rfl
  | succ k ih => rw [List.replicate_succ, natOf_cons, ih]; simp

/-- trailing zeros dropped from a digit list. -/
def dropTrailingZerosD (l : List G.Digit) : List G.Digit := (l.reverse.dropWhile (· == 0)).reverse

theorem digitByte_eq_48 : ∀ d : G.Digit, (G.digitByte d == 48) = (d == 0) := by decide

theorem dropTrailingZeros_digits (l : List G.Digit) :
    Dec.dropTrailingZeros (G.digitsBytes l) = G.digitsBytes (dropTrailingZerosD l) := by
  unfold Dec.dropTrailingZeros dropTrailingZerosD G.digitsBytes
  have hp : ((fun b : UInt8 => b == 48) ∘ G.digitByte) = (fun d : G.Digit => d == 0) := funext digitByte_eq_48
  rw [← List.map_reverse, List.dropWhile_map, ← List.map_reverse, hp]

theorem dropTrailingZerosD_spec (l : List G.Digit) :
    ∃ k, l = dropTrailingZerosD l ++ List.replicate k 0 := by
  unfold dropTrailingZerosD
  have h := List.takeWhile_append_dropWhile (p := fun d : G.Digit => d == 0) (l := l.reverse)
  have hall : ∀ x ∈ l.reverse.takeWhile (fun d : G.Digit => d == 0), x = 0 := by
    intro x hx
    have hh := List.all_takeWhile (p := fun d : G.Digit => d == 0) (l := l.reverse)
    rw [List.all_eq_true] at hh
    simpa using hh x hx
  have hrep : l.reverse.takeWhile (fun d : G.Digit => d == 0) =
      List.replicate (l.reverse.takeWhile (fun d : G.Digit => d == 0)).length 0 :=
    List.eq_replicate_iff.2 ⟨rfl, hall⟩
  refine ⟨(l.reverse.takeWhile (fun d : G.Digit => d == 0)).length, ?_⟩
  have h2 := congrArg List.reverse h
  rw [List.reverse_append, List.reverse_reverse] at h2
  calc l = (l.reverse.dropWhile (fun d : G.Digit => d == 0)).reverse ++
            (l.reverse.takeWhile (fun d : G.Digit => d == 0)).reverse := h2.symm
    _ = _ := by
      congr 1
      rw [hrep, List.reverse_replicate, List.length_replicate]

theorem toStr_exp_nonneg (d : Dec) (h : d.exp ≥ 0) :
    (Dec.ofString (Dec.toString d)).map Dec.toRat = some (Dec.toRat d) := by
  unfold Dec.toString Dec.toStr
  rw [if_pos h]
  have hc : (Dec.rescale d 0).coef = d.coef * 10 ^ d.exp.toNat := by
    unfold Dec.rescale
    rw [if_neg (by omega)]
    simp
  rw [hc]
  generalize hC : d.coef * 10 ^ d.exp.toNat = C
  have hstr : Dec.intDigits C =
      signBytes (decide (C < 0)) ++ G.digitsBytes (digitsOfNat C.natAbs) ++ fracBytes false [] ++ G.renderExp none := by
    unfold Dec.intDigits signBytes fracBytes G.renderExp
    by_cases hneg : C < 0
    · simp [hneg, natDigits_eq, MINUS]
    · simp [hneg, natDigits_eq]
  rw [hstr, ofString_canon _ _ [] false none (digitsOfNat_ne_nil _) (fun _ => rfl) (fun e he => by cases he)
    (by unfold Dec.int32Min G.expValue; simp) (by unfold Dec.int32Max G.expValue; simp)]
  simp only [Option.map_some, Option.some.injEq, List.append_nil, natOf_digitsOfNat, G.expValue, List.length_nil]
  have hval : (if decide (C < 0) = true then -(C.natAbs : Int) else (C.natAbs : Int)) = C := by
    by_cases hneg : C < 0
    · simp [hneg]; omega
    · simp [hneg]; omega
  rw [hval, ← hC]
  have := Dec.toRat_scale d.coef d.exp d.exp.toNat
  have he : d.exp - (d.exp.toNat : Int) = 0 := by omega
  rw [he] at this
  simpa using this

theorem toStr_exp_neg (d : Dec) (h : ¬ d.exp ≥ 0) (hlo : Dec.int32Min ≤ d.exp) :
    (Dec.ofString (Dec.toString d)).map Dec.toRat = some (Dec.toRat d) := by
  unfold Dec.toString Dec.toStr
  rw [if_neg h]
  simp only [if_true]
  -- the digit lists
  let dsS := digitsOfNat d.coef.natAbs
  let n := (-d.exp).toNat
  let ipD : List G.Digit := if dsS.length > n then dsS.take (dsS.length - n) else [0]
  let fpD : List G.Digit := if dsS.length > n then dsS.drop (dsS.length - n) else List.replicate (n - dsS.length) 0 ++ dsS
  have hlenS : (Dec.natDigits d.coef.natAbs).length = dsS.length := by
    rw [natDigits_eq]; simp [G.digitsBytes, dsS]
  have hip : (if (Dec.natDigits d.coef.natAbs).length > n then
      (Dec.natDigits d.coef.natAbs).take ((Dec.natDigits d.coef.natAbs).length - n) else [48]) = G.digitsBytes ipD := by
    rw [hlenS]
    by_cases hL : dsS.length > n
    · simp only [hL, if_true, ipD, natDigits_eq, G.digitsBytes, List.map_take]; rfl
    · simp only [hL, if_false, ipD]; rfl
  have hfp : (if (Dec.natDigits d.coef.natAbs).length > n then
      (Dec.natDigits d.coef.natAbs).drop ((Dec.natDigits d.coef.natAbs).length - n)
      else List.replicate (n - (Dec.natDigits d.coef.natAbs).length) 48 ++ Dec.natDigits d.coef.natAbs) = G.digitsBytes fpD := by
    rw [hlenS]
    by_cases hL : dsS.length > n
    · simp only [hL, if_true, fpD, natDigits_eq, G.digitsBytes, List.map_drop]; rfl
    · simp only [hL, if_false, fpD, natDigits_eq, G.digitsBytes, List.map_append, List.map_replicate]; rfl
  show (Dec.ofString (if d.coef < 0 then 45 :: _ else _)).map Dec.toRat = _
  rw [hip, hfp, dropTrailingZeros_digits]
  -- value bookkeeping
  have hipne : ipD ≠ [] := by
    simp only [ipD]
    split
    · rename_i hL
      intro e
      have := congrArg List.length e
      simp at this; omega
    · simp
  have hfplen : fpD.length = n := by
    simp only [fpD]
    split
    · simp; omega
    · simp; omega
  have hcat : G.natOf (ipD ++ fpD) = d.coef.natAbs := by
    simp only [ipD, fpD]
    split
    · rw [List.take_append_drop]; exact natOf_digitsOfNat _
    · rw [natOf_append, natOf_append, natOf_replicate_zero]
      simp [G.natOf, dsS]
      exact natOf_digitsOfNat _
  obtain ⟨k, hk⟩ := dropTrailingZerosD_spec fpD
  generalize hfp' : dropTrailingZerosD fpD = fp' at hk
  have hnk : n = fp'.length + k := by
    rw [← hfplen, hk]; simp
  have hN : G.natOf (ipD ++ fp') * 10 ^ k = d.coef.natAbs := by
    have h1 := natOf_append (ipD ++ fp') (List.replicate k (0 : G.Digit))
    rw [natOf_replicate_zero, List.length_replicate, Nat.add_zero] at h1
    rw [← hcat, hk, ← List.append_assoc, h1]
  -- the printed string is canonical
  have hstr : (if d.coef < 0 then
        45 :: (if (G.digitsBytes fp').isEmpty = true then G.digitsBytes ipD else G.digitsBytes ipD ++ 46 :: G.digitsBytes fp')
      else (if (G.digitsBytes fp').isEmpty = true then G.digitsBytes ipD else G.digitsBytes ipD ++ 46 :: G.digitsBytes fp')) =
      signBytes (decide (d.coef < 0)) ++ G.digitsBytes ipD ++ fracBytes (!fp'.isEmpty) fp' ++ G.renderExp none := by
    have he : (G.digitsBytes fp').isEmpty = fp'.isEmpty := by
      cases fp' <;> simp [G.digitsBytes]
    unfold signBytes fracBytes G.renderExp
    rw [he]
    by_cases hneg : d.coef < 0 <;> cases hfe : fp'.isEmpty <;> simp [hneg, MINUS, DOT]
  rw [hstr, ofString_canon _ ipD fp' (!fp'.isEmpty) none hipne
    (fun hm => by cases fp' with | nil => rfl | cons _ _ => simp at hm) (fun e he => by cases he)
    (by unfold G.expValue Dec.int32Min at *; simp only []; omega) (by unfold G.expValue Dec.int32Max; simp only []; omega)]
  simp only [Option.map_some, Option.some.injEq, G.expValue]
  -- values
  have hsc := Dec.toRat_scale
    (if decide (d.coef < 0) = true then -(G.natOf (ipD ++ fp') : Int) else (G.natOf (ipD ++ fp') : Int))
    (0 - (fp'.length : Int)) k
  rw [← hsc]
  have hcoef : (if decide (d.coef < 0) = true then -(G.natOf (ipD ++ fp') : Int) else (G.natOf (ipD ++ fp') : Int)) * 10 ^ k = d.coef := by
    have hN' : ((G.natOf (ipD ++ fp') : Int)) * 10 ^ k = (d.coef.natAbs : Int) := by
      rw [← hN]; simp
    by_cases hneg : d.coef < 0
    · simp only [hneg, decide_true, if_true, Int.neg_mul, hN']; omega
    · simp only [hneg, decide_false, Bool.false_eq_true, if_false, hN']; omega
  have hexp : (0 : Int) - (fp'.length : Int) - (k : Int) = d.exp := by
    have : (n : Int) = -d.exp := by simp only [n]; omega
    omega
  rw [hcoef, hexp]

/-- **toString_roundtrip.**  `NewFromString(d.String())` denotes the same number as `d`. -/
theorem toString_roundtrip (d : Dec) (hlo : Dec.int32Min ≤ d.exp) :
    (Dec.ofString (Dec.toString d)).map Dec.toRat = some (Dec.toRat d) := by
  by_cases h : d.exp ≥ 0
  · exact toStr_exp_nonneg d h
  · exact toStr_exp_neg d h hlo

end Num
end HL
