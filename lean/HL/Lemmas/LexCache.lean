import HL.Lemmas.LexExt
/-!
  Soundness argument for the cache added to `(*Lexer).looksLikeAccount` (fields `noColonFrom`,
  `noColonUntil`): "a scan that starts inside a stretch already scanned to its end without
  finding a colon would visit the same bytes and stop at the same place".

  The model keeps the uncached `looksLikeAccount` (a pure function of the unread input); the
  cached Go code is tied to it by the correspondence `lex.tokens`.  Here the argument itself is
  proved on the model: let a scan from `a = input[from:]` walk over `lookStop a` bytes and find no
  colon.  Every position the lexer can be at afterwards lies on the chain of rune boundaries
  from `from` (`OnChain`: the lexer only ever moves by `DecodeRuneInString` widths, and rewinds
  only to a position it has been at).  From every chain position inside the stretch,
  `looksLikeAccount` returns false.
-/
namespace HL.Lex
open HL HL.Utf8

/-- `i - l.pos` at the end of the loop of `looksLikeAccount`: the bytes it walked over. -/
def lookStopF : Nat → Bytes → Nat
  | 0, _ => 0
  | _, [] => 0
  | n+1, b :: t =>
    let (r, size) := decodeRune (b :: t)
    if r == 0x3A then size + lookStopF n ((b :: t).drop size)
    else if r == 0x20 then
      if headIs 0x20 t then 0 else size + lookStopF n ((b :: t).drop size)
    else if isAccountTerminator r then 0
    else size + lookStopF n ((b :: t).drop size)
def lookStop (a : Bytes) : Nat := lookStopF a.length a

/-- offsets reachable from the start of `a` by decoding rune after rune -/
inductive OnChain (a : Bytes) : Nat → Prop
  | zero : OnChain a 0
  | step (j : Nat) : OnChain a j → j < a.length → OnChain a (j + (decodeRune (a.drop j)).2)

/-- `advance` (and every other move of the lexer: `bump` by a decoded width) goes to the next
    chain position. -/
theorem advance_on_chain (z : Z) (h : z.after ≠ []) :
    (advance z).before.length = z.before.length + (decodeRune z.after).2 := by
  cases hz : z.after with
  | nil => exact absurd hz h
  | cons b t =>
    have hw := decodeRune_width_le_length b t
    simp only [advance, hz, Z.bump, List.length_append, List.length_reverse, List.length_take, List.length_cons]
    simp only [List.length_cons] at hw
    omega

theorem lookStopF_fuel (n m : Nat) (a : Bytes) (hn : a.length ≤ n) (hm : a.length ≤ m) :
    lookStopF n a = lookStopF m a := by
  induction n generalizing m a with
  | zero =>
    have h0 : a = [] := List.eq_nil_of_length_eq_zero (by omega)
    subst h0
    cases m <;> simp [lookStopF]
  | succ n ih =>
    cases m with
    | zero =>
      have h0 : a = [] := List.eq_nil_of_length_eq_zero (by omega)
      subst h0
      simp [lookStopF]
    | succ m =>
      cases a with
      | nil => simp [lookStopF]
      | cons b t =>
        have hw := decodeRune_width_pos b t
        have hl : ((b :: t).drop (decodeRune (b :: t)).2).length ≤ t.length := by
          simp only [List.length_drop, List.length_cons]; omega
        simp only [List.length_cons] at hn hm
        simp only [lookStopF]
        rw [ih m _ (by omega) (by omega)]

theorem looksLikeAccountF_true (n : Nat) (a : Bytes) : looksLikeAccountF n a true = true := by
  induction n generalizing a with
  | zero => rfl
  | succ n ih =>
    cases a with
    | nil => rfl
    | cons b t =>
      simp only [looksLikeAccountF, ih]
      repeat' split
      all_goals rfl

/-- one turn of the loop: if the scan finds no colon and does not stop at the first rune, it is
    the scan from behind that rune -/
theorem looksLikeAccount_step (b : UInt8) (t : Bytes) (h : looksLikeAccount (b :: t) = false)
    (hs : 0 < lookStop (b :: t)) :
    looksLikeAccount ((b :: t).drop (decodeRune (b :: t)).2) = false ∧
      lookStop (b :: t) = (decodeRune (b :: t)).2 + lookStop ((b :: t).drop (decodeRune (b :: t)).2) := by
  have hw := decodeRune_width_pos b t
  have hl : ((b :: t).drop (decodeRune (b :: t)).2).length ≤ t.length := by
    simp only [List.length_drop, List.length_cons]; omega
  have e1 : ∀ hc, looksLikeAccountF t.length ((b :: t).drop (decodeRune (b :: t)).2) hc =
      looksLikeAccountF ((b :: t).drop (decodeRune (b :: t)).2).length ((b :: t).drop (decodeRune (b :: t)).2) hc :=
    fun hc => looksLikeAccountF_fuel _ _ _ hc hl (Nat.le_refl _)
  have e2 : lookStopF t.length ((b :: t).drop (decodeRune (b :: t)).2) =
      lookStopF ((b :: t).drop (decodeRune (b :: t)).2).length ((b :: t).drop (decodeRune (b :: t)).2) :=
    lookStopF_fuel _ _ _ hl (Nat.le_refl _)
  unfold looksLikeAccount at h ⊢
  unfold lookStop at hs ⊢
  simp only [List.length_cons, looksLikeAccountF, lookStopF] at h hs
  simp only [List.length_cons, lookStopF]
  by_cases c1 : ((decodeRune (b :: t)).1 == 0x3A) = true
  · simp only [c1, if_true, looksLikeAccountF_true] at h
    exact absurd h (by simp)
  · simp only [c1, Bool.false_eq_true, if_false] at h hs ⊢
    by_cases c2 : ((decodeRune (b :: t)).1 == 0x20) = true
    · simp only [c2, if_true] at h hs ⊢
      by_cases c3 : headIs 0x20 t = true
      · simp [c3] at hs
      · simp only [c3, Bool.false_eq_true, if_false] at h hs ⊢
        rw [← e1, ← e2]
        exact ⟨h, rfl⟩
    · simp only [c2, Bool.false_eq_true, if_false] at h hs ⊢
      by_cases c4 : isAccountTerminator (decodeRune (b :: t)).1 = true
      · simp [c4] at hs
      · simp only [c4, Bool.false_eq_true, if_false] at h hs ⊢
        rw [← e1, ← e2]
        exact ⟨h, rfl⟩

/-- a chain position other than 0 lies behind the first rune, on the chain from there -/
theorem OnChain.uncons {a : Bytes} {j : Nat} (h : OnChain a j) :
    j = 0 ∨ ((decodeRune a).2 ≤ j ∧ OnChain (a.drop (decodeRune a).2) (j - (decodeRune a).2)) := by
  induction h with
  | zero => exact Or.inl rfl
  | step j hj hlt ih =>
    right
    rcases ih with rfl | ⟨hle, hc⟩
    · simp only [List.drop_zero, Nat.zero_add, Nat.le_refl, Nat.sub_self, true_and]
      exact OnChain.zero
    · refine ⟨by omega, ?_⟩
      have hd : a.drop j = (a.drop (decodeRune a).2).drop (j - (decodeRune a).2) := by
        rw [List.drop_drop]; congr 1; omega
      have : j + (decodeRune (a.drop j)).2 - (decodeRune a).2 =
          (j - (decodeRune a).2) + (decodeRune ((a.drop (decodeRune a).2).drop (j - (decodeRune a).2))).2 := by
        rw [← hd]; omega
      rw [this]
      exact OnChain.step _ hc (by simp only [List.length_drop]; omega)

/-- **Cache soundness.**  If the scan from `a` found no colon, then from every rune boundary
    inside the stretch it walked over, the scan finds no colon either. -/
theorem looksLikeAccount_cache_sound (a : Bytes) (h : looksLikeAccount a = false) (j : Nat)
    (hc : OnChain a j) (hj : j < lookStop a) : looksLikeAccount (a.drop j) = false := by
  generalize hn : a.length = n
  induction n using Nat.strongRecOn generalizing a j with
  | _ n ih =>
    rcases hc.uncons with rfl | ⟨hle, hc'⟩
    · simpa using h
    · cases a with
      | nil => simp [lookStop, lookStopF] at hj
      | cons b t =>
        obtain ⟨h1, h2⟩ := looksLikeAccount_step b t h (by omega)
        have hw := decodeRune_width_pos b t
        have hlen : ((b :: t).drop (decodeRune (b :: t)).2).length < n := by
          rw [← hn]; simp only [List.length_drop, List.length_cons]; omega
        have := ih _ hlen _ h1 _ hc' (by omega) rfl
        rw [List.drop_drop] at this
        have hidx : (decodeRune (b :: t)).2 + (j - (decodeRune (b :: t)).2) = j := by omega
        rw [hidx] at this
        exact this

end HL.Lex
