/-
  `updateIncludeEdgesLocked`: effect on the include graph and the reverse graph;
  `resolveIncludePaths`; reachability lemmas that do not depend on the workspace.
-/
import HL.Lemmas.ReachIdx
namespace HL.Lemmas.Edges
open HL.Index HL.Workspace HL.Lemmas.AList HL.Lemmas.ReachIdx HL.Spec.Rebuild

/-! ### resolveIncludePaths -/

theorem mem_resolveIncl (path : String) (incs : List String) (v : String) :
    v ∈ resolveIncl path incs ↔ v ∈ incs ∧ v ≠ path := by
  simp [resolveIncl, List.mem_filter]

theorem resolveIncl_congr (path : String) (l₁ l₂ : List String)
    (h : ∀ v, v ≠ path → (v ∈ l₁ ↔ v ∈ l₂)) : resolveIncl path l₁ = resolveIncl path l₂ := by
  unfold resolveIncl
  apply isort_ext _ _ (dedup_nodup _) (dedup_nodup _)
  intro a
  simp only [mem_dedup, List.mem_filter, ne_eq, decide_eq_true_eq]
  constructor
  · rintro ⟨h1, h2⟩; exact ⟨(h a h2).mp h1, h2⟩
  · rintro ⟨h1, h2⟩; exact ⟨(h a h2).mpr h1, h2⟩

/-! ### the reverse graph folds -/

def revRemove (rev : AList (List String)) (path : String) (l : List String) : AList (List String) :=
  l.foldl (fun rev inc => rev.set inc (removeString (rev.getD inc []) path)) rev

def revAdd (rev : AList (List String)) (path : String) (l : List String) : AList (List String) :=
  l.foldl (fun rev inc => rev.set inc (addString (rev.getD inc []) path)) rev

theorem updateIncludeEdges_eq (w : WS) (path : String) (o n : List String) :
    updateIncludeEdges w path o n =
      { w with incG := w.incG.set path n, revG := revAdd (revRemove w.revG path o) path n } := rfl

theorem mem_revRemove (rev : AList (List String)) (path : String) (l : List String) (q x : String) :
    x ∈ (revRemove rev path l).getD q [] ↔ x ∈ rev.getD q [] ∧ ¬ (q ∈ l ∧ x = path) := by
  induction l generalizing rev with
  | nil => simp [revRemove]
  | cons a r ih =>
    simp only [revRemove, List.foldl_cons] at *
    rw [ih, getD_set]
    by_cases h : a = q
    · subst h
      simp only [if_true, removeString, List.mem_filter, ne_eq, decide_eq_true_eq, List.mem_cons,
        true_or, true_and]
      constructor
      · rintro ⟨⟨h1, h2⟩, _⟩; exact ⟨h1, h2⟩
      · rintro ⟨h1, h2⟩; exact ⟨⟨h1, h2⟩, fun h3 => h2 h3.2⟩
    · have : ¬ q = a := fun e => h e.symm
      simp [h, this]

theorem mem_revAdd (rev : AList (List String)) (path : String) (l : List String) (q x : String) :
    x ∈ (revAdd rev path l).getD q [] ↔ x ∈ rev.getD q [] ∨ (q ∈ l ∧ x = path) := by
  induction l generalizing rev with
  | nil => simp [revAdd]
  | cons a r ih =>
    simp only [revAdd, List.foldl_cons] at *
    rw [ih, getD_set]
    by_cases h : a = q
    · subst h
      simp only [if_true, addString, List.mem_cons, true_or, true_and]
      by_cases hp : path ∈ rev.getD a []
      · simp only [hp, if_true]
        constructor
        · rintro (h1 | h1)
          · exact Or.inl h1
          · exact Or.inr h1.2
        · rintro (h1 | h1)
          · exact Or.inl h1
          · exact Or.inl (h1 ▸ hp)
      · simp only [hp, if_false, List.mem_append, List.mem_singleton]
        constructor
        · rintro ((h1 | h1) | h1)
          · exact Or.inl h1
          · exact Or.inr h1
          · exact Or.inr h1.2
        · rintro (h1 | h1)
          · exact Or.inl (Or.inl h1)
          · exact Or.inl (Or.inr h1)
    · have : ¬ q = a := fun e => h e.symm
      simp [h, this]

/-- the reverse graph after `updateIncludeEdgesLocked(path, old, new)` -/
theorem mem_rev_update (w : WS) (path : String) (o n : List String) (q x : String) :
    x ∈ (updateIncludeEdges w path o n).revG.getD q [] ↔
      (x ∈ w.revG.getD q [] ∧ ¬ (q ∈ o ∧ x = path)) ∨ (q ∈ n ∧ x = path) := by
  rw [updateIncludeEdges_eq]
  simp only [mem_revAdd, mem_revRemove]

theorem incG_update (w : WS) (path : String) (o n : List String) (x : String) :
    (updateIncludeEdges w path o n).incG.getD x [] = if path = x then n else w.incG.getD x [] := by
  rw [updateIncludeEdges_eq]
  simp only [getD_set]

/-! ### reachability does not depend on the target's own edges -/

theorem reachS_target_indep {s₁ s₂ : String → List String} {root p : String}
    (hs : ∀ u, u ≠ p → s₁ u = s₂ u) (h : ReachS s₁ root p) : ReachS s₂ root p := by
  have key : ∀ x, ReachS s₁ root x → ReachS s₂ root x ∨ ReachS s₂ root p := by
    intro x hx
    induction hx with
    | base => exact Or.inl .base
    | @step u v _ hq ih =>
      rcases ih with ih | ih
      · by_cases e : u = p
        · exact Or.inr (e ▸ ih)
        · exact Or.inl (.step ih (hs u e ▸ hq))
      · exact Or.inr ih
  rcases key p h with h | h <;> exact h

/-- successor functions that agree up to self loops reach the same nodes -/
theorem reachS_mod_self {s₁ s₂ : String → List String} {root x : String}
    (hs : ∀ u v, v ≠ u → v ∈ s₁ u → v ∈ s₂ u) (h : ReachS s₁ root x) : ReachS s₂ root x := by
  induction h with
  | base => exact .base
  | @step u v _ hq ih =>
    by_cases e : v = u
    · exact e ▸ ih
    · exact .step ih (hs u v e hq)

/-- removing the edges of an unreachable node does not change reachability -/
theorem reachS_drop_unreachable {s₁ s₂ : String → List String} {root t x : String}
    (hs : ∀ u, u ≠ t → s₁ u = s₂ u) (ht : ¬ ReachS s₁ root t) (h : ReachS s₁ root x) :
    ReachS s₂ root x := by
  induction h with
  | base => exact .base
  | @step u v hp hq ih =>
    have : u ≠ t := fun e => ht (e ▸ hp)
    exact .step ih (hs u this ▸ hq)

end HL.Lemmas.Edges
