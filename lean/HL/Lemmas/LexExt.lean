import HL.Lemmas.Lexer
/-!
  Extension invariance of the lexer (the other half of line-locality): as long as a line feed
  is still ahead, no scan function and no look-ahead predicate reads beyond it — appending
  bytes behind the rest of the input changes nothing but the rest itself.
-/
namespace HL.Lex
open HL HL.Utf8

local notation "LF" => (0x0A : UInt8)

/-- the same state with `b` appended to the unread input -/
def Z.ext (b : Bytes) (z : Z) : Z := { z with after := z.after ++ b }

def extR (b : Bytes) (r : Token × Z) : Token × Z := (r.1, r.2.ext b)

/-- a line feed is still ahead -/
def HasLF (z : Z) : Prop := LF ∈ z.after

variable (x : Bytes)

@[simp] theorem ext_after (z : Z) : (z.ext x).after = z.after ++ x := rfl
@[simp] theorem ext_before (z : Z) : (z.ext x).before = z.before := rfl
@[simp] theorem ext_col (z : Z) : (z.ext x).col = z.col := rfl
@[simp] theorem ext_atStart (z : Z) : (z.ext x).atStart = z.atStart := rfl
@[simp] theorem ext_position (z : Z) : (z.ext x).position = z.position := rfl
@[simp] theorem between_ext (s e : Z) : between (s.ext x) (e.ext x) = between s e := rfl
@[simp] theorem mkTok_ext (ty : TokType) (v : Bytes) (s e : Z) :
    mkTok ty v (s.ext x) (e.ext x) = extR x (mkTok ty v s e) := rfl

theorem HasLF.ne_nil {z : Z} (h : HasLF z) : z.after ≠ [] := by
  intro h0; simp [HasLF, h0] at h

theorem HasLF.cons {z : Z} (h : HasLF z) : ∃ c t, z.after = c :: t := by
  cases hz : z.after with
  | nil => exact absurd hz h.ne_nil
  | cons c t => exact ⟨c, t, rfl⟩

/-- if the first byte is not the line feed, the line feed is further on -/
theorem mem_tail_of_ne {c : UInt8} {t : Bytes} (h : LF ∈ c :: t) (hc : c ≠ LF) : LF ∈ t := by
  rcases List.mem_cons.mp h with h | h
  · exact absurd h.symm hc
  · exact h

theorem bump_ext (z : Z) (w : Nat) (hw : w ≤ z.after.length) : (z.ext x).bump w = (z.bump w).ext x := by
  simp [Z.bump, Z.ext, List.take_append_of_le_length hw, List.drop_append_of_le_length hw]

theorem advance_ext {z : Z} (h : HasLF z) : advance (z.ext x) = (advance z).ext x := by
  obtain ⟨c, t, hz⟩ := h.cons
  have hm : LF ∈ c :: t := by rw [← hz]; exact h
  unfold advance
  simp only [ext_after, hz, List.cons_append]
  have := decodeRune_append_of_lf (c :: t) x hm
  simp only [List.cons_append] at this
  rw [this]
  have hw := decodeRune_width_le_length c t
  exact bump_ext x z _ (by rw [hz]; exact hw)

/-- `advance` at a byte other than the line feed does not step over the line feed -/
theorem advance_hasLF {z : Z} (h : HasLF z) (hp : peek z ≠ LF) : HasLF (advance z) := by
  obtain ⟨c, t, hz⟩ := h.cons
  have hm : LF ∈ c :: t := by rw [← hz]; exact h
  have hc : c ≠ LF := by simpa [peek, hz] using hp
  unfold advance HasLF
  simp only [hz, Z.bump]
  have h1 := decodeRune_take_noLF c t hc
  have h2 : LF ∈ (c :: t).take (decodeRune (c :: t)).2 ++ (c :: t).drop (decodeRune (c :: t)).2 := by
    rw [List.take_append_drop]; exact hm
  rcases List.mem_append.mp h2 with h3 | h3
  · exact absurd h3 h1
  · exact h3

theorem peek_ext {z : Z} (h : HasLF z) : peek (z.ext x) = peek z := by
  obtain ⟨c, t, hz⟩ := h.cons
  simp [peek, hz]

theorem peekRune_ext {z : Z} (h : HasLF z) : peekRune (z.ext x) = peekRune z := by
  obtain ⟨c, t, hz⟩ := h.cons
  have hm : LF ∈ c :: t := by rw [← hz]; exact h
  have := decodeRune_append_of_lf (c :: t) x hm
  simp only [List.cons_append] at this
  simp [peekRune, hz, this]

theorem advWhileF_ext (p : UInt8 → Bool) (hp : p LF = false) (n : Nat) {z : Z} (h : HasLF z) :
    advWhileF p n (z.ext x) = (advWhileF p n z).ext x ∧ HasLF (advWhileF p n z) := by
  induction n generalizing z with
  | zero => exact ⟨rfl, h⟩
  | succ n ih =>
    obtain ⟨c, t, hz⟩ := h.cons
    unfold advWhileF
    simp only [ext_after, hz, List.cons_append]
    split
    · rename_i hpc
      have hc : peek z ≠ LF := by
        intro e
        simp [peek, hz] at e
        rw [e, hp] at hpc
        exact absurd hpc (by simp)
      rw [advance_ext x h]
      exact ih (advance_hasLF h hc)
    · exact ⟨by simp [Z.ext, hz], h⟩

theorem advWhile_ext (p : UInt8 → Bool) (hp : p LF = false) {z : Z} (h : HasLF z) :
    advWhile p (z.ext x) = (advWhile p z).ext x ∧ HasLF (advWhile p z) := by
  have h1 := advWhileF_ext x p hp (z.ext x).after.length h
  have h2 : advWhileF p (z.ext x).after.length z = advWhile p z :=
    (advWhile_eq_fuel p z _ (by simp)).symm
  rw [h2] at h1
  exact h1

theorem advIf_ext (p : UInt8 → Bool) (hp : p LF = false) {z : Z} (h : HasLF z) :
    advIf p (z.ext x) = (advIf p z).ext x ∧ HasLF (advIf p z) := by
  obtain ⟨c, t, hz⟩ := h.cons
  unfold advIf
  simp only [ext_after, hz, List.cons_append]
  split
  · rename_i hpc
    have hc : peek z ≠ LF := by
      intro e
      simp [peek, hz] at e
      rw [e, hp] at hpc
      exact absurd hpc (by simp)
    exact ⟨advance_ext x h, advance_hasLF h hc⟩
  · exact ⟨by simp [Z.ext, hz], h⟩

/-! ### pure look-aheads do not read behind a line feed -/

theorem getD_append_left (a b : Bytes) (i : Nat) (h : i < a.length) : (a ++ b).getD i 0 = a.getD i 0 := by
  simp [List.getD_eq_getElem?_getD, List.getElem?_append_left h]

theorem decodeRune_lf (t : Bytes) : decodeRune (LF :: t) = (10, 1) := by
  simp [decodeRune]

theorem headIs_append (c : UInt8) {t : Bytes} (h : t ≠ []) : headIs c (t ++ x) = headIs c t := by
  cases t with
  | nil => exact absurd rfl h
  | cons a t => rfl

theorem headIsDigit_append {t : Bytes} (h : t ≠ []) : headIsDigit (t ++ x) = headIsDigit t := by
  cases t with
  | nil => exact absurd rfl h
  | cons a t => rfl

theorem ne_nil_of_lf_mem {t : Bytes} (h : LF ∈ t) : t ≠ [] := by
  intro e; simp [e] at h

/-- whether the lexer is at a line end does not depend on what follows the next line feed -/
theorem atEol_append {a : Bytes} (h : LF ∈ a) : atEol (a ++ x) = atEol a := by
  cases a with
  | nil => simp at h
  | cons c t =>
    simp only [List.cons_append, atEol]
    by_cases hc : c = LF
    · subst hc; simp
    · rw [headIs_append x _ (ne_nil_of_lf_mem (mem_tail_of_ne h hc))]

theorem atEol_ne_lf {c : UInt8} {t : Bytes} (h : atEol (c :: t) = false) : c ≠ LF := by
  intro e; subst e; simp [atEol] at h

theorem advLineF_ext (p : UInt8 → Bool) (n : Nat) {z : Z} (h : HasLF z) :
    advLineF p n (z.ext x) = (advLineF p n z).ext x ∧ HasLF (advLineF p n z) := by
  induction n generalizing z with
  | zero => exact ⟨rfl, h⟩
  | succ n ih =>
    obtain ⟨c, t, hz⟩ := h.cons
    have hm : LF ∈ c :: t := by rw [← hz]; exact h
    unfold advLineF
    simp only [ext_after, hz]
    have he := atEol_append x hm
    simp only [List.cons_append] at he ⊢
    rw [he]
    split
    · rename_i hpc
      have hc : peek z ≠ LF := by
        simp only [Bool.and_eq_true, Bool.not_eq_true'] at hpc
        simpa [peek, hz] using atEol_ne_lf hpc.2
      rw [advance_ext x h]
      exact ih (advance_hasLF h hc)
    · exact ⟨by simp [Z.ext, hz], h⟩

theorem advLine_ext (p : UInt8 → Bool) {z : Z} (h : HasLF z) :
    advLine p (z.ext x) = (advLine p z).ext x ∧ HasLF (advLine p z) := by
  have h1 := advLineF_ext x p (z.ext x).after.length h
  have h2 : advLineF p (z.ext x).after.length z = advLine p z :=
    (advLine_eq_fuel p z _ (by simp)).symm
  rw [h2] at h1
  exact h1

theorem expAhead_append {r : Bytes} (h : LF ∈ r) : expAhead (r ++ x) = expAhead r := by
  cases r with
  | nil => simp at h
  | cons s r2 =>
    simp only [List.cons_append, expAhead]
    split
    · rename_i hs
      have : s ≠ LF := by intro e; rw [e] at hs; exact absurd hs (by decide)
      exact headIsDigit_append x (ne_nil_of_lf_mem (mem_tail_of_ne h this))
    · rfl

theorem digitOrSignedDigit_append {d : Bytes} (h : LF ∈ d) :
    digitOrSignedDigit (d ++ x) = digitOrSignedDigit d := by
  cases d with
  | nil => simp at h
  | cons ch r =>
    simp only [List.cons_append, digitOrSignedDigit]
    by_cases hc : ch = LF
    · subst hc; simp [isDigit]
    · rw [headIsDigit_append x (ne_nil_of_lf_mem (mem_tail_of_ne h hc))]

theorem lvaGo_append {a : Bytes} (h : LF ∈ a) : lvaGo (a ++ x) = lvaGo a := by
  induction a with
  | nil => simp at h
  | cons c t ih =>
    simp only [List.cons_append, lvaGo]
    by_cases hc : c = LF
    · subst hc; simp
    · rw [ih (mem_tail_of_ne h hc)]

theorem looksLikeVirtualAccount_append {c : UInt8} {t : Bytes} (h : LF ∈ c :: t) (hc : c ≠ LF) :
    looksLikeVirtualAccount (c :: t ++ x) = looksLikeVirtualAccount (c :: t) := by
  simp only [looksLikeVirtualAccount, List.cons_append, List.drop_succ_cons, List.drop_zero]
  exact lvaGo_append x (mem_tail_of_ne h hc)

theorem dropWhile_append_of_mem (p : UInt8 → Bool) (hp : p LF = false) {t : Bytes} (h : LF ∈ t) :
    (t ++ x).dropWhile p = t.dropWhile p ++ x ∧ LF ∈ t.dropWhile p := by
  induction t with
  | nil => simp at h
  | cons c t ih =>
    simp only [List.cons_append, List.dropWhile_cons]
    by_cases hc : p c = true
    · have : c ≠ LF := by intro e; rw [e, hp] at hc; exact absurd hc (by simp)
      simp only [hc, if_true]
      exact ih (mem_tail_of_ne h this)
    · simp only [hc]
      exact ⟨by simp, h⟩

theorem nextIsDigit_append {c : UInt8} {t : Bytes} (h : LF ∈ c :: t) (hc : c ≠ LF) :
    nextIsDigit (c :: t ++ x) = nextIsDigit (c :: t) := by
  simp only [nextIsDigit, List.cons_append, List.drop_succ_cons, List.drop_zero]
  exact headIsDigit_append x (ne_nil_of_lf_mem (mem_tail_of_ne h hc))

theorem nextIsCurrencySymbol_append {c : UInt8} {t : Bytes} (h : LF ∈ c :: t) (hc : c ≠ LF) :
    nextIsCurrencySymbol (c :: t ++ x) = nextIsCurrencySymbol (c :: t) := by
  have ht := mem_tail_of_ne h hc
  simp only [nextIsCurrencySymbol, List.cons_append, List.drop_succ_cons, List.drop_zero]
  cases t with
  | nil => simp at ht
  | cons b t =>
    have := decodeRune_append_of_lf (b :: t) x ht
    simp only [List.cons_append] at this ⊢
    rw [this]

theorem nextIsLetterCommodity_append {c : UInt8} {t : Bytes} (h : LF ∈ c :: t) (hc : c ≠ LF) :
    nextIsLetterCommodity (c :: t ++ x) = nextIsLetterCommodity (c :: t) := by
  have ht := mem_tail_of_ne h hc
  simp only [nextIsLetterCommodity, List.cons_append, List.drop_succ_cons, List.drop_zero]
  cases t with
  | nil => simp at ht
  | cons b t =>
    simp only [List.cons_append]
    split
    · rfl
    · have hd := dropWhile_append_of_mem x isLetter (by decide) ht
      simp only [List.cons_append] at hd
      rw [hd.1, digitOrSignedDigit_append x hd.2]

theorem lf_mem_drop_width {b : UInt8} {t : Bytes} (h : LF ∈ b :: t) (hb : b ≠ LF) :
    LF ∈ (b :: t).drop (decodeRune (b :: t)).2 := by
  have h1 := decodeRune_take_noLF b t hb
  have h2 : LF ∈ (b :: t).take (decodeRune (b :: t)).2 ++ (b :: t).drop (decodeRune (b :: t)).2 := by
    rw [List.take_append_drop]; exact h
  rcases List.mem_append.mp h2 with h3 | h3
  · exact absurd h3 h1
  · exact h3

theorem looksLikeAccountF_append (n : Nat) {a : Bytes} (hc : Bool) (h : LF ∈ a) :
    looksLikeAccountF n (a ++ x) hc = looksLikeAccountF n a hc := by
  induction n generalizing a hc with
  | zero => rfl
  | succ n ih =>
    cases a with
    | nil => simp at h
    | cons b t =>
      by_cases hb : b = LF
      · subst hb
        simp [looksLikeAccountF, decodeRune_lf, isAccountTerminator]
      · have ht := mem_tail_of_ne h hb
        have hd := decodeRune_append_of_lf (b :: t) x h
        have hw := decodeRune_width_le_length b t
        have hdrop : (b :: (t ++ x)).drop (decodeRune (b :: t)).2 = (b :: t).drop (decodeRune (b :: t)).2 ++ x := by
          rw [← List.cons_append]; exact List.drop_append_of_le_length hw
        have hm := lf_mem_drop_width h hb
        simp only [List.cons_append] at hd
        simp only [List.cons_append, looksLikeAccountF, hd, hdrop, headIs_append x 0x20 (ne_nil_of_lf_mem ht),
          ih _ hm]

theorem looksLikeAccountF_fuel (n m : Nat) (a : Bytes) (hc : Bool)
    (hn : a.length ≤ n) (hm : a.length ≤ m) : looksLikeAccountF n a hc = looksLikeAccountF m a hc := by
  induction n generalizing m a hc with
  | zero =>
    have h0 : a = [] := List.eq_nil_of_length_eq_zero (by omega)
    subst h0
    cases m <;> simp [looksLikeAccountF]
  | succ n ih =>
    cases m with
    | zero =>
      have h0 : a = [] := List.eq_nil_of_length_eq_zero (by omega)
      subst h0
      simp [looksLikeAccountF]
    | succ m =>
      cases a with
      | nil => simp [looksLikeAccountF]
      | cons b t =>
        have hw := decodeRune_width_pos b t
        have hl : ((b :: t).drop (decodeRune (b :: t)).2).length ≤ t.length := by
          simp only [List.length_drop, List.length_cons]; omega
        simp only [List.length_cons] at hn hm
        simp only [looksLikeAccountF]
        rw [ih m _ true (by omega) (by omega), ih m _ hc (by omega) (by omega)]

theorem looksLikeAccount_append {a : Bytes} (h : LF ∈ a) : looksLikeAccount (a ++ x) = looksLikeAccount a := by
  unfold looksLikeAccount
  rw [looksLikeAccountF_append x _ false h]
  exact looksLikeAccountF_fuel _ _ a false (by simp) (Nat.le_refl _)

theorem looksLikeDateCore_false (l : Bytes) (i : Nat) (hi : i ≤ 6) (h : l.getD i 0 = LF) :
    looksLikeDateCore l = false := by
  have hcases : i = 0 ∨ i = 1 ∨ i = 2 ∨ i = 3 ∨ i = 4 ∨ i = 5 ∨ i = 6 := by omega
  unfold looksLikeDateCore
  rcases hcases with rfl | rfl | rfl | rfl | rfl | rfl | rfl
  all_goals simp only [h]
  all_goals try (simp [isDigit]; done)
  -- i = 6: the byte behind the month is a line feed, which is no separator
  generalize l.getD 4 0 = s
  by_cases hs : s = LF
  · subst hs; simp
  · have : ((10 : UInt8) == s) = false := by simp; exact fun e => hs e.symm
    simp [isDigit, this]

theorem looksLikeDate_append {a : Bytes} (h : LF ∈ a) : looksLikeDate (a ++ x) = looksLikeDate a := by
  obtain ⟨i, hi, hai⟩ := List.getElem_of_mem h
  have hgi : (a ++ x).getD i 0 = LF := by
    rw [getD_append_left a x i hi]
    simp [List.getD_eq_getElem?_getD, List.getElem?_eq_getElem hi, hai]
  unfold looksLikeDate
  by_cases hl : a.length < 8
  · simp only [hl, if_true]
    split
    · rfl
    · exact looksLikeDateCore_false _ i (by omega) hgi
  · have hl2 : ¬ (a ++ x).length < 8 := by simp; omega
    simp only [hl, hl2, if_false]
    unfold looksLikeDateCore
    simp only [getD_append_left a x _ (show 0 < a.length by omega), getD_append_left a x _ (show 1 < a.length by omega),
      getD_append_left a x _ (show 2 < a.length by omega), getD_append_left a x _ (show 3 < a.length by omega),
      getD_append_left a x _ (show 4 < a.length by omega), getD_append_left a x _ (show 5 < a.length by omega),
      getD_append_left a x _ (show 6 < a.length by omega), getD_append_left a x _ (show 7 < a.length by omega)]

/-! ### every scan function commutes with the extension while a line feed is ahead -/

theorem scanDate_ext {z : Z} (h : HasLF z) : scanDate (z.ext x) = extR x (scanDate z) := by
  simp only [scanDate]
  rw [(advWhile_ext x _ (by decide) h).1]
  rfl

theorem scanIndent_ext {z : Z} (h : HasLF z) : scanIndent (z.ext x) = extR x (scanIndent z) := by
  simp only [scanIndent]
  rw [(advLine_ext x _ h).1]
  rfl

theorem scanText_ext {z : Z} (h : HasLF z) : scanText (z.ext x) = extR x (scanText z) := by
  simp only [scanText]
  rw [(advLine_ext x _ h).1]
  rfl

theorem scanStatus_ext {z : Z} (h : HasLF z) : scanStatus (z.ext x) = extR x (scanStatus z) := by
  simp only [scanStatus]
  rw [peek_ext x h, advance_ext x h]
  rfl

theorem scanSign_ext {z : Z} (h : HasLF z) : scanSign (z.ext x) = extR x (scanSign z) := by
  simp only [scanSign]
  rw [peek_ext x h, advance_ext x h]
  rfl

theorem punct_ext (ty : TokType) (v : Bytes) {z : Z} (h : HasLF z) :
    punct ty v (z.ext x) = extR x (punct ty v z) := by
  simp only [punct]
  rw [advance_ext x h]
  rfl

theorem scanNewline_ext {z : Z} (h : HasLF z) : scanNewline (z.ext x) = extR x (scanNewline z) := by
  simp only [scanNewline]
  have h1 := advIf_ext x (· == 0x0D) (by decide) h
  rw [h1.1, advance_ext x h1.2]
  rfl

theorem scanCode_ext {z : Z} (h : HasLF z) (hp : peek z ≠ LF) : scanCode (z.ext x) = extR x (scanCode z) := by
  simp only [scanCode]
  have h1 := advance_hasLF h hp
  have h2 := advLine_ext x (fun c => c != 0x29) h1
  have h3 := advIf_ext x (· == 0x29) (by decide) h2.2
  rw [advance_ext x h, h2.1, h3.1]
  rfl

theorem scanQuotedCommodity_ext {z : Z} (h : HasLF z) (hp : peek z ≠ LF) :
    scanQuotedCommodity (z.ext x) = extR x (scanQuotedCommodity z) := by
  simp only [scanQuotedCommodity]
  have h1 := advance_hasLF h hp
  have h2 := advLine_ext x (fun c => c != 0x22) h1
  have h3 := advIf_ext x (· == 0x22) (by decide) h2.2
  rw [advance_ext x h, h2.1, h3.1]
  rfl

theorem scanComment_ext {z : Z} (h : HasLF z) (hp : peek z ≠ LF) :
    scanComment (z.ext x) = extR x (scanComment z) := by
  simp only [scanComment]
  have h1 := advance_hasLF h hp
  have h2 := advLine_ext x (fun _ => true) h1
  rw [advance_ext x h, h2.1]
  rfl

theorem scanAt_ext {z : Z} (h : HasLF z) (hp : peek z ≠ LF) : scanAt (z.ext x) = extR x (scanAt z) := by
  simp only [scanAt]
  have h1 := advance_hasLF h hp
  rw [advance_ext x h, ext_after, headIs_append x _ h1.ne_nil, advance_ext x h1]
  split <;> rfl

theorem scanEquals_ext {z : Z} (h : HasLF z) (hp : peek z ≠ LF) : scanEquals (z.ext x) = extR x (scanEquals z) := by
  simp only [scanEquals]
  have h1 := advance_hasLF h hp
  rw [advance_ext x h, ext_after, headIs_append x _ h1.ne_nil, advance_ext x h1]
  split <;> rfl

theorem scanCurrencySymbol_ext {z : Z} (h : HasLF z) :
    scanCurrencySymbol (z.ext x) = extR x (scanCurrencySymbol z) := by
  obtain ⟨c, t, hz⟩ := h.cons
  have hm : LF ∈ c :: t := by rw [← hz]; exact h
  have hd := decodeRune_append_of_lf (c :: t) x hm
  have hw := decodeRune_width_le_length c t
  simp only [scanCurrencySymbol, ext_after, hz, hd]
  rw [bump_ext x z _ (by rw [hz]; exact hw)]
  rfl

theorem bump_hasLF {z : Z} {b : UInt8} {t : Bytes} (hz : z.after = b :: t) (h : HasLF z) (hb : b ≠ LF) :
    HasLF (z.bump (decodeRune (b :: t)).2) := by
  have hm : LF ∈ b :: t := by rw [← hz]; exact h
  simpa [HasLF, Z.bump, hz] using lf_mem_drop_width hm hb

theorem scanAccountF_ext (n : Nat) {z : Z} (l : Z) (h : HasLF z) :
    scanAccountF n (z.ext x) (l.ext x) = ((scanAccountF n z l).1.ext x, (scanAccountF n z l).2.ext x) := by
  induction n generalizing z l with
  | zero => rfl
  | succ n ih =>
    obtain ⟨b, t, hz⟩ := h.cons
    have hm : LF ∈ b :: t := by rw [← hz]; exact h
    have hd := decodeRune_append_of_lf (b :: t) x hm
    simp only [List.cons_append] at hd
    by_cases hb : b = LF
    · subst hb
      simp [scanAccountF, hz, decodeRune_lf, isAccountTerminator]
    · have ht := mem_tail_of_ne hm hb
      have hw := decodeRune_width_le_length b t
      have hbe := bump_ext x z (decodeRune (b :: t)).2 (by rw [hz]; exact hw)
      have hlf := bump_hasLF hz h hb
      simp only [scanAccountF, ext_after, hz, List.cons_append, hd, headIs_append x 0x20 (ne_nil_of_lf_mem ht), hbe]
      split
      · split
        · rfl
        · exact ih l hlf
      · split
        · rfl
        · exact ih _ hlf

theorem scanAccount_ext {z : Z} (h : HasLF z) : scanAccount (z.ext x) = extR x (scanAccount z) := by
  simp only [scanAccount]
  rw [scanAccountF_ext x _ z h]
  rw [scanAccountF_fuel (z.ext x).after.length z.after.length z z (by simp) (Nat.le_refl _)]
  rfl

theorem scanNumberF_ext (n : Nat) {z : Z} (hd : Bool) (h : HasLF z) :
    scanNumberF n (z.ext x) hd = (scanNumberF n z hd).ext x := by
  induction n generalizing z hd with
  | zero => rfl
  | succ n ih =>
    obtain ⟨ch, rest, hz⟩ := h.cons
    have hm : LF ∈ ch :: rest := by rw [← hz]; exact h
    by_cases hc : ch = LF
    · subst hc
      simp [scanNumberF, hz, isDigit, Z.ext]
    · have hr := mem_tail_of_ne hm hc
      have hp : peek z ≠ LF := by simpa [peek, hz] using hc
      have h1 := advance_hasLF h hp
      have h2 := advIf_ext x isSign (by decide) h1
      simp only [scanNumberF, ext_after, hz, List.cons_append, advance_ext x h,
        headIsDigit_append x (ne_nil_of_lf_mem hr), expAhead_append x hr, h2.1, ih _ h1, ih _ h2.2]
      repeat' split
      all_goals first | rfl | simp [Z.ext, hz]

theorem scanNumber_ext {z : Z} (h : HasLF z) : scanNumber (z.ext x) = extR x (scanNumber z) := by
  simp only [scanNumber]
  rw [scanNumberF_ext x _ false h]
  rw [scanNumberF_fuel (z.ext x).after.length z.after.length z false (by simp) (Nat.le_refl _)]
  rfl

theorem scanDirectiveOrAccount_ext {z : Z} (h : HasLF z) :
    scanDirectiveOrAccount (z.ext x) = extR x (scanDirectiveOrAccount z) := by
  simp only [scanDirectiveOrAccount]
  rw [(advWhile_ext x isLetter (by decide) h).1, between_ext, mkTok_ext, ext_after,
    looksLikeAccount_append x h, scanAccount_ext x h, scanText_ext x h]
  simp only [apply_ite (extR x)]

theorem scanCommodityOrText_ext (C : Classes) {z : Z} (h : HasLF z) :
    scanCommodityOrText C (z.ext x) = extR x (scanCommodityOrText C z) := by
  simp only [scanCommodityOrText]
  have h1 := advWhile_ext x isLetter (by decide) h
  have h2 := advWhile_ext x (fun c => isLetter c || isDigit c) (by decide) h1.2
  have hne : (advWhile isLetter z).after ≠ [] := h1.2.ne_nil
  have he1 : ((advWhile isLetter z).after ++ x).isEmpty = false := by
    simp [hne]
  have he2 : (advWhile isLetter z).after.isEmpty = false := by
    simp [hne]
  have hf : followsAmountNumber (z.ext x) = followsAmountNumber z := rfl
  rw [h1.1, h2.1, hf, between_ext, between_ext, mkTok_ext, mkTok_ext, ext_after, ext_before, ext_before,
    digitOrSignedDigit_append x h1.2, scanText_ext x h, he1, he2]
  simp only [apply_ite (extR x)]

theorem scanInLine_ext (C : Classes) {z0 : Z} (h0 : HasLF z0) :
    scanInLine C (z0.ext x) = extR x (scanInLine C z0) := by
  have hs := advWhile_ext x isBlank (by decide) h0
  simp only [scanInLine, skipSpaces, hs.1]
  have h := hs.2
  generalize advWhile isBlank z0 = z at h ⊢
  unfold scanInLineAt
  obtain ⟨ch, t, hz⟩ := h.cons
  have hm : LF ∈ ch :: t := by rw [← hz]; exact h
  simp only [ext_after, hz, List.cons_append]
  have he := atEol_append x hm
  simp only [List.cons_append] at he
  rw [he]
  rw [← List.cons_append, ← hz]
  by_cases hc : atEol z.after = true
  · simp only [hc, if_true]
    exact scanNewline_ext x h
  · have hc0 : atEol z.after = false := by simpa using hc
    have hc : ch ≠ LF := atEol_ne_lf (by rw [← hz]; exact hc0)
    have hp : peek z ≠ LF := by simpa [peek, hz] using hc
    have e1 := looksLikeVirtualAccount_append x hm hc
    have e2 := nextIsCurrencySymbol_append x hm hc
    have e3 := nextIsLetterCommodity_append x hm hc
    have e4 := nextIsDigit_append x hm hc
    rw [← hz] at e1 e2 e3 e4
    simp only [hc0, Bool.false_eq_true, if_false, peekRune_ext x h, scanComment_ext x h hp, e1,
      punct_ext x _ _ h, scanCode_ext x h hp, scanAt_ext x h hp, scanEquals_ext x h hp,
      scanStatus_ext x h, scanCurrencySymbol_ext x h, scanQuotedCommodity_ext x h hp, e2, e3, e4,
      scanSign_ext x h, scanText_ext x h, looksLikeDate_append x h, scanDate_ext x h,
      scanNumber_ext x h, looksLikeAccount_append x h, scanAccount_ext x h,
      scanCommodityOrText_ext x C h, apply_ite (extR x)]

theorem scanLineStartAt_ext (C : Classes) {z : Z} (h : HasLF z) :
    scanLineStartAt C (z.ext x) = extR x (scanLineStartAt C z) := by
  simp only [scanLineStartAt]
  rw [peek_ext x h, ext_after, atEol_append x h]
  by_cases hc : peek z = LF
  · have ha : atEol z.after = true := by
      obtain ⟨c, t, hz⟩ := h.cons
      have : c = LF := by simpa [peek, hz] using hc
      simp [hz, this, atEol]
    simp only [hc, ha]
    simp only [isDigit, isLetter]
    simp only [show ((10 : UInt8) == 59) = false by decide, Bool.not_true,
      Bool.and_false, Bool.false_eq_true, if_false,
      show (decide ((48 : UInt8) ≤ 10) && decide ((10 : UInt8) ≤ 57)) = false by decide,
      show (decide ((97 : UInt8) ≤ 10) && decide ((10 : UInt8) ≤ 122) || decide ((65 : UInt8) ≤ 10) && decide ((10 : UInt8) ≤ 90)) = false by decide]
    exact scanInLine_ext x C h
  · simp only [scanComment_ext x h hc, scanIndent_ext x h, scanDate_ext x h,
      scanDirectiveOrAccount_ext x h, scanInLine_ext x C h, apply_ite (extR x)]

theorem scanLineStart_ext (C : Classes) {z0 : Z} (h0 : HasLF z0) :
    scanLineStart C (z0.ext x) = extR x (scanLineStart C z0) := by
  have he : ({ z0.ext x with atStart := false } : Z) = ({ z0 with atStart := false } : Z).ext x := rfl
  have h : HasLF ({ z0 with atStart := false } : Z) := h0
  simp only [scanLineStart, he]
  exact scanLineStartAt_ext x C h

/-- `Next` does not look behind the next line feed. -/
theorem next_ext (C : Classes) {z : Z} (h : HasLF z) : next C (z.ext x) = extR x (next C z) := by
  obtain ⟨c, t, hz⟩ := h.cons
  simp only [next, ext_after, hz, List.cons_append, ext_atStart, ext_col]
  simp only [scanLineStart_ext x C h, scanInLine_ext x C h, apply_ite (extR x)]

end HL.Lex
