/-
  Lemmas tying the model `HL.Loader.loadF` (repaired mode) to the specification
  `HL.Reach.visit`, and the classic depth-first-search facts about `visit`:
  shape (`seen` grows by exactly the files entered, each new), soundness (everything entered
  is reachable, every error is `Located`), completeness (without a depth error everything
  reachable is entered).
-/
import HL.Lemmas.Loader
namespace HL.Lemmas.Reach
open HL HL.Loader HL.Reach HL.Lemmas.Loader

abbrev RecS := Path → File → List Path → List Path → Out

/-! ## Model = specification (repaired tree) -/

section
variable (fs : FS) (lim : Limits)


def SimAcc (a : Acc) (o : Out) : Prop := a.res.order = o.order ∧ a.errs = o.errs ∧ a.st.seen = o.seen

/-- the model's recursive call (one level deeper) agrees with the specification's -/
def RecSim (rec : Rec) (recS : RecS) (depth : Nat) : Prop :=
  ∀ p f stk st, Cons fs lim st.cache →
    ∃ res es st', rec p f stk (depth + 1) st = some (some res, es, st') ∧
      res.order = (recS p f stk st.seen).order ∧ es = (recS p f stk st.seen).errs ∧
      st'.seen = (recS p f stk st.seen).seen

theorem descend_sim (rec : Rec) (recS : RecS) (depth : Nat) (cd : Bool)
    (hcd : cd = decide (depth + 1 < lim.maxDepth))
    (h : depth + 1 < lim.maxDepth → RecSim fs lim rec recS depth)
    (rng : Rng) (p : Path) (f : File) (stk : List Path) (a : Acc) (o : Out)
    (hs : SimAcc a o) (hc : Cons fs lim a.st.cache) :
    ∃ a', descend lim .repaired rec rng p f stk depth a = some a' ∧
      SimAcc a' (if !cd then { o with errs := o.errs ++ [⟨.depth, p, "", rng, none⟩] }
        else
          let sub := recS p f stk o.seen
          { order := o.order ++ p :: sub.order, errs := o.errs ++ sub.errs, seen := sub.seen }) := by
  obtain ⟨s1, s2, s3⟩ := hs
  unfold descend
  by_cases hd : depth + 1 < lim.maxDepth
  · have h1 : ¬ (depth + 1 ≥ lim.maxDepth) := by omega
    simp only [Mode.repaired, Bool.true_and, decide_eq_true_eq, h1, if_false, hcd, hd, decide_true,
      Bool.not_true, Bool.false_eq_true]
    obtain ⟨res, es, st', e, r1, r2, r3⟩ := h hd p f stk a.st hc
    rw [e]
    refine ⟨_, rfl, ?_⟩
    simp only [SimAcc, Res.merge, if_true, s1, s2, ← s3, r1, r2, r3, and_self]
  · have h1 : depth + 1 ≥ lim.maxDepth := by omega
    simp only [Mode.repaired, Bool.true_and, decide_eq_true_eq, h1, if_true, hcd, hd, decide_false,
      Bool.not_false]
    exact ⟨_, rfl, by simp only [SimAcc, Acc.addErr, s1, s2, s3, and_self]⟩


theorem single_sim (rec : Rec) (recS : RecS) (depth : Nat) (cd : Bool)
    (hcd : cd = decide (depth + 1 < lim.maxDepth))
    (h : depth + 1 < lim.maxDepth → RecSim fs lim rec recS depth)
    (base : Path) (rng : Rng) (p : Path) (stk : List Path) (a : Acc) (o : Out)
    (hs : SimAcc a o) (hc : Cons fs lim a.st.cache) :
    ∃ a', single fs lim .repaired rec base rng p stk depth a = some a' ∧
      SimAcc a' (follow fs lim recS cd base stk rng p o) := by
  have hs' := hs
  obtain ⟨s1, s2, s3⟩ := hs
  unfold single follow
  simp only [Mode.repaired, Bool.true_and, Bool.not_true, Bool.false_and, Bool.false_eq_true, if_false,
    if_true, s3]
  split
  · exact ⟨_, rfl, by simp only [SimAcc, Acc.addErr, s1, s2, s3, and_self]⟩
  split
  · exact ⟨_, rfl, hs'⟩
  cases hg : a.st.cache.get p with
  | some cf =>
    obtain ⟨hf, hsz⟩ := hc p cf hg
    simp only [hf, Nat.not_lt.mpr hsz, if_false]
    exact descend_sim fs lim rec recS depth cd hcd h rng p cf stk a o hs' hc
  | none =>
    cases hf : fs p with
    | none => exact ⟨_, rfl, by simp only [SimAcc, Acc.addErr, s1, s2, s3, and_self]⟩
    | some f =>
      simp only
      split
      · exact ⟨_, rfl, by simp only [SimAcc, Acc.addErr, s1, s2, s3, and_self]⟩
      · rename_i hsz
        exact descend_sim fs lim rec recS depth cd hcd h rng p f stk _ o ⟨s1, s2, rfl⟩
          (hc.set fs lim hf (Nat.le_of_not_lt hsz))

theorem runItems_sim (rec : Rec) (hrc : RecCons fs lim rec) (recS : RecS) (depth : Nat) (cd : Bool)
    (hcd : cd = decide (depth + 1 < lim.maxDepth))
    (h : depth + 1 < lim.maxDepth → RecSim fs lim rec recS depth)
    (base : Path) (stk : List Path) (its : List Item) (a : Acc) (o : Out)
    (hs : SimAcc a o) (hc : Cons fs lim a.st.cache) :
    ∃ a', runItems fs lim .repaired rec base stk depth its a = some a' ∧
      SimAcc a' (visitItems fs lim recS cd base stk its o) := by
  induction its generalizing a o with
  | nil => exact ⟨a, rfl, hs⟩
  | cons it rest ih =>
    cases it with
    | err e =>
      simp only [runItems, visitItems]
      exact ih _ _ ⟨hs.1, by simp only [Acc.addErr, hs.2.1], hs.2.2⟩ hc
    | tgt rng p =>
      simp only [runItems, visitItems]
      obtain ⟨a1, e1, h1⟩ := single_sim fs lim rec recS depth cd hcd h base rng p stk a o hs hc
      rw [e1]
      exact ih a1 _ h1 (single_cons fs lim .repaired rec hrc base rng p stk depth a a1 hc e1).1

theorem loadF_sim : ∀ (fuel depth : Nat), depth < lim.maxDepth → lim.maxDepth ≤ fuel + depth →
    ∀ (path : Path) (file : File) (stk : List Path) (st : St), Cons fs lim st.cache →
    ∃ res es st', loadF fs lim .repaired fuel path file stk depth st = some (some res, es, st') ∧
      res.order = (visit fs lim (lim.maxDepth - 1 - depth) path file stk st.seen).order ∧
      es = (visit fs lim (lim.maxDepth - 1 - depth) path file stk st.seen).errs ∧
      st'.seen = (visit fs lim (lim.maxDepth - 1 - depth) path file stk st.seen).seen := by
  intro fuel
  induction fuel with
  | zero => intro depth h1 h2; omega
  | succ fuel ih =>
    intro depth h1 h2 path file stk st hc
    unfold loadF
    simp only [Mode.repaired, Bool.not_true, Bool.false_and, Bool.false_eq_true, if_false]
    cases hn : lim.maxDepth - 1 - depth with
    | zero =>
      have hd : ¬ depth + 1 < lim.maxDepth := by omega
      obtain ⟨a', e, s1, s2, s3⟩ := runItems_sim fs lim (loadF fs lim .repaired fuel)
        (loadF_cons fs lim .repaired fuel) (fun _ _ _ s => ⟨[], [], s⟩) depth false
        (by simp [hd]) (fun x => absurd x hd) path (path :: stk) (items fs path file)
        ⟨⟨file, [], []⟩, file.perrs.map (parseErr path), { st with seen := path :: st.seen }⟩
        ⟨[], file.perrs.map (parseErr path), path :: st.seen⟩ ⟨rfl, rfl, rfl⟩ hc
      simp only [Mode.repaired] at e
      rw [e]
      exact ⟨_, _, _, rfl, s1, s2, s3⟩
    | succ b =>
      have hd : depth + 1 < lim.maxDepth := by omega
      have hb : b = lim.maxDepth - 1 - (depth + 1) := by omega
      have hrec : RecSim fs lim (loadF fs lim .repaired fuel) (visit fs lim b) depth := by
        intro p f stk' st1 hc1
        rw [hb]
        exact ih (depth + 1) hd (by omega) p f stk' st1 hc1
      obtain ⟨a', e, s1, s2, s3⟩ := runItems_sim fs lim (loadF fs lim .repaired fuel)
        (loadF_cons fs lim .repaired fuel) (visit fs lim b) depth true
        (by simp [hd]) (fun _ => hrec) path (path :: stk) (items fs path file)
        ⟨⟨file, [], []⟩, file.perrs.map (parseErr path), { st with seen := path :: st.seen }⟩
        ⟨[], file.perrs.map (parseErr path), path :: st.seen⟩ ⟨rfl, rfl, rfl⟩ hc
      simp only [Mode.repaired] at e
      rw [e]
      exact ⟨_, _, _, rfl, s1, s2, s3⟩
end

section
variable (fs : FS) (lim : Limits)

/-! ### Directives and the iterations they cause -/

theorem tgt_mem_itemsOf (f : Path) (i : Inc) (rng : Rng) (g : Path)
    (h : Item.tgt rng g ∈ itemsOf fs f i) : rng = i.rng ∧ Names fs f i g := by
  unfold itemsOf at h
  split at h
  · rename_i p hp
    simp only [List.mem_singleton, Item.tgt.injEq] at h
    exact ⟨h.1, Or.inl (by rw [hp, h.2])⟩
  · simp at h
  · simp at h
  · rename_i ms hms
    simp only at h
    split at h
    · simp at h
    · simp only [List.mem_map, Item.tgt.injEq, List.mem_filter, Bool.and_eq_true, bne_iff_ne, ne_eq] at h
      obtain ⟨q, ⟨hq1, hq2, hq3⟩, hq4, hq5⟩ := h
      subst hq5
      exact ⟨hq4.symm, Or.inr ⟨ms, hms, hq1, hq2, hq3⟩⟩

theorem tgt_mem_items (f : Path) (file : File) (rng : Rng) (g : Path)
    (h : Item.tgt rng g ∈ items fs f file) : ∃ i ∈ file.incs, rng = i.rng ∧ Names fs f i g := by
  unfold items at h
  simp only [List.mem_flatMap] at h
  obtain ⟨i, hi, hm⟩ := h
  exact ⟨i, hi, tgt_mem_itemsOf fs f i rng g hm⟩

theorem names_mem_items (f : Path) (file : File) (i : Inc) (hi : i ∈ file.incs) (g : Path)
    (h : Names fs f i g) : Item.tgt i.rng g ∈ items fs f file := by
  unfold items
  simp only [List.mem_flatMap]
  refine ⟨i, hi, ?_⟩
  unfold itemsOf
  rcases h with h | ⟨ms, h1, h2, h3, h4⟩
  · simp [h]
  · simp only [h1]
    have hm : g ∈ ms.filter (fun q => (fs q).isSome && q != f) := by
      simp only [List.mem_filter, Bool.and_eq_true, bne_iff_ne, ne_eq]
      exact ⟨h2, h3, h4⟩
    split
    · rename_i he
      simp only [List.isEmpty_iff] at he
      rw [he] at hm
      simp at hm
    · simp only [List.mem_map, Item.tgt.injEq, true_and]
      exact ⟨g, hm, rfl⟩

theorem err_mem_items (f : Path) (file : File) (e : Err) (h : Item.err e ∈ items fs f file) :
    ∃ i ∈ file.incs, e = ⟨e.kind, 0, i.raw, i.rng, none⟩ ∧
      (e.kind = .traversal ∨ e.kind = .globNoMatch ∨ e.kind = .globBad) := by
  unfold items at h
  simp only [List.mem_flatMap] at h
  obtain ⟨i, hi, hm⟩ := h
  refine ⟨i, hi, ?_⟩
  unfold itemsOf at hm
  split at hm
  · simp at hm
  · simp only [List.mem_singleton, Item.err.injEq] at hm; subst hm; exact ⟨rfl, Or.inl rfl⟩
  · simp only [List.mem_singleton, Item.err.injEq] at hm; subst hm; exact ⟨rfl, Or.inr (Or.inr rfl)⟩
  · simp only at hm
    split at hm
    · simp only [List.mem_singleton, Item.err.injEq] at hm; subst hm; exact ⟨rfl, Or.inr (Or.inl rfl)⟩
    · simp at hm
end

section
variable (fs : FS) (lim : Limits)

/-! ### Shape of the traversal: `seen` grows by exactly the files entered, each new -/

/-- what a (sub-)traversal from `g` returns: the files entered, none of them seen before -/
def Shape (g : Path) (s : List Path) (r : Out) : Prop :=
  r.seen = r.order.reverse ++ g :: s ∧ r.seen.Nodup

def RecShape (rec : RecS) : Prop :=
  ∀ g fg stk s, g ∉ s → s.Nodup → Shape g s (rec g fg stk s)

/-- invariant of the loop over one file's directives (`s0` = `seen` when the loop started) -/
def Inv1 (s0 : List Path) (o : Out) : Prop := o.seen = o.order.reverse ++ s0 ∧ o.seen.Nodup

theorem follow_shape (rec : RecS) (cd : Bool) (h : cd = true → RecShape rec) (f : Path)
    (stk : List Path) (rng : Rng) (g : Path) (s0 : List Path) (o : Out) (ho : Inv1 s0 o) :
    Inv1 s0 (follow fs lim rec cd f stk rng g o) := by
  unfold follow
  split
  · exact ho
  split
  · exact ho
  rename_i hseen
  split
  · exact ho
  · split
    · exact ho
    · split
      · exact ho
      · rename_i hcd
        have hcd' : cd = true := by simpa using hcd
        have hg : g ∉ o.seen := by simpa using hseen
        obtain ⟨h1, h2⟩ := h hcd' g _ stk o.seen hg ho.2
        refine ⟨?_, h2⟩
        show (rec g _ stk o.seen).seen = (o.order ++ g :: (rec g _ stk o.seen).order).reverse ++ s0
        rw [h1, ho.1]
        simp only [List.reverse_append, List.reverse_cons, List.append_assoc,
          List.cons_append, List.nil_append]

theorem visitItems_shape (rec : RecS) (cd : Bool) (h : cd = true → RecShape rec) (f : Path)
    (stk : List Path) (its : List Item) (s0 : List Path) (o : Out) (ho : Inv1 s0 o) :
    Inv1 s0 (visitItems fs lim rec cd f stk its o) := by
  induction its generalizing o with
  | nil => exact ho
  | cons it rest ih =>
    cases it with
    | err e => exact ih _ ho
    | tgt rng g => exact ih _ (follow_shape fs lim rec cd h f stk rng g s0 o ho)

theorem visit_shape : ∀ b, RecShape (visit fs lim b) := by
  intro b
  induction b with
  | zero =>
    intro g fg stk s hg hs
    unfold visit
    exact visitItems_shape fs lim _ false (fun x => by simp at x) g (g :: stk) _ (g :: s) _
      ⟨rfl, List.nodup_cons.mpr ⟨hg, hs⟩⟩
  | succ b ih =>
    intro g fg stk s hg hs
    unfold visit
    exact visitItems_shape fs lim _ true (fun _ => ih) g (g :: stk) _ (g :: s) _
      ⟨rfl, List.nodup_cons.mpr ⟨hg, hs⟩⟩
end

section
variable (fs : FS) (lim : Limits) (root : Path) (rf : File)

/-! ### Everything entered is reachable; every error is in the right place -/

def Pre2 (g : Path) (fg : File) (stk s : List Path) : Prop :=
  fileOf fs root rf g = some fg ∧ (root = g ∨ root ∈ s) ∧ Reach fs lim root rf g ∧
    (∀ x ∈ stk, LeadsL fs lim root rf x g) ∧ ∀ x ∈ g :: stk, Enterable fs lim root x

def Post2 (s : List Path) (r : Out) : Prop :=
  (∀ x ∈ s, x ∈ r.seen) ∧ (∀ x ∈ r.order, Reach fs lim root rf x) ∧ (∀ e ∈ r.errs, Located fs lim root rf e)

def RecSound (rec : RecS) : Prop :=
  ∀ g fg stk s, Pre2 fs lim root rf g fg stk s → Post2 fs lim root rf (g :: s) (rec g fg stk s)

theorem follow_sound (rec : RecS) (cd : Bool) (h : cd = true → RecSound fs lim root rf rec)
    (f : Path) (file : File) (stk : List Path) (hf : fileOf fs root rf f = some file)
    (hr : Reach fs lim root rf f) (hstk : ∀ x ∈ stk, LeadsL fs lim root rf x f)
    (hent : ∀ x ∈ f :: stk, Enterable fs lim root x)
    (rng : Rng) (g : Path) (hit : Item.tgt rng g ∈ items fs f file)
    (s0 : List Path) (o : Out) (hroot : root ∈ o.seen) (ho : Post2 fs lim root rf s0 o) :
    root ∈ (follow fs lim rec cd f (f :: stk) rng g o).seen ∧
      Post2 fs lim root rf s0 (follow fs lim rec cd f (f :: stk) rng g o) := by
  obtain ⟨i, hi, hrng, hnames⟩ := tgt_mem_items fs f file rng g hit
  subst hrng
  obtain ⟨o1, o2, o3⟩ := ho
  have edge : Edge fs root rf f g := ⟨file, hf, i, hi, hnames⟩
  have addErr : ∀ e, Located fs lim root rf e →
      root ∈ ({ o with errs := o.errs ++ [e] } : Out).seen ∧
      Post2 fs lim root rf s0 { o with errs := o.errs ++ [e] } := by
    intro e he
    refine ⟨hroot, o1, o2, ?_⟩
    intro e' he'
    simp only [List.mem_append, List.mem_singleton] at he'
    rcases he' with h1 | h1
    · exact o3 e' h1
    · subst h1; exact he
  unfold follow
  split
  · rename_i hc
    apply addErr
    have hc' : g ∈ f :: stk := by simpa using hc
    refine Located.cycle hr hf hi hnames (hent g hc') ?_
    simp only [List.mem_cons] at hc'
    rcases hc' with hc' | hc'
    · subst hc'; exact LeadsL.refl _
    · exact hstk g hc'
  split
  · exact ⟨hroot, o1, o2, o3⟩
  rename_i hseen
  have hg : g ∉ o.seen := by simpa using hseen
  split
  · rename_i hfs
    exact addErr _ (Located.notFound hr hf hi hnames hfs)
  · rename_i fg hfs
    split
    · rename_i hsz
      exact addErr _ (Located.tooLarge hr hf hi hnames hfs hsz)
    · rename_i hsz
      have hload : Loadable fs lim g := ⟨fg, hfs, Nat.le_of_not_lt hsz⟩
      split
      · exact addErr _ (Located.depth hr hf hi hnames hload)
      · rename_i hcd
        have hcd' : cd = true := by simpa using hcd
        have hne : g ≠ root := fun e => hg (e ▸ hroot)
        have edgeL : EdgeL fs lim root rf f g := ⟨edge, Or.inr hload⟩
        have hpre : Pre2 fs lim root rf g fg (f :: stk) o.seen := by
          refine ⟨?_, Or.inr hroot, Reach.step hr edge hload, ?_, ?_⟩
          · unfold fileOf; simp only [hne, if_false]; exact hfs
          · intro x hx
            simp only [List.mem_cons] at hx
            rcases hx with hx | hx
            · subst hx; exact LeadsL.tail (LeadsL.refl _) edgeL
            · exact LeadsL.tail (hstk x hx) edgeL
          · intro x hx
            simp only [List.mem_cons] at hx
            rcases hx with hx | hx
            · subst hx; exact Or.inr hload
            · exact hent x (List.mem_cons.mpr hx)
        obtain ⟨p1, p2, p3⟩ := h hcd' g fg (f :: stk) o.seen hpre
        refine ⟨p1 root (List.mem_cons_of_mem _ hroot), ?_, ?_, ?_⟩
        · intro x hx; exact p1 x (List.mem_cons_of_mem _ (o1 x hx))
        · intro x hx
          simp only [List.mem_append, List.mem_cons] at hx
          rcases hx with hx | hx | hx
          · exact o2 x hx
          · subst hx; exact Reach.step hr edge hload
          · exact p2 x hx
        · intro e he
          simp only [List.mem_append] at he
          rcases he with he | he
          · exact o3 e he
          · exact p3 e he

theorem visitItems_sound (rec : RecS) (cd : Bool) (h : cd = true → RecSound fs lim root rf rec)
    (f : Path) (file : File) (stk : List Path) (hf : fileOf fs root rf f = some file)
    (hr : Reach fs lim root rf f) (hstk : ∀ x ∈ stk, LeadsL fs lim root rf x f)
    (hent : ∀ x ∈ f :: stk, Enterable fs lim root x)
    (its : List Item) (hits : ∀ it ∈ its, it ∈ items fs f file)
    (s0 : List Path) (o : Out) (hroot : root ∈ o.seen) (ho : Post2 fs lim root rf s0 o) :
    Post2 fs lim root rf s0 (visitItems fs lim rec cd f (f :: stk) its o) := by
  induction its generalizing o with
  | nil => exact ho
  | cons it rest ih =>
    have hrest : ∀ it ∈ rest, it ∈ items fs f file := fun x hx => hits x (List.mem_cons_of_mem _ hx)
    cases it with
    | err e =>
      simp only [visitItems]
      apply ih hrest { o with errs := o.errs ++ [e] } hroot
      obtain ⟨i, hi, he, hk⟩ := err_mem_items fs f file e (hits _ List.mem_cons_self)
      refine ⟨ho.1, ho.2.1, ?_⟩
      intro e' he'
      simp only [List.mem_append, List.mem_singleton] at he'
      rcases he' with h1 | h1
      · exact ho.2.2 e' h1
      · subst h1; rw [he]; exact Located.directive hr hf hi hk
    | tgt rng g =>
      simp only [visitItems]
      obtain ⟨r1, r2⟩ := follow_sound fs lim root rf rec cd h f file stk hf hr hstk hent rng g
        (hits _ List.mem_cons_self) s0 o hroot ho
      exact ih hrest _ r1 r2

theorem visit_sound : ∀ b, RecSound fs lim root rf (visit fs lim b) := by
  intro b
  have init : ∀ g fg (stk s : List Path), Pre2 fs lim root rf g fg stk s →
      root ∈ (⟨[], fg.perrs.map (parseErr g), g :: s⟩ : Out).seen ∧
      Post2 fs lim root rf (g :: s) ⟨[], fg.perrs.map (parseErr g), g :: s⟩ := by
    intro g fg stk s ⟨h1, h2, h3, _, _⟩
    refine ⟨?_, fun x hx => hx, fun x hx => by simp at hx, ?_⟩
    · rcases h2 with h2 | h2
      · subst h2; exact List.mem_cons_self
      · exact List.mem_cons_of_mem _ h2
    · intro e he
      simp only [List.mem_map] at he
      obtain ⟨pos, hp, he⟩ := he
      subst he
      exact Located.parse h3 h1 hp
  induction b with
  | zero =>
    intro g fg stk s hp
    obtain ⟨i1, i2⟩ := init g fg stk s hp
    unfold visit
    exact visitItems_sound fs lim root rf _ false (fun x => by simp at x) g fg stk hp.1 hp.2.2.1 hp.2.2.2.1
      hp.2.2.2.2 _ (fun _ hx => hx) _ _ i1 i2
  | succ b ih =>
    intro g fg stk s hp
    obtain ⟨i1, i2⟩ := init g fg stk s hp
    unfold visit
    exact visitItems_sound fs lim root rf _ true (fun _ => ih) g fg stk hp.1 hp.2.2.1 hp.2.2.2.1
      hp.2.2.2.2 _ (fun _ hx => hx) _ _ i1 i2
end

section
variable (fs : FS) (lim : Limits) (root : Path) (rf : File)

/-! ### Completeness: without a depth error, everything reachable is entered -/

def NoDepth (es : List Err) : Prop := ∀ e ∈ es, e.kind ≠ .depth

/-- the files entered between `s` and `s'` have all their loadable include targets in `s'` -/
def ClosedNew (s s' : List Path) : Prop :=
  ∀ x ∈ s', x ∉ s → ∀ y, Edge fs root rf x y → Loadable fs lim y → y ∈ s'

def Pre3 (g : Path) (fg : File) (stk s : List Path) : Prop :=
  fileOf fs root rf g = some fg ∧ (root = g ∨ root ∈ s) ∧ ∀ x ∈ stk, x ∈ s

def Post3 (g : Path) (s : List Path) (r : Out) : Prop :=
  (∀ x ∈ g :: s, x ∈ r.seen) ∧ (NoDepth r.errs → ClosedNew fs lim root rf s r.seen)

def RecComplete (rec : RecS) : Prop :=
  ∀ g fg stk s, Pre3 fs root rf g fg stk s → Post3 fs lim root rf g s (rec g fg stk s)

theorem follow_complete (rec : RecS) (cd : Bool) (h : cd = true → RecComplete fs lim root rf rec)
    (f : Path) (stk : List Path) (rng : Rng) (g : Path)
    (o : Out) (hroot : root ∈ o.seen) (hstk : ∀ x ∈ f :: stk, x ∈ o.seen) :
    (∀ x ∈ o.seen, x ∈ (follow fs lim rec cd f (f :: stk) rng g o).seen) ∧
    (∀ e ∈ o.errs, e ∈ (follow fs lim rec cd f (f :: stk) rng g o).errs) ∧
    (NoDepth (follow fs lim rec cd f (f :: stk) rng g o).errs →
      (Loadable fs lim g → g ∈ (follow fs lim rec cd f (f :: stk) rng g o).seen) ∧
      ClosedNew fs lim root rf o.seen (follow fs lim rec cd f (f :: stk) rng g o).seen) := by
  have triv : ∀ (e : Err), ¬ (e.kind ≠ .depth ∧ Loadable fs lim g) →
      (∀ x ∈ o.seen, x ∈ ({ o with errs := o.errs ++ [e] } : Out).seen) ∧
      (∀ e' ∈ o.errs, e' ∈ ({ o with errs := o.errs ++ [e] } : Out).errs) ∧
      (NoDepth ({ o with errs := o.errs ++ [e] } : Out).errs →
        (Loadable fs lim g → g ∈ ({ o with errs := o.errs ++ [e] } : Out).seen) ∧
        ClosedNew fs lim root rf o.seen ({ o with errs := o.errs ++ [e] } : Out).seen) := by
    intro e hne
    refine ⟨fun x hx => hx, fun e' he' => List.mem_append_left _ he', ?_⟩
    intro hnd
    refine ⟨?_, fun x hx hx' => absurd hx hx'⟩
    intro hl
    exact absurd ⟨hnd e (by simp), hl⟩ hne
  unfold follow
  split
  · rename_i hc
    have hc' : g ∈ f :: stk := by simpa using hc
    refine ⟨fun x hx => hx, fun e' he' => List.mem_append_left _ he', ?_⟩
    intro _
    exact ⟨fun _ => hstk g hc', fun x hx hx' => absurd hx hx'⟩
  split
  · rename_i hseen
    have hg : g ∈ o.seen := by simpa using hseen
    exact ⟨fun x hx => hx, fun e' he' => he', fun _ => ⟨fun _ => hg, fun x hx hx' => absurd hx hx'⟩⟩
  rename_i hseen
  have hg : g ∉ o.seen := by simpa using hseen
  split
  · rename_i hfs
    apply triv
    rintro ⟨_, fg, h1, _⟩
    rw [hfs] at h1; exact absurd h1 (by simp)
  · rename_i fg hfs
    split
    · rename_i hsz
      apply triv
      rintro ⟨_, fg', h1, h2⟩
      rw [hfs] at h1
      have : fg = fg' := Option.some.inj h1
      subst this
      omega
    · rename_i hsz
      split
      · apply triv
        rintro ⟨h1, _⟩
        exact h1 rfl
      · rename_i hcd
        have hcd' : cd = true := by simpa using hcd
        have hne : g ≠ root := fun e => hg (e ▸ hroot)
        have hpre : Pre3 fs root rf g fg (f :: stk) o.seen := by
          refine ⟨?_, Or.inr hroot, hstk⟩
          unfold fileOf; simp only [hne, if_false]; exact hfs
        obtain ⟨p1, p2⟩ := h hcd' g fg (f :: stk) o.seen hpre
        refine ⟨fun x hx => p1 x (List.mem_cons_of_mem _ hx), fun e' he' => List.mem_append_left _ he', ?_⟩
        intro hnd
        have hnd' : NoDepth (rec g fg (f :: stk) o.seen).errs :=
          fun e he => hnd e (List.mem_append_right _ he)
        exact ⟨fun _ => p1 g List.mem_cons_self, p2 hnd'⟩

theorem visitItems_complete (rec : RecS) (cd : Bool) (h : cd = true → RecComplete fs lim root rf rec)
    (f : Path) (stk : List Path) (its : List Item)
    (o : Out) (hroot : root ∈ o.seen) (hstk : ∀ x ∈ f :: stk, x ∈ o.seen) :
    (∀ x ∈ o.seen, x ∈ (visitItems fs lim rec cd f (f :: stk) its o).seen) ∧
    (∀ e ∈ o.errs, e ∈ (visitItems fs lim rec cd f (f :: stk) its o).errs) ∧
    (NoDepth (visitItems fs lim rec cd f (f :: stk) its o).errs →
      (∀ rng y, Item.tgt rng y ∈ its → Loadable fs lim y →
        y ∈ (visitItems fs lim rec cd f (f :: stk) its o).seen) ∧
      ClosedNew fs lim root rf o.seen (visitItems fs lim rec cd f (f :: stk) its o).seen) := by
  induction its generalizing o with
  | nil =>
    refine ⟨fun x hx => hx, fun e he => he, fun _ => ⟨?_, fun x hx hx' => absurd hx hx'⟩⟩
    intro rng y hy; simp at hy
  | cons it rest ih =>
    cases it with
    | err e =>
      simp only [visitItems]
      obtain ⟨i1, i2, i3⟩ := ih { o with errs := o.errs ++ [e] } hroot hstk
      refine ⟨i1, fun e' he' => i2 e' (List.mem_append_left _ he'), ?_⟩
      intro hnd
      obtain ⟨j1, j2⟩ := i3 hnd
      refine ⟨?_, j2⟩
      intro rng y hy
      simp only [List.mem_cons, reduceCtorEq, false_or] at hy
      exact j1 rng y hy
    | tgt rng g =>
      simp only [visitItems]
      obtain ⟨f1, f2, f3⟩ := follow_complete fs lim root rf rec cd h f stk rng g o hroot hstk
      obtain ⟨i1, i2, i3⟩ := ih (follow fs lim rec cd f (f :: stk) rng g o) (f1 root hroot)
        (fun x hx => f1 x (hstk x hx))
      refine ⟨fun x hx => i1 x (f1 x hx), fun e he => i2 e (f2 e he), ?_⟩
      intro hnd
      obtain ⟨j1, j2⟩ := i3 hnd
      obtain ⟨k1, k2⟩ := f3 (fun e he => hnd e (i2 e he))
      refine ⟨?_, ?_⟩
      · intro rng' y hy hl
        simp only [List.mem_cons, Item.tgt.injEq] at hy
        rcases hy with ⟨_, hy⟩ | hy
        · subst hy; exact i1 _ (k1 hl)
        · exact j1 rng' y hy hl
      · intro x hx hx' y hy hl
        by_cases hx1 : x ∈ (follow fs lim rec cd f (f :: stk) rng g o).seen
        · exact i1 y (k2 x hx1 hx' y hy hl)
        · exact j2 x hx hx1 y hy hl

theorem visit_complete : ∀ b, RecComplete fs lim root rf (visit fs lim b) := by
  have main : ∀ (rec : RecS) (cd : Bool), (cd = true → RecComplete fs lim root rf rec) →
      ∀ g fg stk s, Pre3 fs root rf g fg stk s →
      Post3 fs lim root rf g s (visitItems fs lim rec cd g (g :: stk) (items fs g fg)
        ⟨[], fg.perrs.map (parseErr g), g :: s⟩) := by
    intro rec cd h g fg stk s ⟨h1, h2, h3⟩
    have hroot : root ∈ g :: s := by
      rcases h2 with h2 | h2
      · subst h2; exact List.mem_cons_self
      · exact List.mem_cons_of_mem _ h2
    have hstk : ∀ x ∈ g :: stk, x ∈ g :: s := by
      intro x hx
      simp only [List.mem_cons] at hx ⊢
      rcases hx with hx | hx
      · exact Or.inl hx
      · exact Or.inr (h3 x hx)
    obtain ⟨i1, _, i3⟩ := visitItems_complete fs lim root rf rec cd h g stk (items fs g fg)
      ⟨[], fg.perrs.map (parseErr g), g :: s⟩ hroot hstk
    refine ⟨i1, ?_⟩
    intro hnd
    obtain ⟨j1, j2⟩ := i3 hnd
    intro x hx hxs y hy hl
    by_cases hxg : x = g
    · subst hxg
      obtain ⟨file, hfile, i, hi, hn⟩ := hy
      rw [h1] at hfile
      have : fg = file := Option.some.inj hfile
      subst this
      exact j1 i.rng y (names_mem_items fs x fg i hi y hn) hl
    · apply j2 x hx _ y hy hl
      simp only [List.mem_cons, not_or]
      exact ⟨hxg, hxs⟩
  intro b
  induction b with
  | zero =>
    intro g fg stk s hp
    unfold visit
    exact main _ false (fun x => by simp at x) g fg stk s hp
  | succ b ih =>
    intro g fg stk s hp
    unfold visit
    exact main _ true (fun _ => ih) g fg stk s hp
end

section
variable (fs : FS) (lim : Limits) (root : Path) (rf : File)

/-! ### Without a cycle diagnostic (and without a depth diagnostic) nothing entered lies on a cycle -/

def NoCyc (es : List Err) : Prop := ∀ e ∈ es, e.kind ≠ .cycle

/-- the files that are finished (seen and not on the stack) only name finished files -/
def Done (s stk : List Path) : Prop :=
  ∀ x ∈ s, x ∉ stk → ∀ y, EdgeL fs lim root rf x y → y ∈ s ∧ y ∉ stk

theorem Done.leads {s stk : List Path} (h : Done fs lim root rf s stk) {x y : Path}
    (hx : x ∈ s) (hx' : x ∉ stk) (hl : LeadsL fs lim root rf x y) : y ∈ s ∧ y ∉ stk := by
  induction hl with
  | refl => exact ⟨hx, hx'⟩
  | tail _ he ih => exact h _ ih.1 ih.2 _ he

def Pre4 (g : Path) (fg : File) (stk s : List Path) : Prop :=
  Pre3 fs root rf g fg stk s ∧ g ∉ s ∧ Done fs lim root rf s stk

def Post4 (stk s : List Path) (r : Out) : Prop :=
  NoDepth r.errs → NoCyc r.errs →
    Done fs lim root rf r.seen stk ∧ ∀ x ∈ r.seen, x ∉ s → ¬ OnCycle fs lim root rf x

def RecAcyc (rec : RecS) : Prop :=
  ∀ g fg stk s, Pre4 fs lim root rf g fg stk s → Post4 fs lim root rf stk s (rec g fg stk s)

theorem follow_acyc (rec : RecS) (cd : Bool) (h : cd = true → RecAcyc fs lim root rf rec)
    (f : Path) (stk : List Path) (rng : Rng) (g : Path) (s0 : List Path)
    (o : Out) (hroot : root ∈ o.seen) (hstk : ∀ x ∈ f :: stk, x ∈ o.seen)
    (hnd : NoDepth (follow fs lim rec cd f (f :: stk) rng g o).errs)
    (hnc : NoCyc (follow fs lim rec cd f (f :: stk) rng g o).errs)
    (hfin : Done fs lim root rf o.seen (f :: stk))
    (hac : ∀ x ∈ o.seen, x ∉ s0 → ¬ OnCycle fs lim root rf x) :
    g ∉ f :: stk ∧ Done fs lim root rf (follow fs lim rec cd f (f :: stk) rng g o).seen (f :: stk) ∧
      ∀ x ∈ (follow fs lim rec cd f (f :: stk) rng g o).seen, x ∉ s0 → ¬ OnCycle fs lim root rf x := by
  unfold follow at hnd hnc ⊢
  split
  · rename_i hc
    simp only [hc, if_true] at hnc
    exact absurd rfl (hnc ⟨.cycle, g, "", rng, some f⟩ (by simp))
  rename_i hc
  have hg1 : g ∉ f :: stk := by simpa using hc
  simp only [hc] at hnd hnc
  split
  · exact ⟨hg1, hfin, hac⟩
  rename_i hseen
  have hg : g ∉ o.seen := by simpa using hseen
  simp only [hseen] at hnd hnc
  split
  · exact ⟨hg1, hfin, hac⟩
  · rename_i fg hfs
    simp only [hfs] at hnd hnc
    split
    · exact ⟨hg1, hfin, hac⟩
    · rename_i hsz
      simp only [hsz, if_false] at hnd hnc
      split
      · exact ⟨hg1, hfin, hac⟩
      · rename_i hcd
        simp only [hcd] at hnd hnc
        have hcd' : cd = true := by simpa using hcd
        have hne : g ≠ root := fun e => hg (e ▸ hroot)
        have hpre : Pre4 fs lim root rf g fg (f :: stk) o.seen := by
          refine ⟨⟨?_, Or.inr hroot, hstk⟩, hg, hfin⟩
          unfold fileOf; simp only [hne, if_false]; exact hfs
        obtain ⟨q1, q2⟩ := h hcd' g fg (f :: stk) o.seen hpre
          (fun e he => hnd e (List.mem_append_right _ he))
          (fun e he => hnc e (List.mem_append_right _ he))
        refine ⟨hg1, q1, ?_⟩
        intro x hx hx0
        by_cases hxo : x ∈ o.seen
        · exact hac x hxo hx0
        · exact q2 x hx hxo

theorem visitItems_acyc (rec : RecS) (cd : Bool) (hc : cd = true → RecComplete fs lim root rf rec)
    (h : cd = true → RecAcyc fs lim root rf rec)
    (f : Path) (stk : List Path) (its : List Item) (s0 : List Path)
    (o : Out) (hroot : root ∈ o.seen) (hstk : ∀ x ∈ f :: stk, x ∈ o.seen)
    (hnd : NoDepth (visitItems fs lim rec cd f (f :: stk) its o).errs)
    (hnc : NoCyc (visitItems fs lim rec cd f (f :: stk) its o).errs)
    (hfin : Done fs lim root rf o.seen (f :: stk))
    (hac : ∀ x ∈ o.seen, x ∉ s0 → ¬ OnCycle fs lim root rf x) :
    (∀ rng y, Item.tgt rng y ∈ its → y ∉ f :: stk) ∧
      Done fs lim root rf (visitItems fs lim rec cd f (f :: stk) its o).seen (f :: stk) ∧
      ∀ x ∈ (visitItems fs lim rec cd f (f :: stk) its o).seen, x ∉ s0 → ¬ OnCycle fs lim root rf x := by
  induction its generalizing o with
  | nil => exact ⟨fun rng y hy => by simp at hy, hfin, hac⟩
  | cons it rest ih =>
    cases it with
    | err e =>
      simp only [visitItems] at hnd hnc ⊢
      obtain ⟨i1, i2, i3⟩ := ih { o with errs := o.errs ++ [e] } hroot hstk hnd hnc hfin hac
      refine ⟨?_, i2, i3⟩
      intro rng y hy
      simp only [List.mem_cons, reduceCtorEq, false_or] at hy
      exact i1 rng y hy
    | tgt rng g =>
      simp only [visitItems] at hnd hnc ⊢
      obtain ⟨f1, _, _⟩ := follow_complete fs lim root rf rec cd hc f stk rng g o hroot hstk
      obtain ⟨_, m2, _⟩ := visitItems_complete fs lim root rf rec cd hc f stk rest
        (follow fs lim rec cd f (f :: stk) rng g o) (f1 root hroot) (fun x hx => f1 x (hstk x hx))
      obtain ⟨a1, a2, a3⟩ := follow_acyc fs lim root rf rec cd h f stk rng g s0 o hroot hstk
        (fun e he => hnd e (m2 e he)) (fun e he => hnc e (m2 e he)) hfin hac
      obtain ⟨i1, i2, i3⟩ := ih (follow fs lim rec cd f (f :: stk) rng g o) (f1 root hroot)
        (fun x hx => f1 x (hstk x hx)) hnd hnc a2 a3
      refine ⟨?_, i2, i3⟩
      intro rng' y hy
      simp only [List.mem_cons, Item.tgt.injEq] at hy
      rcases hy with ⟨_, hy⟩ | hy
      · subst hy; exact a1
      · exact i1 rng' y hy

theorem visit_acyc : ∀ b, RecAcyc fs lim root rf (visit fs lim b) := by
  have main : ∀ (rec : RecS) (cd : Bool), (cd = true → RecComplete fs lim root rf rec) →
      (cd = true → RecAcyc fs lim root rf rec) →
      ∀ g fg stk s, Pre4 fs lim root rf g fg stk s →
      Post4 fs lim root rf stk s (visitItems fs lim rec cd g (g :: stk) (items fs g fg)
        ⟨[], fg.perrs.map (parseErr g), g :: s⟩) := by
    intro rec cd hc h g fg stk s ⟨⟨h1, h2, h3⟩, hgs, hfin⟩ hnd hnc
    have hroot : root ∈ g :: s := by
      rcases h2 with h2 | h2
      · subst h2; exact List.mem_cons_self
      · exact List.mem_cons_of_mem _ h2
    have hstk : ∀ x ∈ g :: stk, x ∈ g :: s := by
      intro x hx
      simp only [List.mem_cons] at hx ⊢
      rcases hx with hx | hx
      · exact Or.inl hx
      · exact Or.inr (h3 x hx)
    have hfin0 : Done fs lim root rf (g :: s) (g :: stk) := by
      intro x hx hx' y hy
      simp only [List.mem_cons, not_or] at hx hx'
      have hxs : x ∈ s := by
        rcases hx with hx | hx
        · exact absurd hx hx'.1
        · exact hx
      obtain ⟨y1, y2⟩ := hfin x hxs hx'.2 y hy
      refine ⟨List.mem_cons_of_mem _ y1, ?_⟩
      simp only [List.mem_cons, not_or]
      exact ⟨fun e => hgs (e ▸ y1), y2⟩
    obtain ⟨c1, _, c3⟩ := visitItems_complete fs lim root rf rec cd hc g stk (items fs g fg)
      ⟨[], fg.perrs.map (parseErr g), g :: s⟩ hroot hstk
    obtain ⟨t1, _⟩ := c3 hnd
    obtain ⟨a1, a2, a3⟩ := visitItems_acyc fs lim root rf rec cd hc h g stk (items fs g fg) (g :: s)
      ⟨[], fg.perrs.map (parseErr g), g :: s⟩ hroot hstk hnd hnc hfin0 (fun x hx hx' => absurd hx hx')
    -- the include targets of `g` itself
    have tgt : ∀ y, EdgeL fs lim root rf g y →
        y ∈ (visitItems fs lim rec cd g (g :: stk) (items fs g fg)
          ⟨[], fg.perrs.map (parseErr g), g :: s⟩).seen ∧ y ∉ g :: stk := by
      intro y ⟨⟨file, hfile, i, hi, hn⟩, hent⟩
      rw [h1] at hfile
      have : fg = file := Option.some.inj hfile
      subst this
      have hit := names_mem_items fs g fg i hi y hn
      refine ⟨?_, a1 i.rng y hit⟩
      rcases hent with hent | hent
      · subst hent; exact c1 _ hroot
      · exact t1 i.rng y hit hent
    refine ⟨?_, ?_⟩
    · intro x hx hx' y hy
      by_cases hxg : x = g
      · subst hxg
        obtain ⟨y1, y2⟩ := tgt y hy
        exact ⟨y1, fun e => y2 (List.mem_cons_of_mem _ e)⟩
      · have hx'' : x ∉ g :: stk := by
          simp only [List.mem_cons, not_or]; exact ⟨hxg, hx'⟩
        obtain ⟨y1, y2⟩ := a2 x hx hx'' y hy
        exact ⟨y1, fun e => y2 (List.mem_cons_of_mem _ e)⟩
    · intro x hx hxs
      by_cases hxg : x = g
      · subst hxg
        rintro ⟨y, hy, hl⟩
        obtain ⟨y1, y2⟩ := tgt y hy
        have := Done.leads fs lim root rf a2 y1 y2 hl
        exact this.2 List.mem_cons_self
      · apply a3 x hx
        simp only [List.mem_cons, not_or]
        exact ⟨hxg, hxs⟩
  intro b
  induction b with
  | zero =>
    intro g fg stk s hp
    unfold visit
    exact main _ false (fun x => by simp at x) (fun x => by simp at x) g fg stk s hp
  | succ b ih =>
    intro g fg stk s hp
    unfold visit
    exact main _ true (fun _ => visit_complete fs lim root rf b) (fun _ => ih) g fg stk s hp
end

end HL.Lemmas.Reach
