import HL.Model.Completion
import HL.Generated.Expect.Completion
import HL.Spec.CompletionSpec
import HL.Lemmas.Text
/-! Helper lemmas for HL.Props.C16. -/
namespace HL.Completion
open HL.Text HL.CompletionSpec HL.Lemmas.Text

/-! ### The fuzzy loop is the greedy subsequence test -/

theorem fuzzyLoop_sublist (text pat : Str) (i : Nat) (prev : Option Char) (last : Int) (bonus score : Nat) :
    (fuzzyLoop text pat i prev last bonus score).2 = [] → pat.Sublist text := by
  induction text generalizing pat i prev last bonus score with
  | nil =>
    intro h
    cases pat with
    | nil => exact List.Sublist.slnil
    | cons p ps => simp [fuzzyLoop] at h
  | cons t ts ih =>
    intro h
    cases pat with
    | nil => exact List.nil_sublist _
    | cons p ps =>
      unfold fuzzyLoop at h
      split at h
      · next heq => subst heq; exact (ih _ _ _ _ _ _ h).cons_cons _
      · exact (ih _ _ _ _ _ _ h).cons _

/-- One matching step never lowers the score by less than the base score. -/
theorem step_score_ge (i : Nat) (prev : Option Char) (last : Int) (bonus score : Nat) :
    score + scoreBase ≤ (if i = 0 ∨ prev = some ':' then
        (if last = (i : Int) - 1 then (bonus + scoreConsecutive, score + scoreBase + (bonus + scoreConsecutive)) else (0, score + scoreBase)).2 + scoreBoundary
       else (if last = (i : Int) - 1 then (bonus + scoreConsecutive, score + scoreBase + (bonus + scoreConsecutive)) else (0, score + scoreBase)).2) := by
  split <;> split <;> simp only [] <;> omega

theorem fuzzyLoop_prefix (pat text : Str) (i : Nat) (prev : Option Char) (last : Int) (bonus score : Nat)
    (h : pat <+: text) :
    (fuzzyLoop text pat i prev last bonus score).2 = [] ∧
    score + scoreBase * pat.length ≤ (fuzzyLoop text pat i prev last bonus score).1 := by
  induction pat generalizing text i prev last bonus score with
  | nil => cases text <;> simp [fuzzyLoop]
  | cons p ps ih =>
    obtain ⟨r, rfl⟩ := h
    simp only [List.cons_append, fuzzyLoop, if_true]
    have hs := step_score_ge i prev last bonus score
    generalize (if i = 0 ∨ prev = some ':' then
        (if last = (i : Int) - 1 then (bonus + scoreConsecutive, score + scoreBase + (bonus + scoreConsecutive)) else (0, score + scoreBase)).2 + scoreBoundary
       else (if last = (i : Int) - 1 then (bonus + scoreConsecutive, score + scoreBase + (bonus + scoreConsecutive)) else (0, score + scoreBase)).2) = s' at hs ⊢
    generalize (if last = (i : Int) - 1 then (bonus + scoreConsecutive, score + scoreBase + (bonus + scoreConsecutive)) else (0, score + scoreBase)).1 = b'
    have := ih (ps ++ r) (i + 1) (some p) i b' s' (List.prefix_append _ _)
    refine ⟨this.1, ?_⟩
    have h2 := this.2
    simp only [List.length_cons, Nat.mul_succ]
    omega

theorem fuzzyScore_pos_sublist (lower : Char → Char) (text pat : Str)
    (h : 0 < fuzzyScore lower text pat) : (pat.map lower).Sublist (text.map lower) := by
  unfold fuzzyScore at h
  split at h
  · next hp => subst hp; exact List.nil_sublist _
  · simp only [] at h
    split at h
    · omega
    · next hr =>
      have : (fuzzyLoop (text.map lower) (pat.map lower) 0 none (-1) 0 0).2 = [] := by
        simpa using hr
      exact fuzzyLoop_sublist _ _ _ _ _ _ _ this

theorem fuzzyScore_pos_of_prefix (lower : Char → Char) (text pat : Str)
    (h : (pat.map lower) <+: (text.map lower)) : 0 < fuzzyScore lower text pat := by
  unfold fuzzyScore
  split
  · exact HL.Generated.Expect.fuzzy_empty_pos
  · next hp =>
    have := fuzzyLoop_prefix (pat.map lower) (text.map lower) 0 none (-1) 0 0 h
    simp only []
    rw [if_neg (by simp [this.1])]
    have hl : 0 < (pat.map lower).length := by
      cases pat with
      | nil => exact absurd rfl hp
      | cons _ _ => simp
    have hb : 0 < scoreBase := HL.Generated.Expect.fuzzy_base_pos
    have := Nat.mul_pos hb hl
    omega

/-! ### Segments -/

theorem splitOn_ne_nil (c : Char) (s : Str) : splitOn c s ≠ [] := by
  induction s with
  | nil => simp [splitOn]
  | cons x xs ih =>
    unfold splitOn
    split
    · simp
    · split <;> simp

theorem splitOn_sublist (c : Char) (s seg : Str) (h : seg ∈ splitOn c s) : seg.Sublist s := by
  induction s generalizing seg with
  | nil => simp [splitOn] at h; subst h; exact List.Sublist.slnil
  | cons x xs ih =>
    unfold splitOn at h
    split at h
    · rcases List.mem_cons.1 h with h | h
      · subst h; exact List.nil_sublist _
      · exact (ih _ h).cons _
    · split at h
      · next heq => exact absurd heq (splitOn_ne_nil c xs)
      · next s0 ss heq =>
        rcases List.mem_cons.1 h with h | h
        · subst h
          exact (ih s0 (by rw [heq]; exact List.mem_cons_self)).cons_cons _
        · exact (ih seg (by rw [heq]; exact List.mem_cons_of_mem _ h)).cons _

theorem foldl_best_pos (f : Str → Nat) (segs : List Str) (b : Nat)
    (h : 0 < segs.foldl (fun best seg => if f seg > best then f seg else best) b) :
    0 < b ∨ ∃ seg ∈ segs, 0 < f seg := by
  induction segs generalizing b with
  | nil => exact Or.inl h
  | cons x xs ih =>
    simp only [List.foldl_cons] at h
    rcases ih _ h with h1 | ⟨seg, hm, hp⟩
    · split at h1
      · exact Or.inr ⟨x, List.mem_cons_self, h1⟩
      · exact Or.inl h1
    · exact Or.inr ⟨seg, List.mem_cons_of_mem _ hm, hp⟩

theorem bySegments_pos (lower : Char → Char) (name pat : Str)
    (h : 0 < fuzzyScoreBySegments lower name pat) :
    pat = [] ∨ ∃ seg ∈ splitOn ':' name, 0 < fuzzyScore lower seg pat := by
  unfold fuzzyScoreBySegments at h
  split at h
  · next hp => exact Or.inl hp
  · rcases foldl_best_pos (fun seg => fuzzyScore lower seg pat) _ 0 h with h0 | h1
    · omega
    · exact Or.inr h1

theorem bySegments_sublist (lower : Char → Char) (name pat : Str)
    (h : 0 < fuzzyScoreBySegments lower name pat) : (pat.map lower).Sublist (name.map lower) := by
  rcases bySegments_pos lower name pat h with hp | ⟨seg, hm, hs⟩
  · subst hp; exact List.nil_sublist _
  · exact (fuzzyScore_pos_sublist lower seg pat hs).trans ((splitOn_sublist _ _ _ hm).map lower)

theorem trimColon_eq (q : Str) (h : q.getLast? ≠ some ':') : trimColon q = q := by
  unfold trimColon; rw [if_neg h]

theorem trimColon_append (q : Str) (h : q.getLast? = some ':') : trimColon q ++ [':'] = q := by
  unfold trimColon; rw [if_pos h]
  have hne : q ≠ [] := by rintro rfl; simp at h
  have hl : q.getLast hne = ':' := by
    rw [List.getLast?_eq_some_getLast hne] at h; exact Option.some.inj h
  have := List.dropLast_concat_getLast hne
  rwa [hl] at this

theorem lastIndexP_spec (p : Char → Bool) (l : Str) (k : Nat) (h : lastIndexP p l = some k) :
    ∃ c, l[k]? = some c ∧ p c = true := by
  induction l generalizing k with
  | nil => simp [lastIndexP] at h
  | cons x xs ih =>
    unfold lastIndexP at h
    split at h
    · next k' hk' =>
      cases h
      obtain ⟨c, hc, hp⟩ := ih k' hk'
      exact ⟨c, by simpa using hc, hp⟩
    · split at h
      · next hpx => cases h; exact ⟨x, rfl, hpx⟩
      · cases h

theorem lastIndexP_lt (p : Char → Bool) (l : Str) (k : Nat) (h : lastIndexP p l = some k) : k < l.length := by
  obtain ⟨c, hc, _⟩ := lastIndexP_spec p l k h
  exact (List.getElem?_eq_some_iff.1 hc).1

/-- The text up to and including the last colon. -/
theorem take_lastColon (l : Str) (k : Nat) (h : lastIndexP (· == ':') l = some k) :
    l.take (k + 1) = l.take k ++ [':'] := by
  obtain ⟨c, hc, hp⟩ := lastIndexP_spec _ l k h
  have : c = ':' := by simpa using hp
  subst this
  rw [List.take_add_one, hc]; rfl

/-- What a positive score of the fuzzy branch guarantees, whatever the query: the query is a
    subsequence of the label, letter case ignored. -/
theorem fuzzyItemScore_pos (lower : Char → Char) (q l : Str) (h : 0 < fuzzyItemScore lower q l) :
    (q.map lower).Sublist (l.map lower) := by
  unfold fuzzyItemScore at h
  simp only [] at h
  cases hk : lastIndexP (· == ':') l with
  | none =>
    simp only [hk] at h
    exact fuzzyScore_pos_sublist lower l q (by simpa using h)
  | some k =>
    simp only [hk] at h
    by_cases hpos : fuzzyScoreBySegments lower (if q.getLast? = some ':' then l.take k else l) (trimColon q) > 0
    · by_cases hc : q.getLast? = some ':'
      · rw [if_pos hc] at hpos
        have h1 := bySegments_sublist lower (l.take k) (trimColon q) hpos
        have h2 : ((trimColon q ++ [':']).map lower).Sublist ((l.take k ++ [':']).map lower) := by
          simp only [List.map_append]
          exact List.Sublist.append h1 (List.Sublist.refl _)
        rw [trimColon_append q hc, ← take_lastColon l k hk] at h2
        exact h2.trans ((List.take_sublist _ _).map lower)
      · rw [if_neg hc] at hpos
        have := bySegments_sublist lower l (trimColon q) hpos
        rwa [trimColon_eq q hc] at this
    · rw [if_neg hpos] at h
      exact fuzzyScore_pos_sublist lower l q h

theorem fuzzyItemScore_of_prefix (lower : Char → Char) (q l : Str)
    (h : (q.map lower) <+: (l.map lower)) : 0 < fuzzyItemScore lower q l := by
  have key : ∀ a b : Nat, 0 < b → 0 < if a > 0 then a else b := by
    intro a b hb; split <;> omega
  exact key _ _ (fuzzyScore_pos_of_prefix lower l q h)

/-! ### `filterAndScoreFuzzyMatch` -/

theorem mem_filterAndScore (lower : Char → Char) (items : List Str) (q : Str) (fuzzy : Bool) (s : Scored)
    (h : s ∈ filterAndScore lower items q fuzzy) :
    s.label ∈ items ∧
    (q = [] ∧ s.score = fuzzyScoreEmptyPattern ∨
     q ≠ [] ∧ fuzzy = false ∧ s.score = fuzzyScoreEmptyPattern ∧ (q.map lower) <+: (s.label.map lower) ∨
     q ≠ [] ∧ fuzzy = true ∧ 0 < fuzzyItemScore lower q s.label) := by
  unfold filterAndScore at h
  split at h
  · next hq =>
    obtain ⟨l, hl, rfl⟩ := List.mem_map.1 h
    exact ⟨hl, Or.inl ⟨hq, rfl⟩⟩
  · next hq =>
    split at h
    · next hf =>
      unfold filterByPrefix at h
      obtain ⟨l, hl, rfl⟩ := List.mem_map.1 h
      obtain ⟨hl1, hl2⟩ := List.mem_filter.1 hl
      refine ⟨hl1, Or.inr (Or.inl ⟨hq, by simpa using hf, rfl, List.isPrefixOf_iff_prefix.1 hl2⟩)⟩
    · next hf =>
      obtain ⟨l, hl, hs⟩ := List.mem_filterMap.1 h
      simp only [] at hs
      split at hs
      · next hpos =>
        cases hs
        exact ⟨hl, Or.inr (Or.inr ⟨hq, by simpa using hf, hpos⟩)⟩
      · cases hs

theorem filterAndScore_complete (lower : Char → Char) (items : List Str) (q : Str) (fuzzy : Bool) (n : Str)
    (hn : n ∈ items) (hp : (q.map lower) <+: (n.map lower)) :
    n ∈ (filterAndScore lower items q fuzzy).map (·.label) := by
  unfold filterAndScore
  split
  · simp only [List.map_map]
    exact List.mem_map.2 ⟨n, hn, rfl⟩
  · split
    · unfold filterByPrefix
      simp only [List.map_map]
      exact List.mem_map.2 ⟨n, List.mem_filter.2 ⟨hn, List.isPrefixOf_iff_prefix.2 hp⟩, rfl⟩
    · refine List.mem_map.2 ⟨⟨n, fuzzyItemScore lower q n⟩, List.mem_filterMap.2 ⟨n, hn, ?_⟩, rfl⟩
      simp only []
      rw [if_pos (fuzzyItemScore_of_prefix lower q n hp)]

/-! ### Ranking -/

theorem less_iff (counts : Option (List (Str × Nat))) (a b : Scored) :
    less counts a b = true ↔
      (a.score > b.score ∨ (a.score = b.score ∧ countOf counts a.label > countOf counts b.label)) := by
  unfold less
  split
  · next h => simp only [gt_iff_lt, decide_eq_true_eq]; omega
  · next h =>
    have : a.score = b.score := by simpa using h
    simp only [gt_iff_lt, decide_eq_true_eq]; omega

theorem less_false_iff (counts : Option (List (Str × Nat))) (a b : Scored) :
    less counts a b = false ↔
      (a.score < b.score ∨ (a.score = b.score ∧ countOf counts a.label ≤ countOf counts b.label)) := by
  have := less_iff counts a b
  cases h : less counts a b
  · simp only [h, Bool.false_eq_true, false_iff] at this
    simp only [true_iff]; omega
  · simp only [h, true_iff] at this
    simp only [Bool.true_eq_false, false_iff]; omega

theorem insertRanked_perm (counts : Option (List (Str × Nat))) (x : Scored) (l : List Scored) :
    (insertRanked counts x l).Perm (x :: l) := by
  induction l with
  | nil => exact List.Perm.refl _
  | cons y ys ih =>
    unfold insertRanked
    split
    · exact (List.Perm.cons y ih).trans (List.Perm.swap x y ys)
    · exact List.Perm.refl _

theorem insertRanked_sorted (counts : Option (List (Str × Nat))) (x : Scored) (l : List Scored)
    (h : l.Pairwise fun a b => less counts b a = false) :
    (insertRanked counts x l).Pairwise fun a b => less counts b a = false := by
  induction l with
  | nil => simp [insertRanked]
  | cons y ys ih =>
    have hy := List.pairwise_cons.1 h
    unfold insertRanked
    split
    · next hlt =>
      refine List.pairwise_cons.2 ⟨?_, ih hy.2⟩
      intro b hb
      rcases List.mem_cons.1 ((insertRanked_perm counts x ys).mem_iff.1 hb) with hb | hb
      · subst hb
        rw [less_false_iff]; rw [less_iff] at hlt; omega
      · exact hy.1 b hb
    · next hnl =>
      have hnl : less counts y x = false := by simpa using hnl
      refine List.pairwise_cons.2 ⟨?_, h⟩
      intro b hb
      rcases List.mem_cons.1 hb with hb | hb
      · subst hb; exact hnl
      · have := hy.1 b hb
        rw [less_false_iff] at this hnl ⊢; omega

/-- The executable ranking is one of the outcomes `sort.Slice` may produce. -/
theorem rankExec_isRanking (counts : Option (List (Str × Nat))) (l : List Scored) :
    IsRanking counts l (rankExec counts l) := by
  induction l with
  | nil => exact ⟨List.Perm.refl _, List.Pairwise.nil⟩
  | cons x xs ih =>
    unfold rankExec
    exact ⟨(insertRanked_perm counts x _).trans (List.Perm.cons x ih.1), insertRanked_sorted counts x _ ih.2⟩

/-! ### Truncation and the limit -/

theorem normMax_pos (raw : Int) : 0 < normMax raw := by
  unfold normMax; split <;> omega

theorem truncate_eq_take (m : Nat) (l : List Scored) (hm : 0 < m) : truncate m l = l.take m := by
  unfold truncate
  split
  · rfl
  · next h => exact (List.take_of_length_le (by omega)).symm

theorem truncate_sublist (m : Nat) (l : List Scored) : (truncate m l).Sublist l := by
  unfold truncate; split
  · exact List.take_sublist _ _
  · exact List.Sublist.refl _

theorem truncate_length_le (m : Nat) (l : List Scored) (hm : 0 < m) : (truncate m l).length ≤ m := by
  rw [truncate_eq_take m l hm, List.length_take]; omega

/-! ### The candidates come from the table -/

theorem accountsForPrefix_subset (lower : Char → Char) (t : Table) (pre l : Str)
    (h : l ∈ accountsForPrefix lower t pre) : l ∈ t.accounts := by
  unfold accountsForPrefix at h
  split at h
  · exact h
  · simp only [] at h
    split at h
    · exact h
    · exact (List.mem_filter.1 h).1

/-- The narrowing never loses an account that starts with the typed parent in some letter case. -/
theorem accountsForPrefix_complete (lower : Char → Char) (t : Table) (pre n : Str) (hn : n ∈ t.accounts)
    (hk : (pre.map lower) <+: (n.map lower)) : n ∈ accountsForPrefix lower t pre := by
  unfold accountsForPrefix
  split
  · exact hn
  · simp only []
    split
    · exact hn
    · exact List.mem_filter.2 ⟨hn, List.isPrefixOf_iff_prefix.2 hk⟩

theorem labelsFor_subset (lower : Char → Char) (t : Table) (c : Ctx) (line : Str) (col : Nat)
    (hj : judged c = true) (l : Str) (h : l ∈ labelsFor lower t c line col) : l ∈ namesOf t c := by
  cases c <;> simp [judged] at hj <;> simp only [labelsFor, namesOf] at h ⊢ <;> try exact h
  exact accountsForPrefix_subset lower t _ l h

/-- The typed parent is a prefix of the typed fragment. -/
theorem extractAccountPrefix_prefix (line : Str) (col : Nat) :
    extractAccountPrefix line col <+: extractQuery .account line col := by
  unfold extractAccountPrefix
  simp only []
  split
  · exact List.nil_prefix
  · exact List.take_prefix _ _

/-- Every name of the context's table that starts with the typed fragment is a candidate. -/
theorem labelsFor_complete (lower : Char → Char) (t : Table) (c : Ctx) (line : Str) (col : Nat)
    (hj : judged c = true) (n : Str) (hn : n ∈ namesOf t c)
    (hp : ((extractQuery c line col).map lower) <+: (n.map lower)) : n ∈ labelsFor lower t c line col := by
  cases c <;> simp [judged] at hj <;> simp only [labelsFor, namesOf] at hn ⊢ <;> try exact hn
  exact accountsForPrefix_complete lower t _ n hn (((extractAccountPrefix_prefix line col).map lower).trans hp)

/-! ### Query and edit range -/

theorem dropWhile_eq_drop (p : Char → Bool) (l : Str) : l.dropWhile p = l.drop (l.takeWhile p).length := by
  induction l with
  | nil => rfl
  | cons x xs ih =>
    simp only [List.dropWhile_cons, List.takeWhile_cons]
    split
    · simpa using ih
    · rfl

theorem length_takeWhile_le (p : Char → Bool) (l : Str) : (l.takeWhile p).length ≤ l.length :=
  (List.takeWhile_sublist p).length_le

theorem length_dropWhile (p : Char → Bool) (l : Str) :
    (l.dropWhile p).length = l.length - (l.takeWhile p).length := by
  rw [dropWhile_eq_drop, List.length_drop]

theorem drop_sub_dropWhile (p : Char → Bool) (l : Str) :
    l.drop (l.length - (l.dropWhile p).length) = l.dropWhile p := by
  have h1 := length_takeWhile_le p l
  rw [length_dropWhile, dropWhile_eq_drop]
  congr 1; omega

theorem amountEndFrom_le (r : Str) : amountEndFrom r ≤ r.length := by
  unfold amountEndFrom
  simp only []
  generalize hw : (r.takeWhile fun c => !isDigitOrSign c && c != ' ' && c != ')').length = w
  have h1 : w ≤ r.length := hw ▸ length_takeWhile_le _ r
  generalize hg : ((r.drop w).takeWhile isSign).length = g
  have h2 : g ≤ (r.drop w).length := hg ▸ length_takeWhile_le _ _
  generalize hd : (((r.drop w).drop g).takeWhile isNumChar).length = d
  have h3 : d ≤ ((r.drop w).drop g).length := hd ▸ length_takeWhile_le _ _
  have h4 : closeParen (((r.drop w).drop g).drop d) ≤ (((r.drop w).drop g).drop d).length := by
    unfold closeParen
    split
    · next t heq => rw [heq]; simp only [List.length_cons]; omega
    · omega
  simp only [List.length_drop] at h2 h3 h4
  omega

theorem findAmountEnd_le (s : Str) : findAmountEnd s ≤ s.length := by
  unfold findAmountEnd
  split
  · have := amountEndFrom_le ‹Str›; simp only [List.length_cons]; omega
  · exact amountEndFrom_le s

theorem findDoublespace_le (s : Str) (k : Nat) (h : findDoublespace s = some k) : k ≤ s.length := by
  induction s generalizing k with
  | nil => simp [findDoublespace] at h
  | cons a r ih =>
    cases r with
    | nil => simp [findDoublespace] at h
    | cons b r =>
      unfold findDoublespace at h
      split at h
      · cases h; omega
      · obtain ⟨k', hk', rfl⟩ := Option.map_eq_some_iff.1 h
        have := ih k' hk'
        simp only [List.length_cons] at this ⊢; omega

theorem indexOf_lt (c : Char) (s : Str) (k : Nat) (h : indexOf c s = some k) : k < s.length := by
  induction s generalizing k with
  | nil => simp [indexOf] at h
  | cons x xs ih =>
    unfold indexOf at h
    split at h
    · cases h; simp
    · obtain ⟨k', hk', rfl⟩ := Option.map_eq_some_iff.1 h
      have := ih k' hk'
      simp only [List.length_cons]; omega

theorem drop4 (s t a : Str) (A k B e : Nat) (h1 : s.drop A = t) (h2 : (t.drop k).drop B = a) :
    s.drop (A + k + B + e) = a.drop e := by
  subst h1; subst h2
  simp only [List.drop_drop]

theorem commodityStart_aux (s trimmed afterAccount : Str) (k e : Nat)
    (hind : s.drop (s.length - trimmed.length) = trimmed) (htl : trimmed.length ≤ s.length)
    (hk : k ≤ trimmed.length)
    (hskip : (trimmed.drop k).drop ((trimmed.drop k).length - afterAccount.length) = afterAccount)
    (hal : afterAccount.length ≤ (trimmed.drop k).length) (he : e ≤ afterAccount.length) :
    s.length - trimmed.length + k + ((trimmed.drop k).length - afterAccount.length) + e +
        ((s.drop (s.length - trimmed.length + k + ((trimmed.drop k).length - afterAccount.length) + e)).takeWhile
          isBlank).length ≤ s.length ∧
    s.drop (s.length - trimmed.length + k + ((trimmed.drop k).length - afterAccount.length) + e +
        ((s.drop (s.length - trimmed.length + k + ((trimmed.drop k).length - afterAccount.length) + e)).takeWhile
          isBlank).length) =
      if e ≥ afterAccount.length then [] else (afterAccount.drop e).dropWhile isBlank := by
  have hdl : (trimmed.drop k).length = trimmed.length - k := List.length_drop
  have hcs : s.drop (s.length - trimmed.length + k + ((trimmed.drop k).length - afterAccount.length) + e)
      = afterAccount.drop e :=
    drop4 s trimmed afterAccount _ k _ e hind hskip
  rw [hcs]
  have htw := length_takeWhile_le isBlank (afterAccount.drop e)
  have hde : (afterAccount.drop e).length = afterAccount.length - e := List.length_drop
  refine ⟨by omega, ?_⟩
  rw [← List.drop_drop, hcs, ← dropWhile_eq_drop]
  split
  · next hge => rw [List.drop_of_length_le hge]; rfl
  · rfl

/-- On the text before the cursor, `findCommodityStart` and the commodity branch of
    `extractQueryText` cut at the same place. -/
theorem findCommodityStart_spec (s : Str) :
    findCommodityStart s s.length ≤ s.length ∧
    s.drop (findCommodityStart s s.length) = commodityQuery s := by
  unfold findCommodityStart commodityQuery parsePosting
  simp only [trimLeftP]
  cases hds : findDoublespace (s.dropWhile isPostingLead) with
  | none => simp
  | some k =>
    simp only []
    exact commodityStart_aux s _ _ k _ (drop_sub_dropWhile isPostingLead s)
      (List.dropWhile_sublist _).length_le (findDoublespace_le _ _ hds)
      (drop_sub_dropWhile isBlank _) (List.dropWhile_sublist _).length_le (findAmountEnd_le _)

theorem hasPrefix_cut (s p : Str) (h : hasPrefix s p = true) :
    cutPrefix s p = some (s.drop p.length) ∧ p.length ≤ s.length := by
  unfold hasPrefix at h
  unfold cutPrefix
  rw [if_pos h]
  exact ⟨rfl, (List.isPrefixOf_iff_prefix.1 h).length_le⟩

theorem not_hasPrefix_cut (s p : Str) (h : ¬ hasPrefix s p = true) : cutPrefix s p = none := by
  unfold hasPrefix at h
  unfold cutPrefix
  rw [if_neg h]

theorem hasPrefix_length (s p : Str) (h : hasPrefix s p = true) : p.length ≤ s.length := by
  unfold hasPrefix at h
  exact (List.isPrefixOf_iff_prefix.1 h).length_le

theorem accountQueryStart_le (before : Str) : accountQueryStart before ≤ before.length := by
  unfold accountQueryStart
  split
  · next h => exact hasPrefix_length _ _ h
  · split
    · next h => exact hasPrefix_length _ _ h
    · omega

theorem payeeQueryStart_le (before : Str) : payeeQueryStart before ≤ before.length := by
  unfold payeeQueryStart
  split <;> omega

theorem tagNameQueryStart_le (before : Str) : tagNameQueryStart before ≤ before.length := by
  unfold tagNameQueryStart; omega

/-- Char-index form of `edit_replaces_fragment`: in the four judged contexts the edit range
    starts at or before the cursor and covers exactly the query. -/
theorem editStart_query (c : Ctx) (line : Str) (col : Nat) (hcol : col ≤ line.length)
    (hc : c = .account ∨ c = .payee ∨ c = .commodity ∨ c = .tagName) :
    ∃ s, editStart c line col = some s ∧ s ≤ col ∧
      (line.take col).drop s = extractQuery c line col := by
  have hlen : (line.take col).length = col := by rw [List.length_take]; omega
  generalize hb : line.take col = before at hlen
  rcases hc with rfl | rfl | rfl | rfl
  · -- account
    simp only [editStart, extractQuery, hb]
    exact ⟨_, rfl, hlen ▸ accountQueryStart_le before, rfl⟩
  · -- payee
    simp only [editStart, extractQuery, hb]
    exact ⟨_, rfl, hlen ▸ payeeQueryStart_le before, rfl⟩
  · -- commodity
    simp only [editStart, extractQuery, hb]
    by_cases h1 : hasPrefix before directiveCommodity = true
    · obtain ⟨hc1, hl1⟩ := hasPrefix_cut _ _ h1
      rw [if_pos h1, hc1]
      exact ⟨_, rfl, by omega, rfl⟩
    · rw [if_neg h1, not_hasPrefix_cut _ _ h1]
      have := findCommodityStart_spec before
      rw [hlen] at this
      exact ⟨_, rfl, this.1, this.2⟩
  · -- tag name
    simp only [editStart, extractQuery, hb]
    exact ⟨_, rfl, hlen ▸ tagNameQueryStart_le before, rfl⟩

/-! ### Searching in concatenations (for the fragment theorems) -/

theorem indexOf_append_cons (c : Char) (a b : Str) (h : c ∉ a) : indexOf c (a ++ c :: b) = some a.length := by
  induction a with
  | nil => simp [indexOf]
  | cons x xs ih =>
    have hx : x ≠ c := fun e => h (e ▸ List.mem_cons_self)
    have hxs : c ∉ xs := fun e => h (List.mem_cons_of_mem _ e)
    simp only [List.cons_append, indexOf, if_neg hx, ih hxs, Option.map_some, List.length_cons]

theorem lastIndexP_append_of_not (p : Char → Bool) (a b : Str) (h : ∀ x ∈ b, p x = false) :
    lastIndexP p (a ++ b) = lastIndexP p a := by
  induction a with
  | nil =>
    simp only [List.nil_append]
    induction b with
    | nil => rfl
    | cons y ys ih =>
      have hy := h y List.mem_cons_self
      have := ih (fun x hx => h x (List.mem_cons_of_mem _ hx))
      simp only [lastIndexP] at this ⊢
      simp [this, hy]
  | cons x xs ih => simp only [List.cons_append, lastIndexP, ih]

theorem lastIndexP_append_cons (p : Char → Bool) (a b : Str) (c : Char) (hc : p c = true)
    (hb : ∀ x ∈ b, p x = false) : lastIndexP p (a ++ c :: b) = some a.length := by
  induction a with
  | nil =>
    have := lastIndexP_append_of_not p [] b hb
    simp only [List.nil_append] at this
    simp [lastIndexP, this, hc]
  | cons x xs ih => simp only [List.cons_append, lastIndexP, ih, List.length_cons]

/-! ### The executable ranking is stable -/

theorem sublist_insertRanked (counts : Option (List (Str × Nat))) (x : Scored) (l : List Scored) :
    l.Sublist (insertRanked counts x l) := by
  induction l with
  | nil => exact List.nil_sublist _
  | cons y ys ih =>
    unfold insertRanked
    split
    · exact ih.cons_cons y
    · exact (List.Sublist.refl _).cons x

theorem insertRanked_before (counts : Option (List (Str × Nat))) (x b : Scored) (l : List Scored)
    (hb : b ∈ l) (hnl : less counts b x = false) : [x, b].Sublist (insertRanked counts x l) := by
  induction l with
  | nil => cases hb
  | cons y ys ih =>
    unfold insertRanked
    split
    · next hlt =>
      have hne : b ≠ y := by rintro rfl; rw [hnl] at hlt; cases hlt
      have hb' : b ∈ ys := by
        rcases List.mem_cons.1 hb with h | h
        · exact absurd h hne
        · exact h
      exact (ih hb').cons y
    · exact (List.singleton_sublist.2 hb).cons_cons x

/-- `rankExec` is a stable sort: when `a` stands before `b` in the input and `b` need not go
    before `a` (equal keys, or `a` ranks higher), `a` stands before `b` in the output. -/
theorem rankExec_stable (counts : Option (List (Str × Nat))) (l : List Scored) (a b : Scored)
    (hab : [a, b].Sublist l) (hnl : less counts b a = false) : [a, b].Sublist (rankExec counts l) := by
  induction l with
  | nil => cases hab
  | cons x xs ih =>
    unfold rankExec
    cases hab with
    | cons _ h => exact (ih h).trans (sublist_insertRanked counts x _)
    | cons_cons _ h =>
      have hb : b ∈ rankExec counts xs :=
        ((rankExec_isRanking counts xs).1.mem_iff).2 (List.singleton_sublist.1 h)
      exact insertRanked_before counts a b _ hb hnl

theorem pair_sublist_antisymm {α : Type} (l : List α) (a b : α) (hnd : l.Nodup)
    (h1 : [a, b].Sublist l) (h2 : [b, a].Sublist l) : False := by
  induction l with
  | nil => cases h1
  | cons x xs ih =>
    have hx := (List.nodup_cons.1 hnd)
    cases h1 with
    | cons _ h1' =>
      cases h2 with
      | cons _ h2' => exact ih hx.2 h1' h2'
      | cons_cons _ h2' =>
        -- b = x, [a] <+ xs, and [a,b] <+ xs → b ∈ xs
        exact hx.1 (h1'.subset (by simp))
    | cons_cons _ h1' =>
      cases h2 with
      | cons _ h2' => exact hx.1 (h2'.subset (by simp))
      | cons_cons _ h2' =>
        exact hx.1 (List.singleton_sublist.1 h1')

theorem pair_sublist_total {α : Type} (l : List α) (a b : α) (ha : a ∈ l) (hb : b ∈ l) (hab : a ≠ b) :
    [a, b].Sublist l ∨ [b, a].Sublist l := by
  induction l with
  | nil => cases ha
  | cons x xs ih =>
    rcases List.mem_cons.1 ha with rfl | ha'
    · rcases List.mem_cons.1 hb with h | hb'
      · exact absurd h.symm hab
      · exact Or.inl ((List.singleton_sublist.2 hb').cons_cons _)
    · rcases List.mem_cons.1 hb with rfl | hb'
      · exact Or.inr ((List.singleton_sublist.2 ha').cons_cons _)
      · rcases ih ha' hb' with h | h
        · exact Or.inl (h.cons _)
        · exact Or.inr (h.cons _)

/-- A stable sort is a function: the sorted permutation that keeps the input order of elements
    neither of which must precede the other is unique (for distinct candidates). -/
theorem stable_ranking_unique (counts : Option (List (Str × Nat))) (scored r : List Scored)
    (hnd : scored.Nodup) (hr : IsRanking counts scored r)
    (hst : ∀ a b, [a, b].Sublist scored → less counts b a = false → [a, b].Sublist r) :
    r = rankExec counts scored := by
  have hR := rankExec_isRanking counts scored
  have hRst := rankExec_stable counts scored
  have hndr : r.Nodup := hr.1.nodup_iff.2 hnd
  have hndR : (rankExec counts scored).Nodup := hR.1.nodup_iff.2 hnd
  have hsorted_r : ∀ a b, [a, b].Sublist r → less counts b a = false :=
    fun a b h => List.pairwise_iff_forall_sublist.1 hr.2 h
  have hsorted_R : ∀ a b, [a, b].Sublist (rankExec counts scored) → less counts b a = false :=
    fun a b h => List.pairwise_iff_forall_sublist.1 hR.2 h
  let le : Scored → Scored → Prop := fun a b => [a, b].Sublist (rankExec counts scored)
  refine List.Perm.eq_of_pairwise (le := le) ?_ ?_ ?_ (hr.1.trans hR.1.symm)
  · intro a b _ _ hab hba
    exact (pair_sublist_antisymm _ a b hndR hab hba).elim
  · rw [List.pairwise_iff_forall_sublist]
    intro a b hab
    have ha : a ∈ scored := hr.1.mem_iff.1 (hab.subset (by simp))
    have hb : b ∈ scored := hr.1.mem_iff.1 (hab.subset (by simp))
    have hne : a ≠ b := by
      rintro rfl
      have : a ≠ a := List.pairwise_iff_forall_sublist.1 hndr hab
      exact this rfl
    rcases pair_sublist_total scored a b ha hb hne with h | h
    · cases hl : less counts b a
      · exact hRst a b h hl
      · have := hsorted_r a b hab
        rw [hl] at this; cases this
    · cases hl : less counts a b
      · exact (pair_sublist_antisymm r a b hndr hab (hst b a h hl)).elim
      · rcases pair_sublist_total _ a b (hR.1.mem_iff.2 ha) (hR.1.mem_iff.2 hb) hne with h' | h'
        · exact h'
        · have := hsorted_R b a h'
          rw [hl] at this; cases this
  · rw [List.pairwise_iff_forall_sublist]
    intro a b hab
    exact hab
/-! ### Helpers of the fragment theorems -/

/-- `skipCode` leaves a text alone that does not start with a parenthesis. -/
theorem skipCode_id (s : Str) (h : ∀ c ∈ s.head?, c ≠ '(') : skipCode s = s := by
  unfold skipCode
  split
  · exact absurd rfl (h '(' (by simp))
  · rfl

theorem dropWhile_append_frag (p : Char → Bool) (pre frag : Str) (hpre : ∀ c ∈ pre, p c = true)
    (hf : ∀ c ∈ frag.head?, p c = false) : (pre ++ frag).dropWhile p = frag := by
  rw [List.dropWhile_append_of_pos hpre]
  cases frag with
  | nil => rfl
  | cons f fs =>
    have := hf f (by simp)
    simp [this]

theorem take_pre_frag (p frag rest : Str) :
    (p ++ frag ++ rest).take (p.length + frag.length) = p ++ frag := by
  rw [← List.length_append]; exact List.take_left' rfl

theorem length_sub_frag (p frag : Str) : (p ++ frag).length - frag.length = p.length := by
  rw [List.length_append]; omega

theorem not_comma_of_blanks_frag (blanks frag : Str) (hbl : ∀ c ∈ blanks, isBlankTab c = true) (hc : ',' ∉ frag) :
    ∀ x ∈ blanks ++ frag, (x == ',') = false := by
  intro x hx
  rcases List.mem_append.1 hx with hx | hx
  · have := hbl x hx
    simp only [isBlankTab, Bool.or_eq_true, beq_iff_eq] at this
    rcases this with rfl | rfl <;> rfl
  · simp only [beq_eq_false_iff_ne, ne_eq]; rintro rfl; exact hc hx

/-! ### Further helpers of HL.Props.C16 -/

theorem normMax_id (n : Nat) (h : 1 ≤ n) : normMax (n : Int) = n := by
  unfold normMax; split <;> omega

theorem usage_eq_countOf (t : Table) (c : Ctx) (hj : judged c = true) (l : Str) :
    usage t c l = countOf (countsFor t c) l := by
  have key : ∀ m : List (Str × Nat),
      (match m.find? (·.1 == l) with | some p => p.2 | none => 0) = (m.lookup l).getD 0 := by
    intro m
    induction m with
    | nil => rfl
    | cons p ps ih =>
      obtain ⟨a, b⟩ := p
      simp only [List.find?_cons, List.lookup_cons]
      by_cases h : a = l
      · subst h; simp
      · have h1 : (a == l) = false := by simpa using h
        have h2 : (l == a) = false := by simpa using fun h' => h h'.symm
        simp only [h1, h2]; exact ih
  cases c <;> simp [judged] at hj <;> simp only [usage, countOf, countsFor] <;> exact key _

theorem nonIncreasing_of_pairwise (l : List Nat) (h : l.Pairwise (· ≥ ·)) : nonIncreasing l = true := by
  induction l with
  | nil => rfl
  | cons a r ih =>
    cases r with
    | nil => rfl
    | cons b r =>
      have h' := List.pairwise_cons.1 h
      simp only [nonIncreasing, Bool.and_eq_true, decide_eq_true_eq]
      exact ⟨h'.1 b List.mem_cons_self, ih h'.2⟩

theorem takeU16_u16len_take (line : Str) (k : Nat) (hk : k ≤ line.length) :
    takeU16 line (u16len (line.take k)) = k := by
  induction line generalizing k with
  | nil => simp at hk; subst hk; rfl
  | cons c cs ih =>
    cases k with
    | zero => simp [u16len, takeU16]
    | succ k =>
      have hw := u16w_pos c
      simp only [List.take_succ_cons, u16len, takeU16]
      rw [if_neg (by omega), Nat.add_sub_cancel_left, ih k (by simpa using hk)]
      omega

theorem u16len_take_mono (line : Str) (a b : Nat) (h : a ≤ b) :
    u16len (line.take a) ≤ u16len (line.take b) := by
  have := (List.take_append_drop a (line.take b)).symm
  rw [List.take_take, Nat.min_eq_left h] at this
  rw [this, u16len_append]; omega

theorem hasPrefix_false_of_head (line p : Str) (x y : Char) (hl : line.head? = some x) (hp : p.head? = some y)
    (hxy : y ≠ x) : hasPrefix line p = false := by
  cases line with
  | nil => simp at hl
  | cons a as =>
    cases p with
    | nil => simp at hp
    | cons b bs =>
      simp only [List.head?_cons, Option.some.injEq] at hl hp
      subst hl; subst hp
      simp [hasPrefix, List.isPrefixOf_cons_cons, hxy]

end HL.Completion
