import HL.Lemmas.LexLexeme
import HL.Lemmas.LexExtentTok
/-!
  A text token whose first rune is not white space covers exactly its value: with nothing to trim
  on the left, `strings.TrimSpace(scanned)` (the value) and
  `strings.TrimRightFunc(scanned, unicode.IsSpace)` (the extent) are the same string
  (`trimSpace_eq_trimRight`, `next_textExact`).  Behind `skipSpaces` only white space other than
  blank and tab — VT, FF, a lone CR, NEL, NBSP and the Unicode spaces — can stand at the start of
  a text token; there the extent keeps that white space in front of the value (the token's Pos is
  where the scan started).
-/
namespace HL.Lex
open HL HL.Utf8 HL.Spec.LexSpec

/-- what follows does not matter to `decodeRune` unless it starts with a continuation byte -/
theorem decodeRune_append_noncont (s x : Bytes) (hs : s ≠ [])
    (hx : ∀ d t, x = d :: t → isCont d = false) : decodeRune (s ++ x) = decodeRune s := by
  cases x with
  | nil => simp
  | cons d x' =>
    have hnc := hx d x' rfl
    have hacc : ∀ b0 : UInt8, (decide (acceptLo b0 ≤ d) && decide (d ≤ acceptHi b0)) = false := by
      intro b0
      cases h1 : decide (acceptLo b0 ≤ d) <;> cases h2 : decide (d ≤ acceptHi b0) <;> try rfl
      exfalso
      have g1 := acceptLo_ge b0
      have g2 : acceptHi b0 ≤ 0xBF := by
        unfold acceptHi; split
        · decide
        · split <;> decide
      have : isCont d = true := by
        simp only [isCont, Bool.and_eq_true, decide_eq_true_eq]
        exact ⟨UInt8.le_trans g1 (of_decide_eq_true h1), UInt8.le_trans (of_decide_eq_true h2) g2⟩
      rw [hnc] at this; exact absurd this (by simp)
    rcases s with _ | ⟨b0, _ | ⟨b1, _ | ⟨b2, _ | ⟨b3, r3⟩⟩⟩⟩
    · exact absurd rfl hs
    · rcases x' with _ | ⟨e1, _ | ⟨e2, x3⟩⟩ <;>
        (simp only [List.cons_append, List.nil_append, decodeRune, hnc, hacc, Bool.false_eq_true, if_false]
         try (repeat' split) <;> rfl)
    · rcases x' with _ | ⟨e1, x2⟩ <;>
        (simp only [List.cons_append, List.nil_append, decodeRune, hnc, hacc, Bool.false_eq_true, if_false]
         try (repeat' split) <;> rfl)
    · simp only [List.cons_append, List.nil_append, decodeRune, hnc, hacc, Bool.false_eq_true, if_false]
      try (repeat' split) <;> rfl
    · simp only [List.cons_append, decodeRune]

theorem asciiSpace_iff_rune : ∀ c : UInt8, (!(decide (c < 0x80)) || (asciiSpace c == isSpaceRune c.toNat)) = true :=
  forall_uint8 _ (by decide +kernel)

theorem asciiSpace_eq_rune {c : UInt8} (hc : c < 0x80) : asciiSpace c = isSpaceRune c.toNat := by
  have := asciiSpace_iff_rune c
  simpa [hc] using this

/-- the second loop of `strings.TrimSpace` (ASCII blanks from the end, then `TrimRightFunc` at
    the first byte that is not ASCII) is `TrimRightFunc` -/
theorem trimSpaceRight_eq (rs : Bytes) : trimSpaceRight rs = trimRightFunc rs.reverse := by
  induction rs with
  | nil => simp [trimSpaceRight, trimRightFunc, lastIndexNotSpaceF]
  | cons c t ih =>
    unfold trimSpaceRight
    by_cases hc : c ≥ 0x80
    · rw [if_pos hc]
    · rw [if_neg hc]
      have hlt : c < 0x80 := by simpa [UInt8.not_le] using hc
      have hrev : (c :: t).reverse = t.reverse ++ [c] := by simp
      by_cases hs : asciiSpace c = true
      · rw [if_pos hs, ih, hrev, trimRightFunc_snoc_space _ _ hlt (by rw [← asciiSpace_eq_rune hlt]; exact hs)]
      · rw [if_neg hs, hrev, trimRightFunc_id _ _ hlt (by simpa using hs)]

/-- **Nothing to trim on the left: `TrimSpace` is `TrimRightFunc`.** -/
theorem trimSpace_eq_trimRight (c : UInt8) (t : Bytes) (h : isSpaceRune (decodeRune (c :: t)).1 = false) :
    trimSpace (c :: t) = trimRightFunc (c :: t) := by
  unfold trimSpace
  by_cases hc : c ≥ 0x80
  · rw [if_pos hc]
    have : trimLeftFuncF (c :: t).length (c :: t) = c :: t := by
      simp only [List.length_cons, trimLeftFuncF, h, Bool.false_eq_true, if_false]
    rw [this]
  · rw [if_neg hc]
    have hlt : c < 0x80 := by simpa [UInt8.not_le] using hc
    have hd : decodeRune (c :: t) = (c.toNat, 1) := by simp [decodeRune, hlt]
    rw [hd] at h
    have hs : asciiSpace c = false := by rw [asciiSpace_eq_rune hlt]; exact h
    simp only [hs, Bool.false_eq_true, if_false]
    rw [trimSpaceRight_eq, List.reverse_reverse]

/-- a string whose first rune is not white space is not cut down to nothing -/
theorem trimRightFunc_ne_nil (c : UInt8) (t : Bytes) (h : isSpaceRune (decodeRune (c :: t)).1 = false) :
    trimRightFunc (c :: t) ≠ [] := by
  intro e
  obtain ⟨tl, h1, h2, _⟩ := trimRightFunc_spec (c :: t)
  rw [e, List.nil_append] at h1
  rw [← h1, wsOnly_cons, h] at h2
  simp at h2

/-! ### exactness of text tokens -/

/-- A text token whose first rune — the rune at its Pos — is not white space covers exactly its
    value. -/
def TextExact (r : Token × Z) : Prop :=
  r.1.ty = .text → isSpaceRune (decodeRune (r.2.input.drop r.1.pos.off)).1 = false → extOf r = r.1.val

theorem textExact_of_ne {r : Token × Z} (h : r.1.ty ≠ .text) : TextExact r := fun e => absurd e h

theorem input_drop_off (z : Z) : z.input.drop z.before.length = z.after := by
  have : z.before.length = z.before.reverse.length := by simp
  rw [Z.input, this, List.drop_left]

theorem scanText_textExact (z : Z) : TextExact (scanText z) := by
  intro _ hns
  have ha := advLine_adv (fun ch => !(ch == 0x3B || ch == 0x7C)) z
  have hstopL := advLine_stop (fun ch => !(ch == 0x3B || ch == 0x7C)) z
  rw [extOf_scanText]
  have hv : (scanText z).1.val = trimSpace (between z (advLine (fun ch => !(ch == 0x3B || ch == 0x7C)) z)) := rfl
  have hin : (scanText z).2.input = z.input := ha.input
  have hpo : (scanText z).1.pos.off = z.before.length := rfl
  rw [hv]
  rw [hin, hpo, input_drop_off] at hns
  generalize advLine (fun ch => !(ch == 0x3B || ch == 0x7C)) z = e at ha hstopL ⊢
  obtain ⟨pre, hpa, hpb⟩ := ha
  have hbw : between z e = pre := between_eq_of_before hpb
  rw [hbw]
  cases pre with
  | nil => simp [trimSpace, trimRightFunc, lastIndexNotSpaceF]
  | cons c t =>
    -- what stops the scan (`;`, `|`, a line end) is not a continuation byte
    have hnc : ∀ d x, e.after = d :: x → isCont d = false := by
      intro d x hd
      have := hstopL d x hd
      simp only [Bool.and_eq_false_iff, Bool.not_eq_false', Bool.or_eq_true, beq_iff_eq] at this
      rcases this with (rfl | rfl) | h
      · decide
      · decide
      · rcases atEol_cases h with ⟨_, hh⟩ | ⟨_, hh⟩
        · simp only [List.cons.injEq] at hh; rw [hh.1]; decide
        · simp only [List.cons.injEq] at hh; rw [hh.1]; decide
    rw [hpa, decodeRune_append_noncont (c :: t) e.after (by simp) hnc] at hns
    rw [if_neg (trimRightFunc_ne_nil c t hns), trimSpace_eq_trimRight c t hns]

theorem textExact_ite {c : Prop} [Decidable c] {a b : Token × Z}
    (ha : c → TextExact a) (hb : ¬c → TextExact b) : TextExact (if c then a else b) := by
  split
  · exact ha ‹_›
  · exact hb ‹_›

theorem scanAccount_ty (z : Z) : (scanAccount z).1.ty = .account := rfl
theorem scanAt_ty (z : Z) : (scanAt z).1.ty ≠ .text := by
  unfold scanAt; simp only []; split <;> simp [mkTok]
theorem scanEquals_ty (z : Z) : (scanEquals z).1.ty ≠ .text := by
  unfold scanEquals; simp only []; split <;> simp [mkTok]

theorem scanDirectiveOrAccount_textExact (z : Z) : TextExact (scanDirectiveOrAccount z) := by
  unfold scanDirectiveOrAccount
  simp only []
  refine textExact_ite (fun _ => textExact_of_ne (by simp [mkTok])) fun _ => ?_
  exact textExact_ite (fun _ => textExact_of_ne (by rw [scanAccount_ty]; decide)) fun _ => scanText_textExact z

theorem scanCommodityOrText_textExact (C : Classes) (z : Z) : TextExact (scanCommodityOrText C z) := by
  unfold scanCommodityOrText
  simp only []
  refine textExact_ite (fun _ => textExact_of_ne (by simp [mkTok])) fun _ => ?_
  exact textExact_ite (fun _ => textExact_of_ne (by simp [mkTok])) fun _ => scanText_textExact z

theorem scanInLineAt_textExact (C : Classes) (z : Z) : TextExact (scanInLineAt C z) := by
  unfold scanInLineAt
  cases hz : z.after with
  | nil => exact textExact_of_ne (by simp [mkTok])
  | cons ch t =>
    simp only []
    refine textExact_ite (fun _ => textExact_of_ne (by simp [scanNewline, mkTok])) fun _ => ?_
    refine textExact_ite (fun _ => textExact_of_ne (by simp [scanComment, mkTok])) fun _ => ?_
    refine textExact_ite (fun _ => textExact_ite (fun _ => textExact_of_ne (by simp [punct, mkTok]))
      fun _ => textExact_of_ne (by simp [scanCode, mkTok])) fun _ => ?_
    refine textExact_ite (fun _ => textExact_of_ne (by simp [punct, mkTok])) fun _ => ?_
    refine textExact_ite (fun _ => textExact_of_ne (by simp [punct, mkTok])) fun _ => ?_
    refine textExact_ite (fun _ => textExact_of_ne (by simp [punct, mkTok])) fun _ => ?_
    refine textExact_ite (fun _ => textExact_of_ne (by simp [punct, mkTok])) fun _ => ?_
    refine textExact_ite (fun _ => textExact_of_ne (scanAt_ty z)) fun _ => ?_
    refine textExact_ite (fun _ => textExact_of_ne (scanEquals_ty z)) fun _ => ?_
    refine textExact_ite (fun _ => textExact_of_ne (by simp [scanStatus, mkTok])) fun _ => ?_
    refine textExact_ite (fun _ => textExact_of_ne (by simp [scanCurrencySymbol, mkTok])) fun _ => ?_
    refine textExact_ite (fun _ => textExact_of_ne (by simp [scanQuotedCommodity, mkTok])) fun _ => ?_
    refine textExact_ite (fun _ => textExact_ite (fun _ => textExact_of_ne (by simp [scanSign, mkTok]))
      fun _ => scanText_textExact z) fun _ => ?_
    refine textExact_ite (fun _ => textExact_ite (fun _ => textExact_of_ne (by simp [scanDate, mkTok]))
      fun _ => textExact_of_ne (by simp [scanNumber, mkTok])) fun _ => ?_
    refine textExact_ite (fun _ => textExact_ite (fun _ => textExact_of_ne (by rw [scanAccount_ty]; decide))
      fun _ => scanCommodityOrText_textExact C z) fun _ => ?_
    exact scanText_textExact z

theorem scanLineStartAt_textExact (C : Classes) (z : Z) : TextExact (scanLineStartAt C z) := by
  unfold scanLineStartAt
  simp only []
  refine textExact_ite (fun _ => textExact_of_ne (by simp [scanComment, mkTok])) fun _ => ?_
  refine textExact_ite (fun _ => textExact_of_ne (by simp [scanIndent, mkTok])) fun _ => ?_
  refine textExact_ite (fun _ => textExact_of_ne (by simp [scanDate, mkTok])) fun _ => ?_
  refine textExact_ite (fun _ => scanDirectiveOrAccount_textExact z) fun _ => ?_
  exact scanInLineAt_textExact C _

/-- **A text token that does not start with white space covers exactly its value** — for every
    state, every byte string and every classifier. -/
theorem next_textExact (C : Classes) (z : Z) : TextExact (next C z) := by
  unfold next
  split
  · exact textExact_of_ne (by simp [mkTok])
  · exact textExact_ite (fun _ => scanLineStartAt_textExact C _) fun _ => scanInLineAt_textExact C _

end HL.Lex
