/-
  The invariant of the workspace index (`IdxInv`, property C12's `index_is_sum`): every
  counter is the sum of the indexed files' contributions, stored counts are positive (so the
  derived name lists are the sorted supports and `decrementBy` never truncates), the
  transaction index holds exactly the files' entries, payee templates come from indexed files.
  Preserved by `addFileIndex` / `removeFileIndex` / `setFileIndex` / `removeFile`.
-/
import HL.Lemmas.Counter
namespace HL.Lemmas.Index
open HL.Index HL.Lemmas.AList HL.Lemmas.Counter HL.Spec.Rebuild

/-! ### transaction index -/

theorem getD_txAdd (m : AList (List Entry)) (es : List Entry) (key : String) :
    (txAdd m es).getD key [] = m.getD key [] ++ es.filter (fun e => e.key = key) := by
  induction es generalizing m with
  | nil => simp [txAdd]
  | cons e r ih =>
    simp only [txAdd, List.foldl_cons] at *
    rw [ih, getD_set]
    by_cases h : e.key = key
    · subst h; simp [List.filter_cons]
    · simp [h, List.filter_cons]

theorem txAdd_nonempty (m : AList (List Entry)) (es : List Entry)
    (h : ∀ key l, m.get key = some l → l ≠ []) :
    ∀ key l, (txAdd m es).get key = some l → l ≠ [] := by
  induction es generalizing m with
  | nil => exact h
  | cons e r ih =>
    simp only [txAdd, List.foldl_cons] at *
    apply ih
    intro key l hl
    rw [get_set] at hl
    by_cases e2 : e.key = key
    · simp only [e2, if_true, Option.some.injEq] at hl
      subst hl; simp
    · simp only [e2, if_false] at hl; exact h key l hl

theorem nodup_txAdd (m : AList (List Entry)) (es : List Entry) (h : m.keys.Nodup) :
    (txAdd m es).keys.Nodup := by
  induction es generalizing m with
  | nil => exact h
  | cons e r ih => simp only [txAdd, List.foldl_cons] at *; exact ih _ (nodup_keys_set _ _ _ h)

theorem getD_txRemove (m : AList (List Entry)) (path : String) (es : List Entry) (key : String) :
    (txRemove m path es).getD key [] =
      if key ∈ es.map (·.key) then (m.getD key []).filter (fun x => x.file ≠ path)
      else m.getD key [] := by
  induction es generalizing m with
  | nil => simp [txRemove]
  | cons e r ih =>
    simp only [txRemove, List.foldl_cons] at *
    rw [ih]
    have hstep : ∀ k, (if ((m.getD e.key []).filter fun x => x.file ≠ path).isEmpty = true
          then m.erase e.key
          else m.set e.key ((m.getD e.key []).filter fun x => x.file ≠ path)).getD k [] =
        if e.key = k then (m.getD k []).filter (fun x => x.file ≠ path) else m.getD k [] := by
      intro k
      by_cases hemp : ((m.getD e.key []).filter fun x => x.file ≠ path).isEmpty = true
      · simp only [hemp, if_true]
        rw [getD_erase]
        by_cases e2 : e.key = k
        · subst e2
          simp only [if_true]
          exact (List.isEmpty_iff.mp hemp).symm
        · simp [e2]
      · simp only [hemp, Bool.false_eq_true, if_false]
        rw [getD_set]
        by_cases e2 : e.key = k
        · subst e2; simp
        · simp [e2]
    rw [hstep]
    by_cases e2 : e.key = key
    · subst e2
      simp only [List.map_cons, List.mem_cons, true_or, if_true]
      split <;> simp [List.filter_filter]
    · have : ¬ key = e.key := fun h => e2 h.symm
      simp [e2, this]

theorem txRemove_nonempty (m : AList (List Entry)) (path : String) (es : List Entry)
    (h : ∀ key l, m.get key = some l → l ≠ []) :
    ∀ key l, (txRemove m path es).get key = some l → l ≠ [] := by
  induction es generalizing m with
  | nil => exact h
  | cons e r ih =>
    simp only [txRemove, List.foldl_cons] at *
    apply ih
    intro key l hl
    by_cases hemp : ((m.getD e.key []).filter fun x => x.file ≠ path).isEmpty = true
    · simp only [hemp, if_true] at hl
      rw [get_erase] at hl
      by_cases e2 : e.key = key
      · simp [e2] at hl
      · simp only [e2, if_false] at hl; exact h key l hl
    · simp only [hemp, Bool.false_eq_true, if_false] at hl
      rw [get_set] at hl
      by_cases e2 : e.key = key
      · subst e2
        simp only [if_true, Option.some.injEq] at hl
        subst hl
        intro hnil
        exact hemp (by rw [hnil]; rfl)
      · simp only [e2, if_false] at hl; exact h key l hl

theorem nodup_txRemove (m : AList (List Entry)) (path : String) (es : List Entry)
    (h : m.keys.Nodup) : (txRemove m path es).keys.Nodup := by
  induction es generalizing m with
  | nil => exact h
  | cons e r ih =>
    simp only [txRemove, List.foldl_cons] at *
    apply ih
    split
    · exact nodup_keys_erase _ _ h
    · exact nodup_keys_set _ _ _ h

/-! ### payee templates -/

theorem foldl_min_mem (a : String) (r : List String) :
    List.foldl (fun b x => if x < b then x else b) a r ∈ a :: r := by
  induction r generalizing a with
  | nil => simp
  | cons b r ih =>
    simp only [List.foldl_cons]
    by_cases h : b < a
    · simp only [h, if_true]
      rcases List.mem_cons.mp (ih b) with h1 | h1
      · rw [h1]; simp
      · exact List.mem_cons_of_mem _ (List.mem_cons_of_mem _ h1)
    · simp only [h, if_false]
      rcases List.mem_cons.mp (ih a) with h1 | h1
      · rw [h1]; simp
      · exact List.mem_cons_of_mem _ (List.mem_cons_of_mem _ h1)

theorem foldl_min_le (a : String) (r : List String) :
    ∀ x ∈ a :: r, List.foldl (fun b x => if x < b then x else b) a r ≤ x := by
  induction r generalizing a with
  | nil => intro x hx; simp at hx; subst hx; exact String.le_refl _
  | cons b r ih =>
    intro x hx
    simp only [List.foldl_cons]
    by_cases h : b < a
    · simp only [h, if_true]
      have hba : b ≤ a := String.not_lt.mp (String.lt_asymm h)
      rcases List.mem_cons.mp hx with hx | hx
      · exact hx ▸ String.le_trans (ih b b List.mem_cons_self) hba
      · exact ih b x hx
    · simp only [h, if_false]
      have hab : a ≤ b := String.not_lt.mp h
      rcases List.mem_cons.mp hx with hx | hx
      · exact hx ▸ ih a a List.mem_cons_self
      · rcases List.mem_cons.mp hx with hx | hx
        · exact hx ▸ String.le_trans (ih a a List.mem_cons_self) hab
        · exact ih a x (List.mem_cons_of_mem _ hx)

theorem minPath_mem (a : String) (r : List String) : minPath (a :: r) ∈ a :: r :=
  foldl_min_mem a r

theorem minPath_le (a : String) (r : List String) : ∀ x ∈ a :: r, minPath (a :: r) ≤ x :=
  foldl_min_le a r

/-- what `restorePayeeTemplate` stores for a payee -/
def ptRestoreVal (files : AList FileIdx) (payee : String) : Option String :=
  match (files.filter fun e => (e.2.c.pts.get payee).isSome).map (·.1) with
  | [] => none
  | h :: t => (files.getD (minPath (h :: t)) default).c.pts.get payee

/-- `t` is the payee's template in the indexed file with the smallest path that has one -/
def IsMinTemplate (files : AList FileIdx) (p t : String) : Prop :=
  ∃ f fi, (files.get f = some fi ∧ fi.c.pts.get p = some t) ∧
    ∀ f' fi', (files.get f' = some fi' ∧ (fi'.c.pts.get p).isSome) → f ≤ f'

theorem ptRestoreVal_iff (files : AList FileIdx) (hn : files.keys.Nodup) (p t : String) :
    ptRestoreVal files p = some t ↔ IsMinTemplate files p t := by
  unfold ptRestoreVal
  have hhave : ∀ f, f ∈ (files.filter fun e => (e.2.c.pts.get p).isSome).map (·.1) ↔
      ∃ fi, files.get f = some fi ∧ (fi.c.pts.get p).isSome := by
    intro f
    simp only [List.mem_map, List.mem_filter]
    constructor
    · rintro ⟨e, ⟨he, hp⟩, rfl⟩
      exact ⟨e.2, mem_get_of_nodup files e.1 e.2 hn he, hp⟩
    · rintro ⟨fi, hg, hp⟩
      exact ⟨(f, fi), ⟨get_mem files f fi hg, hp⟩, rfl⟩
  cases hh : (files.filter fun e => (e.2.c.pts.get p).isSome).map (·.1) with
  | nil =>
    simp only
    constructor
    · intro h; simp at h
    · rintro ⟨f, fi, ⟨hg, hp⟩, _⟩
      have := (hhave f).mpr ⟨fi, hg, by rw [hp]; rfl⟩
      rw [hh] at this; simp at this
  | cons a r =>
    simp only
    have hm : minPath (a :: r) ∈ (files.filter fun e => (e.2.c.pts.get p).isSome).map (·.1) := by
      rw [hh]; exact minPath_mem a r
    obtain ⟨fi0, hg0, hp0⟩ := (hhave _).mp hm
    have hgd : files.getD (minPath (a :: r)) default = fi0 := by simp [AList.getD, hg0]
    rw [hgd]
    have hmin : ∀ f' fi', (files.get f' = some fi' ∧ (fi'.c.pts.get p).isSome) → minPath (a :: r) ≤ f' := by
      intro f' fi' h'
      have := (hhave f').mpr ⟨fi', h'.1, h'.2⟩
      rw [hh] at this
      exact minPath_le a r f' this
    constructor
    · intro h
      exact ⟨minPath (a :: r), fi0, ⟨hg0, h⟩, hmin⟩
    · rintro ⟨f, fi, ⟨hg, hp⟩, hle⟩
      have h1 : f ≤ minPath (a :: r) := hle _ fi0 ⟨hg0, hp0⟩
      have h2 : minPath (a :: r) ≤ f := hmin f fi ⟨hg, by rw [hp]; rfl⟩
      have : f = minPath (a :: r) := String.le_antisymm h1 h2
      subst this
      rw [hg0] at hg
      simp only [Option.some.injEq] at hg
      rw [hg]; exact hp

/-- `IsMinTemplate` only looks at the files that have a template for the payee -/
theorem isMinTemplate_congr (files files' : AList FileIdx) (p : String)
    (h : ∀ f fi, (files.get f = some fi ∧ (fi.c.pts.get p).isSome) ↔
      (files'.get f = some fi ∧ (fi.c.pts.get p).isSome)) (t : String) :
    IsMinTemplate files p t ↔ IsMinTemplate files' p t := by
  constructor
  · rintro ⟨f, fi, ⟨hg, hp⟩, hle⟩
    have := (h f fi).mp ⟨hg, by rw [hp]; rfl⟩
    exact ⟨f, fi, ⟨this.1, hp⟩, fun f' fi' h' => hle f' fi' ((h f' fi').mpr h')⟩
  · rintro ⟨f, fi, ⟨hg, hp⟩, hle⟩
    have := (h f fi).mpr ⟨hg, by rw [hp]; rfl⟩
    exact ⟨f, fi, ⟨this.1, hp⟩, fun f' fi' h' => hle f' fi' ((h f' fi').mp h')⟩

theorem ptRestoreVal_sound (files : AList FileIdx) (hn : files.keys.Nodup) (payee t : String)
    (h : ptRestoreVal files payee = some t) :
    ∃ p fi, files.get p = some fi ∧ fi.c.pts.get payee = some t := by
  obtain ⟨f, fi, hg, _⟩ := (ptRestoreVal_iff files hn payee t).mp h
  exact ⟨f, fi, hg⟩

theorem ptRestoreVal_complete (files : AList FileIdx) (hn : files.keys.Nodup) (payee : String)
    (p : String) (fi : FileIdx) (hg : files.get p = some fi) (hp : (fi.c.pts.get payee).isSome) :
    (ptRestoreVal files payee).isSome := by
  unfold ptRestoreVal
  have hmem : p ∈ (files.filter fun e => (e.2.c.pts.get payee).isSome).map (·.1) :=
    List.mem_map.mpr ⟨(p, fi), List.mem_filter.mpr ⟨get_mem files p fi hg, hp⟩, rfl⟩
  cases hh : (files.filter fun e => (e.2.c.pts.get payee).isSome).map (·.1) with
  | nil => rw [hh] at hmem; simp at hmem
  | cons a r =>
    simp only
    have hm : minPath (a :: r) ∈ (files.filter fun e => (e.2.c.pts.get payee).isSome).map (·.1) := by
      rw [hh]; exact minPath_mem a r
    obtain ⟨e, he, heq⟩ := List.mem_map.mp hm
    have he' := List.mem_filter.mp he
    have hg2 : files.get e.1 = some e.2 := mem_get_of_nodup files e.1 e.2 hn he'.1
    have : files.getD (minPath (a :: r)) default = e.2 := by
      unfold AList.getD; rw [← heq, hg2]; rfl
    rw [this]; exact he'.2

/-- `restorePayeeTemplate`: the payee's entry becomes the minimal file's template if some
    indexed file has one, and is left alone otherwise -/
theorem get_ptRestore' (files : AList FileIdx) (m : AList String) (payee p : String) :
    (ptRestore files m payee).get p =
      if payee = p then (match ptRestoreVal files payee with
        | some t => some t
        | none => m.get p) else m.get p := by
  unfold ptRestore ptRestoreVal
  cases hh : (files.filter fun e => (e.2.c.pts.get payee).isSome).map (·.1) with
  | nil => simp
  | cons h t =>
    simp only
    cases hv : (files.getD (minPath (h :: t)) default).c.pts.get payee with
    | none => simp
    | some v =>
      simp only
      rw [get_set]

theorem get_ptRestore (files : AList FileIdx) (m : AList String) (payee p : String) :
    (ptRestore files (m.erase payee) payee).get p =
      if payee = p then ptRestoreVal files payee else m.get p := by
  rw [get_ptRestore', get_erase]
  by_cases e : payee = p
  · simp only [e, if_true]
    cases ptRestoreVal files p <;> rfl
  · simp [e]

theorem nodup_ptRestore (files : AList FileIdx) (m : AList String) (payee : String)
    (h : m.keys.Nodup) : (ptRestore files m payee).keys.Nodup := by
  unfold ptRestore
  simp only
  split
  · exact h
  · split
    · exact nodup_keys_set _ _ _ h
    · exact h

/-- the payee template loop of the pinned addFileIndex: overwrite -/
theorem get_ptAdd (files : AList FileIdx) (m l : AList String) (hn : l.keys.Nodup) (p : String) :
    (ptAdd false files m l).get p = match l.get p with
      | some t => some t
      | none => m.get p := by
  induction l generalizing m with
  | nil => simp [ptAdd]
  | cons e r ih =>
    obtain ⟨a, b⟩ := e
    simp only [AList.keys, List.map_cons, List.nodup_cons] at hn
    simp only [ptAdd, List.foldl_cons, Bool.false_eq_true, if_false] at *
    rw [ih _ hn.2, get_cons]
    by_cases h : a = p
    · subst h
      have : AList.get r a = none := (get_eq_none_iff r a).mpr hn.1
      simp [this, get_set_self]
    · simp only [h, if_false]
      cases AList.get r p with
      | some t => rfl
      | none => simp [get_set_ne _ _ _ _ h]

/-- the payee template loop of the repaired addFileIndex -/
theorem get_ptAddFix (files : AList FileIdx) (m l : AList String) (p : String) :
    (ptAdd true files m l).get p =
      if p ∈ l.keys then (match ptRestoreVal files p with
        | some t => some t
        | none => m.get p) else m.get p := by
  induction l generalizing m with
  | nil => simp [ptAdd, AList.keys]
  | cons e r ih =>
    simp only [ptAdd, List.foldl_cons, if_true] at *
    rw [ih]
    by_cases hr : p ∈ AList.keys r
    · have : p ∈ AList.keys (e :: r) := by
        simp only [AList.keys, List.map_cons] at *; exact List.mem_cons_of_mem _ hr
      simp only [hr, this, if_true]
      cases hv : ptRestoreVal files p with
      | some t => rfl
      | none =>
        simp only
        rw [get_ptRestore']
        by_cases he : e.1 = p
        · simp [he, hv]
        · simp [he]
    · simp only [hr, if_false]
      rw [get_ptRestore']
      by_cases he : e.1 = p
      · have : p ∈ AList.keys (e :: r) := by simp [AList.keys, he]
        simp [this, he]
      · have : p ∉ AList.keys (e :: r) := by
          simp only [AList.keys, List.map_cons, List.mem_cons, not_or] at *
          exact ⟨fun h => he h.symm, hr⟩
        simp [this, he]

theorem nodup_ptAdd (fixT : Bool) (files : AList FileIdx) (m l : AList String) (h : m.keys.Nodup) :
    (ptAdd fixT files m l).keys.Nodup := by
  induction l generalizing m with
  | nil => exact h
  | cons e r ih =>
    simp only [ptAdd, List.foldl_cons] at *
    apply ih
    cases fixT with
    | true => simp only [if_true]; exact nodup_ptRestore _ _ _ h
    | false => simpa using nodup_keys_set _ _ _ h

theorem get_ptRemove (fixT : Bool) (files : AList FileIdx) (m l : AList String) (p : String) :
    (ptRemove fixT files m l).get p =
      if p ∈ l.keys then (if fixT then ptRestoreVal files p else none) else m.get p := by
  induction l generalizing m with
  | nil => simp [ptRemove, AList.keys]
  | cons e r ih =>
    simp only [ptRemove, List.foldl_cons] at *
    rw [ih]
    by_cases hr : p ∈ AList.keys r
    · have : p ∈ AList.keys (e :: r) := by simp only [AList.keys, List.map_cons] at *; exact List.mem_cons_of_mem _ hr
      simp [hr, this]
    · simp only [hr, if_false]
      by_cases he : e.1 = p
      · have : p ∈ AList.keys (e :: r) := by simp [AList.keys, he]
        simp only [this, if_true]
        cases fixT with
        | true => simp only [if_true]; rw [get_ptRestore]; simp [he]
        | false => simp [get_erase, he]
      · have : p ∉ AList.keys (e :: r) := by
          simp only [AList.keys, List.map_cons, List.mem_cons, not_or] at *
          exact ⟨fun h => he h.symm, hr⟩
        simp only [this, if_false]
        cases fixT with
        | true => simp only [if_true]; rw [get_ptRestore]; simp [he]
        | false => simp [get_erase, he]

theorem nodup_ptRemove (fixT : Bool) (files : AList FileIdx) (m l : AList String)
    (h : m.keys.Nodup) : (ptRemove fixT files m l).keys.Nodup := by
  induction l generalizing m with
  | nil => exact h
  | cons e r ih =>
    simp only [ptRemove, List.foldl_cons] at *
    apply ih
    cases fixT with
    | true => simp only [if_true]; exact nodup_ptRestore _ _ _ (nodup_keys_erase _ _ h)
    | false => simpa using nodup_keys_erase _ _ h

/-! ### the invariant -/

/-- the contributions of the indexed files -/
def contribsOf (files : AList FileIdx) : List Contrib := files.map (·.2.c)

/-- all transaction entries of the indexed files -/
def entriesOfFiles (files : AList FileIdx) : List Entry := files.flatMap (·.2.entries)

structure CounterOk (proj : Contrib → AList Nat) (files : AList FileIdx) (m : AList Nat) : Prop where
  sum : ∀ k, cnt m k = total proj (contribsOf files) k
  pos : Pos m
  nodup : m.keys.Nodup

structure TvOk (files : AList FileIdx) (m : AList (AList Nat)) : Prop where
  sum : ∀ t v, tvCnt m t v = total (tvFlat t) (contribsOf files) v
  canon : TvCanon m
  nodup : m.keys.Nodup

structure TxOk (files : AList FileIdx) (m : AList (List Entry)) : Prop where
  perm : ∀ key, (m.getD key []).Perm ((entriesOfFiles files).filter fun e => e.key = key)
  nonempty : ∀ key l, m.get key = some l → l ≠ []
  nodup : m.keys.Nodup

structure PtOk (fixT : Bool) (files : AList FileIdx) (m : AList String) : Prop where
  sound : ∀ p t, m.get p = some t → ∃ f fi, files.get f = some fi ∧ fi.c.pts.get p = some t
  complete : fixT = true → ∀ f fi p, files.get f = some fi → (fi.c.pts.get p).isSome → (m.get p).isSome
  /-- repaired code: the stored template is that of the smallest path having one -/
  exact : fixT = true → ∀ p, m.get p = ptRestoreVal files p
  nodup : m.keys.Nodup

/-- the derived fields are what `refreshDerived` computes from the counters -/
def Derived (idx : WIndex) : Prop :=
  idx.accounts = buildAccountIndex idx.ac ∧ idx.payees = sortedKeys idx.pc ∧
  idx.commodities = sortedKeys idx.cc ∧ idx.tags = sortedKeys idx.tc ∧
  idx.tagValues = buildTagValues idx.tvc ∧ idx.dates = sortedKeys idx.dc

/-- C12 `index_is_sum`. -/
structure IdxInv (fixT : Bool) (idx : WIndex) : Prop where
  nodup : idx.files.keys.Nodup
  wf : ∀ p fi, idx.files.get p = some fi → fi = mkFileIdx p fi.c ∧ contribOk fi.c = true
  ac : CounterOk (·.ac) idx.files idx.ac
  pc : CounterOk (·.pc) idx.files idx.pc
  cc : CounterOk (·.cc) idx.files idx.cc
  tc : CounterOk (·.tc) idx.files idx.tc
  dc : CounterOk dateCounts idx.files idx.dc
  tvc : TvOk idx.files idx.tvc
  txs : TxOk idx.files idx.txs
  pts : PtOk fixT idx.files idx.pts
  derived : Derived idx

theorem derived_refresh (idx : WIndex) : Derived (refreshDerived idx) := by
  simp [Derived, refreshDerived]

theorem counterOk_empty (proj : Contrib → AList Nat) : CounterOk proj [] [] :=
  ⟨fun k => by simp [cnt, contribsOf, total], fun k n h => by simp at h, by simp [AList.keys]⟩

theorem idxInv_empty (fixT : Bool) : IdxInv fixT {} where
  nodup := by simp [AList.keys]
  wf := by intro p fi h; simp at h
  ac := counterOk_empty _
  pc := counterOk_empty _
  cc := counterOk_empty _
  tc := counterOk_empty _
  dc := counterOk_empty _
  tvc := ⟨fun t v => by simp [tvCnt, AList.getD, cnt, contribsOf, total],
          fun t i h => by simp at h, by simp [AList.keys]⟩
  txs := ⟨fun key => by simp [AList.getD, entriesOfFiles], fun k l h => by simp at h,
          by simp [AList.keys]⟩
  pts := ⟨fun p t h => by simp at h, fun _ f fi p h => by simp at h,
          fun _ p => by simp [ptRestoreVal], by simp [AList.keys]⟩
  derived := by
    simp [Derived, buildAccountIndex, accountIndexOf, sortedKeys, isort, AList.keys, buildTagValues]

/-! ### adding a file -/

theorem contribOk_parts (c : Contrib) (h : contribOk c = true) :
    posCounts c.ac = true ∧ posCounts c.pc = true ∧ posCounts c.cc = true ∧ posCounts c.tc = true ∧
    c.tvc.all (fun e => !e.2.isEmpty && posCounts e.2) = true ∧ c.pts.keys.Nodup := by
  simp only [contribOk, Bool.and_eq_true, decide_eq_true_eq] at h
  obtain ⟨⟨⟨⟨⟨h1, h2⟩, h3⟩, h4⟩, h5⟩, h6⟩ := h
  exact ⟨h1, h2, h3, h4, h5, nodup_of_dedup_eq _ h6⟩

theorem posCounts_dates (ds : List String) : posCounts (ds.map fun d => (d, 1)) = true := by
  simp [posCounts]

theorem counterOk_add (proj : Contrib → AList Nat) (files : AList FileIdx) (m : AList Nat)
    (path : String) (fi : FileIdx) (h : CounterOk proj files m) (hnew : path ∉ files.keys)
    (hp : posCounts (proj fi.c) = true) :
    CounterOk proj (files.set path fi) (addAll m (proj fi.c)) where
  sum k := by
    rw [cnt_addAll, h.sum k, set_of_not_mem files path fi hnew]
    simp [contribsOf, total_append, total_cons, total_nil]
  pos := pos_addAll _ _ h.pos hp
  nodup := nodup_addAll _ _ h.nodup

theorem tvFlat_eq (t : String) (c : Contrib) : tvFlat t c = tvFlatL c.tvc t := rfl

theorem entriesOfFiles_append (a b : AList FileIdx) :
    entriesOfFiles (a ++ b) = entriesOfFiles a ++ entriesOfFiles b := by
  simp [entriesOfFiles]

theorem idxInv_add (fixT : Bool) (idx : WIndex) (path : String) (c : Contrib)
    (h : IdxInv fixT idx) (hnew : idx.files.get path = none) (hc : contribOk c = true) :
    IdxInv fixT (addFileIndex fixT idx path (mkFileIdx path c)) := by
  have hnk : path ∉ idx.files.keys := (get_eq_none_iff _ _).mp hnew
  obtain ⟨c1, c2, c3, c4, c5, c6⟩ := contribOk_parts c hc
  have hfiles : (addFileIndex fixT idx path (mkFileIdx path c)).files = idx.files.set path (mkFileIdx path c) := rfl
  refine
    { nodup := ?_, wf := ?_, ac := ?_, pc := ?_, cc := ?_, tc := ?_, dc := ?_, tvc := ?_,
      txs := ?_, pts := ?_, derived := derived_refresh _ }
  · exact nodup_keys_set _ _ _ h.nodup
  · intro p fi hg
    rw [hfiles, get_set] at hg
    by_cases e : path = p
    · simp only [e, if_true, Option.some.injEq] at hg
      subst hg; subst e
      exact ⟨rfl, hc⟩
    · simp only [e, if_false] at hg; exact h.wf p fi hg
  · exact counterOk_add (·.ac) _ _ path _ h.ac hnk c1
  · exact counterOk_add (·.pc) _ _ path _ h.pc hnk c2
  · exact counterOk_add (·.cc) _ _ path _ h.cc hnk c3
  · exact counterOk_add (·.tc) _ _ path _ h.tc hnk c4
  · exact counterOk_add dateCounts _ _ path _ h.dc hnk (posCounts_dates _)
  · refine ⟨?_, tvCanon_tvAddAll _ _ h.tvc.canon c5, nodup_tvAddAll _ _ h.tvc.nodup⟩
    intro t v
    show tvCnt (tvAddAll idx.tvc c.tvc) t v = _
    rw [tvCnt_tvAddAll, h.tvc.sum t v, hfiles, set_of_not_mem _ _ _ hnk]
    simp [contribsOf, total_append, total_cons, total_nil, tvFlat_eq, mkFileIdx]
  · refine ⟨?_, txAdd_nonempty _ _ h.txs.nonempty, nodup_txAdd _ _ h.txs.nodup⟩
    intro key
    show ((txAdd idx.txs (mkFileIdx path c).entries).getD key []).Perm _
    rw [getD_txAdd, hfiles, set_of_not_mem _ _ _ hnk, entriesOfFiles_append, List.filter_append]
    apply List.Perm.append (h.txs.perm key)
    simp [entriesOfFiles]
  · -- payee templates
    have hnd' : (idx.files.set path (mkFileIdx path c)).keys.Nodup := nodup_keys_set _ _ _ h.nodup
    have hget' : ∀ f, (idx.files.set path (mkFileIdx path c)).get f =
        if path = f then some (mkFileIdx path c) else idx.files.get f := fun f => get_set _ _ _ f
    have hkeep : ∀ f fi, idx.files.get f = some fi →
        (idx.files.set path (mkFileIdx path c)).get f = some fi := by
      intro f fi hf
      rw [hget' f]
      have : ¬ path = f := by intro e2; rw [← e2, hnew] at hf; simp at hf
      simp [this, hf]
    have hpts : (addFileIndex fixT idx path (mkFileIdx path c)).pts =
        ptAdd fixT (idx.files.set path (mkFileIdx path c)) idx.pts c.pts := rfl
    rw [hfiles, hpts]
    -- files that have the payee, when the new file does not
    have hcongr : ∀ p, p ∉ c.pts.keys → ∀ f fi,
        (idx.files.get f = some fi ∧ (fi.c.pts.get p).isSome) ↔
        ((idx.files.set path (mkFileIdx path c)).get f = some fi ∧ (fi.c.pts.get p).isSome) := by
      intro p hp f fi
      rw [hget' f]
      constructor
      · rintro ⟨h1, h2⟩
        have : ¬ path = f := by intro e2; rw [← e2, hnew] at h1; simp at h1
        simp [this, h1, h2]
      · rintro ⟨h1, h2⟩
        by_cases e : path = f
        · simp only [e, if_true, Option.some.injEq] at h1
          subst h1
          exact absurd ((mem_keys_iff _ _).mpr h2) hp
        · simp only [e, if_false] at h1; exact ⟨h1, h2⟩
    cases fixT with
    | false =>
      refine ⟨?_, fun hf => by simp at hf, fun hf => by simp at hf, nodup_ptAdd _ _ _ _ h.pts.nodup⟩
      intro p t hg
      rw [get_ptAdd _ _ _ c6] at hg
      cases e : c.pts.get p with
      | some t' =>
        simp only [e, Option.some.injEq] at hg
        subst hg
        exact ⟨path, mkFileIdx path c, get_set_self _ _ _, e⟩
      | none =>
        simp only [e] at hg
        obtain ⟨f, fi, hf, hfi⟩ := h.pts.sound p t hg
        exact ⟨f, fi, hkeep f fi hf, hfi⟩
    | true =>
      have hexact : ∀ p, (ptAdd true (idx.files.set path (mkFileIdx path c)) idx.pts c.pts).get p =
          ptRestoreVal (idx.files.set path (mkFileIdx path c)) p := by
        intro p
        rw [get_ptAddFix]
        by_cases hk : p ∈ c.pts.keys
        · simp only [hk, if_true]
          have := ptRestoreVal_complete _ hnd' p path (mkFileIdx path c) (get_set_self _ _ _)
            ((mem_keys_iff _ _).mp hk)
          obtain ⟨t, ht⟩ := Option.isSome_iff_exists.mp this
          rw [ht]
        · simp only [hk, if_false]
          rw [h.pts.exact rfl p]
          cases e1 : ptRestoreVal idx.files p with
          | some t =>
            exact ((ptRestoreVal_iff _ hnd' p t).mpr
              ((isMinTemplate_congr _ _ p (hcongr p hk) t).mp ((ptRestoreVal_iff _ h.nodup p t).mp e1))).symm
          | none =>
            cases e2 : ptRestoreVal (idx.files.set path (mkFileIdx path c)) p with
            | none => rfl
            | some t =>
              have := (ptRestoreVal_iff _ h.nodup p t).mpr
                ((isMinTemplate_congr _ _ p (hcongr p hk) t).mpr ((ptRestoreVal_iff _ hnd' p t).mp e2))
              rw [e1] at this; simp at this
      refine ⟨?_, ?_, fun _ => hexact, nodup_ptAdd _ _ _ _ h.pts.nodup⟩
      · intro p t hg
        rw [hexact p] at hg
        exact ptRestoreVal_sound _ hnd' p t hg
      · intro _ f fi p hg hp
        rw [hexact p]
        exact ptRestoreVal_complete _ hnd' p f fi hg hp

/-! ### removing a file -/

theorem contribsOf_perm (files : AList FileIdx) (path : String) (fi : FileIdx)
    (hn : files.keys.Nodup) (hg : files.get path = some fi) :
    (contribsOf files).Perm (fi.c :: contribsOf (files.erase path)) := by
  have := (perm_erase_cons files path fi hn hg).map (·.2.c)
  simpa [contribsOf] using this

theorem counterOk_remove (proj : Contrib → AList Nat) (files : AList FileIdx) (m : AList Nat)
    (path : String) (fi : FileIdx) (h : CounterOk proj files m) (hn : files.keys.Nodup)
    (hg : files.get path = some fi) :
    CounterOk proj (files.erase path) (subAll m (proj fi.c)) where
  sum k := by
    rw [cnt_subAll, h.sum k, total_perm proj _ _ (contribsOf_perm files path fi hn hg) k, total_cons]
    omega
  pos := pos_subAll _ _ h.pos
  nodup := nodup_subAll _ _ h.nodup

theorem idxInv_remove (fixT : Bool) (idx : WIndex) (path : String) (fi : FileIdx)
    (h : IdxInv fixT idx) (hg : idx.files.get path = some fi) :
    IdxInv fixT (removeFileIndex fixT idx path fi) := by
  have hfiles : (removeFileIndex fixT idx path fi).files = idx.files.erase path := rfl
  have hperm := perm_erase_cons idx.files path fi h.nodup hg
  have hwf := h.wf path fi hg
  have hnd' : (idx.files.erase path).keys.Nodup := nodup_keys_erase _ _ h.nodup
  refine
    { nodup := ?_, wf := ?_, ac := ?_, pc := ?_, cc := ?_, tc := ?_, dc := ?_, tvc := ?_,
      txs := ?_, pts := ?_, derived := derived_refresh _ }
  · exact hnd'
  · intro p fi' hg'
    rw [hfiles, get_erase] at hg'
    by_cases e : path = p
    · simp [e] at hg'
    · simp only [e, if_false] at hg'; exact h.wf p fi' hg'
  · exact counterOk_remove (·.ac) _ _ path fi h.ac h.nodup hg
  · exact counterOk_remove (·.pc) _ _ path fi h.pc h.nodup hg
  · exact counterOk_remove (·.cc) _ _ path fi h.cc h.nodup hg
  · exact counterOk_remove (·.tc) _ _ path fi h.tc h.nodup hg
  · exact counterOk_remove dateCounts _ _ path fi h.dc h.nodup hg
  · refine ⟨?_, tvCanon_tvSubAll _ _ h.tvc.canon, nodup_tvSubAll _ _ h.tvc.nodup⟩
    intro t v
    show tvCnt (tvSubAll idx.tvc fi.c.tvc) t v = _
    rw [tvCnt_tvSubAll, h.tvc.sum t v, hfiles,
      total_perm _ _ _ (contribsOf_perm idx.files path fi h.nodup hg) v, total_cons, tvFlat_eq]
    omega
  · refine ⟨?_, txRemove_nonempty _ _ _ h.txs.nonempty, nodup_txRemove _ _ _ h.txs.nodup⟩
    intro key
    show ((txRemove idx.txs path fi.entries).getD key []).Perm _
    rw [getD_txRemove, hfiles]
    -- entries of the removed file carry its path, the others do not
    have hfile : ∀ x ∈ fi.entries, x.file = path := by
      intro x hx
      rw [hwf.1] at hx
      simp only [mkFileIdx, List.mem_map] at hx
      obtain ⟨kd, _, rfl⟩ := hx; rfl
    have hother : ∀ x ∈ entriesOfFiles (idx.files.erase path), x.file ≠ path := by
      intro x hx
      simp only [entriesOfFiles, List.mem_flatMap] at hx
      obtain ⟨e, he, hxe⟩ := hx
      have hge : (idx.files.erase path).get e.1 = some e.2 := mem_get_of_nodup _ e.1 e.2 hnd' he
      have hne : e.1 ≠ path := ((mem_keys_erase idx.files path e.1).mp
        ((mem_keys_iff _ _).mpr (by rw [hge]; rfl))).1
      rw [get_erase] at hge
      have hne' : ¬ path = e.1 := fun h => hne h.symm
      simp only [hne', if_false] at hge
      rw [(h.wf e.1 e.2 hge).1] at hxe
      simp only [mkFileIdx, List.mem_map] at hxe
      obtain ⟨kd, _, rfl⟩ := hxe
      exact hne
    have hall : (entriesOfFiles idx.files).Perm (fi.entries ++ entriesOfFiles (idx.files.erase path)) := by
      have := hperm.flatMap_right (fun e => e.2.entries)
      simpa [entriesOfFiles] using this
    have hp := h.txs.perm key
    have hp2 := hp.trans (hall.filter _)
    rw [List.filter_append] at hp2
    split
    · -- the key occurs in the removed file: entries filtered by path
      have hp3 := hp2.filter (fun x => x.file ≠ path)
      rw [List.filter_append] at hp3
      have e1 : (fi.entries.filter fun e => e.key = key).filter (fun x => x.file ≠ path) = [] := by
        rw [List.filter_eq_nil_iff]
        intro x hx
        have := hfile x (List.mem_filter.mp hx).1
        simp [this]
      have e2 : ((entriesOfFiles (idx.files.erase path)).filter fun e => e.key = key).filter
          (fun x => x.file ≠ path) = (entriesOfFiles (idx.files.erase path)).filter fun e => e.key = key := by
        rw [List.filter_eq_self]
        intro x hx
        have := hother x (List.mem_filter.mp hx).1
        simp [this]
      rw [e1, e2] at hp3
      simpa using hp3
    · rename_i hk
      have e1 : (fi.entries.filter fun e => e.key = key) = [] := by
        rw [List.filter_eq_nil_iff]
        intro x hx
        simp only [decide_eq_true_eq]
        intro hkey
        exact hk (List.mem_map.mpr ⟨x, hx, hkey⟩)
      rw [e1] at hp2
      simpa using hp2
  · refine ⟨?_, ?_, ?_, nodup_ptRemove _ _ _ _ h.pts.nodup⟩
    rotate_left 2
    · -- repaired code: the stored template is the minimal file's
      intro hfix p
      change (ptRemove fixT (idx.files.erase path) idx.pts fi.c.pts).get p = _
      rw [get_ptRemove, hfiles]
      by_cases hk : p ∈ fi.c.pts.keys
      · simp [hk, hfix]
      · simp only [hk, if_false]
        rw [h.pts.exact hfix p]
        have hcongr : ∀ f fi', (idx.files.get f = some fi' ∧ (fi'.c.pts.get p).isSome) ↔
            ((idx.files.erase path).get f = some fi' ∧ (fi'.c.pts.get p).isSome) := by
          intro f fi'
          rw [get_erase]
          constructor
          · rintro ⟨h1, h2⟩
            by_cases e : path = f
            · subst e
              rw [hg] at h1
              simp only [Option.some.injEq] at h1
              subst h1
              exact absurd ((mem_keys_iff _ _).mpr h2) hk
            · simp [e, h1, h2]
          · rintro ⟨h1, h2⟩
            by_cases e : path = f
            · simp [e] at h1
            · simp only [e, if_false] at h1; exact ⟨h1, h2⟩
        cases e1 : ptRestoreVal idx.files p with
        | some t =>
          exact ((ptRestoreVal_iff _ hnd' p t).mpr
            ((isMinTemplate_congr _ _ p hcongr t).mp ((ptRestoreVal_iff _ h.nodup p t).mp e1))).symm
        | none =>
          cases e2 : ptRestoreVal (idx.files.erase path) p with
          | none => rfl
          | some t =>
            have := (ptRestoreVal_iff _ h.nodup p t).mpr
              ((isMinTemplate_congr _ _ p hcongr t).mpr ((ptRestoreVal_iff _ hnd' p t).mp e2))
            rw [e1] at this; simp at this
    · intro p t hgp
      change (ptRemove fixT (idx.files.erase path) idx.pts fi.c.pts).get p = some t at hgp
      rw [get_ptRemove] at hgp
      rw [hfiles]
      by_cases hk : p ∈ fi.c.pts.keys
      · simp only [hk, if_true] at hgp
        cases fixT with
        | true => simp only [if_true] at hgp; exact ptRestoreVal_sound _ hnd' p t hgp
        | false => simp at hgp
      · simp only [hk, if_false] at hgp
        obtain ⟨f, fi', hf, hfi⟩ := h.pts.sound p t hgp
        refine ⟨f, fi', ?_, hfi⟩
        rw [get_erase]
        by_cases e : path = f
        · subst e
          rw [hg] at hf
          simp only [Option.some.injEq] at hf
          subst hf
          exact absurd ((mem_keys_iff _ _).mpr (by rw [hfi]; rfl)) hk
        · simp [e, hf]
    · intro hfix f fi' p hgf hp
      change ((ptRemove fixT (idx.files.erase path) idx.pts fi.c.pts).get p).isSome
      rw [get_ptRemove]
      rw [hfiles] at hgf
      by_cases hk : p ∈ fi.c.pts.keys
      · simp only [hk, if_true, hfix]
        exact ptRestoreVal_complete _ hnd' p f fi' hgf hp
      · simp only [hk, if_false]
        rw [get_erase] at hgf
        by_cases e : path = f
        · simp [e] at hgf
        · simp only [e, if_false] at hgf
          exact h.pts.complete hfix f fi' p hgf hp

theorem idxInv_removeFile (fixT : Bool) (idx : WIndex) (path : String) (h : IdxInv fixT idx) :
    IdxInv fixT (removeFile fixT idx path) := by
  unfold removeFile
  cases e : idx.files.get path with
  | none => exact h
  | some fi => exact idxInv_remove fixT idx path fi h e

theorem files_removeFile (fixT : Bool) (idx : WIndex) (path : String) :
    (removeFile fixT idx path).files = idx.files.erase path := by
  unfold removeFile
  cases e : idx.files.get path with
  | none => simp only; exact (erase_of_not_mem _ _ ((get_eq_none_iff _ _).mp e)).symm
  | some fi => rfl

theorem files_setFileIndex (fixT : Bool) (idx : WIndex) (path : String) (fi : FileIdx)
    (hp : path ≠ "") : (setFileIndex fixT idx path fi).files = (idx.files.erase path).set path fi := by
  unfold setFileIndex
  simp only [hp, if_false]
  cases e : idx.files.get path with
  | none =>
    simp only [addFileIndex, refreshDerived]
    rw [erase_of_not_mem _ _ ((get_eq_none_iff _ _).mp e)]
  | some old => rfl

theorem get_files_setFileIndex (fixT : Bool) (idx : WIndex) (path : String) (fi : FileIdx)
    (hp : path ≠ "") (p : String) :
    (setFileIndex fixT idx path fi).files.get p = if path = p then some fi else idx.files.get p := by
  rw [files_setFileIndex fixT idx path fi hp, get_set, get_erase]
  by_cases e : path = p <;> simp [e]

theorem idxInv_setFileIndex (fixT : Bool) (idx : WIndex) (path : String) (c : Contrib)
    (h : IdxInv fixT idx) (hc : contribOk c = true) :
    IdxInv fixT (setFileIndex fixT idx path (mkFileIdx path c)) := by
  unfold setFileIndex
  by_cases hp : path = ""
  · simp [hp, h]
  · simp only [hp, if_false]
    cases e : idx.files.get path with
    | none => exact idxInv_add fixT idx path c h e hc
    | some old =>
      simp only
      apply idxInv_add fixT _ path c (idxInv_remove fixT idx path old h e) _ hc
      show (idx.files.erase path).get path = none
      exact get_erase_self _ _

end HL.Lemmas.Index
