/-
  `UpdateFile` preserves the full workspace invariant `WInv` (index is the sum of its
  files, graphs exact, indexed = reachable ∩ existing, resolved journal and caches
  coherent), whether the disk already holds the new text (didSave) or still the old one
  (didChange); so do the getters.
-/
import HL.Lemmas.Refresh
namespace HL.Lemmas.Update
open HL.Index HL.Workspace HL.Lemmas.AList HL.Lemmas.ReachIdx HL.Lemmas.Edges HL.Lemmas.Index
open HL.Lemmas.WsInv HL.Lemmas.Refresh HL.Spec.Rebuild

structure WInv (cfg : Cfg) (fs : FS) (w : WS) : Prop where
  pinv : PInv cfg fs w
  closed : Closed fs w
  cache : CacheOk w

theorem cacheOk_of_none (w : WS) (h : CachesNone w) : CacheOk w := by
  obtain ⟨h1, h2, h3⟩ := h
  exact ⟨fun f hf => by rw [h1] at hf; simp at hf, fun f hf => by rw [h2] at hf; simp at hf,
    fun f hf => by rw [h3] at hf; simp at hf⟩

/-- every node other than the root is entered through an edge from a different node -/
theorem reach_pred {s : String → List String} {root x : String} (h : ReachS s root x)
    (hx : x ≠ root) : ∃ u, u ≠ x ∧ ReachS s root u ∧ x ∈ s u := by
  induction h with
  | base => exact absurd rfl hx
  | @step u v hu hq ih =>
    by_cases e : u = v
    · subst e; exact ih hx
    · exact ⟨u, e, hu, hq⟩

/-- under the invariant, reachability in the directory is reachability in the index graph -/
theorem reach_fs_to_G (cfg : Cfg) (fs : FS) (w : WS) (h : WInv cfg fs w) (x : String)
    (hx : Reach fs w.root x) : ReachS (succG w.incG) w.root x := by
  induction hx with
  | base => exact .base
  | @step u v hu hq ih =>
    by_cases e : v = u
    · exact e ▸ ih
    · have hex : (fs.get u).isSome := by
        cases e2 : fs.get u with
        | some _ => rfl
        | none => simp [succs, e2] at hq
      have hiu := (h.closed u).mpr ⟨hu, hex⟩
      obtain ⟨fi, hfi⟩ := Option.isSome_iff_exists.mp hiu
      obtain ⟨c, hc, hfic⟩ := h.pinv.g.fresh u fi hfi
      refine .step ih ?_
      unfold succG
      rw [h.pinv.g.incOk u, includesOf_eq w u fi hfi, hfic]
      exact (mem_resolveIncl u c.incs v).mpr ⟨by simpa [succs, hc] using hq, e⟩

/-- a path accepted by `isWorkspaceFileLocked` is reachable from the root -/
theorem accepted_reach (cfg : Cfg) (fs : FS) (w : WS) (h : WInv cfg fs w) (p : String)
    (hacc : isWorkspaceFile w p = true) : Reach fs w.root p := by
  simp only [isWorkspaceFile, Bool.or_eq_true, decide_eq_true_eq, Bool.not_eq_true',
    List.isEmpty_eq_false_iff] at hacc
  rcases hacc with (hacc | hacc) | hacc
  · exact hacc ▸ .base
  · exact ((h.closed p).mp hacc).1
  · obtain ⟨u, hu⟩ := List.exists_mem_of_ne_nil _ hacc
    have hinc := ((h.pinv.g.revOk p u).mp hu).2
    obtain ⟨c, hfi, hc, hpc, _⟩ := mem_includesOf cfg fs w NoDead h.pinv.g u p hinc
    have hur := ((h.closed u).mp (by rw [hfi]; rfl)).1
    exact .step hur (by simp [succs, hc, hpc])

theorem rejected_unreachable (cfg : Cfg) (fs : FS) (w : WS) (h : WInv cfg fs w) (p : String)
    (hrej : isWorkspaceFile w p = false) : ¬ Reach fs w.root p := by
  simp only [isWorkspaceFile, Bool.or_eq_false_iff, decide_eq_false_iff_not, Bool.not_eq_false',
    List.isEmpty_iff] at hrej
  obtain ⟨⟨h1, _⟩, h3⟩ := hrej
  intro hr
  obtain ⟨u, hne, hur, hpu⟩ := reach_pred hr h1
  have hex : (fs.get u).isSome := by
    cases e2 : fs.get u with
    | some _ => rfl
    | none => simp [succs, e2] at hpu
  have hiu := (h.closed u).mpr ⟨hur, hex⟩
  obtain ⟨fi, hfi⟩ := Option.isSome_iff_exists.mp hiu
  obtain ⟨c, hc, hfic⟩ := h.pinv.g.fresh u fi hfi
  have : p ∈ includesOf w u := by
    rw [includesOf_eq w u fi hfi, hfic]
    exact (mem_resolveIncl u c.incs p).mpr ⟨by simpa [succs, hc] using hpu, fun e => hne e.symm⟩
  have := (h.pinv.g.revOk p u).mpr ⟨by simp [NoDead], this⟩
  rw [h3] at this; simp at this

/-! ### fields untouched by clearCaches -/

theorem pinv_clearCaches (cfg : Cfg) (fs : FS) (w : WS) (h : PInv cfg fs w) :
    PInv cfg fs (clearCaches w) :=
  ⟨h.root_ne, h.rootIdx, ⟨h.g.idx, h.g.fresh, h.g.incOk, h.g.revOk⟩,
   ⟨h.r.has, h.r.primary, h.r.rfiles, h.r.order⟩⟩

/-! ### UpdateFile -/

theorem updateFile_eq (cfg : Cfg) (fs : FS) (w : WS) (path : String) (c : Contrib) :
    updateFile cfg fs w path c =
      if path = "" then w else
      if w.root = "" then w else
      if !isWorkspaceFile w path then w else
      if includesOf w path ≠ (mkFileIdx path c).includes then
        refreshIncludeTree cfg fs
          (clearCaches (updateResolved (putFile cfg w path c (includesOf w path)) path c))
      else clearCaches (updateResolved (putFile cfg w path c (includesOf w path)) path c) := rfl

theorem updateFile_ok (cfg : Cfg) (fs0 fsd fsr : FS) (w : WS) (p : String)
    (c : Contrib) (h : WInv cfg fs0 w) (hok : fsOk fsd = true)
    (hp : fsd.get p = some c) (hfsd : ∀ y, y ≠ p → fsd.get y = fs0.get y)
    (hfsr : ∀ y, y ≠ p → fsr.get y = fsd.get y) :
    WInv cfg fsd (updateFile cfg fsr w p c) ∧ (updateFile cfg fsr w p c).root = w.root := by
  obtain ⟨hpne, hcok⟩ := fsOk_get fsd hok p c hp
  rw [updateFile_eq]
  simp only [hpne, if_false, h.pinv.root_ne]
  cases hacc : isWorkspaceFile w p with
  | false =>
    simp only [Bool.not_false, if_true]
    refine ⟨?_, by first | rfl | trivial⟩
    have hunr := rejected_unreachable cfg fs0 w h p hacc
    have hnidx : w.idx.files.get p = none := by
      simp only [isWorkspaceFile, Bool.or_eq_false_iff, decide_eq_false_iff_not] at hacc
      cases e : w.idx.files.get p with
      | none => rfl
      | some _ => simp [e] at hacc
    have hproot : p ≠ w.root := by
      simp only [isWorkspaceFile, Bool.or_eq_false_iff, decide_eq_false_iff_not] at hacc
      exact hacc.1.1
    have hidxne : ∀ y, (w.idx.files.get y).isSome → y ≠ p := by
      intro y hy e; rw [e, hnidx] at hy; simp at hy
    have hreach : ∀ x, Reach fsd w.root x ↔ Reach fs0 w.root x := by
      intro x
      constructor
      · intro hx
        induction hx with
        | base => exact .base
        | @step u v _ hq ih =>
          have hup : u ≠ p := fun e => hunr (e ▸ ih)
          refine .step ih ?_
          simpa [succs, hfsd u hup] using hq
      · intro hx
        apply reachS_drop_unreachable (t := p) _ hunr hx
        intro u hu
        simp [succs, hfsd u hu]
    refine ⟨⟨h.pinv.root_ne, h.pinv.rootIdx, ⟨h.pinv.g.idx, ?_, h.pinv.g.incOk, h.pinv.g.revOk⟩,
      ⟨h.pinv.r.has, ?_, ?_, h.pinv.r.order⟩⟩, ?_, h.cache⟩
    · intro y fi hy
      obtain ⟨c', h1, h2⟩ := h.pinv.g.fresh y fi hy
      exact ⟨c', by rw [hfsd y (hidxne y (by rw [hy]; rfl))]; exact h1, h2⟩
    · rw [h.pinv.r.primary, hfsd w.root (fun e => hproot e.symm)]
    · intro y
      rw [h.pinv.r.rfiles y]
      by_cases e1 : y = w.root
      · simp [e1]
      · by_cases e2 : (w.idx.files.get y).isSome
        · simp [e1, e2, hfsd y (hidxne y e2)]
        · simp [e1, e2]
    · intro y
      rw [h.closed y, hreach y]
      by_cases e : y = p
      · subst e
        exact ⟨fun h1 => absurd h1.1 hunr, fun h1 => absurd h1.1 hunr⟩
      · rw [hfsd y e]
  | true =>
    simp only [Bool.not_true, Bool.false_eq_true, if_false]
    -- the state after SetFileIndex, updateIncludeEdges, updateResolved, clearCaches
    generalize hw4' : clearCaches (updateResolved (putFile cfg w p c (includesOf w p)) p c) = w4
    have hput := putFile_ginv cfg fs0 fsd w p c h.pinv.g hpne hcok hp hfsd
    obtain ⟨f1, f2, f3, f4, _, _⟩ := updateResolved_fields (putFile cfg w p c (includesOf w p)) p c
    obtain ⟨p1, _, p3, p4, p5, _⟩ := putFile_other cfg w p c (includesOf w p)
    have hfiles : ∀ y, w4.idx.files.get y = if p = y then some (mkFileIdx p c) else w.idx.files.get y := by
      intro y
      rw [← hw4']
      show (updateResolved (putFile cfg w p c (includesOf w p)) p c).idx.files.get y = _
      rw [f2]; exact files_putFile cfg w p c _ hpne y
    have hroot4 : w4.root = w.root := by rw [← hw4']; exact f1.trans p1
    have hpinv4 : PInv cfg fsd w4 := by
      rw [← hw4']
      apply pinv_clearCaches
      refine ⟨by rw [f1, p1]; exact h.pinv.root_ne, ?_, updateResolved_ginv cfg fsd _ NoDead p c hput,
        updateResolved_rinv fs0 fsd w _ p c h.pinv.r p1 ⟨p3, p4, p5⟩
          (fun y => files_putFile cfg w p c _ hpne y) hp hfsd⟩
      rw [f2, f1, p1, files_putFile cfg w p c _ hpne]
      by_cases e : p = w.root
      · simp [e]
      · simp only [e, if_false]; exact h.pinv.rootIdx
    have hnone4 : CachesNone w4 := by rw [← hw4']; exact ⟨rfl, rfl, rfl⟩
    have hsucc4 : ∀ u, u ≠ p → succG w.incG u = succG w4.incG u := by
      intro u hu
      rw [← hw4']
      show _ = succG (updateResolved (putFile cfg w p c (includesOf w p)) p c).incG u
      rw [f3, succG_putFile]
      simp [Ne.symm hu]
    have hpreach0 : Reach fs0 w.root p := accepted_reach cfg fs0 w h p hacc
    have hincs4 : includesOf w4 p = (mkFileIdx p c).includes := by
      unfold includesOf; rw [hfiles p]; simp
    by_cases hsame : includesOf w p = (mkFileIdx p c).includes
    · -- include list unchanged: no refresh
      simp only [hsame, ne_eq, not_true_eq_false, if_false]
      refine ⟨⟨hpinv4, ?_, cacheOk_of_none w4 hnone4⟩, hroot4⟩
      -- the old and the new text of p have the same include targets (up to p itself)
      have hold0 : resolveIncl p (succs fs0 p) = includesOf w p := by
        cases e : w.idx.files.get p with
        | some fi =>
          obtain ⟨c0, hc0, hfi0⟩ := h.pinv.g.fresh p fi e
          rw [includesOf_eq w p fi e, hfi0]
          simp [succs, hc0, mkFileIdx]
        | none =>
          have : fs0.get p = none := by
            cases e2 : fs0.get p with
            | none => rfl
            | some _ =>
              have := (h.closed p).mpr ⟨hpreach0, by rw [e2]; rfl⟩
              rw [e] at this; simp at this
          rw [includesOf_none w p e]
          simp [succs, this, resolveIncl, dedup, isort]
      have hedge : ∀ u v, v ≠ u → (v ∈ succs fs0 u ↔ v ∈ succs fsd u) := by
        intro u v hvu
        by_cases e : u = p
        · subst e
          have e1 := mem_resolveIncl u (succs fs0 u) v
          have e2 := mem_resolveIncl u (succs fsd u) v
          have e3 : resolveIncl u (succs fsd u) = resolveIncl u (succs fs0 u) := by
            rw [hold0, hsame]; simp [succs, hp, mkFileIdx]
          rw [e3] at e2
          constructor
          · intro hv; exact (e2.mp (e1.mpr ⟨hv, hvu⟩)).1
          · intro hv; exact (e1.mp (e2.mpr ⟨hv, hvu⟩)).1
        · simp [succs, hfsd u e]
      have hreach : ∀ x, Reach fsd w.root x ↔ Reach fs0 w.root x := by
        intro x
        exact ⟨fun hx => reachS_mod_self (fun u v hvu hv => (hedge u v hvu).mpr hv) hx,
               fun hx => reachS_mod_self (fun u v hvu hv => (hedge u v hvu).mp hv) hx⟩
      intro y
      rw [hroot4, hfiles y, hreach y]
      by_cases e : p = y
      · subst e
        simp only [if_true, Option.isSome_some, true_iff]
        exact ⟨hpreach0, by rw [hp]; rfl⟩
      · simp only [e, if_false]
        rw [h.closed y, hfsd y (fun h => e h.symm)]
    · -- include list changed: refreshIncludeTreeLocked
      simp only [hsame, ne_eq, not_false_eq_true, if_true]
      have hag : Agree fsr fsd w4 := by
        intro q hq
        rw [hfiles q] at hq
        by_cases e : p = q
        · simp [e] at hq
        · exact hfsr q (fun h => e h.symm)
      have hkeep : Keep fsr fsd w4 := by
        intro q hq
        have hqp : q = p := by
          apply Classical.byContradiction
          intro hne; exact hq (hfsr q hne)
        subst hqp
        rw [hroot4]
        exact reachS_target_indep hsucc4 (reach_fs_to_G cfg fs0 w h q hpreach0)
      have := refresh_ok cfg fsr fsd w4 hok hpinv4 hnone4 hag hkeep
      exact ⟨⟨this.pinv, this.closed, cacheOk_of_none _ this.none⟩, this.root.trans hroot4⟩

/-! ### the getters -/

def newF (w : WS) : Option (AList String) := match w.cFormats with
  | some f => some f
  | none => if !w.hasResolved then none else some (computeFormats w)
def newC (w : WS) : Option (List String) := match w.cComms with
  | some f => some f
  | none => if !w.hasResolved then none else some (computeComms w)
def newA (w : WS) : Option (List String) := match w.cAccts with
  | some f => some f
  | none => if !w.hasResolved then none else some (computeAccts w)

theorem observe_snd (w : WS) :
    (observe w).2 = { w with cFormats := newF w, cComms := newC w, cAccts := newA w } := by
  obtain ⟨root, idx, incG, revG, hasResolved, primary, rfiles, order, cFormats, cComms, cAccts⟩ := w
  cases cFormats <;> cases cComms <;> cases cAccts <;> cases hasResolved <;> rfl

theorem observe_fst (w : WS) :
    (observe w).1 = { members := isort w.idx.files.keys, idx := w.idx, formats := newF w,
                      comms := newC w, accts := newA w } := by
  obtain ⟨root, idx, incG, revG, hasResolved, primary, rfiles, order, cFormats, cComms, cAccts⟩ := w
  cases cFormats <;> cases cComms <;> cases cAccts <;> cases hasResolved <;> rfl

theorem observe_winv (cfg : Cfg) (fs : FS) (w : WS) (h : WInv cfg fs w) :
    WInv cfg fs (observe w).2 := by
  rw [observe_snd]
  refine ⟨⟨h.pinv.root_ne, h.pinv.rootIdx,
    ⟨h.pinv.g.idx, h.pinv.g.fresh, h.pinv.g.incOk, h.pinv.g.revOk⟩,
    ⟨h.pinv.r.has, h.pinv.r.primary, h.pinv.r.rfiles, h.pinv.r.order⟩⟩, h.closed, ?_⟩
  obtain ⟨c1, c2, c3⟩ := h.cache
  have hres := h.pinv.r.has
  refine ⟨?_, ?_, ?_⟩
  · intro f hf
    show f = computeFormats w
    change newF w = some f at hf
    unfold newF at hf
    cases e : w.cFormats with
    | some f1 => rw [e] at hf; simp only [Option.some.injEq] at hf; exact hf ▸ c1 f1 e
    | none => rw [e] at hf; simp only [hres, Bool.not_true, Bool.false_eq_true, if_false, Option.some.injEq] at hf; exact hf.symm
  · intro f hf
    show f = computeComms w
    change newC w = some f at hf
    unfold newC at hf
    cases e : w.cComms with
    | some f1 => rw [e] at hf; simp only [Option.some.injEq] at hf; exact hf ▸ c2 f1 e
    | none => rw [e] at hf; simp only [hres, Bool.not_true, Bool.false_eq_true, if_false, Option.some.injEq] at hf; exact hf.symm
  · intro f hf
    show f = computeAccts w
    change newA w = some f at hf
    unfold newA at hf
    cases e : w.cAccts with
    | some f1 => rw [e] at hf; simp only [Option.some.injEq] at hf; exact hf ▸ c3 f1 e
    | none => rw [e] at hf; simp only [hres, Bool.not_true, Bool.false_eq_true, if_false, Option.some.injEq] at hf; exact hf.symm

end HL.Lemmas.Update
