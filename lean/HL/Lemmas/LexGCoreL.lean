import HL.Lemmas.LexGCoreP
import HL.Spec.GCoreLayout
/-!
  The lexer model on `GCore` journals printed under an arbitrary layout (`GCore.printL`,
  HL/Spec/GCoreLayout.lean): any indent of at least one blank, any gap of at least two blanks in
  front of each amount.  Layout-general versions of `lex_amount`, `lex_posting_line`,
  `lex_postings`, `lex_tx`, `lex_journal`, `lexAll_print` of HL/Lemmas/LexGCoreP.lean; the
  header line, the empty line and the single-token lemmas are taken from there unchanged (the
  extent lemmas of layer L3 are stated for lexemes and blank runs of every length).
-/
namespace HL.GCore
open HL HL.Lex

local notation "LF" => (0x0A : UInt8)

/-! ### the tokens, spelled out -/

def Posting.toksL (L : Layout) (p : Posting) (ln o : Nat) : List Token :=
  tokP .indent (blanks L.indent) ln o 0 :: tokP .account p.acct ln o L.indent ::
  ((match p.amount with | none => [] | some a => a.toks ln o (L.indent + p.acct.length + L.gap p)) ++
   [nlP ln o (p.printL L).length])

def postingsToksL (L : Layout) : List Posting → Nat → Nat → List Token
  | [], _, _ => []
  | p :: ps, ln, o => p.toksL L ln o ++ postingsToksL L ps (ln + 1) (o + (p.printL L).length + 1)

def Tx.toksL (L : Layout) (t : Tx) (ln o : Nat) : List Token :=
  t.headerToks ln o ++ postingsToksL L t.postings (ln + 1) (o + t.header.length + 1)

/-- the whole stream of `printL L j` lexed from line `ln`, offset `o` -/
def toksFromL (L : Layout) : List Tx → Nat → Nat → List Token
  | [], ln, o => [eofP ln o]
  | [t], ln, o => t.toksL L ln o ++ [eofP (ln + 1 + t.postings.length) (o + (t.printL L).length)]
  | t :: t2 :: ts, ln, o =>
    t.toksL L ln o ++ nlP (ln + 1 + t.postings.length) (o + (t.printL L).length) 0 ::
      toksFromL L (t2 :: ts) (ln + t.postings.length + 2) (o + (t.printL L).length + 1)

theorem blanks_length (n : Nat) : (blanks n).length = n := by simp [blanks]
theorem mem_blanks {n : Nat} {c : UInt8} (h : c ∈ blanks n) : c = 0x20 := by
  simp only [blanks, List.mem_replicate] at h; exact h.2

/-- **An amount** behind any run of blanks. -/
theorem lex_amountL (C : Classes) (hC : ClassesOk C = true) {z : Z} (hc : z.col = 1) {a : Amount}
    (h : a.wf = true) (p sp rest : Bytes) (hsp : ∀ c ∈ sp, c = 0x20) :
    lexS C (z.started.over p (sp ++ (a.print ++ LF :: rest))) =
      a.toks z.line z.before.length (p.length + sp.length) ++
        lexS C (z.started.over (p ++ sp ++ a.print) (LF :: rest)) := by
  obtain ⟨_, _, hcw⟩ := Amount.wf_spec h
  obtain ⟨⟨d, t, hnt, hd⟩, _⟩ := numText_spec h
  have tail : ∀ q : Bytes,
      lexS C (z.started.over q (a.comText ++ LF :: rest)) =
        (match a.com with | none => [] | some w => [tokP .commodity w z.line z.before.length (q.length + 1)]) ++
          lexS C (z.started.over (q ++ a.comText) (LF :: rest)) := by
    intro q
    cases hcom : a.com with
    | none => simp [Amount.comText, hcom]
    | some w =>
      obtain ⟨hw, hwu⟩ := hcw w hcom
      simp only [Amount.comText, hcom, List.cons_append]
      rw [lexS_step C (next_commodity C hC hc hw hwu q rest) (by simp [tokP])]
      simp
  have fin : ∀ (n m : Nat) (x y : Bytes), n = m → x = y →
      (match a.com with | none => [] | some w => [tokP .commodity w z.line z.before.length n]) ++
          lexS C (z.started.over x (LF :: rest)) =
      (match a.com with | none => [] | some w => [tokP .commodity w z.line z.before.length m]) ++
          lexS C (z.started.over y (LF :: rest)) := by
    intro n m x y h1 h2; rw [h1, h2]
  cases hneg : a.neg with
  | false =>
    have e : (sp ++ (a.print ++ LF :: rest) : Bytes) =
        sp ++ (a.numText ++ (a.comText ++ LF :: rest)) := by
      simp [Amount.print, Amount.signText, hneg]
    rw [e, lexS_step C (next_number C hc h p sp rest hsp) (by simp [tokP]), tail]
    simp only [Amount.toks, hneg, Bool.false_eq_true, if_false, List.nil_append, List.cons_append,
      Amount.signText, List.length_nil, Nat.add_zero, List.cons.injEq, true_and]
    exact fin _ _ _ _ (by simp; omega) (by simp [Amount.print, Amount.signText, hneg])
  | true =>
    have e : (sp ++ (a.print ++ LF :: rest) : Bytes) =
        sp ++ ([0x2D] ++ (a.numText ++ (a.comText ++ LF :: rest))) := by
      simp [Amount.print, Amount.signText, hneg]
    have hs := next_cur C hc (p := p) (sp := sp) (v := [0x2D])
      (rest := a.numText ++ (a.comText ++ LF :: rest)) (ty := .sign) hsp
      (Stops.cons _ (by decide))
      (by
        intro Z hZ
        have hZ' : Z.after = 0x2D :: d :: (t ++ (a.comText ++ LF :: rest)) := by rw [hZ, hnt]; simp
        have := scanInLineAt_minus C hZ' hd
        rw [this]; simp [hnt])
    rw [e, lexS_step C hs (by simp [tokP])]
    have hn := next_number C hc h (p ++ sp ++ [0x2D]) [] rest (by simp)
    simp only [List.nil_append] at hn
    rw [lexS_step C hn (by simp [tokP]), tail]
    simp only [Amount.toks, hneg, if_true, List.cons_append, List.nil_append,
      Amount.signText, List.length_nil, Nat.add_zero, List.length_cons, List.cons.injEq, true_and,
      List.length_append]
    exact fin _ _ _ _ (by simp) (by simp [Amount.print, Amount.signText, hneg])

/-- **A posting line** under layout `L`: `' '{indent} account [ ' '{gap} amount ] LF`. -/
theorem lex_posting_lineL (C : Classes) (hC : ClassesOk C = true) (L : Layout) (hL : L.ok) {z : Z} (hz : LS z)
    (p : Posting) (hp : p.wf = true) {rest : Bytes} (ha : z.after = p.printL L ++ LF :: rest) :
    lexS C z = p.toksL L z.line z.before.length ++ lexS C (jump z (p.printL L ++ [LF]) rest 1) := by
  obtain ⟨⟨c0, t0, hacct, hc0⟩, hab, hcolon, hamt⟩ := Posting.wf_spec hp
  have ha1 : z.after = blanks L.indent ++ (p.acct ++ (p.amtTextL L ++ LF :: rest)) := by
    rw [ha]; simp [Posting.printL]
  have lb := letter_bytes c0
  simp only [hc0, Bool.not_true, Bool.false_or, Bool.and_eq_true, Bool.not_eq_true'] at lb
  -- the indent
  have hine : blanks L.indent ≠ [] := by
    intro h; have := congrArg List.length h; simp [blanks_length] at this; have := hL.1; omega
  have h1 := next_indent C hz.1 hz.2 ha1 hine (by intro c hc; rw [mem_blanks hc]; decide)
    (by rw [hacct]; exact StopsL.cons _ lb.1)
  have e1 : tokAt .indent (blanks L.indent) z (blanks L.indent).length =
      tokP .indent (blanks L.indent) z.line z.before.length 0 := by
    simp [tokAt, tokP, Z.position, hz.2, Nat.add_comm]
  rw [lexS_step C h1 (by simp [tokAt]), e1]
  -- the account
  have hstopA : AcctStop (p.amtTextL L ++ LF :: rest) := by
    cases hamtv : p.amount with
    | none =>
      simp only [Posting.amtTextL, hamtv, List.nil_append]
      exact Or.inr (Or.inl ⟨LF, rest, rfl, by decide, by decide⟩)
    | some a =>
      simp only [Posting.amtTextL, hamtv]
      obtain ⟨g, hg⟩ : ∃ g, L.gap p = g + 2 := ⟨L.gap p - 2, by have := hL.2 p; omega⟩
      rw [hg]
      exact Or.inr (Or.inr ⟨blanks g ++ a.print ++ LF :: rest, by simp [blanks, List.replicate_succ]⟩)
  have h2 := next_cur C hz.2 (p := blanks L.indent) (sp := []) (v := p.acct)
    (rest := p.amtTextL L ++ LF :: rest) (ty := .account) (by simp)
    (by rw [hacct]; exact Stops.cons _ lb.2)
    (fun Z hZ => scanInLineAt_account C hZ ⟨c0, t0, hacct, hc0⟩ hab hcolon hstopA)
  simp only [List.nil_append, List.append_nil, List.length_nil, Nat.add_zero, blanks_length] at h2
  rw [lexS_step C h2 (by simp [tokP])]
  -- the amount and the line feed
  cases hamtv : p.amount with
  | none =>
    have e : p.amtTextL L = [] := by simp [Posting.amtTextL, hamtv]
    have eb : blanks L.indent ++ p.acct = p.printL L := by simp [Posting.printL, e]
    rw [e, List.nil_append, eb, lexS_step C (next_cur_lf C hz.2 (p.printL L) rest) (by simp [nlP])]
    simp [Posting.toksL, hamtv]
  | some a =>
    have e : p.amtTextL L ++ LF :: rest = blanks (L.gap p) ++ (a.print ++ LF :: rest) := by
      simp [Posting.amtTextL, hamtv]
    have eb : blanks L.indent ++ p.acct ++ blanks (L.gap p) ++ a.print = p.printL L := by
      simp [Posting.printL, Posting.amtTextL, hamtv]
    rw [e, lex_amountL C hC hz.2 (hamt a hamtv) _ _ _ (fun c hc => mem_blanks hc), eb,
      lexS_step C (next_cur_lf C hz.2 (p.printL L) rest) (by simp [nlP])]
    simp [Posting.toksL, hamtv, blanks_length]

/-- **All postings of a transaction**, any number of them. -/
theorem lex_postingsL (C : Classes) (hC : ClassesOk C = true) (L : Layout) (hL : L.ok) (ps : List Posting) :
    ∀ {z : Z}, LS z → (∀ p ∈ ps, p.wf = true) → ∀ {rest : Bytes}, z.after = printPostingsL L ps ++ rest →
      lexS C z = postingsToksL L ps z.line z.before.length ++
        lexS C (jump z (printPostingsL L ps) rest ps.length) := by
  induction ps with
  | nil =>
    intro z hz _ rest ha
    simp only [printPostingsL, List.nil_append] at ha
    simp only [postingsToksL, printPostingsL, List.nil_append, List.length_nil]
    rw [← ha, jump_zero z hz]
  | cons p ps ih =>
    intro z hz hwf rest ha
    have ha' : z.after = p.printL L ++ LF :: (printPostingsL L ps ++ rest) := by rw [ha]; simp [printPostingsL]
    rw [lex_posting_lineL C hC L hL hz p (hwf p (by simp)) ha',
      ih (jump_ls _ _ _ _) (fun q hq => hwf q (by simp [hq])) (jump_after _ _ _ _), jump_jump]
    simp only [postingsToksL, jump_line, jump_off, printPostingsL, List.length_append, List.length_cons,
      List.length_nil, List.append_assoc, List.cons_append, List.nil_append]
    rw [show z.before.length + ((p.printL L).length + (0 + 1)) = z.before.length + (p.printL L).length + 1 by omega,
      show 1 + ps.length = ps.length + 1 by omega]

/-- **A whole transaction**: header line and all posting lines. -/
theorem lex_txL (C : Classes) (hC : ClassesOk C = true) (L : Layout) (hL : L.ok) {z : Z} (hz : LS z) (t : Tx)
    (ht : t.wf = true) {rest : Bytes} (ha : z.after = t.printL L ++ rest) :
    lexS C z = t.toksL L z.line z.before.length ++ lexS C (jump z (t.printL L) rest (1 + t.postings.length)) := by
  obtain ⟨hd, hne, hws, hps⟩ := Tx.wf_spec ht
  have ha' : z.after = t.header ++ LF :: (printPostingsL L t.postings ++ rest) := by rw [ha]; simp [Tx.printL]
  rw [lex_header_line C hC hz t hd hne hws ha',
    lex_postingsL C hC L hL t.postings (jump_ls _ _ _ _) hps (jump_after _ _ _ _), jump_jump]
  simp only [Tx.toksL, jump_line, jump_off, List.length_append, List.length_cons, List.length_nil,
    List.append_assoc, Tx.printL, List.cons_append, List.nil_append]
  rw [show z.before.length + (t.header.length + (0 + 1)) = z.before.length + t.header.length + 1 by omega]

/-- **The token stream of a journal printed under `L`**, from any line start. -/
theorem lex_journalL (C : Classes) (hC : ClassesOk C = true) (L : Layout) (hL : L.ok) (j : Journal) :
    ∀ {z : Z}, LS z → WF j = true → z.after = printL L j → lexS C z = toksFromL L j z.line z.before.length := by
  induction j with
  | nil =>
    intro z hz _ ha
    exact lexS_eof C ha hz.2
  | cons t ts ih =>
    intro z hz hwf ha
    simp only [WF, List.all_cons, Bool.and_eq_true] at hwf
    cases ts with
    | nil =>
      have ha' : z.after = t.printL L ++ [] := by simpa [printL] using ha
      rw [lex_txL C hC L hL hz t hwf.1 ha', lexS_eof C (jump_after _ _ _ _) rfl]
      simp only [toksFromL, jump_line, jump_off]
      rw [show z.line + (1 + t.postings.length) = z.line + 1 + t.postings.length by omega]
    | cons t2 ts =>
      have ha' : z.after = t.printL L ++ LF :: printL L (t2 :: ts) := by simpa [printL] using ha
      rw [lex_txL C hC L hL hz t hwf.1 ha', lex_blank_line C (jump_ls _ _ _ _) (jump_after _ _ _ _), jump_jump,
        ih (jump_ls _ _ _ _) hwf.2 (jump_after _ _ _ _)]
      simp only [toksFromL, jump_line, jump_off, List.length_append, List.length_cons, List.length_nil]
      rw [show z.line + (1 + t.postings.length) = z.line + 1 + t.postings.length by omega,
        show z.line + (1 + t.postings.length + 1) = z.line + t.postings.length + 2 by omega,
        show z.before.length + ((t.printL L).length + (0 + 1)) = z.before.length + (t.printL L).length + 1 by omega]

/-- **`lexAll (printL L j)`, exactly.** -/
theorem lexAll_printL (C : Classes) (hC : ClassesOk C = true) (L : Layout) (hL : L.ok) (j : Journal)
    (h : WF j = true) : lexAll C (printL L j) = toksFromL L j 1 0 := by
  rw [lexAll_eq_lexS]
  exact lex_journalL C hC L hL j (z := Z.init (printL L j)) ⟨rfl, rfl⟩ h rfl

end HL.GCore
