/-
  Helper lemmas for HL.Model.MapOrder: sorting a permutation of a map's entries gives one list;
  commutative fold steps; last-writer-wins folds over distinct keys.
-/
import HL.Model.MapOrder

namespace HL.MapOrder
open List

/-! ### the string order -/

theorem strLe_trans (a b c : String) : strLe a b = true → strLe b c = true → strLe a c = true := by
  simp only [strLe, decide_eq_true_eq]; exact String.le_trans

theorem strLe_total (a b : String) : (strLe a b || strLe b a) = true := by
  simp only [strLe, Bool.or_eq_true, decide_eq_true_eq]; exact String.le_total a b

theorem strLe_antisymm {a b : String} : strLe a b = true → strLe b a = true → a = b := by
  simp only [strLe, decide_eq_true_eq]; exact String.le_antisymm

/-- `sort.Strings` of two permutations of the same keys is the same slice. -/
theorem sortStrings_perm {l l' : List String} (h : l.Perm l') : sortStrings l = sortStrings l' := by
  unfold sortStrings
  apply Perm.eq_of_pairwise (le := fun a b => strLe a b = true)
  · intro a b _ _ hab hba; exact strLe_antisymm hab hba
  · exact pairwise_mergeSort strLe_trans strLe_total l
  · exact pairwise_mergeSort strLe_trans strLe_total l'
  · exact (mergeSort_perm l _).trans (h.trans (mergeSort_perm l' _).symm)

/-! ### maps: distinct keys -/

/-- the keys of a map's entries -/
def keys {κ ν : Type} (σ : Entries κ ν) : List κ := σ.map (·.1)

theorem eq_of_fst_eq {κ ν : Type} {σ : Entries κ ν} (nd : (keys σ).Nodup) {a b : κ × ν}
    (ha : a ∈ σ) (hb : b ∈ σ) (h : a.1 = b.1) : a = b := by
  induction σ with
  | nil => cases ha
  | cons x xs ih =>
    simp only [keys, map_cons, nodup_cons, mem_map, not_exists, not_and] at nd
    rcases mem_cons.mp ha with rfl | ha' <;> rcases mem_cons.mp hb with rfl | hb'
    · rfl
    · exact absurd h.symm (nd.1 b hb')
    · exact absurd h (nd.1 a ha')
    · exact ih nd.2 ha' hb'

theorem keys_perm {κ ν : Type} {σ σ' : Entries κ ν} (h : σ.Perm σ') : (keys σ).Perm (keys σ') := h.map _

/-- Visiting a map in sorted key order does not depend on the order the runtime delivered it in. -/
theorem sortedEntries_perm {ν : Type} {σ σ' : Entries String ν} (h : σ.Perm σ') (nd : (keys σ).Nodup) :
    sortedEntries σ = sortedEntries σ' := by
  unfold sortedEntries
  have tr : ∀ a b c : String × ν, strLe a.1 b.1 = true → strLe b.1 c.1 = true → strLe a.1 c.1 = true :=
    fun a b c => strLe_trans a.1 b.1 c.1
  have tot : ∀ a b : String × ν, (strLe a.1 b.1 || strLe b.1 a.1) = true := fun a b => strLe_total a.1 b.1
  apply Perm.eq_of_pairwise (le := fun a b => strLe a.1 b.1 = true)
  · intro a b ha hb hab hba
    have ha' : a ∈ σ := mem_mergeSort.mp ha
    have hb' : b ∈ σ := h.mem_iff.mpr (mem_mergeSort.mp hb)
    exact eq_of_fst_eq nd ha' hb' (strLe_antisymm hab hba)
  · exact pairwise_mergeSort tr tot σ
  · exact pairwise_mergeSort tr tot σ'
  · exact (mergeSort_perm σ _).trans (h.trans (mergeSort_perm σ' _).symm)

/-- A map with at most one entry has only one iteration order. -/
theorem perm_eq_of_length_le_one {α : Type} {l l' : List α} (h : l.Perm l') (hl : l.length ≤ 1) : l = l' := by
  match l, hl with
  | [], _ => exact (perm_nil.mp h.symm).symm ▸ rfl
  | [a], _ => exact (singleton_perm.mp h)

/-! ### commutative steps: counts and sets -/

theorem bump_comm (m : String → Nat) (a b : String × Nat) : bump (bump m a) b = bump (bump m b) a := by
  funext k; simp only [bump]; split <;> split <;> omega

theorem foldl_bump_perm {l l' : Entries String Nat} (h : l.Perm l') (m : String → Nat) :
    l.foldl bump m = l'.foldl bump m :=
  h.foldl_eq' (fun _ _ _ _ z => bump_comm z _ _) m

theorem foldl_bump_comm (l₁ l₂ : Entries String Nat) (m : String → Nat) :
    l₂.foldl bump (l₁.foldl bump m) = l₁.foldl bump (l₂.foldl bump m) := by
  rw [← foldl_append, ← foldl_append]; exact foldl_bump_perm perm_append_comm m

theorem mark_comm (m : String → Bool) (a b : String) : mark (mark m a) b = mark (mark m b) a := by
  funext k; simp only [mark]; split <;> split <;> rfl

theorem foldl_mark_perm {l l' : List String} (h : l.Perm l') (m : String → Bool) :
    l.foldl mark m = l'.foldl mark m :=
  h.foldl_eq' (fun _ _ _ _ z => mark_comm z _ _) m

theorem foldl_mark_comm (l₁ l₂ : List String) (m : String → Bool) :
    l₂.foldl mark (l₁.foldl mark m) = l₁.foldl mark (l₂.foldl mark m) := by
  rw [← foldl_append, ← foldl_append]; exact foldl_mark_perm perm_append_comm m

/-! ### last writer wins over distinct keys -/

theorem putTemplate_comm {τ : Type} (m : String → Option τ) {a b : String × τ} (h : a = b ∨ a.1 ≠ b.1) :
    putTemplate (putTemplate m a) b = putTemplate (putTemplate m b) a := by
  rcases h with rfl | h
  · rfl
  · funext k; simp only [putTemplate]
    by_cases hb : k = b.1 <;> by_cases ha : k = a.1
    · exact absurd (ha.symm.trans hb) h
    · simp [hb]; intro e; exact absurd e.symm h
    · simp [ha]; intro e; exact absurd e h
    · simp [ha, hb]

theorem mergeTemplates_perm {τ : Type} {σ σ' : Entries String τ} (h : σ.Perm σ') (nd : (keys σ).Nodup)
    (m : String → Option τ) : mergeTemplates m σ = mergeTemplates m σ' := by
  unfold mergeTemplates
  refine h.foldl_eq' (fun x hx y hy z => putTemplate_comm z ?_) m
  by_cases hxy : x.1 = y.1
  · exact Or.inl (eq_of_fst_eq nd hx hy hxy)
  · exact Or.inr hxy

theorem mergeTemplates_append {τ : Type} (m : String → Option τ) (a b : Entries String τ) :
    mergeTemplates (mergeTemplates m a) b = mergeTemplates m (a ++ b) := by
  simp [mergeTemplates, foldl_append]

/-- what a merge leaves at key `k`: the last entry for `k`, else what was there -/
theorem mergeTemplates_apply_of_not_mem {τ : Type} (m : String → Option τ) (σ : Entries String τ) (k : String)
    (h : k ∉ keys σ) : mergeTemplates m σ k = m k := by
  induction σ generalizing m with
  | nil => rfl
  | cons x xs ih =>
    simp only [keys, map_cons, mem_cons, not_or] at h
    show mergeTemplates (putTemplate m x) xs k = m k
    rw [ih _ h.2]; simp [putTemplate, h.1]

/-! ### the collectors: as SETS they never depend on the order -/

theorem mem_appendNew {out : List String} {x a : String} : a ∈ appendNew out x ↔ a ∈ out ∨ a = x := by
  unfold appendNew
  split
  · rename_i h
    have hx : x ∈ out := by simpa using h
    constructor
    · exact Or.inl
    · rintro (h | rfl); exact h; exact hx
  · simp

theorem nodup_appendNew {out : List String} {x : String} (nd : out.Nodup) : (appendNew out x).Nodup := by
  unfold appendNew
  split
  · exact nd
  · rename_i h
    have hx : x ∉ out := by simpa using h
    rw [nodup_append]
    exact ⟨nd, by simp, by intro a ha b hb; simp at hb; subst hb; intro e; exact hx (e ▸ ha)⟩

theorem mem_collectInto {out xs : List String} {a : String} : a ∈ collectInto out xs ↔ a ∈ out ∨ a ∈ xs := by
  unfold collectInto
  induction xs generalizing out with
  | nil => simp
  | cons x xs ih =>
    simp only [foldl_cons, ih, mem_appendNew, mem_cons]
    constructor
    · rintro ((h | h) | h)
      · exact Or.inl h
      · exact Or.inr (Or.inl h)
      · exact Or.inr (Or.inr h)
    · rintro (h | h | h)
      · exact Or.inl (Or.inl h)
      · exact Or.inl (Or.inr h)
      · exact Or.inr h

theorem nodup_collectInto {out xs : List String} (nd : out.Nodup) : (collectInto out xs).Nodup := by
  unfold collectInto
  induction xs generalizing out with
  | nil => exact nd
  | cons x xs ih => exact ih (nodup_appendNew nd)

theorem mem_collectFiles {init : List String} {σ : Entries String (List String)} {a : String} :
    a ∈ σ.foldl (fun out f => collectInto out f.2) init ↔ a ∈ init ∨ ∃ f ∈ σ, a ∈ f.2 := by
  induction σ generalizing init with
  | nil => simp
  | cons f fs ih =>
    simp only [foldl_cons, ih, mem_collectInto, mem_cons, exists_eq_or_imp]
    constructor
    · rintro ((h | h) | h)
      · exact Or.inl h
      · exact Or.inr (Or.inl h)
      · exact Or.inr (Or.inr h)
    · rintro (h | h | h)
      · exact Or.inl (Or.inl h)
      · exact Or.inl (Or.inr h)
      · exact Or.inr h

theorem nodup_collectFiles {init : List String} {σ : Entries String (List String)} (nd : init.Nodup) :
    (σ.foldl (fun out f => collectInto out f.2) init).Nodup := by
  induction σ generalizing init with
  | nil => exact nd
  | cons f fs ih => exact ih (nodup_collectInto nd)

/-- Whatever the order of `resolved.Files`, the pinned collectors return the same names — only
    their ORDER in the list can differ. -/
theorem collectFromResolvedIn_perm {σ σ' : Entries String (List String)} (h : σ.Perm σ') (primary : List String) :
    (collectFromResolvedIn primary σ).Perm (collectFromResolvedIn primary σ') := by
  unfold collectFromResolvedIn
  have nd0 : (collectInto [] primary).Nodup := nodup_collectInto (by simp)
  rw [perm_ext_iff_of_nodup (nodup_collectFiles nd0) (nodup_collectFiles nd0)]
  intro a
  simp only [mem_collectFiles]
  constructor <;> rintro (h' | ⟨f, hf, ha⟩)
  · exact Or.inl h'
  · exact Or.inr ⟨f, h.mem_iff.mp hf, ha⟩
  · exact Or.inl h'
  · exact Or.inr ⟨f, h.mem_iff.mpr hf, ha⟩

/-! ### `perms` enumerates every iteration order (the driver's model-set is complete) -/

theorem mem_insertEverywhere {α : Type} (x : α) (a b : List α) : a ++ x :: b ∈ insertEverywhere x (a ++ b) := by
  induction a with
  | nil => cases b <;> simp [insertEverywhere]
  | cons y ys ih =>
    simp only [cons_append, insertEverywhere, mem_cons, mem_map]
    exact Or.inr ⟨_, ih, rfl⟩

theorem mem_perms_of_perm {α : Type} {l l' : List α} (h : l'.Perm l) : l' ∈ perms l := by
  induction l generalizing l' with
  | nil => simp [perms, perm_nil.mp h]
  | cons x xs ih =>
    have hx : x ∈ l' := h.symm.subset mem_cons_self
    obtain ⟨a, b, rfl⟩ := append_of_mem hx
    have hab : (a ++ b).Perm xs := (perm_middle.symm.trans h).cons_inv
    simp only [perms, mem_flatMap]
    exact ⟨a ++ b, ih hab, mem_insertEverywhere x a b⟩

/-! ### map lookup and the smallest-path choice of `restorePayeeTemplate` -/

theorem lookup_eq_some_iff {ν : Type} {σ : Entries String ν} (nd : (keys σ).Nodup) (k : String) (v : ν) :
    lookup σ k = some v ↔ (k, v) ∈ σ := by
  induction σ with
  | nil => simp [lookup]
  | cons x xs ih =>
    simp only [keys, map_cons, nodup_cons, mem_map, not_exists, not_and] at nd
    have ih' := ih nd.2
    unfold lookup at ih' ⊢
    by_cases hx : x.1 = k
    · simp only [find?_cons, hx, beq_self_eq_true, Option.map_some, Option.some.injEq, mem_cons]
      constructor
      · intro h; left; rw [← h, ← hx]
      · rintro (h | h)
        · rw [← h]
        · exact absurd hx (by intro e; exact nd.1 (k, v) h (by simp [e]))
    · have hb : (x.1 == k) = false := by simpa using hx
      simp only [find?_cons, hb, mem_cons]
      rw [ih']
      constructor
      · exact Or.inr
      · rintro (h | h)
        · exact absurd (by rw [← h]) hx
        · exact h

theorem lookup_perm {ν : Type} {σ σ' : Entries String ν} (h : σ.Perm σ') (nd : (keys σ).Nodup) (k : String) :
    lookup σ k = lookup σ' k := by
  have nd' : (keys σ').Nodup := (keys_perm h).nodup nd
  apply Option.ext
  intro v
  rw [lookup_eq_some_iff nd, lookup_eq_some_iff nd', h.mem_iff]

/-- `SetFileIndex` refuses the empty path, so "" is free to mean "none yet". -/
theorem bestPathStep_comm {τ : Type} (payee z : String) (x y : String × Entries String τ)
    (nx : x.1 ≠ "") (ny : y.1 ≠ "") :
    bestPathStep payee (bestPathStep payee z x) y = bestPathStep payee (bestPathStep payee z y) x := by
  unfold bestPathStep
  generalize x.2.any (·.1 == payee) = hx
  generalize y.2.any (·.1 == payee) = hy
  revert nx ny
  generalize x.1 = px
  generalize y.1 = py
  intro nx ny
  simp only [beq_iff_eq, Bool.and_eq_true, Bool.or_eq_true, decide_eq_true_eq]
  have := @String.lt_irrefl
  grind [String.lt_trans, String.le_antisymm, String.not_lt, String.le_total, String.lt_asymm]

theorem bestPath_perm {τ : Type} {σ σ' : Entries String (Entries String τ)} (h : σ.Perm σ')
    (ne : ∀ f ∈ σ, f.1 ≠ "") (payee : String) : bestPath σ payee = bestPath σ' payee :=
  h.foldl_eq' (fun x hx y hy z => bestPathStep_comm payee z x y (ne x hx) (ne y hy)) _

end HL.MapOrder
