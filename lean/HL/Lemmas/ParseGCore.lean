import HL.Lemmas.ParseGCoreNum
import HL.Lemmas.LexGCore
import HL.Lemmas.ParserList
/-!
  The parser model on the token streams of `GCore` (layer L4 of DESIGN 7.C03, composed):
  amount, posting line, the postings loop (any number of postings), transaction, and the
  journal loop (any number of transactions).  Token-list source, decimal layer
  `defaultNumDeps`, any classifier `cls` (the parser never consults it on these streams).
-/
namespace HL.GCore
open HL HL.Ast HL.Parser HL.PStr

variable (cls : Parser.Classes)

/-- the parser environment of `parseTokens defaultNumDeps cls` -/
abbrev E : Env (List Token) := listEnv defaultNumDeps cls

/-- the parser state in front of the stream `t :: ts` -/
def stOf (toks : List Token) (errs : List ParseError) (dy : Int) : PState (List Token) :=
  match toks with
  | t :: ts => ⟨ts, t, errs, dy⟩
  | [] => ⟨[], eofToken, errs, dy⟩

@[simp] theorem stOf_cons (t : Token) (ts : List Token) (errs : List ParseError) (dy : Int) :
    stOf (t :: ts) errs dy = ⟨ts, t, errs, dy⟩ := rfl

@[simp] theorem advance_cons (t : Token) (r : List Token) (c : Token) (e : List ParseError) (y : Int) :
    advance (E cls) ⟨t :: r, c, e, y⟩ = ⟨r, t, e, y⟩ := rfl

theorem E_normalize : (E cls).num.normalize = normalizeNumber := rfl
theorem E_decOfString : (E cls).num.decOfString = decOfString := rfl

/-! ### the quantity -/

theorem signText_eq (a : Amount) : a.signText = sgn a.neg := rfl

/-- **The number layer reads an amount of the grammar as written.** -/
theorem qty_ok (a : Amount) (h : a.wf = true) :
    decOfString (normalizeNumber (dropBlanks (a.signText ++ a.numText))) = some a.quantity ∧
    ¬ (a.quantity.exp > maxAmountExponent ∨ a.quantity.exp < -maxAmountExponent) := by
  simp only [Amount.wf, Bool.and_eq_true] at h
  obtain ⟨⟨h1, h2⟩, _⟩ := h
  have hi := word_spec h1
  cases hf : a.frac with
  | none =>
    have := qty_int a.neg a.int hi.2 hi.1
    simp only [signText_eq, Amount.numText, hf, List.append_nil, Amount.quantity, Option.getD_none,
      List.length_nil, maxAmountExponent]
    refine ⟨by simpa using this, by simp⟩
  | some f =>
    rw [hf] at h2
    simp only [Bool.and_eq_true, decide_eq_true_eq, Bool.or_eq_true, bne_iff_ne, ne_eq, List.all_eq_true,
      beq_iff_eq] at h2
    obtain ⟨⟨h21, h22⟩, h23⟩ := h2
    have hfw := word_spec h21
    have := qty_frac a.neg a.int f hi.2 hi.1 hfw.2 h22 (by
      intro h3; rcases h23 with h | h
      · exact absurd h3 h
      · exact h)
    simp only [signText_eq, Amount.numText, hf, Amount.quantity, Option.getD_some, maxAmountExponent]
    refine ⟨by simpa [List.append_assoc] using this, by omega⟩

/-- the number does not start with `-` -/
theorem numText_noMinus (a : Amount) (h : a.wf = true) : ([0x2D] : Bytes).isPrefixOf a.numText = false := by
  simp only [Amount.wf, Bool.and_eq_true] at h
  obtain ⟨⟨h1, _⟩, _⟩ := h
  have hi := word_spec h1
  obtain ⟨c, t, hc⟩ := List.exists_cons_of_ne_nil hi.1
  have := (Digits.facts hi.2 (c := c) (by simp [hc])).2.1
  simp only [Amount.numText, hc, List.cons_append, List.isPrefixOf]
  simpa using fun h' => this h'.symm

/-! ### amount, posting -/

set_option linter.unusedSimpArgs false in
/-- **`parseAmount` on the tokens of an amount** (followed by the line's Newline token). -/
theorem parseAmount_toks (a : Amount) (h : a.wf = true) (ln o pre : Nat) (x : Token) (R : List Token)
    (errs : List ParseError) (dy : Int) (hx : x.ty = .newline)
    (hpos : x.pos = ⟨ln, 1 + pre + a.print.length, o + pre + a.print.length⟩) :
    parseAmount (E cls) (stOf (a.toks ln o pre ++ x :: R) errs dy) =
      (some (a.expected ln (1 + pre) (o + pre)), ⟨R, x, errs, dy⟩) := by
  obtain ⟨hq, hexp⟩ := qty_ok a h
  have hnm := numText_noMinus a h
  unfold parseAmount amountLeadSign amountLeftCommodity amountSecondSign amountNumber amountRightCommodity
  cases hneg : a.neg <;> cases hcom : a.com
  all_goals
    simp only [Amount.signText, hneg, Bool.false_eq_true, if_false, if_true, List.nil_append,
      List.singleton_append] at hq
    simp only [Amount.toks, hneg, hcom, Bool.false_eq_true, if_false, if_true, List.nil_append, List.cons_append,
      List.singleton_append, stOf_cons, tokP, advance_cons, reduceCtorEq, ne_eq, not_true_eq_false, not_false_eq_true,
      E_normalize, E_decOfString, hq, hexp, hnm, hx, and_self, and_true, true_and, false_and, or_self, or_false,
      false_or, true_or, Bool.not_false, Bool.false_and, emptyCommodity, decide_true, decide_false, toRange,
      List.cons_ne_self, List.cons.injEq, Bool.true_and, Bool.and_true, Bool.or_true, Bool.true_or]
  all_goals
    simp [Amount.expected, Amount.signText, Amount.print, Amount.comText, hneg, hcom]
  all_goals omega

theorem nlP_ty (ln o pre : Nat) : (nlP ln o pre).ty = .newline := rfl
theorem nlP_pos (ln o pre : Nat) : (nlP ln o pre).pos = ⟨ln, 1 + pre, o + pre⟩ := rfl

/-- **`parsePosting` on the tokens of a posting line**; it stops on the line's Newline token. -/
theorem parsePosting_toks (p : Posting) (hp : p.wf = true) (ln o : Nat) (R : List Token)
    (errs : List ParseError) (dy : Int) :
    parsePosting (E cls) (stOf (p.toks ln o ++ R) errs dy) =
      (some (p.expected ln o), ⟨R, nlP ln o p.print.length, errs, dy⟩) := by
  simp only [Posting.wf, Bool.and_eq_true] at hp
  obtain ⟨_, hamt⟩ := hp
  cases hamtv : p.amount with
  | none =>
    have e : p.toks ln o ++ R = tokP .indent [0x20, 0x20, 0x20, 0x20] ln o 0 :: tokP .account p.acct ln o 4 ::
        nlP ln o p.print.length :: R := by simp [Posting.toks, hamtv]
    rw [e]
    unfold parsePosting
    simp only [stOf_cons, tokP, ne_eq, not_true_eq_false, if_false, advance_cons, reduceCtorEq, or_self]
    unfold postingOpen
    simp only [reduceCtorEq, if_false, not_true_eq_false, advance_cons]
    unfold postingTail postingClosing postingAmount postingCost postingAssertion lineComment
    simp only [reduceCtorEq, if_false, or_self, nlP_ty, toRange, nlP_pos]
    simp [Posting.expected, hamtv]
  | some a =>
    rw [hamtv] at hamt
    have hpa := parseAmount_toks cls a hamt ln o (4 + p.acct.length + 2) (nlP ln o p.print.length) R errs dy rfl
      (by simp only [nlP_pos, Posting.print, Posting.amtText, hamtv, List.length_append, List.length_cons,
            List.length_nil]
          simp only [Pos.mk.injEq, true_and]; omega)
    have hty : ∃ t ts, a.toks ln o (4 + p.acct.length + 2) = t :: ts ∧
        (t.ty = .commodity ∨ t.ty = .number ∨ t.ty = .sign) := by
      cases hneg : a.neg
      · exact ⟨_, _, by simp only [Amount.toks, hneg]; rfl, Or.inr (Or.inl rfl)⟩
      · exact ⟨_, _, by simp only [Amount.toks, hneg]; rfl, Or.inr (Or.inr rfl)⟩
    obtain ⟨t, ts, hts, hty⟩ := hty
    have hst : stOf (a.toks ln o (4 + p.acct.length + 2) ++ nlP ln o p.print.length :: R) errs dy =
        ⟨ts ++ nlP ln o p.print.length :: R, t, errs, dy⟩ := by rw [hts]; rfl
    rw [hst] at hpa
    have e : p.toks ln o ++ R = tokP .indent [0x20, 0x20, 0x20, 0x20] ln o 0 :: tokP .account p.acct ln o 4 ::
        t :: (ts ++ nlP ln o p.print.length :: R) := by simp [Posting.toks, hamtv, hts]
    rw [e]
    unfold parsePosting
    simp only [stOf_cons, tokP, ne_eq, not_true_eq_false, if_false, advance_cons, reduceCtorEq, or_self]
    unfold postingOpen
    simp only [reduceCtorEq, if_false, not_true_eq_false, advance_cons]
    unfold postingTail postingClosing postingAmount postingCost postingAssertion lineComment
    simp only [reduceCtorEq, if_false, hty, if_true, hpa, nlP_ty, or_self, toRange, nlP_pos]
    simp [Posting.expected, hamtv]
    rw [show 1 + (4 + p.acct.length + 2) = 5 + p.acct.length + 2 by omega,
      show o + (4 + p.acct.length + 2) = o + 4 + p.acct.length + 2 by omega]

/-! ### the postings loop, the transaction, the journal loop -/

theorem advance_stOf (toks : List Token) (c : Token) (e : List ParseError) (y : Int) :
    advance (E cls) ⟨toks, c, e, y⟩ = stOf toks e y := by
  cases toks <;> rfl

theorem fuelOf_stOf (L : List Token) (errs : List ParseError) (dy : Int) :
    L.length ≤ fuelOf (E cls) (stOf L errs dy) := by
  cases L <;> simp [stOf, fuelOf, listEnv, listSrc]

theorem postingsToks_length (ps : List Posting) : ∀ ln o, ps.length ≤ (postingsToks ps ln o).length := by
  induction ps with
  | nil => intro _ _; simp [postingsToks]
  | cons p ps ih =>
    intro ln o
    have := ih (ln + 1) (o + p.print.length + 1)
    simp only [postingsToks, List.length_append, List.length_cons, Posting.toks]
    omega

/-- **The postings loop**, for any number of postings, up to the first token that is not an
    Indent. -/
theorem postingsF_toks (ps : List Posting) (hps : ∀ p ∈ ps, p.wf = true) :
    ∀ (ln o n : Nat) (x : Token) (R : List Token) (errs : List ParseError) (dy : Int),
      ps.length ≤ n → x.ty ≠ .indent →
      postingsF (E cls) n (stOf (postingsToks ps ln o ++ x :: R) errs dy) =
        (expectedPostings ps ln o, ⟨R, x, errs, dy⟩) := by
  induction ps with
  | nil =>
    intro ln o n x R errs dy _ hx
    simp only [postingsToks, List.nil_append, stOf_cons, expectedPostings]
    cases n with
    | zero => rfl
    | succ n => simp [postingsF, hx]
  | cons p ps ih =>
    intro ln o n x R errs dy hn hx
    obtain ⟨n, rfl⟩ : ∃ m, n = m + 1 := ⟨n - 1, by simp at hn; omega⟩
    have e : postingsToks (p :: ps) ln o ++ x :: R =
        p.toks ln o ++ (postingsToks ps (ln + 1) (o + p.print.length + 1) ++ x :: R) := by
      simp [postingsToks]
    have hind : (stOf (p.toks ln o ++ (postingsToks ps (ln + 1) (o + p.print.length + 1) ++ x :: R)) errs dy).current.ty
        = .indent := by simp [Posting.toks, tokP]
    rw [e]
    unfold postingsF
    simp only [hind, ne_eq, not_true_eq_false, if_false, parsePosting_toks cls p (hps p (by simp)), nlP_ty, if_true,
      advance_stOf, ih (fun q hq => hps q (by simp [hq])) _ _ n x R errs dy (by simpa using hn) hx,
      expectedPostings]

theorem date_parse (d : Date) (hd : d.wf = true) :
    splitByte d.print (firstSep d.print) = [d.y, d.m, d.d] ∧ atoi d.y = some (digitsNat d.y : Int) ∧
    atoi d.m = some (digitsNat d.m : Int) ∧ atoi d.d = some (digitsNat d.d : Int) := by
  simp only [Date.wf, Bool.and_eq_true, beq_iff_eq, List.all_eq_true] at hd
  obtain ⟨⟨⟨⟨⟨hy, hyd⟩, hm⟩, hmd⟩, hdl⟩, hdd⟩ := hd
  have ne : ∀ s : Bytes, 0 < s.length → s ≠ [] := fun s h h' => by simp [h'] at h
  refine ⟨?_, atoi_digits _ hyd (ne _ (by omega)) (by omega), atoi_digits _ hmd (ne _ (by omega)) (by omega),
    atoi_digits _ hdd (ne _ (by omega)) (by omega)⟩
  have : firstSep d.print = 0x2D := by
    have := firstSepDate d.y (d.m ++ 0x2D :: d.d) hyd
    simpa [Date.print] using this
  rw [this]
  exact splitDate d.y d.m d.d hyd hmd hdd

/-- **`parseTransaction` on the tokens of a transaction**, any number of postings; it stops on
    the first token behind the last posting line. -/
theorem parseTransaction_toks (t : Tx) (ht : t.wf = true) (ln o : Nat) (x : Token) (R : List Token)
    (errs : List ParseError) (dy : Int) (hx : x.ty ≠ .indent)
    (hpos : x.pos = ⟨ln + 1 + t.postings.length, 1, o + t.print.length⟩) :
    parseTransaction (E cls) (stOf (t.toks ln o ++ x :: R) errs dy) =
      (some (t.expected ln o), ⟨R, x, errs, dy⟩) := by
  simp only [Tx.wf, Bool.and_eq_true, Bool.not_eq_true', List.all_eq_true] at ht
  obtain ⟨⟨⟨hd, _⟩, _⟩, hps⟩ := ht
  obtain ⟨hs, hy, hm, hdd⟩ := date_parse t.date hd
  have e : t.toks ln o ++ x :: R = tokP .date t.date.print ln o 0 ::
      tokP .text t.descr ln o (t.date.print.length + 1) :: nlP ln o t.header.length ::
      (postingsToks t.postings (ln + 1) (o + t.header.length + 1) ++ x :: R) := by
    simp [Tx.toks, Tx.headerToks]
  rw [e]
  unfold parseTransaction parseDate
  simp only [stOf_cons, tokP, ne_eq, not_true_eq_false, if_false, advance_cons, hs, hy, hm, hdd]
  unfold txHeader txDate2 txStatus txCode txComment txDescription
  simp only [reduceCtorEq, if_false, if_true, advance_cons, nlP_ty]
  simp only [advance_stOf]
  rw [postingsF_toks cls t.postings hps _ _ _ x R errs dy
    (Nat.le_trans (Nat.le_trans (postingsToks_length t.postings (ln + 1) (o + t.header.length + 1)) (by simp))
      (fuelOf_stOf cls _ _ _)) hx]
  simp only [toRange, hpos]
  simp [Tx.expected]

theorem toksFrom_length (j : Journal) : ∀ ln o, 2 * j.length + 1 ≤ (toksFrom j ln o).length := by
  induction j with
  | nil => intro _ _; simp [toksFrom]
  | cons t ts ih =>
    intro ln o
    cases ts with
    | nil => simp [toksFrom, Tx.toks, Tx.headerToks]
    | cons t2 ts =>
      have := ih (ln + t.postings.length + 2) (o + t.print.length + 1)
      simp only [toksFrom, List.length_append, List.length_cons, Tx.toks, Tx.headerToks, List.length_nil] at this ⊢
      omega

theorem eofP_ty (ln o : Nat) : (eofP ln o).ty = .eof := rfl

/-- **The journal loop** on the token stream of a printed journal, any number of transactions:
    the transactions as written, nothing else, and not one error added. -/
theorem parseJournalF_toks (j : Journal) (hj : WF j = true) :
    ∀ (ln o n : Nat) (errs : List ParseError) (dy : Int), 2 * j.length ≤ n →
      ∃ st', parseJournalF (E cls) n (stOf (toksFrom j ln o) errs dy) =
        (⟨expectedTxs j ln o, [], [], []⟩, st') ∧ st'.errors = errs := by
  induction j with
  | nil =>
    intro ln o n errs dy _
    refine ⟨stOf (toksFrom [] ln o) errs dy, ?_, rfl⟩
    cases n with
    | zero => rfl
    | succ n => simp [parseJournalF, toksFrom, eofP_ty, expectedTxs, jempty]
  | cons t ts ih =>
    intro ln o n errs dy hn
    simp only [WF, List.all_cons, Bool.and_eq_true] at hj
    obtain ⟨n, rfl⟩ : ∃ m, n = m + 1 := ⟨n - 1, by simp at hn; omega⟩
    have hdate : ∀ L, (stOf (t.toks ln o ++ L) errs dy).current.ty = .date := by
      intro L; simp [Tx.toks, Tx.headerToks, tokP]
    cases ts with
    | nil =>
      have hpt := parseTransaction_toks cls t hj.1 ln o (eofP (ln + 1 + t.postings.length) (o + t.print.length)) []
        errs dy (by simp [eofP_ty]) rfl
      refine ⟨⟨[], eofP (ln + 1 + t.postings.length) (o + t.print.length), errs, dy⟩, ?_, rfl⟩
      simp only [toksFrom]
      unfold parseJournalF journalStep
      simp only [hdate, reduceCtorEq, if_false, if_true, hpt]
      cases n with
      | zero => simp [parseJournalF, jpush, jempty, expectedTxs]
      | succ n => simp [parseJournalF, eofP_ty, jpush, jempty, expectedTxs]
    | cons t2 ts =>
      obtain ⟨n, rfl⟩ : ∃ m, n = m + 1 := ⟨n - 1, by simp at hn; omega⟩
      have hpt := parseTransaction_toks cls t hj.1 ln o (nlP (ln + 1 + t.postings.length) (o + t.print.length) 0)
        (toksFrom (t2 :: ts) (ln + t.postings.length + 2) (o + t.print.length + 1)) errs dy
        (by simp [nlP_ty]) (by simp [nlP_pos])
      obtain ⟨st', h1, h2⟩ := ih hj.2 (ln + t.postings.length + 2) (o + t.print.length + 1) n errs dy
        (by simp only [List.length_cons] at hn ⊢; omega)
      refine ⟨st', ?_, h2⟩
      simp only [toksFrom]
      unfold parseJournalF journalStep
      simp only [hdate, reduceCtorEq, if_false, if_true, hpt]
      unfold parseJournalF journalStep
      simp only [nlP_ty, reduceCtorEq, if_false, if_true, advance_stOf, h1]
      simp [jpush, expectedTxs]

/-- **`Parse` on the token stream of a printed journal.** -/
theorem parseTokens_toks (j : Journal) (hj : WF j = true) :
    parseTokens defaultNumDeps cls (toksFrom j 1 0) = (expected j, []) := by
  unfold parseTokens parseWith parseJournal
  have e : advance (⟨listSrc, defaultNumDeps, cls⟩ : Env (List Token)) ⟨toksFrom j 1 0, eofToken, [], 0⟩ =
      stOf (toksFrom j 1 0) [] 0 := advance_stOf cls _ _ _ _
  simp only [e]
  obtain ⟨st', h1, h2⟩ := parseJournalF_toks cls j hj 1 0
    (fuelOf (E cls) (stOf (toksFrom j 1 0) [] 0)) [] 0
    (Nat.le_trans (by have := toksFrom_length j 1 0; omega) (fuelOf_stOf cls _ _ _))
  have h1' : parseJournalF (⟨listSrc, defaultNumDeps, cls⟩ : Env (List Token))
      (fuelOf (⟨listSrc, defaultNumDeps, cls⟩ : Env (List Token)) (stOf (toksFrom j 1 0) [] 0))
      (stOf (toksFrom j 1 0) [] 0) = (⟨expectedTxs j 1 0, [], [], []⟩, st') := h1
  rw [h1']
  simp [h2, expected]

end HL.GCore
