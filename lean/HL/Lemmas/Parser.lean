import HL.Model.Parser
/-
  Structural lemmas about the parser model (HL/Model/Parser.lean).

  * `Reach E a C b` — state `b` is obtained from `a` by advancing over exactly the tokens `C`
    (never advancing at EOF), appending errors positioned at the current or an already consumed
    token, and setting the default year.  One lemma per parse function shows that its final
    state is reachable from its initial state; everything else is derived from `Reach`:
      - `Reach.measure_le`   progress measure (tokens left) drops by at least `|C|`
      - `Reach.errors`       new errors sit on consumed tokens or on the final current token
      - `Reach.stream`       (list source) the consumed tokens are a prefix of the stream
  * `ReachL` — `Reach` over tokens none of which is a Newline (line-internal functions).
  * `RC a tl b` — `Reach` whose consumed tokens never continue after a Newline token except
    with another Newline or an Indent (`nc`); `tl = 0` says the last consumed token is not a
    Newline.  Errors are recorded only on tokens that do not directly follow a Newline.
-/
namespace HL.Parser
open HL HL.Ast

variable {σ : Type} (E : Env σ)

/-! ### progress measure -/

/-- The source's bound strictly decreases whenever it hands out a non-EOF token. -/
def Decr : Prop :=
  ∀ s, (E.src.next s).1.ty ≠ .eof → E.src.rem (E.src.next s).2 < E.src.rem s

/-- Tokens the parser may still consume: 0 once the current token is EOF. -/
def measure (st : PState σ) : Nat := if st.current.ty = .eof then 0 else E.src.rem st.src + 1

theorem measure_le_fuelOf (st : PState σ) : measure E st ≤ fuelOf E st := by
  unfold measure fuelOf; split <;> omega

theorem measure_advance_lt (hd : Decr E) (st : PState σ) (h : st.current.ty ≠ .eof) :
    measure E (advance E st) < measure E st := by
  unfold measure
  rw [if_neg h]
  split
  · omega
  · rename_i h2
    have := hd st.src h2
    simp only [advance] at *; omega

theorem measure_zero_iff (st : PState σ) : measure E st = 0 ↔ st.current.ty = .eof := by
  unfold measure; split <;> simp_all

@[simp] theorem measure_errorAt (st : PState σ) (p m) : measure E (errorAt st p m) = measure E st := rfl
@[simp] theorem measure_error (st : PState σ) (m) : measure E (error st m) = measure E st := rfl

/-! ### reachability -/

inductive Reach : PState σ → List Token → PState σ → Prop
  | refl (st) : Reach st [] st
  | adv (st) : st.current.ty ≠ .eof → Reach st [st.current] (advance E st)
  | err (st) (msg) : Reach st [] (error st msg)
  | errPrev {a C b} (t msg) : Reach a C b → t ∈ C → Reach a C (errorAt b t.pos msg)
  | year (st) (y) : Reach st [] { st with defaultYear := y }
  | trans {a C1 b C2 c} : Reach a C1 b → Reach b C2 c → Reach a (C1 ++ C2) c

theorem Reach.measure_le (hd : Decr E) {a C b} (h : Reach E a C b) :
    measure E b + C.length ≤ measure E a := by
  induction h with
  | refl => simp
  | adv st h => have := measure_advance_lt E hd st h; simp; omega
  | err => simp
  | errPrev t msg _ _ ih => simpa using ih
  | year st y => simp [measure]
  | trans _ _ ih1 ih2 => simp; omega

/-- Nothing consumed: same current token and same source. -/
theorem Reach.nil_same {a C b} (h : Reach E a C b) : C = [] → b.current = a.current ∧ b.src = a.src := by
  induction h with
  | refl => intro; exact ⟨rfl, rfl⟩
  | adv => intro h; simp at h
  | err => intro; exact ⟨rfl, rfl⟩
  | errPrev t msg _ _ ih => intro h; exact ih h
  | year => intro; exact ⟨rfl, rfl⟩
  | trans _ _ ih1 ih2 =>
    intro h
    simp at h
    have h1 := ih1 h.1
    have h2 := ih2 h.2
    exact ⟨h2.1.trans h1.1, h2.2.trans h1.2⟩

/-- The first consumed token is the initial current token. -/
theorem Reach.head_eq {a C b} (h : Reach E a C b) : ∀ t C', C = t :: C' → t = a.current := by
  induction h with
  | refl => intro t C' h; simp at h
  | adv st _ => intro t C' h; simp at h; exact h.1.symm
  | err => intro t C' h; simp at h
  | errPrev t msg _ _ ih => exact ih
  | year => intro t C' h; simp at h
  | @trans a C1 b C2 c h1 h2 ih1 ih2 =>
    intro t C' h
    cases C1 with
    | nil =>
      simp at h
      have := ih2 t C' h
      rw [this, (Reach.nil_same E h1 rfl).1]
    | cons x xs =>
      simp at h
      exact ih1 t xs (by rw [h.1])

/-- The current token after `C` was consumed is in `C ++ [final current]`'s head position. -/
theorem Reach.current_mem {a C b} (h : Reach E a C b) : a.current ∈ C ++ [b.current] := by
  cases hC : C with
  | nil => simp; exact ((Reach.nil_same E h hC).1).symm
  | cons t C' => simp; left; exact (Reach.head_eq E h t C' hC).symm

/-- New errors are appended, each positioned at a consumed token or at the final current one. -/
theorem Reach.errors {a C b} (h : Reach E a C b) :
    ∃ new, b.errors = a.errors ++ new ∧ ∀ e ∈ new, ∃ t ∈ C ++ [b.current], e.pos = t.pos := by
  induction h with
  | refl st => exact ⟨[], by simp⟩
  | adv st _ => exact ⟨[], by simp [advance]⟩
  | err st msg => exact ⟨[⟨msg, st.current.pos⟩], by simp [error, errorAt]⟩
  | errPrev t msg _ hm ih =>
    obtain ⟨new, h1, h2⟩ := ih
    refine ⟨new ++ [⟨msg, t.pos⟩], by simp [errorAt, h1], ?_⟩
    intro e he
    simp at he
    rcases he with he | he
    · obtain ⟨t', ht', hp⟩ := h2 e he
      exact ⟨t', by simpa [errorAt] using ht', hp⟩
    · exact ⟨t, by simp [hm], by rw [he]⟩
  | year st y => exact ⟨[], by simp⟩
  | @trans a C1 b C2 c h1 h2 ih1 ih2 =>
    obtain ⟨n1, e1, p1⟩ := ih1
    obtain ⟨n2, e2, p2⟩ := ih2
    refine ⟨n1 ++ n2, by rw [e2, e1, List.append_assoc], ?_⟩
    intro e he
    simp at he
    rcases he with he | he
    · obtain ⟨t, ht, hp⟩ := p1 e he
      refine ⟨t, ?_, hp⟩
      simp at ht
      rcases ht with ht | ht
      · simp [ht]
      · have := Reach.current_mem E h2
        rw [← ht] at this
        simp at this ⊢
        rcases this with h | h
        · exact Or.inr (Or.inl h)
        · exact Or.inr (Or.inr h)
    · obtain ⟨t, ht, hp⟩ := p2 e he
      refine ⟨t, ?_, hp⟩
      simp at ht ⊢
      rcases ht with ht | ht
      · exact Or.inr (Or.inl ht)
      · exact Or.inr (Or.inr ht)

theorem Reach.noEof {a C b} (h : Reach E a C b) : ∀ t ∈ C, t.ty ≠ .eof := by
  induction h with
  | refl => simp
  | adv st h => simpa using h
  | err => simp
  | errPrev _ _ _ _ ih => exact ih
  | year => simp
  | trans _ _ ih1 ih2 =>
    intro t ht; simp at ht; rcases ht with h | h
    · exact ih1 t h
    · exact ih2 t h

/-- `Reach` with the consumed tokens forgotten. -/
def ReachAny (a b : PState σ) : Prop := ∃ C, Reach E a C b

theorem ReachAny.refl (a : PState σ) : ReachAny E a a := ⟨[], .refl a⟩
theorem ReachAny.trans {a b c : PState σ} (h1 : ReachAny E a b) (h2 : ReachAny E b c) : ReachAny E a c := by
  obtain ⟨C1, r1⟩ := h1; obtain ⟨C2, r2⟩ := h2; exact ⟨_, .trans r1 r2⟩

theorem ReachAny.measure_le (hd : Decr E) {a b : PState σ} (h : ReachAny E a b) : measure E b ≤ measure E a := by
  obtain ⟨C, r⟩ := h; have := r.measure_le E hd; omega

/-! ### line-internal reachability -/

def NoNL (C : List Token) : Prop := ∀ t ∈ C, t.ty ≠ .newline

def ReachL (a b : PState σ) : Prop := ∃ C, Reach E a C b ∧ NoNL C

theorem ReachL.any {a b : PState σ} (h : ReachL E a b) : ReachAny E a b := by
  obtain ⟨C, r, _⟩ := h; exact ⟨C, r⟩

theorem ReachL.refl (st : PState σ) : ReachL E st st := ⟨[], .refl st, by simp [NoNL]⟩

theorem ReachL.trans {a b c : PState σ} (h1 : ReachL E a b) (h2 : ReachL E b c) : ReachL E a c := by
  obtain ⟨C1, r1, n1⟩ := h1; obtain ⟨C2, r2, n2⟩ := h2
  refine ⟨C1 ++ C2, .trans r1 r2, ?_⟩
  intro t ht; simp at ht; rcases ht with h | h
  · exact n1 t h
  · exact n2 t h

theorem ReachL.adv {a st : PState σ} (h0 : ReachL E a st) (h1 : st.current.ty ≠ .eof)
    (h2 : st.current.ty ≠ .newline) : ReachL E a (advance E st) :=
  ReachL.trans E h0 ⟨[st.current], .adv st h1, by simp [NoNL, h2]⟩

theorem ReachL.err {a st : PState σ} (h0 : ReachL E a st) (msg) : ReachL E a (error st msg) :=
  ReachL.trans E h0 ⟨[], .err st msg, by simp [NoNL]⟩

theorem ReachL.advErrAt {a st : PState σ} (h0 : ReachL E a st) (h1 : st.current.ty ≠ .eof)
    (h2 : st.current.ty ≠ .newline) (msg) :
    ReachL E a (errorAt (advance E st) st.current.pos msg) :=
  ReachL.trans E h0 ⟨[st.current], .errPrev st.current msg (.adv st h1) (by simp), by simp [NoNL, h2]⟩

theorem ReachL.measure_le (hd : Decr E) {a b : PState σ} (h : ReachL E a b) : measure E b ≤ measure E a :=
  (ReachL.any E h).measure_le E hd

/-! ### the "blank line" automaton on consumed tokens -/

/-- One step: `tl` = 1 when the token consumed last is a Newline, else 0.  After a Newline only
    a Newline or an Indent may be consumed (within one iteration of the journal loop). -/
def ncStep (tl : Nat) (t : Token) : Option Nat :=
  if 1 ≤ tl ∧ t.ty ≠ .indent ∧ t.ty ≠ .newline then none else some (if t.ty = .newline then 1 else 0)

def nc : Nat → List Token → Option Nat
  | tl, [] => some tl
  | tl, t :: r => match ncStep tl t with
    | none => none
    | some tl' => nc tl' r

theorem nc_append (tl : Nat) (C1 C2 : List Token) :
    nc tl (C1 ++ C2) = (nc tl C1).bind (fun tl' => nc tl' C2) := by
  induction C1 generalizing tl with
  | nil => simp [nc]
  | cons t r ih =>
    simp only [List.cons_append, nc]
    cases ncStep tl t with
    | none => simp
    | some tl' => simp [ih]

theorem nc_noNL {C : List Token} (h : NoNL C) : nc 0 C = some 0 := by
  induction C with
  | nil => rfl
  | cons x xs ih =>
    have hx : x.ty ≠ .newline := h x (by simp)
    have : ncStep 0 x = some 0 := by unfold ncStep; simp [hx]
    simp only [nc, this]
    exact ih (fun y hy => h y (by simp [hy]))

/-! ### error sites: tokens not directly preceded by a Newline -/

/-- The tokens of a list that do not directly follow a Newline token (`prevNL`: the token
    before the list is a Newline). -/
def okSitesAux : Bool → List Token → List Token
  | _, [] => []
  | prevNL, t :: r => (if prevNL then [] else [t]) ++ okSitesAux (t.ty = .newline) r

def okSites (L : List Token) : List Token := okSitesAux false L

/-- Is the last token a Newline (`p` for the empty list)? -/
def lastNL (p : Bool) : List Token → Bool
  | [] => p
  | t :: r => lastNL (t.ty = .newline) r

theorem okSitesAux_append (p : Bool) (L1 L2 : List Token) :
    okSitesAux p (L1 ++ L2) = okSitesAux p L1 ++ okSitesAux (lastNL p L1) L2 := by
  induction L1 generalizing p with
  | nil => simp [okSitesAux, lastNL]
  | cons t r ih => simp [okSitesAux, lastNL, ih]

theorem lastNL_append (p : Bool) (L1 L2 : List Token) : lastNL p (L1 ++ L2) = lastNL (lastNL p L1) L2 := by
  induction L1 generalizing p with
  | nil => simp [lastNL]
  | cons t r ih => simp [lastNL, ih]

theorem okSitesAux_sub (p : Bool) (L : List Token) : ∀ t ∈ okSitesAux p L, t ∈ L := by
  induction L generalizing p with
  | nil => simp [okSitesAux]
  | cons x r ih =>
    intro t ht
    simp only [okSitesAux, List.mem_append] at ht
    rcases ht with h | h
    · split at h <;> simp_all
    · exact List.mem_cons_of_mem _ (ih _ t h)

theorem okSitesAux_noNL {L : List Token} (h : NoNL L) (x : Token) : okSitesAux false (L ++ [x]) = L ++ [x] := by
  induction L with
  | nil => simp [okSitesAux]
  | cons t r ih =>
    have ht : t.ty ≠ .newline := h t (by simp)
    have hr : NoNL r := fun y hy => h y (by simp [hy])
    simp [okSitesAux, ht, ih hr]

theorem lastNL_noNL {L : List Token} (h : NoNL L) : lastNL false L = false := by
  induction L with
  | nil => rfl
  | cons t r ih =>
    have ht : t.ty ≠ .newline := h t (by simp)
    have hr : NoNL r := fun y hy => h y (by simp [hy])
    simp only [lastNL, ht, decide_false]
    exact ih hr

/-- The automaton's counter is non-zero exactly when the last consumed token is a Newline. -/
theorem nc_lastNL {tl tl' : Nat} {C : List Token} (h : nc tl C = some tl') :
    (decide (tl' ≠ 0)) = lastNL (decide (tl ≠ 0)) C := by
  induction C generalizing tl with
  | nil => simp [nc] at h; simp [lastNL, h]
  | cons t r ih =>
    simp only [nc] at h
    cases hs : ncStep tl t with
    | none => simp [hs] at h
    | some t1 =>
      simp only [hs] at h
      rw [ih h]
      simp only [lastNL]
      congr 1
      unfold ncStep at hs
      split at hs
      · simp at hs
      · simp at hs
        by_cases hn : t.ty = .newline <;> simp [hn] at hs ⊢ <;> omega

/-- `RC a tl b`: from `a` the parser reached `b`; what it consumed is accepted by the automaton
    and ends in at most `tl` Newline tokens; the errors recorded on the way sit on consumed
    tokens (or on the current one) that do not directly follow a Newline token. -/
def RC (a : PState σ) (tl : Nat) (b : PState σ) : Prop :=
  ∃ C tl0 new, Reach E a C b ∧ nc 0 C = some tl0 ∧ tl0 ≤ tl ∧ b.errors = a.errors ++ new ∧
    ∀ e ∈ new, ∃ t ∈ okSites (C ++ [b.current]), e.pos = t.pos

theorem RC.any {a b : PState σ} {tl} (h : RC E a tl b) : ReachAny E a b := by
  obtain ⟨C, _, _, r, _⟩ := h; exact ⟨C, r⟩

theorem RC.refl (a : PState σ) : RC E a 0 a := ⟨[], 0, [], .refl a, rfl, Nat.le_refl _, by simp, by simp⟩

theorem RC.mono {a b : PState σ} {tl tl'} (h : RC E a tl b) (hle : tl ≤ tl') : RC E a tl' b := by
  obtain ⟨C, t0, new, r, n, l, e⟩ := h; exact ⟨C, t0, new, r, n, by omega, e⟩

theorem okSites_prefix (L1 L2 : List Token) : ∀ t ∈ okSites L1, t ∈ okSites (L1 ++ L2) := by
  intro t ht; unfold okSites at *; rw [okSitesAux_append]; simp [ht]

theorem RC.step {a b : PState σ} {tl} (h : RC E a tl b) (hne : b.current.ty ≠ .eof)
    (h2 : 1 ≤ tl → b.current.ty = .indent ∨ b.current.ty = .newline) :
    RC E a (if b.current.ty = .newline then 1 else 0) (advance E b) := by
  obtain ⟨C, t0, new, r0, n, l, e1, e2⟩ := h
  have hs : ncStep t0 b.current = some (if b.current.ty = .newline then 1 else 0) := by
    unfold ncStep
    rw [if_neg]
    intro ⟨h3, h4, h5⟩
    rcases h2 (by omega) with h | h
    · exact h4 h
    · exact h5 h
  refine ⟨C ++ [b.current], (if b.current.ty = .newline then 1 else 0), new,
    .trans r0 (.adv b hne), ?_, ?_, by simpa [advance] using e1, ?_⟩
  · rw [nc_append, n]; simp [nc, hs]
  · exact Nat.le_refl _
  · intro e he
    obtain ⟨t, ht, hp⟩ := e2 e he
    exact ⟨t, okSites_prefix _ _ t ht, hp⟩

theorem RC.advNL {a st : PState σ} {tl} (h : RC E a tl st) (h1 : st.current.ty = .newline) :
    RC E a 1 (advance E st) := by
  have := RC.step E h (by simp [h1]) (fun _ => Or.inr h1)
  simpa [h1] using this

theorem RC.advIndent {a st : PState σ} {tl} (h : RC E a tl st) (h1 : st.current.ty = .indent) :
    RC E a 0 (advance E st) := by
  have := RC.step E h (by simp [h1]) (fun _ => Or.inl h1)
  simpa [h1] using this

theorem RC.advOther {a st : PState σ} (h : RC E a 0 st) (h0 : st.current.ty ≠ .eof)
    (h1 : st.current.ty ≠ .newline) : RC E a 0 (advance E st) := by
  have := RC.step E h h0 (by omega)
  simpa [h1] using this

/-- Recording an error at the current token is allowed when the last consumed token is not a
    Newline. -/
theorem RC.err {a st : PState σ} (h : RC E a 0 st) (msg) : RC E a 0 (error st msg) := by
  obtain ⟨C, t0, new, r0, n, l, e1, e2⟩ := h
  have ht0 : t0 = 0 := by omega
  subst ht0
  have hl : lastNL false C = false := by
    have := nc_lastNL n; simpa using this.symm
  refine ⟨C ++ [], 0, new ++ [⟨msg, st.current.pos⟩], .trans r0 (.err st msg), by simpa using n,
    Nat.le_refl _, by simp [error, errorAt, e1], ?_⟩
  intro e he
  simp only [List.mem_append, List.mem_singleton] at he
  rcases he with he | he
  · obtain ⟨t, ht, hp⟩ := e2 e he
    exact ⟨t, by simpa [error, errorAt] using ht, hp⟩
  · refine ⟨st.current, ?_, by rw [he]⟩
    simp only [List.append_nil, error, errorAt, okSites]
    rw [okSitesAux_append, hl]
    simp [okSitesAux]

theorem RC.year {a st : PState σ} {tl} (h : RC E a tl st) (y) : RC E a tl { st with defaultYear := y } := by
  obtain ⟨C, t0, new, r0, n, l, e1, e2⟩ := h
  exact ⟨C ++ [], t0, new, .trans r0 (.year st y), by simpa using n, l, e1, by simpa using e2⟩

/-- A line-internal function run when the last consumed token is not a Newline. -/
theorem RC.line {a b c : PState σ} (h : RC E a 0 b) (hl : ReachL E b c) : RC E a 0 c := by
  obtain ⟨C, t0, new, r0, n, l, e1, e2⟩ := h
  have ht0 : t0 = 0 := by omega
  subst ht0
  obtain ⟨C2, r2, nn⟩ := hl
  have n1 := nc_noNL nn
  have hlC : lastNL false C = false := by
    have := nc_lastNL n; simpa using this.symm
  obtain ⟨new2, f1, f2⟩ := r2.errors E
  refine ⟨C ++ C2, 0, new ++ new2, .trans r0 r2, by rw [nc_append, n]; simpa using n1, by omega,
    by rw [f1, e1, List.append_assoc], ?_⟩
  intro e he
  simp only [List.mem_append] at he
  have hsplit : okSites (C ++ C2 ++ [c.current]) = okSitesAux false C ++ (C2 ++ [c.current]) := by
    unfold okSites
    rw [List.append_assoc, okSitesAux_append, hlC, okSitesAux_noNL nn]
  rcases he with he | he
  · obtain ⟨t, ht, hp⟩ := e2 e he
    refine ⟨t, ?_, hp⟩
    rw [hsplit]
    unfold okSites at ht
    rw [okSitesAux_append, hlC] at ht
    simp only [List.mem_append] at ht ⊢
    rcases ht with ht | ht
    · exact Or.inl ht
    · simp only [okSitesAux, Bool.false_eq_true, if_false, List.append_nil, List.mem_singleton] at ht
      right
      have := r2.current_mem E
      rw [ht]
      simpa using this
  · obtain ⟨t, ht, hp⟩ := f2 e he
    refine ⟨t, ?_, hp⟩
    rw [hsplit]
    simp only [List.mem_append] at ht ⊢
    exact Or.inr (by simpa using ht)

/-- What one gets out of `RC` in the end. -/
theorem RC.elim {a b : PState σ} {tl} (h : RC E a tl b) :
    ∃ C new, Reach E a C b ∧ (nc 0 C).isSome ∧ b.errors = a.errors ++ new ∧
      ∀ e ∈ new, ∃ t ∈ okSites (C ++ [b.current]), e.pos = t.pos := by
  obtain ⟨C, t0, new, r, n, _, e1, e2⟩ := h
  exact ⟨C, new, r, by simp [n], e1, e2⟩

end HL.Parser
