/-
  Lemmas for C04/C05: shape of the edit list of the formatter model and the generic
  "single-line edits on distinct lines are well-formed" argument.
-/
import HL.Lemmas.FmtText
import HL.Spec.EditSpec
namespace HL.Lemmas.Format
open HL HL.Ast HL.FmtText HL.Fmt HL.EditSpec HL.Lemmas.FmtText

/-! ### Widths -/

theorem decodeRune_u16w (b0 : UInt8) (r : Bytes) :
    u16w (decodeRune (b0 :: r)).1 ≤ (decodeRune (b0 :: r)).2 := by
  have h0 : b0.toNat < 256 := UInt8.toNat_lt b0
  rcases r with _ | ⟨b1, _ | ⟨b2, _ | ⟨b3, r⟩⟩⟩ <;>
    simp only [decodeRune, runeError] <;>
    (repeat' split) <;> simp only [u16w] <;> (try split) <;> omega

theorem u16sum_runesAux_le (s : Bytes) : ∀ k, k ≤ s.length → u16sum (runesAux k s) + k ≤ s.length := by
  induction s with
  | nil => intro k hk; have : k = 0 := by simpa using hk
           subst this; simp [runesAux, u16sum]
  | cons x s ih =>
    intro k hk
    cases k with
    | zero =>
      have hs := decodeRune_size x s
      have hw := decodeRune_u16w x s
      simp only [List.length_cons] at hs
      have := ih ((decodeRune (x :: s)).2 - 1) (by omega)
      simp only [runesAux, u16sum, List.length_cons]
      omega
    | succ k =>
      simp only [List.length_cons] at hk
      have := ih k (by omega)
      simp only [runesAux, List.length_cons]
      omega

theorem u16len_le_length (s : Bytes) : u16len s ≤ s.length := by
  have := u16sum_runesAux_le s 0 (Nat.zero_le _)
  rw [u16len_eq]; simpa [runes] using this

/-! ### Rune boundaries -/

theorem onBoundary_zero (rs : List (Nat × Nat)) : onBoundary rs 0 = true := by
  cases rs with
  | nil => rfl
  | cons x rs => obtain ⟨r, s⟩ := x; simp [onBoundary]

theorem onBoundary_prefix (a b : List (Nat × Nat)) : onBoundary (a ++ b) (u16sum a) = true := by
  induction a with
  | nil => exact onBoundary_zero b
  | cons x a ih =>
    obtain ⟨r, s⟩ := x
    simp only [List.cons_append, onBoundary, u16sum, Nat.le_add_right, decide_true, Bool.true_and,
      Nat.add_sub_cancel_left, ih, Bool.or_true]

theorem onBoundary_all (a : List (Nat × Nat)) : onBoundary a (u16sum a) = true := by
  have := onBoundary_prefix a []
  simpa using this

/-! ### Lines -/

theorem splitLines_ne_nil (doc : Bytes) : splitLines doc ≠ [] := by
  induction doc with
  | nil => simp [splitLines]
  | cons b bs ih =>
    simp only [splitLines]
    split
    · simp
    · split <;> simp

theorem splitLines_length_le (doc : Bytes) : (splitLines doc).length ≤ doc.length + 1 := by
  induction doc with
  | nil => simp [splitLines]
  | cons b bs ih =>
    simp only [splitLines]
    split
    · simp only [List.length_cons]; omega
    · split
      · rename_i l ls h; rw [h] at ih; simp only [List.length_cons] at *; omega
      · simp

theorem splitLines_line_length (doc : Bytes) : ∀ l ∈ splitLines doc, l.length ≤ doc.length := by
  induction doc with
  | nil => intro l hl; simp [splitLines] at hl; simp [hl]
  | cons b bs ih =>
    intro l hl
    simp only [splitLines] at hl
    split at hl
    · rcases List.mem_cons.mp hl with rfl | hl
      · simp
      · have := ih l hl; simp only [List.length_cons]; omega
    · split at hl
      · rename_i l0 ls h
        rw [h] at ih
        rcases List.mem_cons.mp hl with rfl | hl
        · have := ih l0 (by simp); simp only [List.length_cons]; omega
        · have := ih l (by simp [hl]); simp only [List.length_cons]; omega
      · simp only [List.mem_singleton] at hl
        subst hl; simp

theorem trimRight_spec (l : Bytes) : ∃ bl, l = trimRight l ++ bl ∧ (∀ x ∈ bl, isBlank x = true) := by
  induction l with
  | nil => exact ⟨[], rfl, by simp⟩
  | cons b bs ih =>
    obtain ⟨bl, h1, h2⟩ := ih
    simp only [trimRight]
    split
    · rename_i h
      simp only [Bool.and_eq_true, List.isEmpty_iff] at h
      refine ⟨b :: bs, by simp, ?_⟩
      intro x hx
      rw [h.1] at h1
      simp only [List.nil_append] at h1
      rcases List.mem_cons.mp hx with rfl | hx
      · exact h.2
      · rw [h1] at hx; exact h2 x hx
    · exact ⟨bl, by rw [List.cons_append, ← h1], h2⟩

theorem isBlank_lt (x : UInt8) (h : isBlank x = true) : x < 0x80 := by
  simp only [isBlank, Bool.or_eq_true, beq_iff_eq] at h
  rcases h with rfl | rfl <;> decide

theorem isBlank_ne_cr (x : UInt8) (h : isBlank x = true) : x ≠ 13 := by
  simp only [isBlank, Bool.or_eq_true, beq_iff_eq] at h
  rcases h with rfl | rfl <;> decide

/-- A line that `trimRight` shortens ends in a blank, so it has no CR to strip. -/
theorem content_of_trimmed (l : Bytes) (h : (trimRight l).length ≠ l.length) : content l = l := by
  obtain ⟨bl, h1, h2⟩ := trimRight_spec l
  have hne : bl ≠ [] := by
    intro e; rw [e, List.append_nil] at h1; rw [← h1] at h; exact h rfl
  have hlast : ∃ x, l.getLast? = some x ∧ isBlank x = true := by
    obtain ⟨x, hx⟩ : ∃ x, bl.getLast? = some x := by
      cases hb : bl.getLast? with
      | none => exact absurd (List.getLast?_eq_none_iff.mp hb) hne
      | some x => exact ⟨x, rfl⟩
    refine ⟨x, ?_, h2 x (List.mem_of_getLast? hx)⟩
    rw [h1, List.getLast?_append, hx]; rfl
  obtain ⟨x, hx1, hx2⟩ := hlast
  unfold content
  rw [hx1]
  have := isBlank_ne_cr x hx2
  simp [this]

/-! ### `uint32` conversions -/

theorem u32_toNat (i : Int) (h0 : 0 ≤ i) (h1 : i < 4294967296) : (u32 i).toNat = i.toNat := by
  unfold u32
  rw [Int.emod_eq_of_lt h0 h1]
  apply UInt32.toNat_ofNat_of_lt'
  show i.toNat < 4294967296
  omega

theorem ofNat_toNat (n : Nat) (h : n < 4294967296) : (UInt32.ofNat n).toNat = n :=
  UInt32.toNat_ofNat_of_lt' h

/-! ### Single-line edits -/

/-- An edit that stays on one existing line, between two rune boundaries of its content. -/
structure LineEditOK (lines : List Bytes) (e : Edit) : Prop where
  sameLine : e.sl = e.el
  lineLt : e.sl.toNat < lines.length
  startOK : onBoundary (runes (content (lines.getD e.sl.toNat []))) e.sc.toNat = true
  endOK : onBoundary (runes (content (lines.getD e.sl.toNat []))) e.ec.toNat = true
  le : e.sc.toNat ≤ e.ec.toNat

theorem editInside_of_ok (lines : List Bytes) (e : Edit) (h : LineEditOK lines e) : editInside lines e = true := by
  have hl := h.lineLt
  have hget : lines[e.sl.toNat]? = some (lines.getD e.sl.toNat []) := by
    rw [List.getD_eq_getElem?_getD, List.getElem?_eq_getElem hl]; rfl
  simp only [editInside, posInside, ← h.sameLine, hget, h.startOK, h.endOK, posLe, Bool.true_and,
    Bool.and_true, Bool.or_eq_true, decide_eq_true_eq, beq_self_eq_true]
  right; exact h.le

theorem disjoint_of_lines_ne (a b : Edit) (ha : a.sl = a.el) (hb : b.sl = b.el)
    (hne : a.sl.toNat ≠ b.sl.toNat) : disjoint a b = true := by
  simp only [disjoint, posLe, ← ha, ← hb, Bool.or_eq_true, decide_eq_true_eq]
  rcases Nat.lt_or_gt_of_ne hne with h | h
  · left; left; exact h
  · right; left; exact h

theorem pairwiseDisjoint_of_nodup (es : List Edit) (hs : ∀ e ∈ es, e.sl = e.el)
    (hn : (es.map (·.sl.toNat)).Nodup) : pairwiseDisjoint es = true := by
  induction es with
  | nil => rfl
  | cons e es ih =>
    simp only [List.map_cons, List.nodup_cons, List.mem_map, not_exists, not_and] at hn
    simp only [pairwiseDisjoint, Bool.and_eq_true, List.all_eq_true]
    refine ⟨?_, ih (fun x hx => hs x (by simp [hx])) hn.2⟩
    intro x hx
    apply disjoint_of_lines_ne e x (hs e (by simp)) (hs x (by simp [hx]))
    intro heq
    exact hn.1 x hx heq.symm

theorem editsWellFormed_of_lineEdits (doc : Bytes) (es : List Edit)
    (hok : ∀ e ∈ es, LineEditOK (splitLines doc) e) (hn : (es.map (·.sl.toNat)).Nodup) :
    editsWellFormed doc es = true := by
  simp only [editsWellFormed, Bool.and_eq_true, List.all_eq_true]
  exact ⟨fun e he => editInside_of_ok _ e (hok e he),
    pairwiseDisjoint_of_nodup es (fun e he => (hok e he).sameLine) hn⟩

/-! ### The edits of the formatter model -/

/-- The document is small enough for `uint32` positions. -/
structure SmallLines (all : List Bytes) : Prop where
  count : all.length ≤ 4294967296
  width : ∀ l ∈ all, l.length < 4294967296

theorem smallLines_of_doc (doc : Bytes) (h : doc.length < 4294967296) : SmallLines (splitLines doc) :=
  ⟨by have := splitLines_length_le doc; omega,
   fun l hl => by have := splitLines_line_length doc l hl; omega⟩

theorem trimCR_eq_content (l : Bytes) : trimCR l = content l := rfl

theorem content_length_le (l : Bytes) : (content l).length ≤ l.length := by
  unfold content; split <;> simp

theorem getD_mem (all : List Bytes) (n : Nat) (h : n < all.length) : all.getD n [] ∈ all := by
  rw [List.getD_eq_getElem?_getD, List.getElem?_eq_getElem h]; exact List.getElem_mem h

theorem lineU16_eq (all : List Bytes) (n : Nat) (h : n < all.length) :
    lineU16 all (n : Int) = u16len (content (all.getD n [])) := by
  unfold lineU16
  have h1 : ¬ ((n : Int) < 0) := by omega
  have h2 : ¬ ((n : Int) ≥ (all.length : Int)) := by omega
  simp only [h1, h2, decide_false, Bool.or_self, Bool.false_eq_true, if_false, Int.toNat_natCast,
    trimCR_eq_content]

/-- A posting edit on an existing line is a well-formed single-line edit. -/
theorem postingEdit_ok (all : List Bytes) (hs : SmallLines all) (p : Posting) (text : Bytes)
    (h1 : 1 ≤ p.range.start.line) (h2 : p.range.start.line ≤ all.length) :
    LineEditOK all (postingEdit all p text) ∧
      (postingEdit all p text).sl.toNat = p.range.start.line - 1 := by
  have hc := hs.count
  have hline : postingLine p = ((p.range.start.line - 1 : Nat) : Int) := by unfold postingLine; omega
  have hlt : p.range.start.line - 1 < all.length := by omega
  have hu : (u32 (postingLine p)).toNat = p.range.start.line - 1 := by
    rw [u32_toNat _ (by rw [hline]; omega) (by rw [hline]; omega), hline]; simp
  have hw : u16len (content (all.getD (p.range.start.line - 1) [])) < 4294967296 := by
    have := u16len_le_length (content (all.getD (p.range.start.line - 1) []))
    have := content_length_le (all.getD (p.range.start.line - 1) [])
    have := hs.width _ (getD_mem all _ hlt)
    omega
  refine ⟨⟨rfl, ?_, ?_, ?_, ?_⟩, hu⟩
  · simp only [postingEdit, hu]; exact hlt
  · simp only [postingEdit, hu]; exact onBoundary_zero _
  · show onBoundary (runes (content (all.getD (u32 (postingLine p)).toNat [])))
      (UInt32.ofNat (lineU16 all (postingLine p))).toNat = true
    rw [hu, hline, lineU16_eq all _ hlt, ofNat_toNat _ hw, u16len_eq]
    exact onBoundary_all _
  · simp only [postingEdit]; exact Nat.zero_le _

/-- A trim edit is a well-formed single-line edit that removes exactly the trailing blanks. -/
theorem trimEdit_ok (all : List Bytes) (hs : SmallLines all) (n : Nat) (hn : n < all.length) (e : Edit)
    (h : trimEdit all n (all.getD n []) = some e) :
    LineEditOK all e ∧ e.sl.toNat = n ∧ isTrailingBlankRemoval all e = true := by
  have hc := hs.count
  have hmem := getD_mem all n hn
  have hwl := hs.width _ hmem
  simp only [trimEdit] at h
  split at h
  · cases h
  · rename_i hne
    simp only [beq_iff_eq] at hne
    have hcont := content_of_trimmed _ hne
    obtain ⟨bl, hb1, hb2⟩ := trimRight_spec (all.getD n [])
    have hblne : bl ≠ [] := by
      intro e0; rw [e0, List.append_nil] at hb1; rw [← hb1] at hne; exact hne rfl
    have hnc : NonCont bl := by
      cases bl with
      | nil => exact absurd rfl hblne
      | cons x bl => exact nonCont_ascii x bl (isBlank_lt x (hb2 x (by simp)))
    have hn32 : n < 4294967296 := by omega
    have hlen : u16len (all.getD n []) = u16len (trimRight (all.getD n [])) + u16len bl := by
      conv => lhs; rw [hb1]
      exact u16len_append _ _ hnc
    have hw1 := u16len_le_length (all.getD n [])
    have hw2 : u16len (trimRight (all.getD n [])) < 4294967296 := by omega
    have hw3 : u16len (all.getD n []) < 4294967296 := by omega
    have hlt : (trimRight (all.getD n [])).length < (all.getD n []).length := by
      have : (all.getD n []).length = (trimRight (all.getD n [])).length + bl.length := by
        conv => lhs; rw [hb1]
        simp
      have : bl.length ≠ 0 := by simpa using hblne
      omega
    have hget : all[n]? = some (all.getD n []) := by
      rw [List.getD_eq_getElem?_getD, List.getElem?_eq_getElem hn]; rfl
    injection h with h
    subst h
    simp only [lineU16_eq all n hn, hcont]
    refine ⟨⟨rfl, ?_, ?_, ?_, ?_⟩, ofNat_toNat n hn32, ?_⟩
    · simp only [ofNat_toNat n hn32]; exact hn
    · simp only [ofNat_toNat n hn32, hcont, ofNat_toNat _ hw2]
      have : runes (all.getD n []) = runes (trimRight (all.getD n [])) ++ runes bl := by
        conv => lhs; rw [hb1]
        exact runes_append _ _ hnc
      rw [this, u16len_eq]
      exact onBoundary_prefix _ _
    · simp only [ofNat_toNat n hn32, hcont, ofNat_toNat _ hw3]
      rw [u16len_eq]
      exact onBoundary_all _
    · simp only [ofNat_toNat _ hw2, ofNat_toNat _ hw3]; omega
    · simp only [isTrailingBlankRemoval, List.isEmpty_nil, beq_self_eq_true, Bool.true_and,
        ofNat_toNat n hn32, hget, ofNat_toNat _ hw2, ofNat_toNat _ hw3, Bool.and_eq_true,
        decide_eq_true_eq, and_true]
      exact hlt

/-- Every edit of the trimming loop sits on its own, non-exempt line, in increasing order. -/
theorem trimLoop_spec (all : List Bytes) (hs : SmallLines all) (ex : List Int) :
    ∀ (ls : List Bytes) (n : Nat), all.drop n = ls →
      (∀ e ∈ trimLoop all ex ls n, LineEditOK all e ∧ n ≤ e.sl.toNat ∧ ¬ ((e.sl.toNat : Int) ∈ ex) ∧
        isTrailingBlankRemoval all e = true) ∧
      ((trimLoop all ex ls n).map (·.sl.toNat)).Pairwise (· < ·) := by
  intro ls
  induction ls with
  | nil => intro n _; simp [trimLoop]
  | cons l ls ih =>
    intro n hd
    have hn : n < all.length := by
      apply Nat.lt_of_not_le; intro hge
      rw [List.drop_eq_nil_of_le hge] at hd; cases hd
    have hl : all.getD n [] = l := by
      rw [List.getD_eq_getElem?_getD, ← List.head?_drop, hd]; rfl
    have hd' : all.drop (n + 1) = ls := by
      rw [← List.drop_drop, hd]; rfl
    obtain ⟨ih1, ih2⟩ := ih (n + 1) hd'
    have weaken : ∀ e ∈ trimLoop all ex ls (n + 1), LineEditOK all e ∧ n ≤ e.sl.toNat ∧
        ¬ ((e.sl.toNat : Int) ∈ ex) ∧ isTrailingBlankRemoval all e = true := by
      intro e he; obtain ⟨a, b, c, d⟩ := ih1 e he; exact ⟨a, by omega, c, d⟩
    simp only [trimLoop]
    split
    · exact ⟨weaken, ih2⟩
    · rename_i hex
      split
      · rename_i e he
        rw [← hl] at he
        obtain ⟨ok, hsl, htb⟩ := trimEdit_ok all hs n hn e he
        constructor
        · intro x hx
          rcases List.mem_cons.mp hx with rfl | hx
          · refine ⟨ok, by omega, ?_, htb⟩
            rw [hsl]; simpa using hex
          · exact weaken x hx
        · simp only [List.map_cons, List.pairwise_cons]
          refine ⟨?_, ih2⟩
          intro m hm
          obtain ⟨x, hx, rfl⟩ := List.mem_map.mp hm
          have := (ih1 x hx).2.1
          omega
      · exact ⟨weaken, ih2⟩

end HL.Lemmas.Format
