/-
  Helper lemmas for C17 (semantic tokens): relative encoding vs. the client's decoding, edits,
  the cache / client invariant.
-/
import HL.Model.SemTok
import HL.Spec.SemTokSpec
import Std.Data.String.ToNat

namespace HL.Lemmas.SemTok
open HL HL.SemTok HL.SemTokSpec

/-! ### encode / decode -/

/-- A server token seen in the client's coordinates. -/
def absOf (t : SemToken) : AbsTok :=
  ⟨t.line.toNat, t.col.toNat, t.len.toNat, t.ty.toNat, t.mods.toNat⟩

/-- Document order on absolute tokens (what relative encoding needs). -/
def posLe (a b : AbsTok) : Prop := a.line < b.line ∨ (a.line = b.line ∧ a.start ≤ b.start)

instance : DecidableRel posLe := fun a b => by unfold posLe; exact inferInstance

theorem posLe_trans {a b c : AbsTok} (h1 : posLe a b) (h2 : posLe b c) : posLe a c := by
  unfold posLe at *; omega

/-- Chain form of "ordered, starting after position (pl, pc)". -/
def monoFrom (pl pc : Nat) : List SemToken → Prop
  | [] => True
  | t :: ts => (pl < t.line.toNat ∨ (pl = t.line.toNat ∧ pc ≤ t.col.toNat)) ∧
      monoFrom t.line.toNat t.col.toNat ts

theorem sub_eq_zero_iff (a b : UInt32) : (a - b == 0) = (a == b) := by
  have h : a - b = 0 ↔ a = b := by
    constructor
    · intro h
      have := congrArg (· + b) h
      simpa using this
    · intro h; subst h; simp
  rw [Bool.eq_iff_iff]
  simp only [beq_iff_eq]
  exact h

theorem decode_encode_from (ll lc : UInt32) (ts : List SemToken)
    (h : monoFrom ll.toNat lc.toNat ts) :
    decodeGo ll.toNat lc.toNat ((encodeGo ll lc ts).map (·.toNat)) = ts.map absOf := by
  induction ts generalizing ll lc with
  | nil => simp [encodeGo, decodeGo]
  | cons t ts ih =>
    obtain ⟨h1, h2⟩ := h
    simp only [encodeGo, List.map_cons, decodeGo]
    have hline : ll.toNat ≤ t.line.toNat := by omega
    have e1 : (t.line - ll).toNat = t.line.toNat - ll.toNat := UInt32.toNat_sub_of_le _ _ (by
      rw [UInt32.le_iff_toNat_le]; exact hline)
    have hl : ll.toNat + (t.line - ll).toNat = t.line.toNat := by omega
    have hs : (if (t.line - ll).toNat = 0 then lc.toNat + (if (t.line - ll == 0) = true then t.col - lc else t.col).toNat
        else (if (t.line - ll == 0) = true then t.col - lc else t.col).toNat) = t.col.toNat := by
      rw [sub_eq_zero_iff]
      by_cases heq : t.line = ll
      · subst heq
        have hc : lc.toNat ≤ t.col.toNat := by omega
        have e2 : (t.col - lc).toNat = t.col.toNat - lc.toNat := UInt32.toNat_sub_of_le _ _ (by
          rw [UInt32.le_iff_toNat_le]; exact hc)
        simp [e2]; omega
      · have hne : t.line.toNat ≠ ll.toNat := fun h' => heq (UInt32.toNat_inj.mp h')
        have : (t.line - ll).toNat ≠ 0 := by omega
        simp [heq, this]
    rw [hl, hs, ih t.line t.col h2]
    simp [absOf]

/-- `weaklyOrdered` on the absolute view is the chain `monoFrom` from the origin. -/
theorem monoFrom_of_weaklyOrdered (pl pc : Nat) (t : SemToken) (ts : List SemToken)
    (h0 : pl < t.line.toNat ∨ (pl = t.line.toNat ∧ pc ≤ t.col.toNat))
    (h : weaklyOrdered ((t :: ts).map absOf) = true) : monoFrom pl pc (t :: ts) := by
  induction ts generalizing pl pc t with
  | nil => exact ⟨h0, trivial⟩
  | cons b rest ih =>
    simp only [List.map_cons, weaklyOrdered, Bool.and_eq_true, Bool.or_eq_true, decide_eq_true_eq,
      beq_iff_eq] at h
    refine ⟨h0, ih _ _ b ?_ ?_⟩
    · simpa [absOf] using h.1
    · simpa [List.map_cons] using h.2

theorem monoFrom_zero_of_weaklyOrdered (ts : List SemToken)
    (h : weaklyOrdered (ts.map absOf) = true) : monoFrom 0 0 ts := by
  cases ts with
  | nil => trivial
  | cons t ts => exact monoFrom_of_weaklyOrdered 0 0 t ts (by omega) h

/-- Pairwise form, convenient for sublists. -/
theorem weaklyOrdered_iff_pairwise (l : List AbsTok) :
    weaklyOrdered l = true ↔ l.Pairwise posLe := by
  induction l with
  | nil => simp [weaklyOrdered]
  | cons a rest ih =>
    cases rest with
    | nil => simp [weaklyOrdered]
    | cons b rest =>
      simp only [weaklyOrdered, Bool.and_eq_true, Bool.or_eq_true, decide_eq_true_eq, beq_iff_eq]
      rw [ih, List.pairwise_cons (l := b :: rest)]
      constructor
      · rintro ⟨hab, hp⟩
        refine ⟨?_, hp⟩
        intro c hc
        rcases List.mem_cons.mp hc with rfl | hc
        · exact hab
        · exact posLe_trans hab ((List.pairwise_cons.mp hp).1 c hc)
      · rintro ⟨hall, hp⟩
        exact ⟨hall b (List.mem_cons_self), hp⟩

theorem weaklyOrdered_filter (p : AbsTok → Bool) (l : List AbsTok) (h : weaklyOrdered l = true) :
    weaklyOrdered (l.filter p) = true := by
  rw [weaklyOrdered_iff_pairwise] at *
  exact h.sublist List.filter_sublist

/-! ### edits -/

theorem applyEdits_nil (a : Data) : applyEdits a [] = a := by
  simp [applyEdits]

theorem applyEdits_single (a : Data) (e : Edit) : applyEdits a [e] = applyEdit a e := by
  simp [applyEdits]

theorem u32_toNat_of_lt (n : Nat) (h : n < 2 ^ 32) : (u32 n).toNat = n := by
  simp [u32, UInt32.toNat_ofNat', Nat.mod_eq_of_lt h]

theorem computeEdits_apply (old new : Data) (h : old.length < 2 ^ 32) :
    applyEdits old (computeEdits old new) = new := by
  unfold computeEdits
  by_cases he : old = new
  · subst he; simp [applyEdits_nil]
  · have : (old == new) = false := by simpa using he
    simp only [this, Bool.false_eq_true, if_false, applyEdits_single, applyEdit]
    simp [u32_toNat_of_lt _ h]

/-! ### association lists -/

theorem cache_get_set_self (c : Cache) (u : Uri) (v : Cached) : (c.set u v).get u = some v := by
  simp [Cache.set, Cache.get]

theorem cache_get_erase_ne (c : Cache) (u u' : Uri) (h : u' ≠ u) :
    (c.erase u).get u' = c.get u' := by
  unfold Cache.erase Cache.get
  induction c with
  | nil => rfl
  | cons e rest ih =>
    by_cases he : e.1 = u
    · have h1 : (e.1 != u) = false := by simp [he]
      have h2 : (e.1 == u') = false := by simp [he]; exact fun h' => h h'.symm
      simp only [List.filter, h1, List.find?, h2]
      exact ih
    · have h1 : (e.1 != u) = true := by simp [he]
      simp only [List.filter, h1, List.find?]
      by_cases h3 : e.1 = u'
      · simp [h3]
      · have : (e.1 == u') = false := by simp [h3]
        simp only [this]
        exact ih

theorem cache_get_erase_self (c : Cache) (u : Uri) : (c.erase u).get u = none := by
  unfold Cache.erase Cache.get
  induction c with
  | nil => rfl
  | cons e rest ih =>
    by_cases he : e.1 = u
    · have h1 : (e.1 != u) = false := by simp [he]
      simp only [List.filter, h1]; exact ih
    · have h1 : (e.1 != u) = true := by simp [he]
      have h2 : (e.1 == u) = false := by simp [he]
      simp only [List.filter, h1, List.find?, h2]; exact ih

theorem cache_get_set_ne (c : Cache) (u u' : Uri) (v : Cached) (h : u' ≠ u) :
    (c.set u v).get u' = c.get u' := by
  have h2 : (u == u') = false := by simp; exact fun h' => h h'.symm
  have : (c.set u v).get u' = (c.erase u).get u' := by
    simp [Cache.set, Cache.get, h2]
  rw [this, cache_get_erase_ne c u u' h]

theorem fmtId_ne_empty (n : UInt64) : fmtId n ≠ "" := by
  unfold fmtId
  rw [Nat.toString_eq_repr]
  exact Nat.repr_ne_empty

end HL.Lemmas.SemTok

namespace HL.Lemmas.SemTok
open HL HL.SemTok HL.SemTokSpec

/-! ### server + client: the invariant behind `delta_reconstructs` -/

variable {δ : Type}

/-- The data of a full response for the current text of `u` (`[]` for a missing or empty
    document: what `SemanticTokensFull` returns). -/
def fullData (cfg : Cfg δ) (s : Srv δ) (u : Uri) : Data :=
  match liveDoc cfg s u with
  | none => []
  | some d => encodeTokens (cfg.tok d)

/-- "Equal ids ⇒ equal data": whatever the server has cached for a document under an id, the
    client remembers under the same (document, id). -/
def Inv (s : Srv δ) (c : Client) : Prop :=
  ∀ u e, s.cache.get u = some e → c.lookup u e.id = some e.data

/-- Arrays the protocol can address. -/
def fits (cfg : Cfg δ) (d : δ) : Prop := (encodeTokens (cfg.tok d)).length < 2 ^ 32

def FitsReq (cfg : Cfg δ) : Req δ → Prop
  | .setDoc _ d => fits cfg d
  | _ => True

def DocsFit (cfg : Cfg δ) (s : Srv δ) : Prop := ∀ u d, getDoc s.docs u = some d → fits cfg d
def CacheFit (s : Srv δ) : Prop := ∀ u e, s.cache.get u = some e → e.data.length < 2 ^ 32

structure Good (cfg : Cfg δ) (s : Srv δ) (c : Client) : Prop where
  inv : Inv s c
  docs : DocsFit cfg s
  cache : CacheFit s

theorem getDoc_setDoc (docs : List (Uri × δ)) (u u' : Uri) (d : δ) :
    getDoc (setDoc docs u d) u' = if u = u' then some d else getDoc docs u' := by
  by_cases h : u = u'
  · subst h; simp [getDoc, setDoc]
  · have h2 : (u == u') = false := by simpa using h
    simp only [getDoc, setDoc, List.find?, h2, if_neg h]
    congr 1
    unfold eraseDoc
    induction docs with
    | nil => rfl
    | cons e rest ih =>
      by_cases he : e.1 = u
      · have h1 : (e.1 != u) = false := by simp [he]
        have h3 : (e.1 == u') = false := by simp [he]; exact h
        simp only [List.filter, h1, List.find?, h3]; exact ih
      · have h1 : (e.1 != u) = true := by simp [he]
        simp only [List.filter, h1, List.find?]
        by_cases h3 : e.1 = u'
        · simp [h3]
        · have : (e.1 == u') = false := by simp [h3]
          simp only [this]; exact ih

theorem getDoc_eraseDoc (docs : List (Uri × δ)) (u u' : Uri) (d : δ)
    (h : getDoc (eraseDoc docs u) u' = some d) : getDoc docs u' = some d := by
  unfold eraseDoc getDoc at *
  induction docs with
  | nil => simp at h
  | cons e rest ih =>
    by_cases he : e.1 = u
    · have h1 : (e.1 != u) = false := by simp [he]
      simp only [List.filter, h1] at h
      have := ih h
      by_cases h3 : e.1 = u'
      · -- then u = u', but erase removed every entry for u
        exfalso
        have hu : u = u' := he ▸ h3
        subst hu
        have hn : List.find? (fun x => x.1 == u) (List.filter (fun x => x.1 != u) rest) = none := by
          rw [List.find?_eq_none]
          intro x hx
          have := (List.mem_filter.mp hx).2
          simpa using this
        simp [hn] at h
      · have : (e.1 == u') = false := by simp [h3]
        simp only [List.find?, this]; exact ih h
    · have h1 : (e.1 != u) = true := by simp [he]
      simp only [List.filter, h1, List.find?] at h
      simp only [List.find?]
      by_cases h3 : e.1 = u'
      · simp [h3] at h ⊢; exact h
      · have : (e.1 == u') = false := by simp [h3]
        simp only [this] at h ⊢; exact ih h

theorem lookup_store_same (c : Client) (u : Uri) (id : String) (d : Data) (h : id ≠ "") :
    (c.store u id d).lookup u id = some d := by
  simp [Client.store, Client.lookup, h]

theorem lookup_store_ne (c : Client) (u u' : Uri) (id id' : String) (d : Data) (h : u' ≠ u) :
    (c.store u id d).lookup u' id' = c.lookup u' id' := by
  unfold Client.store Client.lookup
  by_cases hid : id = ""
  · simp [hid]
  · have : (((u, id) : Uri × String) == (u', id')) = false := by
      simp; intro h'; exact absurd h'.symm h
    simp [hid, this]

theorem shown_store (c : Client) (u : Uri) (id : String) (d : Data) :
    (c.store u id d).shown u = some d := by
  simp [Client.store, Client.shown]

/-- After `cacheSet` + the client storing the same array under the returned id. -/
theorem good_cacheSet (cfg : Cfg δ) (s : Srv δ) (c : Client) (u : Uri) (data : Data)
    (hg : Good cfg s c) (hd : data.length < 2 ^ 32) :
    Good cfg (cacheSet s u data).1 (c.store u (cacheSet s u data).2 data) := by
  refine ⟨?_, ?_, ?_⟩
  · intro u' e he
    simp only [cacheSet] at he ⊢
    by_cases hu : u' = u
    · subst hu
      rw [cache_get_set_self] at he
      cases he
      exact lookup_store_same _ _ _ _ (fmtId_ne_empty _)
    · rw [cache_get_set_ne _ _ _ _ hu] at he
      rw [lookup_store_ne _ _ _ _ _ _ hu]
      exact hg.inv u' e he
  · exact hg.docs
  · intro u' e he
    simp only [cacheSet] at he
    by_cases hu : u' = u
    · subst hu
      rw [cache_get_set_self] at he
      cases he; exact hd
    · rw [cache_get_set_ne _ _ _ _ hu] at he
      exact hg.cache u' e he

theorem good_store_empty (cfg : Cfg δ) (s : Srv δ) (c : Client) (u : Uri) (d : Data)
    (hg : Good cfg s c) : Good cfg s (c.store u "" d) := by
  refine ⟨?_, hg.docs, hg.cache⟩
  intro u' e he
  have := hg.inv u' e he
  simpa [Client.store, Client.lookup] using this

theorem liveDoc_fits (cfg : Cfg δ) (s : Srv δ) (u : Uri) (d : δ) (hg : DocsFit cfg s)
    (h : liveDoc cfg s u = some d) : fits cfg d := by
  unfold liveDoc at h
  split at h
  · rename_i d' hd
    split at h
    · cases h
    · cases h; exact hg u _ hd
  · cases h

/-- One request, its response, and the client's reaction: the invariant is kept, and after a
    full or delta request the client shows the full result for the current text. -/
theorem step_good (cfg : Cfg δ) (s : Srv δ) (c : Client) (rq : Req δ)
    (hg : Good cfg s c) (hrq : FitsReq cfg rq) :
    Good cfg (step cfg s rq).1 (c.step rq (step cfg s rq).2) ∧
    (∀ u, (rq = .full u ∨ ∃ p, rq = .delta u p) →
      (c.step rq (step cfg s rq).2).shown u = some (fullData cfg (step cfg s rq).1 u)) := by
  cases rq with
  | setDoc u d =>
    refine ⟨⟨hg.inv, ?_, hg.cache⟩, ?_⟩
    · intro u' d' hd
      simp only [step, getDoc_setDoc] at hd
      split at hd
      · cases hd; exact hrq
      · exact hg.docs u' d' hd
    · intro u' h; rcases h with h | ⟨p, h⟩ <;> cases h
  | close u =>
    refine ⟨⟨?_, ?_, ?_⟩, ?_⟩
    · intro u' e he
      simp only [step] at he
      by_cases hu : u' = u
      · subst hu; rw [cache_get_erase_self] at he; cases he
      · rw [cache_get_erase_ne _ _ _ hu] at he; exact hg.inv u' e he
    · intro u' d' hd
      exact hg.docs u' d' (getDoc_eraseDoc _ _ _ _ hd)
    · intro u' e he
      simp only [step] at he
      by_cases hu : u' = u
      · subst hu; rw [cache_get_erase_self] at he; cases he
      · rw [cache_get_erase_ne _ _ _ hu] at he; exact hg.cache u' e he
    · intro u' h; rcases h with h | ⟨p, h⟩ <;> cases h
  | range u lo hi =>
    refine ⟨?_, ?_⟩
    · simp only [step]
      split <;> exact hg
    · intro u' h; rcases h with h | ⟨p, h⟩ <;> cases h
  | full u =>
    simp only [step, Client.step]
    cases hl : liveDoc cfg s u with
    | none =>
      refine ⟨good_store_empty cfg s c u [] hg, ?_⟩
      intro u' h
      rcases h with h | ⟨p, h⟩ <;> cases h
      simp [Client.recv, shown_store, fullData, hl]
    | some d =>
      have hf := liveDoc_fits cfg s u d hg.docs hl
      refine ⟨good_cacheSet cfg s c u _ hg hf, ?_⟩
      intro u' h
      rcases h with h | ⟨p, h⟩ <;> cases h
      have : liveDoc cfg (cacheSet s u (encodeTokens (cfg.tok d))).1 u = some d := by
        simpa [liveDoc, cacheSet] using hl
      simp [Client.recv, shown_store, fullData, this]
  | delta u prev =>
    simp only [step, Client.step]
    cases hl : liveDoc cfg s u with
    | none =>
      refine ⟨good_store_empty cfg s c u [] hg, ?_⟩
      intro u' h
      rcases h with h | ⟨p, h⟩ <;> cases h
      simp [Client.recv, shown_store, fullData, hl]
    | some d =>
      have hf := liveDoc_fits cfg s u d hg.docs hl
      have hlive : liveDoc cfg (cacheSet s u (encodeTokens (cfg.tok d))).1 u = some d := by
        simpa [liveDoc, cacheSet] using hl
      cases hc : s.cache.get u with
      | none =>
        refine ⟨good_cacheSet cfg s c u _ hg hf, ?_⟩
        intro u' h
        rcases h with h | ⟨p, h⟩ <;> cases h
        simp [Client.recv, shown_store, fullData, hlive]
      | some e =>
        by_cases hid : e.id = prev
        · have hne : (e.id != prev) = false := by simp [hid]
          simp only [hne, Bool.false_eq_true, if_false]
          have hbase : c.lookup u prev = some e.data := hid ▸ hg.inv u e hc
          have happly : applyEdits e.data (computeEdits e.data (encodeTokens (cfg.tok d)))
              = encodeTokens (cfg.tok d) := computeEdits_apply _ _ (hg.cache u e hc)
          have hrecv : c.recv u (some prev)
              (Resp.delta (cacheSet s u (encodeTokens (cfg.tok d))).2
                (computeEdits e.data (encodeTokens (cfg.tok d))))
              = c.store u (cacheSet s u (encodeTokens (cfg.tok d))).2 (encodeTokens (cfg.tok d)) := by
            simp [Client.recv, hbase, happly]
          rw [hrecv]
          refine ⟨good_cacheSet cfg s c u _ hg hf, ?_⟩
          intro u' h
          rcases h with h | ⟨p, h⟩ <;> cases h
          simp [shown_store, fullData, hlive]
        · have hne : (e.id != prev) = true := by simp [hid]
          simp only [hne, if_true]
          refine ⟨good_cacheSet cfg s c u _ hg hf, ?_⟩
          intro u' h
          rcases h with h | ⟨p, h⟩ <;> cases h
          simp [Client.recv, shown_store, fullData, hlive]

/-- Server and memoryful client run through a history. -/
def run (cfg : Cfg δ) : Srv δ × Client → List (Req δ) → Srv δ × Client
  | sc, [] => sc
  | (s, c), rq :: rest =>
    let r := step cfg s rq
    run cfg (r.1, c.step rq r.2) rest

theorem run_append (cfg : Cfg δ) (sc : Srv δ × Client) (a b : List (Req δ)) :
    run cfg sc (a ++ b) = run cfg (run cfg sc a) b := by
  induction a generalizing sc with
  | nil => rfl
  | cons rq rest ih => obtain ⟨s, c⟩ := sc; simp [run, ih]

theorem run_good (cfg : Cfg δ) (s : Srv δ) (c : Client) (reqs : List (Req δ))
    (hg : Good cfg s c) (hf : ∀ r ∈ reqs, FitsReq cfg r) :
    Good cfg (run cfg (s, c) reqs).1 (run cfg (s, c) reqs).2 := by
  induction reqs generalizing s c with
  | nil => exact hg
  | cons rq rest ih =>
    simp only [run]
    exact ih _ _ (step_good cfg s c rq hg (hf rq List.mem_cons_self)).1
      (fun r hr => hf r (List.mem_cons_of_mem _ hr))

end HL.Lemmas.SemTok

namespace HL.Lemmas.SemTok
open HL HL.SemTok HL.SemTokSpec

/-! ### result ids are fresh -/

variable {δ : Type}

/-- The result id a response carries (`none` when absent). -/
def respId? : Resp → Option String
  | .tokens id _ => if id = "" then none else some id
  | .delta id _ => if id = "" then none else some id
  | .none => none

/-- The responses of a history. -/
def resps (cfg : Cfg δ) : Srv δ → List (Req δ) → List Resp
  | _, [] => []
  | s, rq :: rest => (step cfg s rq).2 :: resps cfg (step cfg s rq).1 rest

def issued (cfg : Cfg δ) (s : Srv δ) (reqs : List (Req δ)) : List String :=
  (resps cfg s reqs).filterMap respId?

/-- A request either leaves the counter alone and returns no id, or increments it and returns
    the new value in decimal. -/
theorem step_id (cfg : Cfg δ) (s : Srv δ) (rq : Req δ) :
    ((step cfg s rq).1.next = s.next ∧ respId? (step cfg s rq).2 = none) ∨
    ((step cfg s rq).1.next = s.next + 1 ∧ respId? (step cfg s rq).2 = some (fmtId (s.next + 1))) := by
  have hne : ∀ n : UInt64, (if fmtId n = "" then none else some (fmtId n)) = some (fmtId n) := by
    intro n; simp [fmtId_ne_empty]
  cases rq with
  | setDoc u d => left; simp [step, respId?]
  | close u => left; simp [step, respId?]
  | range u lo hi => left; simp only [step]; split <;> simp [respId?]
  | full u =>
    simp only [step]
    split
    · left; simp [respId?]
    · right; simp [cacheSet, respId?]; exact hne _
  | delta u prev =>
    simp only [step]
    split
    · left; simp [respId?]
    · right
      split
      · split <;> (simp [cacheSet, respId?]; exact hne _)
      · simp [cacheSet, respId?]; exact hne _

theorem toString_nat_inj {a b : Nat} (h : toString a = toString b) : a = b := by
  rw [Nat.toString_eq_repr, Nat.toString_eq_repr] at h
  exact Nat.repr_injective h

theorem issued_range (cfg : Cfg δ) (s : Srv δ) (reqs : List (Req δ))
    (h : s.next.toNat + reqs.length < 2 ^ 64) :
    (∀ id ∈ issued cfg s reqs, ∃ k, s.next.toNat < k ∧ k ≤ s.next.toNat + reqs.length ∧ id = toString k) ∧
    (issued cfg s reqs).Pairwise (· ≠ ·) := by
  induction reqs generalizing s with
  | nil => simp [issued, resps]
  | cons rq rest ih =>
    simp only [List.length_cons] at h
    rcases step_id cfg s rq with ⟨hn, hid⟩ | ⟨hn, hid⟩
    · have h' : (step cfg s rq).1.next.toNat + rest.length < 2 ^ 64 := by rw [hn]; omega
      have := ih (step cfg s rq).1 h'
      have hiss : issued cfg s (rq :: rest) = issued cfg (step cfg s rq).1 rest := by
        simp [issued, resps, hid]
      rw [hiss, hn] at *
      refine ⟨?_, this.2⟩
      intro id hmem
      obtain ⟨k, h1, h2, h3⟩ := this.1 id hmem
      exact ⟨k, h1, by simp only [List.length_cons]; omega, h3⟩
    · have hnat : (s.next + 1).toNat = s.next.toNat + 1 := by
        rw [UInt64.toNat_add]; simp; omega
      have h' : (step cfg s rq).1.next.toNat + rest.length < 2 ^ 64 := by rw [hn, hnat]; omega
      have := ih (step cfg s rq).1 h'
      have hiss : issued cfg s (rq :: rest)
          = fmtId (s.next + 1) :: issued cfg (step cfg s rq).1 rest := by
        simp [issued, resps, hid]
      rw [hiss]
      rw [hn, hnat] at this
      refine ⟨?_, ?_⟩
      · intro id hmem
        rcases List.mem_cons.mp hmem with rfl | hmem
        · exact ⟨s.next.toNat + 1, by omega, by simp only [List.length_cons]; omega, by simp [fmtId, hnat]⟩
        · obtain ⟨k, h1, h2, h3⟩ := this.1 id hmem
          exact ⟨k, by omega, by simp only [List.length_cons]; omega, h3⟩
      · rw [List.pairwise_cons]
        refine ⟨?_, this.2⟩
        intro id hmem heq
        obtain ⟨k, h1, _, h3⟩ := this.1 id hmem
        rw [h3, fmtId, hnat] at heq
        have := toString_nat_inj heq
        omega

end HL.Lemmas.SemTok

namespace HL.Lemmas.SemTok
open HL HL.SemTok HL.SemTokSpec

/-! ### the latest-only client -/

variable {δ : Type}

def Inv1 (s : Srv δ) (c : Client1) : Prop :=
  ∀ u e d, s.cache.get u = some e → Client1.get c u = some (e.id, d) → d = e.data

def CacheIds (s : Srv δ) : Prop := ∀ u e, s.cache.get u = some e → e.id ≠ ""

structure Good1 (cfg : Cfg δ) (s : Srv δ) (c : Client1) : Prop where
  inv : Inv1 s c
  ids : CacheIds s
  docs : DocsFit cfg s
  cache : CacheFit s

/-- A delta request of a conforming client names the result it currently holds. -/
def Conforming (c : Client1) : Req δ → Prop
  | .delta u prev => ∃ d, Client1.get c u = some (prev, d)
  | _ => True

theorem get1_cons_self (c : Client1) (u : Uri) (x : String × Data) :
    Client1.get ((u, x) :: c) u = some x := by simp [Client1.get]

theorem get1_cons_ne (c : Client1) (u u' : Uri) (x : String × Data) (h : u' ≠ u) :
    Client1.get ((u, x) :: c) u' = Client1.get c u' := by
  have : (u == u') = false := by simp; exact fun h' => h h'.symm
  simp [Client1.get, List.find?, this]

theorem good1_cacheSet (cfg : Cfg δ) (s : Srv δ) (c : Client1) (u : Uri) (data : Data)
    (hg : Good1 cfg s c) (hd : data.length < 2 ^ 32) :
    Good1 cfg (cacheSet s u data).1 ((u, ((cacheSet s u data).2, data)) :: c) := by
  refine ⟨?_, ?_, hg.docs, ?_⟩
  · intro u' e d he hc
    simp only [cacheSet] at he hc
    by_cases hu : u' = u
    · subst hu
      rw [cache_get_set_self] at he
      rw [get1_cons_self] at hc
      cases he; cases hc; rfl
    · rw [cache_get_set_ne _ _ _ _ hu] at he
      rw [get1_cons_ne _ _ _ _ hu] at hc
      exact hg.inv u' e d he hc
  · intro u' e he
    simp only [cacheSet] at he
    by_cases hu : u' = u
    · subst hu; rw [cache_get_set_self] at he; cases he; exact fmtId_ne_empty _
    · rw [cache_get_set_ne _ _ _ _ hu] at he; exact hg.ids u' e he
  · intro u' e he
    simp only [cacheSet] at he
    by_cases hu : u' = u
    · subst hu; rw [cache_get_set_self] at he; cases he; exact hd
    · rw [cache_get_set_ne _ _ _ _ hu] at he; exact hg.cache u' e he

theorem good1_empty (cfg : Cfg δ) (s : Srv δ) (c : Client1) (u : Uri)
    (hg : Good1 cfg s c) : Good1 cfg s ((u, ("", [])) :: c) := by
  refine ⟨?_, hg.ids, hg.docs, hg.cache⟩
  intro u' e d he hc
  by_cases hu : u' = u
  · subst hu
    rw [get1_cons_self] at hc
    have h : e.id = "" := by
      have := congrArg (fun o => o.map (·.1)) hc
      simpa using this.symm
    exact absurd h (hg.ids _ e he)
  · rw [get1_cons_ne _ _ _ _ hu] at hc
    exact hg.inv u' e d he hc

theorem step_good1 (cfg : Cfg δ) (s : Srv δ) (c : Client1) (rq : Req δ)
    (hg : Good1 cfg s c) (hrq : FitsReq cfg rq) (hconf : Conforming c rq) :
    Good1 cfg (step cfg s rq).1 (Client1.step c rq (step cfg s rq).2) ∧
    (∀ u, (rq = .full u ∨ ∃ p, rq = .delta u p) →
      (Client1.get (Client1.step c rq (step cfg s rq).2) u).map (·.2)
        = some (fullData cfg (step cfg s rq).1 u)) := by
  cases rq with
  | setDoc u d =>
    refine ⟨⟨hg.inv, hg.ids, ?_, hg.cache⟩, ?_⟩
    · intro u' d' hd
      simp only [step, getDoc_setDoc] at hd
      split at hd
      · cases hd; exact hrq
      · exact hg.docs u' d' hd
    · intro u' h; rcases h with h | ⟨p, h⟩ <;> cases h
  | close u =>
    refine ⟨⟨?_, ?_, ?_, ?_⟩, ?_⟩
    · intro u' e d he hc
      simp only [step] at he
      by_cases hu : u' = u
      · subst hu; rw [cache_get_erase_self] at he; cases he
      · rw [cache_get_erase_ne _ _ _ hu] at he; exact hg.inv u' e d he hc
    · intro u' e he
      simp only [step] at he
      by_cases hu : u' = u
      · subst hu; rw [cache_get_erase_self] at he; cases he
      · rw [cache_get_erase_ne _ _ _ hu] at he; exact hg.ids u' e he
    · intro u' d' hd
      exact hg.docs u' d' (getDoc_eraseDoc _ _ _ _ hd)
    · intro u' e he
      simp only [step] at he
      by_cases hu : u' = u
      · subst hu; rw [cache_get_erase_self] at he; cases he
      · rw [cache_get_erase_ne _ _ _ hu] at he; exact hg.cache u' e he
    · intro u' h; rcases h with h | ⟨p, h⟩ <;> cases h
  | range u lo hi =>
    refine ⟨?_, ?_⟩
    · simp only [step]
      split <;> exact hg
    · intro u' h; rcases h with h | ⟨p, h⟩ <;> cases h
  | full u =>
    simp only [step, Client1.step]
    cases hl : liveDoc cfg s u with
    | none =>
      refine ⟨good1_empty cfg s c u hg, ?_⟩
      intro u' h
      rcases h with h | ⟨p, h⟩ <;> cases h
      simp [Client1.recv, get1_cons_self, fullData, hl]
    | some d =>
      have hf := liveDoc_fits cfg s u d hg.docs hl
      refine ⟨good1_cacheSet cfg s c u _ hg hf, ?_⟩
      intro u' h
      rcases h with h | ⟨p, h⟩ <;> cases h
      have : liveDoc cfg (cacheSet s u (encodeTokens (cfg.tok d))).1 u = some d := by
        simpa [liveDoc, cacheSet] using hl
      simp [Client1.recv, get1_cons_self, fullData, this]
  | delta u prev =>
    simp only [step, Client1.step]
    cases hl : liveDoc cfg s u with
    | none =>
      refine ⟨good1_empty cfg s c u hg, ?_⟩
      intro u' h
      rcases h with h | ⟨p, h⟩ <;> cases h
      simp [Client1.recv, get1_cons_self, fullData, hl]
    | some d =>
      have hf := liveDoc_fits cfg s u d hg.docs hl
      have hlive : liveDoc cfg (cacheSet s u (encodeTokens (cfg.tok d))).1 u = some d := by
        simpa [liveDoc, cacheSet] using hl
      cases hc : s.cache.get u with
      | none =>
        refine ⟨good1_cacheSet cfg s c u _ hg hf, ?_⟩
        intro u' h
        rcases h with h | ⟨p, h⟩ <;> cases h
        simp [Client1.recv, get1_cons_self, fullData, hlive]
      | some e =>
        by_cases hid : e.id = prev
        · have hne : (e.id != prev) = false := by simp [hid]
          simp only [hne, Bool.false_eq_true, if_false]
          obtain ⟨d0, hd0⟩ := hconf
          have hbase : d0 = e.data := hg.inv u e d0 hc (hid ▸ hd0)
          have happly : applyEdits e.data (computeEdits e.data (encodeTokens (cfg.tok d)))
              = encodeTokens (cfg.tok d) := computeEdits_apply _ _ (hg.cache u e hc)
          have hrecv : Client1.recv c u
              (Resp.delta (cacheSet s u (encodeTokens (cfg.tok d))).2
                (computeEdits e.data (encodeTokens (cfg.tok d))))
              = (u, ((cacheSet s u (encodeTokens (cfg.tok d))).2, encodeTokens (cfg.tok d))) :: c := by
            simp [Client1.recv, hd0, hbase, happly]
          rw [hrecv]
          refine ⟨good1_cacheSet cfg s c u _ hg hf, ?_⟩
          intro u' h
          rcases h with h | ⟨p, h⟩ <;> cases h
          simp [get1_cons_self, fullData, hlive]
        · have hne : (e.id != prev) = true := by simp [hid]
          simp only [hne, if_true]
          refine ⟨good1_cacheSet cfg s c u _ hg hf, ?_⟩
          intro u' h
          rcases h with h | ⟨p, h⟩ <;> cases h
          simp [Client1.recv, get1_cons_self, fullData, hlive]

/-- Server and latest-only client through a history. -/
def run1 (cfg : Cfg δ) : Srv δ × Client1 → List (Req δ) → Srv δ × Client1
  | sc, [] => sc
  | (s, c), rq :: rest =>
    let r := step cfg s rq
    run1 cfg (r.1, Client1.step c rq r.2) rest

/-- Every delta request of the history names the result the client holds at that moment. -/
def conformingRun (cfg : Cfg δ) : Srv δ × Client1 → List (Req δ) → Prop
  | _, [] => True
  | (s, c), rq :: rest =>
    Conforming c rq ∧
    let r := step cfg s rq
    conformingRun cfg (r.1, Client1.step c rq r.2) rest

theorem run1_good (cfg : Cfg δ) (s : Srv δ) (c : Client1) (reqs : List (Req δ)) (rq : Req δ)
    (hg : Good1 cfg s c) (hf : ∀ r ∈ reqs ++ [rq], FitsReq cfg r)
    (hc : conformingRun cfg (s, c) (reqs ++ [rq])) (u : Uri)
    (hrq : rq = .full u ∨ ∃ p, rq = .delta u p) :
    (Client1.get (run1 cfg (s, c) (reqs ++ [rq])).2 u).map (·.2)
      = some (fullData cfg (run1 cfg (s, c) (reqs ++ [rq])).1 u) := by
  induction reqs generalizing s c with
  | nil =>
    simp only [List.nil_append, run1]
    exact (step_good1 cfg s c rq hg (hf rq (by simp)) hc.1).2 u hrq
  | cons r rest ih =>
    simp only [List.cons_append, run1]
    have hc' : Conforming c r ∧ conformingRun cfg ((step cfg s r).1, Client1.step c r (step cfg s r).2) (rest ++ [rq]) := hc
    exact ih _ _ (step_good1 cfg s c r hg (hf r (by simp)) hc'.1).1
      (fun x hx => hf x (by simp at hx ⊢; right; exact hx)) hc'.2

end HL.Lemmas.SemTok
