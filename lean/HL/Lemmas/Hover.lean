/-
  Helper lemmas for C20 (hover): exact decimal addition, association-list balances, counting
  loops, the refinement map from syntax trees to the specification's ground-truth shape,
  permutation invariance of the specification's aggregates.
-/
import HL.Model.Hover
import HL.Spec.HoverSpec
namespace HL.Lemmas.Hover
open HL HL.Ast HL.Hover HL.HoverSpec

/-! ### Decimals -/

theorem ten_ne : (10 : Rat) ≠ 0 := by decide

theorem pow_split (e : Int) (n : Nat) :
    (10 : Rat) ^ (e + (n : Int)) = (10 : Rat) ^ e * (((10 : Int) ^ n : Int) : Rat) := by
  rw [Rat.zpow_add ten_ne, Rat.zpow_natCast]
  simp [Rat.intCast_pow]

/-- `Decimal.Add` is exact. -/
theorem decAdd_exact (a b : Dec) : decToRat (decAdd a b) = decToRat a + decToRat b := by
  unfold decAdd decToRat
  split
  · next h =>
    have hb : b.exp = a.exp + ((b.exp - a.exp).toNat : Int) := by omega
    generalize (b.exp - a.exp).toNat = n at hb
    simp only []
    rw [hb, pow_split]
    simp only [Rat.intCast_add, Rat.intCast_mul]
    grind
  · split
    · next h1 h =>
      have hb : a.exp = b.exp + ((a.exp - b.exp).toNat : Int) := by omega
      generalize (a.exp - b.exp).toNat = n at hb
      simp only []
      rw [hb, pow_split]
      simp only [Rat.intCast_add, Rat.intCast_mul]
      grind
    · next h1 h2 =>
      have : a.exp = b.exp := by omega
      simp only [this, Rat.intCast_add]
      grind

theorem decZero_toRat : decToRat decZero = 0 := by
  simp [decToRat, decZero]

/-! ### The refinement map: what a syntax tree says, in the specification's shape -/

def absTag (t : Tag) : Bytes × Bytes := (t.name, t.value)

def absPosting (p : Posting) : GPosting :=
  { account := p.account.name
    amount := p.amount.map fun a => ⟨decToRat a.quantity, a.commodity.symbol⟩
    cost := p.cost.map fun c => ⟨c.isTotal, decToRat c.amount.quantity, c.amount.commodity.symbol⟩
    tags := p.tags.map absTag }

def absTx (tx : Transaction) : GTx :=
  { payee := payeeOrDescription tx
    tags := (tx.comments.flatMap (·.tags)).map absTag
    postings := tx.postings.map absPosting }

def allPostings (txs : List Transaction) : List Posting := txs.flatMap (·.postings)

theorem postingsOf_abs (txs : List Transaction) :
    postingsOf (txs.map absTx) = (allPostings txs).map absPosting := by
  induction txs with
  | nil => rfl
  | cons t ts ih =>
    simp only [postingsOf, allPostings, List.map_cons, List.flatMap_cons, List.map_append] at *
    rw [ih]; rfl

theorem tagsOf_abs (txs : List Transaction) :
    tagsOf (txs.map absTx) = (allTags txs).map absTag := by
  induction txs with
  | nil => rfl
  | cons t ts ih =>
    simp only [tagsOf, allTags, List.map_cons, List.flatMap_cons, List.map_append] at *
    rw [ih]
    congr 1
    simp only [absTx, List.flatMap_map, List.map_flatMap, absPosting]

/-! ### Counting loops -/

theorem foldl_count {α} (P : α → Bool) (l : List α) (n : Nat) :
    l.foldl (fun n x => if P x then n + 1 else n) n = n + l.countP P := by
  induction l generalizing n with
  | nil => simp
  | cons x xs ih =>
    simp only [List.foldl_cons, List.countP_cons]
    rw [ih]
    cases h : P x <;> simp <;> omega

theorem countPostings_eq (a : Bytes) (txs : List Transaction) :
    countPostings a txs = (allPostings txs).countP (fun p => p.account.name == a) := by
  unfold countPostings
  suffices h : ∀ n, txs.foldl (fun n tx => tx.postings.foldl
      (fun n p => if p.account.name == a then n + 1 else n) n) n
      = n + (allPostings txs).countP (fun p => p.account.name == a) by simpa using h 0
  induction txs with
  | nil => intro n; simp [allPostings]
  | cons t ts ih =>
    intro n
    simp only [List.foldl_cons, allPostings, List.flatMap_cons, List.countP_append]
    rw [foldl_count (fun p : Posting => p.account.name == a), ih]
    simp only [allPostings]; omega

/-! ### Balances -/

/-- The exact value stored for a key. -/
def balVal (m : Balances) (k : Bytes × Bytes) : Option Rat := (balLookup m k).map decToRat

theorem balVal_balAdd (m : Balances) (k k' : Bytes × Bytes) (q : Dec) :
    balVal (balAdd m k q) k' =
      if k' = k then some ((balVal m k).getD 0 + decToRat q) else balVal m k' := by
  induction m with
  | nil =>
    by_cases h : k' = k
    · subst h; simp [balVal, balAdd, balLookup, decAdd_exact, decZero_toRat]
    · have : (k == k') = false := by simpa using fun e => h e.symm
      simp [balVal, balAdd, balLookup, h, this]
  | cons e r ih =>
    obtain ⟨ke, v⟩ := e
    unfold balAdd
    by_cases hk : ke = k
    · subst hk
      by_cases h : k' = ke
      · subst h; simp [balVal, balLookup, decAdd_exact]
      · have : (ke == k') = false := by simpa using fun e => h e.symm
        simp [balVal, balLookup, h, this]
    · simp only [hk, if_false]
      by_cases h : k' = k
      · subst h
        have h1 : (ke == k') = false := by simpa using hk
        have ih' := ih
        simp only [balVal, balLookup, if_true] at ih'
        simp only [balVal, balLookup, List.find?_cons, h1, if_true]
        exact ih'
      · by_cases h2 : ke = k'
        · subst h2; simp [balVal, balLookup, h]
        · have h1 : (ke == k') = false := by simpa using h2
          have ih' := ih
          simp only [balVal, balLookup, h, if_false] at ih'
          simp only [balVal, balLookup, List.find?_cons, h1, h, if_false]
          exact ih'

/-- Running accumulation of an optional sum. -/
def accF (o : Option Rat) (l : List Rat) : Option Rat :=
  l.foldl (fun o q => some (o.getD 0 + q)) o

theorem accF_some (x : Rat) (l : List Rat) : accF (some x) l = some (x + HoverSpec.sum l) := by
  induction l generalizing x with
  | nil => simp [accF, HoverSpec.sum, Rat.add_zero]
  | cons q l ih =>
    simp only [accF, List.foldl_cons, Option.getD_some, HoverSpec.sum] at *
    rw [ih, Rat.add_assoc]

theorem accF_none (l : List Rat) :
    accF none l = (match l with | [] => none | _ => some (HoverSpec.sum l)) := by
  cases l with
  | nil => rfl
  | cons q l =>
    have := accF_some (0 + q) l
    simp only [accF, List.foldl_cons, Option.getD_none, HoverSpec.sum] at *
    rw [this, Rat.zero_add]

theorem balVal_balPostings (m : Balances) (ps : List Posting) (a c : Bytes) :
    balVal (balPostings m ps) (a, c) =
      accF (balVal m (a, c)) ((ps.map absPosting).filterMap (contrib a c)) := by
  induction ps generalizing m with
  | nil => simp [balPostings, accF]
  | cons p ps ih =>
    have hstep : balPostings m (p :: ps) = balPostings
        (match p.amount with | none => m | some am => balAdd m (p.account.name, am.commodity.symbol) am.quantity) ps := by
      rfl
    rw [hstep, ih]
    cases hp : p.amount with
    | none => simp [contrib, absPosting, hp]
    | some am =>
      simp only [List.map_cons, List.filterMap_cons]
      by_cases hk : p.account.name = a ∧ am.commodity.symbol = c
      · obtain ⟨h1, h2⟩ := hk
        subst h1 h2
        simp [contrib, absPosting, hp, balVal_balAdd, accF]
      · have hne : ((a, c) : Bytes × Bytes) ≠ (p.account.name, am.commodity.symbol) := by
          intro e; apply hk; cases e; exact ⟨rfl, rfl⟩
        have hc : contrib a c (absPosting p) = none := by
          simp only [contrib, absPosting, hp, Option.map_some]
          by_cases h1 : p.account.name = a
          · have h2 : ¬ am.commodity.symbol = c := fun h => hk ⟨h1, h⟩
            simp [h1, h2]
          · simp [h1]
        simp [hc, balVal_balAdd, hne]

theorem accountBalances_eq (txs : List Transaction) :
    accountBalances txs = balPostings [] (allPostings txs) := by
  unfold accountBalances
  suffices h : ∀ m, txs.foldl (fun m tx => balPostings m tx.postings) m = balPostings m (allPostings txs) from h []
  induction txs with
  | nil => intro m; simp [allPostings, balPostings]
  | cons t ts ih =>
    intro m
    simp only [List.foldl_cons, allPostings, List.flatMap_cons]
    rw [ih]
    simp [balPostings, allPostings, List.foldl_append]

/-! ### Permutation invariance of the specification's aggregates -/

theorem sum_perm {l l' : List Rat} (h : l.Perm l') : HoverSpec.sum l = HoverSpec.sum l' := by
  induction h with
  | nil => rfl
  | cons x _ ih => simp [HoverSpec.sum, ih]
  | swap x y l => simp only [HoverSpec.sum]; grind
  | trans _ _ ih1 ih2 => exact ih1.trans ih2

/-! ### The lines of the "Balance" section -/

def keys (m : Balances) : List (Bytes × Bytes) := m.map (·.1)

theorem keys_balAdd (m : Balances) (k : Bytes × Bytes) (q : Dec) :
    keys (balAdd m k q) = if k ∈ keys m then keys m else keys m ++ [k] := by
  induction m with
  | nil => simp [balAdd, keys]
  | cons e r ih =>
    obtain ⟨ke, v⟩ := e
    unfold balAdd
    by_cases hk : ke = k
    · subst hk; simp [keys]
    · have hk' : ¬ k = ke := fun e => hk e.symm
      simp only [hk, if_false]
      simp only [keys, List.map_cons, List.mem_cons, hk', false_or] at ih ⊢
      rw [ih]
      split <;> simp [*]

theorem nodup_balAdd (m : Balances) (k : Bytes × Bytes) (q : Dec) (h : (keys m).Nodup) :
    (keys (balAdd m k q)).Nodup := by
  rw [keys_balAdd]
  split
  · exact h
  · next hn =>
    rw [List.nodup_append]
    exact ⟨h, by simp, by intro a ha b hb; simp at hb; subst hb; intro e; subst e; exact hn ha⟩

theorem nodup_balPostings (m : Balances) (ps : List Posting) (h : (keys m).Nodup) :
    (keys (balPostings m ps)).Nodup := by
  induction ps generalizing m with
  | nil => simpa [balPostings] using h
  | cons p ps ih =>
    have hstep : balPostings m (p :: ps) = balPostings
        (match p.amount with | none => m | some am => balAdd m (p.account.name, am.commodity.symbol) am.quantity) ps := by
      rfl
    rw [hstep]
    apply ih
    cases p.amount with
    | none => exact h
    | some am => exact nodup_balAdd _ _ _ h

theorem nodup_accountBalances (txs : List Transaction) : (keys (accountBalances txs)).Nodup := by
  rw [accountBalances_eq]
  exact nodup_balPostings [] _ (by simp [keys])

theorem lookup_of_mem (m : Balances) (k : Bytes × Bytes) (v : Dec) (h : (keys m).Nodup)
    (hm : (k, v) ∈ m) : balLookup m k = some v := by
  induction m with
  | nil => cases hm
  | cons e r ih =>
    obtain ⟨ke, ve⟩ := e
    simp only [keys, List.map_cons, List.nodup_cons] at h
    rcases List.mem_cons.mp hm with heq | hr
    · cases heq; simp [balLookup]
    · have hne : ke ≠ k := by
        intro e; subst e
        exact h.1 (List.mem_map.mpr ⟨(ke, v), hr, rfl⟩)
      have hb : (ke == k) = false := by simpa using hne
      have := ih h.2 hr
      simp only [balLookup, List.find?_cons, hb] at this ⊢
      exact this

theorem mem_of_lookup (m : Balances) (k : Bytes × Bytes) (v : Dec) (h : balLookup m k = some v) :
    (k, v) ∈ m := by
  induction m with
  | nil => simp [balLookup] at h
  | cons e r ih =>
    obtain ⟨ke, ve⟩ := e
    by_cases hk : ke = k
    · subst hk
      simp [balLookup] at h
      subst h
      exact List.mem_cons_self
    · have hb : (ke == k) = false := by simpa using hk
      simp only [balLookup, List.find?_cons, hb] at h ih
      exact List.mem_cons_of_mem _ (ih h)

theorem mem_insertBy {α} (le : α → α → Bool) (x y : α) (l : List α) :
    y ∈ insertBy le x l ↔ y = x ∨ y ∈ l := by
  induction l with
  | nil => simp [insertBy]
  | cons z zs ih =>
    unfold insertBy
    split
    · simp
    · simp only [List.mem_cons, ih]
      grind

theorem mem_sortBy {α} (le : α → α → Bool) (y : α) (l : List α) : y ∈ sortBy le l ↔ y ∈ l := by
  induction l with
  | nil => simp [sortBy]
  | cons z zs ih =>
    simp only [sortBy, List.foldr_cons, List.mem_cons] at ih ⊢
    rw [mem_insertBy, ih]

theorem mem_lines (m : Balances) (a c : Bytes) (v : Dec) :
    (c, v) ∈ accountBalanceLines m a ↔ ((a, c), v) ∈ m := by
  unfold accountBalanceLines
  rw [mem_sortBy]
  simp only [List.mem_map, List.mem_filter, beq_iff_eq]
  constructor
  · rintro ⟨⟨⟨a', c'⟩, v'⟩, ⟨hm, ha⟩, he⟩
    simp only at ha he
    cases he; subst ha; exact hm
  · intro h
    exact ⟨((a, c), v), ⟨h, rfl⟩, rfl⟩

end HL.Lemmas.Hover
