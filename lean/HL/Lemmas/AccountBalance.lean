import HL.Model.Balance
import HL.Spec.BalanceSpec
import HL.Lemmas.Dec
import HL.Lemmas.Balance

/-! Lemmas for `Balance.accountBalances` and the hover counters (C20). -/
namespace HL
namespace Balance
open Ast Spec.Bal

/-- `balances[acct][c]` as an optional value (absent account or absent commodity: `none`). -/
def lookup (b : AccountBalances) (acct c : Bytes) : Option Dec :=
  (KV.find? b acct).bind fun inner => KV.find? inner c

theorem get_nil_find? (b : AccountBalances) (acct c : Bytes) :
    KV.find? (KV.get b acct []) c = lookup b acct c := by
  unfold lookup
  rw [KV.get_eq_find?]
  cases KV.find? b acct with
  | none => simp [KV.find?]
  | some inner => simp

theorem lookup_addPosting (b : AccountBalances) (p : Posting) (acct c : Bytes) :
    lookup (addPosting b p) acct c =
      match p.amount with
      | none => lookup b acct c
      | some a =>
        if p.account.name = acct ∧ a.commodity.symbol = c then
          some (Dec.add ((lookup b acct c).getD Dec.zero) a.quantity)
        else lookup b acct c := by
  unfold addPosting
  cases hA : p.amount with
  | none => rfl
  | some a =>
    simp only
    by_cases h1 : p.account.name = acct
    · subst h1
      unfold lookup
      rw [KV.find?_set_self]
      simp only [Option.bind_some]
      by_cases h2 : a.commodity.symbol = c
      · subst h2
        rw [KV.find?_set_self]
        simp only [and_self, if_true]
        rw [KV.get_eq_find?, get_nil_find?]
        rfl
      · rw [KV.find?_set_ne _ _ h2, get_nil_find?]
        simp [h2, lookup]
    · unfold lookup
      rw [KV.find?_set_ne _ _ h1]
      simp [h1]

/-- quantities explicitly posted to `acct` in commodity `c`, in order. -/
def expl (l : List Posting) (acct c : Bytes) : List Rat :=
  l.filterMap fun p => match p.amount with
    | some a => if p.account.name = acct ∧ a.commodity.symbol = c then some (Dec.toRat a.quantity) else none
    | none => none

theorem expl_cons (p : Posting) (r : List Posting) (acct c : Bytes) :
    expl (p :: r) acct c = (match p.amount with
      | some a => if p.account.name = acct ∧ a.commodity.symbol = c then [Dec.toRat a.quantity] else []
      | none => []) ++ expl r acct c := by
  unfold expl
  rw [List.filterMap_cons]
  cases p.amount with
  | none => simp
  | some a =>
    by_cases h : p.account.name = acct ∧ a.commodity.symbol = c <;> simp [h]

theorem foldl_addPosting_spec (l : List Posting) (b : AccountBalances) (acct c : Bytes) :
    ((lookup (l.foldl addPosting b) acct c).isSome ↔ (lookup b acct c).isSome ∨ expl l acct c ≠ []) ∧
    Dec.toRat ((lookup (l.foldl addPosting b) acct c).getD Dec.zero) =
      Dec.toRat ((lookup b acct c).getD Dec.zero) + sumRat (expl l acct c) := by
  induction l generalizing b with
  | nil => simp [expl, sumRat_nil, Rat.add_zero]
  | cons p r ih =>
    rw [List.foldl_cons]
    obtain ⟨ih1, ih2⟩ := ih (addPosting b p)
    rw [ih1, ih2, lookup_addPosting, expl_cons]
    cases hA : p.amount with
    | none => simp
    | some a =>
      by_cases h : p.account.name = acct ∧ a.commodity.symbol = c
      · simp only [h, and_self, if_true, Option.isSome_some, true_or, List.cons_append, List.nil_append,
          ne_eq, reduceCtorEq, not_false_eq_true, or_true, Option.getD_some, Dec.add_exact, sumRat_cons,
          true_and]
        grind
      · simp [h]

theorem foldl_flatMap_postings (txs : List Transaction) (b : AccountBalances) :
    txs.foldl (fun b tx => tx.postings.foldl addPosting b) b =
      (txs.flatMap (·.postings)).foldl addPosting b := by
  induction txs generalizing b with
  | nil => rfl
  | cons tx r ih => simp [List.foldl_cons, List.flatMap_cons, List.foldl_append, ih]

theorem explicit_image (txs : List Transaction) (acct c : Bytes) :
    ((explicit (txs.map image)).filterMap fun (x : Bytes × Bytes × Rat) =>
        if x.1 = acct ∧ x.2.1 = c then some x.2.2 else none) =
      expl (txs.flatMap (·.postings)) acct c := by
  induction txs with
  | nil => simp [explicit, expl]
  | cons tx r ih =>
    unfold explicit at ih ⊢
    rw [List.map_cons, List.flatMap_cons, List.filterMap_append, ih, List.flatMap_cons]
    unfold expl
    rw [List.filterMap_append]
    congr 1
    unfold image
    rw [List.filterMap_map, List.filterMap_filterMap]
    congr 1
    funext p
    simp only [Function.comp, imagePosting]
    cases p.amount with
    | none => simp
    | some a => simp [imageAmount]

/-- counting loops: `for … { if P { count++ } }`. -/
theorem foldl_count {α} (P : α → Bool) (l : List α) (k : Nat) :
    l.foldl (fun n x => if P x then n + 1 else n) k = k + (l.filter P).length := by
  induction l generalizing k with
  | nil => simp
  | cons a r ih =>
    rw [List.foldl_cons, ih, List.filter_cons]
    cases P a <;> simp <;> omega

end Balance
end HL
