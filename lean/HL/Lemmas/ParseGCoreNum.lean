import HL.Model.Parser
import HL.Lemmas.LexExtentTok
import HL.Spec.GCore
/-!
  What the parser's string helpers make of the lexemes of `GCore` (for digit strings of every
  length):

    atoi_digits        `strconv.Atoi` on up to 18 digits is their value
    splitDate, firstSepDate   `Y-M-D` splits at its two hyphens
    qty_ok             `normalizeNumber` leaves `[-] digits [. digits]` alone (side condition A
                       of DESIGN 4.3 is the hypothesis) and `decimal.NewFromString` reads it as
                       all its digits times ten to minus the number of decimals
-/
namespace HL.GCore
open HL HL.PStr HL.Parser

theorem digB_facts : ∀ c : UInt8, (!isDigitB c ||
    (isDigitByte c && c != 0x2D && c != 0x2B && c != 0x2E && c != 0x2C && c != 0x45 && c != 0x65 && c != 0x20 &&
     c != 0x2F && decide (c.toNat - 0x30 ≤ 9))) = true :=
  HL.Lex.forall_uint8 _ (by decide +kernel)

/-- all bytes are ASCII digits -/
def Digits (s : Bytes) : Prop := ∀ c ∈ s, isDigitB c = true

theorem Digits.facts {s : Bytes} (h : Digits s) {c : UInt8} (hc : c ∈ s) :
    isDigitByte c = true ∧ c ≠ 0x2D ∧ c ≠ 0x2B ∧ c ≠ 0x2E ∧ c ≠ 0x2C ∧ c ≠ 0x45 ∧ c ≠ 0x65 ∧ c ≠ 0x20 ∧
    c ≠ 0x2F ∧ c.toNat - 0x30 ≤ 9 := by
  have := digB_facts c
  simp only [h c hc, Bool.not_true, Bool.false_or, Bool.and_eq_true, bne_iff_ne, ne_eq, decide_eq_true_eq] at this
  obtain ⟨⟨⟨⟨⟨⟨⟨⟨⟨h0, h1⟩, h2⟩, h3⟩, h4⟩, h5⟩, h6⟩, h7⟩, h8⟩, h9⟩ := this
  exact ⟨h0, h1, h2, h3, h4, h5, h6, h7, h8, h9⟩

theorem Digits.append {a b : Bytes} (ha : Digits a) (hb : Digits b) : Digits (a ++ b) := by
  intro c hc; rcases List.mem_append.mp hc with h | h
  · exact ha c h
  · exact hb c h

theorem digitsNat_eq (s : Bytes) : digitsNat s = digitsVal s := rfl

/-! ### `strconv.Atoi` -/

theorem foldl_digits_lt (s : Bytes) (h : Digits s) : ∀ acc : Nat,
    s.foldl (fun a c => a * 10 + (c.toNat - 0x30)) acc < (acc + 1) * 10 ^ s.length := by
  induction s with
  | nil => intro acc; simp
  | cons c s ih =>
    intro acc
    have hc := (Digits.facts h (c := c) (by simp)).2.2.2.2.2.2.2.2.2
    have := ih (fun x hx => h x (by simp [hx])) (acc * 10 + (c.toNat - 0x30))
    simp only [List.foldl_cons, List.length_cons]
    refine Nat.lt_of_lt_of_le this ?_
    rw [Nat.pow_succ, Nat.mul_comm (10 ^ s.length) 10, ← Nat.mul_assoc]
    exact Nat.mul_le_mul_right _ (by omega)

theorem digitsVal_lt (s : Bytes) (h : Digits s) : digitsVal s < 10 ^ s.length := by
  have := foldl_digits_lt s h 0
  simpa [digitsVal] using this

theorem signedDigits_digits (s : Bytes) (h : Digits s) (hne : s ≠ []) :
    signedDigits s = some (digitsVal s : Int) := by
  obtain ⟨c, t, rfl⟩ := List.exists_cons_of_ne_nil hne
  have hc := Digits.facts h (c := c) (by simp)
  have hall : (c :: t).all isDigitByte = true := by
    simp only [List.all_eq_true]; intro x hx; exact (Digits.facts h hx).1
  unfold signedDigits
  split
  rename_i x neg ds heq
  split at heq
  · rename_i r h'; exact absurd (List.cons.inj h').1 hc.2.1
  · rename_i r h'; exact absurd (List.cons.inj h').1 hc.2.2.1
  · cases heq; simp [hall]

theorem signedDigits_minus (s : Bytes) (h : Digits s) (hne : s ≠ []) :
    signedDigits (0x2D :: s) = some (-(digitsVal s : Int)) := by
  have hall : s.all isDigitByte = true := by
    simp only [List.all_eq_true]; intro x hx; exact (Digits.facts h hx).1
  unfold signedDigits
  split
  rename_i x neg ds heq
  split at heq
  · rename_i r h'; cases heq; cases h'; simp [hall, hne]
  · rename_i r h'; cases h'
  · rename_i r h1 h2; exact absurd rfl (h1 s)

/-- **`strconv.Atoi` on digits.** -/
theorem atoi_digits (s : Bytes) (h : Digits s) (hne : s ≠ []) (hl : s.length ≤ 18) :
    atoi s = some (digitsNat s : Int) := by
  unfold atoi parseIntBits
  rw [signedDigits_digits s h hne, digitsNat_eq]
  have h1 := digitsVal_lt s h
  have h2 : 10 ^ s.length ≤ 10 ^ 18 := Nat.pow_le_pow_right (by decide) hl
  have h3 : (10 : Nat) ^ 18 < 2 ^ 63 := by decide
  have h4 : ((digitsVal s : Nat) : Int) ≤ (2 : Int) ^ 63 - 1 := by
    have : digitsVal s < 2 ^ 63 := by omega
    have h5 : ((2 : Nat) ^ 63 : Nat) = ((2 : Int) ^ 63) := by norm_cast
    omega
  have h6 : -((2 : Int) ^ 63) ≤ ((digitsVal s : Nat) : Int) := by
    have : (0 : Int) ≤ (2 : Int) ^ 63 := by decide
    omega
  have h7 : ((digitsVal s : Nat) : Int) ≤ 9223372036854775807 := by omega
  have h8 : (-9223372036854775808 : Int) ≤ ((digitsVal s : Nat) : Int) := by omega
  simp [h7, h8]

/-! ### `strings.Split` on a date -/

theorem splitGo_nosep (sep : UInt8) (a : Bytes) (h : sep ∉ a) : ∀ (rest cur : Bytes),
    splitByte.go sep (a ++ rest) cur = splitByte.go sep rest (a.reverse ++ cur) := by
  induction a with
  | nil => intro rest cur; rfl
  | cons c a ih =>
    intro rest cur
    simp only [List.mem_cons, not_or] at h
    have hc : ¬ c = sep := fun h' => h.1 h'.symm
    simp only [List.cons_append, splitByte.go, hc, if_false, ih h.2, List.reverse_cons, List.append_assoc,
      List.cons_append, List.nil_append]

theorem splitDate (y m d : Bytes) (hy : Digits y) (hm : Digits m) (hd : Digits d) :
    splitByte (y ++ 0x2D :: m ++ 0x2D :: d) 0x2D = [y, m, d] := by
  have ns : ∀ s, Digits s → (0x2D : UInt8) ∉ s := fun s hs hmem => (Digits.facts hs hmem).2.1 rfl
  unfold splitByte
  have e : y ++ 0x2D :: m ++ 0x2D :: d = y ++ (0x2D :: (m ++ (0x2D :: (d ++ [])))) := by simp
  rw [e, splitGo_nosep _ y (ns y hy)]
  simp only [splitByte.go, if_true, List.append_nil, List.reverse_reverse]
  rw [splitGo_nosep _ m (ns m hm)]
  simp only [splitByte.go, if_true, List.append_nil, List.reverse_reverse]
  have := splitGo_nosep 0x2D d (ns d hd) [] []
  simp only [List.append_nil] at this
  rw [this]
  simp [splitByte.go]

theorem firstSepDate (y rest : Bytes) (hy : Digits y) : firstSep (y ++ 0x2D :: rest) = 0x2D := by
  unfold firstSep
  have : (y ++ 0x2D :: rest).find? (fun c => c = 0x2D || c = 0x2F || c = 0x2E) = some 0x2D := by
    induction y with
    | nil => simp
    | cons c y ih =>
      have hc := Digits.facts hy (c := c) (by simp)
      simp only [List.cons_append, List.find?_cons]
      have : (decide (c = 0x2D) || decide (c = 0x2F) || decide (c = 0x2E)) = false := by
        simp [hc.2.1, hc.2.2.2.1, hc.2.2.2.2.2.2.2.2.1]
      rw [this]
      exact ih (fun x hx => hy x (by simp [hx]))
  rw [this]

/-! ### numbers -/

theorem countMarks_nomark (s : Bytes) (h : ∀ c ∈ s, c ≠ 0x2E ∧ c ≠ 0x2C) (i : Nat) (acc : Nat × Nat × Nat × Nat) :
    countMarks s i acc = acc := by
  induction s generalizing i acc with
  | nil => rfl
  | cons c s ih =>
    obtain ⟨a, b, c', d⟩ := acc
    have hc := h c (by simp)
    simp only [countMarks, hc.1, hc.2, if_false]
    exact ih (fun x hx => h x (by simp [hx])) _ _

theorem countMarks_dot (a f : Bytes) (ha : ∀ c ∈ a, c ≠ 0x2E ∧ c ≠ 0x2C) (hf : ∀ c ∈ f, c ≠ 0x2E ∧ c ≠ 0x2C) :
    ∀ (i : Nat), countMarks (a ++ 0x2E :: f) i (0, 0, 0, 0) = (1, 0, i + a.length, 0) := by
  induction a with
  | nil =>
    intro i
    simp only [List.nil_append, countMarks, if_true, List.length_nil, Nat.add_zero]
    exact countMarks_nomark f hf _ _
  | cons c a ih =>
    intro i
    have hc := ha c (by simp)
    simp only [List.cons_append, countMarks, hc.1, hc.2, if_false, List.length_cons]
    rw [ih (fun x hx => ha x (by simp [hx]))]
    simp only [Prod.mk.injEq, true_and, and_true]
    omega

theorem indexE_none (s : Bytes) (h : ∀ c ∈ s, c ≠ 0x45 ∧ c ≠ 0x65) (i : Nat) : indexE s i = none := by
  induction s generalizing i with
  | nil => rfl
  | cons c s ih =>
    have hc := h c (by simp)
    simp only [indexE, hc.1, hc.2, or_self, if_false]
    exact ih (fun x hx => h x (by simp [hx])) _

/-- the optional `-` -/
def sgn (neg : Bool) : Bytes := if neg then [0x2D] else []

theorem sgn_facts (neg : Bool) {c : UInt8} (hc : c ∈ sgn neg) :
    c = 0x2D := by
  cases neg <;> simp [sgn] at hc; exact hc

/-- `normalizeNumber` and `NewFromString` on `[-] int`. -/
theorem qty_int (neg : Bool) (int : Bytes) (hi : Digits int) (hne : int ≠ []) :
    decOfString (normalizeNumber (dropBlanks (sgn neg ++ int))) =
      some ⟨if neg then -(digitsNat int : Int) else (digitsNat int : Int), 0⟩ := by
  have hb : ∀ c ∈ sgn neg ++ int, c ≠ 0x20 ∧ c ≠ 0x2E ∧ c ≠ 0x2C ∧ c ≠ 0x45 ∧ c ≠ 0x65 := by
    intro c hc
    rcases List.mem_append.mp hc with h | h
    · rw [sgn_facts neg h]; decide
    · have := Digits.facts hi h; exact ⟨this.2.2.2.2.2.2.2.1, this.2.2.2.1, this.2.2.2.2.1, this.2.2.2.2.2.1, this.2.2.2.2.2.2.1⟩
  have e1 : dropBlanks (sgn neg ++ int) = sgn neg ++ int := by
    unfold dropBlanks
    exact List.filter_eq_self.mpr (fun c hc => by simpa using (hb c hc).1)
  have e2 : indexE (sgn neg ++ int) 0 = none := indexE_none _ (fun c hc => ⟨(hb c hc).2.2.2.1, (hb c hc).2.2.2.2⟩) _
  have e3 : normalizeNumber (sgn neg ++ int) = sgn neg ++ int := by
    unfold normalizeNumber; rw [e2]
    unfold normalizeMantissa
    rw [countMarks_nomark _ (fun c hc => ⟨(hb c hc).2.1, (hb c hc).2.2.1⟩)]
    simp
  have hnd : (0x2E : UInt8) ∉ sgn neg ++ int := fun h => (hb _ h).2.1 rfl
  rw [e1, e3]
  unfold decOfString
  simp only [e2, List.count_eq_zero_of_not_mem hnd, Nat.not_lt_zero, if_false, List.idxOf?_eq_none_iff.mpr hnd]
  cases neg with
  | false =>
    simp only [sgn, Bool.false_eq_true, if_false, List.nil_append, signedDigits_digits int hi hne, digitsNat_eq]
    simp
  | true =>
    simp only [sgn, if_true, List.singleton_append, signedDigits_minus int hi hne, digitsNat_eq]
    simp

/-- `normalizeNumber` and `NewFromString` on `[-] int '.' frac`; exactly three decimals are
    decimals only behind an all-zero integer part (side condition A). -/
theorem qty_frac (neg : Bool) (int frac : Bytes) (hi : Digits int) (hne : int ≠ []) (hf : Digits frac)
    (hl : frac.length ≤ 1000) (hA : frac.length = 3 → ∀ c ∈ int, c = 0x30) :
    decOfString (normalizeNumber (dropBlanks (sgn neg ++ int ++ 0x2E :: frac))) =
      some ⟨if neg then -(digitsNat (int ++ frac) : Int) else (digitsNat (int ++ frac) : Int),
            -(frac.length : Int)⟩ := by
  have hb : ∀ c ∈ sgn neg ++ int, c ≠ 0x20 ∧ c ≠ 0x2E ∧ c ≠ 0x2C ∧ c ≠ 0x45 ∧ c ≠ 0x65 := by
    intro c hc
    rcases List.mem_append.mp hc with h | h
    · rw [sgn_facts neg h]; decide
    · have := Digits.facts hi h; exact ⟨this.2.2.2.2.2.2.2.1, this.2.2.2.1, this.2.2.2.2.1, this.2.2.2.2.2.1, this.2.2.2.2.2.2.1⟩
  have hbf : ∀ c ∈ frac, c ≠ 0x20 ∧ c ≠ 0x2E ∧ c ≠ 0x2C ∧ c ≠ 0x45 ∧ c ≠ 0x65 := by
    intro c h
    have := Digits.facts hf h; exact ⟨this.2.2.2.2.2.2.2.1, this.2.2.2.1, this.2.2.2.2.1, this.2.2.2.2.2.1, this.2.2.2.2.2.2.1⟩
  let s := sgn neg ++ int ++ 0x2E :: frac
  have hs : ∀ c ∈ s, c ≠ 0x20 ∧ c ≠ 0x45 ∧ c ≠ 0x65 := by
    intro c hc
    simp only [s, List.mem_append, List.mem_cons] at hc
    rcases hc with h | h | h
    · have := hb c (List.mem_append.mpr h); exact ⟨this.1, this.2.2.2.1, this.2.2.2.2⟩
    · rw [h]; decide
    · have := hbf c h; exact ⟨this.1, this.2.2.2.1, this.2.2.2.2⟩
  have e1 : dropBlanks s = s := by
    unfold dropBlanks
    exact List.filter_eq_self.mpr (fun c hc => by simpa using (hs c hc).1)
  have e2 : indexE s 0 = none := indexE_none _ (fun c hc => (hs c hc).2) _
  have hcm : countMarks s 0 (0, 0, 0, 0) = (1, 0, (sgn neg ++ int).length, 0) := by
    have := countMarks_dot (sgn neg ++ int) frac (fun c hc => ⟨(hb c hc).2.1, (hb c hc).2.2.1⟩)
      (fun c hc => ⟨(hbf c hc).2.1, (hbf c hc).2.2.1⟩) 0
    simpa [s] using this
  have hlen : s.length - (sgn neg ++ int).length - 1 = frac.length := by
    simp only [s, List.length_append, List.length_cons]; omega
  have e3 : normalizeNumber s = s := by
    unfold normalizeNumber; rw [e2]
    unfold normalizeMantissa
    rw [hcm]
    simp only [Nat.succ_ne_zero, false_and, if_false, and_self, if_true, hlen, ge_iff_le]
    split
    · rename_i hcond
      exfalso
      obtain ⟨_, h3, hnz⟩ := hcond
      have hz := hA h3
      simp only [hasNonZeroBefore, s, List.take_left' rfl, List.any_eq_true, Bool.and_eq_true,
        decide_eq_true_eq] at hnz
      obtain ⟨c, hc, hc0, hcm⟩ := hnz
      rcases List.mem_append.mp hc with h | h
      · exact hcm (sgn_facts neg h)
      · exact hc0 (hz c h)
    · rfl
  show decOfString (normalizeNumber (dropBlanks s)) = _
  rw [e1, e3]
  have hnd1 : (0x2E : UInt8) ∉ sgn neg ++ int := fun h => (hb _ h).2.1 rfl
  have hnd2 : (0x2E : UInt8) ∉ frac := fun h => (hbf _ h).2.1 rfl
  have hcount : s.count 0x2E = 1 := by
    have h1 := List.count_eq_zero_of_not_mem hnd1
    have h2 := List.count_eq_zero_of_not_mem hnd2
    simp only [s, List.count_append, List.count_cons, h2, beq_self_eq_true, if_true] at h1 ⊢
    omega
  have hidx : s.idxOf? 0x2E = some (sgn neg ++ int).length := by
    have : ∀ A : Bytes, (0x2E : UInt8) ∉ A → (A ++ 0x2E :: frac).idxOf? 0x2E = some A.length := by
      intro A hA'
      induction A with
      | nil => simp [List.idxOf?_cons]
      | cons a A ih =>
        simp only [List.mem_cons, not_or] at hA'
        have : (a == 0x2E) = false := by simpa using fun h' => hA'.1 h'.symm
        simp [List.idxOf?_cons, this, ih hA'.2]
    exact this _ hnd1
  have htake : s.take (sgn neg ++ int).length = sgn neg ++ int := List.take_left' rfl
  have hdrop : s.drop ((sgn neg ++ int).length + 1) = frac := by
    have : s = (sgn neg ++ int ++ [0x2E]) ++ frac := by simp [s]
    rw [this]
    exact List.drop_left' (by simp [Nat.add_assoc])
  have hslen : s.length - ((sgn neg ++ int).length + 1) = frac.length := by
    simp only [s, List.length_append, List.length_cons]; omega
  unfold decOfString
  simp only [e2, hcount, Nat.lt_irrefl, if_false, hidx, htake, hdrop, hslen]
  cases neg with
  | false =>
    simp only [sgn, Bool.false_eq_true, if_false, List.nil_append,
      signedDigits_digits (int ++ frac) (hi.append hf) (by simp [hne]), digitsNat_eq]
    rw [if_neg (by omega)]
    simp
  | true =>
    simp only [sgn, if_true, List.cons_append, List.nil_append,
      signedDigits_minus (int ++ frac) (hi.append hf) (by simp [hne]), digitsNat_eq]
    rw [if_neg (by omega)]
    simp

end HL.GCore
