/-
  Lemmas relating the model of the configuration code (HL.Model.Settings) to the
  statement's rule (HL.Spec.SettingsSpec), for C19.
-/
import HL.Lemmas.Settings

namespace HL.Lemmas.SettingsSpec
open HL.Settings HL.Lemmas.Settings
open HL.SettingsSpec (asciiBlank asciiLower stripBlanks isAscii isDigitC isLetter)

/-! ### characters -/

theorem blank_isSpace (c : Char) (h : asciiBlank c = true) : isSpace c = true := by
  unfold asciiBlank at h
  unfold isSpace
  simp only [Bool.or_eq_true, Bool.and_eq_true, beq_iff_eq, decide_eq_true_eq] at h ⊢
  omega

theorem isSpace_ascii (c : Char) (h : isAscii c = true) : isSpace c = asciiBlank c := by
  unfold isAscii at h
  simp only [decide_eq_true_eq] at h
  rw [Bool.eq_iff_iff]
  unfold asciiBlank isSpace
  simp only [Bool.or_eq_true, Bool.and_eq_true, beq_iff_eq, decide_eq_true_eq]
  omega

theorem asciiLower_eq (c : Char) : asciiLower c = lowerAscii c := by
  unfold asciiLower lowerAscii
  simp only [Bool.and_eq_true, decide_eq_true_eq]

theorem isDigitC_eq (c : Char) : isDigitC c = isDigit c := rfl

/-! ### trimming -/

theorem dropWhile_congr {p q : Char → Bool} (l : List Char) (h : ∀ c ∈ l, p c = q c) :
    l.dropWhile p = l.dropWhile q := by
  induction l with
  | nil => rfl
  | cons a l ih =>
    have ha := h a (List.mem_cons_self ..)
    simp only [List.dropWhile_cons, ha]
    split
    · exact ih (fun c hc => h c (List.mem_cons_of_mem _ hc))
    · rfl

theorem dropWhile_sublist_mem {p : Char → Bool} (l : List Char) (c : Char) (h : c ∈ l.dropWhile p) :
    c ∈ l := (List.dropWhile_sublist p).subset h

theorem dropWhile_all_append {p : Char → Bool} (u r : List Char) (hu : ∀ c ∈ u, p c = true) :
    (u ++ r).dropWhile p = r.dropWhile p := by
  induction u with
  | nil => rfl
  | cons a u ih =>
    simp only [List.cons_append, List.dropWhile_cons, hu a (List.mem_cons_self ..), if_true]
    exact ih (fun c hc => hu c (List.mem_cons_of_mem _ hc))

/-- trimming a text that is blanks, then `y`, then blanks, where `y` starts and ends with a
    non-blank -/
theorem trim_decomp (p : Char → Bool) (u y w : List Char) (hu : ∀ c ∈ u, p c = true)
    (hw : ∀ c ∈ w, p c = true) (a b : Char) (ya yb : List Char)
    (hya : y = a :: ya) (hyb : y = yb ++ [b]) (ha : p a = false) (hb : p b = false) :
    dropTrailing p ((u ++ y ++ w).dropWhile p) = y := by
  rw [List.append_assoc, dropWhile_all_append u _ hu]
  have h1 : (y ++ w).dropWhile p = y ++ w := by
    rw [hya]; simp [List.dropWhile_cons, ha]
  rw [h1]
  unfold dropTrailing
  rw [List.reverse_append, dropWhile_all_append w.reverse _ (fun c hc => hw c (List.mem_reverse.mp hc))]
  rw [hyb]
  simp [List.dropWhile_cons, hb]

theorem takeWhile_all {p : Char → Bool} (l : List Char) : ∀ c ∈ l.takeWhile p, p c = true := by
  intro c hc
  induction l with
  | nil => simp at hc
  | cons a l ih =>
    simp only [List.takeWhile_cons] at hc
    split at hc
    · rename_i h
      rcases List.mem_cons.mp hc with rfl | hc
      · exact h
      · exact ih hc
    · simp at hc

/-- a text is blanks ++ its stripped form ++ blanks -/
theorem strip_decomp (p : Char → Bool) (l : List Char) :
    ∃ u w, l = u ++ dropTrailing p (l.dropWhile p) ++ w ∧ (∀ c ∈ u, p c = true) ∧
      (∀ c ∈ w, p c = true) := by
  refine ⟨l.takeWhile p, ((l.dropWhile p).reverse.takeWhile p).reverse, ?_, takeWhile_all l, ?_⟩
  · unfold dropTrailing
    have h1 : l.takeWhile p ++ l.dropWhile p = l := List.takeWhile_append_dropWhile
    have h2 : (l.dropWhile p).reverse.takeWhile p ++ (l.dropWhile p).reverse.dropWhile p =
        (l.dropWhile p).reverse := List.takeWhile_append_dropWhile
    have h3 : ((l.dropWhile p).reverse.dropWhile p).reverse ++ ((l.dropWhile p).reverse.takeWhile p).reverse
        = l.dropWhile p := by
      rw [← List.reverse_append, h2, List.reverse_reverse]
    rw [List.append_assoc, h3, h1]
  · intro c hc
    exact takeWhile_all _ c (List.mem_reverse.mp hc)

theorem stripBlanks_eq (l : List Char) : stripBlanks l = dropTrailing asciiBlank (l.dropWhile asciiBlank) := rfl

theorem trimSpace_eq (l : List Char) : trimSpace l = dropTrailing isSpace (l.dropWhile isSpace) := rfl

/-- If the ASCII-stripped text starts and ends with characters that are no Unicode white
    space, Go's `TrimSpace` yields exactly that text. -/
theorem trimSpace_of_strip (l y : List Char) (h : stripBlanks l = y) (a b : Char) (ya yb : List Char)
    (hya : y = a :: ya) (hyb : y = yb ++ [b]) (ha : isSpace a = false) (hb : isSpace b = false) :
    trimSpace l = y := by
  obtain ⟨u, w, hl, hu, hw⟩ := strip_decomp asciiBlank l
  rw [← stripBlanks_eq, h] at hl
  rw [trimSpace_eq]
  conv => lhs; rw [hl]
  exact trim_decomp isSpace u y w (fun c hc => blank_isSpace c (hu c hc))
    (fun c hc => blank_isSpace c (hw c hc)) a b ya yb hya hyb ha hb

/-- on ASCII text both trims agree -/
theorem trimSpace_ascii (l : List Char) (h : ∀ c ∈ l, isAscii c = true) : trimSpace l = stripBlanks l := by
  rw [trimSpace_eq, stripBlanks_eq]
  have h1 : l.dropWhile isSpace = l.dropWhile asciiBlank :=
    dropWhile_congr l (fun c hc => isSpace_ascii c (h c hc))
  rw [h1]
  unfold dropTrailing
  congr 1
  apply dropWhile_congr
  intro c hc
  exact isSpace_ascii c (h c (dropWhile_sublist_mem l c (List.mem_reverse.mp hc)))


/-! ### booleans -/

theorem ofNat_upper : ∀ n < 91, 65 ≤ n → (Char.ofNat (n + 32)).toNat = n + 32 := by decide

theorem lowerAscii_ascii (c : Char) (h : isAscii c = true) : isAscii (lowerAscii c) = true := by
  unfold lowerAscii
  split
  · rename_i hc
    simp only [Bool.and_eq_true, decide_eq_true_eq] at hc
    unfold isAscii
    rw [ofNat_upper c.toNat (by omega) hc.1]
    simp only [decide_eq_true_eq]; omega
  · exact h

theorem map_lower_eq (l : List Char) : l.map asciiLower = l.map lowerAscii := by
  apply List.map_congr_left
  intro c _
  exact asciiLower_eq c

theorem true_toList : "true".toList = ['t', 'r', 'u', 'e'] := by decide
theorem false_toList : "false".toList = ['f', 'a', 'l', 's', 'e'] := by decide

open HL.SettingsSpec in
theorem readFlag_good (j : Json) (g : Val) (h : readFlag j = .good g) :
    ∃ b, g = .b b ∧ toBool j = some b := by
  cases j with
  | bool b => simp only [readFlag, Class.good.injEq] at h; exact ⟨b, h.symm, rfl⟩
  | str s =>
    simp only [readFlag] at h
    rw [map_lower_eq] at h
    split at h
    · rename_i ht
      simp only [Class.good.injEq] at h
      refine ⟨true, h.symm, ?_⟩
      have := trimSpace_of_strip _ _ ht 't' 'e' ['r', 'u', 'e'] ['t', 'r', 'u'] rfl rfl (by decide) (by decide)
      simp only [HL.Settings.toBool, this, true_toList, if_true]
    · split at h
      · rename_i hf ht
        simp only [Class.good.injEq] at h
        refine ⟨false, h.symm, ?_⟩
        have := trimSpace_of_strip _ _ ht 'f' 'e' ['a', 'l', 's', 'e'] ['f', 'a', 'l', 's'] rfl rfl (by decide) (by decide)
        simp only [HL.Settings.toBool, this, true_toList, false_toList, if_true]
        simp
      · split at h <;> cases h
  | null => simp [readFlag] at h
  | num _ _ => simp [readFlag] at h
  | arr _ => simp [readFlag] at h
  | obj _ => simp [readFlag] at h

open HL.SettingsSpec in
theorem readFlag_bad (j : Json) (h : readFlag j = .bad) : toBool j = none := by
  cases j with
  | bool b => simp [readFlag] at h
  | str s =>
    simp only [readFlag] at h
    rw [map_lower_eq] at h
    split at h
    · cases h
    · split at h
      · cases h
      · rename_i hnt hnf
        split at h
        · rename_i hascii
          have hall : ∀ c ∈ s.toList.map lowerAscii, isAscii c = true := by
            intro c hc
            obtain ⟨c0, hc0, rfl⟩ := List.mem_map.mp hc
            exact lowerAscii_ascii c0 (List.all_eq_true.mp hascii c0 hc0)
          have := trimSpace_ascii _ hall
          simp only [HL.Settings.toBool, this, true_toList, false_toList, hnt, hnf, if_false]
        · cases h
  | null => rfl
  | num _ _ => rfl
  | arr _ => rfl
  | obj _ => rfl


/-! ### integers -/

theorem toInt64_eq_toInt (j : Json) : toInt64 j = toInt j := by
  cases j <;> rfl

open HL.SettingsSpec in
theorem integral_trunc (m e v : Int) (h : integral m e = some v) : truncNum m e = v := by
  unfold integral at h
  unfold truncNum
  split at h
  · rename_i he
    simp only [Option.some.injEq] at h
    simp only [he, if_true, h]
  · rename_i he
    split at h
    · rename_i hd
      simp only [Option.some.injEq] at h
      simp only [he, if_false]
      rw [Int.tdiv_eq_ediv_of_dvd (Int.dvd_of_emod_eq_zero hd)]
      exact h
    · cases h

theorem f64ToInt_of_small (m e v : Int) (h : truncNum m e = v) (h1 : -9007199254740992 < v)
    (h2 : v < 9007199254740992) : f64ToInt m e = v := by
  unfold f64ToInt
  simp only [h]
  have : inInt64 v = true := by
    unfold inInt64 minInt64 pow63
    simp only [Bool.and_eq_true, decide_eq_true_eq]
    omega
  simp [this]

theorem digitsVal_of_all (r : List Char) (acc : Nat) (hne : r ≠ []) (h : r.all isDigit = true) :
    digitsVal r acc = some (r.foldl (fun a c => a * 10 + (c.toNat - 48)) acc) := by
  induction r generalizing acc with
  | nil => exact absurd rfl hne
  | cons c r ih =>
    simp only [List.all_cons, Bool.and_eq_true] at h
    cases r with
    | nil => simp [digitsVal, h.1]
    | cons d r =>
      rw [digitsVal]
      · simp only [h.1, if_true, List.foldl_cons]
        exact ih _ (by simp) h.2
      · simp

theorem digitsVal_some_all (r : List Char) (acc n : Nat) (h : digitsVal r acc = some n) :
    r.all isDigit = true := by
  induction r generalizing acc with
  | nil => simp [digitsVal] at h
  | cons c r ih =>
    cases r with
    | nil =>
      simp only [digitsVal] at h
      split at h
      · rename_i hc; simp [hc]
      · cases h
    | cons d r =>
      rw [digitsVal] at h
      · split at h
        · rename_i hc
          simp only [List.all_cons, hc, Bool.true_and]
          exact ih _ h
        · cases h
      · simp

open HL.SettingsSpec in
/-- a text that spells a decimal integer inside int64 is read as that integer by `Atoi` -/
theorem atoi_of_decimalInt (l : List Char) (v : Int) (h : decimalInt l = some v)
    (h1 : -9223372036854775808 < v) (h2 : v < 9223372036854775808) : atoi l = some v := by
  have body : ∀ r : List Char, ∀ n : Nat,
      (if r ≠ [] ∧ r.all isDigitC = true then some (natOfDigits r) else none) = some n →
      digitsVal r 0 = some n := by
    intro r n hb
    split at hb
    · rename_i hr
      simp only [Option.some.injEq] at hb
      rw [digitsVal_of_all r 0 hr.1 hr.2, ← hb]
      rfl
    · cases hb
  have toNat63 : pow63.toNat = 9223372036854775808 := by decide
  unfold decimalInt at h
  unfold atoi
  split at h
  · rename_i r
    simp only [Option.map_eq_some_iff] at h
    obtain ⟨n, hn, rfl⟩ := h
    simp only [Int.ofNat_eq_natCast] at h1 h2 ⊢
    rw [body r n hn]
    have : n < 9223372036854775808 := by omega
    simp [toNat63, this]
  · rename_i r
    simp only [Option.map_eq_some_iff] at h
    obtain ⟨n, hn, rfl⟩ := h
    simp only [Int.ofNat_eq_natCast] at h1 h2 ⊢
    rw [body r n hn]
    have : n ≤ 9223372036854775808 := by omega
    simp [toNat63, this]
  · rename_i r hp hm
    simp only [Option.map_eq_some_iff] at h
    obtain ⟨n, hn, rfl⟩ := h
    simp only [Int.ofNat_eq_natCast] at h1 h2 ⊢
    rw [body _ n hn]
    have : n < 9223372036854775808 := by omega
    simp [toNat63, this]

theorem letter_not_digit (c : Char) (h : isLetter c = true) : isDigit c = false := by
  unfold isLetter at h
  unfold isDigit
  simp only [Bool.or_eq_true, Bool.and_eq_true, decide_eq_true_eq] at h
  simp only [Bool.and_eq_false_iff, decide_eq_false_iff_not]
  omega

theorem letter_not_blank (c : Char) (h : isLetter c = true) : asciiBlank c = false := by
  unfold isLetter at h
  unfold asciiBlank
  simp only [Bool.or_eq_true, Bool.and_eq_true, decide_eq_true_eq] at h
  simp only [Bool.or_eq_false_iff, beq_eq_false_iff_ne, Bool.and_eq_false_iff, decide_eq_false_iff_not]
  omega

theorem atoi_none_of_letter (l : List Char) (c : Char) (hc : c ∈ l) (hl : isLetter c = true) :
    atoi l = none := by
  have nd : ∀ r : List Char, c ∈ r → digitsVal r 0 = none := by
    intro r hr
    cases hd : digitsVal r 0 with
    | none => rfl
    | some n =>
      have := List.all_eq_true.mp (digitsVal_some_all r 0 n hd) c hr
      rw [letter_not_digit c hl] at this
      cases this
  have notSign : c ≠ '+' ∧ c ≠ '-' := by
    constructor <;> (intro h; subst h; revert hl; decide)
  unfold atoi
  split
  · rename_i r
    rcases List.mem_cons.mp hc with h | h
    · exact absurd h notSign.1
    · simp [nd r h]
  · rename_i r
    rcases List.mem_cons.mp hc with h | h
    · exact absurd h notSign.2
    · simp [nd r h]
  · simp [nd l hc]

theorem mem_strip (p : Char → Bool) (l : List Char) (c : Char) (hc : c ∈ l) (hp : p c = false) :
    c ∈ dropTrailing p (l.dropWhile p) := by
  obtain ⟨u, w, hl, hu, hw⟩ := strip_decomp p l
  rw [hl] at hc
  simp only [List.mem_append] at hc
  rcases hc with (h | h) | h
  · rw [hu c h] at hp; cases hp
  · exact h
  · rw [hw c h] at hp; cases hp


theorem digit_not_space (c : Char) (h : isDigit c = true) : isSpace c = false := by
  unfold isDigit at h
  simp only [Bool.and_eq_true, decide_eq_true_eq] at h
  unfold isSpace
  simp only [Bool.or_eq_false_iff, Bool.and_eq_false_iff, decide_eq_false_iff_not,
    beq_eq_false_iff_ne]
  omega

open HL.SettingsSpec in
/-- a text that spells an integer starts and ends with characters that are not white space -/
theorem decimalInt_shape (y : List Char) (v : Int) (h : decimalInt y = some v) :
    ∃ a ya yb b, y = a :: ya ∧ y = yb ++ [b] ∧ isSpace a = false ∧ isSpace b = false := by
  have last_digit : ∀ r : List Char, (hne : r ≠ []) → r.all isDigitC = true →
      isSpace (r.getLast hne) = false := by
    intro r hne hall
    exact digit_not_space _ (List.all_eq_true.mp hall _ (List.getLast_mem hne))
  have body_some : ∀ r : List Char, ∀ n : Nat,
      (if r ≠ [] ∧ r.all isDigitC = true then some (natOfDigits r) else none) = some n →
      r ≠ [] ∧ r.all isDigitC = true := by
    intro r n hb
    split at hb
    · assumption
    · cases hb
  unfold decimalInt at h
  split at h
  · rename_i r
    simp only [Option.map_eq_some_iff] at h
    obtain ⟨n, hn, _⟩ := h
    obtain ⟨hne, hall⟩ := body_some r n hn
    refine ⟨'+', r, '+' :: r.dropLast, r.getLast hne, rfl, ?_, by decide, last_digit r hne hall⟩
    rw [List.cons_append, List.dropLast_concat_getLast]
  · rename_i r
    simp only [Option.map_eq_some_iff] at h
    obtain ⟨n, hn, _⟩ := h
    obtain ⟨hne, hall⟩ := body_some r n hn
    refine ⟨'-', r, '-' :: r.dropLast, r.getLast hne, rfl, ?_, by decide, last_digit r hne hall⟩
    rw [List.cons_append, List.dropLast_concat_getLast]
  · simp only [Option.map_eq_some_iff] at h
    obtain ⟨n, hn, _⟩ := h
    obtain ⟨hne, hall⟩ := body_some y n hn
    cases y with
    | nil => exact absurd rfl hne
    | cons a ya =>
      refine ⟨a, ya, (a :: ya).dropLast, (a :: ya).getLast hne, rfl,
        (List.dropLast_concat_getLast hne).symm, ?_, last_digit _ hne hall⟩
      exact digit_not_space a (List.all_eq_true.mp hall a (List.mem_cons_self ..))

open HL.SettingsSpec in
theorem readInt_good (bound v : Int) (j : Json) (hb : bound ≤ 9223372036854775808)
    (h : readInt bound j = some (some v)) : toInt j = some v ∧ -bound < v ∧ v < bound := by
  cases j with
  | num m e =>
    simp only [readInt] at h
    split at h
    · rename_i v' hi
      split at h
      · rename_i hc
        simp only [Option.some.injEq] at h
        subst h
        refine ⟨?_, hc.1, hc.2.1⟩
        simp only [toInt]
        rw [f64ToInt_of_small m e v' (integral_trunc m e v' hi) (by unfold two53 at hc; omega)
          (by unfold two53 at hc; omega)]
      · cases h
    · cases h
  | str s =>
    simp only [readInt] at h
    split at h
    · rename_i v' hd
      split at h
      · rename_i hc
        simp only [Option.some.injEq] at h
        subst h
        refine ⟨?_, hc.1, hc.2⟩
        obtain ⟨a, ya, yb, b, h1, h2, h3, h4⟩ := decimalInt_shape _ _ hd
        have ht := trimSpace_of_strip s.toList _ rfl a b ya yb h1 h2 h3 h4
        simp only [toInt, ht]
        have hne : (stripBlanks s.toList).isEmpty = false := by rw [h1]; rfl
        simp only [hne, Bool.false_eq_true, if_false]
        exact atoi_of_decimalInt _ _ hd (by omega) (by omega)
      · cases h
    · split at h
      · cases h
      · split at h <;> cases h
  | null => simp [readInt] at h
  | bool _ => simp [readInt] at h
  | arr _ => simp [readInt] at h
  | obj _ => simp [readInt] at h

open HL.SettingsSpec in
theorem readInt_bad (bound : Int) (j : Json) (h : readInt bound j = none) : toInt j = none := by
  cases j with
  | num m e =>
    simp only [readInt] at h
    split at h
    · split at h <;> cases h
    · cases h
  | str s =>
    simp only [readInt] at h
    split at h
    · split at h <;> cases h
    · split at h
      · cases h
      · rename_i hascii
        split at h
        · rename_i hbad
          simp only [Bool.not_eq_true', Bool.not_eq_false] at hascii
          have ht := trimSpace_ascii s.toList (fun c hc => List.all_eq_true.mp hascii c hc)
          simp only [toInt, ht]
          split
          · rfl
          · rename_i hne
            simp only [Bool.or_eq_true] at hbad
            rcases hbad with hl | he
            · obtain ⟨c, hc, hlc⟩ := List.any_eq_true.mp hl
              exact atoi_none_of_letter _ c (mem_strip asciiBlank _ c hc (letter_not_blank c hlc)) hlc
            · exact absurd he hne
        · cases h
  | null => rfl
  | bool _ => rfl
  | arr _ => rfl
  | obj _ => rfl


/-! ### one value: the statement's reading against the code's coercion -/

open HL.SettingsSpec in
theorem agree_refl (l : Leaf) (v : Val) : agree l v v = true := by
  simp [agree]

open HL.SettingsSpec in
theorem agree_iff (l : Leaf) (a b : Val) : agree l a b = true ↔ a = b := by
  simp [agree]

theorem wrap64_small (x : Int) (h1 : -9223372036854775808 ≤ x) (h2 : x < 9223372036854775808) :
    wrap64 x = x := by
  unfold wrap64 pow63
  rw [Int.emod_eq_of_lt (by omega) (by omega)]
  omega

open HL.SettingsSpec in
/-- **Reading one value.**  If the statement calls the value well-typed, the code's coercion
    accepts it and the stored (normalised) value is the validated one; if the statement calls
    it ill-typed, the coercion rejects it. -/
theorem read_vs_coerce (l : Leaf) (j : Json) :
    match readLeaf l j with
    | .good g => ∃ w, coerceLeaf l j = some w ∧ agree l g (normLeaf l w) = true
    | .bad => coerceLeaf l j = none
    | .unspec => True := by
  cases hk : kindOf l with
  | flag =>
    have hc : coerceLeaf l j = (toBool j).map .b := by
      cases l <;> first | rfl | (simp [kindOf] at hk)
    have hn : ∀ w, normLeaf l w = w := by
      intro w; rw [normLeaf_eq]; cases l <;> first | rfl | (simp [kindOf] at hk)
    simp only [readLeaf, hk]
    cases hr : readFlag j with
    | good g =>
      obtain ⟨b, rfl, hb⟩ := readFlag_good j g hr
      exact ⟨.b b, by rw [hc, hb]; rfl, by rw [hn]; exact agree_refl _ _⟩
    | bad => simp only [hc, readFlag_bad j hr, Option.map_none]
    | unspec => trivial
  | text =>
    have hl : l = .xPath := by cases l <;> first | rfl | (simp [kindOf] at hk)
    subst hl
    simp only [readLeaf, kindOf]
    cases j with
    | str s =>
      refine ⟨.s s, rfl, ?_⟩
      rw [normLeaf_eq]
      by_cases hs : s = ""
      · simp [hs, agree, normVal, HL.Settings.get, defaults]
      · simp [hs, agree, normVal]
    | null => rfl
    | bool _ => rfl
    | num _ _ => rfl
    | arr _ => rfl
    | obj _ => rfl
  | count =>
    by_cases ht : l = .xTimeout
    · subst ht
      simp only [readLeaf, kindOf, if_true]
      have hc : coerceLeaf .xTimeout j = (toInt j).map fun n => .i (wrap64 (n * millisecond)) := rfl
      cases hr : readInt 9223372036854 j with
      | none => simp only [hc, readInt_bad _ j hr, Option.map_none]
      | some o =>
        cases o with
        | none => trivial
        | some v =>
          obtain ⟨hi, h1, h2⟩ := readInt_good _ v j (by omega) hr
          refine ⟨.i (v * 1000000), ?_, ?_⟩
          · rw [hc, hi]
            simp only [Option.map_some, millisecond]
            rw [wrap64_small _ (by omega) (by omega)]
          · rw [normLeaf_eq]
            simp only [validCount, maxOf, normVal, HL.Settings.get, defaults, millisecond]
            by_cases hv : v * 1000000 ≤ 0
            · simp [hv, agree]
            · simp [hv, agree]
    · simp only [readLeaf, hk, ht, if_false]
      have hc : coerceLeaf l j = (toInt j).map .i := by
        cases l <;> first | (exact absurd rfl ht) | (exact absurd hk (by decide)) | rfl | (simp only [coerceLeaf, Leaf.coerce, toInt64_eq_toInt])
      cases hr : readInt two63 j with
      | none => simp only [hc, readInt_bad _ j hr, Option.map_none]
      | some o =>
        cases o with
        | none => trivial
        | some v =>
          obtain ⟨hi, _, _⟩ := readInt_good _ v j (by unfold two63; omega) hr
          refine ⟨.i v, by rw [hc, hi]; rfl, ?_⟩
          rw [normLeaf_eq, agree_iff]
          unfold validCount
          cases l <;> first | (exact absurd rfl ht) | (exact absurd hk (by decide)) |
            (simp only [maxOf, normVal, HL.Settings.get, defaults, defaultLimits]
             (repeat' split) <;> first | rfl | (exfalso; omega) | (simp only [Val.i.injEq]; omega))


/-! ### the two key tables -/

theorem find_eq_lookup (k : String) (m : List (String × Json)) :
    HL.SettingsSpec.find k m = lookup k m := by
  induction m with
  | nil => rfl
  | cons a m ih =>
    obtain ⟨a, v⟩ := a
    simp only [HL.SettingsSpec.find, lookup, ih]

/-- every statement of `applySettingsMap` reads a documented key, in its nested or its
    dotted form -/
theorem table_sound :
    (keyTable.all fun e => HL.SettingsSpec.docTree.any fun (sec, name, l) =>
      decide (l = e.leaf) && (decide (e = ⟨some sec, name, l⟩) ||
        decide (e = ⟨none, sec ++ "." ++ name, l⟩))) = true := by
  decide +kernel

/-- every documented key is read, in both forms -/
theorem table_complete :
    (HL.SettingsSpec.docTree.all fun (sec, name, l) =>
      keyTable.contains ⟨some sec, name, l⟩ && keyTable.contains ⟨none, sec ++ "." ++ name, l⟩) = true := by
  decide +kernel

theorem coerce_null (l : Leaf) : coerceLeaf l .null = none := by cases l <;> rfl

open HL.SettingsSpec in
theorem mem_mentionsIn (l : Leaf) (m : List (String × Json)) (c : Class) :
    c ∈ mentionsIn l m ↔ ∃ sec name, (sec, name, l) ∈ docTree ∧
      ((∃ o v, find sec m = some (.obj o) ∧ find name o = some v ∧ c = readLeaf l v) ∨
       (∃ v, find (sec ++ "." ++ name) m = some v ∧ c = readLeaf l v)) := by
  unfold mentionsIn
  simp only [List.mem_flatMap]
  constructor
  · rintro ⟨⟨sec, name, l'⟩, hmem, hc⟩
    simp only at hc
    split at hc
    · rename_i hl
      subst hl
      refine ⟨sec, name, hmem, ?_⟩
      rcases List.mem_append.mp hc with h | h
      · left
        split at h
        · rename_i o ho
          split at h
          · rename_i v hv
            simp only [List.mem_singleton] at h
            exact ⟨o, v, ho, hv, h⟩
          · simp at h
        · simp at h
      · right
        split at h
        · rename_i v hv
          simp only [List.mem_singleton] at h
          exact ⟨v, hv, h⟩
        · simp at h
    · simp at hc
  · rintro ⟨sec, name, hmem, h⟩
    refine ⟨(sec, name, l), hmem, ?_⟩
    simp only [if_true]
    apply List.mem_append.mpr
    rcases h with ⟨o, v, ho, hv, rfl⟩ | ⟨v, hv, rfl⟩
    · left; simp [ho, hv]
    · right; simp [hv]

open HL.SettingsSpec in
/-- model → statement: a statement of `applySettingsMap` that finds a value it can coerce
    reads a place the statement's rule also looks at -/
theorem mention_of_candidate (l : Leaf) (m : List (String × Json)) (e : Entry) (w : Val)
    (he : e ∈ keyTable) (hl : e.leaf = l) (hw : coerceLeaf l (entryRaw m e) = some w) :
    readLeaf l (entryRaw m e) ∈ mentionsIn l m := by
  have hs := List.all_eq_true.mp table_sound e he
  obtain ⟨⟨sec, name, l'⟩, hmem, hcond⟩ := List.any_eq_true.mp hs
  simp only [Bool.and_eq_true, Bool.or_eq_true, decide_eq_true_eq] at hcond
  obtain ⟨hl', hform⟩ := hcond
  have hll : l' = l := hl'.trans hl
  subst hll
  rw [mem_mentionsIn]
  refine ⟨sec, name, hmem, ?_⟩
  rcases hform with rfl | rfl
  · left
    simp only [entryRaw, getKey] at hw ⊢
    cases h1 : lookup sec m with
    | none => simp [h1, coerce_null] at hw
    | some v1 =>
      simp only [h1, Option.getD_some] at hw ⊢
      cases v1 with
      | obj o =>
        simp only at hw ⊢
        cases h2 : lookup name o with
        | none => simp [h2, coerce_null] at hw
        | some v => exact ⟨o, v, by rw [find_eq_lookup, h1], by rw [find_eq_lookup, h2], by simp⟩
      | null => simp [coerce_null] at hw
      | bool _ => simp [coerce_null] at hw
      | num _ _ => simp [coerce_null] at hw
      | str _ => simp [coerce_null] at hw
      | arr _ => simp [coerce_null] at hw
  · right
    simp only [entryRaw, getKey] at hw ⊢
    cases h1 : lookup (sec ++ "." ++ name) m with
    | none => simp [h1, coerce_null] at hw
    | some v => exact ⟨v, by rw [find_eq_lookup, h1], by simp⟩

open HL.SettingsSpec in
/-- statement → model: every place the rule looks at is read by some statement -/
theorem candidate_of_mention (l : Leaf) (m : List (String × Json)) (c : Class)
    (hc : c ∈ mentionsIn l m) :
    ∃ e ∈ keyTable, e.leaf = l ∧ c = readLeaf l (entryRaw m e) := by
  rw [mem_mentionsIn] at hc
  obtain ⟨sec, name, hmem, h⟩ := hc
  have ht := List.all_eq_true.mp table_complete (sec, name, l) hmem
  simp only [Bool.and_eq_true, List.contains_eq_mem, decide_eq_true_eq] at ht
  rcases h with ⟨o, v, ho, hv, rfl⟩ | ⟨v, hv, rfl⟩
  · refine ⟨⟨some sec, name, l⟩, ht.1, rfl, ?_⟩
    rw [find_eq_lookup] at ho hv
    simp [entryRaw, getKey, ho, hv]
  · refine ⟨⟨none, sec ++ "." ++ name, l⟩, ht.2, rfl, ?_⟩
    rw [find_eq_lookup] at hv
    simp [entryRaw, getKey, hv]


/-! ### good values -/

open HL.SettingsSpec in
theorem mem_goods (cs : List Class) (g : Val) : g ∈ goods cs ↔ Class.good g ∈ cs := by
  induction cs with
  | nil => simp [goods]
  | cons c cs ih =>
    cases c with
    | good v => simp [goods, ih]
    | bad => simp [goods, ih]
    | unspec => simp [goods, ih]

open HL.SettingsSpec in
theorem goods_append (a b : List Class) : goods (a ++ b) = goods a ++ goods b := by
  induction a with
  | nil => rfl
  | cons c a ih => cases c <;> simp [goods, ih]

theorem leaf_mem_all (l : Leaf) : l ∈ Leaf.all := by cases l <;> decide

end HL.Lemmas.SettingsSpec
