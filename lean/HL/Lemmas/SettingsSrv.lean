/-
  Helper lemmas for C19 about the server as a transition system (HL.Model.Settings: refresh
  tasks, their numbering, the include cache) and about the width arithmetic
  (HL.Model.FmtWidth).  The property theorems are in HL/Props/C19.lean.
-/
import HL.Lemmas.Settings
import HL.Lemmas.SettingsSpec
import HL.Model.FmtWidth
namespace HL.Lemmas.SettingsSrv
open HL.Settings HL.Lemmas.Settings HL.Lemmas.SettingsSpec

/-- What a task step does: nothing, or a new program counter for task `i`, possibly after its
    answer has been applied. -/
theorem stepTask_cases (σ σ' : Srv) (i : Nat) (r : Pull) (h : stepTask σ i r = .ok σ') :
    σ' = σ ∨ ∃ t, σ.tasks[i]? = some t ∧
      (t.pc = .start ∧ σ' = setPc σ i (if !σ.hasClient || !σ.supportsCfg then .done else .asked) ∨
       t.pc = .asked ∧ σ' = setPc σ i (.answered r) ∨
       (∃ q, t.pc = .answered q ∧ (∀ x xs, q ≠ .items (x :: xs)) ∧ σ' = setPc σ i .done) ∨
       (∃ x xs, t.pc = .answered (.items (x :: xs)) ∧ σ' = setPc (applyConfiguration σ t.seq x) i .done)) := by
  unfold stepTask at h
  split at h
  · left; simp only [Except.ok.injEq] at h; exact h.symm
  · rename_i q hq
    right; refine ⟨_, hq, Or.inl ⟨rfl, ?_⟩⟩
    split at h <;> (simp only [Except.ok.injEq] at h; subst h) <;> simp_all
  · rename_i q hq
    simp only [Except.ok.injEq] at h
    right; exact ⟨_, hq, Or.inr (Or.inl ⟨rfl, h.symm⟩)⟩
  · rename_i q hq
    simp only [Except.ok.injEq] at h
    right; exact ⟨_, hq, Or.inr (Or.inr (Or.inl ⟨_, rfl, (by intro x xs hh; cases hh), h.symm⟩))⟩
  · rename_i q l hq
    right; refine ⟨_, hq, ?_⟩
    cases l with
    | nil =>
      simp only [List.length_nil, if_true, Except.ok.injEq] at h
      exact Or.inr (Or.inr (Or.inl ⟨_, rfl, (by intro x xs hh; cases hh), h.symm⟩))
    | cons x xs =>
      simp only [List.length_cons, Nat.add_one_ne_zero, if_false, index0, bind, Except.bind,
        Except.ok.injEq] at h
      exact Or.inr (Or.inr (Or.inr ⟨x, xs, rfl, h.symm⟩))
  · left; simp only [Except.ok.injEq] at h; exact h.symm

/-- every result of `parseSettingsFromRaw` is normalised -/
theorem parse_normal (base : Settings) (j : Json) : Normal (parseSettingsFromRaw base j) := by
  rw [parse_eq]; exact normal_normalize _

theorem setSettings_normal (σ : Srv) (s : Settings) : Normal (setSettings σ s).settings :=
  normal_normalize _

theorem applyConfiguration_normal (σ : Srv) (q : Nat) (raw : Json) (hs : Normal σ.settings) :
    Normal (applyConfiguration σ q raw).settings := by
  unfold applyConfiguration
  split
  · exact setSettings_normal _ _
  · exact hs

theorem probeLoad_settings (σ : Srv) (f : Bool) : (probeLoad σ f).settings = σ.settings := by
  unfold probeLoad
  dsimp only
  split <;> rfl

theorem step_normal (σ σ' : Srv) (e : Event) (hs : Normal σ.settings) (h : step σ e = .ok σ') :
    Normal σ'.settings := by
  cases e with
  | init p =>
    cases p with
    | none => simp [step, initializeSrv, Except.map] at h
    | some p =>
      simp only [step, initializeSrv, Except.map, Except.ok.injEq] at h
      subst h
      exact setSettings_normal _ _
  | initialized =>
    simp only [step, Except.ok.injEq] at h
    subst h; exact hs
  | didChangeConfiguration p =>
    simp only [step, Except.ok.injEq] at h
    subst h
    unfold didChangeConfiguration
    split
    · exact hs
    · split
      · exact hs
      · exact applyConfiguration_normal _ _ _ hs
  | task i r =>
    simp only [step] at h
    rcases stepTask_cases σ σ' i r h with rfl | ⟨t, _, h | h | h | h⟩
    · exact hs
    · rw [h.2]; exact hs
    · rw [h.2]; exact hs
    · obtain ⟨q, _, _, h⟩ := h; rw [h]; exact hs
    · obtain ⟨x, xs, _, h⟩ := h; rw [h]; exact applyConfiguration_normal _ _ _ hs
  | probe f =>
    simp only [step, Except.ok.injEq] at h
    subst h
    rw [probeLoad_settings]; exact hs

theorem run_invariant (P : Srv → Prop) (hstep : ∀ σ σ' e, P σ → step σ e = .ok σ' → P σ')
    (σ σ' : Srv) (es : List Event) (h0 : P σ) (h : run σ es = .ok σ') : P σ' := by
  induction es generalizing σ with
  | nil => simp only [run, Except.ok.injEq] at h; exact h ▸ h0
  | cons e es ih =>
    simp only [run] at h
    cases hst : step σ e with
    | error p => rw [hst] at h; cases h
    | ok σ₁ => rw [hst] at h; exact ih σ₁ (hstep σ σ₁ e h0 hst) h

theorem newServer_settings (c : Bool) : (newServer c).settings = normalize defaults := rfl

theorem parseNested_lookup (s : Settings) (kvs : List (String × Json)) :
    parseNested s kvs = match lookup "hledger" kvs with
      | some (.obj m) => some (parseSettingsFromRaw s (.obj m))
      | _ => none := by
  induction kvs with
  | nil => simp [parseNested, lookup]
  | cons a r ih =>
    obtain ⟨k, v⟩ := a
    unfold parseNested lookup
    by_cases hk : k = "hledger"
    · simp only [hk, if_true]
      cases v <;> rfl
    · simp only [hk, if_false]; exact ih

def Pc.isDone : Pc → Bool
  | .done => true
  | _ => false

/-- no refresh task is in flight -/
def quiescent (σ : Srv) : Bool := σ.tasks.all fun t => Pc.isDone t.pc

/-- the numbers of the tasks come from `nextRefresh` -/
def WF (σ : Srv) : Prop := ∀ t ∈ σ.tasks, t.seq ≤ σ.refreshSeq

theorem setPc_getElem? (σ : Srv) (i : Nat) (pc : Pc) (j : Nat) :
    (setPc σ i pc).tasks[j]? =
      if i = j then (σ.tasks[j]?).map (fun t => { t with pc := pc }) else σ.tasks[j]? := by
  unfold setPc
  simp only [List.getElem?_modify]
  by_cases h : i = j
  · simp only [h, if_true]; cases σ.tasks[j]? <;> rfl
  · simp only [h, if_false]; cases σ.tasks[j]? <;> rfl

theorem applyConfiguration_tasks (σ : Srv) (q : Nat) (x : Json) :
    (applyConfiguration σ q x).tasks = σ.tasks ∧ (applyConfiguration σ q x).refreshSeq = σ.refreshSeq ∧
    (applyConfiguration σ q x).hasClient = σ.hasClient ∧
    (applyConfiguration σ q x).supportsCfg = σ.supportsCfg := by
  unfold applyConfiguration
  split <;> exact ⟨rfl, rfl, rfl, rfl⟩

theorem applyConfiguration_settings (σ : Srv) (q : Nat) (x : Json) :
    (applyConfiguration σ q x).settings =
      if q = σ.refreshSeq then parseSettingsFromRaw σ.settings x else σ.settings := by
  unfold applyConfiguration
  split
  · exact parse_normal _ _
  · rfl

/-- what has to be the case of the reply to the newest task -/
def lastOK (s0 : Settings) (p : Json) : Pc → Settings → Prop
  | .start, s => s = s0
  | .asked, s => s = s0
  | .answered r, s => s = s0 ∧ ∃ xs, r = .items (p :: xs)
  | .done, s => s = parseSettingsFromRaw s0 p

/-- Task `last` is the newest request (its number is `refreshSeq`), every other task is older;
    the client can be asked. -/
structure Frame (N last : Nat) (τ : Srv) : Prop where
  seq : τ.refreshSeq = N
  hc : τ.hasClient = true
  hs : τ.supportsCfg = true
  others : ∀ j t, τ.tasks[j]? = some t → j ≠ last → t.seq < N
  lastT : ∃ t, τ.tasks[last]? = some t ∧ t.seq = N

/-- Invariant of a burst: the frame, and the settings are still the ones from before the burst
    until the newest task has applied its answer. -/
structure Burst (N last : Nat) (s0 : Settings) (p : Json) (τ : Srv) : Prop where
  frame : Frame N last τ
  ok : ∀ t, τ.tasks[last]? = some t → lastOK s0 p t.pc τ.settings

theorem frame_setPc (N last : Nat) (τ : Srv) (i : Nat) (pc : Pc) (hf : Frame N last τ) :
    Frame N last (setPc τ i pc) := by
  refine ⟨hf.seq, hf.hc, hf.hs, ?_, ?_⟩
  · intro j t hj hjl
    rw [setPc_getElem?] at hj
    split at hj
    · cases hjt : τ.tasks[j]? with
      | none => rw [hjt] at hj; cases hj
      | some t0 =>
        rw [hjt] at hj
        simp only [Option.map_some, Option.some.injEq] at hj
        rw [← hj]
        exact hf.others j t0 hjt hjl
    · exact hf.others j t hj hjl
  · obtain ⟨t, ht, hseq⟩ := hf.lastT
    rw [setPc_getElem?]
    by_cases hi : i = last
    · exact ⟨{ t with pc := pc }, by simp only [hi, if_true, ht, Option.map_some], hseq⟩
    · exact ⟨t, by simp only [hi, if_false]; exact ht, hseq⟩

theorem frame_apply (N last : Nat) (τ : Srv) (q : Nat) (x : Json) (hf : Frame N last τ) :
    Frame N last (applyConfiguration τ q x) := by
  obtain ⟨ha1, ha2, ha3, ha4⟩ := applyConfiguration_tasks τ q x
  exact ⟨by rw [ha2]; exact hf.seq, by rw [ha3]; exact hf.hc, by rw [ha4]; exact hf.hs,
    by rw [ha1]; exact hf.others, by rw [ha1]; exact hf.lastT⟩

theorem burst_setPc_other (N last : Nat) (s0 : Settings) (p : Json) (τ : Srv) (i : Nat) (pc : Pc)
    (hb : Burst N last s0 p τ) (hi : i ≠ last) : Burst N last s0 p (setPc τ i pc) := by
  refine ⟨frame_setPc _ _ _ _ _ hb.frame, ?_⟩
  intro t ht
  rw [setPc_getElem?] at ht
  simp only [hi, if_false] at ht
  exact hb.ok t ht

theorem burst_setPc_last (N last : Nat) (s0 : Settings) (p : Json) (τ : Srv) (pc : Pc)
    (hf : Frame N last τ) (hok : lastOK s0 p pc τ.settings) :
    Burst N last s0 p (setPc τ last pc) := by
  refine ⟨frame_setPc _ _ _ _ _ hf, ?_⟩
  intro t ht
  rw [setPc_getElem?] at ht
  simp only [if_true] at ht
  cases hl : τ.tasks[last]? with
  | none => rw [hl] at ht; cases ht
  | some t0 =>
    rw [hl] at ht
    simp only [Option.map_some, Option.some.injEq] at ht
    rw [← ht]
    exact hok

/-- One task step keeps the burst invariant, provided the client answers the newest request
    with `p` as first item. -/
theorem burst_step (N last : Nat) (s0 : Settings) (p : Json) (τ τ' : Srv) (i : Nat) (r : Pull)
    (hb : Burst N last s0 p τ) (hr : i = last → ∃ xs, r = .items (p :: xs))
    (h : stepTask τ i r = .ok τ') : Burst N last s0 p τ' := by
  have hf := hb.frame
  rcases stepTask_cases τ τ' i r h with rfl | ⟨t, ht, h | h | h | h⟩
  · exact hb
  · -- start
    obtain ⟨hpc, rfl⟩ := h
    simp only [hf.hc, hf.hs, Bool.not_true, Bool.or_self, Bool.false_eq_true, if_false]
    by_cases hi : i = last
    · subst hi
      have hok := hb.ok t ht
      rw [hpc] at hok
      exact burst_setPc_last _ _ _ _ _ _ hf hok
    · exact burst_setPc_other _ _ _ _ _ _ _ hb hi
  · -- asked
    obtain ⟨hpc, rfl⟩ := h
    by_cases hi : i = last
    · subst hi
      have hok := hb.ok t ht
      rw [hpc] at hok
      exact burst_setPc_last _ _ _ _ _ _ hf ⟨hok, hr rfl⟩
    · exact burst_setPc_other _ _ _ _ _ _ _ hb hi
  · -- an answer that carries nothing
    obtain ⟨q, hq, hno, rfl⟩ := h
    by_cases hi : i = last
    · subst hi
      have hok := hb.ok t ht
      rw [hq] at hok
      obtain ⟨_, xs, hx⟩ := hok
      exact absurd hx (hno p xs)
    · exact burst_setPc_other _ _ _ _ _ _ _ hb hi
  · -- an answer is applied, or dropped
    obtain ⟨x, xs, hq, rfl⟩ := h
    by_cases hi : i = last
    · subst hi
      have hok := hb.ok t ht
      rw [hq] at hok
      obtain ⟨hs0, xs', hx⟩ := hok
      cases hx
      obtain ⟨tl, htl, hseql⟩ := hf.lastT
      rw [ht] at htl
      have e : t = tl := Option.some.inj htl
      rw [← e] at hseql
      apply burst_setPc_last _ _ _ _ _ _ (frame_apply _ _ _ _ _ hf)
      rw [applyConfiguration_settings, hseql, hf.seq]
      simp only [if_true, lastOK, hs0]
    · have hlt := hf.others i t ht hi
      have hne : ¬ t.seq = τ.refreshSeq := by rw [hf.seq]; omega
      have : applyConfiguration τ t.seq x = τ := by
        unfold applyConfiguration; simp only [hne, if_false]
      rw [this]
      exact burst_setPc_other _ _ _ _ _ _ _ hb hi

theorem quiescent_getElem? (σ : Srv) (h : quiescent σ = true) (j : Nat) (t : Task)
    (ht : σ.tasks[j]? = some t) : t.pc = .done := by
  unfold quiescent at h
  rw [List.all_eq_true] at h
  have := h t (List.mem_of_getElem? ht)
  cases hp : t.pc <;> simp_all [Pc.isDone]

/-- **The newest request wins.**  In a state where task `last` is the newest refresh request
    and has not been answered yet, let the tasks — all of them, older ones included — take
    steps in ANY order, the client answering the newest request with `p` (anything at all to
    the others).  Once no task is in flight the settings are `p` applied to the settings the
    burst started from. -/
theorem newest_wins (N last : Nat) (s0 : Settings) (p : Json) (τ τ' : Srv) (es : List Event)
    (hb : Burst N last s0 p τ)
    (hes : ∀ e ∈ es, ∃ i r, e = .task i r ∧ (i = last → ∃ xs, r = .items (p :: xs)))
    (hrun : run τ es = .ok τ') :
    Burst N last s0 p τ' ∧ (quiescent τ' = true → τ'.settings = parseSettingsFromRaw s0 p) := by
  have hB : Burst N last s0 p τ' := by
    induction es generalizing τ with
    | nil => simp only [run, Except.ok.injEq] at hrun; exact hrun ▸ hb
    | cons e es ih =>
      obtain ⟨i, r, rfl, hr⟩ := hes _ (List.mem_cons_self ..)
      simp only [run, step] at hrun
      cases hst : stepTask τ i r with
      | error x => rw [hst] at hrun; cases hrun
      | ok τ₁ =>
        rw [hst] at hrun
        exact ih τ₁ (burst_step _ _ _ _ _ _ _ _ hb hr hst)
          (fun e he => hes e (List.mem_cons_of_mem _ he)) hrun
  refine ⟨hB, fun hq => ?_⟩
  obtain ⟨t, ht, _⟩ := hB.frame.lastT
  have hok := hB.ok t ht
  rw [quiescent_getElem? τ' hq last t ht] at hok
  exact hok

theorem wf_of_frame (N last : Nat) (τ : Srv) (hf : Frame N last τ) : WF τ := by
  intro t ht
  obtain ⟨j, hj⟩ := List.getElem?_of_mem ht
  rw [hf.seq]
  by_cases hjl : j = last
  · obtain ⟨tl, htl, hseq⟩ := hf.lastT
    rw [hjl, htl] at hj
    cases hj
    omega
  · have := hf.others j t hj hjl
    omega

/-- A new request in a well-formed state: it is the newest, nothing has happened to it yet. -/
theorem spawnRefresh_burst (σ : Srv) (p : Json) (hc : σ.hasClient = true)
    (hs : σ.supportsCfg = true) (hwf : WF σ) :
    Burst (σ.refreshSeq + 1) σ.tasks.length σ.settings p (spawnRefresh σ) := by
  have hlast : (spawnRefresh σ).tasks[σ.tasks.length]? = some ⟨σ.refreshSeq + 1, .start⟩ := by
    simp [spawnRefresh, nextRefresh]
  refine ⟨⟨rfl, hc, hs, ?_, ⟨_, hlast, rfl⟩⟩, ?_⟩
  · intro j t hj hjl
    simp only [spawnRefresh, nextRefresh] at hj
    rw [List.getElem?_append] at hj
    split at hj
    · have := hwf t (List.mem_of_getElem? hj)
      omega
    · rename_i hlt
      have : j - σ.tasks.length ≠ 0 := by omega
      cases hk : j - σ.tasks.length with
      | zero => exact absurd hk this
      | succ k => rw [hk] at hj; simp at hj
  · intro t ht
    rw [hlast] at ht
    cases ht
    rfl

theorem step_change_pull (σ : Srv) (q : Json) (hc : σ.hasClient = true) (hs : σ.supportsCfg = true) :
    step σ (.didChangeConfiguration q) = .ok (spawnRefresh σ) := by
  simp [step, didChangeConfiguration, hc, hs]

theorem spawnRefresh_wf (σ : Srv) (hwf : WF σ) : WF (spawnRefresh σ) := by
  intro t ht
  simp only [spawnRefresh, nextRefresh, List.mem_append, List.mem_singleton] at ht ⊢
  rcases ht with ht | rfl
  · have := hwf t ht; omega
  · exact Nat.le_refl _

/-- a row of change notifications to a server that asks its client: each spawns a request,
    nothing else changes -/
theorem run_changes (qs : List Json) (σ : Srv) (hc : σ.hasClient = true) (hs : σ.supportsCfg = true)
    (hwf : WF σ) :
    ∃ σ₁, run σ (qs.map .didChangeConfiguration) = .ok σ₁ ∧ σ₁.settings = σ.settings ∧
      σ₁.hasClient = true ∧ σ₁.supportsCfg = true ∧ WF σ₁ ∧
      σ₁.tasks.length = σ.tasks.length + qs.length := by
  induction qs generalizing σ with
  | nil => exact ⟨σ, rfl, rfl, hc, hs, hwf, rfl⟩
  | cons q qs ih =>
    obtain ⟨σ₁, h1, h2, h3, h4, h5, h6⟩ := ih (spawnRefresh σ) hc hs (spawnRefresh_wf σ hwf)
    refine ⟨σ₁, ?_, h2, h3, h4, h5, ?_⟩
    · simp only [List.map_cons, run, step_change_pull σ q hc hs]; exact h1
    · rw [h6]; simp [spawnRefresh, nextRefresh]; omega

theorem run_append (σ : Srv) (a b : List Event) :
    run σ (a ++ b) = match run σ a with | .ok σ' => run σ' b | .error e => .error e := by
  induction a generalizing σ with
  | nil => rfl
  | cons e a ih =>
    simp only [List.cons_append, run]
    cases step σ e with
    | error p => rfl
    | ok σ₁ => exact ih σ₁

/-- every cached file passed the size check under the limits now in force -/
def CacheOK (σ : Srv) : Prop := ∀ k ∈ σ.cache, includeSize k ≤ σ.settings.limits.maxFileSizeBytes

theorem includeFrom_ok (L D : Int) (fuel k : Nat) (cache : List Nat)
    (h : ∀ x ∈ cache, includeSize x ≤ L) :
    ∀ x ∈ (includeFrom L D fuel k cache).2.2, includeSize x ≤ L := by
  induction fuel generalizing k cache with
  | zero => exact h
  | succ fuel ih =>
    unfold includeFrom
    split
    · exact h
    · dsimp only
      split
      · exact h
      · rename_i hsz
        have h1 : ∀ x ∈ (if cache.contains k = true then cache else k :: cache), includeSize x ≤ L := by
          intro x hx
          split at hx
          · exact h x hx
          · rename_i hnc
            rcases List.mem_cons.mp hx with rfl | hx
            · simp only [hnc, Bool.not_false, Bool.true_and, decide_eq_true_eq] at hsz
              omega
            · exact h x hx
        split
        · exact h1
        · exact ih _ _ h1

/-- the verdicts of a load do not depend on which of the files that pass the size check are cached -/
theorem includeFrom_verdict (L D : Int) (fuel k : Nat) (c1 c2 : List Nat)
    (h1 : ∀ x ∈ c1, includeSize x ≤ L) (h2 : ∀ x ∈ c2, includeSize x ≤ L) :
    (includeFrom L D fuel k c1).1 = (includeFrom L D fuel k c2).1 ∧
    (includeFrom L D fuel k c1).2.1 = (includeFrom L D fuel k c2).2.1 := by
  induction fuel generalizing k c1 c2 with
  | zero => exact ⟨rfl, rfl⟩
  | succ fuel ih =>
    unfold includeFrom
    split
    · exact ⟨rfl, rfl⟩
    · dsimp only
      by_cases hsz : includeSize k > L
      · have n1 : c1.contains k = false := by
          cases hc : c1.contains k with
          | false => rfl
          | true => have := h1 k (by simpa using hc); omega
        have n2 : c2.contains k = false := by
          cases hc : c2.contains k with
          | false => rfl
          | true => have := h2 k (by simpa using hc); omega
        simp only [n1, n2, hsz, Bool.not_false, decide_true, Bool.and_self, if_true]
        exact ⟨trivial, trivial⟩
      · have hd : decide (includeSize k > L) = false := by simpa using hsz
        simp only [hd, Bool.and_false, Bool.false_eq_true, if_false]
        have hle : includeSize k ≤ L := by omega
        have g1 : ∀ x ∈ (if c1.contains k = true then c1 else k :: c1), includeSize x ≤ L := by
          intro x hx
          split at hx
          · exact h1 x hx
          · rcases List.mem_cons.mp hx with rfl | hx
            · exact hle
            · exact h1 x hx
        have g2 : ∀ x ∈ (if c2.contains k = true then c2 else k :: c2), includeSize x ≤ L := by
          intro x hx
          split at hx
          · exact h2 x hx
          · rcases List.mem_cons.mp hx with rfl | hx
            · exact hle
            · exact h2 x hx
        split
        · exact ⟨rfl, rfl⟩
        · exact ih _ _ _ g1 g2

theorem setSettings_cacheOK (σ : Srv) (s : Settings) (h : CacheOK σ) : CacheOK (setSettings σ s) := by
  unfold setSettings CacheOK
  dsimp only
  split
  · rename_i heq
    intro k hk
    rw [heq]
    exact h k hk
  · intro k hk; cases hk

theorem applyConfiguration_cacheOK (σ : Srv) (q : Nat) (x : Json) (h : CacheOK σ) :
    CacheOK (applyConfiguration σ q x) := by
  unfold applyConfiguration
  split
  · exact setSettings_cacheOK _ _ h
  · exact h

theorem cacheOK_step (σ σ' : Srv) (e : Event) (hok : CacheOK σ) (h : step σ e = .ok σ') :
    CacheOK σ' := by
  cases e with
  | init p =>
    cases p with
    | none => simp [step, initializeSrv, Except.map] at h
    | some p =>
      simp only [step, initializeSrv, Except.map, Except.ok.injEq] at h
      subst h
      apply setSettings_cacheOK
      cases p.workspaceCfg <;> exact hok
  | initialized =>
    simp only [step, Except.ok.injEq] at h
    subst h; exact hok
  | didChangeConfiguration p =>
    simp only [step, Except.ok.injEq] at h
    subst h
    unfold didChangeConfiguration
    split
    · exact hok
    · split
      · exact hok
      · exact applyConfiguration_cacheOK _ _ _ hok
  | task i r =>
    simp only [step] at h
    rcases stepTask_cases σ σ' i r h with rfl | ⟨t, _, h | h | h | h⟩
    · exact hok
    · rw [h.2]; exact hok
    · rw [h.2]; exact hok
    · obtain ⟨q, _, _, h⟩ := h; rw [h]; exact hok
    · obtain ⟨x, xs, _, h⟩ := h; rw [h]; exact applyConfiguration_cacheOK _ _ _ hok
  | probe f =>
    simp only [step, Except.ok.injEq] at h
    subst h
    unfold probeLoad CacheOK
    dsimp only
    have hc : ∀ k ∈ (if f = true then [] else σ.cache), includeSize k ≤ σ.settings.limits.maxFileSizeBytes := by
      intro k hk
      split at hk
      · cases hk
      · exact hok k hk
    split
    · dsimp only
      unfold includeProbe
      split
      · exact hc
      · exact includeFrom_ok _ _ _ _ _ hc
    · exact hc

/-- the size (in runes) up to which the document's lengths are considered: 2^40, far beyond
    what a server can hold in memory -/
def docBound : Int := 1099511627776

open HL.FmtWidth in
def lensOK (d : Lens) : Prop :=
  0 ≤ d.account ∧ d.account ≤ docBound ∧ 0 ≤ d.head ∧ d.head ≤ docBound ∧
  0 ≤ d.amount ∧ d.amount ≤ docBound ∧ 0 ≤ d.pre ∧ d.pre ≤ docBound

theorem wrap64_mid (x : Int) (h1 : -4611686018427387904 ≤ x) (h2 : x ≤ 4611686018427387904) :
    wrap64 x = x := wrap64_small x (by omega) (by omega)

open HL.FmtWidth in
/-- the widths computed with Go's wrapping `int`, for settings inside their ranges: no
    wrap-around happens and every value is small -/
theorem widths_bounded (ind mac : Int) (d : Lens) (hi : 1 ≤ ind ∧ ind ≤ 32)
    (hm : 0 ≤ mac ∧ mac ≤ 500) (hd : lensOK d) :
    goIndent ind = ind ∧
    goGlobalCol ind mac d.account = (if mac > ind + d.account + 2 then mac else ind + d.account + 2) ∧
    (let col := goGlobalCol ind mac d.account
     goAmountGap col d.head = (if col - d.head ≥ 2 then col - d.head else 2) ∧
     goBaCol col d.amount = col + d.amount + 2 ∧
     goBaGap (goBaCol col d.amount) d.pre =
       (if col + d.amount + 2 - d.pre ≥ 2 then col + d.amount + 2 - d.pre else 2)) := by
  obtain ⟨a1, a2, b1, b2, c1, c2, e1, e2⟩ := hd
  unfold docBound at *
  have hind : goIndent ind = ind := by unfold goIndent; split <;> omega
  have hg : goGlobalCol ind mac d.account =
      (if mac > ind + d.account + 2 then mac else ind + d.account + 2) := by
    unfold goGlobalCol minSpaces
    rw [wrap64_mid (ind + d.account) (by omega) (by omega),
      wrap64_mid (ind + d.account + 2) (by omega) (by omega)]
    simp only [Bool.and_eq_true, decide_eq_true_eq]
    split <;> split <;> omega
  refine ⟨hind, hg, ?_⟩
  dsimp only
  rw [hg]
  have hcol : 3 ≤ (if mac > ind + d.account + 2 then mac else ind + d.account + 2) ∧
      (if mac > ind + d.account + 2 then mac else ind + d.account + 2) ≤ 534 + d.account := by
    split <;> omega
  generalize (if mac > ind + d.account + 2 then mac else ind + d.account + 2) = col at hcol
  have hba : goBaCol col d.amount = col + d.amount + 2 := by
    unfold goBaCol minSpaces
    rw [wrap64_mid (col + d.amount) (by omega) (by omega),
      wrap64_mid (col + d.amount + 2) (by omega) (by omega)]
  refine ⟨?_, hba, ?_⟩
  · unfold goAmountGap imax minSpaces
    rw [wrap64_mid (col - d.head) (by omega) (by omega)]
    split <;> split <;> (try split) <;> omega
  · rw [hba]
    unfold goBaGap imax minSpaces
    rw [wrap64_mid (col + d.amount + 2 - d.pre) (by omega) (by omega)]
    split <;> split <;> (try split) <;> omega

end HL.Lemmas.SettingsSrv
