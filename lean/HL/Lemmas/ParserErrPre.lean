import HL.Lemmas.ParserList
/-
  The parser never reads its error list: running any parse function on a state whose error
  list has an extra prefix `p` gives the same result, with the same prefix in front of the
  final error list.  (`f (addPre p st) = ((f st).1, addPre p (f st).2)`.)
-/
namespace HL.Parser
open HL HL.Ast

variable {σ : Type} (E : Env σ)

def addPre (p : List ParseError) (st : PState σ) : PState σ := { st with errors := p ++ st.errors }

@[simp, grind =] theorem addPre_current (p) (st : PState σ) : (addPre p st).current = st.current := rfl
@[simp, grind =] theorem addPre_src (p) (st : PState σ) : (addPre p st).src = st.src := rfl
@[simp, grind =] theorem addPre_year (p) (st : PState σ) : (addPre p st).defaultYear = st.defaultYear := rfl
@[simp, grind =] theorem addPre_errors (p) (st : PState σ) : (addPre p st).errors = p ++ st.errors := rfl
@[simp, grind =] theorem advance_addPre (p) (st : PState σ) : advance E (addPre p st) = addPre p (advance E st) := rfl
@[simp, grind =] theorem errorAt_addPre (p) (st : PState σ) (pos m) :
    errorAt (addPre p st) pos m = addPre p (errorAt st pos m) := by
  simp [errorAt, addPre, List.append_assoc]
@[simp, grind =] theorem error_addPre (p) (st : PState σ) (m) : error (addPre p st) m = addPre p (error st m) := by
  simp [error]
@[simp, grind =] theorem fuelOf_addPre (p) (st : PState σ) : fuelOf E (addPre p st) = fuelOf E st := rfl
@[simp, grind =] theorem setYear_addPre (p) (st : PState σ) (y : Int) :
    ({ addPre p st with defaultYear := y } : PState σ) = addPre p { st with defaultYear := y } := rfl


/-- Case by case (`fun_cases` on the run from `st`), the run from `addPre p st` takes the same
    branch. -/
macro "addpre_tac" f:ident : tactic =>
  `(tactic| (unfold $f; (try simp +zetaDelta only [] at *);
             first | grind | (simp_all; done) | (simp_all; grind)))

@[grind =] theorem parseComment_addPre (p) (st : PState σ) :
    parseComment E (addPre p st) = ((parseComment E st).1, addPre p (parseComment E st).2) := rfl

@[grind =] theorem parseDate_addPre (p) (st : PState σ) :
    parseDate E (addPre p st) = ((parseDate E st).1, addPre p (parseDate E st).2) := by
  fun_cases parseDate E st <;> addpre_tac parseDate

@[grind =] theorem parseStatus_addPre (p) (st : PState σ) :
    parseStatus E (addPre p st) = ((parseStatus E st).1, addPre p (parseStatus E st).2) := by
  fun_cases parseStatus E st <;> addpre_tac parseStatus

@[grind =] theorem amountLeadSign_addPre (p) (st : PState σ) :
    amountLeadSign E (addPre p st) = ((amountLeadSign E st).1, addPre p (amountLeadSign E st).2) := by
  fun_cases amountLeadSign E st <;> addpre_tac amountLeadSign

@[grind =] theorem amountLeftCommodity_addPre (p) (sg : Bytes) (sb : Bool) (st : PState σ) :
    amountLeftCommodity E sg sb (addPre p st) = ((amountLeftCommodity E sg sb st).1, addPre p (amountLeftCommodity E sg sb st).2) := by
  fun_cases amountLeftCommodity E sg sb st <;> addpre_tac amountLeftCommodity

@[grind =] theorem amountSecondSign_addPre (p) (sg : Bytes) (st : PState σ) :
    amountSecondSign E sg (addPre p st) = ((amountSecondSign E sg st).1, addPre p (amountSecondSign E sg st).2) := by
  fun_cases amountSecondSign E sg st <;> addpre_tac amountSecondSign

@[grind =] theorem amountRightCommodity_addPre (p) (c : Commodity) (stop : Pos) (st : PState σ) :
    amountRightCommodity E c stop (addPre p st) = ((amountRightCommodity E c stop st).1, addPre p (amountRightCommodity E c stop st).2) := by
  fun_cases amountRightCommodity E c stop st <;> addpre_tac amountRightCommodity

@[grind =] theorem amountNumber_addPre (p) (sp : Pos) (sg : Bytes) (c : Commodity) (sb : Bool) (st : PState σ) :
    amountNumber E sp sg c sb (addPre p st) = ((amountNumber E sp sg c sb st).1, addPre p (amountNumber E sp sg c sb st).2) := by
  fun_cases amountNumber E sp sg c sb st <;> addpre_tac amountNumber

@[grind =] theorem parseAmount_addPre (p) (st : PState σ) :
    parseAmount E (addPre p st) = ((parseAmount E st).1, addPre p (parseAmount E st).2) := by
  fun_cases parseAmount E st <;> addpre_tac parseAmount

@[grind =] theorem parseCost_addPre (p) (st : PState σ) :
    parseCost E (addPre p st) = ((parseCost E st).1, addPre p (parseCost E st).2) := by
  fun_cases parseCost E st <;> addpre_tac parseCost

@[grind =] theorem parseBalanceAssertion_addPre (p) (st : PState σ) :
    parseBalanceAssertion E (addPre p st) = ((parseBalanceAssertion E st).1, addPre p (parseBalanceAssertion E st).2) := by
  fun_cases parseBalanceAssertion E st <;> addpre_tac parseBalanceAssertion

@[grind =] theorem skipLoopF_addPre (p) (n : Nat) (st : PState σ) :
    skipLoopF E n (addPre p st) = addPre p (skipLoopF E n st) := by
  induction n generalizing st with
  | zero => rfl
  | succ n ih => unfold skipLoopF; grind

@[grind =] theorem skipToNextLine_addPre (p) (st : PState σ) :
    skipToNextLine E (addPre p st) = addPre p (skipToNextLine E st) := by
  unfold skipToNextLine; grind

@[grind =] theorem skipUntilF_addPre (p) (b : Bool) (n : Nat) (st : PState σ) :
    skipUntilF E b n (addPre p st) = addPre p (skipUntilF E b n st) := by
  induction n generalizing st with
  | zero => rfl
  | succ n ih => unfold skipUntilF; grind

@[grind =] theorem subValueF_addPre (p) (n : Nat) (st : PState σ) (acc : Bytes) :
    subValueF E n (addPre p st) acc = ((subValueF E n st acc).1, addPre p (subValueF E n st acc).2) := by
  induction n generalizing st acc with
  | zero => rfl
  | succ n ih => unfold subValueF; grind

@[grind =] theorem includePathF_addPre (p) (n : Nat) (st : PState σ) (acc : Bytes) :
    includePathF E n (addPre p st) acc = ((includePathF E n st acc).1, addPre p (includePathF E n st acc).2) := by
  induction n generalizing st acc with
  | zero => rfl
  | succ n ih => unfold includePathF; grind

@[grind =] theorem postingOpen_addPre (p) (st : PState σ) :
    postingOpen E (addPre p st) = ((postingOpen E st).1, addPre p (postingOpen E st).2) := by
  fun_cases postingOpen E st <;> addpre_tac postingOpen

@[grind =] theorem lineComment_addPre (p) (st : PState σ) :
    lineComment E (addPre p st) = ((lineComment E st).1, addPre p (lineComment E st).2) := by
  fun_cases lineComment E st <;> addpre_tac lineComment

@[grind =] theorem postingClosing_addPre (p) (cl : Option TokType) (st : PState σ) :
    postingClosing E cl (addPre p st) = addPre p (postingClosing E cl st) := by
  unfold postingClosing; grind

@[grind =] theorem postingAmount_addPre (p) (st : PState σ) :
    postingAmount E (addPre p st) = ((postingAmount E st).1, addPre p (postingAmount E st).2) := by
  fun_cases postingAmount E st <;> addpre_tac postingAmount

@[grind =] theorem postingCost_addPre (p) (st : PState σ) :
    postingCost E (addPre p st) = ((postingCost E st).1, addPre p (postingCost E st).2) := by
  fun_cases postingCost E st <;> addpre_tac postingCost

@[grind =] theorem postingAssertion_addPre (p) (st : PState σ) :
    postingAssertion E (addPre p st) = ((postingAssertion E st).1, addPre p (postingAssertion E st).2) := by
  fun_cases postingAssertion E st <;> addpre_tac postingAssertion

@[grind =] theorem postingTail_addPre (p) (cl : Option TokType) (st : PState σ) :
    postingTail E cl (addPre p st) = ((postingTail E cl st).1, addPre p (postingTail E cl st).2) := by
  fun_cases postingTail E cl st <;> addpre_tac postingTail


@[grind =] theorem parsePosting_addPre (p) (st : PState σ) :
    parsePosting E (addPre p st) = ((parsePosting E st).1, addPre p (parsePosting E st).2) := by
  fun_cases parsePosting E st <;> addpre_tac parsePosting

@[grind =] theorem postingsF_addPre (p) (n : Nat) (st : PState σ) :
    postingsF E n (addPre p st) = ((postingsF E n st).1, addPre p (postingsF E n st).2) := by
  induction n generalizing st with
  | zero => rfl
  | succ n ih => unfold postingsF; grind

@[grind =] theorem txDescription_addPre (p) (st : PState σ) :
    txDescription E (addPre p st) = ((txDescription E st).1, addPre p (txDescription E st).2) := by
  fun_cases txDescription E st <;> addpre_tac txDescription

@[grind =] theorem txDate2_addPre (p) (st : PState σ) :
    txDate2 E (addPre p st) = ((txDate2 E st).1, addPre p (txDate2 E st).2) := by
  fun_cases txDate2 E st <;> addpre_tac txDate2

@[grind =] theorem txStatus_addPre (p) (st : PState σ) :
    txStatus E (addPre p st) = ((txStatus E st).1, addPre p (txStatus E st).2) := by
  fun_cases txStatus E st <;> addpre_tac txStatus

@[grind =] theorem txCode_addPre (p) (st : PState σ) :
    txCode E (addPre p st) = ((txCode E st).1, addPre p (txCode E st).2) := by
  fun_cases txCode E st <;> addpre_tac txCode

@[grind =] theorem txComment_addPre (p) (st : PState σ) :
    txComment E (addPre p st) = ((txComment E st).1, addPre p (txComment E st).2) := by
  fun_cases txComment E st <;> addpre_tac txComment

@[grind =] theorem txHeader_addPre (p) (st : PState σ) :
    txHeader E (addPre p st) = ((txHeader E st).1, addPre p (txHeader E st).2) := by
  fun_cases txHeader E st <;> addpre_tac txHeader

@[grind =] theorem parseTransaction_addPre (p) (st : PState σ) :
    parseTransaction E (addPre p st) = ((parseTransaction E st).1, addPre p (parseTransaction E st).2) := by
  fun_cases parseTransaction E st <;> addpre_tac parseTransaction

@[grind =] theorem parseSubdirectivesF_addPre (p) (n : Nat) (st : PState σ) (m : Subdirs) :
    parseSubdirectivesF E n (addPre p st) m =
      ((parseSubdirectivesF E n st m).1, addPre p (parseSubdirectivesF E n st m).2) := by
  induction n generalizing st m with
  | zero => rfl
  | succ n ih => unfold parseSubdirectivesF; grind

@[grind =] theorem parseSubdirectives_addPre (p) (st : PState σ) :
    parseSubdirectives E (addPre p st) = ((parseSubdirectives E st).1, addPre p (parseSubdirectives E st).2) := by
  unfold parseSubdirectives; grind

@[grind =] theorem commodityInline_addPre (p) (st : PState σ) :
    commodityInline E (addPre p st) = ((commodityInline E st).1, addPre p (commodityInline E st).2) := by
  fun_cases commodityInline E st <;> addpre_tac commodityInline

@[grind =] theorem accountNameRest_addPre (p) (nm : Bytes) (st : PState σ) :
    accountNameRest E nm (addPre p st) = ((accountNameRest E nm st).1, addPre p (accountNameRest E nm st).2) := by
  fun_cases accountNameRest E nm st <;> addpre_tac accountNameRest

@[grind =] theorem parseAccountDirective_addPre (p) (sp : Pos) (st : PState σ) :
    parseAccountDirective E sp (addPre p st) = ((parseAccountDirective E sp st).1, addPre p (parseAccountDirective E sp st).2) := by
  fun_cases parseAccountDirective E sp st <;> addpre_tac parseAccountDirective

@[grind =] theorem parseCommodityDirective_addPre (p) (sp : Pos) (st : PState σ) :
    parseCommodityDirective E sp (addPre p st) = ((parseCommodityDirective E sp st).1, addPre p (parseCommodityDirective E sp st).2) := by
  fun_cases parseCommodityDirective E sp st <;> addpre_tac parseCommodityDirective

@[grind =] theorem parseIncludeDirective_addPre (p) (sp : Pos) (st : PState σ) :
    parseIncludeDirective E sp (addPre p st) = ((parseIncludeDirective E sp st).1, addPre p (parseIncludeDirective E sp st).2) := by
  fun_cases parseIncludeDirective E sp st <;> addpre_tac parseIncludeDirective

@[grind =] theorem parsePriceDirective_addPre (p) (sp : Pos) (st : PState σ) :
    parsePriceDirective E sp (addPre p st) = ((parsePriceDirective E sp st).1, addPre p (parsePriceDirective E sp st).2) := by
  fun_cases parsePriceDirective E sp st <;> addpre_tac parsePriceDirective

@[grind =] theorem parseDefaultCommodityDirective_addPre (p) (sp : Pos) (st : PState σ) :
    parseDefaultCommodityDirective E sp (addPre p st) = ((parseDefaultCommodityDirective E sp st).1, addPre p (parseDefaultCommodityDirective E sp st).2) := by
  fun_cases parseDefaultCommodityDirective E sp st <;> addpre_tac parseDefaultCommodityDirective

@[grind =] theorem parseYearDirective_addPre (p) (sp : Pos) (st : PState σ) :
    parseYearDirective E sp (addPre p st) = ((parseYearDirective E sp st).1, addPre p (parseYearDirective E sp st).2) := by
  fun_cases parseYearDirective E sp st <;> addpre_tac parseYearDirective

@[grind =] theorem parseDirective_addPre (p) (st : PState σ) :
    parseDirective E (addPre p st) = ((parseDirective E st).1, addPre p (parseDirective E st).2) := by
  fun_cases parseDirective E st <;> addpre_tac parseDirective

@[grind =] theorem journalStep_addPre (p) (st : PState σ) :
    journalStep E (addPre p st) = ((journalStep E st).1, addPre p (journalStep E st).2) := by
  fun_cases journalStep E st <;> addpre_tac journalStep

theorem parseJournalF_addPre (p) (n : Nat) (st : PState σ) :
    parseJournalF E n (addPre p st) = ((parseJournalF E n st).1, addPre p (parseJournalF E n st).2) := by
  induction n generalizing st with
  | zero => rfl
  | succ n ih => unfold parseJournalF; grind

theorem parseJournal_addPre (p) (st : PState σ) :
    parseJournal E (addPre p st) = ((parseJournal E st).1, addPre p (parseJournal E st).2) := by
  unfold parseJournal
  rw [fuelOf_addPre, parseJournalF_addPre]

end HL.Parser
