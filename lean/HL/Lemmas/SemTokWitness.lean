/-
  C17: concrete inputs used by the counterexample theorems and non-vacuity examples of
  HL/Props/C17.lean.  Every text is a witness line of replays/C17/*.jsonl; the token lists are
  what the real lexer (parser.NewLexer / Next) returns for it, copied from those files by
  tools/c17_witness.py (the check replays them on every run: model = implementation on each).
-/
import HL.Model.Ast
namespace HL.Lemmas.SemTok.W
open HL

/-- `"2024-01-15 payee|note\n"` and the lexer's tokens for it (replays/C17/pipe-position.jsonl, line 1). -/
def pipeText : Bytes := [50, 48, 50, 52, 45, 48, 49, 45, 49, 53, 32, 112, 97, 121, 101, 101, 124, 110, 111, 116, 101, 10]
def pipeToks : List Token := [
  ⟨.date, [50, 48, 50, 52, 45, 48, 49, 45, 49, 53], ⟨1, 1, 0⟩, ⟨1, 11, 10⟩⟩,
  ⟨.text, [112, 97, 121, 101, 101], ⟨1, 12, 11⟩, ⟨1, 17, 16⟩⟩,
  ⟨.pipe, [124], ⟨1, 17, 16⟩, ⟨1, 18, 17⟩⟩,
  ⟨.text, [110, 111, 116, 101], ⟨1, 18, 17⟩, ⟨1, 22, 21⟩⟩,
  ⟨.newline, [10], ⟨1, 22, 21⟩, ⟨2, 1, 22⟩⟩,
  ⟨.eof, [], ⟨2, 1, 22⟩, ⟨2, 1, 22⟩⟩]
-- implementation's array: [0, 0, 10, 3, 0, 0, 11, 5, 2, 0, 0, 5, 1, 11, 0, 0, 1, 4, 10, 0]

/-- `"2024-01-15 (123) payee\n"` and the lexer's tokens for it (replays/C17/code-length.jsonl, line 1). -/
def codeText : Bytes := [50, 48, 50, 52, 45, 48, 49, 45, 49, 53, 32, 40, 49, 50, 51, 41, 32, 112, 97, 121, 101, 101, 10]
def codeToks : List Token := [
  ⟨.date, [50, 48, 50, 52, 45, 48, 49, 45, 49, 53], ⟨1, 1, 0⟩, ⟨1, 11, 10⟩⟩,
  ⟨.code, [49, 50, 51], ⟨1, 12, 11⟩, ⟨1, 17, 16⟩⟩,
  ⟨.text, [112, 97, 121, 101, 101], ⟨1, 18, 17⟩, ⟨1, 23, 22⟩⟩,
  ⟨.newline, [10], ⟨1, 23, 22⟩, ⟨2, 1, 23⟩⟩,
  ⟨.eof, [], ⟨2, 1, 23⟩, ⟨2, 1, 23⟩⟩]
-- implementation's array: [0, 0, 10, 3, 0, 0, 11, 5, 7, 0, 0, 6, 5, 2, 0]

/-- `"2024-01-15 x\n    a:b  3 \"AAPL 2\"\n"` and the lexer's tokens for it (replays/C17/quoted-commodity-length.jsonl, line 1). -/
def quotedText : Bytes := [50, 48, 50, 52, 45, 48, 49, 45, 49, 53, 32, 120, 10, 32, 32, 32, 32, 97, 58, 98, 32, 32, 51, 32, 34, 65, 65, 80, 76, 32, 50, 34, 10]
def quotedToks : List Token := [
  ⟨.date, [50, 48, 50, 52, 45, 48, 49, 45, 49, 53], ⟨1, 1, 0⟩, ⟨1, 11, 10⟩⟩,
  ⟨.text, [120], ⟨1, 12, 11⟩, ⟨1, 13, 12⟩⟩,
  ⟨.newline, [10], ⟨1, 13, 12⟩, ⟨2, 1, 13⟩⟩,
  ⟨.indent, [32, 32, 32, 32], ⟨2, 1, 13⟩, ⟨2, 5, 17⟩⟩,
  ⟨.account, [97, 58, 98], ⟨2, 5, 17⟩, ⟨2, 8, 20⟩⟩,
  ⟨.number, [51], ⟨2, 10, 22⟩, ⟨2, 11, 23⟩⟩,
  ⟨.commodity, [65, 65, 80, 76, 32, 50], ⟨2, 12, 24⟩, ⟨2, 20, 32⟩⟩,
  ⟨.newline, [10], ⟨2, 20, 32⟩, ⟨3, 1, 33⟩⟩,
  ⟨.eof, [], ⟨3, 1, 33⟩, ⟨3, 1, 33⟩⟩]
-- implementation's array: [0, 0, 10, 3, 0, 0, 11, 1, 2, 0, 1, 4, 3, 0, 0, 0, 5, 1, 4, 0, 0, 2, 8, 1, 0]

/-- `"2024-01-15  payee \n"` and the lexer's tokens for it (replays/C17/text-trimmed-position.jsonl, line 1). -/
def trimText : Bytes := [50, 48, 50, 52, 45, 48, 49, 45, 49, 53, 32, 194, 160, 112, 97, 121, 101, 101, 32, 10]
def trimToks : List Token := [
  ⟨.date, [50, 48, 50, 52, 45, 48, 49, 45, 49, 53], ⟨1, 1, 0⟩, ⟨1, 11, 10⟩⟩,
  ⟨.text, [112, 97, 121, 101, 101], ⟨1, 12, 11⟩, ⟨1, 19, 19⟩⟩,
  ⟨.newline, [10], ⟨1, 19, 19⟩, ⟨2, 1, 20⟩⟩,
  ⟨.eof, [], ⟨2, 1, 20⟩, ⟨2, 1, 20⟩⟩]
-- implementation's array: [0, 0, 10, 3, 0, 0, 12, 5, 2, 0]

/-- `"account a:b\r\n"` and the lexer's tokens for it (replays/C17/text-trimmed-position.jsonl, line 3). -/
def trim2Text : Bytes := [97, 99, 99, 111, 117, 110, 116, 32, 97, 58, 98, 13, 10]
def trim2Toks : List Token := [
  ⟨.directive, [97, 99, 99, 111, 117, 110, 116], ⟨1, 1, 0⟩, ⟨1, 8, 7⟩⟩,
  ⟨.account, [97, 58, 98], ⟨1, 9, 8⟩, ⟨1, 12, 11⟩⟩,
  ⟨.newline, [10], ⟨1, 12, 11⟩, ⟨2, 1, 13⟩⟩,
  ⟨.eof, [], ⟨2, 1, 13⟩, ⟨2, 1, 13⟩⟩]
-- implementation's array: [0, 0, 7, 6, 0, 0, 8, 3, 0, 1]

/-- `"; note\r\n"` and the lexer's tokens for it (replays/C17/crlf-comment-length.jsonl, line 1). -/
def crlfText : Bytes := [59, 32, 110, 111, 116, 101, 13, 10]
def crlfToks : List Token := [
  ⟨.comment, [32, 110, 111, 116, 101], ⟨1, 1, 0⟩, ⟨1, 7, 6⟩⟩,
  ⟨.newline, [10], ⟨1, 7, 6⟩, ⟨2, 1, 8⟩⟩,
  ⟨.eof, [], ⟨2, 1, 8⟩, ⟨2, 1, 8⟩⟩]
-- implementation's array: [0, 0, 6, 9, 0]

/-- `"2024-01-15 x\n    a:😀  $1\n"` and the lexer's tokens for it (replays/C17/nonbmp-column.jsonl, line 1). -/
def nonbmpText : Bytes := [50, 48, 50, 52, 45, 48, 49, 45, 49, 53, 32, 120, 10, 32, 32, 32, 32, 97, 58, 240, 159, 152, 128, 32, 32, 36, 49, 10]
def nonbmpToks : List Token := [
  ⟨.date, [50, 48, 50, 52, 45, 48, 49, 45, 49, 53], ⟨1, 1, 0⟩, ⟨1, 11, 10⟩⟩,
  ⟨.text, [120], ⟨1, 12, 11⟩, ⟨1, 13, 12⟩⟩,
  ⟨.newline, [10], ⟨1, 13, 12⟩, ⟨2, 1, 13⟩⟩,
  ⟨.indent, [32, 32, 32, 32], ⟨2, 1, 13⟩, ⟨2, 5, 17⟩⟩,
  ⟨.account, [97, 58, 240, 159, 152, 128], ⟨2, 5, 17⟩, ⟨2, 8, 23⟩⟩,
  ⟨.commodity, [36], ⟨2, 10, 25⟩, ⟨2, 11, 26⟩⟩,
  ⟨.number, [49], ⟨2, 11, 26⟩, ⟨2, 12, 27⟩⟩,
  ⟨.newline, [10], ⟨2, 12, 27⟩, ⟨3, 1, 28⟩⟩,
  ⟨.eof, [], ⟨3, 1, 28⟩, ⟨3, 1, 28⟩⟩]
-- implementation's array: [0, 0, 10, 3, 0, 0, 11, 1, 2, 0, 1, 4, 4, 0, 0, 0, 6, 1, 1, 0, 0, 1, 1, 4, 0]

/-- `"; é, tag:value\n"` and the lexer's tokens for it (replays/C17/tag-byte-offsets.jsonl, line 1). -/
def tagbText : Bytes := [59, 32, 195, 169, 44, 32, 116, 97, 103, 58, 118, 97, 108, 117, 101, 10]
def tagbToks : List Token := [
  ⟨.comment, [32, 195, 169, 44, 32, 116, 97, 103, 58, 118, 97, 108, 117, 101], ⟨1, 1, 0⟩, ⟨1, 15, 15⟩⟩,
  ⟨.newline, [10], ⟨1, 15, 15⟩, ⟨2, 1, 16⟩⟩,
  ⟨.eof, [], ⟨2, 1, 16⟩, ⟨2, 1, 16⟩⟩]
-- implementation's array: [0, 5, 4, 5, 0, 0, 4, 5, 12, 0]

/-- `"2024-01-15 * payee ; k:v, n: w\n    a:b  $1 @ 2 EUR\n"` and the lexer's tokens for it (replays/C17/clean-example.jsonl, line 1). -/
def cleanText : Bytes := [50, 48, 50, 52, 45, 48, 49, 45, 49, 53, 32, 42, 32, 112, 97, 121, 101, 101, 32, 59, 32, 107, 58, 118, 44, 32, 110, 58, 32, 119, 10, 32, 32, 32, 32, 97, 58, 98, 32, 32, 36, 49, 32, 64, 32, 50, 32, 69, 85, 82, 10]
def cleanToks : List Token := [
  ⟨.date, [50, 48, 50, 52, 45, 48, 49, 45, 49, 53], ⟨1, 1, 0⟩, ⟨1, 11, 10⟩⟩,
  ⟨.status, [42], ⟨1, 12, 11⟩, ⟨1, 13, 12⟩⟩,
  ⟨.text, [112, 97, 121, 101, 101], ⟨1, 14, 13⟩, ⟨1, 20, 19⟩⟩,
  ⟨.comment, [32, 107, 58, 118, 44, 32, 110, 58, 32, 119], ⟨1, 20, 19⟩, ⟨1, 31, 30⟩⟩,
  ⟨.newline, [10], ⟨1, 31, 30⟩, ⟨2, 1, 31⟩⟩,
  ⟨.indent, [32, 32, 32, 32], ⟨2, 1, 31⟩, ⟨2, 5, 35⟩⟩,
  ⟨.account, [97, 58, 98], ⟨2, 5, 35⟩, ⟨2, 8, 38⟩⟩,
  ⟨.commodity, [36], ⟨2, 10, 40⟩, ⟨2, 11, 41⟩⟩,
  ⟨.number, [49], ⟨2, 11, 41⟩, ⟨2, 12, 42⟩⟩,
  ⟨.at, [64], ⟨2, 13, 43⟩, ⟨2, 14, 44⟩⟩,
  ⟨.number, [50], ⟨2, 15, 45⟩, ⟨2, 16, 46⟩⟩,
  ⟨.commodity, [69, 85, 82], ⟨2, 17, 47⟩, ⟨2, 20, 50⟩⟩,
  ⟨.newline, [10], ⟨2, 20, 50⟩, ⟨3, 1, 51⟩⟩,
  ⟨.eof, [], ⟨3, 1, 51⟩, ⟨3, 1, 51⟩⟩]
-- implementation's array: [0, 0, 10, 3, 0, 0, 11, 1, 8, 0, 0, 2, 5, 2, 0, 0, 8, 2, 5, 0, 0, 2, 1, 12, 0, 0, 3, 2, 5, 0, 0, 3, 1, 12, 0, 1, 4, 3, 0, 0, 0, 5, 1, 1, 0, 0, 1, 1, 4, 0, 0, 2, 1, 11, 0, 0, 2, 1, 4, 0, 0, 2, 3, 1, 0]

/-- `"; p q ya:1, a:2\n"` and the lexer's tokens for it (replays/C17/tag-search-position.jsonl, line 1). -/
def tagsText : Bytes := [59, 32, 112, 32, 113, 32, 121, 97, 58, 49, 44, 32, 97, 58, 50, 10]
def tagsToks : List Token := [
  ⟨.comment, [32, 112, 32, 113, 32, 121, 97, 58, 49, 44, 32, 97, 58, 50], ⟨1, 1, 0⟩, ⟨1, 16, 15⟩⟩,
  ⟨.newline, [10], ⟨1, 16, 15⟩, ⟨2, 1, 16⟩⟩,
  ⟨.eof, [], ⟨2, 1, 16⟩, ⟨2, 1, 16⟩⟩]
-- implementation's array: [0, 12, 2, 5, 0, 0, 2, 1, 12, 0]

/-- The tokens the PINNED lexer returned for `pipeText` (before the one-character-token repair
    8add500): `|` empty and positioned behind its character.  Hand-copied from the witness as it
    was recorded then; used only by `pinned_pipe_position_counterexample`. -/
def pipePinnedToks : List Token := [
  ⟨.date, [50, 48, 50, 52, 45, 48, 49, 45, 49, 53], ⟨1, 1, 0⟩, ⟨1, 11, 10⟩⟩,
  ⟨.text, [112, 97, 121, 101, 101], ⟨1, 12, 11⟩, ⟨1, 17, 16⟩⟩,
  ⟨.pipe, [124], ⟨1, 18, 17⟩, ⟨1, 18, 17⟩⟩,
  ⟨.text, [110, 111, 116, 101], ⟨1, 18, 17⟩, ⟨1, 22, 21⟩⟩,
  ⟨.newline, [10], ⟨1, 22, 21⟩, ⟨2, 1, 22⟩⟩,
  ⟨.eof, [], ⟨2, 1, 22⟩, ⟨2, 1, 22⟩⟩]

/-- The tokens the PINNED lexer (HL/Model/LexerPinned.lean: only LF ends a line, before the
    `fix:` commit for CRLF line ends) returned for `crlfText`: the comment's value and extent
    include the CR.  As the witness was recorded then; `HL.Props.C17` proves it equal to the
    pinned lexer model's output.  Used only by `pinned_crlf_comment_length_counterexample`. -/
def crlfPinnedToks : List Token := [
  ⟨.comment, [32, 110, 111, 116, 101, 13], ⟨1, 1, 0⟩, ⟨1, 8, 7⟩⟩,
  ⟨.newline, [10], ⟨1, 8, 7⟩, ⟨2, 1, 8⟩⟩,
  ⟨.eof, [], ⟨2, 1, 8⟩, ⟨2, 1, 8⟩⟩]

/-- The tokens the PINNED lexer returned for `trim2Text` (`account a:b` + CRLF): an empty Text
    token on the CR.  As the witness was recorded then; used only by
    `pinned_text_trimmed_position_counterexample`. -/
def trim2PinnedToks : List Token := [
  ⟨.directive, [97, 99, 99, 111, 117, 110, 116], ⟨1, 1, 0⟩, ⟨1, 8, 7⟩⟩,
  ⟨.account, [97, 58, 98], ⟨1, 9, 8⟩, ⟨1, 12, 11⟩⟩,
  ⟨.text, [], ⟨1, 12, 11⟩, ⟨1, 13, 12⟩⟩,
  ⟨.newline, [10], ⟨1, 13, 12⟩, ⟨2, 1, 13⟩⟩,
  ⟨.eof, [], ⟨2, 1, 13⟩, ⟨2, 1, 13⟩⟩]

end HL.Lemmas.SemTok.W
