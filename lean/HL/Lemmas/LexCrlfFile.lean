import HL.Lemmas.LexCrlfLine
/-!
  Carriage returns and the repaired lexer, part 3: WHOLE FILES.

  `toCrlf t` replaces every line feed of `t` by CR LF.  For every byte string `t` without a
  carriage return, lexing `toCrlf t` gives the tokens of `t` — same types, values, lines and
  columns — with every offset moved by the number of line ends in front of it, which is the
  position's own line number minus one (`lexAll_crlf`).  Composition of the one-line lemma
  `lexS_crx` with line-locality (`lexAll_line_local`).
-/
namespace HL.Lex
open HL HL.Utf8

local notation "LF" => (0x0A : UInt8)
local notation "CR" => (0x0D : UInt8)

/-- every line feed replaced by carriage return + line feed -/
def toCrlf : Bytes → Bytes
  | [] => []
  | c :: t => if c == LF then CR :: LF :: toCrlf t else c :: toCrlf t

/-- the same token in the CR LF text: every offset moved by the number of line ends in front of
    it, i.e. by the position's line number minus one -/
def crShift (t : Token) : Token := crLine 1 t

theorem toCrlf_append (a b : Bytes) : toCrlf (a ++ b) = toCrlf a ++ toCrlf b := by
  induction a with
  | nil => rfl
  | cons c a ih =>
    simp only [List.cons_append, toCrlf, ih]
    split <;> rfl

theorem toCrlf_noLF {a : Bytes} (h : LF ∉ a) : toCrlf a = a := by
  induction a with
  | nil => rfl
  | cons c a ih =>
    have hc : (c == LF) = false := by simpa using fun e : c = LF => h (by simp [e])
    simp only [toCrlf, hc, Bool.false_eq_true, if_false, ih (fun m => h (by simp [m]))]

theorem split_first_lf (t : Bytes) : LF ∉ t ∨ ∃ a b, t = a ++ LF :: b ∧ LF ∉ a := by
  induction t with
  | nil => exact Or.inl (by simp)
  | cons c t ih =>
    by_cases hc : c = LF
    · exact Or.inr ⟨[], t, by simp [hc], by simp⟩
    · rcases ih with h | ⟨a, b, h1, h2⟩
      · refine Or.inl ?_
        intro m; rcases List.mem_cons.mp m with e | e
        · exact hc e.symm
        · exact h e
      · refine Or.inr ⟨c :: a, b, by simp [h1], ?_⟩
        intro m; rcases List.mem_cons.mp m with e | e
        · exact hc e.symm
        · exact h2 e

/-! ### the line of a token's end -/

/-- the line of a token's end = `L` + number of line feeds in front of that end -/
theorem lexS_stop_lines (C : Classes) (L n : Nat) (z : Z) (hn : z.after.length ≤ n)
    (hinv : z.line = L + countLF z.before) :
    ∀ t ∈ lexS C z, t.stop.line = L + countLF (z.input.take t.stop.off) := by
  have one : ∀ z : Z, z.line = L + countLF z.before →
      (next C z).1.stop.line = L + countLF (z.input.take (next C z).1.stop.off) := by
    intro z hinv
    have hs := step_lines L (next_step C z) hinv
    have hres := next_res C z
    cases next_step C z with
    | newline sp cr hsp hcr hafter hbefore hline hcol hstart hty hpl hpo hstop =>
      rw [hstop]
      show (next C z).2.line = L + countLF (z.input.take (next C z).2.before.length)
      have : z.input.take (next C z).2.before.length = (next C z).2.before.reverse := by
        rw [← hres.adv.input, Z.input]
        have : (next C z).2.before.length = (next C z).2.before.reverse.length := by simp
        rw [this, List.take_left]
      rw [this, countLF_reverse]
      exact hs.2
    | tok sp pre hsp hpre hafter hbefore hline hty hpl hpo hstop =>
      -- the token ends on its line: between its start and its end there is no line feed
      have hge := hstop.ge
      have hle := hstop.le
      have hlen : (next C z).2.before.length = z.before.length + sp.length + pre.length := by
        rw [hbefore]; simp; omega
      obtain ⟨k, hk, hk2⟩ : ∃ k, (next C z).1.stop.off = z.before.length + (sp ++ pre.take k).length ∧ k ≤ pre.length :=
        ⟨(next C z).1.stop.off - (next C z).1.pos.off, by
          rw [List.length_append, List.length_take]
          omega, by omega⟩
      have hz : z.after = (sp ++ pre.take k) ++ (pre.drop k ++ (next C z).2.after) := by
        rw [hafter]; simp only [List.append_assoc, List.append_cancel_left_eq]
        rw [← List.append_assoc, List.take_append_drop]
      rw [hstop.line, hpl, hk, take_input hz, hinv]
      have hnosp : LF ∉ sp := fun hm => absurd (hsp _ hm) (by decide)
      have hnopre : LF ∉ pre.take k := fun hm => hpre (List.mem_of_mem_take hm)
      simp only [countLF_append, countLF_reverse, countLF_of_not_mem hnosp, countLF_of_not_mem hnopre]
      omega
  induction n generalizing z with
  | zero =>
    have h0 : z.after = [] := List.eq_nil_of_length_eq_zero (by omega)
    rw [lexS_unfold]
    have he : (next C z).1.ty = .eof := by rw [next_nil C h0]; rfl
    simp only [he, if_true, List.mem_singleton]
    intro t ht; subst ht; exact one z hinv
  | succ n ih =>
    have hres := next_res C z
    have hs := step_lines L (next_step C z) hinv
    rw [lexS_unfold]
    split
    · intro t ht
      simp only [List.mem_singleton] at ht
      subst ht; exact one z hinv
    · rename_i hne
      have hlt := next_lt_of_ne_eof C z hne
      have hih := ih (next C z).2 (by omega) hs.2
      intro t ht
      rcases List.mem_cons.mp ht with rfl | ht
      · exact one z hinv
      · rw [← hres.adv.input]
        exact hih t ht

/-- every position of the stream of a whole input has a line number ≥ 1 -/
theorem lexAll_lines_pos (C : Classes) (input : Bytes) :
    ∀ t ∈ lexAll C input, 1 ≤ t.pos.line ∧ 1 ≤ t.stop.line := by
  intro t ht
  rw [lexAll_eq_lexS] at ht
  have h1 := lexS_lines C 1 input.length (Z.init input) (by simp [Z.init]) (by simp [Z.init, countLF]) t ht
  have h2 := lexS_stop_lines C 1 input.length (Z.init input) (by simp [Z.init]) (by simp [Z.init, countLF]) t ht
  omega

/-- without a line feed in the input every position is on line 1 -/
theorem lexAll_one_line (C : Classes) {input : Bytes} (h : LF ∉ input) :
    ∀ t ∈ lexAll C input, t.pos.line = 1 ∧ t.stop.line = 1 := by
  intro t ht
  rw [lexAll_eq_lexS] at ht
  have h1 := lexS_lines C 1 input.length (Z.init input) (by simp [Z.init]) (by simp [Z.init, countLF]) t ht
  have h2 := lexS_stop_lines C 1 input.length (Z.init input) (by simp [Z.init]) (by simp [Z.init, countLF]) t ht
  have e : ∀ k, countLF ((Z.init input).input.take k) = 0 := by
    intro k
    apply countLF_of_not_mem
    intro m
    exact h (by simpa [Z.init, Z.input] using List.mem_of_mem_take m)
  rw [e] at h1 h2
  exact ⟨h1, h2⟩

/-! ### composition -/

theorem crShift_shift (x : Token) (n : Nat) (h1 : 1 ≤ x.pos.line) (h2 : 1 ≤ x.stop.line) :
    shiftTok 1 (n + 2) (crShift x) = crShift (shiftTok 1 (n + 1) x) := by
  cases x with
  | mk ty v p e =>
    cases p; cases e
    simp only at h1 h2
    simp only [crShift, crLine, shiftTok, shiftPos, Token.mk.injEq, Pos.mk.injEq, true_and]
    omega

/-- **CRLF is LF.**  For every byte string `t` without a carriage return and every classifier:
    the token stream of `t` with every LF replaced by CR LF is the token stream of `t` — same
    types, same values, same lines and columns — with every offset moved by the number of line
    ends in front of it (`crShift`: offset + line − 1). -/
theorem lexAll_crlf (C : Classes) (t : Bytes) (h : CR ∉ t) :
    lexAll C (toCrlf t) = (lexAll C t).map crShift := by
  generalize hn : t.length = n
  induction n using Nat.strongRecOn generalizing t with
  | _ n ih =>
    rcases split_first_lf t with hno | ⟨a, b, rfl, ha⟩
    · -- one line without a line end
      rw [toCrlf_noLF hno]
      symm
      have : ∀ x ∈ lexAll C t, crShift x = x := fun x hx =>
        crLine_same 1 x (lexAll_one_line C hno x hx).1 (lexAll_one_line C hno x hx).2
      rw [List.map_congr_left this]; simp
    · have hca : CR ∉ a := fun m => h (by simp [m])
      have hcb : CR ∉ b := fun m => h (by simp [m])
      have hb := ih b.length (by rw [← hn]; simp; omega) b hcb rfl
      have e1 : toCrlf (a ++ LF :: b) = (a ++ [CR]) ++ LF :: toCrlf b := by
        rw [toCrlf_append, toCrlf_noLF ha]; simp [toCrlf]
      have hcl : countLF (a ++ [CR]) = 0 := by
        apply countLF_of_not_mem
        intro m; rcases List.mem_append.mp m with m | m
        · exact ha m
        · simp at m
      have hcl2 : countLF a = 0 := countLF_of_not_mem ha
      -- the first line
      have hol : OL (Z.init (a ++ [LF])) := ⟨a, rfl, ha, hca⟩
      have hline : lexAll C (a ++ [CR] ++ [LF]) = (lexAll C (a ++ [LF])).map crShift := by
        rw [lexAll_eq_lexS, lexAll_eq_lexS]
        have : Z.init (a ++ [CR] ++ [LF]) = (Z.init (a ++ [LF])).crx := by
          simp only [Z.init, Z.crx, crx_append]; simp
        rw [this, lexS_crx C _ hol (Nat.le_refl _)]
        rfl
      rw [e1, lexAll_line_local C (a ++ [CR]) (toCrlf b), lexAll_line_local C a b, hline, hb, hcl, hcl2]
      rw [List.map_append, List.map_dropLast, List.map_map, List.map_map]
      congr 1
      apply List.map_congr_left
      intro x hx
      have hp := lexAll_lines_pos C b x hx
      simp only [Function.comp_apply, List.length_append, List.length_singleton, Nat.zero_add]
      exact crShift_shift x a.length hp.1 hp.2

/-! ### files that mix LF and CR LF line ends -/

/-- `t` without its carriage returns -/
def dropCR (t : Bytes) : Bytes := t.filter (· != CR)

/-- number of carriage returns in `t` in front of its `k`-th line feed (all of them if `t` has
    fewer line feeds) -/
def crBefore : Bytes → Nat → Nat
  | [], _ => 0
  | _ :: _, 0 => 0
  | c :: r, k + 1 => if c == LF then crBefore r k else (if c == CR then 1 else 0) + crBefore r (k + 1)

/-- a token of `dropCR t` as it lies in `t`: every offset moved by the number of carriage
    returns in front of the position's line -/
def mixShift (t : Bytes) (x : Token) : Token :=
  { x with pos := ⟨x.pos.line, x.pos.col, x.pos.off + crBefore t (x.pos.line - 1)⟩,
           stop := ⟨x.stop.line, x.stop.col, x.stop.off + crBefore t (x.stop.line - 1)⟩ }

theorem dropCR_append (a b : Bytes) : dropCR (a ++ b) = dropCR a ++ dropCR b := by simp [dropCR]

theorem dropCR_noCR {a : Bytes} (h : CR ∉ a) : dropCR a = a := by
  simp only [dropCR, List.filter_eq_self]
  intro x hx
  simpa using fun e : x = CR => h (e ▸ hx)

theorem crBefore_zero (t : Bytes) : crBefore t 0 = 0 := by cases t <;> rfl

theorem crBefore_line (a b : Bytes) (ha : LF ∉ a) (k : Nat) :
    crBefore (a ++ LF :: b) (k + 1) = (a.filter (· == CR)).length + crBefore b k := by
  induction a with
  | nil => simp [crBefore]
  | cons c a ih =>
    have hc : (c == LF) = false := by simpa using fun e : c = LF => ha (by simp [e])
    simp only [List.cons_append, crBefore, hc, Bool.false_eq_true, if_false, ih (fun m => ha (by simp [m])),
      List.filter_cons]
    split <;> simp <;> omega

/-- in a text whose carriage returns all stand directly in front of a line feed, the first line
    is `a0` or `a0 ++ [CR]` with no carriage return in `a0` -/
theorem crOk_first_line {a b : Bytes} (h : CrOk (a ++ LF :: b) = true) (ha : LF ∉ a) :
    (CR ∉ a ∨ ∃ a0, a = a0 ++ [CR] ∧ CR ∉ a0) ∧ CrOk b = true := by
  induction a with
  | nil =>
    refine ⟨Or.inl (by simp), ?_⟩
    cases b with
    | nil => rfl
    | cons d r => simp only [List.nil_append, CrOk, Bool.and_eq_true] at h; exact h.2
  | cons c a ih =>
    have ha' : LF ∉ a := fun m => ha (by simp [m])
    have hcr : CrOk (a ++ LF :: b) = true := by
      cases a with
      | nil => simp only [List.cons_append, List.nil_append, CrOk, Bool.and_eq_true] at h ⊢; exact h.2
      | cons d r => simp only [List.cons_append, CrOk, Bool.and_eq_true] at h ⊢; exact h.2
    obtain ⟨h1, h2⟩ := ih hcr ha'
    refine ⟨?_, h2⟩
    by_cases hc : c = CR
    · -- a carriage return is followed by a line feed: `a` is empty
      subst hc
      cases a with
      | nil => exact Or.inr ⟨[], rfl, by simp⟩
      | cons d r =>
        simp only [List.cons_append, CrOk, Bool.and_eq_true, Bool.or_eq_true, bne_iff_ne, ne_eq,
          not_true_eq_false, false_or, beq_iff_eq] at h
        exact absurd h.1 (fun e => ha (by simp [e]))
    · rcases h1 with h1 | ⟨a0, h1, h1'⟩
      · refine Or.inl ?_
        intro m; rcases List.mem_cons.mp m with e | e
        · exact hc e.symm
        · exact h1 e
      · refine Or.inr ⟨c :: a0, by simp [h1], ?_⟩
        intro m; rcases List.mem_cons.mp m with e | e
        · exact hc e.symm
        · exact h1' e

theorem mixShift_shift (a b : Bytes) (ha : LF ∉ a) (x : Token) (n : Nat)
    (h1 : 1 ≤ x.pos.line) (h2 : 1 ≤ x.stop.line) :
    shiftTok 1 (n + (a.filter (· == CR)).length) (mixShift b x) = mixShift (a ++ LF :: b) (shiftTok 1 n x) := by
  cases x with
  | mk ty v p e =>
    cases p with
    | mk pl pc po =>
      cases e with
      | mk el ec eo =>
        simp only at h1 h2
        obtain ⟨k, rfl⟩ : ∃ k, pl = k + 1 := ⟨pl - 1, by omega⟩
        obtain ⟨m, rfl⟩ : ∃ m, el = m + 1 := ⟨el - 1, by omega⟩
        simp only [mixShift, shiftTok, shiftPos, Nat.add_sub_cancel, crBefore_line a b ha, Token.mk.injEq,
          Pos.mk.injEq, true_and]
        omega

theorem countLF_take_le (l : Bytes) (k : Nat) : countLF (l.take k) ≤ countLF l := by
  unfold countLF
  exact ((List.take_sublist k l).filter _).length_le

/-- the positions of the stream of one line `a ++ [LF]` are on lines 1 and 2 -/
theorem lexAll_first_line (C : Classes) {a : Bytes} (ha : LF ∉ a) :
    ∀ x ∈ lexAll C (a ++ [LF]), (1 ≤ x.pos.line ∧ x.pos.line ≤ 2) ∧ (1 ≤ x.stop.line ∧ x.stop.line ≤ 2) := by
  intro x hx
  rw [lexAll_eq_lexS] at hx
  have h1 := lexS_lines C 1 _ (Z.init (a ++ [LF])) (Nat.le_refl _) (by simp [Z.init, countLF]) x hx
  have h2 := lexS_stop_lines C 1 _ (Z.init (a ++ [LF])) (Nat.le_refl _) (by simp [Z.init, countLF]) x hx
  have hc : countLF (a ++ [LF]) = 1 := by rw [countLF_append, countLF_of_not_mem ha]; rfl
  have e : (Z.init (a ++ [LF])).input = a ++ [LF] := by simp [Z.init, Z.input]
  rw [e] at h1 h2
  have b1 := countLF_take_le (a ++ [LF]) x.pos.off
  have b2 := countLF_take_le (a ++ [LF]) x.stop.off
  omega

/-- on the first line of `t = a ++ LF :: b` (lines 1 and 2) `mixShift t` moves nothing if `a`
    has no carriage return, and is `crLine 1` if it has exactly one -/
theorem mixShift_first_line (a b : Bytes) (ha : LF ∉ a) (x : Token)
    (hp : 1 ≤ x.pos.line ∧ x.pos.line ≤ 2) (hs : 1 ≤ x.stop.line ∧ x.stop.line ≤ 2) :
    ((a.filter (· == CR)).length = 0 → mixShift (a ++ LF :: b) x = x) ∧
    ((a.filter (· == CR)).length = 1 → mixShift (a ++ LF :: b) x = crLine 1 x) := by
  have c0 : crBefore (a ++ LF :: b) 0 = 0 := crBefore_zero _
  have c1 : crBefore (a ++ LF :: b) 1 = (a.filter (· == CR)).length := by
    rw [crBefore_line a b ha 0, crBefore_zero]; rfl
  cases x with
  | mk ty v p e =>
    cases p with
    | mk pl pc po =>
      cases e with
      | mk el ec eo =>
        simp only at hp hs
        have hpl : pl = 1 ∨ pl = 2 := by omega
        have hel : el = 1 ∨ el = 2 := by omega
        constructor
        · intro h0
          rcases hpl with rfl | rfl <;> rcases hel with rfl | rfl <;> simp [mixShift, c0, c1, h0]
        · intro h1
          rcases hpl with rfl | rfl <;> rcases hel with rfl | rfl <;> simp [mixShift, crLine, c0, c1, h1]

/-- **Mixed line ends.**  For every byte string `t` in which a carriage return occurs only
    directly in front of a line feed — LF files, CRLF files and files that mix the two — and
    every classifier: the token stream of `t` is the token stream of `t` without its carriage
    returns — same types, values, lines and columns — with every offset moved by the number of
    carriage returns in front of the position's line. -/
theorem lexAll_mixed (C : Classes) (t : Bytes) (h : CrOk t = true) :
    lexAll C t = (lexAll C (dropCR t)).map (mixShift t) := by
  generalize hn : t.length = n
  induction n using Nat.strongRecOn generalizing t with
  | _ n ih =>
    rcases split_first_lf t with hno | ⟨a, b, rfl, ha⟩
    · -- no line feed: a carriage return could only be the last byte, and `CrOk` forbids that
      have hnc : CR ∉ t := by
        intro m
        obtain ⟨s, r, rfl⟩ := List.append_of_mem m
        have := crOk_append_cr h
        cases r with
        | nil => simp [headIs] at this
        | cons d r =>
          simp only [headIs, beq_iff_eq] at this
          exact hno (by simp [this])
      rw [dropCR_noCR hnc]
      symm
      have : ∀ x ∈ lexAll C t, mixShift t x = x := by
        intro x hx
        obtain ⟨h1, h2⟩ := lexAll_one_line C hno x hx
        cases x with
        | mk ty v p e =>
          cases p; cases e
          simp only at h1 h2
          simp [mixShift, h1, h2, crBefore_zero]
      rw [List.map_congr_left this]; simp
    · obtain ⟨hfirst, hb⟩ := crOk_first_line h ha
      have hih := ih b.length (by rw [← hn]; simp; omega) b hb rfl
      have hmap : ∀ (n : Nat), (List.map (mixShift b) (lexAll C (dropCR b))).map (shiftTok 1 (n + (a.filter (· == CR)).length))
          = ((lexAll C (dropCR b)).map (shiftTok 1 n)).map (mixShift (a ++ LF :: b)) := by
        intro n
        rw [List.map_map, List.map_map]
        apply List.map_congr_left
        intro x hx
        have hp := lexAll_lines_pos C (dropCR b) x hx
        exact mixShift_shift a b ha x n hp.1 hp.2
      rcases hfirst with hnc | ⟨a0, rfl, hnc⟩
      · -- the first line ends in LF
        have hd : dropCR (a ++ LF :: b) = a ++ LF :: dropCR b := by
          rw [dropCR_append, dropCR_noCR hnc]; simp [dropCR]
        have hcnt : (a.filter (· == CR)).length = 0 := by
          simp only [List.length_eq_zero_iff, List.filter_eq_nil_iff]
          intro x hx e
          have : x = CR := by simpa using e
          exact hnc (this ▸ hx)
        have hfl : ∀ x ∈ (lexAll C (a ++ [LF])).dropLast, mixShift (a ++ LF :: b) x = x := by
          intro x hx
          have hl := lexAll_first_line C ha x ((List.dropLast_sublist _).subset hx)
          exact (mixShift_first_line a b ha x hl.1 hl.2).1 hcnt
        have hm := hmap (a.length + 1)
        rw [hcnt, Nat.add_zero] at hm
        have key : ∀ (f : Token → Token) (l : List Token), (l.map f).dropLast = l.dropLast.map f := by
          intro f l; simp [List.map_dropLast]
        rw [hd, lexAll_line_local C a b, lexAll_line_local C a (dropCR b), hih, List.map_append,
          countLF_of_not_mem ha, Nat.zero_add, hm, List.map_congr_left hfl]
        simp
      · -- the first line ends in CR LF
        have ha0 : LF ∉ a0 := fun m => ha (by simp [m])
        have hd : dropCR (a0 ++ [CR] ++ LF :: b) = a0 ++ LF :: dropCR b := by
          rw [dropCR_append, dropCR_append, dropCR_noCR hnc]; simp [dropCR]
        have hcnt : ((a0 ++ [CR]).filter (· == CR)).length = 1 := by
          have : a0.filter (· == CR) = [] := by
            simp only [List.filter_eq_nil_iff]
            intro x hx e
            have : x = CR := by simpa using e
            exact hnc (this ▸ hx)
          simp [List.filter_append, this]
        have hol : OL (Z.init (a0 ++ [LF])) := ⟨a0, rfl, ha0, hnc⟩
        have hline : lexAll C (a0 ++ [CR] ++ [LF]) = (lexAll C (a0 ++ [LF])).map (crLine 1) := by
          rw [lexAll_eq_lexS, lexAll_eq_lexS]
          have : Z.init (a0 ++ [CR] ++ [LF]) = (Z.init (a0 ++ [LF])).crx := by
            simp only [Z.init, Z.crx, crx_append]; simp
          rw [this, lexS_crx C _ hol (Nat.le_refl _)]
          rfl
        have hfl : ∀ x ∈ (lexAll C (a0 ++ [LF])).dropLast, mixShift (a0 ++ [CR] ++ LF :: b) x = crLine 1 x := by
          intro x hx
          have hl := lexAll_first_line C ha0 x ((List.dropLast_sublist _).subset hx)
          have hl' : (1 ≤ x.pos.line ∧ x.pos.line ≤ 2) ∧ (1 ≤ x.stop.line ∧ x.stop.line ≤ 2) := hl
          exact (mixShift_first_line (a0 ++ [CR]) b ha x hl'.1 hl'.2).2 hcnt
        have hm := hmap (a0.length + 1)
        rw [hcnt] at hm
        have hcl : countLF (a0 ++ [CR]) = 0 := countLF_of_not_mem ha
        rw [hd, lexAll_line_local C (a0 ++ [CR]) b, lexAll_line_local C a0 (dropCR b), hih, List.map_append,
          hline, hcl, countLF_of_not_mem ha0, Nat.zero_add]
        have e1 : (a0 ++ [CR]).length + 1 = a0.length + 1 + 1 := by simp
        have key : ∀ (f : Token → Token) (l : List Token), (l.map f).dropLast = l.dropLast.map f := by
          intro f l; simp [List.map_dropLast]
        rw [e1, hm, key, List.map_congr_left hfl]

end HL.Lex
