import HL.Lemmas.LexCrlfLine
/-!
  Carriage returns and the repaired lexer, part 3: WHOLE FILES.

  `toCrlf t` replaces every line feed of `t` by CR LF.  For every byte string `t` without a
  carriage return, lexing `toCrlf t` gives the tokens of `t` — same types, values, lines and
  columns — with every offset moved by the number of line ends in front of it, which is the
  position's own line number minus one (`lexAll_crlf`).  Composition of the one-line lemma
  `lexS_crx` with line-locality (`lexAll_line_local`).
-/
namespace HL.Lex
open HL HL.Utf8

local notation "LF" => (0x0A : UInt8)
local notation "CR" => (0x0D : UInt8)

/-- every line feed replaced by carriage return + line feed -/
def toCrlf : Bytes → Bytes
  | [] => []
  | c :: t => if c == LF then CR :: LF :: toCrlf t else c :: toCrlf t

/-- the same token in the CR LF text: every offset moved by the number of line ends in front of
    it, i.e. by the position's line number minus one -/
def crShift (t : Token) : Token := crLine 1 t

theorem toCrlf_append (a b : Bytes) : toCrlf (a ++ b) = toCrlf a ++ toCrlf b := by
  induction a with
  | nil => rfl
  | cons c a ih =>
    simp only [List.cons_append, toCrlf, ih]
    split <;> rfl

theorem toCrlf_noLF {a : Bytes} (h : LF ∉ a) : toCrlf a = a := by
  induction a with
  | nil => rfl
  | cons c a ih =>
    have hc : (c == LF) = false := by simpa using fun e : c = LF => h (by simp [e])
    simp only [toCrlf, hc, Bool.false_eq_true, if_false, ih (fun m => h (by simp [m]))]

theorem split_first_lf (t : Bytes) : LF ∉ t ∨ ∃ a b, t = a ++ LF :: b ∧ LF ∉ a := by
  induction t with
  | nil => exact Or.inl (by simp)
  | cons c t ih =>
    by_cases hc : c = LF
    · exact Or.inr ⟨[], t, by simp [hc], by simp⟩
    · rcases ih with h | ⟨a, b, h1, h2⟩
      · refine Or.inl ?_
        intro m; rcases List.mem_cons.mp m with e | e
        · exact hc e.symm
        · exact h e
      · refine Or.inr ⟨c :: a, b, by simp [h1], ?_⟩
        intro m; rcases List.mem_cons.mp m with e | e
        · exact hc e.symm
        · exact h2 e

/-! ### the line of a token's end -/

/-- the line of a token's end = `L` + number of line feeds in front of that end -/
theorem lexS_stop_lines (C : Classes) (L n : Nat) (z : Z) (hn : z.after.length ≤ n)
    (hinv : z.line = L + countLF z.before) :
    ∀ t ∈ lexS C z, t.stop.line = L + countLF (z.input.take t.stop.off) := by
  have one : ∀ z : Z, z.line = L + countLF z.before →
      (next C z).1.stop.line = L + countLF (z.input.take (next C z).1.stop.off) := by
    intro z hinv
    have hs := step_lines L (next_step C z) hinv
    have hres := next_res C z
    rw [next_stop C z]
    show (next C z).2.line = L + countLF (z.input.take (next C z).2.before.length)
    have : z.input.take (next C z).2.before.length = (next C z).2.before.reverse := by
      rw [← hres.adv.input, Z.input]
      have : (next C z).2.before.length = (next C z).2.before.reverse.length := by simp
      rw [this, List.take_left]
    rw [this, countLF_reverse]
    exact hs.2
  induction n generalizing z with
  | zero =>
    have h0 : z.after = [] := List.eq_nil_of_length_eq_zero (by omega)
    rw [lexS_unfold]
    have he : (next C z).1.ty = .eof := by rw [next_nil C h0]; rfl
    simp only [he, if_true, List.mem_singleton]
    intro t ht; subst ht; exact one z hinv
  | succ n ih =>
    have hres := next_res C z
    have hs := step_lines L (next_step C z) hinv
    rw [lexS_unfold]
    split
    · intro t ht
      simp only [List.mem_singleton] at ht
      subst ht; exact one z hinv
    · rename_i hne
      have hlt := next_lt_of_ne_eof C z hne
      have hih := ih (next C z).2 (by omega) hs.2
      intro t ht
      rcases List.mem_cons.mp ht with rfl | ht
      · exact one z hinv
      · rw [← hres.adv.input]
        exact hih t ht

/-- every position of the stream of a whole input has a line number ≥ 1 -/
theorem lexAll_lines_pos (C : Classes) (input : Bytes) :
    ∀ t ∈ lexAll C input, 1 ≤ t.pos.line ∧ 1 ≤ t.stop.line := by
  intro t ht
  rw [lexAll_eq_lexS] at ht
  have h1 := lexS_lines C 1 input.length (Z.init input) (by simp [Z.init]) (by simp [Z.init, countLF]) t ht
  have h2 := lexS_stop_lines C 1 input.length (Z.init input) (by simp [Z.init]) (by simp [Z.init, countLF]) t ht
  omega

/-- without a line feed in the input every position is on line 1 -/
theorem lexAll_one_line (C : Classes) {input : Bytes} (h : LF ∉ input) :
    ∀ t ∈ lexAll C input, t.pos.line = 1 ∧ t.stop.line = 1 := by
  intro t ht
  rw [lexAll_eq_lexS] at ht
  have h1 := lexS_lines C 1 input.length (Z.init input) (by simp [Z.init]) (by simp [Z.init, countLF]) t ht
  have h2 := lexS_stop_lines C 1 input.length (Z.init input) (by simp [Z.init]) (by simp [Z.init, countLF]) t ht
  have e : ∀ k, countLF ((Z.init input).input.take k) = 0 := by
    intro k
    apply countLF_of_not_mem
    intro m
    exact h (by simpa [Z.init, Z.input] using List.mem_of_mem_take m)
  rw [e] at h1 h2
  exact ⟨h1, h2⟩

/-! ### composition -/

theorem crShift_shift (x : Token) (n : Nat) (h1 : 1 ≤ x.pos.line) (h2 : 1 ≤ x.stop.line) :
    shiftTok 1 (n + 2) (crShift x) = crShift (shiftTok 1 (n + 1) x) := by
  cases x with
  | mk ty v p e =>
    cases p; cases e
    simp only at h1 h2
    simp only [crShift, crLine, shiftTok, shiftPos, Token.mk.injEq, Pos.mk.injEq, true_and]
    omega

/-- **CRLF is LF.**  For every byte string `t` without a carriage return and every classifier:
    the token stream of `t` with every LF replaced by CR LF is the token stream of `t` — same
    types, same values, same lines and columns — with every offset moved by the number of line
    ends in front of it (`crShift`: offset + line − 1). -/
theorem lexAll_crlf (C : Classes) (t : Bytes) (h : CR ∉ t) :
    lexAll C (toCrlf t) = (lexAll C t).map crShift := by
  generalize hn : t.length = n
  induction n using Nat.strongRecOn generalizing t with
  | _ n ih =>
    rcases split_first_lf t with hno | ⟨a, b, rfl, ha⟩
    · -- one line without a line end
      rw [toCrlf_noLF hno]
      symm
      have : ∀ x ∈ lexAll C t, crShift x = x := fun x hx =>
        crLine_same 1 x (lexAll_one_line C hno x hx).1 (lexAll_one_line C hno x hx).2
      rw [List.map_congr_left this]; simp
    · have hca : CR ∉ a := fun m => h (by simp [m])
      have hcb : CR ∉ b := fun m => h (by simp [m])
      have hb := ih b.length (by rw [← hn]; simp; omega) b hcb rfl
      have e1 : toCrlf (a ++ LF :: b) = (a ++ [CR]) ++ LF :: toCrlf b := by
        rw [toCrlf_append, toCrlf_noLF ha]; simp [toCrlf]
      have hcl : countLF (a ++ [CR]) = 0 := by
        apply countLF_of_not_mem
        intro m; rcases List.mem_append.mp m with m | m
        · exact ha m
        · simp at m
      have hcl2 : countLF a = 0 := countLF_of_not_mem ha
      -- the first line
      have hol : OL (Z.init (a ++ [LF])) := ⟨a, rfl, ha, hca⟩
      have hline : lexAll C (a ++ [CR] ++ [LF]) = (lexAll C (a ++ [LF])).map crShift := by
        rw [lexAll_eq_lexS, lexAll_eq_lexS]
        have : Z.init (a ++ [CR] ++ [LF]) = (Z.init (a ++ [LF])).crx := by
          simp only [Z.init, Z.crx, crx_append]; simp
        rw [this, lexS_crx C _ hol (Nat.le_refl _)]
        rfl
      rw [e1, lexAll_line_local C (a ++ [CR]) (toCrlf b), lexAll_line_local C a b, hline, hb, hcl, hcl2]
      rw [List.map_append, List.map_dropLast, List.map_map, List.map_map]
      congr 1
      apply List.map_congr_left
      intro x hx
      have hp := lexAll_lines_pos C b x hx
      simp only [Function.comp_apply, List.length_append, List.length_singleton, Nat.zero_add]
      exact crShift_shift x a.length hp.1 hp.2

end HL.Lex
