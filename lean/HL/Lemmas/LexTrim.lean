import HL.Lemmas.Lexer
/-!
  White space behind a text token: `strings.TrimRightFunc(s, unicode.IsSpace)` as transcribed in
  HL/Model/Lexer.lean (`trimRightFunc`: backwards, with `utf8.DecodeLastRuneInString`) cuts off
  a run of white-space runes as `utf8.DecodeRuneInString` reads them from left to right
  (`wsOnly`, the oracle of HL/Spec/LexSpec.lean) — for every byte string, valid UTF-8 or not.
-/
namespace HL.Lex
open HL HL.Utf8 HL.Spec.LexSpec

/-! ### `decodeRune` does not look behind the rune it decodes -/

theorem isSpaceRune_ne_err {r : Nat} (h : isSpaceRune r = true) : r ≠ runeError := by
  intro e; subst e; revert h; decide

/-- A decoded rune other than the error rune was read from exactly its own bytes: what follows
    them does not matter. -/
theorem decodeRune_append_of_ne_err (s x : Bytes) (h : (decodeRune s).1 ≠ runeError) :
    decodeRune (s ++ x) = decodeRune s := by
  cases s with
  | nil => simp [decodeRune] at h
  | cons b0 r0 =>
    cases r0 with
    | nil =>
      by_cases hb : b0 < 0x80
      · simp [decodeRune, hb]
      · exfalso; apply h
        simp only [decodeRune, hb, if_false]
        repeat' split
        all_goals rfl
    | cons b1 r1 =>
      cases r1 with
      | nil =>
        simp only [List.cons_append, List.nil_append, decodeRune] at h ⊢
        repeat' split
        all_goals first | rfl | (exfalso; apply h; simp_all) | simp_all
      | cons b2 r2 =>
        cases r2 with
        | nil =>
          simp only [List.cons_append, List.nil_append, decodeRune] at h ⊢
          repeat' split
          all_goals first | rfl | (exfalso; apply h; simp_all) | simp_all
        | cons b3 r3 =>
          simp only [List.cons_append, decodeRune]


/-- a byte that is not ASCII, alone, is the error rune of width 1 -/
theorem decodeRune_single_high (c : UInt8) (h : ¬ c < 0x80) : decodeRune [c] = (runeError, 1) := by
  simp only [decodeRune, h, if_false]
  repeat' split
  all_goals rfl

/-- a rune of width ≥ 2 was read from exactly its own bytes too (the error rune U+FFFD written
    as `EF BF BD` included) -/
theorem decodeRune_append_of_wide (s x : Bytes) (h : 2 ≤ (decodeRune s).2) :
    decodeRune (s ++ x) = decodeRune s := by
  cases s with
  | nil => simp [decodeRune] at h
  | cons b0 r0 =>
    cases r0 with
    | nil =>
      exfalso
      by_cases hb : b0 < 0x80
      · simp [decodeRune, hb] at h
      · rw [decodeRune_single_high b0 hb] at h; simp at h
    | cons b1 r1 =>
      cases r1 with
      | nil =>
        simp only [List.cons_append, List.nil_append, decodeRune] at h ⊢
        repeat' split
        all_goals first | rfl | (exfalso; simp_all; done) | simp_all
      | cons b2 r2 =>
        cases r2 with
        | nil =>
          simp only [List.cons_append, List.nil_append, decodeRune] at h ⊢
          repeat' split
          all_goals first | rfl | (exfalso; simp_all; done) | simp_all
        | cons b3 r3 =>
          simp only [List.cons_append, decodeRune]

/-- the width of a decoded rune never exceeds the bytes there are -/
theorem decodeRune_width_le (s : Bytes) : (decodeRune s).2 ≤ s.length := by
  cases s with
  | nil => simp [decodeRune]
  | cons b t => exact decodeRune_width_le_length b t

/-! ### `wsOnly`: a run of white-space runes, read from left to right -/

theorem wsOnlyF_fuel (n m : Nat) (s : Bytes) (hn : s.length ≤ n) (hm : s.length ≤ m) :
    wsOnlyF n s = wsOnlyF m s := by
  induction n generalizing m s with
  | zero =>
    have h0 : s = [] := List.eq_nil_of_length_eq_zero (by omega)
    subst h0
    cases m <;> simp [wsOnlyF]
  | succ n ih =>
    cases s with
    | nil => cases m <;> simp [wsOnlyF]
    | cons b t =>
      cases m with
      | zero => simp at hm
      | succ m =>
        have hw := decodeRune_width_pos b t
        simp only [wsOnlyF]
        rw [ih m _ (by simp only [List.length_drop, List.length_cons] at hn ⊢; omega)
          (by simp only [List.length_drop, List.length_cons] at hm ⊢; omega)]

theorem wsOnly_nil : wsOnly [] = true := by simp [wsOnly, wsOnlyF]

theorem wsOnly_cons (b : UInt8) (t : Bytes) :
    wsOnly (b :: t) = (isSpaceRune (decodeRune (b :: t)).1 && wsOnly ((b :: t).drop (decodeRune (b :: t)).2)) := by
  have hw := decodeRune_width_pos b t
  simp only [wsOnly, List.length_cons, wsOnlyF]
  rw [wsOnlyF_fuel t.length ((b :: t).drop (decodeRune (b :: t)).2).length _
    (by simp only [List.length_drop, List.length_cons]; omega) (Nat.le_refl _)]

/-- one white-space rune, written with exactly its bytes -/
theorem wsOnly_single (w : Bytes) (hw : w ≠ []) (h : (decodeRune w).2 = w.length)
    (hs : isSpaceRune (decodeRune w).1 = true) : wsOnly w = true := by
  cases w with
  | nil => exact absurd rfl hw
  | cons b t =>
    rw [wsOnly_cons, hs, h]
    simp [wsOnly_nil]

theorem wsOnly_append_aux (n : Nat) (b : Bytes) (hb : wsOnly b = true) :
    ∀ a : Bytes, a.length ≤ n → wsOnly a = true → wsOnly (a ++ b) = true := by
  induction n with
  | zero =>
    intro a hn _
    have h0 : a = [] := List.eq_nil_of_length_eq_zero (by omega)
    subst h0; simpa using hb
  | succ n ih =>
    intro a hn ha
    cases a with
    | nil => simpa using hb
    | cons c t =>
      rw [wsOnly_cons] at ha
      simp only [Bool.and_eq_true] at ha
      have hext := decodeRune_append_of_ne_err (c :: t) b (isSpaceRune_ne_err ha.1)
      have hw := decodeRune_width_pos c t
      have hle := decodeRune_width_le_length c t
      rw [List.cons_append, wsOnly_cons, ← List.cons_append, hext, ha.1, Bool.true_and,
        List.drop_append_of_le_length hle]
      exact ih _ (by simp only [List.length_drop, List.length_cons] at hn ⊢; omega) ha.2

theorem wsOnly_append (a b : Bytes) (ha : wsOnly a = true) (hb : wsOnly b = true) :
    wsOnly (a ++ b) = true := wsOnly_append_aux a.length b hb a (Nat.le_refl _) ha

theorem wsOnly_blanks (sp : Bytes) (h : ∀ c ∈ sp, isBlank c = true) : wsOnly sp = true := by
  induction sp with
  | nil => exact wsOnly_nil
  | cons c t ih =>
    have hc := h c (by simp)
    have hlt : c < 0x80 := by
      simp only [isBlank, Bool.or_eq_true, beq_iff_eq] at hc
      rcases hc with rfl | rfl <;> decide
    have hd : decodeRune (c :: t) = (c.toNat, 1) := by simp [decodeRune, hlt]
    have hsp : isSpaceRune c.toNat = true := by
      simp only [isBlank, Bool.or_eq_true, beq_iff_eq] at hc
      rcases hc with rfl | rfl <;> decide
    rw [wsOnly_cons, hd]
    simp only [hsp, Bool.true_and, List.drop_succ_cons, List.drop_zero]
    exact ih (fun c hc => h c (List.mem_cons_of_mem _ hc))

/-- the first byte of a white-space run is not a continuation byte -/
theorem wsOnly_head (d : UInt8) (t : Bytes) (h : wsOnly (d :: t) = true) : d < 0x80 ∨ 0xC2 ≤ d := by
  rw [wsOnly_cons] at h
  simp only [Bool.and_eq_true] at h
  have hne := isSpaceRune_ne_err h.1
  by_cases h1 : d < 0x80
  · exact Or.inl h1
  · by_cases h2 : d < 0xC2
    · exfalso; apply hne
      simp [decodeRune, h1, h2]
    · right
      simpa [UInt8.not_lt] using h2

/-- a byte that is not ASCII, followed by nothing or by the start of a white-space run, is read
    as one byte -/
theorem decodeRune_high_before_ws (c : UInt8) (tl : Bytes) (hc : ¬ c < 0x80) (h : wsOnly tl = true) :
    (decodeRune (c :: tl)).2 = 1 := by
  cases tl with
  | nil => rw [decodeRune_single_high c hc]
  | cons d t =>
    have hd := wsOnly_head d t h
    have hnc : isCont d = false := by
      simp only [isCont, Bool.and_eq_false_iff, decide_eq_false_iff_not, UInt8.not_le]
      rcases hd with hd | hd
      · left; exact hd
      · right
        have : (0xBF : UInt8) < 0xC2 := by decide
        exact UInt8.lt_of_lt_of_le this hd
    have hlo : ∀ b0 : UInt8, ¬ (acceptLo b0 ≤ d ∧ d ≤ acceptHi b0) := by
      intro b0 ⟨h1, h2⟩
      have g1 := acceptLo_ge b0
      have g2 : acceptHi b0 ≤ 0xBF := by
        unfold acceptHi; split
        · decide
        · split <;> decide
      have : isCont d = true := by
        simp only [isCont, Bool.and_eq_true, decide_eq_true_eq]
        exact ⟨UInt8.le_trans g1 h1, UInt8.le_trans h2 g2⟩
      rw [hnc] at this; exact absurd this (by simp)
    have hacc : (decide (acceptLo c ≤ d) && decide (d ≤ acceptHi c)) = false := by
      have hl := hlo c
      cases h1 : decide (acceptLo c ≤ d) <;> cases h2 : decide (d ≤ acceptHi c) <;> try rfl
      exact absurd ⟨of_decide_eq_true h1, of_decide_eq_true h2⟩ hl
    cases t with
    | nil =>
      simp only [decodeRune, hc, hnc, hacc, if_false, Bool.false_eq_true]
      repeat' split
      all_goals rfl
    | cons b2 t2 =>
      cases t2 with
      | nil =>
        simp only [decodeRune, hc, hnc, hacc, if_false, Bool.false_eq_true]
        repeat' split
        all_goals rfl
      | cons b3 t3 =>
        simp only [decodeRune, hc, hnc, hacc, if_false, Bool.false_eq_true]
        repeat' split
        all_goals rfl

/-! ### `utf8.DecodeLastRuneInString` agrees with `utf8.DecodeRuneInString` on the bytes it takes -/

theorem lastRune_aux (rs : Bytes) (b : UInt8) (t : Bytes) (hrs : rs = b :: t) (hb : ¬ b < 0x80) (start : Nat) :
    (if (start + (decodeRune ((rs.take 5).reverse.drop start)).2 != min rs.length 5) = true then (runeError, 1)
      else ((decodeRune ((rs.take 5).reverse.drop start)).1, (decodeRune ((rs.take 5).reverse.drop start)).2)).2
        ≤ rs.length ∧
    decodeRune ((rs.take
      (if (start + (decodeRune ((rs.take 5).reverse.drop start)).2 != min rs.length 5) = true then (runeError, 1)
        else ((decodeRune ((rs.take 5).reverse.drop start)).1, (decodeRune ((rs.take 5).reverse.drop start)).2)).2).reverse) =
      (if (start + (decodeRune ((rs.take 5).reverse.drop start)).2 != min rs.length 5) = true then (runeError, 1)
        else ((decodeRune ((rs.take 5).reverse.drop start)).1, (decodeRune ((rs.take 5).reverse.drop start)).2)) := by
  have hn : (rs.take 5).length = min rs.length 5 := by simp [Nat.min_comm]
  split
  · refine ⟨by rw [hrs]; simp, ?_⟩
    rw [hrs]
    simp only [List.take_succ_cons, List.take_zero, List.reverse_cons, List.reverse_nil, List.nil_append]
    exact decodeRune_single_high b hb
  · rename_i hm
    have hm' : start + (decodeRune ((rs.take 5).reverse.drop start)).2 = min rs.length 5 := by
      simpa using hm
    have hle := decodeRune_width_le ((rs.take 5).reverse.drop start)
    simp only [List.length_drop, List.length_reverse, hn] at hle
    have hsz : (decodeRune ((rs.take 5).reverse.drop start)).2 = min rs.length 5 - start := by omega
    refine ⟨by simp only []; omega, ?_⟩
    have e1 : (rs.take 5).reverse.drop start = (rs.take (min rs.length 5 - start)).reverse := by
      rw [List.drop_reverse, hn, List.take_take]
      congr 2
      omega
    simp only []
    generalize hX : (rs.take 5).reverse.drop start = X at *
    rw [hsz, ← e1, ← hsz]

theorem decodeLastRuneRev_fwd (b : UInt8) (t : Bytes) :
    (decodeLastRuneRev (b :: t)).2 ≤ (b :: t).length ∧
      decodeRune (((b :: t).take (decodeLastRuneRev (b :: t)).2).reverse) = decodeLastRuneRev (b :: t) := by
  unfold decodeLastRuneRev
  simp only []
  split
  · rename_i hb
    simp [decodeRune, hb]
  · rename_i hb
    exact lastRune_aux (b :: t) b t rfl hb _

/-! ### `strings.TrimRightFunc(s, unicode.IsSpace)` cuts off a run of white space -/

/-- What `lastIndexFunc(s, unicode.IsSpace, false)` finds, `rs` being the string reversed:
    nothing — the whole string is a run of white space; or the offset `i` of the last rune `w`
    that is not white space, behind which a run of white space follows. -/
theorem lastIndexNotSpaceF_spec (n : Nat) (rs : Bytes) (hn : rs.length ≤ n) :
    (lastIndexNotSpaceF n rs = none → wsOnly rs.reverse = true) ∧
    (∀ i, lastIndexNotSpaceF n rs = some i → ∃ hd w tl, rs.reverse = hd ++ w ++ tl ∧ hd.length = i ∧
        w ≠ [] ∧ (decodeRune w).2 = w.length ∧ isSpaceRune (decodeRune w).1 = false ∧ wsOnly tl = true) := by
  induction n generalizing rs with
  | zero =>
    have h0 : rs = [] := List.eq_nil_of_length_eq_zero (by omega)
    subst h0
    simp [lastIndexNotSpaceF, wsOnly_nil]
  | succ n ih =>
    cases rs with
    | nil => simp [lastIndexNotSpaceF, wsOnly_nil]
    | cons b t =>
      obtain ⟨hle, hfwd⟩ := decodeLastRuneRev_fwd b t
      have hpos := decodeLastRuneRev_width_pos b t
      generalize hsz : (decodeLastRuneRev (b :: t)).2 = size at *
      generalize hr : (decodeLastRuneRev (b :: t)).1 = r at *
      have hdl : decodeLastRuneRev (b :: t) = (r, size) := by rw [← hr, ← hsz]
      have hw : (decodeRune ((b :: t).take size).reverse) = (r, size) := by rw [hfwd, hdl]
      have hwl : ((b :: t).take size).reverse.length = size := by
        rw [List.length_reverse, List.length_take]; omega
      have hwne : ((b :: t).take size).reverse ≠ [] := by
        intro e; rw [e] at hwl; simp at hwl; omega
      have hsplit : (b :: t).reverse = ((b :: t).drop size).reverse ++ ((b :: t).take size).reverse := by
        rw [← List.reverse_append, List.take_append_drop]
      have hrest : ((b :: t).drop size).length ≤ n := by
        simp only [List.length_drop, List.length_cons] at hn ⊢; omega
      simp only [lastIndexNotSpaceF, hdl]
      by_cases hsp : isSpaceRune r = true
      · simp only [hsp, Bool.not_true, Bool.false_eq_true, if_false]
        obtain ⟨ih1, ih2⟩ := ih ((b :: t).drop size) hrest
        have hws : wsOnly ((b :: t).take size).reverse = true :=
          wsOnly_single _ hwne (by rw [hw, hwl]) (by rw [hw]; exact hsp)
        constructor
        · intro hnone
          rw [hsplit]
          exact wsOnly_append _ _ (ih1 hnone) hws
        · intro i hsome
          obtain ⟨hd, w, tl, e1, e2, e3, e4, e5, e6⟩ := ih2 i hsome
          refine ⟨hd, w, tl ++ ((b :: t).take size).reverse, ?_, e2, e3, e4, e5, wsOnly_append _ _ e6 hws⟩
          rw [hsplit, e1]; simp
      · have hsp' : isSpaceRune r = false := by simpa using hsp
        simp only [hsp', Bool.not_false, if_true]
        constructor
        · intro h; simp at h
        · intro i hi
          simp only [Option.some.injEq] at hi
          refine ⟨((b :: t).drop size).reverse, ((b :: t).take size).reverse, [], by rw [hsplit]; simp,
            by rw [List.length_reverse]; exact hi, hwne, by rw [hw, hwl], by rw [hw]; exact hsp', wsOnly_nil⟩

/-- the last step of `TrimRightFunc`: from the offset `i = |hd|` of the last rune `w` that is not
    white space to the end of that rune, whatever white space follows -/
theorem trimRight_take (s hd w tl : Bytes) (e1 : s = hd ++ w ++ tl) (e3 : w ≠ [])
    (e4 : (decodeRune w).2 = w.length) (e6 : wsOnly tl = true) :
    (if s.getD hd.length 0 ≥ 0x80 then s.take (hd.length + (decodeRune (s.drop hd.length)).2)
      else s.take (hd.length + 1)) = hd ++ w := by
  cases w with
  | nil => exact absurd rfl e3
  | cons c w' =>
    have hget : s.getD hd.length 0 = c := by
      rw [e1]
      simp [List.getD]
    have hdrop : s.drop hd.length = (c :: w') ++ tl := by
      rw [e1, List.append_assoc, List.drop_left]
    have hkeep : ∀ k, k = (c :: w').length → s.take (hd.length + k) = hd ++ (c :: w') := by
      intro k hk
      rw [e1, hk, List.append_assoc, List.take_append, List.take_of_length_le (by omega)]
      simp
    simp only [hget]
    by_cases hc : c ≥ 0x80
    · simp only [hc, if_true, hdrop]
      have hnl : ¬ c < 0x80 := by simpa [UInt8.not_lt] using hc
      have hwid : (decodeRune ((c :: w') ++ tl)).2 = (c :: w').length := by
        by_cases h2w : 2 ≤ (c :: w').length
        · rw [decodeRune_append_of_wide _ _ (by rw [e4]; exact h2w), e4]
        · have hw0 : w' = [] := by
            cases w' with
            | nil => rfl
            | cons _ _ => simp at h2w
          subst hw0
          exact decodeRune_high_before_ws c tl hnl e6
      exact hkeep _ hwid
    · simp only [hc, if_false]
      have hlt : c < 0x80 := by simpa [UInt8.not_le] using hc
      have hw0 : w' = [] := by
        have : (decodeRune (c :: w')).2 = 1 := by simp [decodeRune, hlt]
        rw [this] at e4
        cases w' with
        | nil => rfl
        | cons _ _ => simp at e4
      subst hw0
      exact hkeep 1 rfl

/-- **`TrimRightFunc` cuts off white space.**  The string is what `trimRightFunc` keeps followed
    by a run of white-space runes; what it keeps is empty or ends with a rune — read from
    exactly its own bytes — that is not white space. -/
theorem trimRightFunc_spec (s : Bytes) :
    ∃ tl, s = trimRightFunc s ++ tl ∧ wsOnly tl = true ∧
      (trimRightFunc s = [] ∨ ∃ hd w, trimRightFunc s = hd ++ w ∧ w ≠ [] ∧
        (decodeRune w).2 = w.length ∧ isSpaceRune (decodeRune w).1 = false) := by
  obtain ⟨h1, h2⟩ := lastIndexNotSpaceF_spec s.length s.reverse (by simp)
  unfold trimRightFunc
  cases h : lastIndexNotSpaceF s.length s.reverse with
  | none =>
    have := h1 h
    rw [List.reverse_reverse] at this
    exact ⟨s, by simp, this, Or.inl (by simp)⟩
  | some i =>
    obtain ⟨hd, w, tl, e1, e2, e3, e4, e5, e6⟩ := h2 i h
    rw [List.reverse_reverse] at e1
    simp only []
    rw [← e2, trimRight_take s hd w tl e1 e3 e4 e6]
    exact ⟨tl, e1, e6, Or.inr ⟨hd, w, rfl, e3, e4, e5⟩⟩

/-- an ASCII white-space byte at the end is cut off with the rest -/
theorem trimRightFunc_snoc_space (s : Bytes) (d : UInt8) (hd : d < 0x80) (hsp : isSpaceRune d.toNat = true) :
    trimRightFunc (s ++ [d]) = trimRightFunc s := by
  obtain ⟨h1, h2⟩ := lastIndexNotSpaceF_spec s.length s.reverse (by simp)
  have hidx : lastIndexNotSpaceF (s ++ [d]).length (s ++ [d]).reverse = lastIndexNotSpaceF s.length s.reverse := by
    have hrev : (s ++ [d]).reverse = d :: s.reverse := by simp
    have hl : (s ++ [d]).length = s.length + 1 := by simp
    rw [hrev, hl]
    simp only [lastIndexNotSpaceF, decodeLastRuneRev, hd, if_true, hsp, Bool.not_true, Bool.false_eq_true, if_false,
      List.drop_succ_cons, List.drop_zero]
  unfold trimRightFunc
  rw [hidx]
  cases h : lastIndexNotSpaceF s.length s.reverse with
  | none => simp
  | some i =>
    obtain ⟨hdd, w, tl, e1, e2, e3, e4, e5, e6⟩ := h2 i h
    rw [List.reverse_reverse] at e1
    have hwsd : wsOnly [d] = true := by
      rw [wsOnly_cons]
      simp [decodeRune, hd, hsp, wsOnly_nil]
    simp only []
    rw [← e2, trimRight_take s hdd w tl e1 e3 e4 e6,
      trimRight_take (s ++ [d]) hdd w (tl ++ [d]) (by rw [e1]; simp) e3 e4 (wsOnly_append _ _ e6 hwsd)]

/-! ### the blank behind an account name -/

/-- only the byte 0x20 decodes to the rune U+0020 -/
theorem decodeRune_eq_space (b : UInt8) (t : Bytes) (h : (decodeRune (b :: t)).1 = 0x20) : b = 0x20 := by
  rw [← UInt8.toNat_inj]
  by_cases hb : b < 0x80
  · simpa [decodeRune, hb] using h
  · exfalso
    have hlo : ∀ b1 : UInt8, acceptLo b ≤ b1 → (b.toNat = 224 → 160 ≤ b1.toNat) ∧ (b.toNat = 240 → 144 ≤ b1.toNat) := by
      intro b1 h1
      constructor
      · intro e
        have : b = 0xE0 := UInt8.toNat_inj.mp e
        subst this
        simpa [acceptLo, UInt8.le_iff_toNat_le] using h1
      · intro e
        have : b = 0xF0 := UInt8.toNat_inj.mp e
        subst this
        simpa [acceptLo, UInt8.le_iff_toNat_le] using h1
    have g1 : 128 ≤ (acceptLo b).toNat := by
      have := acceptLo_ge b
      simpa [UInt8.le_iff_toNat_le] using this
    have g2 : (acceptHi b).toNat ≤ 191 := by
      unfold acceptHi; split
      · decide
      · split <;> decide
    simp only [decodeRune, hb, if_false] at h
    repeat' split at h
    all_goals simp only [runeError] at h
    all_goals try omega
    all_goals simp_all [isCont, UInt8.le_iff_toNat_le, UInt8.lt_iff_toNat_lt]
    all_goals try omega
    all_goals (
      have h1 := (‹(acceptLo b).toNat ≤ _ ∧ _ ≤ (acceptHi b).toNat›).1
      have := hlo _ h1
      omega)

theorem between_eq_of_before {s e : Z} {pre : Bytes} (h : e.before = pre.reverse ++ s.before) :
    between s e = pre := by
  simp [between, h]

/-- Behind the state `l` at `lastNonSpace` the loop of `scanAccount` has consumed nothing, or
    one blank (which is then followed by a terminator or the end of the input). -/
theorem scanAccountF_tail (n : Nat) (z l : Z) (pre : Bytes) (hpre : z.before = pre.reverse ++ l.before)
    (hinv : pre = [] ∨ (pre = [0x20] ∧ headIs 0x20 z.after = false)) :
    between (scanAccountF n z l).2 (scanAccountF n z l).1 = [] ∨
      between (scanAccountF n z l).2 (scanAccountF n z l).1 = [0x20] := by
  induction n generalizing z l pre with
  | zero =>
    simp only [scanAccountF, between_eq_of_before hpre]
    rcases hinv with h | h
    · exact Or.inl h
    · exact Or.inr h.1
  | succ n ih =>
    have hfin : between l z = [] ∨ between l z = [0x20] := by
      rw [between_eq_of_before hpre]
      rcases hinv with h | h
      · exact Or.inl h
      · exact Or.inr h.1
    unfold scanAccountF
    split
    · exact hfin
    · rename_i b t hz
      simp only []
      split
      · rename_i hsp
        have hb : b = 0x20 := decodeRune_eq_space b t (by simpa using hsp)
        subst hb
        have hd : decodeRune (0x20 :: t) = (0x20, 1) := by simp [decodeRune]
        split
        · exact hfin
        · rename_i h2
          -- a second blank in a row would have stopped the loop: nothing was pending
          have hp0 : pre = [] := by
            rcases hinv with h | h
            · exact h
            · rw [hz] at h; simp [headIs] at h
          subst hp0
          refine ih (z.bump (decodeRune (0x20 :: t)).2) l [0x20] ?_ (Or.inr ⟨rfl, ?_⟩)
          · rw [hd]; simp [Z.bump, hz, hpre]
          · rw [hd]; simpa [Z.bump, hz] using h2
      · split
        · exact hfin
        · exact ih _ _ [] (by simp) (Or.inl rfl)

end HL.Lex
