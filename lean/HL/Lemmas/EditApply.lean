import HL.Spec.EditSpec
import HL.Lemmas.Format
/-!
  The reference applier of HL/Spec/EditSpec.lean on a document that is given as a sequence of
  segments, some kept and some replaced: `applyEdits` rebuilds exactly the text with every
  replaced segment exchanged (`spliceAll_segs`, `sortSplices_sorted`), and byte offsets of LSP
  positions in a document given line by line (`offset_append`, `lineOffset_plain`).
  Used by HL/Lemmas/FormatGCore.lean to evaluate the formatter's edit list on journals of every
  size.
-/
namespace HL.Lemmas.EditApply
open HL HL.FmtText HL.Fmt HL.EditSpec HL.Lemmas.FmtText HL.Lemmas.Format

/-- a piece of the document: kept as it is, or replaced -/
inductive Seg where
  | keep (b : Bytes)
  | repl (old new : Bytes)

def oldText : List Seg → Bytes
  | [] => []
  | .keep b :: r => b ++ oldText r
  | .repl o _ :: r => o ++ oldText r

def newText : List Seg → Bytes
  | [] => []
  | .keep b :: r => b ++ newText r
  | .repl _ n :: r => n ++ newText r

/-- the splices of the replaced segments of a document whose first segment starts at `pos` -/
def toSplices : List Seg → Nat → List Splice
  | [], _ => []
  | .keep b :: r, pos => toSplices r (pos + b.length)
  | .repl o n :: r, pos => ⟨pos, pos + o.length, n⟩ :: toSplices r (pos + o.length)

theorem oldText_append (a b : List Seg) : oldText (a ++ b) = oldText a ++ oldText b := by
  induction a with
  | nil => rfl
  | cons s a ih => cases s <;> simp [oldText, ih]

theorem newText_append (a b : List Seg) : newText (a ++ b) = newText a ++ newText b := by
  induction a with
  | nil => rfl
  | cons s a ih => cases s <;> simp [newText, ih]

theorem toSplices_append (a b : List Seg) (pos : Nat) :
    toSplices (a ++ b) pos = toSplices a pos ++ toSplices b (pos + (oldText a).length) := by
  induction a generalizing pos with
  | nil => simp [toSplices, oldText]
  | cons s a ih =>
    cases s <;> simp [toSplices, oldText, ih, Nat.add_assoc]

/-- **Splicing a segmented document.**  `pre` has been consumed, `lag` is kept text in front of
    the next segment. -/
theorem spliceAll_segs (segs : List Seg) : ∀ (pre lag : Bytes),
    spliceAll (pre ++ lag ++ oldText segs) (toSplices segs (pre.length + lag.length)) pre.length =
      some (lag ++ newText segs) := by
  induction segs with
  | nil =>
    intro pre lag
    simp [toSplices, oldText, newText, spliceAll]
  | cons s segs ih =>
    intro pre lag
    cases s with
    | keep b =>
      have := ih pre (lag ++ b)
      simp only [List.length_append, List.append_assoc] at this
      simp only [toSplices, oldText, newText, List.append_assoc, Nat.add_assoc]
      exact this
    | repl o n =>
      have := ih (pre ++ lag ++ o) []
      rw [show (pre ++ lag ++ o).length + ([] : Bytes).length = pre.length + lag.length + o.length by simp; omega,
        show (pre ++ lag ++ o).length = pre.length + lag.length + o.length by simp; omega] at this
      simp only [List.append_nil, List.nil_append, List.append_assoc] at this
      simp only [toSplices, oldText, newText, spliceAll, List.append_assoc]
      have h1 : ¬ (pre.length + lag.length < pre.length) := by omega
      have h2 : ¬ (pre.length + lag.length + o.length < pre.length + lag.length) := by omega
      simp only [h1, h2, this]
      simp

theorem toSplices_ge (segs : List Seg) : ∀ pos, ∀ s ∈ toSplices segs pos, pos ≤ s.start := by
  induction segs with
  | nil => intro pos s hs; cases hs
  | cons x segs ih =>
    intro pos s hs
    cases x with
    | keep b => have := ih _ s hs; omega
    | repl o n =>
      rcases List.mem_cons.mp hs with rfl | hs
      · exact Nat.le_refl _
      · have := ih _ s hs; omega

theorem toSplices_sorted (segs : List Seg) : ∀ pos,
    (toSplices segs pos).Pairwise (fun a b => a.start ≤ b.start) := by
  induction segs with
  | nil => intro pos; exact List.Pairwise.nil
  | cons x segs ih =>
    intro pos
    cases x with
    | keep b => exact ih _
    | repl o n =>
      refine List.Pairwise.cons ?_ (ih _)
      intro s hs
      have := toSplices_ge segs _ s hs
      show pos ≤ s.start
      omega

theorem insertSplice_last (s : Splice) (acc : List Splice) (h : ∀ t ∈ acc, t.start ≤ s.start) :
    insertSplice s acc = acc ++ [s] := by
  induction acc with
  | nil => rfl
  | cons t acc ih =>
    have ht := h t (by simp)
    have : ¬ (s.start < t.start) := by omega
    simp only [insertSplice, this, if_false, List.cons_append, List.cons.injEq, true_and]
    exact ih (fun u hu => h u (by simp [hu]))

theorem foldl_insert_sorted (l : List Splice) : ∀ acc : List Splice,
    (acc ++ l).Pairwise (fun a b => a.start ≤ b.start) →
      l.foldl (fun acc s => insertSplice s acc) acc = acc ++ l := by
  induction l with
  | nil => intro acc _; simp
  | cons s l ih =>
    intro acc h
    simp only [List.foldl_cons]
    have hs : ∀ t ∈ acc, t.start ≤ s.start := by
      intro t ht
      have := List.pairwise_append.mp h
      exact this.2.2 t ht s (by simp)
    rw [insertSplice_last s acc hs, ih (acc ++ [s]) (by simpa using h)]
    simp

/-- Splices that are already in document order are left in that order. -/
theorem sortSplices_sorted (l : List Splice) (h : l.Pairwise (fun a b => a.start ≤ b.start)) :
    sortSplices l = l := by
  unfold sortSplices
  simpa using foldl_insert_sorted l [] (by simpa using h)

/-- **The applier on a segmented document**: given the edits translate to the splices of the
    replaced segments, the result is the document with every such segment exchanged. -/
theorem applyEdits_segs (segs : List Seg) (edits : List Edit)
    (h : edits.map (toSplice (splitLines (oldText segs))) = toSplices segs 0) :
    applyEdits (oldText segs) edits = some (newText segs) := by
  unfold applyEdits
  simp only [h, sortSplices_sorted _ (toSplices_sorted segs 0)]
  have := spliceAll_segs segs [] []
  simpa using this

/-! ### lines and offsets -/

/-- bytes of complete lines, each with its line feed -/
def bytesOf : List Bytes → Nat
  | [] => 0
  | l :: ls => l.length + 1 + bytesOf ls

theorem bytesOf_append (A B : List Bytes) : bytesOf (A ++ B) = bytesOf A + bytesOf B := by
  induction A with
  | nil => simp [bytesOf]
  | cons l A ih => simp only [List.cons_append, bytesOf, ih]; omega

theorem offset_head (l : Bytes) (B : List Bytes) (ch : Nat) : offset (l :: B) 0 ch = lineOffset l ch := by
  cases B <;> rfl

theorem offset_append (A B : List Bytes) (hB : B ≠ []) (n ch : Nat) :
    offset (A ++ B) (A.length + n) ch = bytesOf A + offset B n ch := by
  induction A with
  | nil => simp [bytesOf]
  | cons l A ih =>
    obtain ⟨l', ls, hl⟩ : ∃ l' ls, A ++ B = l' :: ls := by
      cases h : A ++ B with
      | nil => simp at h; exact absurd h.2 hB
      | cons l' ls => exact ⟨l', ls, rfl⟩
    have e : (l :: A).length + n = (A.length + n) + 1 := by simp; omega
    rw [List.cons_append, hl, e]
    simp only [offset]
    rw [← hl, ih, bytesOf]
    omega

theorem getD_append_head (A : List Bytes) (l : Bytes) (B : List Bytes) :
    (A ++ l :: B).getD A.length [] = l := by
  simp [List.getD_eq_getElem?_getD]

/-- an ASCII line that does not end in CR -/
def Plain (l : Bytes) : Prop := IsAscii l ∧ l.getLast? ≠ some 13

theorem runes_ascii (l : Bytes) (h : IsAscii l) : runes l = l.map fun c => (c.toNat, 1) := by
  unfold runes
  induction l with
  | nil => rfl
  | cons x l ih =>
    have hx : x < 0x80 := h x (by simp)
    simp only [runesAux, decodeRune_ascii x l hx, Nat.sub_self, List.map_cons, List.cons.injEq, true_and]
    exact ih (fun y hy => h y (by simp [hy]))

theorem u16w_ascii (c : UInt8) : u16w c.toNat = 1 := by
  have := UInt8.toNat_lt c
  unfold u16w
  have : ¬ (c.toNat ≥ 0x10000) := by omega
  simp [this]

theorem takeU16_zero (rs : List (Nat × Nat)) : takeU16 rs 0 = 0 := by
  cases rs with
  | nil => rfl
  | cons r rs =>
    obtain ⟨r, sz⟩ := r
    have : ¬ (u16w r ≤ 0) := by unfold u16w; split <;> omega
    simp [takeU16, this]

theorem takeU16_ascii_all (l : Bytes) : takeU16 (l.map fun c => (c.toNat, 1)) l.length = l.length := by
  induction l with
  | nil => rfl
  | cons x l ih =>
    simp only [List.map_cons, takeU16, u16w_ascii, List.length_cons]
    have : 1 ≤ l.length + 1 := by omega
    simp only [this, if_true, Nat.add_sub_cancel, ih]
    omega

theorem u16len_ascii (l : Bytes) (h : IsAscii l) : u16len l = l.length := by
  rw [u16len_eq, runes_ascii l h]
  induction l with
  | nil => rfl
  | cons x l ih =>
    simp only [List.map_cons, u16sum, u16w_ascii, List.length_cons]
    rw [ih (fun y hy => h y (by simp [hy]))]
    omega

theorem content_plain (l : Bytes) (h : Plain l) : content l = l := by
  unfold content; simp [h.2]

theorem lineOffset_plain_zero (l : Bytes) : lineOffset l 0 = 0 := by
  unfold lineOffset; exact takeU16_zero _

theorem lineOffset_plain_all (l : Bytes) (h : Plain l) : lineOffset l l.length = l.length := by
  unfold lineOffset
  rw [content_plain l h, runes_ascii l h.1]
  exact takeU16_ascii_all l

/-! ### `splitLines` of a text given line by line -/

theorem splitLines_line (l rest : Bytes) (h : ∀ c ∈ l, c ≠ 10) :
    splitLines (l ++ 10 :: rest) = l :: splitLines rest := by
  induction l with
  | nil => simp [splitLines]
  | cons x l ih =>
    have hx : x ≠ 10 := h x (by simp)
    simp only [List.cons_append, splitLines, hx, if_false]
    rw [ih (fun c hc => h c (by simp [hc]))]

theorem trimRight_nonblank (w : Bytes) (h : ∀ c ∈ w, isBlank c = false) : trimRight w = w := by
  induction w with
  | nil => rfl
  | cons x w ih =>
    have hw := ih (fun c hc => h c (by simp [hc]))
    simp only [trimRight, hw, h x (by simp), Bool.and_false, Bool.false_eq_true, if_false]

theorem trimRight_append (a b : Bytes) (hb : b ≠ []) (h : trimRight b = b) : trimRight (a ++ b) = a ++ b := by
  induction a with
  | nil => simpa using h
  | cons x a ih =>
    have : (a ++ b).isEmpty = false := by cases a <;> cases b <;> simp_all
    simp only [List.cons_append, trimRight, ih, this, Bool.false_and, Bool.false_eq_true, if_false]

/-- the trimming loop returns nothing on lines without trailing blanks -/
theorem trimLoop_nil (all : List Bytes) (ex : List Int) (ls : List Bytes) (h : ∀ l ∈ ls, trimRight l = l) :
    ∀ n, trimLoop all ex ls n = [] := by
  induction ls with
  | nil => intro n; rfl
  | cons l ls ih =>
    intro n
    have hl := h l (by simp)
    simp only [trimLoop, trimEdit, hl, beq_self_eq_true, if_true, ih (fun x hx => h x (by simp [hx]))]
    split <;> rfl

end HL.Lemmas.EditApply
