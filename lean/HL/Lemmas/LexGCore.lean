import HL.Lemmas.LexExtentLook
import HL.Lemmas.LexLocal
import HL.Spec.GCore
/-!
  The token stream of a printed `GCore` journal, line by line (composition of the extent lemmas
  of layer L3).  `Tx.toks`, `Posting.toks`, `toksFrom` spell the tokens out with their exact
  positions; the theorems say the lexer model produces exactly them:

    lex_header_line    `date ' ' descr LF`            (any well-formed date and description)
    lex_posting_line   `'    ' acct [ '  ' amount ] LF`   (any well-formed posting)
    lex_blank_line     `LF`
    lex_postings, lex_tx   all postings / a whole transaction, any number of postings

  Every lemma holds from every line-start state (`LS`: any line number, any consumed input) and
  with anything at all behind the final line feed.
-/
namespace HL.GCore
open HL HL.Lex

local notation "LF" => (0x0A : UInt8)

/-! ### the tokens, spelled out -/

/-- a token whose value is its lexeme `v`, on line `ln` (which starts at offset `o`), behind
    `pre` bytes of that line -/
def tokP (ty : TokType) (v : Bytes) (ln o pre : Nat) : Token :=
  ⟨ty, v, ⟨ln, 1 + pre, o + pre⟩, ⟨ln, 1 + pre + v.length, o + pre + v.length⟩⟩

/-- the Newline token behind `pre` bytes of line `ln` -/
def nlP (ln o pre : Nat) : Token := ⟨.newline, [LF], ⟨ln, 1 + pre, o + pre⟩, ⟨ln + 1, 1, o + pre + 1⟩⟩

def eofP (ln o : Nat) : Token := ⟨.eof, [], ⟨ln, 1, o⟩, ⟨ln, 1, o⟩⟩

def Amount.toks (a : Amount) (ln o pre : Nat) : List Token :=
  (if a.neg then [tokP .sign [0x2D] ln o pre] else []) ++
  tokP .number a.numText ln o (pre + a.signText.length) ::
  (match a.com with
   | none => []
   | some w => [tokP .commodity w ln o (pre + a.signText.length + a.numText.length + 1)])

def Posting.toks (p : Posting) (ln o : Nat) : List Token :=
  tokP .indent [0x20, 0x20, 0x20, 0x20] ln o 0 :: tokP .account p.acct ln o 4 ::
  ((match p.amount with | none => [] | some a => a.toks ln o (4 + p.acct.length + 2)) ++
   [nlP ln o p.print.length])

def postingsToks : List Posting → Nat → Nat → List Token
  | [], _, _ => []
  | p :: ps, ln, o => p.toks ln o ++ postingsToks ps (ln + 1) (o + p.print.length + 1)

def Tx.headerToks (t : Tx) (ln o : Nat) : List Token :=
  [tokP .date t.date.print ln o 0, tokP .text t.descr ln o (t.date.print.length + 1), nlP ln o t.header.length]

def Tx.toks (t : Tx) (ln o : Nat) : List Token :=
  t.headerToks ln o ++ postingsToks t.postings (ln + 1) (o + t.header.length + 1)

/-- the whole stream of `print j` lexed from line `ln`, offset `o` -/
def toksFrom : List Tx → Nat → Nat → List Token
  | [], ln, o => [eofP ln o]
  | [t], ln, o => t.toks ln o ++ [eofP (ln + 1 + t.postings.length) (o + t.print.length)]
  | t :: t2 :: ts, ln, o =>
    t.toks ln o ++ nlP (ln + 1 + t.postings.length) (o + t.print.length) 0 ::
      toksFrom (t2 :: ts) (ln + t.postings.length + 2) (o + t.print.length + 1)

/-! ### states at line starts -/

/-- at the start of a line -/
def LS (z : Z) : Prop := z.atStart = true ∧ z.col = 1

/-- the state after `text` (= `k` complete lines) has been consumed -/
def jump (z : Z) (text rest : Bytes) (k : Nat) : Z := ⟨text.reverse ++ z.before, rest, z.line + k, 1, true⟩

@[simp] theorem jump_after (z : Z) (text rest : Bytes) (k : Nat) : (jump z text rest k).after = rest := rfl
@[simp] theorem jump_line (z : Z) (text rest : Bytes) (k : Nat) : (jump z text rest k).line = z.line + k := rfl
@[simp] theorem jump_off (z : Z) (text rest : Bytes) (k : Nat) :
    (jump z text rest k).before.length = z.before.length + text.length := by simp [jump, Nat.add_comm]
theorem jump_ls (z : Z) (text rest : Bytes) (k : Nat) : LS (jump z text rest k) := ⟨rfl, rfl⟩
theorem jump_jump (z : Z) (t1 r1 t2 r2 : Bytes) (k1 k2 : Nat) :
    jump (jump z t1 r1 k1) t2 r2 k2 = jump z (t1 ++ t2) r2 (k1 + k2) := by
  simp [jump, Nat.add_assoc]
theorem jump_zero (z : Z) (h : LS z) : jump z [] z.after 0 = z := by
  cases z; simp_all [jump, LS]

/-! ### one step of the stream -/

theorem lexS_step (C : Classes) {z z' : Z} {t : Token} (h : next C z = (t, z')) (hne : t.ty ≠ .eof) :
    lexS C z = t :: lexS C z' := by
  rw [lexS_unfold, h]; simp [hne]

theorem lexS_eof (C : Classes) {z : Z} (hz : z.after = []) (hc : z.col = 1) :
    lexS C z = [eofP z.line z.before.length] := by
  rw [lexS_unfold, next_nil C hz]
  simp [mkTok, eofP, Z.position, hc]

/-- a token behind `p` bytes of the line that starts at `z` -/
theorem tokAt_cur (ty : TokType) (v : Bytes) {z : Z} (hc : z.col = 1) (p rest : Bytes) :
    tokAt ty v (z.started.over p rest) v.length = tokP ty v z.line z.before.length p.length := by
  simp [tokAt, tokP, Z.position, hc, Nat.add_comm]

/-- **One token inside a line**: blanks `sp`, then a lexeme `v` for which the extent lemma of its
    class holds. -/
theorem next_cur (C : Classes) {z : Z} (hc : z.col = 1) {p sp v rest : Bytes} {ty : TokType}
    (hsp : ∀ c ∈ sp, c = 0x20) (hstop : Stops isBlank (v ++ rest))
    (hscan : ∀ Z : Z, Z.after = v ++ rest → scanInLineAt C Z = (tokAt ty v Z v.length, Z.over v rest)) :
    next C (z.started.over p (sp ++ (v ++ rest))) =
      (tokP ty v z.line z.before.length (p.length + sp.length), z.started.over (p ++ sp ++ v) rest) := by
  rw [next_skip C (z := z.started.over p (sp ++ (v ++ rest))) rfl rfl hsp hstop, over_over,
    hscan _ rfl, over_over, tokAt_cur ty v hc]
  simp

/-- the line feed that ends the line `body` -/
theorem next_cur_lf (C : Classes) {z : Z} (hc : z.col = 1) (body rest : Bytes) :
    next C (z.started.over body (LF :: rest)) =
      (nlP z.line z.before.length body.length, jump z (body ++ [LF]) rest 1) := by
  rw [next_skip C (z := z.started.over body (LF :: rest)) (sp := []) rfl rfl (by simp)
    (Stops.cons _ (by decide)), over_over, scanInLineAt_newline C rfl]
  simp [nlTok, nlP, Z.nl, jump, Z.position, hc, Nat.add_comm]

/-- **An empty line.** -/
theorem lex_blank_line (C : Classes) {z : Z} (hz : LS z) {rest : Bytes} (ha : z.after = LF :: rest) :
    lexS C z = nlP z.line z.before.length 0 :: lexS C (jump z [LF] rest 1) := by
  rw [lexS_step C (next_blank_line C ha) (by simp [nlTok])]
  simp [nlTok, nlP, Z.nl, jump, Z.position, hz.2]

/-! ### byte classes of the grammar -/

theorem word_spec {p : UInt8 → Bool} {w : Bytes} (h : word p w = true) : w ≠ [] ∧ ∀ c ∈ w, p c = true := by
  simp only [word, Bool.and_eq_true, Bool.not_eq_true', List.isEmpty_eq_false_iff, List.all_eq_true] at h
  exact h

theorem mem_joinWith {sep : UInt8} {ws : List Bytes} {c : UInt8} (h : c ∈ joinWith sep ws) :
    c = sep ∨ ∃ w ∈ ws, c ∈ w := by
  induction ws with
  | nil => simp [joinWith] at h
  | cons w ws ih =>
    cases ws with
    | nil => exact Or.inr ⟨w, by simp, by simpa [joinWith] using h⟩
    | cons w2 ws =>
      simp only [joinWith, List.mem_append, List.mem_cons] at h
      rcases h with h | h | h
      · exact Or.inr ⟨w, by simp, h⟩
      · exact Or.inl h
      · rcases ih h with h | ⟨x, hx, hc⟩
        · exact Or.inl h
        · exact Or.inr ⟨x, by simp [hx], hc⟩

/-- the joined words end with a byte of one of the words -/
theorem joinWith_last (sep : UInt8) (ws : List Bytes) (hne : ws ≠ []) (hw : ∀ w ∈ ws, w ≠ []) :
    ∃ m d w, w ∈ ws ∧ d ∈ w ∧ joinWith sep ws = m ++ [d] := by
  induction ws with
  | nil => exact absurd rfl hne
  | cons w ws ih =>
    cases ws with
    | nil =>
      rcases List.eq_nil_or_concat w with h | ⟨m, d, h⟩
      · exact absurd h (hw w (by simp))
      · exact ⟨m, d, w, by simp, by simp [h], by simpa [joinWith] using h⟩
    | cons w2 ws =>
      obtain ⟨m, d, x, hx, hd, he⟩ := ih (by simp) (fun y hy => hw y (by simp [hy]))
      exact ⟨w ++ sep :: m, d, x, by simp [hx], hd, by simp [joinWith, he]⟩

/-- the joined words start with the first word -/
theorem joinWith_first (sep : UInt8) (w : Bytes) (ws : List Bytes) :
    ∃ r, joinWith sep (w :: ws) = w ++ r ∧ (r = [] ∨ ∃ r', r = sep :: r') := by
  cases ws with
  | nil => exact ⟨[], by simp [joinWith], Or.inl rfl⟩
  | cons w2 ws => exact ⟨sep :: joinWith sep (w2 :: ws), rfl, Or.inr ⟨_, rfl⟩⟩

theorem classesOk_lower {C : Classes} (hC : ClassesOk C = true) {c : UInt8} (h : isLower c = true) :
    C.isUpper c.toNat = false ∧ C.isDigit c.toNat = false := by
  simp only [isLower, Bool.and_eq_true, decide_eq_true_eq, UInt8.le_iff_toNat_le] at h
  have h1 : (0x61 : UInt8).toNat = 97 := rfl
  have h2 : (0x7A : UInt8).toNat = 122 := rfl
  rw [h1] at h; rw [h2] at h
  have := List.all_eq_true.mp hC (c.toNat - 97) (List.mem_range.mpr (by omega))
  have e : 97 + (c.toNat - 97) = c.toNat := by omega
  simp only [e, Bool.and_eq_true, Bool.not_eq_true'] at this
  exact ⟨this.1.2, this.2⟩

theorem classesOk_upper {C : Classes} (hC : ClassesOk C = true) {c : UInt8} (h : isUpper c = true) :
    C.isUpper c.toNat = true := by
  simp only [isUpper, Bool.and_eq_true, decide_eq_true_eq, UInt8.le_iff_toNat_le] at h
  have h1 : (0x41 : UInt8).toNat = 65 := rfl
  have h2 : (0x5A : UInt8).toNat = 90 := rfl
  rw [h1] at h; rw [h2] at h
  have := List.all_eq_true.mp hC (c.toNat - 65) (List.mem_range.mpr (by omega))
  have e : 65 + (c.toNat - 65) = c.toNat := by omega
  simp only [e, Bool.and_eq_true, Bool.not_eq_true'] at this
  exact this.1.1

/-- per-byte facts about lower-case letters (evaluated over all 256 bytes) -/
theorem lower_bytes : ∀ c : UInt8, (!isLower c ||
    (isLetter c && decide (c < 0x80) && c != 0x3A && c != 0x20 && textByte c && acctByte c && !isBlank c &&
     !asciiSpace c)) = true :=
  forall_uint8 _ (by decide +kernel)

theorem upper_bytes : ∀ c : UInt8, (!isUpper c ||
    (isLetter c && decide (c < 0x80) && c != 0x3A && !isDigit c && !isBlank c)) = true :=
  forall_uint8 _ (by decide +kernel)

theorem digit_bytes : ∀ c : UInt8, (!isDigit c || (dateByte c && numByte c && !isBlank c && !alnum 0x20)) = true :=
  forall_uint8 _ (by decide +kernel)

theorem isDigitB_eq (c : UInt8) : isDigitB c = isDigit c := rfl
theorem isLowerB_eq (c : UInt8) : isLowerB c = isLower c := rfl
theorem isUpperB_eq (c : UInt8) : isUpperB c = isUpper c := rfl

theorem Date.wf_spec {d : Date} (h : d.wf = true) :
    (∃ c t, d.print = c :: t ∧ isDigit c = true) ∧ (∀ c ∈ d.print, dateByte c = true) ∧
    d.y.length = 4 ∧ d.m.length = 2 ∧ d.d.length = 2 ∧
    (∀ c ∈ d.y, isDigit c = true) ∧ (∀ c ∈ d.m, isDigit c = true) ∧ (∀ c ∈ d.d, isDigit c = true) := by
  simp only [Date.wf, Bool.and_eq_true, beq_iff_eq, List.all_eq_true, isDigitB_eq] at h
  obtain ⟨⟨⟨⟨⟨hy, hyd⟩, hm⟩, hmd⟩, hd⟩, hdd⟩ := h
  have db : ∀ c, isDigit c = true → dateByte c = true := by
    intro c hc; have := digit_bytes c; simp only [hc, Bool.not_true, Bool.false_or, Bool.and_eq_true] at this
    exact this.1.1.1
  refine ⟨?_, ?_, hy, hm, hd, hyd, hmd, hdd⟩
  · cases hyy : d.y with
    | nil => simp [hyy] at hy
    | cons c t => exact ⟨c, t ++ 0x2D :: (d.m ++ 0x2D :: d.d), by simp [Date.print, hyy], hyd c (by simp [hyy])⟩
  · intro c hc
    simp only [Date.print, List.mem_append, List.mem_cons] at hc
    rcases hc with (hc | hc | hc) | hc | hc
    · exact db c (hyd c hc)
    · rw [hc]; decide
    · exact db c (hmd c hc)
    · rw [hc]; decide
    · exact db c (hdd c hc)

/-- facts about a description: `descr = w ++ r` with `w` its first word -/
theorem descr_spec {ws : List Bytes} (hne : ws ≠ []) (hws : ∀ w ∈ ws, word isLowerB w = true) :
    ∃ w r, joinWith 0x20 ws = w ++ r ∧ w ≠ [] ∧ (∀ c ∈ w, isLower c = true) ∧
      (∀ c ∈ r, textByte c = true ∧ c < 0x80) ∧ (r = [] ∨ ∃ r', r = 0x20 :: r') ∧
      (∀ c ∈ joinWith 0x20 ws, c < 0x80 ∧ c ≠ 0x3A) ∧ trimSpace (joinWith 0x20 ws) = joinWith 0x20 ws ∧
      trimRightFunc (joinWith 0x20 ws) = joinWith 0x20 ws := by
  obtain ⟨w, ws', rfl⟩ := List.exists_cons_of_ne_nil hne
  obtain ⟨r, hr, hr'⟩ := joinWith_first 0x20 w ws'
  have hlow : ∀ x ∈ w :: ws', ∀ c ∈ x, isLower c = true := fun x hx c hc => by
    have := (word_spec (hws x hx)).2 c hc; rwa [isLowerB_eq] at this
  have hne' : ∀ x ∈ w :: ws', x ≠ [] := fun x hx => (word_spec (hws x hx)).1
  have lf := fun c (h : isLower c = true) => by
    have := lower_bytes c
    simp only [h, Bool.not_true, Bool.false_or, Bool.and_eq_true, decide_eq_true_eq, bne_iff_ne, ne_eq,
      Bool.not_eq_true'] at this
    exact this
  have hall : ∀ c ∈ joinWith 0x20 (w :: ws'), c = 0x20 ∨ isLower c = true := by
    intro c hc
    rcases mem_joinWith hc with h | ⟨x, hx, hcx⟩
    · exact Or.inl h
    · exact Or.inr (hlow x hx c hcx)
  refine ⟨w, r, hr, hne' w (by simp), hlow w (by simp), ?_, hr', ?_, ?_, ?_⟩
  · intro c hc
    rcases hall c (by rw [hr]; simp [hc]) with h | h
    · rw [h]; exact ⟨by decide, by decide⟩
    · exact ⟨(lf c h).1.1.1.2, (lf c h).1.1.1.1.1.1.2⟩
  · intro c hc
    rcases hall c hc with h | h
    · rw [h]; exact ⟨by decide, by decide⟩
    · exact ⟨(lf c h).1.1.1.1.1.1.2, (lf c h).1.1.1.1.1.2⟩
  · obtain ⟨m, d, x, hx, hd, he⟩ := joinWith_last 0x20 (w :: ws') (by simp) hne'
    have hdl := lf d (hlow x hx d hd)
    obtain ⟨c, t, hw⟩ := List.exists_cons_of_ne_nil (hne' w (by simp))
    have hcl := lf c (hlow w (by simp) c (by simp [hw]))
    cases m with
    | nil =>
      rw [he]
      exact trimSpace_single d hdl.1.1.1.1.1.1.2 hdl.2
    | cons c' m' =>
      have hc' : c' = c := by
        have := he ▸ hr
        simp [hw] at this
        exact this.1
      rw [he, hc']
      exact trimSpace_id c m' d hcl.1.1.1.1.1.1.2 hcl.2 hdl.1.1.1.1.1.1.2 hdl.2
  · obtain ⟨m, d, x, hx, hd, he⟩ := joinWith_last 0x20 (w :: ws') (by simp) hne'
    have hdl := lf d (hlow x hx d hd)
    rw [he]
    exact trimRightFunc_id m d hdl.1.1.1.1.1.1.2 hdl.2

/-- **A header line**: `date ' ' descr LF` lexes to Date, Text, Newline — exactly, whatever
    follows the line feed. -/
theorem lex_header_line (C : Classes) (hC : ClassesOk C = true) {z : Z} (hz : LS z) (t : Tx)
    (hd : t.date.wf = true) (hne : t.words ≠ []) (hws : ∀ w ∈ t.words, word isLowerB w = true)
    {rest : Bytes} (ha : z.after = t.header ++ LF :: rest) :
    lexS C z = t.headerToks z.line z.before.length ++ lexS C (jump z (t.header ++ [LF]) rest 1) := by
  obtain ⟨h0, hdb, _⟩ := Date.wf_spec hd
  obtain ⟨w, r, hwr, hwne, hwl, hrt, hr', hnc, htrim, htrimR⟩ := descr_spec hne hws
  have hdescr : t.descr = w ++ r := hwr
  have ha1 : z.after = t.date.print ++ (0x20 :: (t.descr ++ LF :: rest)) := by
    rw [ha]; simp [Tx.header]
  -- the date
  have h1 := next_date C hz.1 hz.2 ha1 h0 hdb (Stops.cons _ (by decide))
  have e1 : tokAt .date t.date.print z t.date.print.length = tokP .date t.date.print z.line z.before.length 0 := by
    simp [tokAt, tokP, Z.position, hz.2, Nat.add_comm]
  rw [lexS_step C h1 (by simp [tokAt]), e1]
  -- the description
  have hstopB : Stops isBlank (t.descr ++ LF :: rest) := by
    obtain ⟨c, t', hw⟩ := List.exists_cons_of_ne_nil hwne
    rw [hdescr, hw]
    refine Stops.cons _ ?_
    have := lower_bytes c
    simp only [hwl c (by simp [hw]), Bool.not_true, Bool.false_or, Bool.and_eq_true, Bool.not_eq_true'] at this
    exact this.1.2
  have hrs : Stops alnum (r ++ LF :: rest) := by
    rcases hr' with h | ⟨r', h⟩
    · rw [h]; exact Stops.cons _ (by decide)
    · rw [h]; exact Stops.cons _ (by decide)
  have h2 := next_cur C hz.2 (p := t.date.print) (sp := [0x20]) (v := t.descr) (rest := LF :: rest) (ty := .text)
    (by simp) hstopB (by
      intro Z hZ
      have hZ' : Z.after = w ++ r ++ LF :: rest := by rw [hZ, hdescr]
      have := scanInLineAt_text C hZ' hwne hwl (fun c hc => classesOk_lower hC (hwl c hc)) hrt hrs
        (StopsL.lf _ _)
        (by rw [hZ]; exact looksLikeAccount_noColon _ _ hnc (Or.inr ⟨_, rfl⟩))
        (by rw [← hdescr]; exact htrim) (by rw [← hdescr]; exact htrimR)
      rw [← hdescr] at this
      exact this)
  simp only [List.singleton_append] at h2
  rw [lexS_step C h2 (by simp [tokP])]
  -- the line feed
  have e3 : t.date.print ++ [0x20] ++ t.descr = t.header := by simp [Tx.header]
  rw [e3, lexS_step C (next_cur_lf C hz.2 t.header rest) (by simp [nlP])]
  simp [Tx.headerToks]

end HL.GCore
