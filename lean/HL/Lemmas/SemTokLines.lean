/-
  Helper lemmas for C17, lines: the line of the text on which an offset lies (`splitOn_line`),
  the cursor's column never exceeds the UTF-16 length of that line as the client counts it
  (`colAt_le_lineLen`), a trimmed string does not end with a CR (`trimSpace_last_ne_cr`), and
  from the lexer's contract every piece of text that becomes a token ends inside its line unless
  it is a comment that swallows the CR of a CRLF line end (`inlineB_of_contract`).
-/
import HL.Lemmas.SemTokPlace
namespace HL.Lemmas.SemTok
open HL HL.SemTok HL.SemTokSpec

/-! ### lines of the text and the cursor -/

theorem lastPiece_append_noLf (x z : Bytes) (hz : lfB ∉ z) : lastPiece (x ++ z) = lastPiece x ++ z := by
  induction x with
  | nil =>
    have := lastPiece_noLf z hz
    simp only [List.nil_append, this]
    simp [lastPiece, splitOn]
  | cons b xs ih =>
    by_cases hb : b = lfB
    · subst hb
      have h1 := lastPiece_after_lf [] (xs ++ z)
      have h2 := lastPiece_after_lf [] xs
      simp only [List.nil_append] at h1 h2
      rw [List.cons_append, h1, h2, ih]
    · by_cases hm : lfB ∈ xs
      · have h1 : lastPiece (b :: (xs ++ z)) = lastPiece (xs ++ z) :=
          lastPiece_append_of_lf [b] (xs ++ z) (List.mem_append_left _ hm)
        have h2 : lastPiece (b :: xs) = lastPiece xs := lastPiece_append_of_lf [b] xs hm
        rw [List.cons_append, h1, h2, ih]
      · have hn : lfB ∉ b :: xs := by
          intro h; rcases List.mem_cons.mp h with e | e
          · exact hb e.symm
          · exact hm e
        have hn2 : lfB ∉ (b :: xs) ++ z := by
          intro h; rcases List.mem_append.mp h with e | e
          · exact hn e
          · exact hz e
        rw [lastPiece_noLf _ hn2, lastPiece_noLf _ hn]

/-- The first piece of a split: the bytes before the first line feed. -/
theorem splitOn_head (y : Bytes) : (splitOn lfB y)[0]? = some (y.takeWhile (· != lfB)) := by
  induction y with
  | nil => simp [splitOn]
  | cons b t ih =>
    simp only [splitOn]
    split
    · rename_i hb; simp [hb]
    · rename_i hb
      have hb' : (b != lfB) = true := by simpa using hb
      split
      · rename_i p ps hp
        rw [hp] at ih
        simp only [List.getElem?_cons_zero, Option.some.injEq] at ih
        simp [hb', ih]
      · rename_i hp; exact absurd hp (splitOn_ne_nil _ _)

theorem splitOn_length_pos (s : Bytes) : 1 ≤ (splitOn lfB s).length := by
  have := splitOn_ne_nil lfB s
  cases h : splitOn lfB s with
  | nil => exact absurd h this
  | cons _ _ => simp

/-- The line of `x ++ y` on which `x` ends: what follows the last line feed of `x`, continued
    up to the first line feed of `y`. -/
theorem splitOn_line (x y : Bytes) :
    (splitOn lfB (x ++ y))[(splitOn lfB x).length - 1]? = some (lastPiece x ++ y.takeWhile (· != lfB)) := by
  induction x with
  | nil => simpa [splitOn, lastPiece] using splitOn_head y
  | cons b xs ih =>
    have hpos := splitOn_length_pos xs
    by_cases hb : b = lfB
    · subst hb
      have h2 := lastPiece_after_lf [] xs
      simp only [List.nil_append] at h2
      simp only [List.cons_append, splitOn, if_true, List.length_cons, h2]
      rw [show (splitOn lfB xs).length + 1 - 1 = ((splitOn lfB xs).length - 1) + 1 by omega,
        List.getElem?_cons_succ]
      exact ih
    · simp only [List.cons_append, splitOn, hb, if_false]
      cases hs : splitOn lfB xs with
      | nil => exact absurd hs (splitOn_ne_nil _ _)
      | cons p' ps' =>
        cases hs2 : splitOn lfB (xs ++ y) with
        | nil => exact absurd hs2 (splitOn_ne_nil _ _)
        | cons p ps =>
          rw [hs, hs2] at ih
          simp only [List.length_cons]
          cases ps' with
          | nil =>
            have hl : lastPiece (b :: xs) = b :: lastPiece xs := by
              simp [lastPiece, splitOn, hb, hs]
            simp only [List.length_cons, List.length_nil, Nat.zero_add, Nat.sub_self, List.getElem?_cons_zero,
              Option.some.injEq] at ih ⊢
            rw [hl, List.cons_append, ih]
          | cons q qs =>
            simp only [List.length_cons, Nat.add_sub_cancel] at ih ⊢
            rw [List.getElem?_cons_succ] at ih ⊢
            have hl : lastPiece (b :: xs) = lastPiece xs := by
              simp [lastPiece, splitOn, hb, hs, List.getLast?_cons_cons]
            rw [hl]; exact ih

/-- The byte before offset `E` exists and is neither a CR nor a line feed. -/
def EndsOk (text : Bytes) (E : Nat) : Prop :=
  ∃ x, 1 ≤ E ∧ text[E - 1]? = some x ∧ x ≠ cr ∧ x ≠ lfB

theorem stripCR_append (P F : Bytes) (hF : F ≠ []) :
    stripCR (P ++ F) = P ++ (if F.getLast? = some cr then F.dropLast else F) := by
  have hg : (P ++ F).getLast? = F.getLast? := by
    rw [List.getLast?_append]
    cases hf : F.getLast? with
    | none => exact absurd (List.getLast?_eq_none_iff.mp hf) hF
    | some y => rfl
  unfold stripCR
  rw [hg]
  split
  · rw [List.dropLast_append_of_ne_nil hF]
  · rfl

theorem takeWhile_noLf (y : Bytes) : lfB ∉ y.takeWhile (· != lfB) := by
  intro h
  have := List.all_eq_true.mp (List.all_takeWhile (p := (· != lfB)) (l := y)) lfB h
  simp at this

/-- **Inside the line.**  At a rune boundary `E` that does not follow a CR, the cursor's column
    is at most the UTF-16 length of the line (without its CRLF / LF line end) as the client
    counts it. -/
theorem colAt_le_lineLen (text : Bytes) (E : Nat) (hE : Cut text E) (hend : EndsOk text E) :
    ∃ n, (lineLens16 text)[(posOfOffset text E).1]? = some n ∧ colAt text E ≤ n := by
  obtain ⟨x, hE1, hx, hxcr, hxlf⟩ := hend
  have hEle := cut_le hE
  -- the line on which `E` lies
  let P := lastPiece (text.take E)
  let F := (text.drop E).takeWhile (· != lfB)
  have hline : (splitOn lfB text)[(splitOn lfB (text.take E)).length - 1]? = some (P ++ F) := by
    have := splitOn_line (text.take E) (text.drop E)
    rwa [List.take_append_drop] at this
  have hlens : (lineLens16 text)[(posOfOffset text E).1]? = some (u16lenB (stripCR (P ++ F))) := by
    simp only [lineLens16, lineRunes, lineBytes, List.getElem?_map, posOfOffset]
    have : (splitOn lf text)[(splitOn lf (text.take E)).length - 1]? = some (P ++ F) := hline
    rw [this]; rfl
  refine ⟨_, hlens, ?_⟩
  -- `P` ends with the byte before `E`
  have htk : text.take E = text.take (E - 1) ++ [x] := by
    have h1 := take_eq_take_append_slice text (E - 1) E (by omega)
    rw [h1]; congr 1
    simp only [sliceB, show E - (E - 1) = 1 by omega]
    rw [List.take_one, List.head?_eq_getElem?, List.getElem?_drop, Nat.add_zero, hx]; rfl
  have hP : P = lastPiece (text.take (E - 1)) ++ [x] := by
    show lastPiece (text.take E) = _
    rw [htk, lastPiece_append_noLf _ _ (by simpa using fun e => hxlf e.symm)]
  -- the stripped line is `P ++ F'` for a prefix `F'` of what follows `E`
  let F' := if F.getLast? = some cr then F.dropLast else F
  have hstrip : stripCR (P ++ F) = P ++ F' := by
    by_cases hF : F = []
    · have : F' = [] := by simp [F', hF]
      rw [this, hF, List.append_nil]
      unfold stripCR
      rw [if_neg]
      rw [hP, List.getLast?_append]
      simpa using hxcr
    · exact stripCR_append P F hF
  have hFpre : F = (text.drop E).take F.length :=
    List.prefix_iff_eq_take.mp (List.takeWhile_prefix _)
  have hF'len : F'.length ≤ F.length := by
    simp only [F']; split <;> simp
  have hF'pF : F' <+: F := by
    simp only [F']
    split
    · exact List.dropLast_prefix _
    · exact List.prefix_refl _
  have hF'pre : F' = (text.drop E).take F'.length :=
    List.prefix_iff_eq_take.mp (hF'pF.trans (List.takeWhile_prefix _))
  have hnoLf : lfB ∉ F' := by
    intro h
    have : lfB ∈ F := by
      simp only [F'] at h
      split at h
      · exact (List.dropLast_prefix F).subset h
      · exact h
    exact takeWhile_noLf _ this
  have htakeE' : text.take (E + F'.length) = text.take E ++ F' := by
    rw [take_eq_take_append_slice text E (E + F'.length) (by omega)]
    congr 1
    simp only [sliceB, Nat.add_sub_cancel_left]
    exact hF'pre.symm
  -- `E + |F'|` is a rune boundary: the end of the text, a line feed or a CR is there
  have hcutE' : Cut text (E + F'.length) := by
    by_cases hcr : F.getLast? = some cr
    · -- a CR at E + |F| - 1
      have hF'eq : F' = F.dropLast := by simp [F', hcr]
      have hFne : F ≠ [] := by intro e; simp [e] at hcr
      have hlen : F'.length = F.length - 1 := by rw [hF'eq]; simp
      have hget : F[F.length - 1]? = some cr := by
        rw [← List.getLast?_eq_getElem?]; exact hcr
      have : text[E + F'.length]? = some cr := by
        rw [hlen, ← List.getElem?_drop]
        obtain ⟨r, hr⟩ := List.takeWhile_prefix (p := (· != lfB)) (l := text.drop E)
        have hpos : 0 < F.length := List.length_pos_iff.mpr hFne
        rw [← hr, List.getElem?_append_left (by show F.length - 1 < F.length; omega)]
        exact hget
      exact (cut_ascii text _ cr this (by decide)).1
    · have hF'eq : F' = F := by simp [F', hcr]
      rw [hF'eq]
      have hsplit := List.takeWhile_append_dropWhile (p := (· != lfB)) (l := text.drop E)
      cases hdw : (text.drop E).dropWhile (· != lfB) with
      | nil =>
        rw [hdw, List.append_nil] at hsplit
        have : F.length = text.length - E := by
          have := congrArg List.length hsplit
          simpa [F] using this
        rw [this, show E + (text.length - E) = text.length by omega]
        exact cut_length _
      | cons y ys =>
        have hy : y = lfB := by
          have := List.head_dropWhile_not (· != lfB) (l := text.drop E) (by rw [hdw]; simp)
          simp only [hdw, List.head_cons] at this
          simpa using this
        have : text[E + F.length]? = some lfB := by
          rw [← List.getElem?_drop, ← hsplit, hdw, hy]
          simp [F]
        exact (cut_ascii text _ lfB this (by decide)).1
  -- compare the cursor at `E` and at the end of the stripped line
  have hmono : colAt text E ≤ colAt text (E + F'.length) := by
    refine colAt_mono text E _ (by omega) ?_
    apply noLfP_of_slice
    simp only [sliceB, Nat.add_sub_cancel_left]
    rw [← hF'pre]; exact hnoLf
  have hend' : colAt text (E + F'.length) = u16lenB (P ++ F') := by
    rw [colAt_lastPiece hcutE', htakeE', lastPiece_append_noLf _ _ hnoLf]
  rw [hstrip, ← hend']
  exact hmono

/-! ### the last byte of a trimmed string -/

theorem chunksF_shape (f : Nat) (s : Bytes) : ∀ c ∈ chunksF f s,
    ∃ b t, c = ((decodeRune (b :: t)).1, (b :: t).take (decodeRune (b :: t)).2) := by
  induction f generalizing s with
  | zero => simp [chunksF]
  | succ f ih =>
    cases s with
    | nil => simp [chunksF]
    | cons b t =>
      intro c hc
      simp only [chunksF, List.mem_cons] at hc
      rcases hc with rfl | hc
      · exact ⟨b, t, rfl⟩
      · exact ih _ c hc

/-- A rune whose last byte is ASCII is that byte. -/
theorem chunk_last_ascii (s : Bytes) (c : Nat × Bytes) (hc : c ∈ chunks s) (x : UInt8)
    (hx : c.2.getLast? = some x) (ha : x.toNat < 128) : c.1 = x.toNat := by
  obtain ⟨b, t, rfl⟩ := chunksF_shape _ _ c hc
  have hk1 := decodeRune_width_pos b t
  have hk2 := decodeRune_width_le b t
  simp only at hx ⊢
  rw [List.getLast?_eq_getElem?, List.length_take, Nat.min_eq_left hk2,
    List.getElem?_take_of_lt (by omega)] at hx
  by_cases hk : (decodeRune (b :: t)).2 - 1 = 0
  · rw [hk] at hx
    simp only [List.getElem?_cons_zero, Option.some.injEq] at hx
    subst hx
    have : b < 0x80 := by rw [UInt8.lt_iff_toNat_lt]; simpa using ha
    simp [decodeRune, this]
  · have := decodeRune_tail (b :: t) _ x (by omega) (by omega) hx
    omega

theorem unchunk_snoc (l : List (Nat × Bytes)) (c : Nat × Bytes) : unchunk (l ++ [c]) = unchunk l ++ c.2 := by
  simp [unchunk]

/-- A trimmed string does not end with a CR. -/
theorem trimSpace_last_ne_cr (s : Bytes) (x : UInt8) (h : (trimSpace s).getLast? = some x) : x ≠ cr := by
  let p : Nat × Bytes → Bool := fun c => isSpaceRune c.1
  let dw := (chunks s).dropWhile p
  have htr : trimSpace s = unchunk ((dw.reverse.dropWhile p).reverse) := rfl
  cases hL : dw.reverse.dropWhile p with
  | nil => rw [htr, hL] at h; simp [unchunk] at h
  | cons c rest =>
    have hnp : p c = false := by
      have := List.head_dropWhile_not p (l := dw.reverse) (by rw [hL]; simp)
      simpa [hL] using this
    have hmem : c ∈ chunks s := by
      have h1 : c ∈ dw.reverse.dropWhile p := by rw [hL]; exact List.mem_cons_self
      have h2 := (List.dropWhile_suffix p).subset h1
      have h3 : c ∈ dw := List.mem_reverse.mp h2
      exact (List.dropWhile_suffix p).subset h3
    have hpos := chunks_pos s c hmem
    rw [htr, hL, List.reverse_cons, unchunk_snoc] at h
    have hne : c.2 ≠ [] := by intro e; rw [e] at hpos; simp at hpos
    have hl : (unchunk rest.reverse ++ c.2).getLast? = c.2.getLast? := by
      rw [List.getLast?_append]
      cases hf : c.2.getLast? with
      | none => exact absurd (List.getLast?_eq_none_iff.mp hf) hne
      | some y => rfl
    rw [hl] at h
    intro e
    subst e
    have := chunk_last_ascii s c hmem cr h (by decide)
    have hp : p c = true := by
      show isSpaceRune c.1 = true
      rw [this]; decide
    rw [hnp] at hp; cases hp

/-! ### every piece ends inside its line -/

theorem endsOk_of_slice (text : Bytes) (a b : Nat) (l : Bytes) (hsl : sliceB text a b = l)
    (hne : l ≠ []) (hb : b ≤ text.length) (hlast : ∀ x, l.getLast? = some x → x ≠ cr)
    (hnolf : NoLfP text a b) : EndsOk text b := by
  have hlen : l.length = b - a := by rw [← hsl, sliceB_length _ _ _ hb]
  have hpos : 0 < l.length := List.length_pos_iff.mpr hne
  have hget : text[b - 1]? = l.getLast? := by
    have hl2 : (List.take (b - a) (List.drop a text)).length = b - a := by
      have := sliceB_length text a b hb
      simpa [sliceB] using this
    rw [List.getLast?_eq_getElem?, ← hsl]
    simp only [sliceB]
    rw [hl2, List.getElem?_take_of_lt (by omega), List.getElem?_drop]
    congr 1; omega
  cases hx : l.getLast? with
  | none => exact absurd (List.getLast?_eq_none_iff.mp hx) hne
  | some x =>
    refine ⟨x, by omega, by rw [hget, hx], hlast x hx, ?_⟩
    intro e
    exact hnolf (b - 1) (by omega) (by omega) (by rw [hget, hx, e])

theorem plainSpan_slice (text : Bytes) (t : Token) (x : UInt32) (he : ExtentP text t) :
    sliceB text (plainSpan text t x).off ((plainSpan text t x).off + (plainSpan text t x).len)
      = if t.ty == .comment then 0x3B :: t.val else trimSpace (sliceB text t.pos.off t.stop.off) := by
  by_cases hc : t.ty = .comment
  · have hc' : (t.ty == TokType.comment) = true := by simp [hc]
    have hlen := he.cmtLen hc
    simp only [plainSpan, hc', if_true]
    rw [show t.pos.off + (t.val.length + 1) = t.stop.off by omega]
    exact he.cmt hc
  · have hc' : (t.ty == TokType.comment) = false := by simp [hc]
    simp only [plainSpan, hc', Bool.false_eq_true, if_false]
    have h1 := leadWs_trim_le (sliceB text t.pos.off t.stop.off)
    rw [sliceB_length _ _ _ he.inText] at h1
    rw [sliceB_sub text t.pos.off t.stop.off _ _ h1, drop_take_trim]

theorem u16lenB_nil : u16lenB [] = 0 := rfl

/-- Every piece of text that becomes a token ends on a rune boundary inside the extent, after a
    byte that is neither CR nor LF — unless the token is a comment whose value ends with a CR. -/
theorem emitted_ends (cls : Classes) (text : Bytes) (t : Token) (he : ExtentP text t)
    (hp : Cut text t.pos.off) (hs : Cut text t.stop.off) (hcr : devCrComment t = false) :
    ∀ sp ∈ emitted cls text t, Cut text (sp.off + sp.len) ∧ EndsOk text (sp.off + sp.len) ∧
      t.pos.off ≤ sp.off + sp.len ∧ sp.off + sp.len ≤ t.stop.off := by
  have hplain : ∀ sp ∈ (let sp := plainSpan text t 0; if (sp.len16 == 0) = true then [] else [sp]),
      Cut text (sp.off + sp.len) ∧ EndsOk text (sp.off + sp.len) ∧
      t.pos.off ≤ sp.off + sp.len ∧ sp.off + sp.len ≤ t.stop.off := by
    simp only
    split
    · intro sp h; cases h
    · rename_i hnz
      intro sp h
      rw [List.mem_singleton] at h; subst h
      have hin := plainSpan_inside text t 0 he
      obtain ⟨_, c2⟩ := plainSpan_cuts text t 0 he hp hs
      have hsl := plainSpan_slice text t 0 he
      have h16 := plainSpan_len16 text t 0 he
      refine ⟨c2, ?_, by omega, hin.2⟩
      refine endsOk_of_slice text _ _ _ hsl ?_ (by have := he.inText; omega) ?_
        (noLfP_sub he.oneLine hin.1 hin.2)
      · intro e
        rw [hsl] at h16
        rw [e, u16lenB_nil] at h16
        simp [h16] at hnz
      · intro x hx
        by_cases hc : t.ty = .comment
        · have hc' : (t.ty == TokType.comment) = true := by simp [hc]
          rw [hc', if_pos rfl, List.getLast?_cons] at hx
          have hcr' : t.val.getLast? ≠ some cr := by simpa [devCrComment, hc'] using hcr
          cases hv : t.val.getLast? with
          | none => rw [hv] at hx; simp at hx; subst hx; decide
          | some y =>
            rw [hv] at hx; simp at hx; subst hx
            intro e; exact hcr' (by rw [hv, e])
        · have hc' : (t.ty == TokType.comment) = false := by simp [hc]
          rw [hc'] at hx
          exact trimSpace_last_ne_cr _ x hx
  by_cases hc : t.ty = .comment
  · have hc' : (t.ty == TokType.comment) = true := by simp [hc]
    by_cases hne : (extractSpans cls t.val).isEmpty = true
    · simp only [emitted, hc', if_true, hne, Bool.not_true, Bool.false_eq_true, if_false]
      exact hplain
    · have hne' : (extractSpans cls t.val).isEmpty = false := by simpa using hne
      simp only [emitted, hc', if_true, hne', Bool.not_false, List.mem_map]
      rintro sp' ⟨sp, hsp, rfl⟩
      have hraw := he.cmt hc
      have hlen := he.cmtLen hc
      have hsemi : text[t.pos.off]? = some 0x3B := getElem?_slice_zero _ _ _ _ _ hraw
      obtain ⟨_, hp1⟩ := cut_ascii text t.pos.off 0x3B hsemi (by decide)
      have hval : sliceB text (t.pos.off + 1) t.stop.off = t.val := by
        have := sliceB_sub text t.pos.off t.stop.off 1 t.val.length (by omega)
        rw [show t.pos.off + 1 + t.val.length = t.stop.off by omega, hraw] at this
        simpa using this
      obtain ⟨hi, hhi, hs', _⟩ := extractSpans_spec cls t.val
      have hb := spansFrom_mem_le hs' sp hsp
      obtain ⟨_, c2⟩ := extractSpans_cutP cls t.val sp hsp
      have hcontent := extractSpans_content cls t.val sp hsp
      have hsl := sliceB_sub text (t.pos.off + 1) t.stop.off sp.off sp.len (by omega)
      rw [hval] at hsl
      have hcutE : Cut text (t.pos.off + 1 + sp.off + sp.len) := by
        have := cut_slice hp1 hs (by omega) (j := sp.off + sp.len) (by rw [hval]; exact c2)
        simpa [Nat.add_assoc] using this
      refine ⟨hcutE, ?_, by simp only; omega, by simp only; omega⟩
      simp only
      rcases hcontent with ⟨_, name, _, _, _, hc1⟩ | ⟨_, value, hvne, ⟨r, hr⟩, _, _, hc1⟩
      · refine endsOk_of_slice text _ _ _ (hsl.trans hc1) (by simp) (by have := he.inText; omega) ?_
          (noLfP_sub he.oneLine (by omega) (by omega))
        intro x hx
        rw [List.getLast?_append] at hx
        simp at hx; subst hx; decide
      · refine endsOk_of_slice text _ _ _ (hsl.trans hc1) hvne (by have := he.inText; omega) ?_
          (noLfP_sub he.oneLine (by omega) (by omega))
        intro x hx
        rw [hr] at hx
        exact trimSpace_last_ne_cr _ x hx
  · have hc' : (t.ty == TokType.comment) = false := by simp [hc]
    simp only [emitted, hc', Bool.false_eq_true, if_false, List.isEmpty_nil, Bool.not_true]
    exact hplain

/-- **From the lexer's contract to "inside the line".** -/
theorem inlineB_of_contract (cls : Classes) (text : Bytes) (toks : List Token)
    (hx : (mappedBody toks).all (extentOk text) = true) (hc : cutsB text toks = true)
    (hl : (mappedBody toks).all (fun t => lineOk text t && !devCrComment t) = true) :
    inlineB (lineLens16 text) cls text toks = true := by
  simp only [inlineB, List.all_eq_true]
  intro t ht sp hsp
  have he := extentP_of text t ((List.all_eq_true.mp hx) t ht)
  have hct := (List.all_eq_true.mp hc) t ht
  have hlt := (List.all_eq_true.mp hl) t ht
  simp only [cutOk, Bool.and_eq_true, Bool.not_eq_true'] at hct hlt
  obtain ⟨c, hend, h1, h2⟩ := emitted_ends cls text t he (cut_of_isCut hct.1) (cut_of_isCut hct.2) hlt.2 sp hsp
  obtain ⟨n, hn, hle⟩ := colAt_le_lineLen text _ c hend
  have hline := posLine_same text t.pos.off (sp.off + sp.len) h1 (noLfP_sub he.oneLine (Nat.le_refl _) h2)
  have hlo := hlt.1
  simp only [lineOk, beq_iff_eq] at hlo
  rw [hline, hlo] at hn
  rw [hn]
  simpa using hle

end HL.Lemmas.SemTok
