/-
  Helper lemmas for C19 (configuration).
-/
import HL.Model.Settings
import HL.Spec.SettingsSpec

namespace HL.Lemmas.Settings
open HL.Settings

/-! ### field access -/

/-- a value of the Go type of the field -/
def typeOK : Leaf → Val → Bool
  | l, .b _ => l.coerce = .toBool
  | l, .i _ => l.coerce = .toInt || l.coerce = .toInt64
  | l, .s _ => l.coerce = .toString

theorem get_set_same (s : Settings) (l : Leaf) (v : Val) (h : typeOK l v = true) :
    get (set s l v) l = v := by
  cases l <;> cases v <;> first | rfl | (simp [typeOK, Leaf.coerce] at h)

theorem get_set_ne (s : Settings) (l l' : Leaf) (v : Val) (h : l ≠ l') :
    get (set s l' v) l = get s l := by
  cases l' <;> cases v <;> cases l <;> first | rfl | (exact absurd rfl h)

theorem coerceLeaf_typeOK (l : Leaf) (j : Json) (v : Val) (h : coerceLeaf l j = some v) :
    typeOK l v = true := by
  unfold coerceLeaf at h
  cases hc : l.coerce <;> simp only [hc] at h
  all_goals
    simp only [Option.map_eq_some_iff] at h
    obtain ⟨a, _, rfl⟩ := h
    simp [typeOK, hc]


/-! ### applySettingsMap, field by field -/

/-- the values the statements of a table assign to field `l`, in source order -/
def candidatesIn (t : List Entry) (raw : List (String × Json)) (l : Leaf) : List Val :=
  (t.filter fun e => e.leaf = l).filterMap fun e => coerceLeaf l (entryRaw raw e)

def candidates (raw : List (String × Json)) (l : Leaf) : List Val := candidatesIn keyTable raw l

theorem get_applyEntry (raw : List (String × Json)) (s : Settings) (e : Entry) (l : Leaf) :
    get (applyEntry raw s e) l =
      if e.leaf = l then (coerceLeaf l (entryRaw raw e)).getD (get s l) else get s l := by
  unfold applyEntry
  by_cases h : e.leaf = l
  · subst h
    simp only [if_true]
    cases hc : coerceLeaf e.leaf (entryRaw raw e) with
    | none => rfl
    | some v => exact get_set_same s e.leaf v (coerceLeaf_typeOK _ _ _ hc)
  · simp only [h, if_false]
    cases hc : coerceLeaf e.leaf (entryRaw raw e) with
    | none => rfl
    | some v => exact get_set_ne s l e.leaf v (fun h' => h h'.symm)

theorem get_foldl (t : List Entry) (raw : List (String × Json)) (s : Settings) (l : Leaf) :
    get (t.foldl (applyEntry raw) s) l = ((candidatesIn t raw l).getLast?).getD (get s l) := by
  induction t generalizing s with
  | nil => rfl
  | cons e t ih =>
    simp only [List.foldl_cons]
    rw [ih, get_applyEntry]
    unfold candidatesIn
    by_cases h : e.leaf = l
    · simp only [h, if_true, List.filter_cons, decide_true, List.filterMap_cons]
      cases hc : coerceLeaf l (entryRaw raw e) with
      | none => simp
      | some v =>
        simp only [Option.getD_some]
        cases hl : (List.filterMap (fun e => coerceLeaf l (entryRaw raw e))
            (List.filter (fun e => decide (e.leaf = l)) t)) with
        | nil => simp
        | cons a r =>
          simp only [List.getLast?_cons_cons]
          cases h2 : (a :: r).getLast? with
          | none => simp at h2
          | some x => rfl
    · simp [h]

/-- **applySettingsMap, per field**: the last statement (in source order) whose coercion
    succeeds decides; if none succeeds the field is untouched. -/
theorem get_applySettingsMap (s : Settings) (raw : List (String × Json)) (l : Leaf) :
    get (applySettingsMap s raw) l = ((candidates raw l).getLast?).getD (get s l) :=
  get_foldl keyTable raw s l

/-! ### normalisation, field by field -/

theorem get_resetIf (s : Settings) (r : NormRule) (l : Leaf)
    (hr : typeOK r.leaf r.value = true) :
    HL.Settings.get (resetIf s r) l =
      if r.leaf = l then stepVal (HL.Settings.get s l) r else HL.Settings.get s l := by
  unfold resetIf stepVal
  by_cases h : r.leaf = l
  · subst h
    simp only [if_true]
    split
    · exact get_set_same _ _ _ hr
    · rfl
  · simp only [h, if_false]
    split
    · exact get_set_ne _ _ _ _ (fun h' => h h'.symm)
    · rfl

theorem get_foldl_resetIf (rules : List NormRule) (s : Settings) (l : Leaf)
    (hty : ∀ r ∈ rules, typeOK r.leaf r.value = true) :
    HL.Settings.get (rules.foldl resetIf s) l =
      (rules.filter fun r => r.leaf = l).foldl stepVal (HL.Settings.get s l) := by
  induction rules generalizing s with
  | nil => rfl
  | cons r rules ih =>
    simp only [List.foldl_cons]
    rw [ih _ (fun r hr => hty r (List.mem_cons_of_mem _ hr)),
      get_resetIf _ _ _ (hty r (List.mem_cons_self ..))]
    by_cases h : r.leaf = l
    · simp [h]
    · simp [h]

theorem get_normalize (s : Settings) (l : Leaf) :
    HL.Settings.get (normalize s) l = normLeaf l (HL.Settings.get s l) := by
  unfold normalize normLeaf
  exact get_foldl_resetIf normRules s l (by decide)


/-- settings are determined by their fields -/
theorem ext_get (a b : Settings) (h : ∀ l, HL.Settings.get a l = HL.Settings.get b l) : a = b := by
  have h0 := h .fHover
  have h1 := h .fCompletion
  have h2 := h .fFormatting
  have h3 := h .fDiagnostics
  have h4 := h .fSemanticTokens
  have h5 := h .fCodeActions
  have h6 := h .fFoldingRanges
  have h7 := h .fDocumentLinks
  have h8 := h .fWorkspaceSymbol
  have h9 := h .fInlineCompletion
  have h10 := h .cMaxResults
  have h11 := h .cFuzzyMatching
  have h12 := h .cShowCounts
  have h13 := h .dUndeclaredAccounts
  have h14 := h .dUndeclaredCommodities
  have h15 := h .dUnbalancedTransactions
  have h16 := h .oIndentSize
  have h17 := h .oAlignAmounts
  have h18 := h .oMinAlignmentColumn
  have h19 := h .xEnabled
  have h20 := h .xPath
  have h21 := h .xTimeout
  have h22 := h .lMaxFileSizeBytes
  have h23 := h .lMaxIncludeDepth
  obtain ⟨⟨_, _, _, _, _, _, _, _, _, _⟩, ⟨_, _, _⟩, ⟨_, _, _⟩, ⟨_, _, _⟩, ⟨_, _, _⟩, ⟨_, _⟩⟩ := a
  obtain ⟨⟨_, _, _, _, _, _, _, _, _, _⟩, ⟨_, _, _⟩, ⟨_, _, _⟩, ⟨_, _, _⟩, ⟨_, _, _⟩, ⟨_, _⟩⟩ := b
  simp only [HL.Settings.get, Val.b.injEq, Val.i.injEq, Val.s.injEq] at *
  subst_vars
  rfl

/-- `normLeaf` in closed form: what `normalizeServerSettings` does to each field -/
def normVal : Leaf → Val → Val
  | .cMaxResults, .i n => .i (if n ≤ 0 then 50 else n)
  | .oIndentSize, .i n => .i (if n ≤ 0 then 4 else if n > 32 then 32 else n)
  | .oMinAlignmentColumn, .i n => .i (if n < 0 then 0 else if n > 500 then 500 else n)
  | .xPath, .s p => .s (if p = "" then "hledger" else p)
  | .xTimeout, .i n => .i (if n ≤ 0 then 30000000000 else n)
  | .lMaxFileSizeBytes, .i n => .i (if n ≤ 0 then 10485760 else n)
  | .lMaxIncludeDepth, .i n => .i (if n ≤ 0 then 50 else n)
  | _, v => v

/-- the statements of `normalizeServerSettings` about one field -/
def rulesOf : Leaf → List NormRule
  | .cMaxResults => [⟨.cMaxResults, .nonPositive, .default⟩]
  | .oIndentSize => [⟨.oIndentSize, .nonPositive, .default⟩, ⟨.oIndentSize, .above 32, .const 32⟩]
  | .oMinAlignmentColumn => [⟨.oMinAlignmentColumn, .negative, .default⟩,
      ⟨.oMinAlignmentColumn, .above 500, .const 500⟩]
  | .xPath => [⟨.xPath, .emptyString, .default⟩]
  | .xTimeout => [⟨.xTimeout, .nonPositive, .default⟩]
  | .lMaxFileSizeBytes => [⟨.lMaxFileSizeBytes, .nonPositive, .default⟩]
  | .lMaxIncludeDepth => [⟨.lMaxIncludeDepth, .nonPositive, .default⟩]
  | _ => []

theorem rulesOf_eq (l : Leaf) : (normRules.filter fun r => r.leaf = l) = rulesOf l := by
  cases l <;> rfl

theorem stepVal_b (b : Bool) (r : NormRule) : stepVal (.b b) r = .b b := by
  unfold stepVal; cases hc : r.cond <;> simp [NormCond.holds]

theorem stepVal_nonPositive (l : Leaf) (n : Int) :
    stepVal (.i n) ⟨l, .nonPositive, .default⟩ = if n ≤ 0 then HL.Settings.get defaults l else .i n := by
  simp [stepVal, NormCond.holds, NormRule.value]

theorem stepVal_negative (l : Leaf) (n : Int) :
    stepVal (.i n) ⟨l, .negative, .default⟩ = if n < 0 then HL.Settings.get defaults l else .i n := by
  simp [stepVal, NormCond.holds, NormRule.value]

theorem stepVal_above (l : Leaf) (n m : Int) :
    stepVal (.i n) ⟨l, .above m, .const m⟩ = if n > m then .i m else .i n := by
  simp [stepVal, NormCond.holds, NormRule.value]

theorem stepVal_empty (l : Leaf) (p : String) :
    stepVal (.s p) ⟨l, .emptyString, .default⟩ = if p = "" then HL.Settings.get defaults l else .s p := by
  simp [stepVal, NormCond.holds, NormRule.value]

theorem stepVal_s_int (p : String) (l : Leaf) (c : NormCond) (t : NormTo) (hc : c ≠ .emptyString) :
    stepVal (.s p) ⟨l, c, t⟩ = .s p := by
  unfold stepVal; cases c <;> simp_all [NormCond.holds]

theorem stepVal_i_empty (n : Int) (l : Leaf) (t : NormTo) :
    stepVal (.i n) ⟨l, .emptyString, t⟩ = .i n := by
  simp [stepVal, NormCond.holds]

theorem foldl_stepVal_b (b : Bool) (rs : List NormRule) : rs.foldl stepVal (.b b) = .b b := by
  induction rs with
  | nil => rfl
  | cons r rs ih => simp only [List.foldl_cons, stepVal_b, ih]

theorem normLeaf_eq (l : Leaf) (v : Val) : normLeaf l v = normVal l v := by
  unfold normLeaf
  rw [rulesOf_eq]
  cases v with
  | b x =>
    rw [foldl_stepVal_b]
    cases l <;> rfl
  | i n =>
    cases l <;> simp only [rulesOf, List.foldl_cons, List.foldl_nil, normVal, stepVal_nonPositive,
      stepVal_negative, stepVal_i_empty, HL.Settings.get, defaults, defaultLimits, millisecond]
    · split <;> rfl
    · by_cases h : n ≤ 0
      · simp only [h, if_true, stepVal_above]; simp
      · simp only [h, if_false, stepVal_above]; split <;> rfl
    · by_cases h : n < 0
      · simp only [h, if_true, stepVal_above]; simp
      · simp only [h, if_false, stepVal_above]; split <;> rfl
    · split <;> rfl
    · split <;> rfl
    · split <;> rfl
  | s p =>
    cases l <;> simp only [rulesOf, List.foldl_cons, List.foldl_nil, normVal, stepVal_empty,
      HL.Settings.get, defaults] <;>
      first | rfl | (split <;> rfl) | (simp [stepVal_s_int])

theorem normVal_idem (l : Leaf) (v : Val) : normVal l (normVal l v) = normVal l v := by
  cases l <;> cases v <;> simp only [normVal] <;>
    (repeat' split) <;> first | rfl | (exfalso; omega) | (simp_all; done) | skip

theorem normLeaf_idem (l : Leaf) (v : Val) : normLeaf l (normLeaf l v) = normLeaf l v := by
  rw [normLeaf_eq, normLeaf_eq, normVal_idem]

/-- `normalizeServerSettings` is idempotent. -/
theorem normalize_idem (s : Settings) : normalize (normalize s) = normalize s := by
  apply ext_get
  intro l
  rw [get_normalize, get_normalize, normLeaf_idem]

/-- stored settings: fixed points of normalisation -/
def Normal (s : Settings) : Prop := normalize s = s

theorem normal_normalize (s : Settings) : Normal (normalize s) := normalize_idem s

theorem normal_get (s : Settings) (h : Normal s) (l : Leaf) :
    normLeaf l (HL.Settings.get s l) = HL.Settings.get s l := by
  rw [← get_normalize, h]


/-! ### parseSettingsFromRaw: which objects are read -/

open HL.SettingsSpec (levels levelsIn)

mutual
/-- **The wrapper, for every JSON shape.**  `parseSettingsFromRaw` applies every object of the
    `hledger` chain — the payload itself, its member `hledger` if that is an object, that
    object's member `hledger` if …, exactly the `levels` of the statement's rule — outermost
    first, and normalises once at the end.  Anything that is not an object contributes
    nothing. -/
theorem parse_eq (base : Settings) : ∀ j : Json,
    parseSettingsFromRaw base j = normalize ((levels j).foldl applySettingsMap base)
  | .obj kvs => by
    have h := parseNested_eq (applySettingsMap base kvs) kvs
    unfold parseSettingsFromRaw levels
    simp only [List.foldl_cons]
    rw [← h]
    cases parseNested (applySettingsMap base kvs) kvs <;> rfl
  | .null => by unfold parseSettingsFromRaw levels; rfl
  | .bool _ => by unfold parseSettingsFromRaw levels; rfl
  | .num _ _ => by unfold parseSettingsFromRaw levels; rfl
  | .str _ => by unfold parseSettingsFromRaw levels; rfl
  | .arr _ => by unfold parseSettingsFromRaw levels; rfl
theorem parseNested_eq (s : Settings) : ∀ kvs : List (String × Json),
    (parseNested s kvs).getD (normalize s) = normalize ((levelsIn kvs).foldl applySettingsMap s)
  | [] => by simp [parseNested, levelsIn]
  | (k, v) :: r => by
    unfold parseNested levelsIn
    by_cases hk : k = "hledger"
    · simp only [hk, if_true]
      cases v with
      | obj m => simp only [Option.getD_some]; exact parse_eq s (.obj m)
      | null => simp [levels]
      | bool _ => simp [levels]
      | num _ _ => simp [levels]
      | str _ => simp [levels]
      | arr _ => simp [levels]
    · simp only [hk, if_false]
      exact parseNested_eq s r
end

/-- the values the statements of `applySettingsMap` assign to field `l` over the whole chain,
    in the order in which they are assigned -/
def allCandidates (j : Json) (l : Leaf) : List Val := (levels j).flatMap fun m => candidates m l

theorem getLast?_append_getD (a b : List Val) (d : Val) :
    ((a ++ b).getLast?).getD d = (b.getLast?).getD ((a.getLast?).getD d) := by
  rw [List.getLast?_append]
  cases b.getLast? <;> simp

theorem get_foldl_levels (lv : List (List (String × Json))) (s : Settings) (l : Leaf) :
    HL.Settings.get (lv.foldl applySettingsMap s) l =
      (((lv.flatMap fun m => candidates m l).getLast?)).getD (HL.Settings.get s l) := by
  induction lv generalizing s with
  | nil => rfl
  | cons m lv ih =>
    simp only [List.foldl_cons, List.flatMap_cons]
    rw [ih, get_applySettingsMap, getLast?_append_getD]

end HL.Lemmas.Settings
