/-
  Helper lemmas for C19 (configuration).
-/
import HL.Model.Settings
import HL.Spec.SettingsSpec

namespace HL.Lemmas.Settings
open HL.Settings

/-! ### field access -/

/-- a value of the Go type of the field -/
def typeOK : Leaf → Val → Bool
  | l, .b _ => l.coerce = .toBool
  | l, .i _ => l.coerce = .toInt || l.coerce = .toInt64
  | l, .s _ => l.coerce = .toString

theorem get_set_same (s : Settings) (l : Leaf) (v : Val) (h : typeOK l v = true) :
    get (set s l v) l = v := by
  cases l <;> cases v <;> first | rfl | (simp [typeOK, Leaf.coerce] at h)

theorem get_set_ne (s : Settings) (l l' : Leaf) (v : Val) (h : l ≠ l') :
    get (set s l' v) l = get s l := by
  cases l' <;> cases v <;> cases l <;> first | rfl | (exact absurd rfl h)

theorem coerceLeaf_typeOK (l : Leaf) (j : Json) (v : Val) (h : coerceLeaf l j = some v) :
    typeOK l v = true := by
  unfold coerceLeaf at h
  cases hc : l.coerce <;> simp only [hc] at h
  all_goals
    simp only [Option.map_eq_some_iff] at h
    obtain ⟨a, _, rfl⟩ := h
    simp [typeOK, hc]


/-! ### applySettingsMap, field by field -/

/-- the values the statements of a table assign to field `l`, in source order -/
def candidatesIn (t : List Entry) (raw : List (String × Json)) (l : Leaf) : List Val :=
  (t.filter fun e => e.leaf = l).filterMap fun e => coerceLeaf l (entryRaw raw e)

def candidates (raw : List (String × Json)) (l : Leaf) : List Val := candidatesIn keyTable raw l

theorem get_applyEntry (raw : List (String × Json)) (s : Settings) (e : Entry) (l : Leaf) :
    get (applyEntry raw s e) l =
      if e.leaf = l then (coerceLeaf l (entryRaw raw e)).getD (get s l) else get s l := by
  unfold applyEntry
  by_cases h : e.leaf = l
  · subst h
    simp only [if_true]
    cases hc : coerceLeaf e.leaf (entryRaw raw e) with
    | none => rfl
    | some v => exact get_set_same s e.leaf v (coerceLeaf_typeOK _ _ _ hc)
  · simp only [h, if_false]
    cases hc : coerceLeaf e.leaf (entryRaw raw e) with
    | none => rfl
    | some v => exact get_set_ne s l e.leaf v (fun h' => h h'.symm)

theorem get_foldl (t : List Entry) (raw : List (String × Json)) (s : Settings) (l : Leaf) :
    get (t.foldl (applyEntry raw) s) l = ((candidatesIn t raw l).getLast?).getD (get s l) := by
  induction t generalizing s with
  | nil => rfl
  | cons e t ih =>
    simp only [List.foldl_cons]
    rw [ih, get_applyEntry]
    unfold candidatesIn
    by_cases h : e.leaf = l
    · simp only [h, if_true, List.filter_cons, decide_true, List.filterMap_cons]
      cases hc : coerceLeaf l (entryRaw raw e) with
      | none => simp
      | some v =>
        simp only [Option.getD_some]
        cases hl : (List.filterMap (fun e => coerceLeaf l (entryRaw raw e))
            (List.filter (fun e => decide (e.leaf = l)) t)) with
        | nil => simp
        | cons a r =>
          simp only [List.getLast?_cons_cons]
          cases h2 : (a :: r).getLast? with
          | none => simp at h2
          | some x => rfl
    · simp [h]

/-- **applySettingsMap, per field**: the last statement (in source order) whose coercion
    succeeds decides; if none succeeds the field is untouched. -/
theorem get_applySettingsMap (s : Settings) (raw : List (String × Json)) (l : Leaf) :
    get (applySettingsMap s raw) l = ((candidates raw l).getLast?).getD (get s l) :=
  get_foldl keyTable raw s l

/-! ### normalisation, field by field -/

theorem get_resetIf (s : Settings) (r : Leaf × NormCond) (l : Leaf)
    (hr : typeOK r.1 (HL.Settings.get defaults r.1) = true) :
    HL.Settings.get (resetIf s r) l =
      if r.1 = l then (if r.2.holds (HL.Settings.get s l) then HL.Settings.get defaults l else HL.Settings.get s l)
      else HL.Settings.get s l := by
  unfold resetIf
  by_cases h : r.1 = l
  · subst h
    simp only [if_true]
    split
    · exact get_set_same _ _ _ hr
    · rfl
  · simp only [h, if_false]
    split
    · exact get_set_ne _ _ _ _ (fun h' => h h'.symm)
    · rfl

theorem get_foldl_resetIf (rules : List (Leaf × NormCond)) (s : Settings) (l : Leaf)
    (hty : ∀ r ∈ rules, typeOK r.1 (HL.Settings.get defaults r.1) = true)
    (hnd : (rules.map (·.1)).Nodup) :
    HL.Settings.get (rules.foldl resetIf s) l =
      match rules.lookup l with
      | some c => if c.holds (HL.Settings.get s l) then HL.Settings.get defaults l else HL.Settings.get s l
      | none => HL.Settings.get s l := by
  induction rules generalizing s with
  | nil => rfl
  | cons r rules ih =>
    obtain ⟨l', c⟩ := r
    simp only [List.map_cons, List.nodup_cons] at hnd
    simp only [List.foldl_cons]
    rw [ih _ (fun r hr => hty r (List.mem_cons_of_mem _ hr)) hnd.2,
      get_resetIf _ _ _ (hty (l', c) (List.mem_cons_self ..))]
    by_cases h : l' = l
    · subst h
      have hno : rules.lookup l' = none := by
        rw [List.lookup_eq_none_iff]
        intro p hp
        simp only [bne_iff_ne, ne_eq]
        intro heq
        exact hnd.1 (by rw [heq]; exact List.mem_map_of_mem hp)
      simp [List.lookup, hno]
    · have h' : (l == l') = false := by simpa using fun e => h e.symm
      simp [List.lookup, h, h']

theorem get_normalize (s : Settings) (l : Leaf) :
    HL.Settings.get (normalize s) l = normLeaf l (HL.Settings.get s l) := by
  unfold normalize normLeaf
  exact get_foldl_resetIf normRules s l (by decide) (by decide)


/-- settings are determined by their fields -/
theorem ext_get (a b : Settings) (h : ∀ l, HL.Settings.get a l = HL.Settings.get b l) : a = b := by
  have h0 := h .fHover
  have h1 := h .fCompletion
  have h2 := h .fFormatting
  have h3 := h .fDiagnostics
  have h4 := h .fSemanticTokens
  have h5 := h .fCodeActions
  have h6 := h .fFoldingRanges
  have h7 := h .fDocumentLinks
  have h8 := h .fWorkspaceSymbol
  have h9 := h .fInlineCompletion
  have h10 := h .cMaxResults
  have h11 := h .cFuzzyMatching
  have h12 := h .cShowCounts
  have h13 := h .dUndeclaredAccounts
  have h14 := h .dUndeclaredCommodities
  have h15 := h .dUnbalancedTransactions
  have h16 := h .oIndentSize
  have h17 := h .oAlignAmounts
  have h18 := h .oMinAlignmentColumn
  have h19 := h .xEnabled
  have h20 := h .xPath
  have h21 := h .xTimeout
  have h22 := h .lMaxFileSizeBytes
  have h23 := h .lMaxIncludeDepth
  obtain ⟨⟨_, _, _, _, _, _, _, _, _, _⟩, ⟨_, _, _⟩, ⟨_, _, _⟩, ⟨_, _, _⟩, ⟨_, _, _⟩, ⟨_, _⟩⟩ := a
  obtain ⟨⟨_, _, _, _, _, _, _, _, _, _⟩, ⟨_, _, _⟩, ⟨_, _, _⟩, ⟨_, _, _⟩, ⟨_, _, _⟩, ⟨_, _⟩⟩ := b
  simp only [HL.Settings.get, Val.b.injEq, Val.i.injEq, Val.s.injEq] at *
  subst_vars
  rfl

/-- `normRules` as a function -/
def ruleOf : Leaf → Option NormCond
  | .cMaxResults | .oIndentSize | .xTimeout | .lMaxFileSizeBytes | .lMaxIncludeDepth => some .nonPositive
  | .xPath => some .emptyString
  | _ => none

theorem lookup_eq_ruleOf (l : Leaf) : normRules.lookup l = ruleOf l := by cases l <;> rfl

theorem normLeaf_eq (l : Leaf) (v : Val) :
    normLeaf l v = match ruleOf l with
      | some c => if c.holds v then HL.Settings.get defaults l else v
      | none => v := by
  unfold normLeaf; rw [lookup_eq_ruleOf]; rfl

theorem default_not_reset (l : Leaf) (c : NormCond) :
    normRules.lookup l = some c → c.holds (HL.Settings.get defaults l) = false := by
  cases l <;> cases c <;> decide

theorem normLeaf_idem (l : Leaf) (v : Val) : normLeaf l (normLeaf l v) = normLeaf l v := by
  unfold normLeaf
  cases hl : normRules.lookup l with
  | none => rfl
  | some c =>
    simp only
    by_cases hc : c.holds v = true
    · simp only [hc, if_true]
      -- the default is never reset again
      have : c.holds (HL.Settings.get defaults l) = false := default_not_reset l c hl
      simp [this]
    · simp [hc]

/-- `normalizeServerSettings` is idempotent. -/
theorem normalize_idem (s : Settings) : normalize (normalize s) = normalize s := by
  apply ext_get
  intro l
  rw [get_normalize, get_normalize, normLeaf_idem]

/-- stored settings: fixed points of normalisation -/
def Normal (s : Settings) : Prop := normalize s = s

theorem normal_normalize (s : Settings) : Normal (normalize s) := normalize_idem s

theorem normal_get (s : Settings) (h : Normal s) (l : Leaf) :
    normLeaf l (HL.Settings.get s l) = HL.Settings.get s l := by
  rw [← get_normalize, h]


/-! ### parseSettingsFromRaw: which object is read -/

mutual
/-- the object `applySettingsMap` ends up reading: the innermost object of the `hledger`
    chain; none when the payload, or the last `hledger` member, is not an object -/
def target : Json → Option (List (String × Json))
  | .obj kvs =>
    match targetIn kvs with
    | some r => r
    | none => some kvs
  | _ => none
def targetIn : List (String × Json) → Option (Option (List (String × Json)))
  | [] => none
  | (k, v) :: r => if k = "hledger" then some (target v) else targetIn r
end

/-- what a payload does before normalisation -/
def applyTarget (base : Settings) (j : Json) : Settings :=
  match target j with
  | some kvs => applySettingsMap base kvs
  | none => base

mutual
theorem parse_eq (base : Settings) : ∀ j : Json,
    parseSettingsFromRaw base j = normalize (applyTarget base j)
  | .obj kvs => by
    have h := parseNested_eq base kvs
    unfold parseSettingsFromRaw applyTarget target
    cases hn : parseNested base kvs with
    | none =>
      rw [hn] at h
      have ht : targetIn kvs = none := by
        cases hh : targetIn kvs with
        | none => rfl
        | some t => rw [hh] at h; simp at h
      simp only [ht]
    | some r =>
      rw [hn] at h
      cases ht : targetIn kvs with
      | none => rw [ht] at h; simp at h
      | some t =>
        rw [ht] at h
        simp only [Option.map_some, Option.some.injEq] at h
        simp only [h]
  | .null => by unfold parseSettingsFromRaw applyTarget target; rfl
  | .bool _ => by unfold parseSettingsFromRaw applyTarget target; rfl
  | .num _ _ => by unfold parseSettingsFromRaw applyTarget target; rfl
  | .str _ => by unfold parseSettingsFromRaw applyTarget target; rfl
  | .arr _ => by unfold parseSettingsFromRaw applyTarget target; rfl
theorem parseNested_eq (base : Settings) : ∀ kvs : List (String × Json),
    parseNested base kvs = (targetIn kvs).map fun t =>
      normalize (match t with | some m => applySettingsMap base m | none => base)
  | [] => by simp [parseNested, targetIn]
  | (k, v) :: r => by
    unfold parseNested targetIn
    by_cases hk : k = "hledger"
    · simp only [hk, if_true, Option.map_some]
      rw [parse_eq base v]
      rfl
    · simp only [hk, if_false]
      exact parseNested_eq base r
end

end HL.Lemmas.Settings
