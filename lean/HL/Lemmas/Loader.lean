/-
  Helper lemmas for C10 / C11 about the model `HL.Loader`:
  the cache as an association list; termination of `loadF` (`loadF_some`); the cache stays
  consistent with the disk (`loadF_cons`); with the cache-descent repair the result of a load
  does not depend on a consistent cache (`loadF_rel`).
-/
import HL.Model.Loader
import HL.Spec.Reach
namespace HL.Lemmas.Loader
open HL HL.Loader

/-! ### The cache as a map -/
theorem find_filter_ne (c : Cache) (p q : Path) (h : q ≠ p) :
    (c.filter (·.1 != p)).find? (·.1 == q) = c.find? (·.1 == q) := by
  induction c with
  | nil => rfl
  | cons x xs ih =>
    simp only [List.filter_cons]
    by_cases hx : x.1 = p
    · have h1 : (x.1 != p) = false := by simp [hx]
      have h2 : (x.1 == q) = false := by
        simp only [beq_eq_false_iff_ne]; intro e; exact h (e ▸ hx)
      simp only [h1, List.find?_cons, h2]; exact ih
    · have h1 : (x.1 != p) = true := by simp [hx]
      simp only [h1, if_true, List.find?_cons]; rw [ih]

theorem find_filter_eq (c : Cache) (p : Path) :
    (c.filter (·.1 != p)).find? (·.1 == p) = none := by
  induction c with
  | nil => rfl
  | cons x xs ih =>
    simp only [List.filter_cons]
    by_cases hx : x.1 = p
    · have h1 : (x.1 != p) = false := by simp [hx]
      simp only [h1]; exact ih
    · have h1 : (x.1 != p) = true := by simp [hx]
      have h2 : (x.1 == p) = false := by simp [hx]
      simp only [h1, if_true, List.find?_cons, h2]; exact ih

theorem get_set (c : Cache) (p q : Path) (f : File) :
    (c.set p f).get q = if q = p then some f else c.get q := by
  unfold Cache.set Cache.get
  by_cases h : q = p
  · subst h; simp
  · have hb : (p == q) = false := by simp only [beq_eq_false_iff_ne]; exact fun e => h e.symm
    simp only [List.find?_cons, hb, h, if_false]
    rw [find_filter_ne c p q h]

theorem get_del (c : Cache) (p q : Path) :
    (c.del p).get q = if q = p then none else c.get q := by
  unfold Cache.del Cache.get
  by_cases h : q = p
  · subst h; simp only [if_true]; rw [find_filter_eq]; rfl
  · simp only [h, if_false]; rw [find_filter_ne c p q h]

/-! ### Termination -/

section
variable (fs : FS) (lim : Limits) (m : Mode)

abbrev Rec := Path → File → List Path → Nat → St → Option LoadOut

/-- the recursive call terminates (and only adds to `seen`) whenever it is actually made -/
def Good (rec : Rec) (depth K : Nat) : Prop :=
  ∀ p f stk st1, K ≤ st1.seen.length → ¬ (m.depth = true ∧ depth + 1 ≥ lim.maxDepth) →
    ∃ r es st', rec p f stk (depth + 1) st1 = some (r, es, st') ∧ st1.seen.length ≤ st'.seen.length

theorem descend_some (rec : Rec) (depth K : Nat) (h : Good lim m rec depth K)
    (rng : Rng) (p : Path) (f : File) (stk : List Path) (a : Acc) (ha : K ≤ a.st.seen.length) :
    ∃ a', descend lim m rec rng p f stk depth a = some a' ∧ a.st.seen.length ≤ a'.st.seen.length := by
  unfold descend
  split
  · exact ⟨_, rfl, Nat.le_refl _⟩
  · rename_i hc
    have hc' : ¬ (m.depth = true ∧ depth + 1 ≥ lim.maxDepth) := by
      simpa using hc
    obtain ⟨r, es, st', e, hle⟩ := h p f stk a.st ha hc'
    rw [e]
    cases r with
    | none => exact ⟨_, rfl, hle⟩
    | some sub =>
      refine ⟨_, rfl, ?_⟩
      simp only
      split <;> exact hle

theorem single_some (rec : Rec) (depth K : Nat) (h : Good lim m rec depth K)
    (base : Path) (rng : Rng) (p : Path) (stk : List Path) (a : Acc) (ha : K ≤ a.st.seen.length) :
    ∃ a', single fs lim m rec base rng p stk depth a = some a' ∧ a.st.seen.length ≤ a'.st.seen.length := by
  unfold single
  simp only
  split
  · exact ⟨_, rfl, Nat.le_refl _⟩
  split
  · exact ⟨_, rfl, Nat.le_refl _⟩
  split
  · exact ⟨_, rfl, Nat.le_refl _⟩
  split
  · split
    · exact descend_some lim m rec depth K h rng p _ stk a ha
    · exact ⟨_, rfl, Nat.le_refl _⟩
  · split
    · exact ⟨_, rfl, Nat.le_refl _⟩
    · split
      · exact ⟨_, rfl, Nat.le_refl _⟩
      · split
        · exact descend_some lim m rec depth K h rng p _ stk _ ha
        · exact descend_some lim m rec depth K h rng p _ stk a ha

theorem runItems_some (rec : Rec) (depth K : Nat) (h : Good lim m rec depth K)
    (base : Path) (stk : List Path) (its : List Item) (a : Acc) (ha : K ≤ a.st.seen.length) :
    ∃ a', runItems fs lim m rec base stk depth its a = some a' ∧ a.st.seen.length ≤ a'.st.seen.length := by
  induction its generalizing a with
  | nil => exact ⟨a, rfl, Nat.le_refl _⟩
  | cons it rest ih =>
    cases it with
    | err e =>
      simp only [runItems]
      exact ih (a.addErr e) ha
    | tgt rng p =>
      simp only [runItems]
      obtain ⟨a1, e1, h1⟩ := single_some fs lim m rec depth K h base rng p stk a ha
      rw [e1]
      obtain ⟨a2, e2, h2⟩ := ih a1 (Nat.le_trans ha h1)
      exact ⟨a2, e2, Nat.le_trans h1 h2⟩

/-- the termination measure: nesting depth (repaired) or number of files visited (pinned) -/
def mu (depth : Nat) (st : St) : Nat := if m.depth then depth else st.seen.length

theorem loadF_some : ∀ (fuel : Nat) (path : Path) (file : File) (stk : List Path) (depth : Nat) (st : St),
    1 ≤ fuel → lim.maxDepth + 1 ≤ fuel + mu m depth st →
    ∃ r es st', loadF fs lim m fuel path file stk depth st = some (r, es, st') ∧
      st.seen.length ≤ st'.seen.length := by
  intro fuel
  induction fuel with
  | zero => intro _ _ _ _ _ h; omega
  | succ fuel ih =>
    intro path file stk depth st _ hmu
    unfold loadF
    split
    · exact ⟨_, _, _, rfl, Nat.le_refl _⟩
    · rename_i hc
      have good : Good lim m (loadF fs lim m fuel) depth (st.seen.length + 1) := by
        intro p f stk' st1 hK hd
        unfold mu at hmu
        have : 1 ≤ fuel ∧ lim.maxDepth + 1 ≤ fuel + mu m (depth + 1) st1 := by
          unfold mu
          by_cases hm : m.depth = true
          · simp only [hm, if_true] at hmu ⊢
            have : ¬ depth + 1 ≥ lim.maxDepth := fun x => hd ⟨hm, x⟩
            omega
          · simp only [hm] at hmu hc ⊢
            simp at hc
            have hf : (false = true) = False := by simp
            simp only [hf, if_false] at hmu ⊢
            omega
        exact ih p f stk' (depth + 1) st1 this.1 this.2
      simp only
      obtain ⟨a', e, hle⟩ := runItems_some fs lim m (loadF fs lim m fuel) depth (st.seen.length + 1) good
        path (path :: stk) (items fs path file)
        ⟨⟨file, [], []⟩, file.perrs.map (parseErr path), { st with seen := path :: st.seen }⟩ (by simp)
      rw [e]
      refine ⟨_, _, _, rfl, ?_⟩
      simp at hle
      omega
end


/-! ### The cache stays consistent with the disk -/

section
variable (fs : FS) (lim : Limits) (m : Mode)

/-- Every cache entry is the parse of the file as it is on disk, and within the size limit. -/
def Cons (c : Cache) : Prop := ∀ p f, c.get p = some f → fs p = some f ∧ f.size ≤ lim.maxSize

theorem Cons.set {c : Cache} (h : Cons fs lim c) {p : Path} {f : File} (h1 : fs p = some f)
    (h2 : f.size ≤ lim.maxSize) : Cons fs lim (c.set p f) := by
  intro q g hq
  rw [get_set] at hq
  by_cases e : q = p
  · simp only [e, if_true, Option.some.injEq] at hq; subst hq; subst e; exact ⟨h1, h2⟩
  · simp only [e, if_false] at hq; exact h q g hq

/-- the recursive call keeps the cache consistent and returns the file it was given as `Primary` -/
def RecCons (rec : Rec) : Prop :=
  ∀ p f stk d st r es st', Cons fs lim st.cache → rec p f stk d st = some (r, es, st') →
    Cons fs lim st'.cache ∧ ∀ sub, r = some sub → sub.primary = f

theorem descend_cons (rec : Rec) (h : RecCons fs lim rec) (rng : Rng) (p : Path) (f : File)
    (stk : List Path) (depth : Nat) (a a' : Acc) (hf : fs p = some f ∧ f.size ≤ lim.maxSize)
    (ha : Cons fs lim a.st.cache) (e : descend lim m rec rng p f stk depth a = some a') :
    Cons fs lim a'.st.cache ∧ a'.res.primary = a.res.primary := by
  unfold descend at e
  split at e
  · simp only [Option.some.injEq] at e; subst e; exact ⟨ha, rfl⟩
  · split at e
    · exact absurd e (by simp)
    · rename_i es st' er
      simp only [Option.some.injEq] at e; subst e
      exact ⟨(h _ _ _ _ _ _ _ _ ha er).1, rfl⟩
    · rename_i sub es st' er
      simp only [Option.some.injEq] at e; subst e
      obtain ⟨hc, hp⟩ := h _ _ _ _ _ _ _ _ ha er
      refine ⟨?_, rfl⟩
      simp only
      split
      · exact hc
      · rw [hp sub rfl]; exact hc.set fs lim hf.1 hf.2

theorem single_cons (rec : Rec) (h : RecCons fs lim rec) (base : Path) (rng : Rng) (p : Path)
    (stk : List Path) (depth : Nat) (a a' : Acc)
    (ha : Cons fs lim a.st.cache) (e : single fs lim m rec base rng p stk depth a = some a') :
    Cons fs lim a'.st.cache ∧ a'.res.primary = a.res.primary := by
  unfold single at e
  simp only at e
  split at e
  · simp only [Option.some.injEq] at e; subst e; exact ⟨ha, rfl⟩
  split at e
  · simp only [Option.some.injEq] at e; subst e; exact ⟨ha, rfl⟩
  split at e
  · simp only [Option.some.injEq] at e; subst e; exact ⟨ha, rfl⟩
  split at e
  · rename_i cf hcf
    split at e
    · exact descend_cons fs lim m rec h rng p cf stk depth a a' (ha p cf hcf) ha e
    · simp only [Option.some.injEq] at e; subst e; exact ⟨ha, rfl⟩
  · split at e
    · simp only [Option.some.injEq] at e; subst e; exact ⟨ha, rfl⟩
    · rename_i f hf
      split at e
      · simp only [Option.some.injEq] at e; subst e; exact ⟨ha, rfl⟩
      · rename_i hs
        have hs' : f.size ≤ lim.maxSize := Nat.le_of_not_lt hs
        have hcons : Cons fs lim (if m.descend = true then
            { a with st := { a.st with cache := a.st.cache.set p f } } else a).st.cache := by
          split
          · exact ha.set fs lim hf hs'
          · exact ha
        obtain ⟨c1, p1⟩ := descend_cons fs lim m rec h rng p f stk depth _ a' ⟨hf, hs'⟩ hcons e
        refine ⟨c1, p1.trans ?_⟩
        split <;> rfl

theorem runItems_cons (rec : Rec) (h : RecCons fs lim rec) (base : Path) (stk : List Path) (depth : Nat)
    (its : List Item) (a a' : Acc) (ha : Cons fs lim a.st.cache)
    (e : runItems fs lim m rec base stk depth its a = some a') :
    Cons fs lim a'.st.cache ∧ a'.res.primary = a.res.primary := by
  induction its generalizing a with
  | nil => simp only [runItems, Option.some.injEq] at e; subst e; exact ⟨ha, rfl⟩
  | cons it rest ih =>
    cases it with
    | err x => simp only [runItems] at e; exact ih (a.addErr x) ha e
    | tgt rng p =>
      simp only [runItems] at e
      split at e
      · exact absurd e (by simp)
      · rename_i a1 e1
        obtain ⟨c1, p1⟩ := single_cons fs lim m rec h base rng p stk depth a a1 ha e1
        obtain ⟨c2, p2⟩ := ih a1 c1 e
        exact ⟨c2, p2.trans p1⟩

theorem loadF_cons : ∀ fuel, RecCons fs lim (loadF fs lim m fuel) := by
  intro fuel
  induction fuel with
  | zero => intro p f stk d st r es st' _ e; simp [loadF] at e
  | succ fuel ih =>
    intro p f stk d st r es st' hc e
    unfold loadF at e
    split at e
    · simp only [Option.some.injEq, Prod.mk.injEq] at e
      obtain ⟨e1, _, e3⟩ := e
      subst e3; subst e1
      exact ⟨hc, fun _ h => by simp at h⟩
    · simp only at e
      split at e
      · exact absurd e (by simp)
      · rename_i a ea
        simp only [Option.some.injEq, Prod.mk.injEq] at e
        obtain ⟨e1, _, e3⟩ := e
        obtain ⟨c1, p1⟩ := runItems_cons fs lim m _ ih _ _ _ _ _ a hc ea
        subst e3; subst e1
        refine ⟨c1, ?_⟩
        intro sub hs
        simp only [Option.some.injEq] at hs
        subst hs
        exact p1


/-! ### With `m.descend`, results do not depend on a consistent cache -/

def AccRel (a1 a2 : Acc) : Prop := a1.res = a2.res ∧ a1.errs = a2.errs ∧ a1.st.seen = a2.st.seen

def RelAcc : Option Acc → Option Acc → Prop
  | none, none => True
  | some a1, some a2 => AccRel a1 a2
  | _, _ => False

def RelOut : Option LoadOut → Option LoadOut → Prop
  | none, none => True
  | some (r1, e1, s1), some (r2, e2, s2) => r1 = r2 ∧ e1 = e2 ∧ s1.seen = s2.seen
  | _, _ => False

def RecRel (rec : Rec) : Prop :=
  ∀ p f stk d s1 s2, s1.seen = s2.seen → Cons fs lim s1.cache → Cons fs lim s2.cache →
    RelOut (rec p f stk d s1) (rec p f stk d s2)

theorem descend_rel (hm : m.descend = true) (rec : Rec) (h : RecRel fs lim rec) (rng : Rng) (p : Path) (f : File)
    (stk : List Path) (depth : Nat) (a1 a2 : Acc) (hr : AccRel a1 a2)
    (c1 : Cons fs lim a1.st.cache) (c2 : Cons fs lim a2.st.cache) :
    RelAcc (descend lim m rec rng p f stk depth a1) (descend lim m rec rng p f stk depth a2) := by
  obtain ⟨r1, r2, r3⟩ := hr
  unfold descend
  split
  · simp only [RelAcc, AccRel, Acc.addErr, r1, r2, r3, and_self]
  · have := h p f stk (depth + 1) a1.st a2.st r3 c1 c2
    revert this
    cases rec p f stk (depth + 1) a1.st with
    | none =>
      cases rec p f stk (depth + 1) a2.st with
      | none => intro _; trivial
      | some x => intro hh; exact hh.elim
    | some x =>
      cases rec p f stk (depth + 1) a2.st with
      | none => intro hh; obtain ⟨_, _, _⟩ := x; exact hh.elim
      | some y =>
        obtain ⟨x1, x2, x3⟩ := x
        obtain ⟨y1, y2, y3⟩ := y
        intro hh
        obtain ⟨h1, h2, h3⟩ := hh
        subst h1; subst h2
        cases x1 with
        | none => simp only [RelAcc, AccRel, r1, r2, h3, and_self]
        | some sub => simp only [RelAcc, AccRel, r1, r2, h3, and_self]


theorem RelAcc.refl_of {a1 a2 : Acc} (h : AccRel a1 a2) : RelAcc (some a1) (some a2) := h

theorem single_rel (hm : m.descend = true) (rec : Rec) (h : RecRel fs lim rec)
    (base : Path) (rng : Rng) (p : Path) (stk : List Path) (depth : Nat) (a1 a2 : Acc) (hr : AccRel a1 a2)
    (c1 : Cons fs lim a1.st.cache) (c2 : Cons fs lim a2.st.cache) :
    RelAcc (single fs lim m rec base rng p stk depth a1) (single fs lim m rec base rng p stk depth a2) := by
  have hr' := hr
  obtain ⟨r1, r2, r3⟩ := hr
  unfold single
  simp only [r3, hm, if_true]
  split
  · simp only [RelAcc, AccRel, Acc.addErr, r1, r2, r3, and_self]
  split
  · exact hr'
  split
  · simp only [RelAcc, AccRel, Acc.addErr, r1, r2, r3, and_self]
  -- the file at `p`, whichever way it is obtained
  cases h1 : a1.st.cache.get p with
  | some cf1 =>
    obtain ⟨hf1, hs1⟩ := c1 p cf1 h1
    cases h2 : a2.st.cache.get p with
    | some cf2 =>
      obtain ⟨hf2, _⟩ := c2 p cf2 h2
      have : cf1 = cf2 := by rw [hf1] at hf2; exact Option.some.inj hf2
      subst this
      exact descend_rel fs lim m hm rec h rng p cf1 stk depth a1 a2 hr' c1 c2
    | none =>
      simp only [hf1, Nat.not_lt.mpr hs1, if_false]
      exact descend_rel fs lim m hm rec h rng p cf1 stk depth a1 _ hr' c1 (c2.set fs lim hf1 hs1)
  | none =>
    cases h2 : a2.st.cache.get p with
    | some cf2 =>
      obtain ⟨hf2, hs2⟩ := c2 p cf2 h2
      simp only [hf2, Nat.not_lt.mpr hs2, if_false]
      exact descend_rel fs lim m hm rec h rng p cf2 stk depth _ a2 ⟨r1, r2, rfl⟩ (c1.set fs lim hf2 hs2) c2
    | none =>
      cases hf : fs p with
      | none => simp only [RelAcc, AccRel, Acc.addErr, r1, r2, r3, and_self]
      | some f =>
        simp only
        split
        · simp only [RelAcc, AccRel, Acc.addErr, r1, r2, r3, and_self]
        · rename_i hs
          have hs' : f.size ≤ lim.maxSize := Nat.le_of_not_lt hs
          exact descend_rel fs lim m hm rec h rng p f stk depth _ _ ⟨r1, r2, rfl⟩ (c1.set fs lim hf hs') (c2.set fs lim hf hs')

theorem runItems_rel (hm : m.descend = true) (rec : Rec) (h : RecRel fs lim rec) (hc : RecCons fs lim rec)
    (base : Path) (stk : List Path) (depth : Nat) (its : List Item) (a1 a2 : Acc) (hr : AccRel a1 a2)
    (c1 : Cons fs lim a1.st.cache) (c2 : Cons fs lim a2.st.cache) :
    RelAcc (runItems fs lim m rec base stk depth its a1) (runItems fs lim m rec base stk depth its a2) := by
  induction its generalizing a1 a2 with
  | nil => exact hr
  | cons it rest ih =>
    cases it with
    | err x =>
      simp only [runItems]
      exact ih _ _ ⟨hr.1, by simp only [Acc.addErr, hr.2.1], hr.2.2⟩ c1 c2
    | tgt rng p =>
      simp only [runItems]
      have hs := single_rel fs lim m hm rec h base rng p stk depth a1 a2 hr c1 c2
      cases e1 : single fs lim m rec base rng p stk depth a1 with
      | none =>
        cases e2 : single fs lim m rec base rng p stk depth a2 with
        | none => trivial
        | some y => rw [e1, e2] at hs; exact hs.elim
      | some x =>
        cases e2 : single fs lim m rec base rng p stk depth a2 with
        | none => rw [e1, e2] at hs; exact hs.elim
        | some y =>
          rw [e1, e2] at hs
          exact ih x y hs (single_cons fs lim m rec hc base rng p stk depth a1 x c1 e1).1
            (single_cons fs lim m rec hc base rng p stk depth a2 y c2 e2).1

theorem loadF_rel (hm : m.descend = true) : ∀ fuel, RecRel fs lim (loadF fs lim m fuel) := by
  intro fuel
  induction fuel with
  | zero => intro p f stk d s1 s2 _ _ _; simp only [loadF, RelOut]
  | succ fuel ih =>
    intro p f stk d s1 s2 hs c1 c2
    unfold loadF
    simp only [hs]
    split
    · simp only [RelOut, hs, and_self]
    · have := runItems_rel fs lim m hm _ ih (loadF_cons fs lim m fuel) p (p :: stk) d (items fs p f)
        ⟨⟨f, [], []⟩, f.perrs.map (parseErr p), { s1 with seen := p :: s2.seen }⟩
        ⟨⟨f, [], []⟩, f.perrs.map (parseErr p), { s2 with seen := p :: s2.seen }⟩
        ⟨rfl, rfl, rfl⟩ c1 c2
      revert this
      cases runItems fs lim m (loadF fs lim m fuel) p (p :: stk) d (items fs p f)
        ⟨⟨f, [], []⟩, f.perrs.map (parseErr p), { s1 with seen := p :: s2.seen }⟩ with
      | none =>
        cases runItems fs lim m (loadF fs lim m fuel) p (p :: stk) d (items fs p f)
          ⟨⟨f, [], []⟩, f.perrs.map (parseErr p), { s2 with seen := p :: s2.seen }⟩ with
        | none => intro _; trivial
        | some y => intro hh; exact hh.elim
      | some x =>
        cases runItems fs lim m (loadF fs lim m fuel) p (p :: stk) d (items fs p f)
          ⟨⟨f, [], []⟩, f.perrs.map (parseErr p), { s2 with seen := p :: s2.seen }⟩ with
        | none => intro hh; exact hh.elim
        | some y =>
          intro hh
          obtain ⟨h1, h2, h3⟩ := hh
          simp only [RelOut, h1, h2, h3, and_self]
end

section
variable (fs : FS) (lim : Limits) (m : Mode)

/-! ### More fuel never changes a result -/

def RecLe (rec rec' : Rec) : Prop := ∀ p f stk d st r, rec p f stk d st = some r → rec' p f stk d st = some r

theorem descend_le (rec rec' : Rec) (h : RecLe rec rec') (rng : Rng) (p : Path) (f : File)
    (stk : List Path) (depth : Nat) (a a' : Acc) (e : descend lim m rec rng p f stk depth a = some a') :
    descend lim m rec' rng p f stk depth a = some a' := by
  unfold descend at e ⊢
  split
  · rename_i hc; simp only [hc, if_true] at e; exact e
  · rename_i hc
    simp only [hc] at e
    cases hr : rec p f stk (depth + 1) a.st with
    | none => rw [hr] at e; simp at e
    | some r => rw [hr] at e; rw [h _ _ _ _ _ _ hr]; exact e

theorem single_le (rec rec' : Rec) (h : RecLe rec rec') (base : Path) (rng : Rng) (p : Path)
    (stk : List Path) (depth : Nat) (a a' : Acc)
    (e : single fs lim m rec base rng p stk depth a = some a') :
    single fs lim m rec' base rng p stk depth a = some a' := by
  unfold single at e ⊢
  simp only at e ⊢
  split
  · rename_i hc; simp only [hc, if_true] at e; exact e
  rename_i hc1
  split
  · rename_i hc; simp only [hc1, hc, if_true] at e; exact e
  rename_i hc2
  split
  · rename_i hc; simp only [hc1, hc2, hc, if_true] at e; exact e
  rename_i hc3
  simp only [hc1, hc2, hc3] at e
  split
  · rename_i cf hcf
    simp only [hcf] at e
    split
    · rename_i hd; simp only [hd, if_true] at e; exact descend_le lim m rec rec' h rng p cf stk depth a a' e
    · rename_i hd; simp only [hd] at e; exact e
  · rename_i hcf
    simp only [hcf] at e
    split
    · rename_i hf; simp only [hf] at e; exact e
    · rename_i f hf
      simp only [hf] at e
      split
      · rename_i hs; simp only [hs, if_true] at e; exact e
      · rename_i hs; simp only [hs, if_false] at e
        exact descend_le lim m rec rec' h rng p f stk depth _ a' e

theorem runItems_le (rec rec' : Rec) (h : RecLe rec rec') (base : Path) (stk : List Path) (depth : Nat)
    (its : List Item) (a a' : Acc) (e : runItems fs lim m rec base stk depth its a = some a') :
    runItems fs lim m rec' base stk depth its a = some a' := by
  induction its generalizing a with
  | nil => exact e
  | cons it rest ih =>
    cases it with
    | err x => simp only [runItems] at e ⊢; exact ih _ e
    | tgt rng p =>
      simp only [runItems] at e ⊢
      cases hs : single fs lim m rec base rng p stk depth a with
      | none => rw [hs] at e; simp at e
      | some a1 =>
        rw [hs] at e
        rw [single_le fs lim m rec rec' h base rng p stk depth a a1 hs]
        exact ih a1 e

theorem loadF_succ : ∀ fuel, RecLe (loadF fs lim m fuel) (loadF fs lim m (fuel + 1)) := by
  intro fuel
  induction fuel with
  | zero => intro p f stk d st r e; simp [loadF] at e
  | succ fuel ih =>
    intro p f stk d st r e
    unfold loadF at e ⊢
    split
    · rename_i hc; simp only [hc, if_true] at e; exact e
    · rename_i hc
      simp only [hc] at e
      simp only at e ⊢
      cases hr : runItems fs lim m (loadF fs lim m fuel) p (p :: stk) d (items fs p f)
          ⟨⟨f, [], []⟩, f.perrs.map (parseErr p), { st with seen := p :: st.seen }⟩ with
      | none => rw [hr] at e; simp at e
      | some a =>
        rw [hr] at e
        rw [runItems_le fs lim m _ _ ih p (p :: stk) d _ _ a hr]
        exact e

theorem loadF_mono (fuel fuel' : Nat) (hle : fuel ≤ fuel') : RecLe (loadF fs lim m fuel) (loadF fs lim m fuel') := by
  induction hle with
  | refl => intro _ _ _ _ _ _ e; exact e
  | step _ ih => intro p f stk d st r e; exact loadF_succ fs lim m _ p f stk d st r (ih p f stk d st r e)
end

section
variable (fs : FS) (lim : Limits) (m : Mode)

/-! ### `Files` and `FileOrder` of a result agree, and `Files` holds the files as they are on disk -/

/-- every entry (visible or shadowed) is the file on disk -/
def AllOK (c : Cache) : Prop := ∀ kv ∈ c, fs kv.1 = some kv.2 ∧ kv.2.size ≤ lim.maxSize

theorem get_mem (c : Cache) (p : Path) (f : File) (h : c.get p = some f) : (p, f) ∈ c := by
  unfold Cache.get at h
  cases hf : c.find? (·.1 == p) with
  | none => rw [hf] at h; simp at h
  | some kv =>
    rw [hf] at h
    simp only [Option.map_some, Option.some.injEq] at h
    have h1 := List.mem_of_find?_eq_some hf
    have h2 := List.find?_some hf
    simp only [beq_iff_eq] at h2
    obtain ⟨k, v⟩ := kv
    simp only at h h2
    subst h; subst h2
    exact h1

theorem mem_get (c : Cache) (p : Path) (f : File) (h : (p, f) ∈ c) : (c.get p).isSome = true := by
  unfold Cache.get
  cases hf : c.find? (·.1 == p) with
  | none =>
    have := List.find?_eq_none.mp hf (p, f) h
    simp at this
  | some kv => rfl

theorem AllOK.set {c : Cache} (h : AllOK fs lim c) {p : Path} {f : File} (h1 : fs p = some f)
    (h2 : f.size ≤ lim.maxSize) : AllOK fs lim (c.set p f) := by
  intro kv hkv
  unfold Cache.set at hkv
  simp only [List.mem_cons, List.mem_filter] at hkv
  rcases hkv with hkv | hkv
  · subst hkv; exact ⟨h1, h2⟩
  · exact h kv hkv.1

theorem AllOK.cons {c : Cache} (h : AllOK fs lim c) : Cons fs lim c := by
  intro p f hp
  exact h (p, f) (get_mem c p f hp)

theorem AllOK.foldl (l : Cache) (hl : AllOK fs lim l) (c : Cache) (hc : AllOK fs lim c) :
    AllOK fs lim (l.foldl (fun c kv => c.set kv.1 kv.2) c) := by
  induction l generalizing c with
  | nil => exact hc
  | cons kv rest ih =>
    simp only [List.foldl_cons]
    apply ih (fun x hx => hl x (List.mem_cons_of_mem _ hx))
    exact hc.set fs lim (hl kv List.mem_cons_self).1 (hl kv List.mem_cons_self).2

theorem isSome_foldl (l : Cache) (c : Cache) (q : Path) :
    ((l.foldl (fun c kv => c.set kv.1 kv.2) c).get q).isSome = true ↔
      (c.get q).isSome = true ∨ ∃ f, (q, f) ∈ l := by
  induction l generalizing c with
  | nil => simp
  | cons kv rest ih =>
    simp only [List.foldl_cons, ih, get_set, List.mem_cons]
    constructor
    · rintro (h | ⟨f, hf⟩)
      · by_cases e : q = kv.1
        · exact Or.inr ⟨kv.2, Or.inl (by rw [e])⟩
        · simp only [e, if_false] at h; exact Or.inl h
      · exact Or.inr ⟨f, Or.inr hf⟩
    · rintro (h | ⟨f, hf | hf⟩)
      · by_cases e : q = kv.1
        · left; simp [e]
        · left; simp only [e, if_false]; exact h
      · left
        have : q = kv.1 := by rw [← hf]
        simp [this]
      · exact Or.inr ⟨f, hf⟩

/-- `Files` has an entry exactly for the files of `FileOrder` -/
def KeysEq (r : Res) : Prop := ∀ q, (r.files.get q).isSome = true ↔ q ∈ r.order

def FilesInv (r : Res) : Prop := AllOK fs lim r.files ∧ KeysEq r

theorem merge_inv (r : Res) (p : Path) (f : File) (sub : Res) (hr : FilesInv fs lim r)
    (hs : FilesInv fs lim sub) (hf : fs p = some f ∧ f.size ≤ lim.maxSize) :
    FilesInv fs lim (r.merge p f sub) := by
  refine ⟨?_, ?_⟩
  · exact AllOK.foldl fs lim sub.files hs.1 _ (hr.1.set fs lim hf.1 hf.2)
  · intro q
    simp only [Res.merge, isSome_foldl, get_set, List.mem_append, List.mem_cons]
    constructor
    · rintro (h | ⟨g, hg⟩)
      · by_cases e : q = p
        · exact Or.inr (Or.inl e)
        · simp only [e, if_false] at h; exact Or.inl ((hr.2 q).mp h)
      · exact Or.inr (Or.inr ((hs.2 q).mp (mem_get _ _ _ hg)))
    · rintro (h | h | h)
      · left
        by_cases e : q = p
        · simp [e]
        · simp only [e, if_false]; exact (hr.2 q).mpr h
      · left; simp [h]
      · right
        have := (hs.2 q).mpr h
        cases hg : sub.files.get q with
        | none => rw [hg] at this; simp at this
        | some g => exact ⟨g, get_mem _ _ _ hg⟩

def RecFiles (rec : Rec) : Prop :=
  ∀ p f stk d st sub es st', Cons fs lim st.cache → rec p f stk d st = some (some sub, es, st') →
    FilesInv fs lim sub

theorem descend_files (rec : Rec) (hc : RecCons fs lim rec) (h : RecFiles fs lim rec) (rng : Rng)
    (p : Path) (f : File) (stk : List Path) (depth : Nat) (a a' : Acc)
    (hf : fs p = some f ∧ f.size ≤ lim.maxSize) (ha : Cons fs lim a.st.cache)
    (hi : FilesInv fs lim a.res) (e : descend lim m rec rng p f stk depth a = some a') :
    FilesInv fs lim a'.res := by
  unfold descend at e
  split at e
  · simp only [Option.some.injEq] at e; subst e; exact hi
  · split at e
    · exact absurd e (by simp)
    · simp only [Option.some.injEq] at e; subst e; exact hi
    · rename_i sub es st' er
      simp only [Option.some.injEq] at e; subst e
      have hp := (hc _ _ _ _ _ _ _ _ ha er).2 sub rfl
      rw [hp]
      exact merge_inv fs lim a.res p f sub hi (h _ _ _ _ _ _ _ _ ha er) hf

theorem single_files (rec : Rec) (hc : RecCons fs lim rec) (h : RecFiles fs lim rec) (base : Path)
    (rng : Rng) (p : Path) (stk : List Path) (depth : Nat) (a a' : Acc)
    (ha : Cons fs lim a.st.cache) (hi : FilesInv fs lim a.res)
    (e : single fs lim m rec base rng p stk depth a = some a') : FilesInv fs lim a'.res := by
  unfold single at e
  simp only at e
  split at e
  · simp only [Option.some.injEq] at e; subst e; exact hi
  split at e
  · simp only [Option.some.injEq] at e; subst e; exact hi
  split at e
  · simp only [Option.some.injEq] at e; subst e; exact hi
  split at e
  · rename_i cf hcf
    split at e
    · exact descend_files fs lim m rec hc h rng p cf stk depth a a' (ha p cf hcf) ha hi e
    · simp only [Option.some.injEq] at e; subst e
      obtain ⟨c1, c2⟩ := ha p cf hcf
      refine ⟨hi.1.set fs lim c1 c2, ?_⟩
      intro q
      simp only [get_set, List.mem_append, List.mem_singleton]
      by_cases eq : q = p
      · simp [eq]
      · simp only [eq, if_false, or_false]; exact hi.2 q
  · split at e
    · simp only [Option.some.injEq] at e; subst e; exact hi
    · rename_i f hf
      split at e
      · simp only [Option.some.injEq] at e; subst e; exact hi
      · rename_i hs
        have hs' : f.size ≤ lim.maxSize := Nat.le_of_not_lt hs
        have hcons : Cons fs lim (if m.descend = true then
            { a with st := { a.st with cache := a.st.cache.set p f } } else a).st.cache := by
          split
          · exact ha.set fs lim hf hs'
          · exact ha
        have hi' : FilesInv fs lim (if m.descend = true then
            { a with st := { a.st with cache := a.st.cache.set p f } } else a).res := by
          split <;> exact hi
        exact descend_files fs lim m rec hc h rng p f stk depth _ a' ⟨hf, hs'⟩ hcons hi' e

theorem runItems_files (rec : Rec) (hc : RecCons fs lim rec) (h : RecFiles fs lim rec) (base : Path)
    (stk : List Path) (depth : Nat) (its : List Item) (a a' : Acc)
    (ha : Cons fs lim a.st.cache) (hi : FilesInv fs lim a.res)
    (e : runItems fs lim m rec base stk depth its a = some a') : FilesInv fs lim a'.res := by
  induction its generalizing a with
  | nil => simp only [runItems, Option.some.injEq] at e; subst e; exact hi
  | cons it rest ih =>
    cases it with
    | err x => simp only [runItems] at e; exact ih (a.addErr x) ha hi e
    | tgt rng p =>
      simp only [runItems] at e
      split at e
      · exact absurd e (by simp)
      · rename_i a1 e1
        exact ih a1 (single_cons fs lim m rec hc base rng p stk depth a a1 ha e1).1
          (single_files fs lim m rec hc h base rng p stk depth a a1 ha hi e1) e

theorem loadF_files : ∀ fuel, RecFiles fs lim (loadF fs lim m fuel) := by
  intro fuel
  induction fuel with
  | zero => intro p f stk d st sub es st' _ e; simp [loadF] at e
  | succ fuel ih =>
    intro p f stk d st sub es st' hc e
    unfold loadF at e
    split at e
    · simp at e
    · simp only at e
      split at e
      · exact absurd e (by simp)
      · rename_i a ea
        simp only [Option.some.injEq, Prod.mk.injEq] at e
        obtain ⟨e1, _, _⟩ := e
        subst e1
        refine runItems_files fs lim m _ (loadF_cons fs lim m fuel) ih _ _ _ _ _ a hc ?_ ea
        exact ⟨fun kv hkv => by simp at hkv, fun q => by simp [Cache.get]⟩
end

end HL.Lemmas.Loader
