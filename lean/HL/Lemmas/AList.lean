/-
  Association lists (`HL.Index.AList`, the model of Go maps), `isort` (sort.Strings) and
  `dedup`: lookup / update lemmas, uniqueness of sorted key lists.
-/
import HL.Model.Index
namespace HL.Lemmas.AList
open HL.Index

variable {α : Type}

/-! ### get / set / erase -/

@[simp] theorem get_nil (k : String) : AList.get ([] : AList α) k = none := rfl

theorem get_cons (k' : String) (v : α) (r : AList α) (k : String) :
    AList.get ((k', v) :: r) k = if k' = k then some v else AList.get r k := rfl

theorem get_set (m : AList α) (k : String) (v : α) (k' : String) :
    (m.set k v).get k' = if k = k' then some v else m.get k' := by
  induction m with
  | nil => simp [AList.set, get_cons]
  | cons e r ih =>
    obtain ⟨a, b⟩ := e
    unfold AList.set
    by_cases h : a = k
    · subst h
      by_cases h2 : a = k' <;> simp [get_cons, h2]
    · simp only [h, if_false, get_cons, ih]
      by_cases h2 : a = k'
      · subst h2
        have : ¬ k = a := fun e => h e.symm
        simp [this]
      · simp [h2]

theorem get_set_self (m : AList α) (k : String) (v : α) : (m.set k v).get k = some v := by
  simp [get_set]

theorem get_set_ne (m : AList α) (k : String) (v : α) (k' : String) (h : k ≠ k') :
    (m.set k v).get k' = m.get k' := by
  simp [get_set, h]

theorem get_erase (m : AList α) (k k' : String) :
    (m.erase k).get k' = if k = k' then none else m.get k' := by
  induction m with
  | nil => simp [AList.erase]
  | cons e r ih =>
    obtain ⟨a, b⟩ := e
    unfold AList.erase at *
    by_cases h : a = k
    · subst h
      simp only [List.filter_cons, ne_eq, not_true_eq_false, decide_false, Bool.false_eq_true,
        if_false, ih, get_cons]
      by_cases h2 : a = k' <;> simp [h2]
    · simp only [List.filter_cons, ne_eq, h, not_false_eq_true, decide_true, if_true, get_cons, ih]
      by_cases h2 : a = k'
      · subst h2; simp [Ne.symm h]
      · simp [h2]

theorem get_erase_self (m : AList α) (k : String) : (m.erase k).get k = none := by
  simp [get_erase]

theorem get_erase_ne (m : AList α) (k k' : String) (h : k ≠ k') :
    (m.erase k).get k' = m.get k' := by
  simp [get_erase, h]

theorem getD_set (m : AList α) (k : String) (v : α) (k' : String) (d : α) :
    (m.set k v).getD k' d = if k = k' then v else m.getD k' d := by
  unfold AList.getD
  rw [get_set]
  by_cases h : k = k' <;> simp [h]

theorem getD_erase (m : AList α) (k k' : String) (d : α) :
    (m.erase k).getD k' d = if k = k' then d else m.getD k' d := by
  unfold AList.getD
  rw [get_erase]
  by_cases h : k = k' <;> simp [h]

/-! ### keys -/

theorem mem_keys_iff (m : AList α) (k : String) : k ∈ m.keys ↔ (m.get k).isSome := by
  induction m with
  | nil => simp [AList.keys]
  | cons e r ih =>
    obtain ⟨a, b⟩ := e
    simp only [AList.keys, List.map_cons, List.mem_cons, get_cons] at *
    by_cases h : a = k
    · simp [h]
    · simp only [h, if_false]
      rw [← ih]
      constructor
      · rintro (h1 | h1)
        · exact absurd h1.symm h
        · exact h1
      · exact Or.inr

theorem get_eq_none_iff (m : AList α) (k : String) : m.get k = none ↔ k ∉ m.keys := by
  rw [mem_keys_iff]; cases m.get k <;> simp

theorem get_mem (m : AList α) (k : String) (v : α) (h : m.get k = some v) : (k, v) ∈ m := by
  induction m with
  | nil => simp at h
  | cons e r ih =>
    obtain ⟨a, b⟩ := e
    rw [get_cons] at h
    by_cases h2 : a = k
    · simp only [h2, if_true, Option.some.injEq] at h
      subst h2; subst h; exact List.mem_cons_self
    · simp only [h2, if_false] at h
      exact List.mem_cons_of_mem _ (ih h)

theorem mem_get_of_nodup (m : AList α) (k : String) (v : α) (hn : m.keys.Nodup)
    (h : (k, v) ∈ m) : m.get k = some v := by
  induction m with
  | nil => simp at h
  | cons e r ih =>
    obtain ⟨a, b⟩ := e
    simp only [AList.keys, List.map_cons, List.nodup_cons] at hn
    rw [get_cons]
    rcases List.mem_cons.mp h with h1 | h1
    · simp only [Prod.mk.injEq] at h1
      simp [h1.1, h1.2]
    · have : k ∈ r.map (·.1) := List.mem_map.mpr ⟨(k, v), h1, rfl⟩
      have hne : a ≠ k := fun e => hn.1 (e ▸ this)
      simp only [hne, if_false]
      exact ih hn.2 h1

theorem keys_set_of_mem (m : AList α) (k : String) (v : α) (h : k ∈ m.keys) :
    (m.set k v).keys = m.keys := by
  induction m with
  | nil => simp [AList.keys] at h
  | cons e r ih =>
    obtain ⟨a, b⟩ := e
    unfold AList.set
    by_cases h2 : a = k
    · simp [h2, AList.keys]
    · simp only [h2, if_false, AList.keys, List.map_cons, List.cons.injEq, true_and]
      simp only [AList.keys, List.map_cons, List.mem_cons] at h
      rcases h with h | h
      · exact absurd h.symm h2
      · exact ih h

theorem keys_set_of_not_mem (m : AList α) (k : String) (v : α) (h : k ∉ m.keys) :
    (m.set k v).keys = m.keys ++ [k] := by
  induction m with
  | nil => simp [AList.keys, AList.set]
  | cons e r ih =>
    obtain ⟨a, b⟩ := e
    simp only [AList.keys, List.map_cons, List.mem_cons, not_or] at h
    unfold AList.set
    have h2 : a ≠ k := fun e => h.1 e.symm
    simp only [h2, if_false, AList.keys, List.map_cons, List.cons_append, List.cons.injEq, true_and]
    exact ih h.2

theorem set_of_not_mem (m : AList α) (k : String) (v : α) (h : k ∉ m.keys) :
    m.set k v = m ++ [(k, v)] := by
  induction m with
  | nil => simp [AList.set]
  | cons e r ih =>
    obtain ⟨a, b⟩ := e
    simp only [AList.keys, List.map_cons, List.mem_cons, not_or] at h
    unfold AList.set
    have h2 : a ≠ k := fun e => h.1 e.symm
    simp only [h2, if_false, List.cons_append, List.cons.injEq, true_and]
    exact ih h.2

theorem mem_keys_set (m : AList α) (k : String) (v : α) (k' : String) :
    k' ∈ (m.set k v).keys ↔ k' = k ∨ k' ∈ m.keys := by
  rw [mem_keys_iff, mem_keys_iff, get_set]
  by_cases h : k = k'
  · simp [h]
  · simp only [h, if_false]
    constructor
    · exact Or.inr
    · rintro (h1 | h1)
      · exact absurd h1.symm h
      · exact h1

theorem nodup_keys_set (m : AList α) (k : String) (v : α) (hn : m.keys.Nodup) :
    (m.set k v).keys.Nodup := by
  by_cases h : k ∈ m.keys
  · rw [keys_set_of_mem m k v h]; exact hn
  · rw [keys_set_of_not_mem m k v h]
    rw [List.nodup_append]
    refine ⟨hn, by simp, ?_⟩
    intro a ha b hb
    simp only [List.mem_singleton] at hb
    subst hb
    exact fun e => h (e ▸ ha)

theorem keys_erase (m : AList α) (k : String) : (m.erase k).keys = m.keys.filter (· ≠ k) := by
  induction m with
  | nil => rfl
  | cons e r ih =>
    obtain ⟨a, b⟩ := e
    simp only [AList.erase, AList.keys] at *
    by_cases h : a = k
    · simp only [List.filter_cons, h, ne_eq, not_true_eq_false, decide_false, Bool.false_eq_true,
        if_false, List.map_cons]
      exact ih
    · simp only [List.filter_cons, h, ne_eq, not_false_eq_true, decide_true, if_true, List.map_cons]
      rw [ih]

theorem mem_keys_erase (m : AList α) (k k' : String) :
    k' ∈ (m.erase k).keys ↔ k' ≠ k ∧ k' ∈ m.keys := by
  rw [keys_erase]; simp [List.mem_filter, and_comm]

theorem nodup_keys_erase (m : AList α) (k : String) (hn : m.keys.Nodup) :
    (m.erase k).keys.Nodup := by
  rw [keys_erase]; exact hn.filter _

theorem erase_of_not_mem (m : AList α) (k : String) (h : k ∉ m.keys) : m.erase k = m := by
  unfold AList.erase
  rw [List.filter_eq_self]
  intro e he
  have : e.1 ∈ m.keys := List.mem_map.mpr ⟨e, he, rfl⟩
  simp only [ne_eq, decide_eq_true_eq]
  exact fun h2 => h (h2 ▸ this)

/-- decomposition of a map with unique keys around one key -/
theorem perm_erase_cons (m : AList α) (k : String) (v : α) (hn : m.keys.Nodup)
    (h : m.get k = some v) : m.Perm ((k, v) :: m.erase k) := by
  induction m with
  | nil => simp at h
  | cons e r ih =>
    obtain ⟨a, b⟩ := e
    simp only [AList.keys, List.map_cons, List.nodup_cons] at hn
    rw [get_cons] at h
    by_cases h2 : a = k
    · simp only [h2, if_true, Option.some.injEq] at h
      subst h2; subst h
      have : a ∉ AList.keys r := hn.1
      have e1 : AList.erase ((a, b) :: r) a = r := by
        unfold AList.erase
        simp only [List.filter_cons, ne_eq, not_true_eq_false, decide_false, Bool.false_eq_true, if_false]
        exact erase_of_not_mem r a this
      rw [e1]
    · simp only [h2, if_false] at h
      have e1 : AList.erase ((a, b) :: r) k = (a, b) :: AList.erase r k := by
        unfold AList.erase
        simp [List.filter_cons, h2]
      rw [e1]
      exact ((ih hn.2 h).cons (a, b)).trans (List.Perm.swap _ _ _)

/-! ### isort -/

theorem ins_perm (a : String) (l : List String) : (ins a l).Perm (a :: l) := by
  induction l with
  | nil => simp [ins]
  | cons b r ih =>
    unfold ins
    by_cases h : a ≤ b
    · simp [h]
    · simp only [h, if_false]
      exact (ih.cons b).trans (List.Perm.swap _ _ _)

theorem isort_perm (l : List String) : (isort l).Perm l := by
  induction l with
  | nil => simp [isort]
  | cons a r ih =>
    simp only [isort, List.foldr_cons] at *
    exact (ins_perm a _).trans (ih.cons a)

@[simp] theorem mem_isort (l : List String) (a : String) : a ∈ isort l ↔ a ∈ l :=
  (isort_perm l).mem_iff

theorem ins_sorted (a : String) (l : List String) (h : l.Pairwise (· ≤ ·)) :
    (ins a l).Pairwise (· ≤ ·) := by
  induction l with
  | nil => simp [ins]
  | cons b r ih =>
    unfold ins
    rw [List.pairwise_cons] at h
    by_cases hab : a ≤ b
    · simp only [hab, if_true]
      rw [List.pairwise_cons]
      refine ⟨?_, List.pairwise_cons.mpr h⟩
      intro c hc
      rcases List.mem_cons.mp hc with hc | hc
      · exact hc ▸ hab
      · exact String.le_trans hab (h.1 c hc)
    · simp only [hab, if_false]
      rw [List.pairwise_cons]
      refine ⟨?_, ih h.2⟩
      intro c hc
      rcases List.mem_cons.mp ((ins_perm a r).mem_iff.mp hc) with hc | hc
      · subst hc
        rcases String.le_total c b with h1 | h1
        · exact absurd h1 hab
        · exact h1
      · exact h.1 c hc

theorem isort_sorted (l : List String) : (isort l).Pairwise (· ≤ ·) := by
  induction l with
  | nil => simp [isort]
  | cons a r ih =>
    simp only [isort, List.foldr_cons] at *
    exact ins_sorted a _ ih

/-- `sort.Strings` is determined by the multiset: any two sorted permutations are equal. -/
theorem isort_unique (l₁ l₂ : List String) (h : l₁.Perm l₂) : isort l₁ = isort l₂ := by
  apply List.Perm.eq_of_pairwise (le := (· ≤ ·))
  · intro a b _ _ h1 h2; exact String.le_antisymm h1 h2
  · exact isort_sorted l₁
  · exact isort_sorted l₂
  · exact (isort_perm l₁).trans (h.trans (isort_perm l₂).symm)

theorem isort_eq_of_sorted (l₁ l₂ : List String) (h : l₁.Perm l₂) (hs : l₂.Pairwise (· ≤ ·)) :
    isort l₁ = l₂ := by
  apply List.Perm.eq_of_pairwise (le := (· ≤ ·))
  · intro a b _ _ h1 h2; exact String.le_antisymm h1 h2
  · exact isort_sorted l₁
  · exact hs
  · exact (isort_perm l₁).trans h

theorem isort_nodup (l : List String) (h : l.Nodup) : (isort l).Nodup :=
  (isort_perm l).nodup_iff.mpr h

/-- two duplicate-free lists with the same elements sort to the same list -/
theorem isort_ext (l₁ l₂ : List String) (h₁ : l₁.Nodup) (h₂ : l₂.Nodup)
    (h : ∀ a, a ∈ l₁ ↔ a ∈ l₂) : isort l₁ = isort l₂ :=
  isort_unique l₁ l₂ ((List.perm_ext_iff_of_nodup h₁ h₂).mpr h)

/-! ### dedup -/

@[simp] theorem mem_dedup (l : List String) (a : String) : a ∈ dedup l ↔ a ∈ l := by
  induction l with
  | nil => simp [dedup]
  | cons b r ih =>
    simp only [dedup, List.mem_cons, List.mem_filter, ih, ne_eq, decide_eq_true_eq]
    constructor
    · rintro (h | ⟨h, _⟩)
      · exact Or.inl h
      · exact Or.inr h
    · rintro (h | h)
      · exact Or.inl h
      · by_cases e : a = b
        · exact Or.inl e
        · exact Or.inr ⟨h, e⟩

theorem dedup_nodup (l : List String) : (dedup l).Nodup := by
  induction l with
  | nil => simp [dedup]
  | cons b r ih =>
    simp only [dedup, List.nodup_cons, List.mem_filter, ne_eq, not_true_eq_false, decide_false,
      Bool.false_eq_true, and_false, not_false_eq_true, true_and]
    exact ih.filter _

theorem dedup_eq_self (l : List String) (h : l.Nodup) : dedup l = l := by
  induction l with
  | nil => rfl
  | cons b r ih =>
    rw [List.nodup_cons] at h
    simp only [dedup, ih h.2, List.cons.injEq, true_and]
    rw [List.filter_eq_self]
    intro a ha
    simp only [ne_eq, decide_eq_true_eq]
    exact fun e => h.1 (e ▸ ha)

theorem nodup_of_dedup_eq (l : List String) (h : l = dedup l) : l.Nodup := by
  rw [h]; exact dedup_nodup l

end HL.Lemmas.AList
