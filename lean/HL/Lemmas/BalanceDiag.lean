import HL.Model.BalanceDiag
import HL.Lemmas.Balance
/-!
  Helper lemmas for the journal-level balance analysis (`Balance.analyzeTxs`):
  finite-map facts (`find?` against membership under unique keys), the message order
  (`sortedDifferences` holds the same map), and a lower bound for the decimal exponents that
  `sumByCommodity` can produce (needed to read the printed numbers back:
  `Num.toString_roundtrip` wants the exponent inside int32).
-/
namespace HL
namespace KV

theorem mem_of_find? {β} (m : List (Bytes × β)) (c : Bytes) (v : β) (h : find? m c = some v) : (c, v) ∈ m := by
  induction m with
  | nil => simp [find?] at h
  | cons a r ih =>
    obtain ⟨k, w⟩ := a
    by_cases hk : k = c
    · simp only [find?, hk, if_true, Option.some.injEq] at h
      subst h; subst hk
      exact List.mem_cons_self
    · simp only [find?, hk, if_false] at h
      exact List.mem_cons_of_mem _ (ih h)

theorem find?_of_mem {β} (m : List (Bytes × β)) (hn : (keys m).Nodup) (c : Bytes) (v : β) (h : (c, v) ∈ m) :
    find? m c = some v := by
  induction m with
  | nil => cases h
  | cons a r ih =>
    obtain ⟨k, w⟩ := a
    simp only [keys, List.map_cons, List.nodup_cons] at hn
    simp only [List.mem_cons] at h
    rcases h with h | h
    · cases h
      simp [find?]
    · have hk : k ≠ c := by
        intro e
        subst e
        exact hn.1 (List.mem_map.2 ⟨(k, v), h, rfl⟩)
      simp only [find?, hk, if_false]
      exact ih hn.2 h

theorem mem_set {β} (m : List (Bytes × β)) (k : Bytes) (v : β) (kv : Bytes × β) (h : kv ∈ set m k v) :
    kv = (k, v) ∨ kv ∈ m := by
  induction m with
  | nil =>
    simp only [set, List.mem_singleton] at h
    exact Or.inl h
  | cons a r ih =>
    obtain ⟨k', v'⟩ := a
    unfold set at h
    split at h
    · simp only [List.mem_cons] at h
      rcases h with h | h
      · exact Or.inl h
      · exact Or.inr (List.mem_cons_of_mem _ h)
    · simp only [List.mem_cons] at h
      rcases h with h | h
      · exact Or.inr (h ▸ List.mem_cons_self)
      · rcases ih h with h | h
        · exact Or.inl h
        · exact Or.inr (List.mem_cons_of_mem _ h)

theorem get_mem_or_default {β} (m : List (Bytes × β)) (k : Bytes) (z : β) :
    get m k z = z ∨ (k, get m k z) ∈ m := by
  induction m with
  | nil => exact Or.inl rfl
  | cons a r ih =>
    obtain ⟨k', v'⟩ := a
    unfold get
    split
    · rename_i hk
      subst hk
      exact Or.inr List.mem_cons_self
    · rcases ih with h | h
      · exact Or.inl h
      · exact Or.inr (List.mem_cons_of_mem _ h)

end KV

namespace Balance
open Ast

/-! ### exponents -/

theorem add_exp_lower (a b : Dec) (B : Int) (ha : B ≤ a.exp) (hb : B ≤ b.exp) : B ≤ (Dec.add a b).exp := by
  unfold Dec.add Dec.rescalePair
  simp only
  split
  · exact ha
  · split
    · simp only [Dec.rescale_exp]; exact hb
    · exact ha

/-- Without costs every summand of `sumByCommodity` is an amount's own quantity, and a sum of
    decimals has the smallest of their exponents: nothing below `B` can appear. -/
theorem sum_exp_lower (l : List Posting) (m m' : Sums) (h : sumByCommodity l m = some m')
    (B : Int) (hB : B ≤ 0) (hm : ∀ kv ∈ m, B ≤ kv.2.exp)
    (hl : ∀ p ∈ l, ∀ k q, contribution p = some (some (k, q)) → B ≤ q.exp) :
    ∀ kv ∈ m', B ≤ kv.2.exp := by
  induction l generalizing m with
  | nil =>
    simp only [sumByCommodity, Option.some.injEq] at h
    subst h
    exact hm
  | cons p r ih =>
    unfold sumByCommodity at h
    cases hc : contribution p with
    | none =>
      simp only [hc] at h
      exact ih m h hm (fun p' hp' => hl p' (List.mem_cons_of_mem _ hp'))
    | some o =>
      cases o with
      | none => simp [hc] at h
      | some kq =>
        obtain ⟨k, q⟩ := kq
        simp only [hc] at h
        refine ih _ h ?_ (fun p' hp' => hl p' (List.mem_cons_of_mem _ hp'))
        intro kv hkv
        rcases KV.mem_set m k _ kv hkv with e | e
        · subst e
          simp only
          apply add_exp_lower
          · rcases KV.get_mem_or_default m k Dec.zero with e | e
            · rw [e]; exact hB
            · exact hm _ e
          · exact hl p List.mem_cons_self k q hc
        · exact hm kv e

theorem mem_differencesOf (sums : Sums) (kv : Bytes × Dec) (h : kv ∈ differencesOf sums) :
    ∃ v0, (kv.1, v0) ∈ sums ∧ kv.2 = Dec.abs v0 := by
  unfold differencesOf at h
  obtain ⟨a, ha, hf⟩ := List.mem_filterMap.1 h
  obtain ⟨k, v⟩ := a
  simp only at hf
  split at hf
  · cases hf
  · cases hf
    exact ⟨v, ha, rfl⟩

/-! ### the order of the message -/

theorem insertSorted_perm' (k : Bytes) (l : List Bytes) : (KV.insertSorted k l).Perm (k :: l) := by
  induction l with
  | nil => exact List.Perm.refl _
  | cons x r ih =>
    unfold KV.insertSorted
    split
    · exact List.Perm.refl _
    · exact (List.Perm.cons x ih).trans (List.Perm.swap k x r)

theorem sortStrings_perm' (l : List Bytes) : (KV.sortStrings l).Perm l := by
  induction l with
  | nil => exact List.Perm.refl _
  | cons x r ih =>
    unfold KV.sortStrings
    rw [List.foldr_cons]
    exact (insertSorted_perm' x _).trans (List.Perm.cons x ih)

theorem keys_sortedDifferences (d : Sums) : KV.keys (sortedDifferences d) = KV.sortStrings (KV.keys d) := by
  unfold sortedDifferences KV.keys
  rw [List.map_map]
  have : ((fun x : Bytes × Dec => x.1) ∘ fun k => (k, KV.get d k Dec.zero)) = id := by funext k; rfl
  rw [this, List.map_id]

/-- sorting the commodities for the message changes nothing in the map the message names -/
theorem find?_sortedDifferences (d : Sums) (hn : (KV.keys d).Nodup) (c : Bytes) :
    KV.find? (sortedDifferences d) c = KV.find? d c := by
  have hk := keys_sortedDifferences d
  have hperm : (KV.keys (sortedDifferences d)).Perm (KV.keys d) := by rw [hk]; exact sortStrings_perm' _
  have hn' : (KV.keys (sortedDifferences d)).Nodup := hperm.nodup_iff.2 hn
  cases hf : KV.find? d c with
  | none =>
    apply KV.find?_none_of_not_mem
    intro hc
    have : c ∈ KV.keys d := hperm.mem_iff.1 hc
    obtain ⟨kv, hkv, e⟩ := List.mem_map.1 this
    obtain ⟨k, v⟩ := kv
    simp only at e
    subst e
    rw [KV.find?_of_mem d hn k v hkv] at hf
    cases hf
  | some v =>
    apply KV.find?_of_mem _ hn'
    have hc : c ∈ KV.sortStrings (KV.keys d) :=
      (sortStrings_perm' _).mem_iff.2 (KV.mem_keys_of_find? d c v hf)
    unfold sortedDifferences
    refine List.mem_map.2 ⟨c, hc, ?_⟩
    rw [KV.get_eq_find?, hf]
    rfl

theorem mem_sortedDifferences (d : Sums) (kv : Bytes × Dec) (h : kv ∈ sortedDifferences d) (hn : (KV.keys d).Nodup) :
    kv ∈ d := by
  obtain ⟨k, v⟩ := kv
  have hperm : (KV.keys (sortedDifferences d)).Perm (KV.keys d) := by
    rw [keys_sortedDifferences]; exact sortStrings_perm' _
  have := KV.find?_of_mem _ (hperm.nodup_iff.2 hn) k v h
  rw [find?_sortedDifferences d hn] at this
  exact KV.mem_of_find? d k v this

end Balance
end HL
