import HL.Lemmas.ParserSync
/-
  Shift equivariance on token lists: the parser does not look at positions, it only copies
  them.  If every token of the stream is moved by `d` (lines / bytes inserted in front of it),
  every position in the result — syntax-tree ranges, error positions, the tag ranges computed
  by `parseTags` — is moved by `d`, and nothing else changes.  Positions with line 0 are the
  parser's "not set" placeholders (`ast.Range{}` ends that Go leaves zero, and the EOF an
  exhausted list answers with); they stay as they are.

      f LE (shiftSt d st) = (d.<result> (f LE st).1, shiftSt d (f LE st).2)      LE = listEnv num cls
-/
namespace HL.Parser
open HL HL.Ast

/-- Lines and bytes inserted in front of a region of the file, and `perLine` more bytes in front
    of a position for every line end that precedes it (`perLine = 1`: every LF of the region
    became CR LF; `perLine = 0`: a plain shift). -/
structure Shift where
  dl : Nat
  doff : Nat
  perLine : Nat := 0

namespace Shift
variable (d : Shift)

def pos (p : Pos) : Pos :=
  if p.line = 0 then p else ⟨p.line + d.dl, p.col, p.off + d.doff + d.perLine * (p.line - 1)⟩
def rng (r : Rng) : Rng := ⟨d.pos r.start, d.pos r.stop⟩
def tok (t : Token) : Token := ⟨t.ty, t.val, d.pos t.pos, d.pos t.stop⟩
def tag (t : Tag) : Tag := ⟨t.name, t.value, d.rng t.range⟩
def comment (c : Comment) : Comment := ⟨c.text, c.tags.map d.tag, d.rng c.range⟩
def date (x : Date) : Date := ⟨x.year, x.month, x.day, d.rng x.range⟩
def account (a : Account) : Account := ⟨a.name, d.rng a.range⟩
def commodity (c : Commodity) : Commodity := ⟨c.symbol, c.side, d.rng c.range⟩
def amount (a : Amount) : Amount := ⟨a.quantity, a.raw, d.commodity a.commodity, a.signBeforeCommodity, d.rng a.range⟩
def cost (c : Cost) : Cost := ⟨d.amount c.amount, c.isTotal, d.rng c.range⟩
def assertion (a : Assertion) : Assertion := ⟨d.amount a.amount, a.isStrict, a.isInclusive, d.rng a.range⟩
def posting (p : Posting) : Posting :=
  ⟨p.status, d.account p.account, p.amount.map d.amount, p.assertion.map d.assertion, p.cost.map d.cost,
   p.comment, p.tags.map d.tag, p.virt, d.rng p.range⟩
def tx (t : Transaction) : Transaction :=
  ⟨d.date t.date, t.date2.map d.date, t.status, t.code, t.description, t.payee, t.note,
   t.postings.map d.posting, t.tags.map d.tag, t.comments.map d.comment, d.rng t.range⟩
def incl (i : Include) : Include := ⟨i.path, d.rng i.range⟩
def dir : Directive → Directive
  | .account a tags c sub r => .account (d.account a) (tags.map d.tag) c sub (d.rng r)
  | .commodity c f n sub r => .commodity (d.commodity c) f n sub (d.rng r)
  | .price dt c p r => .price (d.date dt) (d.commodity c) (d.amount p) (d.rng r)
  | .year y r => .year y (d.rng r)
  | .defaultCommodity s f r => .defaultCommodity s f (d.rng r)
def perr (e : ParseError) : ParseError := ⟨e.msg, d.pos e.pos⟩
def dirResult : DirResult → DirResult
  | .none => .none
  | .incl i => .incl (d.incl i)
  | .dir x => .dir (d.dir x)
def item : Item → Item
  | .nothing => .nothing
  | .comment c => .comment (d.comment c)
  | .tx t => .tx (d.tx t)
  | .incl i => .incl (d.incl i)
  | .dir x => .dir (d.dir x)
def journal (j : Journal) : Journal :=
  ⟨j.transactions.map d.tx, j.directives.map d.dir, j.comments.map d.comment, j.includes.map d.incl⟩

@[simp] theorem pos_zero : d.pos Pos.zero = Pos.zero := rfl
@[simp] theorem rng_zero : d.rng Rng.zero = Rng.zero := rfl
@[simp] theorem commodity_empty : d.commodity emptyCommodity = emptyCommodity := rfl
@[simp] theorem tok_eof : d.tok eofToken = eofToken := rfl
@[simp, grind =] theorem tok_ty (t : Token) : (d.tok t).ty = t.ty := rfl
@[simp, grind =] theorem tok_val (t : Token) : (d.tok t).val = t.val := rfl
@[simp, grind =] theorem tok_pos (t : Token) : (d.tok t).pos = d.pos t.pos := rfl
@[simp, grind =] theorem tok_stop (t : Token) : (d.tok t).stop = d.pos t.stop := rfl
end Shift

variable (num : NumDeps) (cls : Classes) (d : Shift)

/-- The state with every position moved: the tokens still to come, the current token and the
    errors recorded so far. -/
def shiftSt (st : PState (List Token)) : PState (List Token) :=
  ⟨st.src.map d.tok, d.tok st.current, st.errors.map d.perr, st.defaultYear⟩

@[simp, grind =] theorem shiftSt_current (st : PState (List Token)) : (shiftSt d st).current = d.tok st.current := rfl
@[simp, grind =] theorem shiftSt_ty (st : PState (List Token)) : (shiftSt d st).current.ty = st.current.ty := rfl
@[simp, grind =] theorem shiftSt_val (st : PState (List Token)) : (shiftSt d st).current.val = st.current.val := rfl
@[simp, grind =] theorem shiftSt_pos (st : PState (List Token)) : (shiftSt d st).current.pos = d.pos st.current.pos := rfl
@[simp, grind =] theorem shiftSt_stop (st : PState (List Token)) : (shiftSt d st).current.stop = d.pos st.current.stop := rfl
@[simp, grind =] theorem shiftSt_dy (st : PState (List Token)) : (shiftSt d st).defaultYear = st.defaultYear := rfl
@[simp, grind =] theorem advance_shift (st : PState (List Token)) :
    advance (listEnv num cls) (shiftSt d st) = shiftSt d (advance (listEnv num cls) st) := by
  cases st with
  | mk src cur errs dy => cases src <;> simp [advance, shiftSt, listEnv, listSrc]
@[simp, grind =] theorem fuelOf_shift (st : PState (List Token)) :
    fuelOf (listEnv num cls) (shiftSt d st) = fuelOf (listEnv num cls) st := by
  simp [fuelOf, shiftSt, listEnv, listSrc]
@[simp, grind =] theorem errorAt_shift (st : PState (List Token)) (p m) :
    errorAt (shiftSt d st) (d.pos p) m = shiftSt d (errorAt st p m) := by
  simp [errorAt, shiftSt, Shift.perr]
@[simp, grind =] theorem error_shift (st : PState (List Token)) (m) :
    error (shiftSt d st) m = shiftSt d (error st m) := by
  simp [error]
@[simp, grind =] theorem setYear_shift (st : PState (List Token)) (y : Int) :
    ({ shiftSt d st with defaultYear := y } : PState (List Token)) = shiftSt d { st with defaultYear := y } := rfl
@[simp, grind =] theorem isLineEnd_shift (t : Token) : isLineEnd (d.tok t) = isLineEnd t := rfl
@[simp, grind =] theorem ofDir_shift (x : Option Directive) :
    DirResult.ofDir (x.map d.dir) = d.dirResult (DirResult.ofDir x) := by cases x <;> rfl

/-! ### tags: the only place where positions are computed -/

theorem parseTagPart_shift (text : Bytes) (base : Pos) (s : Nat) (part : Bytes) :
    parseTagPart text (d.pos base) s part = (parseTagPart text base s part).map (fun r => (d.tag r.1, r.2)) := by
  unfold parseTagPart
  simp only []
  split
  · rfl
  · split
    · rfl
    · split
      · rfl
      · simp only [Option.map_some, Option.some.injEq, Prod.mk.injEq, and_true]
        unfold Shift.tag Shift.rng Shift.pos
        by_cases h : base.line = 0
        · simp [h]
        · simp [h]; omega

theorem parseTagsLoop_shift (text : Bytes) (base : Pos) (parts : List Bytes) (s : Nat) :
    parseTagsLoop text (d.pos base) parts s = (parseTagsLoop text base parts s).map d.tag := by
  induction parts generalizing s with
  | nil => rfl
  | cons p r ih =>
    unfold parseTagsLoop
    rw [parseTagPart_shift]
    cases h : parseTagPart text base s p with
    | none => simp [ih]
    | some x => simp [ih]

@[simp, grind =] theorem parseTags_shift (text : Bytes) (base : Pos) :
    parseTags text (d.pos base) = (parseTags text base).map d.tag := by
  unfold parseTags
  split
  · rfl
  · exact parseTagsLoop_shift d text base _ 0

/-! ### one lemma per parse function -/

@[simp, grind =] theorem parseComment_shift (st : PState (List Token)) :
    parseComment (listEnv num cls) (shiftSt d st) =
      (d.comment (parseComment (listEnv num cls) st).1, shiftSt d (parseComment (listEnv num cls) st).2) := by
  simp [parseComment, Shift.comment, Shift.rng, toRange]

@[simp, grind =] theorem parseDate_shift (st : PState (List Token)) :
    parseDate (listEnv num cls) (shiftSt d st) = (Option.map d.date (parseDate (listEnv num cls) st).1, shiftSt d (parseDate (listEnv num cls) st).2) := by
  fun_cases parseDate (listEnv num cls) st <;> (unfold parseDate; (try simp +zetaDelta only [] at *) <;> (first | grind [Shift.date, Shift.rng, Shift.commodity, Shift.amount, Shift.cost, Shift.assertion, Shift.posting, Shift.tx, Shift.account, Shift.incl, Shift.dir, Shift.comment, Shift.item, Shift.dirResult, toRange, emptyCommodity, DirResult.ofDir] | (simp_all [Shift.date, Shift.rng, Shift.commodity, Shift.amount, Shift.cost, Shift.assertion, Shift.posting, Shift.tx, Shift.account, Shift.incl, Shift.dir, Shift.comment, Shift.item, Shift.dirResult, toRange, emptyCommodity, DirResult.ofDir]; done) | (simp_all <;> grind [Shift.date, Shift.rng, Shift.commodity, Shift.amount, Shift.cost, Shift.assertion, Shift.posting, Shift.tx, Shift.account, Shift.incl, Shift.dir, Shift.comment, Shift.item, Shift.dirResult, toRange, emptyCommodity, DirResult.ofDir])))

@[simp, grind =] theorem parseStatus_shift (st : PState (List Token)) :
    parseStatus (listEnv num cls) (shiftSt d st) = (id (parseStatus (listEnv num cls) st).1, shiftSt d (parseStatus (listEnv num cls) st).2) := by
  fun_cases parseStatus (listEnv num cls) st <;> (unfold parseStatus; (try simp +zetaDelta only [] at *) <;> (first | grind [Shift.date, Shift.rng, Shift.commodity, Shift.amount, Shift.cost, Shift.assertion, Shift.posting, Shift.tx, Shift.account, Shift.incl, Shift.dir, Shift.comment, Shift.item, Shift.dirResult, toRange, emptyCommodity, DirResult.ofDir] | (simp_all [Shift.date, Shift.rng, Shift.commodity, Shift.amount, Shift.cost, Shift.assertion, Shift.posting, Shift.tx, Shift.account, Shift.incl, Shift.dir, Shift.comment, Shift.item, Shift.dirResult, toRange, emptyCommodity, DirResult.ofDir]; done) | (simp_all <;> grind [Shift.date, Shift.rng, Shift.commodity, Shift.amount, Shift.cost, Shift.assertion, Shift.posting, Shift.tx, Shift.account, Shift.incl, Shift.dir, Shift.comment, Shift.item, Shift.dirResult, toRange, emptyCommodity, DirResult.ofDir])))

@[simp, grind =] theorem amountLeadSign_shift (st : PState (List Token)) :
    amountLeadSign (listEnv num cls) (shiftSt d st) = (id (amountLeadSign (listEnv num cls) st).1, shiftSt d (amountLeadSign (listEnv num cls) st).2) := by
  fun_cases amountLeadSign (listEnv num cls) st <;> (unfold amountLeadSign; (try simp +zetaDelta only [] at *) <;> (first | grind [Shift.date, Shift.rng, Shift.commodity, Shift.amount, Shift.cost, Shift.assertion, Shift.posting, Shift.tx, Shift.account, Shift.incl, Shift.dir, Shift.comment, Shift.item, Shift.dirResult, toRange, emptyCommodity, DirResult.ofDir] | (simp_all [Shift.date, Shift.rng, Shift.commodity, Shift.amount, Shift.cost, Shift.assertion, Shift.posting, Shift.tx, Shift.account, Shift.incl, Shift.dir, Shift.comment, Shift.item, Shift.dirResult, toRange, emptyCommodity, DirResult.ofDir]; done) | (simp_all <;> grind [Shift.date, Shift.rng, Shift.commodity, Shift.amount, Shift.cost, Shift.assertion, Shift.posting, Shift.tx, Shift.account, Shift.incl, Shift.dir, Shift.comment, Shift.item, Shift.dirResult, toRange, emptyCommodity, DirResult.ofDir])))

@[simp, grind =] theorem amountLeftCommodity_shift (sg : Bytes) (sb : Bool) (st : PState (List Token)) :
    amountLeftCommodity (listEnv num cls) sg sb (shiftSt d st) = ((fun r => (d.commodity r.1, r.2)) (amountLeftCommodity (listEnv num cls) sg sb st).1, shiftSt d (amountLeftCommodity (listEnv num cls) sg sb st).2) := by
  fun_cases amountLeftCommodity (listEnv num cls) sg sb st <;> (unfold amountLeftCommodity; (try simp +zetaDelta only [] at *) <;> (first | grind [Shift.date, Shift.rng, Shift.commodity, Shift.amount, Shift.cost, Shift.assertion, Shift.posting, Shift.tx, Shift.account, Shift.incl, Shift.dir, Shift.comment, Shift.item, Shift.dirResult, toRange, emptyCommodity, DirResult.ofDir] | (simp_all [Shift.date, Shift.rng, Shift.commodity, Shift.amount, Shift.cost, Shift.assertion, Shift.posting, Shift.tx, Shift.account, Shift.incl, Shift.dir, Shift.comment, Shift.item, Shift.dirResult, toRange, emptyCommodity, DirResult.ofDir]; done) | (simp_all <;> grind [Shift.date, Shift.rng, Shift.commodity, Shift.amount, Shift.cost, Shift.assertion, Shift.posting, Shift.tx, Shift.account, Shift.incl, Shift.dir, Shift.comment, Shift.item, Shift.dirResult, toRange, emptyCommodity, DirResult.ofDir])))

@[simp, grind =] theorem amountSecondSign_shift (sg : Bytes) (st : PState (List Token)) :
    amountSecondSign (listEnv num cls) sg (shiftSt d st) = (id (amountSecondSign (listEnv num cls) sg st).1, shiftSt d (amountSecondSign (listEnv num cls) sg st).2) := by
  fun_cases amountSecondSign (listEnv num cls) sg st <;> (unfold amountSecondSign; (try simp +zetaDelta only [] at *) <;> (first | grind [Shift.date, Shift.rng, Shift.commodity, Shift.amount, Shift.cost, Shift.assertion, Shift.posting, Shift.tx, Shift.account, Shift.incl, Shift.dir, Shift.comment, Shift.item, Shift.dirResult, toRange, emptyCommodity, DirResult.ofDir] | (simp_all [Shift.date, Shift.rng, Shift.commodity, Shift.amount, Shift.cost, Shift.assertion, Shift.posting, Shift.tx, Shift.account, Shift.incl, Shift.dir, Shift.comment, Shift.item, Shift.dirResult, toRange, emptyCommodity, DirResult.ofDir]; done) | (simp_all <;> grind [Shift.date, Shift.rng, Shift.commodity, Shift.amount, Shift.cost, Shift.assertion, Shift.posting, Shift.tx, Shift.account, Shift.incl, Shift.dir, Shift.comment, Shift.item, Shift.dirResult, toRange, emptyCommodity, DirResult.ofDir])))

@[simp, grind =] theorem amountRightCommodity_shift (c : Commodity) (stop : Pos) (st : PState (List Token)) :
    amountRightCommodity (listEnv num cls) (d.commodity c) (d.pos stop) (shiftSt d st) = ((d.commodity (amountRightCommodity (listEnv num cls) c stop st).1.1, d.pos (amountRightCommodity (listEnv num cls) c stop st).1.2), shiftSt d (amountRightCommodity (listEnv num cls) c stop st).2) := by
  fun_cases amountRightCommodity (listEnv num cls) c stop st <;> (unfold amountRightCommodity; (try simp +zetaDelta only [] at *) <;> (first | grind [Shift.date, Shift.rng, Shift.commodity, Shift.amount, Shift.cost, Shift.assertion, Shift.posting, Shift.tx, Shift.account, Shift.incl, Shift.dir, Shift.comment, Shift.item, Shift.dirResult, toRange, emptyCommodity, DirResult.ofDir] | (simp_all [Shift.date, Shift.rng, Shift.commodity, Shift.amount, Shift.cost, Shift.assertion, Shift.posting, Shift.tx, Shift.account, Shift.incl, Shift.dir, Shift.comment, Shift.item, Shift.dirResult, toRange, emptyCommodity, DirResult.ofDir]; done) | (simp_all <;> grind [Shift.date, Shift.rng, Shift.commodity, Shift.amount, Shift.cost, Shift.assertion, Shift.posting, Shift.tx, Shift.account, Shift.incl, Shift.dir, Shift.comment, Shift.item, Shift.dirResult, toRange, emptyCommodity, DirResult.ofDir])))

@[simp, grind =] theorem amountNumber_shift (sp : Pos) (sg : Bytes) (c : Commodity) (sb : Bool) (st : PState (List Token)) :
    amountNumber (listEnv num cls) (d.pos sp) sg (d.commodity c) sb (shiftSt d st) = (Option.map d.amount (amountNumber (listEnv num cls) sp sg c sb st).1, shiftSt d (amountNumber (listEnv num cls) sp sg c sb st).2) := by
  fun_cases amountNumber (listEnv num cls) sp sg c sb st <;> (unfold amountNumber; (try simp +zetaDelta only [] at *) <;> (first | grind [Shift.date, Shift.rng, Shift.commodity, Shift.amount, Shift.cost, Shift.assertion, Shift.posting, Shift.tx, Shift.account, Shift.incl, Shift.dir, Shift.comment, Shift.item, Shift.dirResult, toRange, emptyCommodity, DirResult.ofDir] | (simp_all [Shift.date, Shift.rng, Shift.commodity, Shift.amount, Shift.cost, Shift.assertion, Shift.posting, Shift.tx, Shift.account, Shift.incl, Shift.dir, Shift.comment, Shift.item, Shift.dirResult, toRange, emptyCommodity, DirResult.ofDir]; done) | (simp_all <;> grind [Shift.date, Shift.rng, Shift.commodity, Shift.amount, Shift.cost, Shift.assertion, Shift.posting, Shift.tx, Shift.account, Shift.incl, Shift.dir, Shift.comment, Shift.item, Shift.dirResult, toRange, emptyCommodity, DirResult.ofDir])))

@[simp, grind =] theorem parseAmount_shift (st : PState (List Token)) :
    parseAmount (listEnv num cls) (shiftSt d st) = (Option.map d.amount (parseAmount (listEnv num cls) st).1, shiftSt d (parseAmount (listEnv num cls) st).2) := by
  fun_cases parseAmount (listEnv num cls) st <;> (unfold parseAmount; (try simp +zetaDelta only [] at *) <;> (first | grind [Shift.date, Shift.rng, Shift.commodity, Shift.amount, Shift.cost, Shift.assertion, Shift.posting, Shift.tx, Shift.account, Shift.incl, Shift.dir, Shift.comment, Shift.item, Shift.dirResult, toRange, emptyCommodity, DirResult.ofDir] | (simp_all [Shift.date, Shift.rng, Shift.commodity, Shift.amount, Shift.cost, Shift.assertion, Shift.posting, Shift.tx, Shift.account, Shift.incl, Shift.dir, Shift.comment, Shift.item, Shift.dirResult, toRange, emptyCommodity, DirResult.ofDir]; done) | (simp_all <;> grind [Shift.date, Shift.rng, Shift.commodity, Shift.amount, Shift.cost, Shift.assertion, Shift.posting, Shift.tx, Shift.account, Shift.incl, Shift.dir, Shift.comment, Shift.item, Shift.dirResult, toRange, emptyCommodity, DirResult.ofDir])))

@[simp, grind =] theorem parseCost_shift (st : PState (List Token)) :
    parseCost (listEnv num cls) (shiftSt d st) = (Option.map d.cost (parseCost (listEnv num cls) st).1, shiftSt d (parseCost (listEnv num cls) st).2) := by
  fun_cases parseCost (listEnv num cls) st <;> (unfold parseCost; (try simp +zetaDelta only [] at *) <;> (first | grind [Shift.date, Shift.rng, Shift.commodity, Shift.amount, Shift.cost, Shift.assertion, Shift.posting, Shift.tx, Shift.account, Shift.incl, Shift.dir, Shift.comment, Shift.item, Shift.dirResult, toRange, emptyCommodity, DirResult.ofDir] | (simp_all [Shift.date, Shift.rng, Shift.commodity, Shift.amount, Shift.cost, Shift.assertion, Shift.posting, Shift.tx, Shift.account, Shift.incl, Shift.dir, Shift.comment, Shift.item, Shift.dirResult, toRange, emptyCommodity, DirResult.ofDir]; done) | (simp_all <;> grind [Shift.date, Shift.rng, Shift.commodity, Shift.amount, Shift.cost, Shift.assertion, Shift.posting, Shift.tx, Shift.account, Shift.incl, Shift.dir, Shift.comment, Shift.item, Shift.dirResult, toRange, emptyCommodity, DirResult.ofDir])))

@[simp, grind =] theorem parseBalanceAssertion_shift (st : PState (List Token)) :
    parseBalanceAssertion (listEnv num cls) (shiftSt d st) = (Option.map d.assertion (parseBalanceAssertion (listEnv num cls) st).1, shiftSt d (parseBalanceAssertion (listEnv num cls) st).2) := by
  fun_cases parseBalanceAssertion (listEnv num cls) st <;> (unfold parseBalanceAssertion; (try simp +zetaDelta only [] at *) <;> (first | grind [Shift.date, Shift.rng, Shift.commodity, Shift.amount, Shift.cost, Shift.assertion, Shift.posting, Shift.tx, Shift.account, Shift.incl, Shift.dir, Shift.comment, Shift.item, Shift.dirResult, toRange, emptyCommodity, DirResult.ofDir] | (simp_all [Shift.date, Shift.rng, Shift.commodity, Shift.amount, Shift.cost, Shift.assertion, Shift.posting, Shift.tx, Shift.account, Shift.incl, Shift.dir, Shift.comment, Shift.item, Shift.dirResult, toRange, emptyCommodity, DirResult.ofDir]; done) | (simp_all <;> grind [Shift.date, Shift.rng, Shift.commodity, Shift.amount, Shift.cost, Shift.assertion, Shift.posting, Shift.tx, Shift.account, Shift.incl, Shift.dir, Shift.comment, Shift.item, Shift.dirResult, toRange, emptyCommodity, DirResult.ofDir])))

@[simp, grind =] theorem skipLoopF_shift (n : Nat) (st : PState (List Token)) :
    skipLoopF (listEnv num cls) n (shiftSt d st) = shiftSt d (skipLoopF (listEnv num cls) n st) := by
  induction n generalizing st with
  | zero => rfl
  | succ n ih => unfold skipLoopF; by_cases hl : isLineEnd st.current = true <;> simp [hl, ih]

@[simp, grind =] theorem skipToNextLine_shift (st : PState (List Token)) :
    skipToNextLine (listEnv num cls) (shiftSt d st) = shiftSt d (skipToNextLine (listEnv num cls) st) := by
  unfold skipToNextLine; grind

@[simp, grind =] theorem skipUntilF_shift (b : Bool) (n : Nat) (st : PState (List Token)) :
    skipUntilF (listEnv num cls) b n (shiftSt d st) = shiftSt d (skipUntilF (listEnv num cls) b n st) := by
  induction n generalizing st with
  | zero => rfl
  | succ n ih =>
    unfold skipUntilF
    by_cases hl : (isLineEnd st.current = true ∨ (b = true ∧ st.current.ty = .comment))
    · simp [hl]
    · simp [hl, ih]

@[simp, grind =] theorem subValueF_shift (n : Nat) (st : PState (List Token)) (acc : Bytes) :
    subValueF (listEnv num cls) n (shiftSt d st) acc =
      ((subValueF (listEnv num cls) n st acc).1, shiftSt d (subValueF (listEnv num cls) n st acc).2) := by
  induction n generalizing st acc with
  | zero => rfl
  | succ n ih =>
    unfold subValueF
    by_cases hl : (isLineEnd st.current = true ∨ st.current.ty = .comment)
    · simp [hl]
    · simp [hl, ih]

@[simp, grind =] theorem includePathF_shift (n : Nat) (st : PState (List Token)) (acc : Bytes) :
    includePathF (listEnv num cls) n (shiftSt d st) acc =
      ((includePathF (listEnv num cls) n st acc).1, shiftSt d (includePathF (listEnv num cls) n st acc).2) := by
  induction n generalizing st acc with
  | zero => rfl
  | succ n ih =>
    unfold includePathF
    by_cases hl : (isLineEnd st.current = true ∨ st.current.ty = .comment)
    · simp [hl]
    · simp [hl, ih]

@[simp, grind =] theorem postingOpen_shift (st : PState (List Token)) :
    postingOpen (listEnv num cls) (shiftSt d st) = (id (postingOpen (listEnv num cls) st).1, shiftSt d (postingOpen (listEnv num cls) st).2) := by
  fun_cases postingOpen (listEnv num cls) st <;> (unfold postingOpen; (try simp +zetaDelta only [] at *) <;> (first | grind [Shift.date, Shift.rng, Shift.commodity, Shift.amount, Shift.cost, Shift.assertion, Shift.posting, Shift.tx, Shift.account, Shift.incl, Shift.dir, Shift.comment, Shift.item, Shift.dirResult, toRange, emptyCommodity, DirResult.ofDir] | (simp_all [Shift.date, Shift.rng, Shift.commodity, Shift.amount, Shift.cost, Shift.assertion, Shift.posting, Shift.tx, Shift.account, Shift.incl, Shift.dir, Shift.comment, Shift.item, Shift.dirResult, toRange, emptyCommodity, DirResult.ofDir]; done) | (simp_all <;> grind [Shift.date, Shift.rng, Shift.commodity, Shift.amount, Shift.cost, Shift.assertion, Shift.posting, Shift.tx, Shift.account, Shift.incl, Shift.dir, Shift.comment, Shift.item, Shift.dirResult, toRange, emptyCommodity, DirResult.ofDir])))

@[simp, grind =] theorem lineComment_shift (st : PState (List Token)) :
    lineComment (listEnv num cls) (shiftSt d st) = ((fun r => (r.1, r.2.map d.tag)) (lineComment (listEnv num cls) st).1, shiftSt d (lineComment (listEnv num cls) st).2) := by
  fun_cases lineComment (listEnv num cls) st <;> (unfold lineComment; (try simp +zetaDelta only [] at *) <;> (first | grind [Shift.date, Shift.rng, Shift.commodity, Shift.amount, Shift.cost, Shift.assertion, Shift.posting, Shift.tx, Shift.account, Shift.incl, Shift.dir, Shift.comment, Shift.item, Shift.dirResult, toRange, emptyCommodity, DirResult.ofDir] | (simp_all [Shift.date, Shift.rng, Shift.commodity, Shift.amount, Shift.cost, Shift.assertion, Shift.posting, Shift.tx, Shift.account, Shift.incl, Shift.dir, Shift.comment, Shift.item, Shift.dirResult, toRange, emptyCommodity, DirResult.ofDir]; done) | (simp_all <;> grind [Shift.date, Shift.rng, Shift.commodity, Shift.amount, Shift.cost, Shift.assertion, Shift.posting, Shift.tx, Shift.account, Shift.incl, Shift.dir, Shift.comment, Shift.item, Shift.dirResult, toRange, emptyCommodity, DirResult.ofDir])))

@[simp, grind =] theorem postingClosing_shift (cl : Option TokType) (st : PState (List Token)) :
    postingClosing (listEnv num cls) cl (shiftSt d st) = shiftSt d (postingClosing (listEnv num cls) cl st) := by
  unfold postingClosing; grind

@[simp, grind =] theorem postingAmount_shift (st : PState (List Token)) :
    postingAmount (listEnv num cls) (shiftSt d st) = (Option.map d.amount (postingAmount (listEnv num cls) st).1, shiftSt d (postingAmount (listEnv num cls) st).2) := by
  fun_cases postingAmount (listEnv num cls) st <;> (unfold postingAmount; (try simp +zetaDelta only [] at *) <;> (first | grind [Shift.date, Shift.rng, Shift.commodity, Shift.amount, Shift.cost, Shift.assertion, Shift.posting, Shift.tx, Shift.account, Shift.incl, Shift.dir, Shift.comment, Shift.item, Shift.dirResult, toRange, emptyCommodity, DirResult.ofDir] | (simp_all [Shift.date, Shift.rng, Shift.commodity, Shift.amount, Shift.cost, Shift.assertion, Shift.posting, Shift.tx, Shift.account, Shift.incl, Shift.dir, Shift.comment, Shift.item, Shift.dirResult, toRange, emptyCommodity, DirResult.ofDir]; done) | (simp_all <;> grind [Shift.date, Shift.rng, Shift.commodity, Shift.amount, Shift.cost, Shift.assertion, Shift.posting, Shift.tx, Shift.account, Shift.incl, Shift.dir, Shift.comment, Shift.item, Shift.dirResult, toRange, emptyCommodity, DirResult.ofDir])))

@[simp, grind =] theorem postingCost_shift (st : PState (List Token)) :
    postingCost (listEnv num cls) (shiftSt d st) = (Option.map d.cost (postingCost (listEnv num cls) st).1, shiftSt d (postingCost (listEnv num cls) st).2) := by
  fun_cases postingCost (listEnv num cls) st <;> (unfold postingCost; (try simp +zetaDelta only [] at *) <;> (first | grind [Shift.date, Shift.rng, Shift.commodity, Shift.amount, Shift.cost, Shift.assertion, Shift.posting, Shift.tx, Shift.account, Shift.incl, Shift.dir, Shift.comment, Shift.item, Shift.dirResult, toRange, emptyCommodity, DirResult.ofDir] | (simp_all [Shift.date, Shift.rng, Shift.commodity, Shift.amount, Shift.cost, Shift.assertion, Shift.posting, Shift.tx, Shift.account, Shift.incl, Shift.dir, Shift.comment, Shift.item, Shift.dirResult, toRange, emptyCommodity, DirResult.ofDir]; done) | (simp_all <;> grind [Shift.date, Shift.rng, Shift.commodity, Shift.amount, Shift.cost, Shift.assertion, Shift.posting, Shift.tx, Shift.account, Shift.incl, Shift.dir, Shift.comment, Shift.item, Shift.dirResult, toRange, emptyCommodity, DirResult.ofDir])))

@[simp, grind =] theorem postingAssertion_shift (st : PState (List Token)) :
    postingAssertion (listEnv num cls) (shiftSt d st) = (Option.map d.assertion (postingAssertion (listEnv num cls) st).1, shiftSt d (postingAssertion (listEnv num cls) st).2) := by
  fun_cases postingAssertion (listEnv num cls) st <;> (unfold postingAssertion; (try simp +zetaDelta only [] at *) <;> (first | grind [Shift.date, Shift.rng, Shift.commodity, Shift.amount, Shift.cost, Shift.assertion, Shift.posting, Shift.tx, Shift.account, Shift.incl, Shift.dir, Shift.comment, Shift.item, Shift.dirResult, toRange, emptyCommodity, DirResult.ofDir] | (simp_all [Shift.date, Shift.rng, Shift.commodity, Shift.amount, Shift.cost, Shift.assertion, Shift.posting, Shift.tx, Shift.account, Shift.incl, Shift.dir, Shift.comment, Shift.item, Shift.dirResult, toRange, emptyCommodity, DirResult.ofDir]; done) | (simp_all <;> grind [Shift.date, Shift.rng, Shift.commodity, Shift.amount, Shift.cost, Shift.assertion, Shift.posting, Shift.tx, Shift.account, Shift.incl, Shift.dir, Shift.comment, Shift.item, Shift.dirResult, toRange, emptyCommodity, DirResult.ofDir])))

@[simp, grind =] theorem postingTail_shift (cl : Option TokType) (st : PState (List Token)) :
    postingTail (listEnv num cls) cl (shiftSt d st) = ((fun r => (r.1.map d.amount, r.2.1.map d.cost, r.2.2.1.map d.assertion, r.2.2.2.1, r.2.2.2.2.map d.tag)) (postingTail (listEnv num cls) cl st).1, shiftSt d (postingTail (listEnv num cls) cl st).2) := by
  fun_cases postingTail (listEnv num cls) cl st <;> (unfold postingTail; (try simp +zetaDelta only [] at *) <;> (first | grind [Shift.date, Shift.rng, Shift.commodity, Shift.amount, Shift.cost, Shift.assertion, Shift.posting, Shift.tx, Shift.account, Shift.incl, Shift.dir, Shift.comment, Shift.item, Shift.dirResult, toRange, emptyCommodity, DirResult.ofDir] | (simp_all [Shift.date, Shift.rng, Shift.commodity, Shift.amount, Shift.cost, Shift.assertion, Shift.posting, Shift.tx, Shift.account, Shift.incl, Shift.dir, Shift.comment, Shift.item, Shift.dirResult, toRange, emptyCommodity, DirResult.ofDir]; done) | (simp_all <;> grind [Shift.date, Shift.rng, Shift.commodity, Shift.amount, Shift.cost, Shift.assertion, Shift.posting, Shift.tx, Shift.account, Shift.incl, Shift.dir, Shift.comment, Shift.item, Shift.dirResult, toRange, emptyCommodity, DirResult.ofDir])))

@[simp, grind =] theorem parsePosting_shift (st : PState (List Token)) :
    parsePosting (listEnv num cls) (shiftSt d st) = (Option.map d.posting (parsePosting (listEnv num cls) st).1, shiftSt d (parsePosting (listEnv num cls) st).2) := by
  fun_cases parsePosting (listEnv num cls) st <;> (unfold parsePosting; (try simp +zetaDelta only [] at *) <;> (first | grind [Shift.date, Shift.rng, Shift.commodity, Shift.amount, Shift.cost, Shift.assertion, Shift.posting, Shift.tx, Shift.account, Shift.incl, Shift.dir, Shift.comment, Shift.item, Shift.dirResult, toRange, emptyCommodity, DirResult.ofDir] | (simp_all [Shift.date, Shift.rng, Shift.commodity, Shift.amount, Shift.cost, Shift.assertion, Shift.posting, Shift.tx, Shift.account, Shift.incl, Shift.dir, Shift.comment, Shift.item, Shift.dirResult, toRange, emptyCommodity, DirResult.ofDir]; done) | (simp_all <;> grind [Shift.date, Shift.rng, Shift.commodity, Shift.amount, Shift.cost, Shift.assertion, Shift.posting, Shift.tx, Shift.account, Shift.incl, Shift.dir, Shift.comment, Shift.item, Shift.dirResult, toRange, emptyCommodity, DirResult.ofDir])))

@[simp, grind =] theorem postingsF_shift (n : Nat) (st : PState (List Token)) :
    postingsF (listEnv num cls) n (shiftSt d st) =
      ((postingsF (listEnv num cls) n st).1.map d.posting, shiftSt d (postingsF (listEnv num cls) n st).2) := by
  induction n generalizing st with
  | zero => rfl
  | succ n ih => unfold postingsF; grind

@[simp, grind =] theorem txDescription_shift (st : PState (List Token)) :
    txDescription (listEnv num cls) (shiftSt d st) = (id (txDescription (listEnv num cls) st).1, shiftSt d (txDescription (listEnv num cls) st).2) := by
  fun_cases txDescription (listEnv num cls) st <;> (unfold txDescription; (try simp +zetaDelta only [] at *) <;> (first | grind [Shift.date, Shift.rng, Shift.commodity, Shift.amount, Shift.cost, Shift.assertion, Shift.posting, Shift.tx, Shift.account, Shift.incl, Shift.dir, Shift.comment, Shift.item, Shift.dirResult, toRange, emptyCommodity, DirResult.ofDir] | (simp_all [Shift.date, Shift.rng, Shift.commodity, Shift.amount, Shift.cost, Shift.assertion, Shift.posting, Shift.tx, Shift.account, Shift.incl, Shift.dir, Shift.comment, Shift.item, Shift.dirResult, toRange, emptyCommodity, DirResult.ofDir]; done) | (simp_all <;> grind [Shift.date, Shift.rng, Shift.commodity, Shift.amount, Shift.cost, Shift.assertion, Shift.posting, Shift.tx, Shift.account, Shift.incl, Shift.dir, Shift.comment, Shift.item, Shift.dirResult, toRange, emptyCommodity, DirResult.ofDir])))

@[simp, grind =] theorem txDate2_shift (st : PState (List Token)) :
    txDate2 (listEnv num cls) (shiftSt d st) = (Option.map d.date (txDate2 (listEnv num cls) st).1, shiftSt d (txDate2 (listEnv num cls) st).2) := by
  fun_cases txDate2 (listEnv num cls) st <;> (unfold txDate2; (try simp +zetaDelta only [] at *) <;> (first | grind [Shift.date, Shift.rng, Shift.commodity, Shift.amount, Shift.cost, Shift.assertion, Shift.posting, Shift.tx, Shift.account, Shift.incl, Shift.dir, Shift.comment, Shift.item, Shift.dirResult, toRange, emptyCommodity, DirResult.ofDir] | (simp_all [Shift.date, Shift.rng, Shift.commodity, Shift.amount, Shift.cost, Shift.assertion, Shift.posting, Shift.tx, Shift.account, Shift.incl, Shift.dir, Shift.comment, Shift.item, Shift.dirResult, toRange, emptyCommodity, DirResult.ofDir]; done) | (simp_all <;> grind [Shift.date, Shift.rng, Shift.commodity, Shift.amount, Shift.cost, Shift.assertion, Shift.posting, Shift.tx, Shift.account, Shift.incl, Shift.dir, Shift.comment, Shift.item, Shift.dirResult, toRange, emptyCommodity, DirResult.ofDir])))

@[simp, grind =] theorem txStatus_shift (st : PState (List Token)) :
    txStatus (listEnv num cls) (shiftSt d st) = (id (txStatus (listEnv num cls) st).1, shiftSt d (txStatus (listEnv num cls) st).2) := by
  fun_cases txStatus (listEnv num cls) st <;> (unfold txStatus; (try simp +zetaDelta only [] at *) <;> (first | grind [Shift.date, Shift.rng, Shift.commodity, Shift.amount, Shift.cost, Shift.assertion, Shift.posting, Shift.tx, Shift.account, Shift.incl, Shift.dir, Shift.comment, Shift.item, Shift.dirResult, toRange, emptyCommodity, DirResult.ofDir] | (simp_all [Shift.date, Shift.rng, Shift.commodity, Shift.amount, Shift.cost, Shift.assertion, Shift.posting, Shift.tx, Shift.account, Shift.incl, Shift.dir, Shift.comment, Shift.item, Shift.dirResult, toRange, emptyCommodity, DirResult.ofDir]; done) | (simp_all <;> grind [Shift.date, Shift.rng, Shift.commodity, Shift.amount, Shift.cost, Shift.assertion, Shift.posting, Shift.tx, Shift.account, Shift.incl, Shift.dir, Shift.comment, Shift.item, Shift.dirResult, toRange, emptyCommodity, DirResult.ofDir])))

@[simp, grind =] theorem txCode_shift (st : PState (List Token)) :
    txCode (listEnv num cls) (shiftSt d st) = (id (txCode (listEnv num cls) st).1, shiftSt d (txCode (listEnv num cls) st).2) := by
  fun_cases txCode (listEnv num cls) st <;> (unfold txCode; (try simp +zetaDelta only [] at *) <;> (first | grind [Shift.date, Shift.rng, Shift.commodity, Shift.amount, Shift.cost, Shift.assertion, Shift.posting, Shift.tx, Shift.account, Shift.incl, Shift.dir, Shift.comment, Shift.item, Shift.dirResult, toRange, emptyCommodity, DirResult.ofDir] | (simp_all [Shift.date, Shift.rng, Shift.commodity, Shift.amount, Shift.cost, Shift.assertion, Shift.posting, Shift.tx, Shift.account, Shift.incl, Shift.dir, Shift.comment, Shift.item, Shift.dirResult, toRange, emptyCommodity, DirResult.ofDir]; done) | (simp_all <;> grind [Shift.date, Shift.rng, Shift.commodity, Shift.amount, Shift.cost, Shift.assertion, Shift.posting, Shift.tx, Shift.account, Shift.incl, Shift.dir, Shift.comment, Shift.item, Shift.dirResult, toRange, emptyCommodity, DirResult.ofDir])))

@[simp, grind =] theorem txComment_shift (st : PState (List Token)) :
    txComment (listEnv num cls) (shiftSt d st) = (List.map d.comment (txComment (listEnv num cls) st).1, shiftSt d (txComment (listEnv num cls) st).2) := by
  fun_cases txComment (listEnv num cls) st <;> (unfold txComment; (try simp +zetaDelta only [] at *) <;> (first | grind [Shift.date, Shift.rng, Shift.commodity, Shift.amount, Shift.cost, Shift.assertion, Shift.posting, Shift.tx, Shift.account, Shift.incl, Shift.dir, Shift.comment, Shift.item, Shift.dirResult, toRange, emptyCommodity, DirResult.ofDir] | (simp_all [Shift.date, Shift.rng, Shift.commodity, Shift.amount, Shift.cost, Shift.assertion, Shift.posting, Shift.tx, Shift.account, Shift.incl, Shift.dir, Shift.comment, Shift.item, Shift.dirResult, toRange, emptyCommodity, DirResult.ofDir]; done) | (simp_all <;> grind [Shift.date, Shift.rng, Shift.commodity, Shift.amount, Shift.cost, Shift.assertion, Shift.posting, Shift.tx, Shift.account, Shift.incl, Shift.dir, Shift.comment, Shift.item, Shift.dirResult, toRange, emptyCommodity, DirResult.ofDir])))

@[simp, grind =] theorem txHeader_shift (st : PState (List Token)) :
    txHeader (listEnv num cls) (shiftSt d st) = ((fun r => (r.1.map d.date, r.2.1, r.2.2.1, r.2.2.2.1, r.2.2.2.2.map d.comment)) (txHeader (listEnv num cls) st).1, shiftSt d (txHeader (listEnv num cls) st).2) := by
  fun_cases txHeader (listEnv num cls) st <;> (unfold txHeader; (try simp +zetaDelta only [] at *) <;> (first | grind [Shift.date, Shift.rng, Shift.commodity, Shift.amount, Shift.cost, Shift.assertion, Shift.posting, Shift.tx, Shift.account, Shift.incl, Shift.dir, Shift.comment, Shift.item, Shift.dirResult, toRange, emptyCommodity, DirResult.ofDir] | (simp_all [Shift.date, Shift.rng, Shift.commodity, Shift.amount, Shift.cost, Shift.assertion, Shift.posting, Shift.tx, Shift.account, Shift.incl, Shift.dir, Shift.comment, Shift.item, Shift.dirResult, toRange, emptyCommodity, DirResult.ofDir]; done) | (simp_all <;> grind [Shift.date, Shift.rng, Shift.commodity, Shift.amount, Shift.cost, Shift.assertion, Shift.posting, Shift.tx, Shift.account, Shift.incl, Shift.dir, Shift.comment, Shift.item, Shift.dirResult, toRange, emptyCommodity, DirResult.ofDir])))

@[simp, grind =] theorem parseTransaction_shift (st : PState (List Token)) :
    parseTransaction (listEnv num cls) (shiftSt d st) = (Option.map d.tx (parseTransaction (listEnv num cls) st).1, shiftSt d (parseTransaction (listEnv num cls) st).2) := by
  fun_cases parseTransaction (listEnv num cls) st <;> (unfold parseTransaction; (try simp +zetaDelta only [] at *) <;> (first | grind [Shift.date, Shift.rng, Shift.commodity, Shift.amount, Shift.cost, Shift.assertion, Shift.posting, Shift.tx, Shift.account, Shift.incl, Shift.dir, Shift.comment, Shift.item, Shift.dirResult, toRange, emptyCommodity, DirResult.ofDir] | (simp_all [Shift.date, Shift.rng, Shift.commodity, Shift.amount, Shift.cost, Shift.assertion, Shift.posting, Shift.tx, Shift.account, Shift.incl, Shift.dir, Shift.comment, Shift.item, Shift.dirResult, toRange, emptyCommodity, DirResult.ofDir]; done) | (simp_all <;> grind [Shift.date, Shift.rng, Shift.commodity, Shift.amount, Shift.cost, Shift.assertion, Shift.posting, Shift.tx, Shift.account, Shift.incl, Shift.dir, Shift.comment, Shift.item, Shift.dirResult, toRange, emptyCommodity, DirResult.ofDir])))

@[simp, grind =] theorem parseSubdirectivesF_shift (n : Nat) (st : PState (List Token)) (m : Subdirs) :
    parseSubdirectivesF (listEnv num cls) n (shiftSt d st) m =
      ((parseSubdirectivesF (listEnv num cls) n st m).1, shiftSt d (parseSubdirectivesF (listEnv num cls) n st m).2) := by
  induction n generalizing st m with
  | zero => rfl
  | succ n ih => unfold parseSubdirectivesF; grind

@[simp, grind =] theorem parseSubdirectives_shift (st : PState (List Token)) :
    parseSubdirectives (listEnv num cls) (shiftSt d st) =
      ((parseSubdirectives (listEnv num cls) st).1, shiftSt d (parseSubdirectives (listEnv num cls) st).2) := by
  unfold parseSubdirectives; grind

@[simp, grind =] theorem directiveCommodity_shift (t : Token) :
    directiveCommodity (d.tok t) = d.commodity (directiveCommodity t) := by
  unfold directiveCommodity
  by_cases h : t.ty = .commodity <;> simp [h, Shift.commodity, Shift.rng, toRange, Shift.tok]

@[simp, grind =] theorem commodityInline_shift (st : PState (List Token)) :
    commodityInline (listEnv num cls) (shiftSt d st) = ((fun r => (d.commodity r.1, r.2)) (commodityInline (listEnv num cls) st).1, shiftSt d (commodityInline (listEnv num cls) st).2) := by
  fun_cases commodityInline (listEnv num cls) st <;> (unfold commodityInline; (try simp +zetaDelta only [] at *) <;> (first | grind [Shift.date, Shift.rng, Shift.commodity, Shift.amount, Shift.cost, Shift.assertion, Shift.posting, Shift.tx, Shift.account, Shift.incl, Shift.dir, Shift.comment, Shift.item, Shift.dirResult, toRange, emptyCommodity, DirResult.ofDir] | (simp_all [Shift.date, Shift.rng, Shift.commodity, Shift.amount, Shift.cost, Shift.assertion, Shift.posting, Shift.tx, Shift.account, Shift.incl, Shift.dir, Shift.comment, Shift.item, Shift.dirResult, toRange, emptyCommodity, DirResult.ofDir]; done) | (simp_all <;> grind [Shift.date, Shift.rng, Shift.commodity, Shift.amount, Shift.cost, Shift.assertion, Shift.posting, Shift.tx, Shift.account, Shift.incl, Shift.dir, Shift.comment, Shift.item, Shift.dirResult, toRange, emptyCommodity, DirResult.ofDir])))

@[simp, grind =] theorem accountNameRest_shift (nm : Bytes) (st : PState (List Token)) :
    accountNameRest (listEnv num cls) nm (shiftSt d st) = (id (accountNameRest (listEnv num cls) nm st).1, shiftSt d (accountNameRest (listEnv num cls) nm st).2) := by
  fun_cases accountNameRest (listEnv num cls) nm st <;> (unfold accountNameRest; (try simp +zetaDelta only [] at *) <;> (first | grind [Shift.date, Shift.rng, Shift.commodity, Shift.amount, Shift.cost, Shift.assertion, Shift.posting, Shift.tx, Shift.account, Shift.incl, Shift.dir, Shift.comment, Shift.item, Shift.dirResult, toRange, emptyCommodity, DirResult.ofDir] | (simp_all [Shift.date, Shift.rng, Shift.commodity, Shift.amount, Shift.cost, Shift.assertion, Shift.posting, Shift.tx, Shift.account, Shift.incl, Shift.dir, Shift.comment, Shift.item, Shift.dirResult, toRange, emptyCommodity, DirResult.ofDir]; done) | (simp_all <;> grind [Shift.date, Shift.rng, Shift.commodity, Shift.amount, Shift.cost, Shift.assertion, Shift.posting, Shift.tx, Shift.account, Shift.incl, Shift.dir, Shift.comment, Shift.item, Shift.dirResult, toRange, emptyCommodity, DirResult.ofDir])))

@[simp, grind =] theorem parseAccountDirective_shift (sp : Pos) (st : PState (List Token)) :
    parseAccountDirective (listEnv num cls) (d.pos sp) (shiftSt d st) =
      (Option.map d.dir (parseAccountDirective (listEnv num cls) sp st).1, shiftSt d (parseAccountDirective (listEnv num cls) sp st).2) := by
  fun_cases parseAccountDirective (listEnv num cls) sp st <;> (unfold parseAccountDirective; (try simp +zetaDelta only [] at *) <;> (first | grind [Shift.date, Shift.rng, Shift.commodity, Shift.amount, Shift.cost, Shift.assertion, Shift.posting, Shift.tx, Shift.account, Shift.incl, Shift.dir, Shift.comment, Shift.item, Shift.dirResult, toRange, emptyCommodity, DirResult.ofDir] | (simp_all [Shift.date, Shift.rng, Shift.commodity, Shift.amount, Shift.cost, Shift.assertion, Shift.posting, Shift.tx, Shift.account, Shift.incl, Shift.dir, Shift.comment, Shift.item, Shift.dirResult, toRange, emptyCommodity, DirResult.ofDir]; done) | (simp_all <;> grind [Shift.date, Shift.rng, Shift.commodity, Shift.amount, Shift.cost, Shift.assertion, Shift.posting, Shift.tx, Shift.account, Shift.incl, Shift.dir, Shift.comment, Shift.item, Shift.dirResult, toRange, emptyCommodity, DirResult.ofDir])))

@[simp, grind =] theorem parseCommodityDirective_shift (sp : Pos) (st : PState (List Token)) :
    parseCommodityDirective (listEnv num cls) (d.pos sp) (shiftSt d st) =
      (Option.map d.dir (parseCommodityDirective (listEnv num cls) sp st).1, shiftSt d (parseCommodityDirective (listEnv num cls) sp st).2) := by
  fun_cases parseCommodityDirective (listEnv num cls) sp st <;> (unfold parseCommodityDirective; (try simp +zetaDelta only [] at *) <;> (first | grind [Shift.date, Shift.rng, Shift.commodity, Shift.amount, Shift.cost, Shift.assertion, Shift.posting, Shift.tx, Shift.account, Shift.incl, Shift.dir, Shift.comment, Shift.item, Shift.dirResult, toRange, emptyCommodity, DirResult.ofDir] | (simp_all [Shift.date, Shift.rng, Shift.commodity, Shift.amount, Shift.cost, Shift.assertion, Shift.posting, Shift.tx, Shift.account, Shift.incl, Shift.dir, Shift.comment, Shift.item, Shift.dirResult, toRange, emptyCommodity, DirResult.ofDir]; done) | (simp_all <;> grind [Shift.date, Shift.rng, Shift.commodity, Shift.amount, Shift.cost, Shift.assertion, Shift.posting, Shift.tx, Shift.account, Shift.incl, Shift.dir, Shift.comment, Shift.item, Shift.dirResult, toRange, emptyCommodity, DirResult.ofDir])))

@[simp, grind =] theorem parsePriceDirective_shift (sp : Pos) (st : PState (List Token)) :
    parsePriceDirective (listEnv num cls) (d.pos sp) (shiftSt d st) =
      (Option.map d.dir (parsePriceDirective (listEnv num cls) sp st).1, shiftSt d (parsePriceDirective (listEnv num cls) sp st).2) := by
  fun_cases parsePriceDirective (listEnv num cls) sp st <;> (unfold parsePriceDirective; (try simp +zetaDelta only [] at *) <;> (first | grind [Shift.date, Shift.rng, Shift.commodity, Shift.amount, Shift.cost, Shift.assertion, Shift.posting, Shift.tx, Shift.account, Shift.incl, Shift.dir, Shift.comment, Shift.item, Shift.dirResult, toRange, emptyCommodity, DirResult.ofDir] | (simp_all [Shift.date, Shift.rng, Shift.commodity, Shift.amount, Shift.cost, Shift.assertion, Shift.posting, Shift.tx, Shift.account, Shift.incl, Shift.dir, Shift.comment, Shift.item, Shift.dirResult, toRange, emptyCommodity, DirResult.ofDir]; done) | (simp_all <;> grind [Shift.date, Shift.rng, Shift.commodity, Shift.amount, Shift.cost, Shift.assertion, Shift.posting, Shift.tx, Shift.account, Shift.incl, Shift.dir, Shift.comment, Shift.item, Shift.dirResult, toRange, emptyCommodity, DirResult.ofDir])))

@[simp, grind =] theorem parseDefaultCommodityDirective_shift (sp : Pos) (st : PState (List Token)) :
    parseDefaultCommodityDirective (listEnv num cls) (d.pos sp) (shiftSt d st) =
      (Option.map d.dir (parseDefaultCommodityDirective (listEnv num cls) sp st).1, shiftSt d (parseDefaultCommodityDirective (listEnv num cls) sp st).2) := by
  fun_cases parseDefaultCommodityDirective (listEnv num cls) sp st <;> (unfold parseDefaultCommodityDirective; (try simp +zetaDelta only [] at *) <;> (first | grind [Shift.date, Shift.rng, Shift.commodity, Shift.amount, Shift.cost, Shift.assertion, Shift.posting, Shift.tx, Shift.account, Shift.incl, Shift.dir, Shift.comment, Shift.item, Shift.dirResult, toRange, emptyCommodity, DirResult.ofDir] | (simp_all [Shift.date, Shift.rng, Shift.commodity, Shift.amount, Shift.cost, Shift.assertion, Shift.posting, Shift.tx, Shift.account, Shift.incl, Shift.dir, Shift.comment, Shift.item, Shift.dirResult, toRange, emptyCommodity, DirResult.ofDir]; done) | (simp_all <;> grind [Shift.date, Shift.rng, Shift.commodity, Shift.amount, Shift.cost, Shift.assertion, Shift.posting, Shift.tx, Shift.account, Shift.incl, Shift.dir, Shift.comment, Shift.item, Shift.dirResult, toRange, emptyCommodity, DirResult.ofDir])))

@[simp, grind =] theorem parseYearDirective_shift (sp : Pos) (st : PState (List Token)) :
    parseYearDirective (listEnv num cls) (d.pos sp) (shiftSt d st) =
      (Option.map d.dir (parseYearDirective (listEnv num cls) sp st).1, shiftSt d (parseYearDirective (listEnv num cls) sp st).2) := by
  fun_cases parseYearDirective (listEnv num cls) sp st <;> (unfold parseYearDirective; (try simp +zetaDelta only [] at *) <;> (first | grind [Shift.date, Shift.rng, Shift.commodity, Shift.amount, Shift.cost, Shift.assertion, Shift.posting, Shift.tx, Shift.account, Shift.incl, Shift.dir, Shift.comment, Shift.item, Shift.dirResult, toRange, emptyCommodity, DirResult.ofDir] | (simp_all [Shift.date, Shift.rng, Shift.commodity, Shift.amount, Shift.cost, Shift.assertion, Shift.posting, Shift.tx, Shift.account, Shift.incl, Shift.dir, Shift.comment, Shift.item, Shift.dirResult, toRange, emptyCommodity, DirResult.ofDir]; done) | (simp_all <;> grind [Shift.date, Shift.rng, Shift.commodity, Shift.amount, Shift.cost, Shift.assertion, Shift.posting, Shift.tx, Shift.account, Shift.incl, Shift.dir, Shift.comment, Shift.item, Shift.dirResult, toRange, emptyCommodity, DirResult.ofDir])))

@[simp, grind =] theorem parseIncludeDirective_shift (sp : Pos) (st : PState (List Token)) :
    parseIncludeDirective (listEnv num cls) (d.pos sp) (shiftSt d st) =
      (Option.map d.incl (parseIncludeDirective (listEnv num cls) sp st).1, shiftSt d (parseIncludeDirective (listEnv num cls) sp st).2) := by
  fun_cases parseIncludeDirective (listEnv num cls) sp st <;> (unfold parseIncludeDirective; (try simp +zetaDelta only [] at *) <;> (first | grind [Shift.date, Shift.rng, Shift.commodity, Shift.amount, Shift.cost, Shift.assertion, Shift.posting, Shift.tx, Shift.account, Shift.incl, Shift.dir, Shift.comment, Shift.item, Shift.dirResult, toRange, emptyCommodity, DirResult.ofDir] | (simp_all [Shift.date, Shift.rng, Shift.commodity, Shift.amount, Shift.cost, Shift.assertion, Shift.posting, Shift.tx, Shift.account, Shift.incl, Shift.dir, Shift.comment, Shift.item, Shift.dirResult, toRange, emptyCommodity, DirResult.ofDir]; done) | (simp_all <;> grind [Shift.date, Shift.rng, Shift.commodity, Shift.amount, Shift.cost, Shift.assertion, Shift.posting, Shift.tx, Shift.account, Shift.incl, Shift.dir, Shift.comment, Shift.item, Shift.dirResult, toRange, emptyCommodity, DirResult.ofDir])))

@[simp, grind =] theorem parseDirective_shift (st : PState (List Token)) :
    parseDirective (listEnv num cls) (shiftSt d st) = (d.dirResult (parseDirective (listEnv num cls) st).1, shiftSt d (parseDirective (listEnv num cls) st).2) := by
  fun_cases parseDirective (listEnv num cls) st <;> (unfold parseDirective; (try simp +zetaDelta only [] at *) <;> (first | grind [Shift.date, Shift.rng, Shift.commodity, Shift.amount, Shift.cost, Shift.assertion, Shift.posting, Shift.tx, Shift.account, Shift.incl, Shift.dir, Shift.comment, Shift.item, Shift.dirResult, toRange, emptyCommodity, DirResult.ofDir] | (simp_all [Shift.date, Shift.rng, Shift.commodity, Shift.amount, Shift.cost, Shift.assertion, Shift.posting, Shift.tx, Shift.account, Shift.incl, Shift.dir, Shift.comment, Shift.item, Shift.dirResult, toRange, emptyCommodity, DirResult.ofDir]; done) | (simp_all <;> grind [Shift.date, Shift.rng, Shift.commodity, Shift.amount, Shift.cost, Shift.assertion, Shift.posting, Shift.tx, Shift.account, Shift.incl, Shift.dir, Shift.comment, Shift.item, Shift.dirResult, toRange, emptyCommodity, DirResult.ofDir])))

@[simp, grind =] theorem journalStep_shift (st : PState (List Token)) :
    journalStep (listEnv num cls) (shiftSt d st) = (d.item (journalStep (listEnv num cls) st).1, shiftSt d (journalStep (listEnv num cls) st).2) := by
  fun_cases journalStep (listEnv num cls) st <;> (unfold journalStep; (try simp +zetaDelta only [] at *) <;> (first | grind [Shift.date, Shift.rng, Shift.commodity, Shift.amount, Shift.cost, Shift.assertion, Shift.posting, Shift.tx, Shift.account, Shift.incl, Shift.dir, Shift.comment, Shift.item, Shift.dirResult, toRange, emptyCommodity, DirResult.ofDir] | (simp_all [Shift.date, Shift.rng, Shift.commodity, Shift.amount, Shift.cost, Shift.assertion, Shift.posting, Shift.tx, Shift.account, Shift.incl, Shift.dir, Shift.comment, Shift.item, Shift.dirResult, toRange, emptyCommodity, DirResult.ofDir]; done) | (simp_all <;> grind [Shift.date, Shift.rng, Shift.commodity, Shift.amount, Shift.cost, Shift.assertion, Shift.posting, Shift.tx, Shift.account, Shift.incl, Shift.dir, Shift.comment, Shift.item, Shift.dirResult, toRange, emptyCommodity, DirResult.ofDir])))

theorem jpush_shift (j : Journal) (it : Item) : d.journal (jpush j it) = jpush (d.journal j) (d.item it) := by
  cases it <;> simp [jpush, Shift.journal, Shift.item]

theorem parseJournalF_shift (n : Nat) (st : PState (List Token)) :
    parseJournalF (listEnv num cls) n (shiftSt d st) =
      (d.journal (parseJournalF (listEnv num cls) n st).1, shiftSt d (parseJournalF (listEnv num cls) n st).2) := by
  induction n generalizing st with
  | zero => rfl
  | succ n ih =>
    by_cases h : st.current.ty = .eof
    · simp [parseJournalF, h]; rfl
    · simp only [parseJournalF, shiftSt_ty, h, if_false, journalStep_shift, ih, jpush_shift]

/-- **Shift equivariance of the whole parse.** -/
theorem parseJournal_shift (st : PState (List Token)) :
    parseJournal (listEnv num cls) (shiftSt d st) =
      (d.journal (parseJournal (listEnv num cls) st).1, shiftSt d (parseJournal (listEnv num cls) st).2) := by
  unfold parseJournal
  rw [fuelOf_shift, parseJournalF_shift]

/-- Parsing a token list all of whose positions are moved by `d` gives the same journal and the
    same errors, with every position moved by `d`. -/
theorem parseTokens_shift (toks : List Token) :
    parseTokens num cls (toks.map d.tok) =
      (d.journal (parseTokens num cls toks).1, (parseTokens num cls toks).2.map d.perr) := by
  have h0 : advance (listEnv num cls) (⟨toks.map d.tok, eofToken, [], 0⟩ : PState (List Token)) =
      shiftSt d (advance (listEnv num cls) ⟨toks, eofToken, [], 0⟩) := by
    have := advance_shift num cls d ⟨toks, eofToken, [], 0⟩
    simpa [shiftSt] using this
  show (let st := advance (listEnv num cls) (⟨toks.map d.tok, eofToken, [], 0⟩ : PState (List Token))
        let r := parseJournal (listEnv num cls) st; (r.1, r.2.errors)) = _
  simp only [h0, parseJournal_shift]
  rfl

end HL.Parser
