import HL.Lemmas.LexGCore
/-!
  Posting lines, whole transactions and whole journals of `GCore` under the lexer model
  (continuation of HL/Lemmas/LexGCore.lean).
-/
namespace HL.GCore
open HL HL.Lex

local notation "LF" => (0x0A : UInt8)

/-! ### what well-formedness says, as propositions -/

theorem Amount.wf_spec {a : Amount} (h : a.wf = true) :
    (a.int ≠ [] ∧ ∀ c ∈ a.int, isDigit c = true) ∧
    (∀ f, a.frac = some f → f ≠ [] ∧ (∀ c ∈ f, isDigit c = true) ∧ f.length ≤ 1000 ∧
      (f.length = 3 → ∀ c ∈ a.int, c = 0x30)) ∧
    (∀ w, a.com = some w → w ≠ [] ∧ ∀ c ∈ w, isUpper c = true) := by
  simp only [Amount.wf, Bool.and_eq_true] at h
  obtain ⟨⟨h1, h2⟩, h3⟩ := h
  refine ⟨?_, ?_, ?_⟩
  · have := word_spec h1; simpa [isDigitB_eq] using this
  · intro f hf
    rw [hf] at h2
    simp only [Bool.and_eq_true, decide_eq_true_eq, Bool.or_eq_true, bne_iff_ne, ne_eq, List.all_eq_true,
      beq_iff_eq] at h2
    obtain ⟨⟨h21, h22⟩, h23⟩ := h2
    have := word_spec h21
    refine ⟨this.1, by simpa [isDigitB_eq] using this.2, h22, ?_⟩
    intro h3'
    rcases h23 with h | h
    · exact absurd h3' h
    · exact h
  · intro w hw
    rw [hw] at h3
    have := word_spec h3
    exact ⟨this.1, by simpa [isUpperB_eq] using this.2⟩

theorem Posting.wf_spec {p : Posting} (h : p.wf = true) :
    (∃ c t, p.acct = c :: t ∧ isLetter c = true) ∧ (∀ c ∈ p.acct, acctByte c = true) ∧
    p.acct.contains 0x3A = true ∧ (∀ a, p.amount = some a → a.wf = true) := by
  simp only [Posting.wf, Bool.and_eq_true, decide_eq_true_eq, List.all_eq_true] at h
  obtain ⟨⟨h1, h2⟩, h3⟩ := h
  have lf := fun c (h : isLower c = true) => by
    have := lower_bytes c
    simp only [h, Bool.not_true, Bool.false_or, Bool.and_eq_true, decide_eq_true_eq, bne_iff_ne, ne_eq,
      Bool.not_eq_true'] at this
    exact this
  match hs : p.segs, h1 with
  | s1 :: s2 :: ss, _ =>
    have hs1 := word_spec (h2 s1 (by simp [hs]))
    refine ⟨?_, ?_, ?_, ?_⟩
    · obtain ⟨c, t, hc⟩ := List.exists_cons_of_ne_nil hs1.1
      refine ⟨c, t ++ 0x3A :: joinWith 0x3A (s2 :: ss), by simp [Posting.acct, hs, joinWith, hc], ?_⟩
      have := hs1.2 c (by simp [hc]); rw [isLowerB_eq] at this
      exact (lf c this).1.1.1.1.1.1.1
    · intro c hc
      rcases mem_joinWith hc with h | ⟨x, hx, hcx⟩
      · rw [h]; decide
      · have := (word_spec (h2 x hx)).2 c hcx; rw [isLowerB_eq] at this
        exact (lf c this).1.1.2
    · simp [Posting.acct, hs, joinWith]
    · intro a ha; rw [ha] at h3; exact h3

/-! ### the amount -/

theorem numText_spec {a : Amount} (h : a.wf = true) :
    (∃ c t, a.numText = c :: t ∧ isDigit c = true) ∧ (∀ c ∈ a.numText, numByte c = true) := by
  obtain ⟨⟨hi, hid⟩, hf, _⟩ := Amount.wf_spec h
  have nb : ∀ c, isDigit c = true → numByte c = true := fun c hc => by simp [numByte, hc]
  constructor
  · obtain ⟨c, t, hc⟩ := List.exists_cons_of_ne_nil hi
    exact ⟨c, t ++ (match a.frac with | none => [] | some f => 0x2E :: f), by rw [Amount.numText, hc]; rfl,
      hid c (by simp [hc])⟩
  · intro c hc
    simp only [Amount.numText, List.mem_append] at hc
    rcases hc with hc | hc
    · exact nb c (hid c hc)
    · cases hfr : a.frac with
      | none => simp [hfr] at hc
      | some f =>
        simp only [hfr, List.mem_cons] at hc
        rcases hc with hc | hc
        · rw [hc]; decide
        · exact nb c ((hf f hfr).2.1 c hc)

/-- what follows the number: nothing but the line feed, or a blank and an upper-case word -/
theorem comText_spec {a : Amount} (h : a.wf = true) (rest : Bytes) :
    NumStop (a.comText ++ LF :: rest) ∧ DateStop (a.comText ++ LF :: rest) := by
  obtain ⟨_, _, hc⟩ := Amount.wf_spec h
  cases hcom : a.com with
  | none =>
    simp only [Amount.comText, hcom, List.nil_append]
    constructor
    · intro c t hct; cases hct
      exact ⟨by decide, by decide, by decide, by decide, by decide, fun h => absurd h (by decide)⟩
    · intro c t hct; cases hct; exact ⟨by decide, by decide⟩
  | some w =>
    obtain ⟨hw, hwu⟩ := hc w hcom
    obtain ⟨u, t', hu⟩ := List.exists_cons_of_ne_nil hw
    simp only [Amount.comText, hcom, List.cons_append]
    constructor
    · intro c t hct; cases hct
      refine ⟨by decide, by decide, by decide, by decide, by decide, fun _ => ?_⟩
      have := upper_bytes u
      simp only [hwu u (by simp [hu]), Bool.not_true, Bool.false_or, Bool.and_eq_true, Bool.not_eq_true'] at this
      simp [hu, headIsDigit, this.1.2]
    · intro c t hct; cases hct; exact ⟨by decide, by decide⟩

/-- the Number token of an amount, behind the blanks `sp` -/
theorem next_number (C : Classes) {z : Z} (hc : z.col = 1) {a : Amount} (h : a.wf = true) (p sp rest : Bytes)
    (hsp : ∀ c ∈ sp, c = 0x20) :
    next C (z.started.over p (sp ++ (a.numText ++ (a.comText ++ LF :: rest)))) =
      (tokP .number a.numText z.line z.before.length (p.length + sp.length),
       z.started.over (p ++ sp ++ a.numText) (a.comText ++ LF :: rest)) := by
  obtain ⟨h0, hnb⟩ := numText_spec h
  obtain ⟨hns, hds⟩ := comText_spec h rest
  obtain ⟨⟨_, hid⟩, hf, _⟩ := Amount.wf_spec h
  refine next_cur C hc hsp ?_ ?_
  · obtain ⟨c, t, hct, hcd⟩ := h0
    rw [hct]
    refine Stops.cons _ ?_
    have := digit_bytes c
    simp only [hcd, Bool.not_true, Bool.false_or, Bool.and_eq_true, Bool.not_eq_true'] at this
    exact this.1.2
  · intro Z hZ
    refine scanInLineAt_number C hZ h0 hnb hns ?_
    rw [hZ]
    cases hfr : a.frac with
    | none =>
      have := looksLikeDate_int a.int (a.comText ++ LF :: rest) hid hds
      simpa [Amount.numText, hfr] using this
    | some f =>
      have := looksLikeDate_frac a.int f (a.comText ++ LF :: rest) hid (hf f hfr).2.1 hds
      simpa [Amount.numText, hfr] using this

/-- the Commodity token of an amount -/
theorem next_commodity (C : Classes) (hC : ClassesOk C = true) {z : Z} (hc : z.col = 1) {w : Bytes}
    (hw : w ≠ []) (hwu : ∀ c ∈ w, isUpper c = true) (p rest : Bytes) :
    next C (z.started.over p (0x20 :: (w ++ LF :: rest))) =
      (tokP .commodity w z.line z.before.length (p.length + 1),
       z.started.over (p ++ [0x20] ++ w) (LF :: rest)) := by
  have ub := fun c (h : isUpper c = true) => by
    have := upper_bytes c
    simp only [h, Bool.not_true, Bool.false_or, Bool.and_eq_true, decide_eq_true_eq, bne_iff_ne, ne_eq,
      Bool.not_eq_true'] at this
    exact this
  have := next_cur C hc (p := p) (sp := [0x20]) (v := w) (rest := LF :: rest) (ty := .commodity) (by simp)
    (by
      obtain ⟨c, t, hct⟩ := List.exists_cons_of_ne_nil hw
      rw [hct]; exact Stops.cons _ (ub c (hwu c (by simp [hct]))).2)
    (by
      intro Z hZ
      refine scanInLineAt_commodity C hZ hw hwu (fun c hc' => classesOk_upper hC (hwu c hc'))
        (Stops.cons _ (by decide)) ?_
      rw [hZ]
      exact looksLikeAccount_noColon _ _ (fun c hc' => ⟨(ub c (hwu c hc')).1.1.1.2, (ub c (hwu c hc')).1.1.2⟩)
        (Or.inr ⟨_, rfl⟩))
  simpa using this

/-- **An amount** behind two blanks: `[-] digits [. digits] [ ' ' COMMODITY ]`. -/
theorem lex_amount (C : Classes) (hC : ClassesOk C = true) {z : Z} (hc : z.col = 1) {a : Amount}
    (h : a.wf = true) (p rest : Bytes) :
    lexS C (z.started.over p (0x20 :: 0x20 :: (a.print ++ LF :: rest))) =
      a.toks z.line z.before.length (p.length + 2) ++
        lexS C (z.started.over (p ++ 0x20 :: 0x20 :: a.print) (LF :: rest)) := by
  obtain ⟨_, _, hcw⟩ := Amount.wf_spec h
  obtain ⟨⟨d, t, hnt, hd⟩, _⟩ := numText_spec h
  -- the commodity and what is left
  have tail : ∀ q : Bytes,
      lexS C (z.started.over q (a.comText ++ LF :: rest)) =
        (match a.com with | none => [] | some w => [tokP .commodity w z.line z.before.length (q.length + 1)]) ++
          lexS C (z.started.over (q ++ a.comText) (LF :: rest)) := by
    intro q
    cases hcom : a.com with
    | none => simp [Amount.comText, hcom]
    | some w =>
      obtain ⟨hw, hwu⟩ := hcw w hcom
      simp only [Amount.comText, hcom, List.cons_append]
      rw [lexS_step C (next_commodity C hC hc hw hwu q rest) (by simp [tokP])]
      simp
  have fin : ∀ (n m : Nat) (x y : Bytes), n = m → x = y →
      (match a.com with | none => [] | some w => [tokP .commodity w z.line z.before.length n]) ++
          lexS C (z.started.over x (LF :: rest)) =
      (match a.com with | none => [] | some w => [tokP .commodity w z.line z.before.length m]) ++
          lexS C (z.started.over y (LF :: rest)) := by
    intro n m x y h1 h2; rw [h1, h2]
  cases hneg : a.neg with
  | false =>
    have e : (0x20 :: 0x20 :: (a.print ++ LF :: rest) : Bytes) =
        [0x20, 0x20] ++ (a.numText ++ (a.comText ++ LF :: rest)) := by
      simp [Amount.print, Amount.signText, hneg]
    rw [e, lexS_step C (next_number C hc h p [0x20, 0x20] rest (by simp)) (by simp [tokP]), tail]
    simp only [Amount.toks, hneg, Bool.false_eq_true, if_false, List.nil_append, List.cons_append,
      Amount.signText, List.length_nil, Nat.add_zero, List.length_cons, List.cons.injEq, true_and]
    exact fin _ _ _ _ (by simp; omega) (by simp [Amount.print, Amount.signText, hneg])
  | true =>
    have e : (0x20 :: 0x20 :: (a.print ++ LF :: rest) : Bytes) =
        [0x20, 0x20] ++ ([0x2D] ++ (a.numText ++ (a.comText ++ LF :: rest))) := by
      simp [Amount.print, Amount.signText, hneg]
    have hs := next_cur C hc (p := p) (sp := [0x20, 0x20]) (v := [0x2D])
      (rest := a.numText ++ (a.comText ++ LF :: rest)) (ty := .sign) (by simp)
      (Stops.cons _ (by decide))
      (by
        intro Z hZ
        have hZ' : Z.after = 0x2D :: d :: (t ++ (a.comText ++ LF :: rest)) := by rw [hZ, hnt]; simp
        have := scanInLineAt_minus C hZ' hd
        rw [this]; simp [hnt])
    rw [e, lexS_step C hs (by simp [tokP])]
    have hn := next_number C hc h (p ++ [0x20, 0x20] ++ [0x2D]) [] rest (by simp)
    simp only [List.nil_append] at hn
    rw [lexS_step C hn (by simp [tokP]), tail]
    simp only [Amount.toks, hneg, if_true, List.cons_append, List.nil_append,
      Amount.signText, List.length_nil, Nat.add_zero, List.length_cons, List.cons.injEq, true_and,
      List.length_append]
    exact fin _ _ _ _ (by simp) (by simp [Amount.print, Amount.signText, hneg])

/-! ### lines, transactions, journals -/

theorem letter_bytes : ∀ c : UInt8, (!isLetter c || (!isWhitespace c && !isBlank c)) = true :=
  forall_uint8 _ (by decide +kernel)

/-- **A posting line**: `'    ' account [ '  ' amount ] LF` lexes to Indent, Account, the amount's
    tokens and Newline — exactly, whatever follows the line feed. -/
theorem lex_posting_line (C : Classes) (hC : ClassesOk C = true) {z : Z} (hz : LS z) (p : Posting)
    (hp : p.wf = true) {rest : Bytes} (ha : z.after = p.print ++ LF :: rest) :
    lexS C z = p.toks z.line z.before.length ++ lexS C (jump z (p.print ++ [LF]) rest 1) := by
  obtain ⟨⟨c0, t0, hacct, hc0⟩, hab, hcolon, hamt⟩ := Posting.wf_spec hp
  have ha1 : z.after = [0x20, 0x20, 0x20, 0x20] ++ (p.acct ++ (p.amtText ++ LF :: rest)) := by
    rw [ha]; simp [Posting.print]
  have lb := letter_bytes c0
  simp only [hc0, Bool.not_true, Bool.false_or, Bool.and_eq_true, Bool.not_eq_true'] at lb
  -- the indent
  have h1 := next_indent C hz.1 hz.2 ha1 (by simp) (by intro c hc; simp at hc; rw [hc]; decide)
    (by rw [hacct]; exact StopsL.cons _ lb.1)
  have e1 : tokAt .indent [0x20, 0x20, 0x20, 0x20] z ([0x20, 0x20, 0x20, 0x20] : Bytes).length =
      tokP .indent [0x20, 0x20, 0x20, 0x20] z.line z.before.length 0 := by
    simp [tokAt, tokP, Z.position, hz.2, Nat.add_comm]
  rw [lexS_step C h1 (by simp [tokAt]), e1]
  -- the account
  have hstopA : AcctStop (p.amtText ++ LF :: rest) := by
    cases hamtv : p.amount with
    | none =>
      simp only [Posting.amtText, hamtv, List.nil_append]
      exact Or.inr (Or.inl ⟨LF, rest, rfl, by decide, by decide⟩)
    | some a =>
      simp only [Posting.amtText, hamtv, List.cons_append]
      exact Or.inr (Or.inr ⟨_, rfl⟩)
  have h2 := next_cur C hz.2 (p := [0x20, 0x20, 0x20, 0x20]) (sp := []) (v := p.acct)
    (rest := p.amtText ++ LF :: rest) (ty := .account) (by simp)
    (by rw [hacct]; exact Stops.cons _ lb.2)
    (fun Z hZ => scanInLineAt_account C hZ ⟨c0, t0, hacct, hc0⟩ hab hcolon hstopA)
  simp only [List.nil_append, List.append_nil, List.length_nil, Nat.add_zero] at h2
  rw [lexS_step C h2 (by simp [tokP])]
  -- the amount and the line feed
  cases hamtv : p.amount with
  | none =>
    have e : p.amtText = [] := by simp [Posting.amtText, hamtv]
    have eb : [0x20, 0x20, 0x20, 0x20] ++ p.acct = p.print := by simp [Posting.print, e]
    rw [e, List.nil_append, eb, lexS_step C (next_cur_lf C hz.2 p.print rest) (by simp [nlP])]
    simp [Posting.toks, hamtv]
  | some a =>
    have e : p.amtText ++ LF :: rest = 0x20 :: 0x20 :: (a.print ++ LF :: rest) := by
      simp [Posting.amtText, hamtv]
    have eb : [0x20, 0x20, 0x20, 0x20] ++ p.acct ++ 0x20 :: 0x20 :: a.print = p.print := by
      simp [Posting.print, Posting.amtText, hamtv]
    rw [e, lex_amount C hC hz.2 (hamt a hamtv), eb,
      lexS_step C (next_cur_lf C hz.2 p.print rest) (by simp [nlP])]
    simp [Posting.toks, hamtv, Nat.add_assoc]
    rw [show p.acct.length + 6 = 4 + (p.acct.length + 2) by omega]

/-- **All postings of a transaction**, any number of them. -/
theorem lex_postings (C : Classes) (hC : ClassesOk C = true) (ps : List Posting) :
    ∀ {z : Z}, LS z → (∀ p ∈ ps, p.wf = true) → ∀ {rest : Bytes}, z.after = printPostings ps ++ rest →
      lexS C z = postingsToks ps z.line z.before.length ++ lexS C (jump z (printPostings ps) rest ps.length) := by
  induction ps with
  | nil =>
    intro z hz _ rest ha
    simp only [printPostings, List.nil_append] at ha
    simp only [postingsToks, printPostings, List.nil_append, List.length_nil]
    rw [← ha, jump_zero z hz]
  | cons p ps ih =>
    intro z hz hwf rest ha
    have ha' : z.after = p.print ++ LF :: (printPostings ps ++ rest) := by rw [ha]; simp [printPostings]
    rw [lex_posting_line C hC hz p (hwf p (by simp)) ha',
      ih (jump_ls _ _ _ _) (fun q hq => hwf q (by simp [hq])) (jump_after _ _ _ _), jump_jump]
    simp only [postingsToks, jump_line, jump_off, printPostings, List.length_append, List.length_cons,
      List.length_nil, List.append_assoc, List.cons_append, List.nil_append]
    rw [show z.before.length + (p.print.length + (0 + 1)) = z.before.length + p.print.length + 1 by omega,
      show 1 + ps.length = ps.length + 1 by omega]

theorem Tx.wf_spec {t : Tx} (h : t.wf = true) :
    t.date.wf = true ∧ t.words ≠ [] ∧ (∀ w ∈ t.words, word isLowerB w = true) ∧ ∀ p ∈ t.postings, p.wf = true := by
  simp only [Tx.wf, Bool.and_eq_true, Bool.not_eq_true', List.isEmpty_eq_false_iff, List.all_eq_true] at h
  exact ⟨h.1.1.1, h.1.1.2, h.1.2, h.2⟩

/-- **A whole transaction**: header line and all posting lines. -/
theorem lex_tx (C : Classes) (hC : ClassesOk C = true) {z : Z} (hz : LS z) (t : Tx) (ht : t.wf = true)
    {rest : Bytes} (ha : z.after = t.print ++ rest) :
    lexS C z = t.toks z.line z.before.length ++ lexS C (jump z t.print rest (1 + t.postings.length)) := by
  obtain ⟨hd, hne, hws, hps⟩ := Tx.wf_spec ht
  have ha' : z.after = t.header ++ LF :: (printPostings t.postings ++ rest) := by rw [ha]; simp [Tx.print]
  rw [lex_header_line C hC hz t hd hne hws ha',
    lex_postings C hC t.postings (jump_ls _ _ _ _) hps (jump_after _ _ _ _), jump_jump]
  simp only [Tx.toks, jump_line, jump_off, List.length_append, List.length_cons, List.length_nil,
    List.append_assoc, Tx.print, List.cons_append, List.nil_append]
  rw [show z.before.length + (t.header.length + (0 + 1)) = z.before.length + t.header.length + 1 by omega]

/-- **The token stream of a printed journal**, any number of transactions, from any line start. -/
theorem lex_journal (C : Classes) (hC : ClassesOk C = true) (j : Journal) :
    ∀ {z : Z}, LS z → WF j = true → z.after = print j → lexS C z = toksFrom j z.line z.before.length := by
  induction j with
  | nil =>
    intro z hz _ ha
    exact lexS_eof C ha hz.2
  | cons t ts ih =>
    intro z hz hwf ha
    simp only [WF, List.all_cons, Bool.and_eq_true] at hwf
    cases ts with
    | nil =>
      have ha' : z.after = t.print ++ [] := by simpa [print] using ha
      rw [lex_tx C hC hz t hwf.1 ha', lexS_eof C (jump_after _ _ _ _) rfl]
      simp only [toksFrom, jump_line, jump_off]
      rw [show z.line + (1 + t.postings.length) = z.line + 1 + t.postings.length by omega]
    | cons t2 ts =>
      have ha' : z.after = t.print ++ LF :: print (t2 :: ts) := by simpa [print] using ha
      rw [lex_tx C hC hz t hwf.1 ha', lex_blank_line C (jump_ls _ _ _ _) (jump_after _ _ _ _), jump_jump,
        ih (jump_ls _ _ _ _) hwf.2 (jump_after _ _ _ _)]
      simp only [toksFrom, jump_line, jump_off, List.length_append, List.length_cons, List.length_nil]
      rw [show z.line + (1 + t.postings.length) = z.line + 1 + t.postings.length by omega,
        show z.line + (1 + t.postings.length + 1) = z.line + t.postings.length + 2 by omega,
        show z.before.length + (t.print.length + (0 + 1)) = z.before.length + t.print.length + 1 by omega]

/-- **`lexAll (print j)`, exactly.** -/
theorem lexAll_print (C : Classes) (hC : ClassesOk C = true) (j : Journal) (h : WF j = true) :
    lexAll C (print j) = toksFrom j 1 0 := by
  rw [lexAll_eq_lexS]
  exact lex_journal C hC j (z := Z.init (print j)) ⟨rfl, rfl⟩ h rfl

end HL.GCore
