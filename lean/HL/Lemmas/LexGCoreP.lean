import HL.Lemmas.LexGCore
/-!
  Posting lines, whole transactions and whole journals of `GCore` under the lexer model
  (continuation of HL/Lemmas/LexGCore.lean).
-/
namespace HL.GCore
open HL HL.Lex

local notation "LF" => (0x0A : UInt8)

/-! ### what well-formedness says, as propositions -/

theorem Amount.wf_spec {a : Amount} (h : a.wf = true) :
    (a.int ≠ [] ∧ ∀ c ∈ a.int, isDigit c = true) ∧
    (∀ f, a.frac = some f → f ≠ [] ∧ (∀ c ∈ f, isDigit c = true) ∧ f.length ≤ 1000 ∧
      (f.length = 3 → ∀ c ∈ a.int, c = 0x30)) ∧
    (∀ w, a.com = some w → w ≠ [] ∧ ∀ c ∈ w, isUpper c = true) := by
  simp only [Amount.wf, Bool.and_eq_true] at h
  obtain ⟨⟨h1, h2⟩, h3⟩ := h
  refine ⟨?_, ?_, ?_⟩
  · have := word_spec h1; simpa [isDigitB_eq] using this
  · intro f hf
    rw [hf] at h2
    simp only [Bool.and_eq_true, decide_eq_true_eq, Bool.or_eq_true, bne_iff_ne, ne_eq, List.all_eq_true,
      beq_iff_eq] at h2
    obtain ⟨⟨h21, h22⟩, h23⟩ := h2
    have := word_spec h21
    refine ⟨this.1, by simpa [isDigitB_eq] using this.2, h22, ?_⟩
    intro h3'
    rcases h23 with h | h
    · exact absurd h3' h
    · exact h
  · intro w hw
    rw [hw] at h3
    have := word_spec h3
    exact ⟨this.1, by simpa [isUpperB_eq] using this.2⟩

theorem Posting.wf_spec {p : Posting} (h : p.wf = true) :
    (∃ c t, p.acct = c :: t ∧ isLetter c = true) ∧ (∀ c ∈ p.acct, acctByte c = true) ∧
    p.acct.contains 0x3A = true ∧ (∀ a, p.amount = some a → a.wf = true) := by
  simp only [Posting.wf, Bool.and_eq_true, decide_eq_true_eq, List.all_eq_true] at h
  obtain ⟨⟨h1, h2⟩, h3⟩ := h
  have lf := fun c (h : isLower c = true) => by
    have := lower_bytes c
    simp only [h, Bool.not_true, Bool.false_or, Bool.and_eq_true, decide_eq_true_eq, bne_iff_ne, ne_eq,
      Bool.not_eq_true'] at this
    exact this
  match hs : p.segs, h1 with
  | s1 :: s2 :: ss, _ =>
    have hs1 := word_spec (h2 s1 (by simp [hs]))
    refine ⟨?_, ?_, ?_, ?_⟩
    · obtain ⟨c, t, hc⟩ := List.exists_cons_of_ne_nil hs1.1
      refine ⟨c, t ++ 0x3A :: joinWith 0x3A (s2 :: ss), by simp [Posting.acct, hs, joinWith, hc], ?_⟩
      have := hs1.2 c (by simp [hc]); rw [isLowerB_eq] at this
      exact (lf c this).1.1.1.1.1.1.1
    · intro c hc
      rcases mem_joinWith hc with h | ⟨x, hx, hcx⟩
      · rw [h]; decide
      · have := (word_spec (h2 x hx)).2 c hcx; rw [isLowerB_eq] at this
        exact (lf c this).1.1.2
    · simp [Posting.acct, hs, joinWith]
    · intro a ha; rw [ha] at h3; exact h3

/-! ### the amount -/

theorem numText_spec {a : Amount} (h : a.wf = true) :
    (∃ c t, a.numText = c :: t ∧ isDigit c = true) ∧ (∀ c ∈ a.numText, numByte c = true) := by
  obtain ⟨⟨hi, hid⟩, hf, _⟩ := Amount.wf_spec h
  have nb : ∀ c, isDigit c = true → numByte c = true := fun c hc => by simp [numByte, hc]
  constructor
  · obtain ⟨c, t, hc⟩ := List.exists_cons_of_ne_nil hi
    exact ⟨c, t ++ (match a.frac with | none => [] | some f => 0x2E :: f), by rw [Amount.numText, hc]; rfl,
      hid c (by simp [hc])⟩
  · intro c hc
    simp only [Amount.numText, List.mem_append] at hc
    rcases hc with hc | hc
    · exact nb c (hid c hc)
    · cases hfr : a.frac with
      | none => simp [hfr] at hc
      | some f =>
        simp only [hfr, List.mem_cons] at hc
        rcases hc with hc | hc
        · rw [hc]; decide
        · exact nb c ((hf f hfr).2.1 c hc)

/-- what follows the number: nothing but the line feed, or a blank and an upper-case word -/
theorem comText_spec {a : Amount} (h : a.wf = true) (rest : Bytes) :
    NumStop (a.comText ++ LF :: rest) ∧ DateStop (a.comText ++ LF :: rest) := by
  obtain ⟨_, _, hc⟩ := Amount.wf_spec h
  cases hcom : a.com with
  | none =>
    simp only [Amount.comText, hcom, List.nil_append]
    constructor
    · intro c t hct; cases hct
      exact ⟨by decide, by decide, by decide, by decide, by decide, fun h => absurd h (by decide)⟩
    · intro c t hct; cases hct; exact ⟨by decide, by decide⟩
  | some w =>
    obtain ⟨hw, hwu⟩ := hc w hcom
    obtain ⟨u, t', hu⟩ := List.exists_cons_of_ne_nil hw
    simp only [Amount.comText, hcom, List.cons_append]
    constructor
    · intro c t hct; cases hct
      refine ⟨by decide, by decide, by decide, by decide, by decide, fun _ => ?_⟩
      have := upper_bytes u
      simp only [hwu u (by simp [hu]), Bool.not_true, Bool.false_or, Bool.and_eq_true, Bool.not_eq_true'] at this
      simp [hu, headIsDigit, this.1.2]
    · intro c t hct; cases hct; exact ⟨by decide, by decide⟩

/-- the Number token of an amount, behind the blanks `sp` -/
theorem next_number (C : Classes) {z : Z} (hc : z.col = 1) {a : Amount} (h : a.wf = true) (p sp rest : Bytes)
    (hsp : ∀ c ∈ sp, c = 0x20) :
    next C (z.started.over p (sp ++ (a.numText ++ (a.comText ++ LF :: rest)))) =
      (tokP .number a.numText z.line z.before.length (p.length + sp.length),
       z.started.over (p ++ sp ++ a.numText) (a.comText ++ LF :: rest)) := by
  obtain ⟨h0, hnb⟩ := numText_spec h
  obtain ⟨hns, hds⟩ := comText_spec h rest
  obtain ⟨⟨_, hid⟩, hf, _⟩ := Amount.wf_spec h
  refine next_cur C hc hsp ?_ ?_
  · obtain ⟨c, t, hct, hcd⟩ := h0
    rw [hct]
    refine Stops.cons _ ?_
    have := digit_bytes c
    simp only [hcd, Bool.not_true, Bool.false_or, Bool.and_eq_true, Bool.not_eq_true'] at this
    exact this.1.2
  · intro Z hZ
    refine scanInLineAt_number C hZ h0 hnb hns ?_
    rw [hZ]
    cases hfr : a.frac with
    | none =>
      have := looksLikeDate_int a.int (a.comText ++ LF :: rest) hid hds
      simpa [Amount.numText, hfr] using this
    | some f =>
      have := looksLikeDate_frac a.int f (a.comText ++ LF :: rest) hid (hf f hfr).2.1 hds
      simpa [Amount.numText, hfr] using this

/-- the Commodity token of an amount -/
theorem next_commodity (C : Classes) (hC : ClassesOk C = true) {z : Z} (hc : z.col = 1) {w : Bytes}
    (hw : w ≠ []) (hwu : ∀ c ∈ w, isUpper c = true) (p rest : Bytes) :
    next C (z.started.over p (0x20 :: (w ++ LF :: rest))) =
      (tokP .commodity w z.line z.before.length (p.length + 1),
       z.started.over (p ++ [0x20] ++ w) (LF :: rest)) := by
  have ub := fun c (h : isUpper c = true) => by
    have := upper_bytes c
    simp only [h, Bool.not_true, Bool.false_or, Bool.and_eq_true, decide_eq_true_eq, bne_iff_ne, ne_eq,
      Bool.not_eq_true'] at this
    exact this
  have := next_cur C hc (p := p) (sp := [0x20]) (v := w) (rest := LF :: rest) (ty := .commodity) (by simp)
    (by
      obtain ⟨c, t, hct⟩ := List.exists_cons_of_ne_nil hw
      rw [hct]; exact Stops.cons _ (ub c (hwu c (by simp [hct]))).2)
    (by
      intro Z hZ
      refine scanInLineAt_commodity C hZ hw hwu (fun c hc' => classesOk_upper hC (hwu c hc'))
        (Stops.cons _ (by decide)) ?_
      rw [hZ]
      exact looksLikeAccount_noColon _ _ (fun c hc' => ⟨(ub c (hwu c hc')).1.1.1.2, (ub c (hwu c hc')).1.1.2⟩)
        (Or.inr ⟨_, rfl⟩))
  simpa using this

/-- **An amount** behind two blanks: `[-] digits [. digits] [ ' ' COMMODITY ]`. -/
theorem lex_amount (C : Classes) (hC : ClassesOk C = true) {z : Z} (hc : z.col = 1) {a : Amount}
    (h : a.wf = true) (p rest : Bytes) :
    lexS C (z.started.over p (0x20 :: 0x20 :: (a.print ++ LF :: rest))) =
      a.toks z.line z.before.length (p.length + 2) ++
        lexS C (z.started.over (p ++ 0x20 :: 0x20 :: a.print) (LF :: rest)) := by
  obtain ⟨_, _, hcw⟩ := Amount.wf_spec h
  obtain ⟨⟨d, t, hnt, hd⟩, _⟩ := numText_spec h
  -- the commodity and what is left
  have tail : ∀ q : Bytes,
      lexS C (z.started.over q (a.comText ++ LF :: rest)) =
        (match a.com with | none => [] | some w => [tokP .commodity w z.line z.before.length (q.length + 1)]) ++
          lexS C (z.started.over (q ++ a.comText) (LF :: rest)) := by
    intro q
    cases hcom : a.com with
    | none => simp [Amount.comText, hcom]
    | some w =>
      obtain ⟨hw, hwu⟩ := hcw w hcom
      simp only [Amount.comText, hcom, List.cons_append]
      rw [lexS_step C (next_commodity C hC hc hw hwu q rest) (by simp [tokP])]
      simp
  have fin : ∀ (n m : Nat) (x y : Bytes), n = m → x = y →
      (match a.com with | none => [] | some w => [tokP .commodity w z.line z.before.length n]) ++
          lexS C (z.started.over x (LF :: rest)) =
      (match a.com with | none => [] | some w => [tokP .commodity w z.line z.before.length m]) ++
          lexS C (z.started.over y (LF :: rest)) := by
    intro n m x y h1 h2; rw [h1, h2]
  cases hneg : a.neg with
  | false =>
    have e : (0x20 :: 0x20 :: (a.print ++ LF :: rest) : Bytes) =
        [0x20, 0x20] ++ (a.numText ++ (a.comText ++ LF :: rest)) := by
      simp [Amount.print, Amount.signText, hneg]
    rw [e, lexS_step C (next_number C hc h p [0x20, 0x20] rest (by simp)) (by simp [tokP]), tail]
    simp only [Amount.toks, hneg, Bool.false_eq_true, if_false, List.nil_append, List.cons_append,
      Amount.signText, List.length_nil, Nat.add_zero, List.length_cons, List.cons.injEq, true_and]
    exact fin _ _ _ _ (by simp; omega) (by simp [Amount.print, Amount.signText, hneg])
  | true =>
    have e : (0x20 :: 0x20 :: (a.print ++ LF :: rest) : Bytes) =
        [0x20, 0x20] ++ ([0x2D] ++ (a.numText ++ (a.comText ++ LF :: rest))) := by
      simp [Amount.print, Amount.signText, hneg]
    have hs := next_cur C hc (p := p) (sp := [0x20, 0x20]) (v := [0x2D])
      (rest := a.numText ++ (a.comText ++ LF :: rest)) (ty := .sign) (by simp)
      (Stops.cons _ (by decide))
      (by
        intro Z hZ
        have hZ' : Z.after = 0x2D :: d :: (t ++ (a.comText ++ LF :: rest)) := by rw [hZ, hnt]; simp
        have := scanInLineAt_minus C hZ' hd
        rw [this]; simp [hnt])
    rw [e, lexS_step C hs (by simp [tokP])]
    have hn := next_number C hc h (p ++ [0x20, 0x20] ++ [0x2D]) [] rest (by simp)
    simp only [List.nil_append] at hn
    rw [lexS_step C hn (by simp [tokP]), tail]
    simp only [Amount.toks, hneg, if_true, List.cons_append, List.nil_append,
      Amount.signText, List.length_nil, Nat.add_zero, List.length_cons, List.cons.injEq, true_and,
      List.length_append]
    exact fin _ _ _ _ (by simp) (by simp [Amount.print, Amount.signText, hneg])

end HL.GCore
