/-
  Helper lemmas for C09 (HL/Props/C09.lean): sorting and de-duplication keep membership, the
  journal map of `allJournalsWithPaths`, the three searches read off exactly the name-bearing
  nodes of a tree, `findDefinitionTarget` finds exactly the node under the cursor.
-/
import HL.Model.Refs
import HL.Spec.Occurrences
namespace HL.Lemmas.Refs
open HL HL.Ast HL.Refs HL.Spec.Occ

/-! ### sorting, de-duplication -/

theorem mem_insSorted {α} (lt : α → α → Bool) (x y : α) (l : List α) :
    y ∈ insSorted lt x l ↔ y = x ∨ y ∈ l := by
  induction l with
  | nil => simp [insSorted]
  | cons z zs ih =>
    unfold insSorted
    split
    · simp
    · simp only [List.mem_cons, ih]
      constructor
      · rintro (h | h | h) <;> simp [h]
      · rintro (h | h | h) <;> simp [h]

theorem mem_isort {α} (lt : α → α → Bool) (y : α) (l : List α) : y ∈ isort lt l ↔ y ∈ l := by
  induction l with
  | nil => simp [isort]
  | cons x xs ih => simp [isort, mem_insSorted, ih]

theorem mem_dedupAdj (y : Loc) (l : List Loc) : y ∈ dedupAdj l ↔ y ∈ l := by
  fun_induction dedupAdj l with
  | case1 => simp
  | case2 a => simp
  | case3 a rest ih =>
    simp only [ih, List.mem_cons]
    constructor
    · intro h; exact Or.inr h
    · rintro (h | h)
      · exact Or.inl h
      · exact h
  | case4 a b rest h ih => simp only [List.mem_cons, ih]

theorem mem_sortAndDedup (y : Loc) (l : List Loc) : y ∈ sortAndDedup l ↔ y ∈ l := by
  simp [sortAndDedup, mem_dedupAdj, mem_isort]

/-! ### the journal map -/

theorem filter_ne_of_not_mem (m : JMap) (k : Path) (h : k ∉ m.keys) : m.filter (·.1 != k) = m := by
  induction m with
  | nil => rfl
  | cons x xs ih =>
    simp only [JMap.keys, List.map_cons, List.mem_cons, not_or] at h
    have hx : (x.1 != k) = true := by
      simp only [bne_iff_ne, ne_eq]
      exact fun e => h.1 e.symm
    simp only [List.filter_cons, hx, if_true]
    rw [ih h.2]

theorem insert_of_not_mem (m : JMap) (k : Path) (v : Journal) (h : k ∉ m.keys) :
    m.insert k v = (k, v) :: m := by
  simp [JMap.insert, filter_ne_of_not_mem m k h]

theorem get_iff_mem (m : JMap) (hn : m.keys.Nodup) (p : Path) (j : Journal) :
    m.get p = some j ↔ (p, j) ∈ m := by
  induction m with
  | nil => simp [JMap.get]
  | cons x xs ih =>
    simp only [JMap.keys, List.map_cons, List.nodup_cons] at hn
    obtain ⟨hx, hn⟩ := hn
    by_cases hk : x.1 = p
    · have hb : (x.1 == p) = true := by simp [hk]
      simp only [JMap.get, List.find?_cons, hb, Option.map_some, Option.some.injEq, List.mem_cons]
      constructor
      · intro h; left; rw [← h, ← hk]
      · rintro (h | h)
        · rw [← h]
        · exfalso; apply hx
          rw [hk]
          exact List.mem_map.mpr ⟨(p, j), h, rfl⟩
    · have hb : (x.1 == p) = false := by simp [hk]
      have := ih hn
      simp only [JMap.get] at this
      simp only [JMap.get, List.find?_cons, hb, List.mem_cons, this]
      constructor
      · intro h; exact Or.inr h
      · rintro (h | h)
        · exfalso; apply hk; rw [← h]
        · exact h

theorem foldl_insert (fs acc : JMap) (h : (acc.keys ++ fs.keys).Nodup) :
    (fs.foldl (fun a (kv : Path × Journal) => a.insert kv.1 kv.2) acc).keys.Nodup ∧
    ∀ x, x ∈ fs.foldl (fun a (kv : Path × Journal) => a.insert kv.1 kv.2) acc ↔ x ∈ acc ∨ x ∈ fs := by
  induction fs generalizing acc with
  | nil =>
    simp only [JMap.keys, List.map_nil, List.append_nil] at h
    simp [JMap.keys, h]
  | cons kv rest ih =>
    have hk : kv.1 ∉ acc.keys := by
      intro hm
      simp only [JMap.keys, List.map_cons] at h
      have := (List.nodup_append.mp h).2.2 kv.1 hm kv.1 (by simp)
      exact this rfl
    simp only [List.foldl_cons]
    rw [insert_of_not_mem acc kv.1 kv.2 hk]
    have h' : (JMap.keys ((kv.1, kv.2) :: acc) ++ JMap.keys rest).Nodup := by
      simp only [JMap.keys, List.map_cons, List.cons_append, List.nodup_cons] at h ⊢
      have hp : (List.map (·.1) acc ++ kv.1 :: List.map (·.1) rest).Perm (kv.1 :: (List.map (·.1) acc ++ List.map (·.1) rest)) :=
        List.perm_middle
      have := (hp.nodup_iff).mp h
      simpa using this
    obtain ⟨h1, h2⟩ := ih ((kv.1, kv.2) :: acc) h'
    refine ⟨h1, fun x => ?_⟩
    rw [h2 x]
    simp only [List.mem_cons]
    constructor
    · rintro ((h | h) | h)
      · right; left; rw [h]
      · left; exact h
      · right; right; exact h
    · rintro (h | h | h)
      · left; right; exact h
      · left; left; rw [h]
      · right; exact h

/-- `allJournalsWithPaths` on a resolved journal whose primary is known and whose paths are
    pairwise different: the map holds exactly the primary under `primaryPath` and the members. -/
theorem journalsWithPaths_spec (r : Resolved) (pp : Path) (p0 : Journal) (cur : Option Journal)
    (hp : r.primary = some p0) (hpp : pp ≠ "") (hn : (pp :: r.files.map (·.1)).Nodup) :
    (journalsWithPaths (some r) pp cur).keys.Nodup ∧
    ∀ x, x ∈ journalsWithPaths (some r) pp cur ↔ x = (pp, p0) ∨ x ∈ r.files := by
  have hne : (pp != "") = true := by simp [hpp]
  simp only [journalsWithPaths, hp, hne, if_true]
  simp only [List.nodup_cons] at hn
  obtain ⟨h1, h2⟩ := foldl_insert r.files [] (by simpa [JMap.keys] using hn.2)
  have hk : pp ∉ JMap.keys (r.files.foldl (fun a (kv : Path × Journal) => a.insert kv.1 kv.2) []) := by
    intro hm
    simp only [JMap.keys, List.mem_map] at hm
    obtain ⟨x, hx, hx1⟩ := hm
    have := (h2 x).mp hx
    simp only [List.not_mem_nil, false_or] at this
    exact hn.1 (List.mem_map.mpr ⟨x, this, hx1⟩)
  rw [insert_of_not_mem _ pp p0 hk]
  refine ⟨?_, fun x => ?_⟩
  · simp only [JMap.keys, List.map_cons, List.nodup_cons]
    exact ⟨hk, h1⟩
  · simp only [List.mem_cons, h2 x, List.not_mem_nil, false_or]

theorem mem_sortedPaths (m : JMap) (p : Path) : p ∈ sortedPaths m ↔ ∃ j, (p, j) ∈ m := by
  simp only [sortedPaths, mem_isort, JMap.keys, List.mem_map]
  constructor
  · rintro ⟨x, hx, rfl⟩; exact ⟨x.2, hx⟩
  · rintro ⟨j, hj⟩; exact ⟨(p, j), hj, rfl⟩

theorem mem_collect (m : JMap) (hn : m.keys.Nodup) (f : Path → Journal → List Loc) (l : Loc) :
    l ∈ collect m f ↔ ∃ p j, (p, j) ∈ m ∧ l ∈ f p j := by
  simp only [collect, List.mem_flatMap]
  constructor
  · rintro ⟨p, _, hl⟩
    cases hg : m.get p with
    | none => simp [hg] at hl
    | some j =>
      simp only [hg] at hl
      exact ⟨p, j, (get_iff_mem m hn p j).mp hg, hl⟩
  · rintro ⟨p, j, hm, hl⟩
    refine ⟨p, (mem_sortedPaths m p).mpr ⟨j, hm⟩, ?_⟩
    rw [(get_iff_mem m hn p j).mpr hm]
    exact hl

/-! ### the searches read off the name-bearing nodes -/

def acctNode (a : Account) (decl : Bool) : TNode := ⟨.account, a.name, accountNameRange a, decl⟩
def comNode (c : Commodity) : TNode := ⟨.commodity, c.symbol, ARange.ofRng c.range, false⟩
def dirComNode (c : Commodity) (decl : Bool) : TNode := ⟨.commodity, c.symbol, directiveCommodityRange c, decl⟩
def payNode (tx : Transaction) : TNode :=
  ⟨.payee, payeeOrDescription tx, estimatePayeeRange tx (payeeOrDescription tx), false⟩

theorem mem_commodityNode (c : Commodity) (n : TNode) :
    n ∈ commodityNode c ↔ c.symbol ≠ [] ∧ n = comNode c := by
  unfold commodityNode
  by_cases h : c.symbol = []
  · simp [h]
  · have : (c.symbol == []) = false := by simpa using h
    simp [this, h, comNode, tokenRange, ARange.ofRng]

theorem mem_postingNodes (p : Posting) (n : TNode) :
    n ∈ postingNodes p ↔ n = acctNode p.account false ∨
      ∃ c ∈ postingCommodities p, c.symbol ≠ [] ∧ n = comNode c := by
  simp only [postingNodes, postingCommodities, List.mem_append, List.mem_singleton]
  cases p.amount <;> cases p.cost <;> cases p.assertion <;>
    simp [mem_commodityNode, acctNode, accountNameRange, nameRange, lexeme, or_assoc]

theorem payeeNode_eq (tx : Transaction) :
    payeeNode tx = if payeeOrDescription tx = [] then [] else [payNode tx] := by
  unfold payeeNode payNode payeeOrDescription estimatePayeeRange
  by_cases hp : tx.payee = [] <;> by_cases hd : tx.description = [] <;> cases hs : tx.status <;>
    simp [hp, hd] <;> decide

theorem mem_txNodes (tx : Transaction) (n : TNode) :
    n ∈ txNodes tx ↔ (payeeOrDescription tx ≠ [] ∧ n = payNode tx) ∨
      ∃ p ∈ tx.postings, n ∈ postingNodes p := by
  simp only [txNodes, List.mem_append, List.mem_flatMap, payeeNode_eq]
  by_cases h : payeeOrDescription tx = [] <;> simp [h]

theorem directiveNodes_eq (d : Directive) :
    directiveNodes d = match d with
      | .account a _ _ _ _ => [acctNode a true]
      | .commodity c _ _ _ _ => if c.symbol = [] then [] else [dirComNode c true]
      | .price _ c p _ => (if c.symbol = [] then [] else [dirComNode c false]) ++
                          (if p.commodity.symbol = [] then [] else [comNode p.commodity])
      | _ => [] := by
  cases d with
  | account a t c s r => simp [directiveNodes, acctNode, accountNameRange, nameRange, lexeme]
  | commodity c f nt s r =>
    by_cases h : c.symbol = []
    · simp [directiveNodes, h]
    · have : (c.symbol == []) = false := by simpa using h
      simp [directiveNodes, this, h, dirComNode, directiveCommodityRange, nameRange, lexeme]
  | price dt c p r =>
    by_cases h : c.symbol = [] <;> by_cases h2 : p.commodity.symbol = [] <;>
      simp [directiveNodes, commodityNode, h, h2, dirComNode, directiveCommodityRange, nameRange, lexeme, comNode, tokenRange, ARange.ofRng]
  | year y r => simp [directiveNodes]
  | defaultCommodity s f r => simp [directiveNodes]

def Match (n : TNode) (kind : Kind) (name : Bytes) (incl : Bool) : Prop :=
  n.kind = kind ∧ n.name = name ∧ (incl = true ∨ n.decl = false)

def locOf (path : Path) (n : TNode) : Loc := ⟨path, toLsp n.range⟩

/-! accounts -/

theorem posting_account (p : Posting) (name : Bytes) (incl : Bool) (path : Path) (l : Loc) :
    (∃ n ∈ postingNodes p, Match n .account name incl ∧ l = locOf path n) ↔
    (p.account.name = name ∧ l = ⟨path, toLsp (accountNameRange p.account)⟩) := by
  constructor
  · rintro ⟨n, hn, ⟨hk, hnm, _⟩, hl⟩
    rcases (mem_postingNodes p n).mp hn with h | ⟨c, _, _, h⟩
    · subst h; exact ⟨hnm, hl⟩
    · subst h; cases hk
  · rintro ⟨hnm, hl⟩
    exact ⟨acctNode p.account false, (mem_postingNodes p _).mpr (Or.inl rfl), ⟨rfl, hnm, Or.inr rfl⟩, hl⟩

theorem tx_account (tx : Transaction) (name : Bytes) (incl : Bool) (path : Path) (l : Loc) :
    (∃ n ∈ txNodes tx, Match n .account name incl ∧ l = locOf path n) ↔
    ∃ p ∈ tx.postings, p.account.name = name ∧ l = ⟨path, toLsp (accountNameRange p.account)⟩ := by
  constructor
  · rintro ⟨n, hn, hm, hl⟩
    rcases (mem_txNodes tx n).mp hn with ⟨_, h⟩ | ⟨p, hp, h⟩
    · subst h; cases hm.1
    · exact ⟨p, hp, (posting_account p name incl path l).mp ⟨n, h, hm, hl⟩⟩
  · rintro ⟨p, hp, h⟩
    obtain ⟨n, hn, hm, hl⟩ := (posting_account p name incl path l).mpr h
    exact ⟨n, (mem_txNodes tx n).mpr (Or.inr ⟨p, hp, hn⟩), hm, hl⟩

theorem dir_account (d : Directive) (name : Bytes) (incl : Bool) (path : Path) (l : Loc) :
    (∃ n ∈ directiveNodes d, Match n .account name incl ∧ l = locOf path n) ↔
    (incl = true ∧ ∃ a t c s r, d = .account a t c s r ∧ a.name = name ∧ l = ⟨path, toLsp (accountNameRange a)⟩) := by
  cases d with
  | account a t c s r =>
    simp only [directiveNodes_eq, List.mem_singleton]
    constructor
    · rintro ⟨n, rfl, ⟨_, hnm, hd⟩, hl⟩
      refine ⟨?_, a, t, c, s, r, rfl, hnm, hl⟩
      rcases hd with h | h
      · exact h
      · cases h
    · rintro ⟨hi, a', t', c', s', r', he, hnm, hl⟩
      cases he
      exact ⟨_, rfl, ⟨rfl, hnm, Or.inl hi⟩, hl⟩
  | commodity c f nt s r =>
    simp only [directiveNodes_eq]
    constructor
    · rintro ⟨n, hn, ⟨hk, _⟩, _⟩
      split at hn
      · cases hn
      · simp only [List.mem_singleton] at hn; subst hn; cases hk
    · rintro ⟨_, a', t', c', s', r', he, _⟩; cases he
  | price dt c p r =>
    simp only [directiveNodes_eq]
    constructor
    · rintro ⟨n, hn, ⟨hk, _⟩, _⟩
      simp only [List.mem_append] at hn
      rcases hn with hn | hn <;> split at hn
      · cases hn
      · simp only [List.mem_singleton] at hn; subst hn; cases hk
      · cases hn
      · simp only [List.mem_singleton] at hn; subst hn; cases hk
    · rintro ⟨_, a', t', c', s', r', he, _⟩; cases he
  | year y r =>
    simp only [directiveNodes_eq]
    constructor
    · rintro ⟨n, hn, _⟩; cases hn
    · rintro ⟨_, a', t', c', s', r', he, _⟩; cases he
  | defaultCommodity s f r =>
    simp only [directiveNodes_eq]
    constructor
    · rintro ⟨n, hn, _⟩; cases hn
    · rintro ⟨_, a', t', c', s', r', he, _⟩; cases he

theorem mem_accountLocs (name : Bytes) (incl : Bool) (path : Path) (j : Journal) (l : Loc) :
    l ∈ accountLocs name incl path j ↔ ∃ n ∈ treeTNodes j, Match n .account name incl ∧ l = locOf path n := by
  simp only [treeTNodes, List.mem_append, List.mem_flatMap]
  constructor
  · intro h
    simp only [accountLocs, List.mem_append, List.mem_flatMap, List.mem_filterMap] at h
    rcases h with h | ⟨tx, htx, p, hp, h⟩
    · split at h
      · rename_i hi
        simp only [List.mem_filterMap] at h
        obtain ⟨d, hd, h⟩ := h
        cases d with
        | account a t c s r =>
          simp only at h
          split at h
          · rename_i hn
            simp only [Option.some.injEq] at h
            obtain ⟨n, hn', hm, hl⟩ := (dir_account (.account a t c s r) name incl path l).mpr
              ⟨hi, a, t, c, s, r, rfl, by simpa using hn, h.symm⟩
            exact ⟨n, Or.inr ⟨_, hd, hn'⟩, hm, hl⟩
          · cases h
        | _ => simp at h
      · cases h
    · split at h
      · rename_i hn
        simp only [Option.some.injEq] at h
        obtain ⟨n, hn', hm, hl⟩ := (tx_account tx name incl path l).mpr ⟨p, hp, by simpa using hn, h.symm⟩
        exact ⟨n, Or.inl ⟨tx, htx, hn'⟩, hm, hl⟩
      · cases h
  · rintro ⟨n, hn, hm, hl⟩
    simp only [accountLocs, List.mem_append, List.mem_flatMap, List.mem_filterMap]
    rcases hn with ⟨tx, htx, hn⟩ | ⟨d, hd, hn⟩
    · obtain ⟨p, hp, hnm, hl'⟩ := (tx_account tx name incl path l).mp ⟨n, hn, hm, hl⟩
      right
      exact ⟨tx, htx, p, hp, by simp [hnm, hl']⟩
    · obtain ⟨hi, a, t, c, s, r, he, hnm, hl'⟩ := (dir_account d name incl path l).mp ⟨n, hn, hm, hl⟩
      left
      simp only [hi, if_true, List.mem_filterMap]
      exact ⟨d, hd, by subst he; simp [hnm, hl']⟩

/-! commodities -/

theorem posting_commodity (p : Posting) (name : Bytes) (hne : name ≠ []) (incl : Bool) (path : Path) (l : Loc) :
    (∃ n ∈ postingNodes p, Match n .commodity name incl ∧ l = locOf path n) ↔
    ∃ c ∈ postingCommodities p, c.symbol = name ∧ l = ⟨path, toLsp (ARange.ofRng c.range)⟩ := by
  constructor
  · rintro ⟨n, hn, ⟨hk, hnm, _⟩, hl⟩
    rcases (mem_postingNodes p n).mp hn with h | ⟨c, hc, _, h⟩
    · subst h; cases hk
    · subst h; exact ⟨c, hc, hnm, hl⟩
  · rintro ⟨c, hc, hnm, hl⟩
    exact ⟨comNode c, (mem_postingNodes p _).mpr (Or.inr ⟨c, hc, by rw [hnm]; exact hne, rfl⟩),
      ⟨rfl, hnm, Or.inr rfl⟩, hl⟩

theorem tx_commodity (tx : Transaction) (name : Bytes) (hne : name ≠ []) (incl : Bool) (path : Path) (l : Loc) :
    (∃ n ∈ txNodes tx, Match n .commodity name incl ∧ l = locOf path n) ↔
    ∃ p ∈ tx.postings, ∃ c ∈ postingCommodities p, c.symbol = name ∧ l = ⟨path, toLsp (ARange.ofRng c.range)⟩ := by
  constructor
  · rintro ⟨n, hn, hm, hl⟩
    rcases (mem_txNodes tx n).mp hn with ⟨_, h⟩ | ⟨p, hp, h⟩
    · subst h; cases hm.1
    · exact ⟨p, hp, (posting_commodity p name hne incl path l).mp ⟨n, h, hm, hl⟩⟩
  · rintro ⟨p, hp, h⟩
    obtain ⟨n, hn, hm, hl⟩ := (posting_commodity p name hne incl path l).mpr h
    exact ⟨n, (mem_txNodes tx n).mpr (Or.inr ⟨p, hp, hn⟩), hm, hl⟩

theorem dir_commodity (d : Directive) (name : Bytes) (hne : name ≠ []) (incl : Bool) (path : Path) (l : Loc) :
    (∃ n ∈ directiveNodes d, Match n .commodity name incl ∧ l = locOf path n) ↔
    l ∈ directiveCommodityLocs name incl path d := by
  cases d with
  | account a t c s r =>
    simp only [directiveNodes_eq, List.mem_singleton, directiveCommodityLocs]
    constructor
    · rintro ⟨n, rfl, ⟨hk, _⟩, _⟩; cases hk
    · intro h; cases h
  | commodity c f nt s r =>
    simp only [directiveNodes_eq, directiveCommodityLocs]
    constructor
    · rintro ⟨n, hn, ⟨_, hnm, hd⟩, hl⟩
      split at hn
      · cases hn
      · simp only [List.mem_singleton] at hn; subst hn
        have hi : incl = true := by
          rcases hd with h | h
          · exact h
          · cases h
        have : c.symbol = name := hnm
        simp [hi, this, hl, locOf, dirComNode]
    · intro h
      split at h
      · rename_i hc
        simp only [Bool.and_eq_true, beq_iff_eq] at hc
        simp only [List.mem_singleton] at h
        have hs : ¬ c.symbol = [] := by rw [hc.2]; exact hne
        refine ⟨dirComNode c true, by simp [hs], ⟨rfl, hc.2, Or.inl hc.1⟩, h⟩
      · cases h
  | price dt c p r =>
    simp only [directiveNodes_eq, directiveCommodityLocs, List.mem_append]
    constructor
    · rintro ⟨n, hn, ⟨_, hnm, _⟩, hl⟩
      rcases hn with hn | hn <;> split at hn
      · cases hn
      · simp only [List.mem_singleton] at hn; subst hn
        have : c.symbol = name := hnm
        left; simp [this, hl, locOf, dirComNode]
      · cases hn
      · simp only [List.mem_singleton] at hn; subst hn
        have : p.commodity.symbol = name := hnm
        right; simp [this, hl, locOf, comNode]
    · rintro (h | h) <;> split at h
      · rename_i hc
        simp only [beq_iff_eq] at hc
        simp only [List.mem_singleton] at h
        have hs : ¬ c.symbol = [] := by rw [hc]; exact hne
        exact ⟨dirComNode c false, Or.inl (by simp [hs]), ⟨rfl, hc, Or.inr rfl⟩, h⟩
      · cases h
      · rename_i hc
        simp only [beq_iff_eq] at hc
        simp only [List.mem_singleton] at h
        have hs : ¬ p.commodity.symbol = [] := by rw [hc]; exact hne
        exact ⟨comNode p.commodity, Or.inr (by simp [hs]), ⟨rfl, hc, Or.inr rfl⟩, h⟩
      · cases h
  | year y r =>
    simp only [directiveNodes_eq, directiveCommodityLocs]
    constructor
    · rintro ⟨n, hn, _⟩; cases hn
    · intro h; cases h
  | defaultCommodity s f r =>
    simp only [directiveNodes_eq, directiveCommodityLocs]
    constructor
    · rintro ⟨n, hn, _⟩; cases hn
    · intro h; cases h

theorem mem_commodityLocs (name : Bytes) (hne : name ≠ []) (incl : Bool) (path : Path) (j : Journal) (l : Loc) :
    l ∈ commodityLocs name incl path j ↔ ∃ n ∈ treeTNodes j, Match n .commodity name incl ∧ l = locOf path n := by
  simp only [treeTNodes, List.mem_append, List.mem_flatMap, commodityLocs, List.mem_filterMap]
  constructor
  · rintro (⟨d, hd, h⟩ | ⟨tx, htx, p, hp, c, hc, h⟩)
    · obtain ⟨n, hn, hm, hl⟩ := (dir_commodity d name hne incl path l).mpr h
      exact ⟨n, Or.inr ⟨d, hd, hn⟩, hm, hl⟩
    · split at h
      · rename_i hs
        simp only [Option.some.injEq] at h
        obtain ⟨n, hn, hm, hl⟩ := (tx_commodity tx name hne incl path l).mpr ⟨p, hp, c, hc, by simpa using hs, h.symm⟩
        exact ⟨n, Or.inl ⟨tx, htx, hn⟩, hm, hl⟩
      · cases h
  · rintro ⟨n, hn, hm, hl⟩
    rcases hn with ⟨tx, htx, hn⟩ | ⟨d, hd, hn⟩
    · obtain ⟨p, hp, c, hc, hs, hl'⟩ := (tx_commodity tx name hne incl path l).mp ⟨n, hn, hm, hl⟩
      right
      exact ⟨tx, htx, p, hp, c, hc, by simp [hs, hl']⟩
    · left
      exact ⟨d, hd, (dir_commodity d name hne incl path l).mp ⟨n, hn, hm, hl⟩⟩

/-! payees -/

theorem mem_payeeLocs (name : Bytes) (hne : name ≠ []) (incl : Bool) (path : Path) (j : Journal) (l : Loc) :
    l ∈ payeeLocs name path j ↔ ∃ n ∈ treeTNodes j, Match n .payee name incl ∧ l = locOf path n := by
  simp only [treeTNodes, List.mem_append, List.mem_flatMap, payeeLocs, List.mem_filterMap]
  constructor
  · rintro ⟨tx, htx, h⟩
    split at h
    · rename_i hs
      simp only [beq_iff_eq] at hs
      simp only [Option.some.injEq] at h
      refine ⟨payNode tx, Or.inl ⟨tx, htx, (mem_txNodes tx _).mpr (Or.inl ⟨by rw [hs]; exact hne, rfl⟩)⟩,
        ⟨rfl, hs, Or.inr rfl⟩, ?_⟩
      rw [← h]; simp [locOf, payNode, hs]
    · cases h
  · rintro ⟨n, hn, ⟨hk, hnm, _⟩, hl⟩
    rcases hn with ⟨tx, htx, hn⟩ | ⟨d, hd, hn⟩
    · rcases (mem_txNodes tx n).mp hn with ⟨_, h⟩ | ⟨p, _, h⟩
      · subst h
        have : payeeOrDescription tx = name := hnm
        exact ⟨tx, htx, by simp [this, hl, locOf, payNode]⟩
      · rcases (mem_postingNodes p n).mp h with h | ⟨c, _, _, h⟩ <;> (subst h; cases hk)
    · exfalso
      rw [directiveNodes_eq] at hn
      cases d with
      | account a t c s r => simp only [List.mem_singleton] at hn; subst hn; cases hk
      | commodity c f nt s r =>
        simp only at hn
        split at hn
        · cases hn
        · simp only [List.mem_singleton] at hn; subst hn; cases hk
      | price dt c p r =>
        simp only [List.mem_append] at hn
        rcases hn with hn | hn <;> split at hn
        · cases hn
        · simp only [List.mem_singleton] at hn; subst hn; cases hk
        · cases hn
        · simp only [List.mem_singleton] at hn; subst hn; cases hk
      | year y r => cases hn
      | defaultCommodity s f r => cases hn

end HL.Lemmas.Refs
