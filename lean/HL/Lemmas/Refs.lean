/-
  Helper lemmas for C09 (HL/Props/C09.lean): sorting and de-duplication keep membership, the
  journal map of `allJournalsWithPaths`, the three searches read off exactly the name-bearing
  nodes of a tree, `findDefinitionTarget` finds exactly the node under the cursor.
-/
import HL.Model.Refs
import HL.Spec.Occurrences
import HL.Lemmas.Text
namespace HL.Lemmas.Refs
open HL HL.Ast HL.Refs HL.Spec.Occ

-- The lines of the text the positions of one file are converted with (implicit in every lemma
-- about one file).
variable {lns : Lines}

/-! ### sorting, de-duplication -/

theorem mem_insSorted {α} (lt : α → α → Bool) (x y : α) (l : List α) :
    y ∈ insSorted lt x l ↔ y = x ∨ y ∈ l := by
  induction l with
  | nil => simp [insSorted]
  | cons z zs ih =>
    unfold insSorted
    split
    · simp
    · simp only [List.mem_cons, ih]
      constructor
      · rintro (h | h | h) <;> simp [h]
      · rintro (h | h | h) <;> simp [h]

theorem mem_isort {α} (lt : α → α → Bool) (y : α) (l : List α) : y ∈ isort lt l ↔ y ∈ l := by
  induction l with
  | nil => simp [isort]
  | cons x xs ih => simp [isort, mem_insSorted, ih]

theorem mem_dedupAdj (y : Loc) (l : List Loc) : y ∈ dedupAdj l ↔ y ∈ l := by
  fun_induction dedupAdj l with
  | case1 => simp
  | case2 a => simp
  | case3 a rest ih =>
    simp only [ih, List.mem_cons]
    constructor
    · intro h; exact Or.inr h
    · rintro (h | h)
      · exact Or.inl h
      · exact h
  | case4 a b rest h ih => simp only [List.mem_cons, ih]

theorem mem_sortAndDedup (y : Loc) (l : List Loc) : y ∈ sortAndDedup l ↔ y ∈ l := by
  simp [sortAndDedup, mem_dedupAdj, mem_isort]

/-! ### the journal map -/

theorem filter_ne_of_not_mem (m : JMap) (k : Path) (h : k ∉ m.keys) : m.filter (·.1 != k) = m := by
  induction m with
  | nil => rfl
  | cons x xs ih =>
    simp only [JMap.keys, List.map_cons, List.mem_cons, not_or] at h
    have hx : (x.1 != k) = true := by
      simp only [bne_iff_ne, ne_eq]
      exact fun e => h.1 e.symm
    simp only [List.filter_cons, hx, if_true]
    rw [ih h.2]

theorem insert_of_not_mem (m : JMap) (k : Path) (v : Journal) (h : k ∉ m.keys) :
    m.insert k v = (k, v) :: m := by
  simp [JMap.insert, filter_ne_of_not_mem m k h]

theorem get_iff_mem (m : JMap) (hn : m.keys.Nodup) (p : Path) (j : Journal) :
    m.get p = some j ↔ (p, j) ∈ m := by
  induction m with
  | nil => simp [JMap.get]
  | cons x xs ih =>
    simp only [JMap.keys, List.map_cons, List.nodup_cons] at hn
    obtain ⟨hx, hn⟩ := hn
    by_cases hk : x.1 = p
    · have hb : (x.1 == p) = true := by simp [hk]
      simp only [JMap.get, List.find?_cons, hb, Option.map_some, Option.some.injEq, List.mem_cons]
      constructor
      · intro h; left; rw [← h, ← hk]
      · rintro (h | h)
        · rw [← h]
        · exfalso; apply hx
          rw [hk]
          exact List.mem_map.mpr ⟨(p, j), h, rfl⟩
    · have hb : (x.1 == p) = false := by simp [hk]
      have := ih hn
      simp only [JMap.get] at this
      simp only [JMap.get, List.find?_cons, hb, List.mem_cons, this]
      constructor
      · intro h; exact Or.inr h
      · rintro (h | h)
        · exfalso; apply hk; rw [← h]
        · exact h

theorem foldl_insert (fs acc : JMap) (h : (acc.keys ++ fs.keys).Nodup) :
    (fs.foldl (fun a (kv : Path × Journal) => a.insert kv.1 kv.2) acc).keys.Nodup ∧
    ∀ x, x ∈ fs.foldl (fun a (kv : Path × Journal) => a.insert kv.1 kv.2) acc ↔ x ∈ acc ∨ x ∈ fs := by
  induction fs generalizing acc with
  | nil =>
    simp only [JMap.keys, List.map_nil, List.append_nil] at h
    simp [JMap.keys, h]
  | cons kv rest ih =>
    have hk : kv.1 ∉ acc.keys := by
      intro hm
      simp only [JMap.keys, List.map_cons] at h
      have := (List.nodup_append.mp h).2.2 kv.1 hm kv.1 (by simp)
      exact this rfl
    simp only [List.foldl_cons]
    rw [insert_of_not_mem acc kv.1 kv.2 hk]
    have h' : (JMap.keys ((kv.1, kv.2) :: acc) ++ JMap.keys rest).Nodup := by
      simp only [JMap.keys, List.map_cons, List.cons_append, List.nodup_cons] at h ⊢
      have hp : (List.map (·.1) acc ++ kv.1 :: List.map (·.1) rest).Perm (kv.1 :: (List.map (·.1) acc ++ List.map (·.1) rest)) :=
        List.perm_middle
      have := (hp.nodup_iff).mp h
      simpa using this
    obtain ⟨h1, h2⟩ := ih ((kv.1, kv.2) :: acc) h'
    refine ⟨h1, fun x => ?_⟩
    rw [h2 x]
    simp only [List.mem_cons]
    constructor
    · rintro ((h | h) | h)
      · right; left; rw [h]
      · left; exact h
      · right; right; exact h
    · rintro (h | h | h)
      · left; right; exact h
      · left; left; rw [h]
      · right; exact h

/-- `allJournalsWithPaths` on a resolved journal whose primary is known and whose paths are
    pairwise different: the map holds exactly the primary under `primaryPath` and the members. -/
theorem journalsWithPaths_spec (r : Resolved) (pp : Path) (p0 : Journal) (cur : Option Journal)
    (hp : r.primary = some p0) (hpp : pp ≠ "") (hn : (pp :: r.files.map (·.1)).Nodup) :
    (journalsWithPaths (some r) pp cur).keys.Nodup ∧
    ∀ x, x ∈ journalsWithPaths (some r) pp cur ↔ x = (pp, p0) ∨ x ∈ r.files := by
  have hne : (pp != "") = true := by simp [hpp]
  simp only [journalsWithPaths, hp, hne, if_true]
  simp only [List.nodup_cons] at hn
  obtain ⟨h1, h2⟩ := foldl_insert r.files [] (by simpa [JMap.keys] using hn.2)
  have hk : pp ∉ JMap.keys (r.files.foldl (fun a (kv : Path × Journal) => a.insert kv.1 kv.2) []) := by
    intro hm
    simp only [JMap.keys, List.mem_map] at hm
    obtain ⟨x, hx, hx1⟩ := hm
    have := (h2 x).mp hx
    simp only [List.not_mem_nil, false_or] at this
    exact hn.1 (List.mem_map.mpr ⟨x, this, hx1⟩)
  rw [insert_of_not_mem _ pp p0 hk]
  refine ⟨?_, fun x => ?_⟩
  · simp only [JMap.keys, List.map_cons, List.nodup_cons]
    exact ⟨hk, h1⟩
  · simp only [List.mem_cons, h2 x, List.not_mem_nil, false_or]

theorem mem_sortedPaths (m : JMap) (p : Path) : p ∈ sortedPaths m ↔ ∃ j, (p, j) ∈ m := by
  simp only [sortedPaths, mem_isort, JMap.keys, List.mem_map]
  constructor
  · rintro ⟨x, hx, rfl⟩; exact ⟨x.2, hx⟩
  · rintro ⟨j, hj⟩; exact ⟨(p, j), hj, rfl⟩

theorem mem_collect (m : JMap) (hn : m.keys.Nodup) (f : Path → Journal → List Loc) (l : Loc) :
    l ∈ collect m f ↔ ∃ p j, (p, j) ∈ m ∧ l ∈ f p j := by
  simp only [collect, List.mem_flatMap]
  constructor
  · rintro ⟨p, _, hl⟩
    cases hg : m.get p with
    | none => simp [hg] at hl
    | some j =>
      simp only [hg] at hl
      exact ⟨p, j, (get_iff_mem m hn p j).mp hg, hl⟩
  · rintro ⟨p, j, hm, hl⟩
    refine ⟨p, (mem_sortedPaths m p).mpr ⟨j, hm⟩, ?_⟩
    rw [(get_iff_mem m hn p j).mpr hm]
    exact hl

/-! ### the searches read off the name-bearing nodes -/

def acctNode (a : Account) (decl : Bool) : TNode := ⟨.account, a.name, accountNameRange a, decl⟩
def comNode (c : Commodity) : TNode := ⟨.commodity, c.symbol, ARange.ofRng c.range, false⟩
def dirComNode (c : Commodity) (decl : Bool) : TNode := ⟨.commodity, c.symbol, directiveCommodityRange c, decl⟩
def payNode (lns : Lines) (tx : Transaction) : TNode :=
  ⟨.payee, payeeOrDescription tx, payeeRange lns tx (payeeOrDescription tx), false⟩

theorem mem_commodityNode (c : Commodity) (n : TNode) :
    n ∈ commodityNode c ↔ c.symbol ≠ [] ∧ n = comNode c := by
  unfold commodityNode
  by_cases h : c.symbol = []
  · simp [h]
  · have : (c.symbol == []) = false := by simpa using h
    simp [this, h, comNode, tokenRange, ARange.ofRng]

theorem mem_postingNodes (p : Posting) (n : TNode) :
    n ∈ postingNodes p ↔ n = acctNode p.account false ∨
      ∃ c ∈ postingCommodities p, c.symbol ≠ [] ∧ n = comNode c := by
  simp only [postingNodes, postingCommodities, List.mem_append, List.mem_singleton]
  cases p.amount <;> cases p.cost <;> cases p.assertion <;>
    simp [mem_commodityNode, acctNode, accountNameRange, nameRange, lexeme, or_assoc]

theorem payeeNode_eq (tx : Transaction) :
    payeeNode lns tx = if payeeOrDescription tx = [] then [] else [payNode lns tx] := by
  unfold payeeNode payNode payeeOrDescription payeeRange estimatePayeeRange
  cases HL.PayeeRange.payeeStart lns tx.date.range.start.line tx.date.range.stop.col <;>
  by_cases hp : tx.payee = [] <;> by_cases hd : tx.description = [] <;> cases hs : tx.status <;>
    simp [hp, hd] <;> decide

theorem mem_txNodes (tx : Transaction) (n : TNode) :
    n ∈ txNodes lns tx ↔ (payeeOrDescription tx ≠ [] ∧ n = payNode lns tx) ∨
      ∃ p ∈ tx.postings, n ∈ postingNodes p := by
  simp only [txNodes, List.mem_append, List.mem_flatMap, payeeNode_eq]
  by_cases h : payeeOrDescription tx = [] <;> simp [h]

theorem directiveNodes_eq (d : Directive) :
    directiveNodes d = match d with
      | .account a _ _ _ _ => [acctNode a true]
      | .commodity c _ _ _ _ => if c.symbol = [] then [] else [dirComNode c true]
      | .price _ c p _ => (if c.symbol = [] then [] else [dirComNode c false]) ++
                          (if p.commodity.symbol = [] then [] else [comNode p.commodity])
      | _ => [] := by
  cases d with
  | account a t c s r => simp [directiveNodes, acctNode, accountNameRange, nameRange, lexeme]
  | commodity c f nt s r =>
    by_cases h : c.symbol = []
    · simp [directiveNodes, h]
    · have : (c.symbol == []) = false := by simpa using h
      simp [directiveNodes, this, h, dirComNode, directiveCommodityRange, directiveLexeme, nameRange, lexeme, tokenRange, ARange.ofRng]
  | price dt c p r =>
    by_cases h : c.symbol = [] <;> by_cases h2 : p.commodity.symbol = [] <;>
      simp [directiveNodes, commodityNode, h, h2, dirComNode, directiveCommodityRange, directiveLexeme, nameRange, lexeme, comNode, tokenRange, ARange.ofRng]
  | year y r => simp [directiveNodes]
  | defaultCommodity s f r => simp [directiveNodes]

def Match (n : TNode) (kind : Kind) (name : Bytes) (incl : Bool) : Prop :=
  n.kind = kind ∧ n.name = name ∧ (incl = true ∨ n.decl = false)

def locOf (lns : Lines) (path : Path) (n : TNode) : Loc := ⟨path, toLsp lns n.range⟩

/-! accounts -/

theorem posting_account (p : Posting) (name : Bytes) (incl : Bool) (path : Path) (l : Loc) :
    (∃ n ∈ postingNodes p, Match n .account name incl ∧ l = locOf lns path n) ↔
    (p.account.name = name ∧ l = ⟨path, toLsp lns (accountNameRange p.account)⟩) := by
  constructor
  · rintro ⟨n, hn, ⟨hk, hnm, _⟩, hl⟩
    rcases (mem_postingNodes p n).mp hn with h | ⟨c, _, _, h⟩
    · subst h; exact ⟨hnm, hl⟩
    · subst h; cases hk
  · rintro ⟨hnm, hl⟩
    exact ⟨acctNode p.account false, (mem_postingNodes p _).mpr (Or.inl rfl), ⟨rfl, hnm, Or.inr rfl⟩, hl⟩

theorem tx_account (tx : Transaction) (name : Bytes) (incl : Bool) (path : Path) (l : Loc) :
    (∃ n ∈ txNodes lns tx, Match n .account name incl ∧ l = locOf lns path n) ↔
    ∃ p ∈ tx.postings, p.account.name = name ∧ l = ⟨path, toLsp lns (accountNameRange p.account)⟩ := by
  constructor
  · rintro ⟨n, hn, hm, hl⟩
    rcases (mem_txNodes tx n).mp hn with ⟨_, h⟩ | ⟨p, hp, h⟩
    · subst h; cases hm.1
    · exact ⟨p, hp, (posting_account p name incl path l).mp ⟨n, h, hm, hl⟩⟩
  · rintro ⟨p, hp, h⟩
    obtain ⟨n, hn, hm, hl⟩ := (posting_account p name incl path l).mpr h
    exact ⟨n, (mem_txNodes tx n).mpr (Or.inr ⟨p, hp, hn⟩), hm, hl⟩

theorem dir_account (d : Directive) (name : Bytes) (incl : Bool) (path : Path) (l : Loc) :
    (∃ n ∈ directiveNodes d, Match n .account name incl ∧ l = locOf lns path n) ↔
    (incl = true ∧ ∃ a t c s r, d = .account a t c s r ∧ a.name = name ∧ l = ⟨path, toLsp lns (accountNameRange a)⟩) := by
  cases d with
  | account a t c s r =>
    simp only [directiveNodes_eq, List.mem_singleton]
    constructor
    · rintro ⟨n, rfl, ⟨_, hnm, hd⟩, hl⟩
      refine ⟨?_, a, t, c, s, r, rfl, hnm, hl⟩
      rcases hd with h | h
      · exact h
      · cases h
    · rintro ⟨hi, a', t', c', s', r', he, hnm, hl⟩
      cases he
      exact ⟨_, rfl, ⟨rfl, hnm, Or.inl hi⟩, hl⟩
  | commodity c f nt s r =>
    simp only [directiveNodes_eq]
    constructor
    · rintro ⟨n, hn, ⟨hk, _⟩, _⟩
      split at hn
      · cases hn
      · simp only [List.mem_singleton] at hn; subst hn; cases hk
    · rintro ⟨_, a', t', c', s', r', he, _⟩; cases he
  | price dt c p r =>
    simp only [directiveNodes_eq]
    constructor
    · rintro ⟨n, hn, ⟨hk, _⟩, _⟩
      simp only [List.mem_append] at hn
      rcases hn with hn | hn <;> split at hn
      · cases hn
      · simp only [List.mem_singleton] at hn; subst hn; cases hk
      · cases hn
      · simp only [List.mem_singleton] at hn; subst hn; cases hk
    · rintro ⟨_, a', t', c', s', r', he, _⟩; cases he
  | year y r =>
    simp only [directiveNodes_eq]
    constructor
    · rintro ⟨n, hn, _⟩; cases hn
    · rintro ⟨_, a', t', c', s', r', he, _⟩; cases he
  | defaultCommodity s f r =>
    simp only [directiveNodes_eq]
    constructor
    · rintro ⟨n, hn, _⟩; cases hn
    · rintro ⟨_, a', t', c', s', r', he, _⟩; cases he

theorem mem_accountLocs (name : Bytes) (incl : Bool) (path : Path) (j : Journal) (l : Loc) :
    l ∈ accountLocs lns name incl path j ↔ ∃ n ∈ treeTNodes lns j, Match n .account name incl ∧ l = locOf lns path n := by
  simp only [treeTNodes, List.mem_append, List.mem_flatMap]
  constructor
  · intro h
    simp only [accountLocs, List.mem_append, List.mem_flatMap, List.mem_filterMap] at h
    rcases h with h | ⟨tx, htx, p, hp, h⟩
    · split at h
      · rename_i hi
        simp only [List.mem_filterMap] at h
        obtain ⟨d, hd, h⟩ := h
        cases d with
        | account a t c s r =>
          simp only at h
          split at h
          · rename_i hn
            simp only [Option.some.injEq] at h
            obtain ⟨n, hn', hm, hl⟩ := (dir_account (.account a t c s r) name incl path l).mpr
              ⟨hi, a, t, c, s, r, rfl, by simpa using hn, h.symm⟩
            exact ⟨n, Or.inr ⟨_, hd, hn'⟩, hm, hl⟩
          · cases h
        | _ => simp at h
      · cases h
    · split at h
      · rename_i hn
        simp only [Option.some.injEq] at h
        obtain ⟨n, hn', hm, hl⟩ := (tx_account tx name incl path l).mpr ⟨p, hp, by simpa using hn, h.symm⟩
        exact ⟨n, Or.inl ⟨tx, htx, hn'⟩, hm, hl⟩
      · cases h
  · rintro ⟨n, hn, hm, hl⟩
    simp only [accountLocs, List.mem_append, List.mem_flatMap, List.mem_filterMap]
    rcases hn with ⟨tx, htx, hn⟩ | ⟨d, hd, hn⟩
    · obtain ⟨p, hp, hnm, hl'⟩ := (tx_account tx name incl path l).mp ⟨n, hn, hm, hl⟩
      right
      exact ⟨tx, htx, p, hp, by simp [hnm, hl']⟩
    · obtain ⟨hi, a, t, c, s, r, he, hnm, hl'⟩ := (dir_account d name incl path l).mp ⟨n, hn, hm, hl⟩
      left
      simp only [hi, if_true, List.mem_filterMap]
      exact ⟨d, hd, by subst he; simp [hnm, hl']⟩

/-! commodities -/

theorem posting_commodity (p : Posting) (name : Bytes) (hne : name ≠ []) (incl : Bool) (path : Path) (l : Loc) :
    (∃ n ∈ postingNodes p, Match n .commodity name incl ∧ l = locOf lns path n) ↔
    ∃ c ∈ postingCommodities p, c.symbol = name ∧ l = ⟨path, toLsp lns (ARange.ofRng c.range)⟩ := by
  constructor
  · rintro ⟨n, hn, ⟨hk, hnm, _⟩, hl⟩
    rcases (mem_postingNodes p n).mp hn with h | ⟨c, hc, _, h⟩
    · subst h; cases hk
    · subst h; exact ⟨c, hc, hnm, hl⟩
  · rintro ⟨c, hc, hnm, hl⟩
    exact ⟨comNode c, (mem_postingNodes p _).mpr (Or.inr ⟨c, hc, by rw [hnm]; exact hne, rfl⟩),
      ⟨rfl, hnm, Or.inr rfl⟩, hl⟩

theorem tx_commodity (tx : Transaction) (name : Bytes) (hne : name ≠ []) (incl : Bool) (path : Path) (l : Loc) :
    (∃ n ∈ txNodes lns tx, Match n .commodity name incl ∧ l = locOf lns path n) ↔
    ∃ p ∈ tx.postings, ∃ c ∈ postingCommodities p, c.symbol = name ∧ l = ⟨path, toLsp lns (ARange.ofRng c.range)⟩ := by
  constructor
  · rintro ⟨n, hn, hm, hl⟩
    rcases (mem_txNodes tx n).mp hn with ⟨_, h⟩ | ⟨p, hp, h⟩
    · subst h; cases hm.1
    · exact ⟨p, hp, (posting_commodity p name hne incl path l).mp ⟨n, h, hm, hl⟩⟩
  · rintro ⟨p, hp, h⟩
    obtain ⟨n, hn, hm, hl⟩ := (posting_commodity p name hne incl path l).mpr h
    exact ⟨n, (mem_txNodes tx n).mpr (Or.inr ⟨p, hp, hn⟩), hm, hl⟩

theorem dir_commodity (d : Directive) (name : Bytes) (hne : name ≠ []) (incl : Bool) (path : Path) (l : Loc) :
    (∃ n ∈ directiveNodes d, Match n .commodity name incl ∧ l = locOf lns path n) ↔
    l ∈ directiveCommodityLocs lns name incl path d := by
  cases d with
  | account a t c s r =>
    simp only [directiveNodes_eq, List.mem_singleton, directiveCommodityLocs]
    constructor
    · rintro ⟨n, rfl, ⟨hk, _⟩, _⟩; cases hk
    · intro h; cases h
  | commodity c f nt s r =>
    simp only [directiveNodes_eq, directiveCommodityLocs]
    constructor
    · rintro ⟨n, hn, ⟨_, hnm, hd⟩, hl⟩
      split at hn
      · cases hn
      · simp only [List.mem_singleton] at hn; subst hn
        have hi : incl = true := by
          rcases hd with h | h
          · exact h
          · cases h
        have : c.symbol = name := hnm
        simp [hi, this, hl, locOf, dirComNode]
    · intro h
      split at h
      · rename_i hc
        simp only [Bool.and_eq_true, beq_iff_eq] at hc
        simp only [List.mem_singleton] at h
        have hs : ¬ c.symbol = [] := by rw [hc.2]; exact hne
        refine ⟨dirComNode c true, by simp [hs], ⟨rfl, hc.2, Or.inl hc.1⟩, h⟩
      · cases h
  | price dt c p r =>
    simp only [directiveNodes_eq, directiveCommodityLocs, List.mem_append]
    constructor
    · rintro ⟨n, hn, ⟨_, hnm, _⟩, hl⟩
      rcases hn with hn | hn <;> split at hn
      · cases hn
      · simp only [List.mem_singleton] at hn; subst hn
        have : c.symbol = name := hnm
        left; simp [this, hl, locOf, dirComNode]
      · cases hn
      · simp only [List.mem_singleton] at hn; subst hn
        have : p.commodity.symbol = name := hnm
        right; simp [this, hl, locOf, comNode]
    · rintro (h | h) <;> split at h
      · rename_i hc
        simp only [beq_iff_eq] at hc
        simp only [List.mem_singleton] at h
        have hs : ¬ c.symbol = [] := by rw [hc]; exact hne
        exact ⟨dirComNode c false, Or.inl (by simp [hs]), ⟨rfl, hc, Or.inr rfl⟩, h⟩
      · cases h
      · rename_i hc
        simp only [beq_iff_eq] at hc
        simp only [List.mem_singleton] at h
        have hs : ¬ p.commodity.symbol = [] := by rw [hc]; exact hne
        exact ⟨comNode p.commodity, Or.inr (by simp [hs]), ⟨rfl, hc, Or.inr rfl⟩, h⟩
      · cases h
  | year y r =>
    simp only [directiveNodes_eq, directiveCommodityLocs]
    constructor
    · rintro ⟨n, hn, _⟩; cases hn
    · intro h; cases h
  | defaultCommodity s f r =>
    simp only [directiveNodes_eq, directiveCommodityLocs]
    constructor
    · rintro ⟨n, hn, _⟩; cases hn
    · intro h; cases h

theorem mem_commodityLocs (name : Bytes) (hne : name ≠ []) (incl : Bool) (path : Path) (j : Journal) (l : Loc) :
    l ∈ commodityLocs lns name incl path j ↔ ∃ n ∈ treeTNodes lns j, Match n .commodity name incl ∧ l = locOf lns path n := by
  simp only [treeTNodes, List.mem_append, List.mem_flatMap, commodityLocs, List.mem_filterMap]
  constructor
  · rintro (⟨d, hd, h⟩ | ⟨tx, htx, p, hp, c, hc, h⟩)
    · obtain ⟨n, hn, hm, hl⟩ := (dir_commodity d name hne incl path l).mpr h
      exact ⟨n, Or.inr ⟨d, hd, hn⟩, hm, hl⟩
    · split at h
      · rename_i hs
        simp only [Option.some.injEq] at h
        obtain ⟨n, hn, hm, hl⟩ := (tx_commodity tx name hne incl path l).mpr ⟨p, hp, c, hc, by simpa using hs, h.symm⟩
        exact ⟨n, Or.inl ⟨tx, htx, hn⟩, hm, hl⟩
      · cases h
  · rintro ⟨n, hn, hm, hl⟩
    rcases hn with ⟨tx, htx, hn⟩ | ⟨d, hd, hn⟩
    · obtain ⟨p, hp, c, hc, hs, hl'⟩ := (tx_commodity tx name hne incl path l).mp ⟨n, hn, hm, hl⟩
      right
      exact ⟨tx, htx, p, hp, c, hc, by simp [hs, hl']⟩
    · left
      exact ⟨d, hd, (dir_commodity d name hne incl path l).mp ⟨n, hn, hm, hl⟩⟩

/-! payees -/

theorem mem_payeeLocs (name : Bytes) (hne : name ≠ []) (incl : Bool) (path : Path) (j : Journal) (l : Loc) :
    l ∈ payeeLocs lns name path j ↔ ∃ n ∈ treeTNodes lns j, Match n .payee name incl ∧ l = locOf lns path n := by
  simp only [treeTNodes, List.mem_append, List.mem_flatMap, payeeLocs, List.mem_filterMap]
  constructor
  · rintro ⟨tx, htx, h⟩
    split at h
    · rename_i hs
      simp only [beq_iff_eq] at hs
      simp only [Option.some.injEq] at h
      refine ⟨payNode lns tx, Or.inl ⟨tx, htx, (mem_txNodes tx _).mpr (Or.inl ⟨by rw [hs]; exact hne, rfl⟩)⟩,
        ⟨rfl, hs, Or.inr rfl⟩, ?_⟩
      rw [← h]; simp [locOf, payNode, hs]
    · cases h
  · rintro ⟨n, hn, ⟨hk, hnm, _⟩, hl⟩
    rcases hn with ⟨tx, htx, hn⟩ | ⟨d, hd, hn⟩
    · rcases (mem_txNodes tx n).mp hn with ⟨_, h⟩ | ⟨p, _, h⟩
      · subst h
        have : payeeOrDescription tx = name := hnm
        exact ⟨tx, htx, by simp [this, hl, locOf, payNode]⟩
      · rcases (mem_postingNodes p n).mp h with h | ⟨c, _, _, h⟩ <;> (subst h; cases hk)
    · exfalso
      rw [directiveNodes_eq] at hn
      cases d with
      | account a t c s r => simp only [List.mem_singleton] at hn; subst hn; cases hk
      | commodity c f nt s r =>
        simp only at hn
        split at hn
        · cases hn
        · simp only [List.mem_singleton] at hn; subst hn; cases hk
      | price dt c p r =>
        simp only [List.mem_append] at hn
        rcases hn with hn | hn <;> split at hn
        · cases hn
        · simp only [List.mem_singleton] at hn; subst hn; cases hk
        · cases hn
        · simp only [List.mem_singleton] at hn; subst hn; cases hk
      | year y r => cases hn
      | defaultCommodity s f r => cases hn

/-! ### findDefinitionTarget -/

def tgt (lns : Lines) (n : TNode) : Target := ⟨n.kind, n.name, toLsp lns n.range⟩

theorem u32pred_of_sane (n : Nat) (h1 : 1 ≤ n) (h2 : n ≤ 4294967296) : u32pred n = n - 1 := by
  unfold u32pred
  have : n ≠ 0 := by omega
  simp only [this, if_false]
  apply Nat.mod_eq_of_lt
  omega

theorem inRange_arith (L C sl sc ec : Nat) (h1 : 1 ≤ sl) (h4 : 1 ≤ sc) (h5 : sc ≤ ec) :
    positionInRange ⟨L, C⟩ ⟨sl, sc, sl, ec⟩ =
      ((sl - 1 == L) && (sl - 1 == L) && decide (sc - 1 ≤ C) && decide (C ≤ ec - 1)) := by
  unfold positionInRange
  by_cases hl : L + 1 = sl
  · subst hl
    by_cases c1 : C + 1 < sc
    · have : ¬ (sc - 1 ≤ C) := by omega
      simp [c1, this]
    · by_cases c2 : C + 1 > ec
      · have : ¬ (C ≤ ec - 1) := by omega
        simp [c1, c2, this]
      · have a : sc - 1 ≤ C := by omega
        have b : C ≤ ec - 1 := by omega
        have c2' : ¬ (ec < C + 1) := by omega
        simp [c1, c2', a, b]
  · have e1 : ¬ (sl - 1 = L) := by omega
    have : L + 1 < sl ∨ sl < L + 1 := by omega
    rcases this with h | h <;> simp [e1, h]

/-- The rune index `UTF16OffsetToRuneOffset` computes for the UTF-16 length of a whole prefix
    is the length of that prefix. -/
theorem takeU16_u16len_take (l : HL.Text.Txt) (k : Nat) (hk : k ≤ l.length) :
    HL.Text.takeU16 l (HL.Text.u16len (l.take k)) = k := by
  induction l generalizing k with
  | nil => simp at hk; subst hk; simp [HL.Text.takeU16]
  | cons c cs ih =>
    cases k with
    | zero => simp [HL.Text.takeU16, HL.Text.u16len]
    | succ k =>
      have hp := HL.Lemmas.Text.u16w_pos c
      simp only [List.take_succ_cons, HL.Text.u16len, HL.Text.takeU16]
      have h0 : ¬ (HL.Text.u16w c + HL.Text.u16len (cs.take k) = 0) := by omega
      simp only [h0, if_false, Nat.add_sub_cancel_left, ih k (by simpa using hk)]
      omega

/-- Prefixes inside the line are ordered by UTF-16 length exactly as by length. -/
theorem u16len_take_le_iff (l : HL.Text.Txt) {a k : Nat} (ha : a ≤ l.length) (hk : k ≤ l.length) :
    HL.Text.u16len (l.take a) ≤ HL.Text.u16len (l.take k) ↔ a ≤ k := by
  constructor
  · intro h
    rcases Nat.lt_or_ge k a with hlt | hge
    · have := HL.Lemmas.Text.u16len_take_lt l a k hlt ha
      omega
    · exact hge
  · intro h
    rcases Nat.lt_or_ge a k with hlt | hge
    · exact Nat.le_of_lt (HL.Lemmas.Text.u16len_take_lt l k a hlt hk)
    · have : a = k := by omega
      subst this; exact Nat.le_refl _

theorem u16len_take_le' (l : HL.Text.Txt) (k : Nat) : HL.Text.u16len (l.take k) ≤ HL.Text.u16len l := by
  have h : HL.Text.u16len l = HL.Text.u16len (l.take k) + HL.Text.u16len (l.drop k) := by
    rw [← HL.Lemmas.Text.u16len_append, List.take_append_drop]
  omega

/-- The cursor test of the code — cursor converted to a rune column, compared with the rune
    columns of the node — is the cursor test of the client — UTF-16 cursor against the UTF-16
    range that is sent — for every cursor that is a position of the text. -/
theorem positionInRange_eq_has (n : TNode) (hs : n.sane lns = true) (p : LPos) (hp : cursorOK lns p) :
    positionInRange (runePos lns p) n.range = (n.toSpan lns).has p := by
  simp only [TNode.sane, Bool.and_eq_true, decide_eq_true_eq, beq_iff_eq] at hs
  obtain ⟨⟨⟨⟨⟨⟨h1, h2⟩, h3⟩, h4⟩, h5⟩, h6⟩, h7⟩ := hs
  have a1 := u32pred_of_sane _ h1 h3
  have a3 := u32pred_of_sane _ h4 (by omega)
  have a4 := u32pred_of_sane n.range.ec (by omega) h6
  have hline : (runePos lns p).line = p.line := by
    unfold runePos; split <;> rfl
  have hrange : n.range = ⟨n.range.sl, n.range.sc, n.range.sl, n.range.ec⟩ := by
    cases hr : n.range
    simp only [hr] at h2
    simp [h2]
  have harith := inRange_arith p.line (runePos lns p).char n.range.sl n.range.sc n.range.ec h1 h4 h5
  have hpos : runePos lns p = ⟨p.line, (runePos lns p).char⟩ := by
    rw [← hline]
  have h0 : n.range.sl ≠ 0 := by omega
  -- the two characters that are sent and the rune column of the cursor
  have key : n.range.sl - 1 = p.line →
      ((n.range.sc - 1 ≤ (runePos lns p).char ↔ convChar lns n.range.sl n.range.sc ≤ p.char) ∧
       ((runePos lns p).char ≤ n.range.ec - 1 ↔ p.char ≤ convChar lns n.range.sl n.range.ec)) := by
    intro hl
    unfold convChar runePos
    simp only [h0, if_false]
    rw [hl] at h7 ⊢
    cases hln : lns[p.line]? with
    | none => simp [a3, a4]
    | some ln =>
      simp only [hln, Bool.and_eq_true, decide_eq_true_eq] at h7 ⊢
      obtain ⟨k, hk, hc⟩ := hp ln hln
      have e1 : HL.Text.u16len (ln.take (n.range.sc - 1)) % 4294967296 = HL.Text.u16len (ln.take (n.range.sc - 1)) :=
        Nat.mod_eq_of_lt (by have := u16len_take_le' ln (n.range.sc - 1); omega)
      have e2 : HL.Text.u16len (ln.take (n.range.ec - 1)) % 4294967296 = HL.Text.u16len (ln.take (n.range.ec - 1)) :=
        Nat.mod_eq_of_lt (by have := u16len_take_le' ln (n.range.ec - 1); omega)
      rw [e1, e2, hc, takeU16_u16len_take ln k hk]
      exact ⟨(u16len_take_le_iff ln (by omega) hk).symm, (u16len_take_le_iff ln hk h7.1).symm⟩
  rw [hrange, hpos, harith]
  simp only [Span.has, TNode.toSpan, toLsp, a1, ← h2]
  by_cases hl : n.range.sl - 1 = p.line
  · obtain ⟨k1, k2⟩ := key hl
    simp only [hl, beq_self_eq_true, Bool.true_and]
    congr 1
    · exact decide_eq_decide.mpr k1
    · exact decide_eq_decide.mpr k2
  · have : (n.range.sl - 1 == p.line) = false := by simpa using hl
    simp [this]

theorem postings_sound (pos : LPos) (ps : List Posting) (t : Target)
    (h : targetInPostings lns pos ps = some t) :
    ∃ p ∈ ps, ∃ n ∈ postingNodes p, positionInRange pos n.range = true ∧ t = tgt lns n := by
  induction ps with
  | nil => simp [targetInPostings] at h
  | cons p ps ih =>
    simp only [targetInPostings] at h
    split at h
    · rename_i hr
      simp only [Option.some.injEq] at h
      exact ⟨p, by simp, acctNode p.account false, (mem_postingNodes p _).mpr (Or.inl rfl), hr, h.symm⟩
    · split at h
      · rename_i c hc
        simp only [Option.some.injEq] at h
        have hm := List.mem_of_find?_eq_some hc
        have hp := List.find?_some hc
        simp only [Bool.and_eq_true, bne_iff_ne, ne_eq] at hp
        exact ⟨p, by simp, comNode c, (mem_postingNodes p _).mpr (Or.inr ⟨c, hm, hp.1, rfl⟩), hp.2, h.symm⟩
      · obtain ⟨q, hq, n, hn, hr, ht⟩ := ih h
        exact ⟨q, by simp [hq], n, hn, hr, ht⟩

theorem postings_complete (pos : LPos) (ps : List Posting) (p : Posting) (n : TNode)
    (hp : p ∈ ps) (hn : n ∈ postingNodes p) (hr : positionInRange pos n.range = true) :
    (targetInPostings lns pos ps).isSome = true := by
  induction ps with
  | nil => cases hp
  | cons q qs ih =>
    simp only [targetInPostings]
    split
    · rfl
    · rename_i hacc
      split
      · rfl
      · rename_i hnone
        simp only [List.mem_cons] at hp
        rcases hp with rfl | hp
        · exfalso
          rcases (mem_postingNodes p n).mp hn with h | ⟨c, hc, hs, h⟩
          · subst h; exact hacc hr
          · subst h
            have := List.find?_eq_none.mp hnone c hc
            simp [hs, comNode] at this
            simp [comNode] at hr
            rw [hr] at this; cases this
        · exact ih hp

theorem txs_sound (pos : LPos) (txs : List Transaction) (t : Target)
    (h : targetInTxs lns pos txs = some t) :
    ∃ tx ∈ txs, ∃ n ∈ txNodes lns tx, positionInRange pos n.range = true ∧ t = tgt lns n := by
  induction txs with
  | nil => simp [targetInTxs] at h
  | cons tx txs ih =>
    simp only [targetInTxs] at h
    split at h
    · rename_i hc
      simp only [Bool.and_eq_true, bne_iff_ne, ne_eq] at hc
      simp only [Option.some.injEq] at h
      exact ⟨tx, by simp, payNode lns tx, (mem_txNodes tx _).mpr (Or.inl ⟨hc.1, rfl⟩), hc.2, h.symm⟩
    · split at h
      · rename_i t' ht'
        simp only [Option.some.injEq] at h
        subst h
        obtain ⟨p, hp, n, hn, hr, ht⟩ := postings_sound pos tx.postings t' ht'
        exact ⟨tx, by simp, n, (mem_txNodes tx n).mpr (Or.inr ⟨p, hp, hn⟩), hr, ht⟩
      · obtain ⟨q, hq, n, hn, hr, ht⟩ := ih h
        exact ⟨q, by simp [hq], n, hn, hr, ht⟩

theorem txs_complete (pos : LPos) (txs : List Transaction) (tx : Transaction) (n : TNode)
    (htx : tx ∈ txs) (hn : n ∈ txNodes lns tx) (hr : positionInRange pos n.range = true) :
    (targetInTxs lns pos txs).isSome = true := by
  induction txs with
  | nil => cases htx
  | cons q qs ih =>
    simp only [targetInTxs]
    split
    · rfl
    · rename_i hpay
      split
      · rfl
      · rename_i hnone
        simp only [List.mem_cons] at htx
        rcases htx with rfl | htx
        · exfalso
          rcases (mem_txNodes tx n).mp hn with ⟨hne, h⟩ | ⟨p, hp, h⟩
          · subst h
            apply hpay
            simp only [Bool.and_eq_true, bne_iff_ne, ne_eq]
            exact ⟨hne, hr⟩
          · have := postings_complete (lns := lns) pos tx.postings p n hp h hr
            rw [hnone] at this; cases this
        · exact ih htx

theorem directive_sound (pos : LPos) (d : Directive) (t : Target) (h : targetInDirective lns pos d = some t) :
    ∃ n ∈ directiveNodes d, positionInRange pos n.range = true ∧ t = tgt lns n := by
  cases d with
  | account a tg c s r =>
    simp only [targetInDirective] at h
    split at h
    · rename_i hr
      simp only [Option.some.injEq] at h
      exact ⟨acctNode a true, by simp [directiveNodes_eq], hr, h.symm⟩
    · cases h
  | commodity c f nt s r =>
    simp only [targetInDirective] at h
    split at h
    · rename_i hc
      simp only [Bool.and_eq_true, bne_iff_ne, ne_eq] at hc
      simp only [Option.some.injEq] at h
      exact ⟨dirComNode c true, by simp [directiveNodes_eq, hc.1], hc.2, h.symm⟩
    · cases h
  | price dt c p r =>
    simp only [targetInDirective] at h
    split at h
    · rename_i hc
      simp only [Bool.and_eq_true, bne_iff_ne, ne_eq] at hc
      simp only [Option.some.injEq] at h
      exact ⟨dirComNode c false, by simp [directiveNodes_eq, hc.1], hc.2, h.symm⟩
    · split at h
      · rename_i hc
        simp only [Bool.and_eq_true, bne_iff_ne, ne_eq] at hc
        simp only [Option.some.injEq] at h
        exact ⟨comNode p.commodity, by simp [directiveNodes_eq, hc.1], hc.2, h.symm⟩
      · cases h
  | year y r => simp [targetInDirective] at h
  | defaultCommodity s f r => simp [targetInDirective] at h

theorem directive_complete (pos : LPos) (d : Directive) (n : TNode) (hn : n ∈ directiveNodes d)
    (hr : positionInRange pos n.range = true) : (targetInDirective lns pos d).isSome = true := by
  cases d with
  | account a tg c s r =>
    simp only [directiveNodes_eq, List.mem_singleton] at hn
    subst hn
    simp only [acctNode] at hr
    simp [targetInDirective, hr]
  | commodity c f nt s r =>
    simp only [directiveNodes_eq] at hn
    split at hn
    · cases hn
    · rename_i hs
      simp only [List.mem_singleton] at hn
      subst hn
      simp only [dirComNode] at hr
      simp [targetInDirective, hr, hs]
  | price dt c p r =>
    simp only [directiveNodes_eq, List.mem_append] at hn
    simp only [targetInDirective]
    split
    · rfl
    · rename_i h1
      rcases hn with hn | hn <;> split at hn
      · cases hn
      · rename_i hs
        simp only [List.mem_singleton] at hn
        subst hn
        simp only [dirComNode] at hr
        exfalso; apply h1; simp [hs, hr]
      · cases hn
      · rename_i hs
        simp only [List.mem_singleton] at hn
        subst hn
        simp only [comNode] at hr
        simp [hs, hr]
  | year y r => simp [directiveNodes_eq] at hn
  | defaultCommodity s f r => simp [directiveNodes_eq] at hn

theorem directives_sound (pos : LPos) (ds : List Directive) (t : Target)
    (h : targetInDirectives lns pos ds = some t) :
    ∃ d ∈ ds, ∃ n ∈ directiveNodes d, positionInRange pos n.range = true ∧ t = tgt lns n := by
  induction ds with
  | nil => simp [targetInDirectives] at h
  | cons d ds ih =>
    simp only [targetInDirectives] at h
    split at h
    · rename_i t' ht'
      simp only [Option.some.injEq] at h
      subst h
      obtain ⟨n, hn, hr, ht⟩ := directive_sound pos d t' ht'
      exact ⟨d, by simp, n, hn, hr, ht⟩
    · obtain ⟨q, hq, n, hn, hr, ht⟩ := ih h
      exact ⟨q, by simp [hq], n, hn, hr, ht⟩

theorem directives_complete (pos : LPos) (ds : List Directive) (d : Directive) (n : TNode)
    (hd : d ∈ ds) (hn : n ∈ directiveNodes d) (hr : positionInRange pos n.range = true) :
    (targetInDirectives lns pos ds).isSome = true := by
  induction ds with
  | nil => cases hd
  | cons q qs ih =>
    simp only [targetInDirectives]
    split
    · rfl
    · rename_i hnone
      simp only [List.mem_cons] at hd
      rcases hd with rfl | hd
      · have := directive_complete (lns := lns) pos d n hn hr
        rw [hnone] at this; cases this
      · exact ih hd

/-- `findDefinitionTarget` only ever answers with a name-bearing node under the cursor. -/
theorem target_sound (j : Journal) (pos : LPos) (t : Target) (h : findDefinitionTargetR lns j pos = some t) :
    ∃ n ∈ treeTNodes lns j, positionInRange pos n.range = true ∧ t = tgt lns n := by
  simp only [findDefinitionTargetR] at h
  split at h
  · rename_i t' ht'
    simp only [Option.some.injEq] at h
    subst h
    obtain ⟨tx, htx, n, hn, hr, ht⟩ := txs_sound pos _ t' ht'
    exact ⟨n, by simp only [treeTNodes, List.mem_append, List.mem_flatMap]; exact Or.inl ⟨tx, htx, hn⟩, hr, ht⟩
  · obtain ⟨d, hd, n, hn, hr, ht⟩ := directives_sound pos _ t h
    exact ⟨n, by simp only [treeTNodes, List.mem_append, List.mem_flatMap]; exact Or.inr ⟨d, hd, hn⟩, hr, ht⟩

/-- … and it answers whenever some name-bearing node is under the cursor. -/
theorem target_complete (j : Journal) (pos : LPos) (n : TNode) (hn : n ∈ treeTNodes lns j)
    (hr : positionInRange pos n.range = true) : (findDefinitionTargetR lns j pos).isSome = true := by
  simp only [findDefinitionTargetR]
  split
  · rfl
  · rename_i hnone
    simp only [treeTNodes, List.mem_append, List.mem_flatMap] at hn
    rcases hn with ⟨tx, htx, hn⟩ | ⟨d, hd, hn⟩
    · have := txs_complete (lns := lns) pos _ tx n htx hn hr
      rw [hnone] at this; cases this
    · exact directives_complete pos _ d n hd hn hr

/-! ### rename: the edit map, applying edits -/

theorem mem_changes_add (c : Changes) (q : Path) (x : TextEdit) (p : Path) (e : TextEdit) :
    (∃ es, (p, es) ∈ c.add q x ∧ e ∈ es) ↔ (∃ es, (p, es) ∈ c ∧ e ∈ es) ∨ (p = q ∧ e = x) := by
  induction c with
  | nil =>
    simp only [Changes.add, List.mem_singleton, Prod.mk.injEq, List.not_mem_nil, false_and, exists_false, false_or]
    constructor
    · rintro ⟨es, ⟨rfl, rfl⟩, he⟩
      simp only [List.mem_singleton] at he
      exact ⟨rfl, he⟩
    · rintro ⟨rfl, rfl⟩
      exact ⟨[e], ⟨rfl, rfl⟩, by simp⟩
  | cons hd tl ih =>
    obtain ⟨k, ks⟩ := hd
    simp only [Changes.add]
    split
    · rename_i hk
      simp only [beq_iff_eq] at hk
      subst hk
      simp only [List.mem_cons, Prod.mk.injEq]
      constructor
      · rintro ⟨es, (⟨rfl, rfl⟩ | h), he⟩
        · simp only [List.mem_append, List.mem_singleton] at he
          rcases he with he | he
          · exact Or.inl ⟨ks, Or.inl ⟨rfl, rfl⟩, he⟩
          · exact Or.inr ⟨rfl, he⟩
        · exact Or.inl ⟨es, Or.inr h, he⟩
      · rintro (⟨es, (⟨rfl, rfl⟩ | h), he⟩ | ⟨rfl, rfl⟩)
        · exact ⟨es ++ [x], Or.inl ⟨rfl, rfl⟩, by simp [he]⟩
        · exact ⟨es, Or.inr h, he⟩
        · exact ⟨ks ++ [e], Or.inl ⟨rfl, rfl⟩, by simp⟩
    · simp only [List.mem_cons, Prod.mk.injEq]
      constructor
      · rintro ⟨es, (⟨rfl, rfl⟩ | h), he⟩
        · exact Or.inl ⟨es, Or.inl ⟨rfl, rfl⟩, he⟩
        · rcases ih.mp ⟨es, h, he⟩ with ⟨es', h', he'⟩ | h'
          · exact Or.inl ⟨es', Or.inr h', he'⟩
          · exact Or.inr h'
      · rintro (⟨es, (⟨rfl, rfl⟩ | h), he⟩ | h)
        · exact ⟨es, Or.inl ⟨rfl, rfl⟩, he⟩
        · obtain ⟨es', h', he'⟩ := ih.mpr (Or.inl ⟨es, h, he⟩)
          exact ⟨es', Or.inr h', he'⟩
        · obtain ⟨es', h', he'⟩ := ih.mpr (Or.inr h)
          exact ⟨es', Or.inr h', he'⟩

theorem mem_changes_foldl (locs : List Loc) (new : Bytes) (c : Changes) (p : Path) (e : TextEdit) :
    (∃ es, (p, es) ∈ locs.foldl (fun c l => c.add l.path ⟨l.range, new⟩) c ∧ e ∈ es) ↔
      (∃ es, (p, es) ∈ c ∧ e ∈ es) ∨ ∃ l ∈ locs, l.path = p ∧ e = ⟨l.range, new⟩ := by
  induction locs generalizing c with
  | nil => simp
  | cons l ls ih =>
    simp only [List.foldl_cons, ih, mem_changes_add, List.mem_cons]
    constructor
    · rintro ((h | ⟨rfl, rfl⟩) | ⟨l', hl', h⟩)
      · exact Or.inl h
      · exact Or.inr ⟨l, Or.inl rfl, rfl, rfl⟩
      · exact Or.inr ⟨l', Or.inr hl', h⟩
    · rintro (h | ⟨l', (rfl | hl'), h⟩)
      · exact Or.inl (Or.inl h)
      · exact Or.inl (Or.inr ⟨h.1.symm, h.2⟩)
      · exact Or.inr ⟨l', hl', h⟩

theorem applyEditsBackwards_cons {α} (l : List α) (se : Nat × Nat) (rest : List (Nat × Nat)) (new : List α) :
    applyEditsBackwards l (se :: rest) new = applyEdit (applyEditsBackwards l rest new) se new := by
  simp [applyEditsBackwards, List.foldl_append]

theorem applyEdits_eq_subst {α} (l : List α) (new : List α) (spans : List (Nat × Nat)) (off : Nat)
    (h : spansOK l.length off spans) :
    applyEditsBackwards l spans new = l.take off ++ substSpans (l.drop off) off spans new := by
  induction spans generalizing off with
  | nil => simp [applyEditsBackwards, substSpans]
  | cons se rest ih =>
    obtain ⟨s, e⟩ := se
    simp only [spansOK] at h
    obtain ⟨h1, h2, h3, h4⟩ := h
    rw [applyEditsBackwards_cons, ih e h4]
    simp only [applyEdit, substSpans]
    have ht : (l.take e).length = e := by simp [List.length_take]; omega
    have e1 : (List.take e l ++ substSpans (List.drop e l) e rest new).take s = l.take s := by
      rw [List.take_append_of_le_length (by omega), List.take_take]
      congr 1; omega
    have e2 : (List.take e l ++ substSpans (List.drop e l) e rest new).drop e = substSpans (List.drop e l) e rest new := by
      rw [List.drop_append_of_le_length (by omega)]
      have : (List.take e l).drop e = [] := by simp
      rw [this, List.nil_append]
    rw [e1, e2]
    have e3 : (l.drop off).drop (e - off) = l.drop e := by
      rw [List.drop_drop]; congr 1; omega
    have e4 : l.take off ++ (l.drop off).take (s - off) = l.take s := by
      have := List.take_add (l := l) (i := off) (j := s - off)
      rw [show off + (s - off) = s by omega] at this
      exact this.symm
    rw [e3, ← List.append_assoc, ← List.append_assoc, e4, List.append_assoc]

/-! ### per-file search = nodes of the symbol; decidable faithfulness -/

/-- The three searches of `findReferences`, by symbol kind. -/
def locsOf (texts : Texts) (kind : Kind) (name : Bytes) (incl : Bool) : Path → Journal → List Loc :=
  match kind with
  | .account => fun p j => accountLocs (texts p) name incl p j
  | .commodity => fun p j => commodityLocs (texts p) name incl p j
  | .payee => fun p j => payeeLocs (texts p) name p j

theorem findReferences_eq (texts : Texts) (kind : Kind) (name : Bytes) (r : Option Resolved) (pp : Path)
    (cur : Option Journal) (incl : Bool) :
    findReferences texts kind name r pp cur incl =
      sortAndDedup (collect (journalsWithPaths r pp cur) (locsOf texts kind name incl)) := by
  cases kind <;> rfl

/-- Each search returns, for one file, exactly the tree's nodes of that symbol. -/
theorem mem_locsOf (texts : Texts) (kind : Kind) (name : Bytes) (hne : name ≠ []) (incl : Bool) (path : Path)
    (j : Journal) (l : Loc) :
    l ∈ locsOf texts kind name incl path j ↔
      ∃ s ∈ treeNodes (texts path) j, s.isSym kind name incl = true ∧ l = ⟨path, s.range⟩ := by
  have key : (∃ n ∈ treeTNodes (texts path) j, Match n kind name incl ∧ l = locOf (texts path) path n) ↔
      ∃ s ∈ treeNodes (texts path) j, s.isSym kind name incl = true ∧ l = ⟨path, s.range⟩ := by
    simp only [treeNodes, List.mem_map]
    constructor
    · rintro ⟨n, hn, ⟨hk, hnm, hd⟩, hl⟩
      refine ⟨n.toSpan (texts path), ⟨n, hn, rfl⟩, ?_, hl⟩
      simp only [Span.isSym, TNode.toSpan, hk, hnm, decide_true, BEq.rfl, Bool.true_and,
        Bool.or_eq_true, Bool.not_eq_true']
      exact hd
    · rintro ⟨s, ⟨n, hn, rfl⟩, hs, hl⟩
      simp only [Span.isSym, TNode.toSpan, Bool.and_eq_true, beq_iff_eq,
        Bool.or_eq_true, Bool.not_eq_true'] at hs
      exact ⟨n, hn, ⟨of_decide_eq_true hs.1.1, hs.1.2, hs.2⟩, hl⟩
  cases kind with
  | account => rw [← key]; exact mem_accountLocs name incl path j l
  | commodity => rw [← key]; exact mem_commodityLocs name hne incl path j l
  | payee => rw [← key]; exact mem_payeeLocs name hne incl path j l


theorem faithful_of_faithfulB (j : Journal) (spans : List Span) (h : faithfulB lns j spans = true) :
    faithful lns j spans := by
  simp only [faithfulB, Bool.and_eq_true, List.all_eq_true] at h
  obtain ⟨⟨h1, h2⟩, h3⟩ := h
  refine ⟨h1, fun s => ⟨fun hs => ?_, fun hs => ?_⟩⟩
  · have := h2 s hs
    simp only [List.any_eq_true, decide_eq_true_eq] at this
    obtain ⟨t, ht, rfl⟩ := this
    exact ht
  · have := h3 s hs
    simp only [List.any_eq_true, decide_eq_true_eq] at this
    obtain ⟨t, ht, rfl⟩ := this
    exact ht


theorem takeU16_le' (l : HL.Text.Txt) (n : Nat) : HL.Text.takeU16 l n ≤ l.length := by
  induction l generalizing n with
  | nil => simp [HL.Text.takeU16]
  | cons c cs ih =>
    simp only [HL.Text.takeU16]; split
    · omega
    · have := ih (n - HL.Text.u16w c); simp; omega

theorem cursorOK_of_cursorOKB (p : LPos) (h : cursorOKB lns p = true) : cursorOK lns p := by
  intro ln hln
  simp only [cursorOKB, hln, beq_iff_eq] at h
  exact ⟨HL.Text.takeU16 ln p.char, takeU16_le' ln p.char, h.symm⟩

/-- `fileMappers` of a workspace hand out every file's own text. -/
theorem textsOf_mem (ws : Workspace) (hnd : (ws.files.map (·.path)).Nodup) (f : FileT) (hf : f ∈ ws.files) :
    textsOf ws f.path = f.lns := by
  unfold textsOf
  have : ws.files.find? (fun g => g.path == f.path) = some f := by
    generalize ws.files = fs at hnd hf
    induction fs with
    | nil => cases hf
    | cons g gs ih =>
      simp only [List.map_cons, List.nodup_cons, List.mem_map, not_exists, not_and] at hnd
      simp only [List.mem_cons] at hf
      simp only [List.find?_cons]
      rcases hf with rfl | hf
      · simp
      · have hne : ¬ (g.path = f.path) := fun he => hnd.1 f hf he.symm
        have : (g.path == f.path) = false := by simpa using hne
        simp only [this]
        exact ih hnd.2 hf
  rw [this]

end HL.Lemmas.Refs
