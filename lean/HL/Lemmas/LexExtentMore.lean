import HL.Lemmas.LexExtentTok
/-!
  Layer L3, part 4: extent lemmas for token classes outside the core grammar (ASCII lexemes),
  in the same style as HL/Lemmas/LexExtentTok.lean.  They are not used by `C03_faithful_core`;
  they are the remaining leaves a theorem for a larger part of G composes.

    scanInLineAt_status      `*` `!`
    scanInLineAt_comment     `;` text up to the line end (LF or CR LF)
    scanInLineAt_at / _atAt  `@` / `@@`
    scanInLineAt_equals / _doubleEquals
    scanInLineAt_rparen, _lbracket, _rbracket, _pipe
    scanInLineAt_dollar      `$`
    scanInLineAt_quoted      `"` text `"`
    next_comment_line        line start: `;` text
    scanInLineAt_code        `(` code `)`
    scanInLineAt_lparen      `(` of a virtual posting
    next_directive           line start: a directive keyword
-/
namespace HL.Lex
open HL HL.Utf8

local notation "LF" => (0x0A : UInt8)

/-- a byte that is neither a line feed nor outside ASCII -/
def lineByte (c : UInt8) : Bool := c != 0x0A

/-- where a comment ends: end of input or a line end (LF, or CR LF) -/
abbrev CommentStop (rest : Bytes) : Prop := StopsL (fun _ => true) rest

theorem scanComment_over {z : Z} {body rest : Bytes} (hz : z.after = 0x3B :: (body ++ rest))
    (hb : ∀ c ∈ body, c ≠ 0x0A ∧ c ≠ 0x0D ∧ c < 0x80) (hstop : CommentStop rest) :
    scanComment z = (tokAt .comment body z (body.length + 1), z.over (0x3B :: body) rest) := by
  unfold scanComment
  rw [advance_over hz (by decide)]
  have h1 : advLine (fun _ => true) (z.over [0x3B] (body ++ rest)) =
      (z.over [0x3B] (body ++ rest)).over body rest :=
    advLine_over _ rfl (fun c hc => ⟨rfl, (hb c hc).2.2, (hb c hc).1, (hb c hc).2.1⟩) hstop
  simp only [h1, between_over]
  rw [over_over]
  simp [mkTok, tokAt, over_position]

/-- **Comment** inside a line: `;` and everything up to the line end (ASCII text without CR). -/
theorem scanInLineAt_comment (C : Classes) {z : Z} {body rest : Bytes} (hz : z.after = 0x3B :: (body ++ rest))
    (hb : ∀ c ∈ body, c ≠ 0x0A ∧ c ≠ 0x0D ∧ c < 0x80) (hstop : CommentStop rest) :
    scanInLineAt C z = (tokAt .comment body z (body.length + 1), z.over (0x3B :: body) rest) := by
  unfold scanInLineAt
  simp only [hz]
  rw [if_neg (by simp [atEol]), if_pos (by decide)]
  exact scanComment_over hz hb hstop

/-- **Comment line**: `;` in column 1. -/
theorem next_comment_line (C : Classes) {z : Z} {body rest : Bytes} (hs : z.atStart = true) (hc : z.col = 1)
    (hz : z.after = 0x3B :: (body ++ rest)) (hb : ∀ c ∈ body, c ≠ 0x0A ∧ c ≠ 0x0D ∧ c < 0x80)
    (hstop : CommentStop rest) :
    next C z = (tokAt .comment body z (body.length + 1), z.started.over (0x3B :: body) rest) := by
  unfold next
  simp only [hz, hs, hc, beq_self_eq_true, Bool.and_self, if_true]
  unfold scanLineStart scanLineStartAt
  have hp : peek { z with atStart := false } = 0x3B := by simp [peek, hz]
  simp only [hp, beq_self_eq_true, if_true]
  exact scanComment_over (z := z.started) hz hb hstop

/-- **Status**: `*` or `!`. -/
theorem scanInLineAt_status (C : Classes) {z : Z} {c : UInt8} {t : Bytes} (hz : z.after = c :: t)
    (hc : c = 0x2A ∨ c = 0x21) :
    scanInLineAt C z = (tokAt .status [c] z 1, z.over [c] t) := by
  have hlt : c < 0x80 := by rcases hc with rfl | rfl <;> decide
  have hr : peekRune z = c.toNat := by simp [peekRune, hz, decodeRune_ascii t hlt]
  have henc : encodeRune c.toNat = [c] := by rcases hc with rfl | rfl <;> decide
  have hp : peek z = c := by simp [peek, hz]
  unfold scanInLineAt
  simp only [hz, hr]
  rcases hc with rfl | rfl
  · rw [if_neg (by simp [atEol]), if_neg (by decide), if_neg (by decide), if_neg (by decide), if_neg (by decide),
      if_neg (by decide), if_neg (by decide), if_neg (by decide), if_neg (by decide), if_pos (by decide)]
    unfold scanStatus
    rw [advance_over hz hlt, hp, henc, mkTok_over]; rfl
  · rw [if_neg (by simp [atEol]), if_neg (by decide), if_neg (by decide), if_neg (by decide), if_neg (by decide),
      if_neg (by decide), if_neg (by decide), if_neg (by decide), if_neg (by decide), if_pos (by decide)]
    unfold scanStatus
    rw [advance_over hz hlt, hp, henc, mkTok_over]; rfl

/-- **`@`** not followed by another `@`. -/
theorem scanInLineAt_at (C : Classes) {z : Z} {t : Bytes} (hz : z.after = 0x40 :: t) (ht : headIs 0x40 t = false) :
    scanInLineAt C z = (tokAt .at [0x40] z 1, z.over [0x40] t) := by
  unfold scanInLineAt
  simp only [hz]
  rw [if_neg (by simp [atEol]), if_neg (by decide), if_neg (by decide), if_neg (by decide), if_neg (by decide),
    if_neg (by decide), if_neg (by decide), if_pos (by decide)]
  unfold scanAt
  rw [advance_over hz (by decide)]
  simp only [over_after, ht, Bool.false_eq_true, if_false]
  rw [mkTok_over]; rfl

/-- **`@@`**. -/
theorem scanInLineAt_atAt (C : Classes) {z : Z} {t : Bytes} (hz : z.after = 0x40 :: 0x40 :: t) :
    scanInLineAt C z = (tokAt .atAt [0x40, 0x40] z 2, z.over [0x40, 0x40] t) := by
  unfold scanInLineAt
  simp only [hz]
  rw [if_neg (by simp [atEol]), if_neg (by decide), if_neg (by decide), if_neg (by decide), if_neg (by decide),
    if_neg (by decide), if_neg (by decide), if_pos (by decide)]
  unfold scanAt
  rw [advance_over hz (by decide)]
  simp only [over_after, headIs, beq_self_eq_true, if_true]
  rw [advance_over (z := z.over [0x40] (0x40 :: t)) rfl (by decide), over_over, mkTok_over]; rfl

/-- **`=`** not followed by another `=`. -/
theorem scanInLineAt_equals (C : Classes) {z : Z} {t : Bytes} (hz : z.after = 0x3D :: t)
    (ht : headIs 0x3D t = false) :
    scanInLineAt C z = (tokAt .equals [0x3D] z 1, z.over [0x3D] t) := by
  unfold scanInLineAt
  simp only [hz]
  rw [if_neg (by simp [atEol]), if_neg (by decide), if_neg (by decide), if_neg (by decide), if_neg (by decide),
    if_neg (by decide), if_neg (by decide), if_neg (by decide), if_pos (by decide)]
  unfold scanEquals
  rw [advance_over hz (by decide)]
  simp only [over_after, ht, Bool.false_eq_true, if_false]
  rw [mkTok_over]; rfl

/-- **`==`**. -/
theorem scanInLineAt_doubleEquals (C : Classes) {z : Z} {t : Bytes} (hz : z.after = 0x3D :: 0x3D :: t) :
    scanInLineAt C z = (tokAt .doubleEquals [0x3D, 0x3D] z 2, z.over [0x3D, 0x3D] t) := by
  unfold scanInLineAt
  simp only [hz]
  rw [if_neg (by simp [atEol]), if_neg (by decide), if_neg (by decide), if_neg (by decide), if_neg (by decide),
    if_neg (by decide), if_neg (by decide), if_neg (by decide), if_pos (by decide)]
  unfold scanEquals
  rw [advance_over hz (by decide)]
  simp only [over_after, headIs, beq_self_eq_true, if_true]
  rw [advance_over (z := z.over [0x3D] (0x3D :: t)) rfl (by decide), over_over, mkTok_over]; rfl

theorem punct_over (ty : TokType) (v : Bytes) {z : Z} {c : UInt8} {t : Bytes} (hz : z.after = c :: t)
    (hc : c < 0x80) : punct ty v z = (tokAt ty v z 1, z.over [c] t) := by
  unfold punct
  rw [advance_over hz hc, mkTok_over]; rfl

/-- **`)`**. -/
theorem scanInLineAt_rparen (C : Classes) {z : Z} {t : Bytes} (hz : z.after = 0x29 :: t) :
    scanInLineAt C z = (tokAt .rparen [0x29] z 1, z.over [0x29] t) := by
  unfold scanInLineAt
  simp only [hz]
  rw [if_neg (by simp [atEol]), if_neg (by decide), if_neg (by decide), if_pos (by decide)]
  exact punct_over _ _ hz (by decide)

/-- **`[`**. -/
theorem scanInLineAt_lbracket (C : Classes) {z : Z} {t : Bytes} (hz : z.after = 0x5B :: t) :
    scanInLineAt C z = (tokAt .lbracket [0x5B] z 1, z.over [0x5B] t) := by
  unfold scanInLineAt
  simp only [hz]
  rw [if_neg (by simp [atEol]), if_neg (by decide), if_neg (by decide), if_neg (by decide), if_pos (by decide)]
  exact punct_over _ _ hz (by decide)

/-- **`]`**. -/
theorem scanInLineAt_rbracket (C : Classes) {z : Z} {t : Bytes} (hz : z.after = 0x5D :: t) :
    scanInLineAt C z = (tokAt .rbracket [0x5D] z 1, z.over [0x5D] t) := by
  unfold scanInLineAt
  simp only [hz]
  rw [if_neg (by simp [atEol]), if_neg (by decide), if_neg (by decide), if_neg (by decide), if_neg (by decide),
    if_pos (by decide)]
  exact punct_over _ _ hz (by decide)

/-- **`|`**. -/
theorem scanInLineAt_pipe (C : Classes) {z : Z} {t : Bytes} (hz : z.after = 0x7C :: t) :
    scanInLineAt C z = (tokAt .pipe [0x7C] z 1, z.over [0x7C] t) := by
  unfold scanInLineAt
  simp only [hz]
  rw [if_neg (by simp [atEol]), if_neg (by decide), if_neg (by decide), if_neg (by decide), if_neg (by decide),
    if_neg (by decide), if_pos (by decide)]
  exact punct_over _ _ hz (by decide)

/-- **`$`**, the one ASCII currency symbol. -/
theorem scanInLineAt_dollar (C : Classes) {z : Z} {t : Bytes} (hz : z.after = 0x24 :: t) :
    scanInLineAt C z = (tokAt .commodity [0x24] z 1, z.over [0x24] t) := by
  have hr : peekRune z = 0x24 := by simp [peekRune, hz, decodeRune]
  unfold scanInLineAt
  simp only [hz, hr]
  rw [if_neg (by simp [atEol]), if_neg (by decide), if_neg (by decide), if_neg (by decide), if_neg (by decide),
    if_neg (by decide), if_neg (by decide), if_neg (by decide), if_neg (by decide), if_neg (by decide),
    if_pos (by decide)]
  unfold scanCurrencySymbol
  have hd : decodeRune z.after = (0x24, 1) := by rw [hz]; simp [decodeRune]
  simp only [hd]
  rw [bump_over hz, mkTok_over]; rfl

/-- **Quoted commodity**: `"` text `"` (ASCII text without `"`, CR and LF). -/
theorem scanInLineAt_quoted (C : Classes) {z : Z} {q t : Bytes} (hz : z.after = 0x22 :: (q ++ 0x22 :: t))
    (hq : ∀ c ∈ q, c ≠ 0x22 ∧ c ≠ 0x0A ∧ c ≠ 0x0D ∧ c < 0x80) :
    scanInLineAt C z = (tokAt .commodity q z (q.length + 2), z.over (0x22 :: (q ++ [0x22])) t) := by
  have hr : peekRune z = 0x22 := by simp [peekRune, hz, decodeRune]
  unfold scanInLineAt
  simp only [hz, hr]
  rw [if_neg (by simp [atEol]), if_neg (by decide), if_neg (by decide), if_neg (by decide), if_neg (by decide),
    if_neg (by decide), if_neg (by decide), if_neg (by decide), if_neg (by decide), if_neg (by decide),
    if_neg (by decide), if_pos (by decide)]
  unfold scanQuotedCommodity
  rw [advance_over hz (by decide)]
  have h1 : advLine (fun c => c != 0x22) (z.over [0x22] (q ++ 0x22 :: t)) =
      (z.over [0x22] (q ++ 0x22 :: t)).over q (0x22 :: t) :=
    advLine_over _ rfl (fun c hc => ⟨by simp [(hq c hc).1], (hq c hc).2.2.2, (hq c hc).2.1, (hq c hc).2.2.1⟩)
      (StopsL.cons _ (by decide))
  simp only [h1, between_over]
  have h2 : advIf (· == 0x22) ((z.over [0x22] (q ++ 0x22 :: t)).over q (0x22 :: t)) =
      ((z.over [0x22] (q ++ 0x22 :: t)).over q (0x22 :: t)).over [0x22] t := by
    unfold advIf
    simp only [over_after, beq_self_eq_true, if_true]
    exact advance_over rfl (by decide)
  rw [h2, over_over, over_over]
  simp [mkTok, tokAt, over_position, Nat.add_assoc]

theorem lvaGo_noColon (code t : Bytes) (hc : ∀ c ∈ code, c ≠ 0x3A) : lvaGo (code ++ 0x29 :: t) = false := by
  induction code with
  | nil => simp [lvaGo]
  | cons c code ih =>
    have h := hc c (by simp)
    simp only [List.cons_append, lvaGo]
    split
    · rfl
    · rw [if_neg (by simpa using h)]
      exact ih (fun x hx => hc x (by simp [hx]))

theorem lvaGo_colon (p t : Bytes) (hp : ∀ c ∈ p, c ≠ 0x29 ∧ c ≠ 0x0A) : lvaGo (p ++ 0x3A :: t) = true := by
  induction p with
  | nil => simp [lvaGo]
  | cons c p ih =>
    have h := hp c (by simp)
    simp only [List.cons_append, lvaGo]
    rw [if_neg (by simp [h.1, h.2])]
    split
    · rfl
    · exact ih (fun x hx => hp x (by simp [hx]))

/-- **Code**: `(` code `)` with no colon inside (ASCII without CR). -/
theorem scanInLineAt_code (C : Classes) {z : Z} {code t : Bytes} (hz : z.after = 0x28 :: (code ++ 0x29 :: t))
    (hc : ∀ c ∈ code, c ≠ 0x29 ∧ c ≠ 0x0A ∧ c ≠ 0x0D ∧ c ≠ 0x3A ∧ c < 0x80) :
    scanInLineAt C z = (tokAt .code code z (code.length + 2), z.over (0x28 :: (code ++ [0x29])) t) := by
  have hlva : looksLikeVirtualAccount z.after = false := by
    rw [hz]; simp only [looksLikeVirtualAccount, List.drop_one, List.tail_cons]
    exact lvaGo_noColon code t (fun c h => (hc c h).2.2.2.1)
  unfold scanInLineAt
  simp only [hz]
  rw [if_neg (by simp [atEol]), if_neg (by decide), if_pos (by decide), ← hz, hlva]
  simp only [Bool.false_eq_true, if_false]
  unfold scanCode
  rw [advance_over hz (by decide)]
  have h1 : advLine (fun c => c != 0x29) (z.over [0x28] (code ++ 0x29 :: t)) =
      (z.over [0x28] (code ++ 0x29 :: t)).over code (0x29 :: t) :=
    advLine_over _ rfl (fun c h => ⟨by simp [(hc c h).1], (hc c h).2.2.2.2, (hc c h).2.1, (hc c h).2.2.1⟩)
      (StopsL.cons _ (by decide))
  simp only [h1, between_over]
  have h2 : advIf (· == 0x29) ((z.over [0x28] (code ++ 0x29 :: t)).over code (0x29 :: t)) =
      ((z.over [0x28] (code ++ 0x29 :: t)).over code (0x29 :: t)).over [0x29] t := by
    unfold advIf
    simp only [over_after, beq_self_eq_true, if_true]
    exact advance_over rfl (by decide)
  rw [h2, over_over, over_over]
  simp [mkTok, tokAt, over_position, Nat.add_assoc]

/-- **`(`** of a virtual posting: a colon comes before any `)` or line feed. -/
theorem scanInLineAt_lparen (C : Classes) {z : Z} {p t : Bytes} (hz : z.after = 0x28 :: (p ++ 0x3A :: t))
    (hp : ∀ c ∈ p, c ≠ 0x29 ∧ c ≠ 0x0A) :
    scanInLineAt C z = (tokAt .lparen [0x28] z 1, z.over [0x28] (p ++ 0x3A :: t)) := by
  have hlva : looksLikeVirtualAccount z.after = true := by
    rw [hz]; simp only [looksLikeVirtualAccount, List.drop_one, List.tail_cons]
    exact lvaGo_colon p t hp
  unfold scanInLineAt
  simp only [hz]
  rw [if_neg (by simp [atEol]), if_neg (by decide), if_pos (by decide), ← hz, hlva]
  simp only [if_true]
  exact punct_over _ _ hz (by decide)

/-- **Directive keyword** in column 1, followed by a byte that is not a letter. -/
theorem next_directive (C : Classes) {z : Z} {kw rest : Bytes} (hs : z.atStart = true) (hc : z.col = 1)
    (hz : z.after = kw ++ rest) (hk : isDirective kw = true) (hl : ∀ c ∈ kw, isLetter c = true)
    (hstop : Stops isLetter rest) :
    next C z = (tokAt .directive kw z kw.length, z.started.over kw rest) := by
  have hne : kw ≠ [] := by intro h; rw [h] at hk; exact absurd hk (by decide)
  obtain ⟨c, t, rfl⟩ := List.exists_cons_of_ne_nil hne
  have hz' : z.after = c :: (t ++ rest) := by simpa using hz
  have hc0 := hl c (by simp)
  have lf : ∀ x, isLetter x = true → x < 0x80 := by
    intro x hx
    have := letter_facts x
    simp only [hx, Bool.not_true, Bool.false_or, Bool.and_eq_true, decide_eq_true_eq] at this
    exact this.1.1.1.1.1.1.1.1.1.1.1.1.1.1.1.1.1
  have hf := letter_facts c
  simp only [hc0, Bool.not_true, Bool.false_or, Bool.and_eq_true, decide_eq_true_eq, bne_iff_ne, ne_eq,
    Bool.not_eq_true'] at hf
  obtain ⟨⟨⟨⟨⟨⟨⟨⟨⟨⟨⟨⟨⟨⟨⟨⟨⟨hlt, h1⟩, h2⟩, _⟩, _⟩, _⟩, _⟩, _⟩, _⟩, _⟩, _⟩, _⟩, _⟩, _⟩, _⟩, _⟩, h16⟩, h17⟩ := hf
  have hw : isWhitespace c = false := by
    have : ∀ x : UInt8, (!isLetter x || !isWhitespace x) = true := forall_uint8 _ (by decide +kernel)
    have := this c
    simp only [hc0, Bool.not_true, Bool.false_or, Bool.not_eq_true'] at this
    exact this
  unfold next
  simp only [hz', hs, hc, beq_self_eq_true, Bool.and_self, if_true]
  unfold scanLineStart scanLineStartAt
  have hp : peek { z with atStart := false } = c := by simp [peek, hz']
  simp only [hp, hw, h16, hc0, Bool.false_and, Bool.false_eq_true, if_false, if_true]
  rw [if_neg (by simpa using h2)]
  unfold scanDirectiveOrAccount
  have he : advWhile isLetter z.started = z.started.over (c :: t) rest :=
    advWhile_over isLetter (z := z.started) hz (fun x hx => ⟨hl x hx, lf x (hl x hx)⟩) hstop
  show (if isDirective (between z.started (advWhile isLetter z.started)) = true then
      mkTok .directive (between z.started (advWhile isLetter z.started)) z.started (advWhile isLetter z.started)
    else _) = _
  rw [he, between_over, hk, if_pos rfl, mkTok_over]
  rfl

end HL.Lex
