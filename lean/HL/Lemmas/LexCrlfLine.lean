import HL.Lemmas.LexCrlf
import HL.Lemmas.LexExtentTok
/-!
  Carriage returns and the repaired lexer, part 2: ONE LINE.

  `crx a` puts a carriage return in front of a final line feed of `a`.  If exactly one line is
  still ahead (`OL z`: `z.after = s ++ [LF]`, neither CR nor LF in `s`), every scan function,
  every loop and every look-ahead predicate behaves on `s ++ [CR, LF]` as on `s ++ [LF]`
  (`*_crx`): the same token, the same state except for the unread input; only `scanNewline`
  sees the difference — its token starts at the CR and is one byte longer.
-/
namespace HL.Utf8

set_option linter.unusedSimpArgs false in
/-- behind at least one byte, any two bytes that cannot continue a sequence end a (possibly
    truncated) sequence in the same way -/
theorem decodeRune_stop_byte (s x y : Bytes) (c d : UInt8) (hs : s ≠ [])
    (hc : isCont c = false) (hc2 : ∀ b0, decide (acceptLo b0 ≤ c) = false)
    (hd : isCont d = false) (hd2 : ∀ b0, decide (acceptLo b0 ≤ d) = false) :
    decodeRune (s ++ c :: x) = decodeRune (s ++ d :: y) := by
  rcases s with _ | ⟨b0, _ | ⟨b1, _ | ⟨b2, _ | ⟨b3, t⟩⟩⟩⟩
  · exact absurd rfl hs
  · rcases x with _ | ⟨x0, _ | ⟨x1, x'⟩⟩ <;> rcases y with _ | ⟨y0, _ | ⟨y1, y'⟩⟩ <;>
      simp only [decodeRune, List.cons_append, List.nil_append, hc, hd, hc2, hd2, Bool.false_and,
        Bool.false_eq_true, if_false, ite_self]
  · rcases x with _ | ⟨x0, x'⟩ <;> rcases y with _ | ⟨y0, y'⟩ <;>
      simp only [decodeRune, List.cons_append, List.nil_append, hc, hd, hc2, hd2, Bool.false_and,
        Bool.false_eq_true, if_false, ite_self]
  · simp only [decodeRune, List.cons_append, List.nil_append, hc, hd, hc2, hd2, Bool.false_and,
      Bool.false_eq_true, if_false, ite_self]
  · simp only [decodeRune, List.cons_append, List.nil_append]

/-- behind at least one byte, a carriage return ends a (possibly truncated) sequence exactly as
    a line feed does -/
theorem decodeRune_cr_lf (s x y : Bytes) (hs : s ≠ []) :
    decodeRune (s ++ 0x0D :: x) = decodeRune (s ++ 0x0A :: y) :=
  decodeRune_stop_byte s x y _ _ hs (by decide) (fun b0 => by simpa using acceptLo_not_le_cr b0)
    (by decide) (fun b0 => by simpa using acceptLo_not_le_lf b0)

end HL.Utf8

namespace HL.Lex
open HL HL.Utf8

local notation "LF" => (0x0A : UInt8)
local notation "CR" => (0x0D : UInt8)

/-! ### `crx`: a carriage return in front of the final line feed -/

/-- `a` with a carriage return put in front of its final line feed -/
def crx : Bytes → Bytes
  | [] => []
  | c :: t => if t.isEmpty && c == LF then [CR, LF] else c :: crx t

/-- exactly one line is ahead: `s ++ [LF]` with neither CR nor LF in `s` -/
def OLb (a : Bytes) : Prop := ∃ s, a = s ++ [LF] ∧ LF ∉ s ∧ CR ∉ s

theorem crx_append (s : Bytes) : crx (s ++ [LF]) = s ++ [CR, LF] := by
  induction s with
  | nil => rfl
  | cons c s ih =>
    have : (s ++ [LF]).isEmpty = false := by simp
    simp only [List.cons_append, crx, this, Bool.false_and, Bool.false_eq_true, if_false, ih]

theorem OLb.lf : OLb [LF] := ⟨[], rfl, by simp, by simp⟩

theorem OLb.ne_nil {a : Bytes} (h : OLb a) : a ≠ [] := by
  obtain ⟨s, rfl, _, _⟩ := h; simp

theorem OLb.hasLF {a : Bytes} (h : OLb a) : LF ∈ a := by
  obtain ⟨s, rfl, _, _⟩ := h; simp

theorem OLb.cases {a : Bytes} (h : OLb a) :
    a = [LF] ∨ ∃ c t, a = c :: t ∧ c ≠ LF ∧ c ≠ CR ∧ OLb t := by
  obtain ⟨s, rfl, h1, h2⟩ := h
  cases s with
  | nil => exact Or.inl rfl
  | cons c s' =>
    refine Or.inr ⟨c, s' ++ [LF], rfl, fun e => h1 (by simp [e]), fun e => h2 (by simp [e]),
      s', rfl, fun m => h1 (by simp [m]), fun m => h2 (by simp [m])⟩

theorem OLb.cons {c : UInt8} {t : Bytes} (h1 : c ≠ LF) (h2 : c ≠ CR) (h : OLb t) : OLb (c :: t) := by
  obtain ⟨s, rfl, g1, g2⟩ := h
  refine ⟨c :: s, rfl, ?_, ?_⟩
  · intro m; rcases List.mem_cons.mp m with e | e
    · exact h1 e.symm
    · exact g1 e
  · intro m; rcases List.mem_cons.mp m with e | e
    · exact h2 e.symm
    · exact g2 e

theorem crx_lf : crx [LF] = [CR, LF] := rfl

theorem crx_cons (c : UInt8) {t : Bytes} (ht : OLb t) : crx (c :: t) = c :: crx t := by
  have hne := ht.ne_nil
  cases t with
  | nil => exact absurd rfl hne
  | cons d u => simp [crx]

theorem crx_ne_nil {a : Bytes} (h : OLb a) : crx a ≠ [] := by
  obtain ⟨s, rfl, _, _⟩ := h; rw [crx_append]; simp

/-- dropping `w` bytes that contain no line feed stays inside the line -/
theorem OLb.drop {a : Bytes} (h : OLb a) (w : Nat) (hw : LF ∉ a.take w) :
    OLb (a.drop w) ∧ crx (a.drop w) = (crx a).drop w ∧ (crx a).take w = a.take w := by
  obtain ⟨s, rfl, h1, h2⟩ := h
  have hle : w ≤ s.length := by
    by_cases hc : w ≤ s.length
    · exact hc
    · exfalso; apply hw
      have : s.length + 1 ≤ w := by omega
      rw [List.take_of_length_le (by simp; omega)]; simp
  have e1 : (s ++ [LF]).drop w = s.drop w ++ [LF] := List.drop_append_of_le_length hle
  have e2 : (s ++ [CR, LF]).drop w = s.drop w ++ [CR, LF] := List.drop_append_of_le_length hle
  have e3 : (s ++ [LF]).take w = s.take w := List.take_append_of_le_length hle
  have e4 : (s ++ [CR, LF]).take w = s.take w := List.take_append_of_le_length hle
  refine ⟨⟨s.drop w, e1, fun m => h1 (List.mem_of_mem_drop m), fun m => h2 (List.mem_of_mem_drop m)⟩, ?_, ?_⟩
  · rw [e1, crx_append, crx_append, e2]
  · rw [crx_append, e3, e4]

/-- decoding the first rune of a line does not see the difference -/
theorem decodeRune_crx {c : UInt8} {t : Bytes} (ht : OLb t) : decodeRune (c :: crx t) = decodeRune (c :: t) := by
  obtain ⟨s, rfl, _, _⟩ := ht
  rw [crx_append]
  have := decodeRune_cr_lf (c :: s) [LF] [] (by simp)
  simpa using this

/-! ### states -/

/-- the same state with the line end ahead made CR LF -/
def Z.crx (z : Z) : Z := { z with after := HL.Lex.crx z.after }

def crxR (r : Token × Z) : Token × Z := (r.1, r.2.crx)

/-- exactly one line (ending in LF, without CR) is ahead -/
def OL (z : Z) : Prop := OLb z.after

@[simp] theorem crx_after (z : Z) : z.crx.after = HL.Lex.crx z.after := rfl
@[simp] theorem crx_before (z : Z) : z.crx.before = z.before := rfl
@[simp] theorem crx_col (z : Z) : z.crx.col = z.col := rfl
@[simp] theorem crx_line (z : Z) : z.crx.line = z.line := rfl
@[simp] theorem crx_atStart (z : Z) : z.crx.atStart = z.atStart := rfl
@[simp] theorem crx_position (z : Z) : z.crx.position = z.position := rfl
@[simp] theorem between_crx (s e : Z) : between s.crx e.crx = between s e := rfl
@[simp] theorem mkTok_crx (ty : TokType) (v : Bytes) (s e : Z) :
    mkTok ty v s.crx e.crx = crxR (mkTok ty v s e) := rfl

theorem OL.hasLF {z : Z} (h : OL z) : HasLF z := OLb.hasLF h

/-- the lexer stands at the line feed: nothing but the line end is left -/
theorem OL.at_lf {z : Z} (h : OL z) (hp : peek z = LF) : z.after = [LF] := by
  rcases OLb.cases h with e | ⟨c, t, e, h1, _, _⟩
  · exact e
  · simp [peek, e] at hp; exact absurd hp h1

theorem OL.cons {z : Z} (h : OL z) (hp : peek z ≠ LF) :
    ∃ c t, z.after = c :: t ∧ c ≠ LF ∧ c ≠ CR ∧ OLb t := by
  rcases OLb.cases h with e | h
  · simp [peek, e] at hp
  · exact h

theorem bump_crx {z : Z} (h : OL z) (w : Nat) (hw : LF ∉ z.after.take w) :
    z.crx.bump w = (z.bump w).crx ∧ OL (z.bump w) := by
  obtain ⟨h1, h2, h3⟩ := OLb.drop h w hw
  refine ⟨?_, h1⟩
  simp only [Z.bump, Z.crx, h2, h3]

theorem advance_crx {z : Z} (h : OL z) (hp : peek z ≠ LF) :
    advance z.crx = (advance z).crx ∧ OL (advance z) := by
  obtain ⟨c, t, hz, h1, h2, ht⟩ := h.cons hp
  have hzc : z.crx.after = c :: HL.Lex.crx t := by rw [crx_after, hz, crx_cons c ht]
  rw [advance_cons hz, advance_cons hzc, decodeRune_crx ht]
  exact bump_crx h _ (by rw [hz]; exact decodeRune_take_noLF c t h1)

theorem peek_crx {z : Z} (h : OL z) (hp : peek z ≠ LF) : peek z.crx = peek z := by
  obtain ⟨c, t, hz, _, _, ht⟩ := h.cons hp
  simp [peek, hz, crx_cons c ht]

theorem peekRune_crx {z : Z} (h : OL z) (hp : peek z ≠ LF) : peekRune z.crx = peekRune z := by
  obtain ⟨c, t, hz, _, _, ht⟩ := h.cons hp
  simp [peekRune, hz, crx_cons c ht, decodeRune_crx ht]

/-! ### loops -/

theorem advWhileF_crx (p : UInt8 → Bool) (hlf : p LF = false) (hcr : p CR = false) (n : Nat) {z : Z}
    (h : OL z) : advWhileF p n z.crx = (advWhileF p n z).crx ∧ OL (advWhileF p n z) := by
  induction n generalizing z with
  | zero => exact ⟨rfl, h⟩
  | succ n ih =>
    by_cases hp : peek z = LF
    · have hz := h.at_lf hp
      have hzc : z.crx.after = [CR, LF] := by rw [crx_after, hz]; rfl
      unfold advWhileF
      simp only [hz, hzc, hlf, hcr, Bool.false_eq_true, if_false]
      exact ⟨trivial, h⟩
    · obtain ⟨c, t, hz, _, _, ht⟩ := h.cons hp
      have hzc : z.crx.after = c :: HL.Lex.crx t := by rw [crx_after, hz, crx_cons c ht]
      unfold advWhileF
      simp only [hz, hzc]
      split
      · rw [(advance_crx h hp).1]
        exact ih (advance_crx h hp).2
      · exact ⟨rfl, h⟩

theorem advWhile_crx (p : UInt8 → Bool) (hlf : p LF = false) (hcr : p CR = false) {z : Z} (h : OL z) :
    advWhile p z.crx = (advWhile p z).crx ∧ OL (advWhile p z) := by
  have h1 := advWhileF_crx p hlf hcr z.crx.after.length h
  have hlen : z.after.length ≤ z.crx.after.length := by
    obtain ⟨s, hs, _, _⟩ := h
    rw [crx_after, hs, crx_append]; simp
  have h2 : advWhileF p z.crx.after.length z = advWhile p z := (advWhile_eq_fuel p z _ hlen).symm
  rw [h2] at h1
  exact h1

theorem advLineF_crx (p : UInt8 → Bool) (n : Nat) {z : Z} (h : OL z) :
    advLineF p n z.crx = (advLineF p n z).crx ∧ OL (advLineF p n z) := by
  induction n generalizing z with
  | zero => exact ⟨rfl, h⟩
  | succ n ih =>
    by_cases hp : peek z = LF
    · have hz := h.at_lf hp
      have hzc : z.crx.after = [CR, LF] := by rw [crx_after, hz]; rfl
      unfold advLineF
      simp only [hz, hzc, atEol_lf, atEol_crlf, Bool.not_true, Bool.and_false, Bool.false_eq_true, if_false]
      exact ⟨trivial, h⟩
    · obtain ⟨c, t, hz, h1, h2, ht⟩ := h.cons hp
      have hzc : z.crx.after = c :: HL.Lex.crx t := by rw [crx_after, hz, crx_cons c ht]
      unfold advLineF
      simp only [hz, hzc, atEol_of_ne h1 h2]
      split
      · rw [(advance_crx h hp).1]
        exact ih (advance_crx h hp).2
      · exact ⟨rfl, h⟩

theorem advLine_crx (p : UInt8 → Bool) {z : Z} (h : OL z) :
    advLine p z.crx = (advLine p z).crx ∧ OL (advLine p z) := by
  have h1 := advLineF_crx p z.crx.after.length h
  have hlen : z.after.length ≤ z.crx.after.length := by
    obtain ⟨s, hs, _, _⟩ := h
    rw [crx_after, hs, crx_append]; simp
  have h2 : advLineF p z.crx.after.length z = advLine p z := (advLine_eq_fuel p z _ hlen).symm
  rw [h2] at h1
  exact h1

theorem advIf_crx (p : UInt8 → Bool) (hlf : p LF = false) (hcr : p CR = false) {z : Z} (h : OL z) :
    advIf p z.crx = (advIf p z).crx ∧ OL (advIf p z) := by
  by_cases hp : peek z = LF
  · have hz := h.at_lf hp
    have hzc : z.crx.after = [CR, LF] := by rw [crx_after, hz]; rfl
    unfold advIf
    simp only [hz, hzc, hlf, hcr, Bool.false_eq_true, if_false]
    exact ⟨trivial, h⟩
  · obtain ⟨c, t, hz, _, _, ht⟩ := h.cons hp
    have hzc : z.crx.after = c :: HL.Lex.crx t := by rw [crx_after, hz, crx_cons c ht]
    unfold advIf
    simp only [hz, hzc]
    split
    · exact advance_crx h hp
    · exact ⟨rfl, h⟩

/-! ### pure look-aheads -/

theorem headIs_crx (c : UInt8) (h1 : c ≠ LF) (h2 : c ≠ CR) {a : Bytes} (h : OLb a) :
    headIs c (crx a) = headIs c a := by
  rcases h.cases with rfl | ⟨d, t, rfl, _, _, ht⟩
  · simp only [crx_lf, headIs]
    have e1 : (CR == c) = false := by simpa using fun e => h2 e.symm
    have e2 : (LF == c) = false := by simpa using fun e => h1 e.symm
    rw [e1, e2]
  · rw [crx_cons d ht]; rfl

theorem headIsDigit_crx {a : Bytes} (h : OLb a) : headIsDigit (crx a) = headIsDigit a := by
  rcases h.cases with rfl | ⟨d, t, rfl, _, _, ht⟩
  · rfl
  · rw [crx_cons d ht]; rfl

theorem expAhead_crx {a : Bytes} (h : OLb a) : expAhead (crx a) = expAhead a := by
  rcases h.cases with rfl | ⟨d, t, rfl, _, _, ht⟩
  · rfl
  · rw [crx_cons d ht]
    simp only [expAhead, headIsDigit_crx ht]

theorem digitOrSignedDigit_crx {a : Bytes} (h : OLb a) : digitOrSignedDigit (crx a) = digitOrSignedDigit a := by
  rcases h.cases with rfl | ⟨d, t, rfl, _, _, ht⟩
  · rfl
  · rw [crx_cons d ht]
    simp only [digitOrSignedDigit, headIsDigit_crx ht]

theorem lvaGo_crx {a : Bytes} (h : OLb a) : lvaGo (crx a) = lvaGo a := by
  obtain ⟨s, rfl, h1, h2⟩ := h
  rw [crx_append]
  induction s with
  | nil => rfl
  | cons c s ih =>
    simp only [List.cons_append, lvaGo]
    rw [ih (fun m => h1 (by simp [m])) (fun m => h2 (by simp [m]))]

theorem isEmpty_crx {a : Bytes} (h : OLb a) : (crx a).isEmpty = a.isEmpty := by
  have h1 := crx_ne_nil h
  have h2 := h.ne_nil
  cases ha : crx a with
  | nil => exact absurd ha h1
  | cons _ _ =>
    cases hb : a with
    | nil => exact absurd hb h2
    | cons _ _ => rfl

theorem dropWhile_letter_crx {a : Bytes} (h : OLb a) :
    (crx a).dropWhile isLetter = crx (a.dropWhile isLetter) ∧ OLb (a.dropWhile isLetter) := by
  obtain ⟨s, rfl, h1, h2⟩ := h
  rw [crx_append]
  induction s with
  | nil => exact ⟨by decide, OLb.lf⟩
  | cons c s ih =>
    have ih' := ih (fun m => h1 (by simp [m])) (fun m => h2 (by simp [m]))
    simp only [List.cons_append, List.dropWhile_cons]
    split
    · exact ih'
    · have : OLb (c :: (s ++ [LF])) :=
        OLb.cons (fun e => h1 (by simp [e])) (fun e => h2 (by simp [e])) ⟨s, rfl, fun m => h1 (by simp [m]), fun m => h2 (by simp [m])⟩
      refine ⟨?_, this⟩
      rw [crx_cons c ⟨s, rfl, fun m => h1 (by simp [m]), fun m => h2 (by simp [m])⟩, crx_append]

theorem looksLikeAccountF_crx (n : Nat) {a : Bytes} (hc : Bool) (h : OLb a) :
    looksLikeAccountF n (crx a) hc = looksLikeAccountF n a hc := by
  induction n generalizing a hc with
  | zero => rfl
  | succ n ih =>
    rcases h.cases with rfl | ⟨c, t, rfl, h1, h2, ht⟩
    · simp [crx_lf, looksLikeAccountF, decodeRune, isAccountTerminator]
    · have hd := decodeRune_crx (c := c) ht
      have hdrop := OLb.drop (OLb.cons h1 h2 ht) (decodeRune (c :: t)).2 (decodeRune_take_noLF c t h1)
      rw [crx_cons c ht] at hdrop ⊢
      simp only [looksLikeAccountF, hd, headIs_crx 0x20 (by decide) (by decide) ht, ← hdrop.2.1,
        ih _ hdrop.1]

theorem looksLikeAccount_crx {a : Bytes} (h : OLb a) : looksLikeAccount (crx a) = looksLikeAccount a := by
  unfold looksLikeAccount
  rw [looksLikeAccountF_crx _ false h]
  obtain ⟨s, hs, _, _⟩ := h
  exact looksLikeAccountF_fuel _ _ a false (by rw [hs, crx_append]; simp) (Nat.le_refl _)

theorem looksLikeVirtualAccount_crx {c : UInt8} {t : Bytes} (ht : OLb t) :
    looksLikeVirtualAccount (c :: crx t) = looksLikeVirtualAccount (c :: t) := by
  simp only [looksLikeVirtualAccount, List.drop_succ_cons, List.drop_zero]
  exact lvaGo_crx ht

theorem nextIsDigit_crx {c : UInt8} {t : Bytes} (ht : OLb t) :
    nextIsDigit (c :: crx t) = nextIsDigit (c :: t) := by
  simp only [nextIsDigit, List.drop_succ_cons, List.drop_zero]
  exact headIsDigit_crx ht

theorem nextIsCurrencySymbol_crx {c : UInt8} {t : Bytes} (ht : OLb t) :
    nextIsCurrencySymbol (c :: crx t) = nextIsCurrencySymbol (c :: t) := by
  simp only [nextIsCurrencySymbol, List.drop_succ_cons, List.drop_zero]
  rcases ht.cases with rfl | ⟨d, u, rfl, _, _, hu⟩
  · simp [crx_lf, decodeRune, isCurrencySymbol]
  · rw [crx_cons d hu]
    simp only [decodeRune_crx hu]

theorem nextIsLetterCommodity_crx {c : UInt8} {t : Bytes} (ht : OLb t) :
    nextIsLetterCommodity (c :: crx t) = nextIsLetterCommodity (c :: t) := by
  simp only [nextIsLetterCommodity, List.drop_succ_cons, List.drop_zero]
  rcases ht.cases with rfl | ⟨d, u, rfl, h1, h2, hu⟩
  · simp [crx_lf, isLetter]
  · rw [crx_cons d hu]
    simp only []
    split
    · rfl
    · have hd := dropWhile_letter_crx (OLb.cons h1 h2 hu)
      rw [crx_cons d hu] at hd
      rw [hd.1, digitOrSignedDigit_crx hd.2]

theorem getD_crx_lt (s : Bytes) (i : Nat) (hi : i < s.length) :
    (s ++ [CR, LF]).getD i 0 = (s ++ [LF]).getD i 0 := by
  rw [getD_append_left _ _ _ hi, getD_append_left _ _ _ hi]

theorem looksLikeDate_crx {a : Bytes} (h : OLb a) : looksLikeDate (crx a) = looksLikeDate a := by
  obtain ⟨s, rfl, h1, h2⟩ := h
  rw [crx_append]
  have nlf : ∀ x ∈ s, (LF == x) = false ∧ (CR == x) = false := by
    intro x hx
    constructor
    · simpa using fun e : LF = x => h1 (e ▸ hx)
    · simpa using fun e : CR = x => h2 (e ▸ hx)
  rcases s with _ | ⟨a0, _ | ⟨a1, _ | ⟨a2, _ | ⟨a3, _ | ⟨a4, _ | ⟨a5, _ | ⟨a6, _ | ⟨a7, r⟩⟩⟩⟩⟩⟩⟩⟩
  all_goals try (simp [looksLikeDate]; done)
  · -- six bytes: only the CR LF text is long enough, and a carriage return is no separator
    have := (nlf a4 (by simp)).2
    simp [looksLikeDate, looksLikeDateCore, isDigit, this]
  · -- seven bytes: the byte behind the two-digit month is LF or CR, neither is the separator
    have e1 := (nlf a4 (by simp)).1
    have e2 := (nlf a4 (by simp)).2
    simp [looksLikeDate, looksLikeDateCore, e1, e2]
  · have g1 : ¬ (r.length + 2 + 1 + 1 + 1 + 1 + 1 + 1 + 1 + 1 < 8) := by omega
    have g2 : ¬ (r.length + 1 + 1 + 1 + 1 + 1 + 1 + 1 + 1 + 1 < 8) := by omega
    simp [looksLikeDate, looksLikeDateCore, g1, g2]

/-! ### the loops of `scanAccount` and `scanNumber` -/

theorem scanAccountF_crx (n : Nat) {z : Z} (l : Z) (h : OL z) :
    scanAccountF n z.crx l.crx = ((scanAccountF n z l).1.crx, (scanAccountF n z l).2.crx) := by
  induction n generalizing z l with
  | zero => rfl
  | succ n ih =>
    by_cases hp : peek z = LF
    · have hz := h.at_lf hp
      have hzc : z.crx.after = [CR, LF] := by rw [crx_after, hz]; rfl
      simp [scanAccountF, hz, crx_lf, decodeRune, isAccountTerminator]
    · obtain ⟨c, t, hz, h1, h2, ht⟩ := h.cons hp
      have hzc : z.crx.after = c :: HL.Lex.crx t := by rw [crx_after, hz, crx_cons c ht]
      have hb := bump_crx h (decodeRune (c :: t)).2 (by rw [hz]; exact decodeRune_take_noLF c t h1)
      simp only [scanAccountF, hz, hzc, decodeRune_crx ht, headIs_crx 0x20 (by decide) (by decide) ht, hb.1]
      split
      · split
        · rfl
        · exact ih l hb.2
      · split
        · rfl
        · exact ih _ hb.2

theorem scanNumberF_crx (n : Nat) {z : Z} (hd : Bool) (h : OL z) :
    scanNumberF n z.crx hd = (scanNumberF n z hd).crx := by
  induction n generalizing z hd with
  | zero => rfl
  | succ n ih =>
    by_cases hp : peek z = LF
    · have hz := h.at_lf hp
      have hzc : z.crx.after = [CR, LF] := by rw [crx_after, hz]; rfl
      simp [scanNumberF, hz, crx_lf, isDigit, Z.crx]
    · obtain ⟨c, t, hz, h1, h2, ht⟩ := h.cons hp
      have hzc : z.crx.after = c :: HL.Lex.crx t := by rw [crx_after, hz, crx_cons c ht]
      have ha := advance_crx h hp
      have hi := advIf_crx isSign (by decide) (by decide) ha.2
      simp only [scanNumberF, hz, hzc, headIsDigit_crx ht, expAhead_crx ht, ha.1, hi.1, ih _ ha.2, ih _ hi.2]
      repeat' split
      all_goals first | rfl | simp [Z.crx, hz, crx_cons c ht]

/-! ### every scan function but `scanNewline` -/

theorem scanDate_crx {z : Z} (h : OL z) : scanDate z.crx = crxR (scanDate z) := by
  simp only [scanDate]
  rw [(advWhile_crx _ (by decide) (by decide) h).1]
  rfl

theorem scanIndent_crx {z : Z} (h : OL z) : scanIndent z.crx = crxR (scanIndent z) := by
  simp only [scanIndent]
  rw [(advLine_crx _ h).1]
  rfl

theorem scanText_crx {z : Z} (h : OL z) : scanText z.crx = crxR (scanText z) := by
  simp only [scanText]
  rw [(advLine_crx _ h).1]
  rfl

theorem scanStatus_crx {z : Z} (h : OL z) (hp : peek z ≠ LF) : scanStatus z.crx = crxR (scanStatus z) := by
  simp only [scanStatus]
  rw [peek_crx h hp, (advance_crx h hp).1]
  rfl

theorem scanSign_crx {z : Z} (h : OL z) (hp : peek z ≠ LF) : scanSign z.crx = crxR (scanSign z) := by
  simp only [scanSign]
  rw [peek_crx h hp, (advance_crx h hp).1]
  rfl

theorem punct_crx (ty : TokType) (v : Bytes) {z : Z} (h : OL z) (hp : peek z ≠ LF) :
    punct ty v z.crx = crxR (punct ty v z) := by
  simp only [punct]
  rw [(advance_crx h hp).1]
  rfl

theorem scanCode_crx {z : Z} (h : OL z) (hp : peek z ≠ LF) : scanCode z.crx = crxR (scanCode z) := by
  simp only [scanCode]
  have h1 := advance_crx h hp
  have h2 := advLine_crx (fun c => c != 0x29) h1.2
  have h3 := advIf_crx (· == 0x29) (by decide) (by decide) h2.2
  rw [h1.1, h2.1, h3.1]
  rfl

theorem scanQuotedCommodity_crx {z : Z} (h : OL z) (hp : peek z ≠ LF) :
    scanQuotedCommodity z.crx = crxR (scanQuotedCommodity z) := by
  simp only [scanQuotedCommodity]
  have h1 := advance_crx h hp
  have h2 := advLine_crx (fun c => c != 0x22) h1.2
  have h3 := advIf_crx (· == 0x22) (by decide) (by decide) h2.2
  rw [h1.1, h2.1, h3.1]
  rfl

theorem scanComment_crx {z : Z} (h : OL z) (hp : peek z ≠ LF) : scanComment z.crx = crxR (scanComment z) := by
  simp only [scanComment]
  have h1 := advance_crx h hp
  have h2 := advLine_crx (fun _ => true) h1.2
  rw [h1.1, h2.1]
  rfl

theorem scanAt_crx {z : Z} (h : OL z) (hp : peek z ≠ LF) : scanAt z.crx = crxR (scanAt z) := by
  simp only [scanAt]
  have h1 := advance_crx h hp
  rw [h1.1, crx_after, headIs_crx 0x40 (by decide) (by decide) h1.2]
  split
  · have hp1 : peek (advance z) ≠ LF := by
      rename_i hh
      intro e
      have := h1.2.at_lf e
      rw [this] at hh; simp [headIs] at hh
    rw [(advance_crx h1.2 hp1).1]; rfl
  · rfl

theorem scanEquals_crx {z : Z} (h : OL z) (hp : peek z ≠ LF) : scanEquals z.crx = crxR (scanEquals z) := by
  simp only [scanEquals]
  have h1 := advance_crx h hp
  rw [h1.1, crx_after, headIs_crx 0x3D (by decide) (by decide) h1.2]
  split
  · have hp1 : peek (advance z) ≠ LF := by
      rename_i hh
      intro e
      have := h1.2.at_lf e
      rw [this] at hh; simp [headIs] at hh
    rw [(advance_crx h1.2 hp1).1]; rfl
  · rfl

theorem scanCurrencySymbol_crx {z : Z} (h : OL z) (hp : peek z ≠ LF) :
    scanCurrencySymbol z.crx = crxR (scanCurrencySymbol z) := by
  obtain ⟨c, t, hz, h1, h2, ht⟩ := h.cons hp
  have hzc : z.crx.after = c :: HL.Lex.crx t := by rw [crx_after, hz, crx_cons c ht]
  have hb := bump_crx h (decodeRune (c :: t)).2 (by rw [hz]; exact decodeRune_take_noLF c t h1)
  simp only [scanCurrencySymbol, hz, hzc, decodeRune_crx ht, hb.1]
  rfl

theorem scanAccount_crx {z : Z} (h : OL z) : scanAccount z.crx = crxR (scanAccount z) := by
  simp only [scanAccount]
  rw [scanAccountF_crx _ z h]
  have hlen : z.after.length ≤ z.crx.after.length := by
    obtain ⟨s, hs, _, _⟩ := h
    rw [crx_after, hs, crx_append]; simp
  rw [scanAccountF_fuel z.crx.after.length z.after.length z z hlen (Nat.le_refl _)]
  rfl

theorem scanNumber_crx {z : Z} (h : OL z) : scanNumber z.crx = crxR (scanNumber z) := by
  simp only [scanNumber]
  rw [scanNumberF_crx _ false h]
  have hlen : z.after.length ≤ z.crx.after.length := by
    obtain ⟨s, hs, _, _⟩ := h
    rw [crx_after, hs, crx_append]; simp
  rw [scanNumberF_fuel z.crx.after.length z.after.length z false hlen (Nat.le_refl _)]
  rfl

theorem scanDirectiveOrAccount_crx {z : Z} (h : OL z) :
    scanDirectiveOrAccount z.crx = crxR (scanDirectiveOrAccount z) := by
  simp only [scanDirectiveOrAccount]
  rw [(advWhile_crx isLetter (by decide) (by decide) h).1, between_crx, mkTok_crx, crx_after,
    looksLikeAccount_crx h, scanAccount_crx h, scanText_crx h]
  simp only [apply_ite crxR]

theorem scanCommodityOrText_crx (C : Classes) {z : Z} (h : OL z) :
    scanCommodityOrText C z.crx = crxR (scanCommodityOrText C z) := by
  simp only [scanCommodityOrText]
  have h1 := advWhile_crx isLetter (by decide) (by decide) h
  have h2 := advWhile_crx (fun c => isLetter c || isDigit c) (by decide) (by decide) h1.2
  have hf : followsAmountNumber z.crx = followsAmountNumber z := rfl
  rw [h1.1, h2.1, hf, between_crx, between_crx, mkTok_crx, mkTok_crx, crx_after, crx_before, crx_before,
    digitOrSignedDigit_crx h1.2, scanText_crx h, isEmpty_crx h1.2]
  simp only [apply_ite crxR]

/-! ### the dispatchers -/

theorem skipSpaces_crx {z : Z} (h : OL z) : skipSpaces z.crx = (skipSpaces z).crx ∧ OL (skipSpaces z) :=
  advWhile_crx isBlank (by decide) (by decide) h

/-- inside the line (not at its line feed) `scanInLineAt` does not see the difference -/
theorem scanInLineAt_crx (C : Classes) {z : Z} (h : OL z) (hp : peek z ≠ LF) :
    scanInLineAt C z.crx = crxR (scanInLineAt C z) := by
  obtain ⟨c, t, hz, h1, h2, ht⟩ := h.cons hp
  have hzc : z.crx.after = c :: HL.Lex.crx t := by rw [crx_after, hz, crx_cons c ht]
  have hol : OLb (c :: t) := OLb.cons h1 h2 ht
  have e5 : looksLikeDate (c :: HL.Lex.crx t) = looksLikeDate (c :: t) := by
    rw [← crx_cons c ht]; exact looksLikeDate_crx hol
  have e6 : looksLikeAccount (c :: HL.Lex.crx t) = looksLikeAccount (c :: t) := by
    rw [← crx_cons c ht]; exact looksLikeAccount_crx hol
  unfold scanInLineAt
  simp only [hz, hzc, atEol_of_ne h1 h2, Bool.false_eq_true, if_false, peekRune_crx h hp,
    scanComment_crx h hp, looksLikeVirtualAccount_crx ht, punct_crx _ _ h hp, scanCode_crx h hp,
    scanAt_crx h hp, scanEquals_crx h hp, scanStatus_crx h hp, scanCurrencySymbol_crx h hp,
    scanQuotedCommodity_crx h hp, nextIsCurrencySymbol_crx ht, nextIsLetterCommodity_crx ht,
    nextIsDigit_crx ht, scanSign_crx h hp, scanText_crx h, e5, scanDate_crx h, scanNumber_crx h, e6,
    scanAccount_crx h, scanCommodityOrText_crx C h, apply_ite crxR]

/-- the result state of a token that stays on the line still has exactly that line ahead -/
theorem OL.of_advNL {z e : Z} (h : OL z) (ha : AdvNL z e) : OL e := by
  obtain ⟨s, hs, h1, h2⟩ := h
  obtain ⟨pre, hp, _, hno, _⟩ := ha
  rw [hs] at hp
  have hne : e.after ≠ [] := by
    intro e0
    rw [e0, List.append_nil] at hp
    exact hno (by rw [← hp]; simp)
  obtain ⟨s', hs1, hs2⟩ := suffix_split hp.symm hne
  exact ⟨s', hs1, fun m => h1 (by rw [hs2]; simp [m]), fun m => h2 (by rw [hs2]; simp [m])⟩

/-- One call of `Next` with exactly one line ahead, on `s ++ [CR, LF]` (`r'`) compared with
    `s ++ [LF]` (`r`): either the same token inside the line and the same state but for the
    unread input, or — at the line end, behind blanks — the Newline token, which in the CR LF
    text starts at the CR and is one byte longer. -/
inductive CrStep (L : Nat) (r' r : Token × Z) : Prop
  | inside (h : r' = crxR r) (hol : OL r.2) (hpl : r.1.pos.line = L) (hsl : r.1.stop.line = L)
      (hl : r.2.line = L) : CrStep L r' r
  | newline (zz : Z) (hl : zz.line = L) (hr : r = (nlTok zz, zz.nl []))
      (hr' : r' = (nlTokc zz true, zz.nlc true [])) : CrStep L r' r

theorem CrStep.of_nl {z : Z} {r' r : Token × Z} (h : OL z) (hr : r' = crxR r) (hn : NL z r) :
    CrStep z.line r' r := by
  obtain ⟨pre, _, _, _, hline⟩ := hn.adv
  refine CrStep.inside hr (h.of_advNL hn.adv) (by rw [hn.pos]; rfl) (by rw [hn.stop.line, hn.pos]; rfl) hline

theorem scanInLine_crstep (C : Classes) {z : Z} (h : OL z) :
    CrStep z.line (scanInLine C z.crx) (scanInLine C z) := by
  have hs := skipSpaces_crx h
  obtain ⟨sp, _, _, _, hline⟩ := skipSpaces_spec z
  unfold scanInLine
  rw [hs.1]
  by_cases hp : peek (skipSpaces z) = LF
  · have hz1 := hs.2.at_lf hp
    have hz1c : (skipSpaces z).crx.after = eol true ++ [] := by rw [crx_after, hz1]; rfl
    refine CrStep.newline (skipSpaces z) hline (scanInLineAt_newline C hz1) ?_
    rw [scanInLineAt_newline_c C true hz1c]
    rfl
  · obtain ⟨c, t, hz1, h1, h2, _⟩ := hs.2.cons hp
    have hn := scanInLineAt_nl C hz1 (by rw [atEol_of_ne h1 h2]; simp)
    rw [← hline]
    exact CrStep.of_nl hs.2 (scanInLineAt_crx C hs.2 hp) hn

theorem scanLineStartAt_crstep (C : Classes) {z : Z} (h : OL z) :
    CrStep z.line (scanLineStartAt C z.crx) (scanLineStartAt C z) := by
  by_cases hp : peek z = LF
  · have hz := h.at_lf hp
    have e1 : scanLineStartAt C z = scanInLine C z := by
      unfold scanLineStartAt
      simp only [peek, hz, List.headD_cons, atEol_lf]
      rw [if_neg (by decide), if_neg (by decide), if_neg (by decide), if_neg (by decide)]
    have e2 : scanLineStartAt C z.crx = scanInLine C z.crx := by
      unfold scanLineStartAt
      simp only [peek, crx_after, hz, crx_lf, List.headD_cons, atEol_crlf]
      rw [if_neg (by decide), if_neg (by decide), if_neg (by decide), if_neg (by decide)]
    rw [e1, e2]
    exact scanInLine_crstep C h
  · obtain ⟨c, t, hz, h1, h2, ht⟩ := h.cons hp
    have hzc : z.crx.after = c :: HL.Lex.crx t := by rw [crx_after, hz, crx_cons c ht]
    have hpk : peek z = c := by simp [peek, hz]
    unfold scanLineStartAt
    simp only [peek_crx h hp, hzc, hz, atEol_of_ne h1 h2]
    split
    · exact CrStep.of_nl h (scanComment_crx h hp) (scanComment_nl hp)
    split
    · exact CrStep.of_nl h (scanIndent_crx h) (scanIndent_nl z)
    split
    · exact CrStep.of_nl h (scanDate_crx h) (scanDate_nl z)
    split
    · exact CrStep.of_nl h (scanDirectiveOrAccount_crx h) (scanDirectiveOrAccount_nl z)
    · exact scanInLine_crstep C h

theorem next_of_cons (C : Classes) {z : Z} {b : UInt8} {t : Bytes} (hz : z.after = b :: t) :
    next C z = if z.atStart && z.col == 1 then scanLineStart C z else scanInLine C z := by
  unfold next; rw [hz]

theorem next_crstep (C : Classes) {z : Z} (h : OL z) : CrStep z.line (next C z.crx) (next C z) := by
  obtain ⟨b, t, hz⟩ := List.exists_cons_of_ne_nil (OLb.ne_nil h)
  obtain ⟨b', t', hzc⟩ := List.exists_cons_of_ne_nil (crx_ne_nil h)
  rw [next_of_cons C hz, next_of_cons C (z := z.crx) hzc]
  by_cases hc : (z.atStart && z.col == 1) = true
  · have hc' : (z.crx.atStart && z.crx.col == 1) = true := hc
    rw [if_pos hc, if_pos hc']
    have he : ({ z.crx with atStart := false } : Z) = ({ z with atStart := false } : Z).crx := rfl
    unfold scanLineStart
    rw [he]
    exact scanLineStartAt_crstep C (z := { z with atStart := false }) h
  · have hc' : ¬ (z.crx.atStart && z.crx.col == 1) = true := hc
    rw [if_neg hc, if_neg hc']
    exact scanInLine_crstep C h

/-! ### the token stream of one line -/

/-- offsets of positions behind line `L` moved by the number of line ends between -/
def crLine (L : Nat) (t : Token) : Token :=
  { t with pos := ⟨t.pos.line, t.pos.col, t.pos.off + (t.pos.line - L)⟩,
           stop := ⟨t.stop.line, t.stop.col, t.stop.off + (t.stop.line - L)⟩ }

theorem crLine_same (L : Nat) (t : Token) (h1 : t.pos.line = L) (h2 : t.stop.line = L) : crLine L t = t := by
  cases t with
  | mk ty v p e =>
    cases p; cases e
    simp only at h1 h2
    simp [crLine, h1, h2]

/-- **One line.**  With exactly one line `s ++ [LF]` ahead (no CR in `s`), the stream lexed from
    `s ++ [CR, LF]` is the stream lexed from `s ++ [LF]` with the end of the Newline token and the
    EOF token one byte further on. -/
theorem lexS_crx (C : Classes) (n : Nat) {z : Z} (h : OL z) (hn : z.after.length ≤ n) :
    lexS C z.crx = (lexS C z).map (crLine z.line) := by
  induction n generalizing z with
  | zero =>
    have := OLb.ne_nil h
    exact absurd (List.eq_nil_of_length_eq_zero (by omega)) this
  | succ n ih =>
    cases next_crstep C h with
    | inside hr hol hpl hsl hl =>
      have hne : (next C z).1.ty ≠ .eof := by
        intro e
        exact OLb.ne_nil hol (next_eof_iff C z e)
      have hne' : (next C z.crx).1.ty ≠ .eof := by rw [hr]; exact hne
      have hlt := next_lt_of_ne_eof C z hne
      rw [lexS_unfold C z.crx, lexS_unfold C z, if_neg hne, if_neg hne', hr]
      simp only [crxR, List.map_cons]
      rw [ih hol (by omega), hl, crLine_same _ _ hpl hsl]
    | newline zz hl hr hr' =>
      have e1 : lexS C z = [nlTok zz, (mkTok .eof [] (zz.nl []) (zz.nl [])).1] := by
        rw [lexS_unfold C z, hr, if_neg (by simp [nlTok]), lexS_unfold, next_nil C rfl]
        simp [mkTok]
      have e2 : lexS C z.crx = [nlTokc zz true, (mkTok .eof [] (zz.nlc true []) (zz.nlc true [])).1] := by
        rw [lexS_unfold C z.crx, hr', if_neg (by simp [nlTokc]), lexS_unfold, next_nil C rfl]
        simp [mkTok]
      rw [e1, e2]
      simp [crLine, nlTok, nlTokc, mkTok, Z.nl, Z.nlc, Z.position, hl]

end HL.Lex
