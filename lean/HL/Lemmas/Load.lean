/-
  `include.Loader.Load` on a fresh loader (`load`): the files it returns are exactly the
  existing files reachable from the root (other than the root), each with its content, and
  `FileOrder` lists exactly those files — provided the directory has at most
  `MaxIncludeDepth` files.  Termination: the work list potential decreases (`loadFuel`).
-/
import HL.Lemmas.ReachIdx
namespace HL.Lemmas.Load
open HL.Index HL.Workspace HL.Lemmas.AList HL.Lemmas.ReachIdx HL.Spec.Rebuild

structure LoadInv (fs : FS) (root : String) (todo : List (String × Nat)) (st : LoadSt) : Prop where
  root_mem : root ∈ st.visited
  vis : ∀ x ∈ st.visited, Reach fs root x ∧ (fs.get x).isSome
  todo_reach : ∀ x ∈ todo, Reach fs root x.1
  depth : ∀ x ∈ todo, x.2 + 1 ≤ st.visited.length
  order : ∀ x, x ∈ st.order ↔ (x ∈ st.visited ∧ x ≠ root)
  files : ∀ x, st.files.get x = if x ∈ st.visited ∧ x ≠ root then fs.get x else none
  nodup : st.visited.Nodup
  closed : ∀ u ∈ st.visited, ∀ v ∈ succs fs u, v ∈ st.visited ∨ v ∈ todo.map (·.1) ∨ fs.get v = none

theorem succs_of_get (fs : FS) (p : String) (c : Contrib) (h : fs.get p = some c) :
    succs fs p = c.incs := by simp [succs, h]

theorem length_le_of_nodup_subset : ∀ (l₁ l₂ : List String), l₁.Nodup → (∀ x ∈ l₁, x ∈ l₂) →
    l₁.length ≤ l₂.length := by
  intro l₁
  induction l₁ with
  | nil => intro l₂ _ _; simp
  | cons a r ih =>
    intro l₂ hn hs
    rw [List.nodup_cons] at hn
    have ha : a ∈ l₂ := hs a List.mem_cons_self
    have := ih (l₂.erase a) hn.2 (by
      intro x hx
      have hx2 : x ∈ l₂ := hs x (List.mem_cons_of_mem _ hx)
      have hne : x ≠ a := fun e => hn.1 (e ▸ hx)
      exact (List.mem_erase_of_ne hne).mpr hx2)
    rw [List.length_erase_of_mem ha] at this
    have hpos : 0 < l₂.length := List.length_pos_of_mem ha
    simp only [List.length_cons]; omega

theorem loadF_inv (limit : Nat) (fs : FS) (root : String) (hlim : fs.keys.length ≤ limit) :
    ∀ (n : Nat) (todo : List (String × Nat)) (st : LoadSt),
      todo.length + rest (graphOf fs) st.visited < n → LoadInv fs root todo st →
      LoadInv fs root [] (loadF limit fs n todo st) := by
  intro n
  induction n with
  | zero => intro todo st h; omega
  | succ n ih =>
    intro todo st hfuel hinv
    cases todo with
    | nil => simpa [loadF] using hinv
    | cons pd rest' =>
      obtain ⟨p, d⟩ := pd
      unfold loadF
      by_cases hv : p ∈ st.visited
      · simp only [hv, if_true]
        apply ih rest' st (by simp only [List.length_cons] at hfuel; omega)
        exact { hinv with
          todo_reach := fun x hx => hinv.todo_reach x (List.mem_cons_of_mem _ hx)
          depth := fun x hx => hinv.depth x (List.mem_cons_of_mem _ hx)
          closed := by
            intro u hu v hvv
            rcases hinv.closed u hu v hvv with h | h | h
            · exact Or.inl h
            · simp only [List.map_cons, List.mem_cons] at h
              rcases h with h | h
              · exact Or.inl (h ▸ hv)
              · exact Or.inr (Or.inl h)
            · exact Or.inr (Or.inr h) }
      · simp only [hv, if_false]
        cases hg : fs.get p with
        | none =>
          simp only
          apply ih rest' st (by simp only [List.length_cons] at hfuel; omega)
          exact { hinv with
            todo_reach := fun x hx => hinv.todo_reach x (List.mem_cons_of_mem _ hx)
            depth := fun x hx => hinv.depth x (List.mem_cons_of_mem _ hx)
            closed := by
              intro u hu v hvv
              rcases hinv.closed u hu v hvv with h | h | h
              · exact Or.inl h
              · simp only [List.map_cons, List.mem_cons] at h
                rcases h with h | h
                · exact Or.inr (Or.inr (h ▸ hg))
                · exact Or.inr (Or.inl h)
              · exact Or.inr (Or.inr h) }
        | some c =>
          simp only
          -- the depth limit is not reached: a chain of includes consists of distinct visited
          -- files of the directory
          have hlen : st.visited.length < fs.keys.length := by
            have h1 : (p :: st.visited).Nodup := List.nodup_cons.mpr ⟨hv, hinv.nodup⟩
            have h2 := length_le_of_nodup_subset (p :: st.visited) fs.keys h1 (by
              intro x hx
              rcases List.mem_cons.mp hx with hx | hx
              · rw [hx, mem_keys_iff, hg]; rfl
              · rw [mem_keys_iff]; exact (hinv.vis x hx).2)
            simp only [List.length_cons] at h2; omega
          have hd := hinv.depth (p, d) List.mem_cons_self
          simp only at hd
          have hnl : ¬ d + 1 ≥ limit := by omega
          simp only [hnl, if_false]
          have hpr : Reach fs root p := hinv.todo_reach (p, d) List.mem_cons_self
          have hsucc : succs fs p = c.incs := succs_of_get fs p c hg
          have hne : p ≠ root := fun e => hv (e ▸ hinv.root_mem)
          have hrest := rest_visit (graphOf fs) st.visited p hv
          rw [getD_graphOf, hsucc] at hrest
          apply ih (c.incs.map (·, d + 1) ++ rest') _ (by
            simp only [List.length_cons, List.length_append, List.length_map] at hfuel ⊢; omega)
          refine
            { root_mem := List.mem_append_left _ hinv.root_mem
              vis := ?_, todo_reach := ?_, depth := ?_, order := ?_, files := ?_, nodup := ?_,
              closed := ?_ }
          · intro x hx
            rcases List.mem_append.mp hx with hx | hx
            · exact hinv.vis x hx
            · simp only [List.mem_singleton] at hx
              subst hx; exact ⟨hpr, by rw [hg]; rfl⟩
          · intro x hx
            rcases List.mem_append.mp hx with hx | hx
            · obtain ⟨y, hy, rfl⟩ := List.mem_map.mp hx
              exact .step hpr (hsucc ▸ hy)
            · exact hinv.todo_reach x (List.mem_cons_of_mem _ hx)
          · intro x hx
            simp only [List.length_append, List.length_singleton]
            rcases List.mem_append.mp hx with hx | hx
            · obtain ⟨y, _, rfl⟩ := List.mem_map.mp hx
              simp only; omega
            · have := hinv.depth x (List.mem_cons_of_mem _ hx); omega
          · intro x
            simp only [List.mem_append, List.mem_singleton, hinv.order x]
            constructor
            · rintro (h | h)
              · exact ⟨Or.inl h.1, h.2⟩
              · exact ⟨Or.inr h, h ▸ hne⟩
            · rintro ⟨h | h, h2⟩
              · exact Or.inl ⟨h, h2⟩
              · exact Or.inr h
          · intro x
            simp only [get_set, List.mem_append, List.mem_singleton]
            by_cases e : p = x
            · subst e; simp [hne, hg]
            · have e' : ¬ x = p := fun h => e h.symm
              simp only [e, if_false, hinv.files x, e', or_false]
          · rw [List.nodup_append]
            refine ⟨hinv.nodup, by simp, ?_⟩
            intro a ha b hb
            simp only [List.mem_singleton] at hb
            subst hb; exact fun e => hv (e ▸ ha)
          · intro u hu v hvv
            simp only [List.map_append, List.map_map, List.mem_append]
            rcases List.mem_append.mp hu with hu | hu
            · rcases hinv.closed u hu v hvv with h | h | h
              · exact Or.inl (Or.inl h)
              · simp only [List.map_cons, List.mem_cons] at h
                rcases h with h | h
                · exact Or.inl (Or.inr (by simp [h]))
                · exact Or.inr (Or.inl (Or.inr h))
              · exact Or.inr (Or.inr h)
            · simp only [List.mem_singleton] at hu
              subst hu
              rw [hsucc] at hvv
              refine Or.inr (Or.inl (Or.inl ?_))
              exact List.mem_map.mpr ⟨v, hvv, rfl⟩

theorem rest_le_total (fs : FS) (r : List String) :
    rest (graphOf fs) r ≤ (fs.map fun e => e.2.incs.length + 1).sum := by
  induction fs with
  | nil => simp [rest, graphOf]
  | cons e fs ih =>
    obtain ⟨k, c⟩ := e
    simp only [graphOf, List.map_cons] at *
    rw [rest_cons]
    split <;> simp only [List.sum_cons] <;> omega

/-- what `Loader.Load` returns (see the header). -/
theorem load_spec (limit : Nat) (fs : FS) (root : String) (c : Contrib)
    (hlim : fs.keys.length ≤ limit) (hroot : fs.get root = some c) :
    let st := load limit fs root c
    (∀ x c', st.files.get x = some c' ↔ (Reach fs root x ∧ x ≠ root ∧ fs.get x = some c')) ∧
    (∀ x, x ∈ st.order ↔ (st.files.get x).isSome) := by
  have hinit : LoadInv fs root (c.incs.map (·, 0)) { visited := [root] } :=
    { root_mem := by simp
      vis := by intro x hx; simp at hx; subst hx; exact ⟨.base, by rw [hroot]; rfl⟩
      todo_reach := by
        intro x hx
        obtain ⟨y, hy, rfl⟩ := List.mem_map.mp hx
        exact .step .base (by rw [succs_of_get fs root c hroot]; exact hy)
      depth := by
        intro x hx
        obtain ⟨y, _, rfl⟩ := List.mem_map.mp hx
        simp
      order := by intro x; simp
      files := by intro x; simp
      nodup := by simp
      closed := by
        intro u hu v hv
        simp at hu; subst hu
        rw [succs_of_get fs u c hroot] at hv
        exact Or.inr (Or.inl (by simp [List.map_map, Function.comp_def, hv])) }
  have hfuel : (c.incs.map (·, 0)).length + rest (graphOf fs) [root] < loadFuel fs c := by
    have := rest_le_total fs [root]
    unfold loadFuel; simp only [List.length_map]; omega
  have hfin := loadF_inv limit fs root hlim (loadFuel fs c) (c.incs.map (·, 0)) { visited := [root] } hfuel hinit
  -- every reachable existing file has been visited
  have hall : ∀ x, Reach fs root x → (fs.get x).isSome → x ∈ (load limit fs root c).visited := by
    intro x hx
    induction hx with
    | base => intro _; exact hfin.root_mem
    | @step u v hp hq ih =>
      intro hv
      have hu : (fs.get u).isSome := by
        cases e : fs.get u with
        | some _ => rfl
        | none => simp [succs, e] at hq
      rcases hfin.closed u (ih hu) v hq with h | h | h
      · exact h
      · simp at h
      · rw [h] at hv; simp at hv
  intro st
  have hst : st = loadF limit fs (loadFuel fs c) (c.incs.map (·, 0)) { visited := [root] } := rfl
  rw [← hst] at hfin
  have hfiles : ∀ x c', st.files.get x = some c' ↔ (Reach fs root x ∧ x ≠ root ∧ fs.get x = some c') := by
    intro x c'
    rw [hfin.files x]
    constructor
    · intro h
      by_cases hc : x ∈ st.visited ∧ x ≠ root
      · rw [if_pos hc] at h
        exact ⟨(hfin.vis x hc.1).1, hc.2, h⟩
      · simp [hc] at h
    · rintro ⟨hr, hne, hg⟩
      have : x ∈ st.visited := hall x hr (by rw [hg]; rfl)
      simp [this, hne, hg]
  refine ⟨hfiles, ?_⟩
  intro x
  rw [hfin.order x, hfin.files x]
  constructor
  · intro h
    rw [if_pos h]
    exact (hfin.vis x h.1).2
  · intro h
    by_cases hc : x ∈ st.visited ∧ x ≠ root
    · exact hc
    · simp [hc] at h

end HL.Lemmas.Load
