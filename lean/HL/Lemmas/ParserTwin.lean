import HL.Lemmas.ParserShift
/-
  Twin runs: two token lists that share a prefix ending in a Newline and go on differently.
  As long as both continuations start with a token in column 1 at the same position, every
  parse function does the same thing on both lists until the common prefix is used up.
-/
namespace HL.Parser
open HL HL.Ast

variable (num : NumDeps) (cls : Classes)

/-- Two runs of the parser on token lists that share a prefix ending in a Newline and then go
    on differently (`R1` / `R2`). -/
structure Tails where
  y0 : Token
  Y' : List Token
  z0 : Token
  Z' : List Token
  pos_eq : y0.pos = z0.pos
  y_ind : y0.ty ≠ .indent
  y_nl : y0.ty ≠ .newline
  z_ind : z0.ty ≠ .indent
  z_nl : z0.ty ≠ .newline

variable (T : Tails)

/-- Both runs are inside the common prefix: same current token, same errors and default year;
    the sources are `P ++ R1` / `P ++ R2`, and the token in front of the tails is a Newline. -/
def In (s1 s2 : PState (List Token)) : Prop :=
  s2.current = s1.current ∧ s2.errors = s1.errors ∧ s2.defaultYear = s1.defaultYear ∧
  ∃ P, s1.src = P ++ T.y0 :: T.Y' ∧ s2.src = P ++ T.z0 :: T.Z' ∧
    (lastNL (s1.current.ty = .newline) P = true)

/-- Both runs have just consumed the Newline that ends the common prefix. -/
def AtB (s1 s2 : PState (List Token)) : Prop :=
  s2.errors = s1.errors ∧ s2.defaultYear = s1.defaultYear ∧
  s1.current = T.y0 ∧ s1.src = T.Y' ∧ s2.current = T.z0 ∧ s2.src = T.Z'

def Tw (s1 s2 : PState (List Token)) : Prop := In T s1 s2 ∨ AtB T s1 s2

theorem In.cur {s1 s2} (h : In T s1 s2) : s2.current = s1.current := h.1
theorem In.errs {s1 s2} (h : In T s1 s2) : s2.errors = s1.errors := h.2.1
theorem In.dy {s1 s2} (h : In T s1 s2) : s2.defaultYear = s1.defaultYear := h.2.2.1

theorem In.adv {s1 s2} (h : In T s1 s2) (hn : s1.current.ty ≠ .newline) :
    In T (advance (listEnv num cls) s1) (advance (listEnv num cls) s2) := by
  obtain ⟨hc, he, hd, P, h1, h2, hl⟩ := h
  cases P with
  | nil => simp [lastNL, hn] at hl
  | cons t P' =>
    refine ⟨?_, he, hd, P', ?_, ?_, ?_⟩
    · simp [advance, listEnv, listSrc, h1, h2]
    · simp [advance, listEnv, listSrc, h1]
    · simp [advance, listEnv, listSrc, h2]
    · simpa [advance, listEnv, listSrc, h1, lastNL] using hl

theorem In.advNL {s1 s2} (h : In T s1 s2) :
    Tw T (advance (listEnv num cls) s1) (advance (listEnv num cls) s2) := by
  obtain ⟨hc, he, hd, P, h1, h2, hl⟩ := h
  cases P with
  | nil =>
    right
    exact ⟨he, hd, by simp [advance, listEnv, listSrc, h1], by simp [advance, listEnv, listSrc, h1],
      by simp [advance, listEnv, listSrc, h2], by simp [advance, listEnv, listSrc, h2]⟩
  | cons t P' =>
    left
    refine ⟨?_, he, hd, P', ?_, ?_, ?_⟩
    · simp [advance, listEnv, listSrc, h1, h2]
    · simp [advance, listEnv, listSrc, h1]
    · simp [advance, listEnv, listSrc, h2]
    · simpa [advance, listEnv, listSrc, h1, lastNL] using hl

theorem In.errorAt {s1 s2} (h : In T s1 s2) (p m) : In T (errorAt s1 p m) (errorAt s2 p m) := by
  obtain ⟨hc, he, hd, P, h1, h2, hl⟩ := h
  exact ⟨hc, by simp [HL.Parser.errorAt, he], hd, P, h1, h2, hl⟩

theorem In.error {s1 s2} (h : In T s1 s2) (m) : In T (error s1 m) (error s2 m) := by
  unfold HL.Parser.error
  rw [h.cur]
  exact h.errorAt T _ _

theorem In.setYear {s1 s2} (h : In T s1 s2) (y : Int) :
    In T { s1 with defaultYear := y } { s2 with defaultYear := y } := by
  obtain ⟨hc, he, hd, P, h1, h2, hl⟩ := h
  exact ⟨hc, he, rfl, P, h1, h2, hl⟩

theorem In.fuel {s1 s2} (h : In T s1 s2) :
    ∃ k, fuelOf (listEnv num cls) s1 = k + T.Y'.length ∧ fuelOf (listEnv num cls) s2 = k + T.Z'.length := by
  obtain ⟨hc, he, hd, P, h1, h2, hl⟩ := h
  exact ⟨P.length + 2, by simp [fuelOf, listEnv, listSrc, h1]; omega, by simp [fuelOf, listEnv, listSrc, h2]; omega⟩

grind_pattern In.adv => In T s1 s2, advance (listEnv num cls) s1
grind_pattern In.advNL => In T s1 s2, advance (listEnv num cls) s1
grind_pattern In.error => In T s1 s2, error s1 m
grind_pattern In.errorAt => In T s1 s2, errorAt s1 p m

/-- What both runs see at the boundary: not an Indent, not a Newline, the same position. -/
theorem AtB.facts {s1 s2} (h : AtB T s1 s2) :
    s1.current.ty ≠ .indent ∧ s1.current.ty ≠ .newline ∧ s2.current.ty ≠ .indent ∧ s2.current.ty ≠ .newline ∧
    s2.current.pos = s1.current.pos ∧ s2.errors = s1.errors ∧ s2.defaultYear = s1.defaultYear := by
  obtain ⟨he, hd, c1, _, c2, _⟩ := h
  rw [c1, c2]
  exact ⟨T.y_ind, T.y_nl, T.z_ind, T.z_nl, T.pos_eq.symm, he, hd⟩

theorem parseComment_tw {s1 s2} (h : In T s1 s2) (hn : s1.current.ty ≠ .newline) :
    (parseComment (listEnv num cls) s2).1 = (parseComment (listEnv num cls) s1).1 ∧
    In T (parseComment (listEnv num cls) s1).2 (parseComment (listEnv num cls) s2).2 := by
  unfold parseComment
  rw [h.cur]
  exact ⟨rfl, h.adv num cls T hn⟩
grind_pattern parseComment_tw => In T s1 s2, parseComment (listEnv num cls) s1

theorem parseDate_tw {s1 s2} (h : In T s1 s2) :
    (parseDate (listEnv num cls) s2).1 = (parseDate (listEnv num cls) s1).1 ∧ In T (parseDate (listEnv num cls) s1).2 (parseDate (listEnv num cls) s2).2 := by
  have hc := h.cur
  have hd := h.dy
  fun_cases parseDate (listEnv num cls) s1 <;>
    (unfold parseDate; (try simp +zetaDelta only [] at *) <;> (first | grind [In.setYear, In.cur, In.dy, In.errs, AtB.facts, Tw, toRange] | (simp_all; done) | (simp_all <;> grind [In.setYear, In.cur, In.dy, In.errs, AtB.facts, Tw, toRange])))
grind_pattern parseDate_tw => In T s1 s2, parseDate (listEnv num cls) s1

theorem parseStatus_tw {s1 s2} (h : In T s1 s2) :
    (parseStatus (listEnv num cls) s2).1 = (parseStatus (listEnv num cls) s1).1 ∧ In T (parseStatus (listEnv num cls) s1).2 (parseStatus (listEnv num cls) s2).2 := by
  have hc := h.cur
  have hd := h.dy
  fun_cases parseStatus (listEnv num cls) s1 <;>
    (unfold parseStatus; (try simp +zetaDelta only [] at *) <;> (first | grind [In.setYear, In.cur, In.dy, In.errs, AtB.facts, Tw, toRange] | (simp_all; done) | (simp_all <;> grind [In.setYear, In.cur, In.dy, In.errs, AtB.facts, Tw, toRange])))
grind_pattern parseStatus_tw => In T s1 s2, parseStatus (listEnv num cls) s1

theorem amountLeadSign_tw {s1 s2} (h : In T s1 s2) :
    (amountLeadSign (listEnv num cls) s2).1 = (amountLeadSign (listEnv num cls) s1).1 ∧ In T (amountLeadSign (listEnv num cls) s1).2 (amountLeadSign (listEnv num cls) s2).2 := by
  have hc := h.cur
  have hd := h.dy
  fun_cases amountLeadSign (listEnv num cls) s1 <;>
    (unfold amountLeadSign; (try simp +zetaDelta only [] at *) <;> (first | grind [In.setYear, In.cur, In.dy, In.errs, AtB.facts, Tw, toRange] | (simp_all; done) | (simp_all <;> grind [In.setYear, In.cur, In.dy, In.errs, AtB.facts, Tw, toRange])))
grind_pattern amountLeadSign_tw => In T s1 s2, amountLeadSign (listEnv num cls) s1

theorem amountLeftCommodity_tw (sg : Bytes) (sb : Bool) {s1 s2} (h : In T s1 s2) :
    (amountLeftCommodity (listEnv num cls) sg sb s2).1 = (amountLeftCommodity (listEnv num cls) sg sb s1).1 ∧ In T (amountLeftCommodity (listEnv num cls) sg sb s1).2 (amountLeftCommodity (listEnv num cls) sg sb s2).2 := by
  have hc := h.cur
  have hd := h.dy
  fun_cases amountLeftCommodity (listEnv num cls) sg sb s1 <;>
    (unfold amountLeftCommodity; (try simp +zetaDelta only [] at *) <;> (first | grind [In.setYear, In.cur, In.dy, In.errs, AtB.facts, Tw, toRange] | (simp_all; done) | (simp_all <;> grind [In.setYear, In.cur, In.dy, In.errs, AtB.facts, Tw, toRange])))
grind_pattern amountLeftCommodity_tw => In T s1 s2, amountLeftCommodity (listEnv num cls) sg sb s1

theorem amountSecondSign_tw (sg : Bytes) {s1 s2} (h : In T s1 s2) :
    (amountSecondSign (listEnv num cls) sg s2).1 = (amountSecondSign (listEnv num cls) sg s1).1 ∧ In T (amountSecondSign (listEnv num cls) sg s1).2 (amountSecondSign (listEnv num cls) sg s2).2 := by
  have hc := h.cur
  have hd := h.dy
  fun_cases amountSecondSign (listEnv num cls) sg s1 <;>
    (unfold amountSecondSign; (try simp +zetaDelta only [] at *) <;> (first | grind [In.setYear, In.cur, In.dy, In.errs, AtB.facts, Tw, toRange] | (simp_all; done) | (simp_all <;> grind [In.setYear, In.cur, In.dy, In.errs, AtB.facts, Tw, toRange])))
grind_pattern amountSecondSign_tw => In T s1 s2, amountSecondSign (listEnv num cls) sg s1

theorem amountRightCommodity_tw (c : Commodity) (stop : Pos) {s1 s2} (h : In T s1 s2) :
    (amountRightCommodity (listEnv num cls) c stop s2).1 = (amountRightCommodity (listEnv num cls) c stop s1).1 ∧ In T (amountRightCommodity (listEnv num cls) c stop s1).2 (amountRightCommodity (listEnv num cls) c stop s2).2 := by
  have hc := h.cur
  have hd := h.dy
  fun_cases amountRightCommodity (listEnv num cls) c stop s1 <;>
    (unfold amountRightCommodity; (try simp +zetaDelta only [] at *) <;> (first | grind [In.setYear, In.cur, In.dy, In.errs, AtB.facts, Tw, toRange] | (simp_all; done) | (simp_all <;> grind [In.setYear, In.cur, In.dy, In.errs, AtB.facts, Tw, toRange])))
grind_pattern amountRightCommodity_tw => In T s1 s2, amountRightCommodity (listEnv num cls) c stop s1

theorem amountNumber_tw (sp : Pos) (sg : Bytes) (c : Commodity) (sb : Bool) {s1 s2} (h : In T s1 s2) :
    (amountNumber (listEnv num cls) sp sg c sb s2).1 = (amountNumber (listEnv num cls) sp sg c sb s1).1 ∧ In T (amountNumber (listEnv num cls) sp sg c sb s1).2 (amountNumber (listEnv num cls) sp sg c sb s2).2 := by
  have hc := h.cur
  have hd := h.dy
  fun_cases amountNumber (listEnv num cls) sp sg c sb s1 <;>
    (unfold amountNumber; (try simp +zetaDelta only [] at *) <;> (first | grind [In.setYear, In.cur, In.dy, In.errs, AtB.facts, Tw, toRange] | (simp_all; done) | (simp_all <;> grind [In.setYear, In.cur, In.dy, In.errs, AtB.facts, Tw, toRange])))
grind_pattern amountNumber_tw => In T s1 s2, amountNumber (listEnv num cls) sp sg c sb s1

theorem parseAmount_tw {s1 s2} (h : In T s1 s2) :
    (parseAmount (listEnv num cls) s2).1 = (parseAmount (listEnv num cls) s1).1 ∧ In T (parseAmount (listEnv num cls) s1).2 (parseAmount (listEnv num cls) s2).2 := by
  have hc := h.cur
  have hd := h.dy
  fun_cases parseAmount (listEnv num cls) s1 <;>
    (unfold parseAmount; (try simp +zetaDelta only [] at *) <;> (first | grind [In.setYear, In.cur, In.dy, In.errs, AtB.facts, Tw, toRange] | (simp_all; done) | (simp_all <;> grind [In.setYear, In.cur, In.dy, In.errs, AtB.facts, Tw, toRange])))
grind_pattern parseAmount_tw => In T s1 s2, parseAmount (listEnv num cls) s1

theorem parseCost_tw {s1 s2} (h : In T s1 s2) (hk : s1.current.ty = .at ∨ s1.current.ty = .atAt) :
    (parseCost (listEnv num cls) s2).1 = (parseCost (listEnv num cls) s1).1 ∧ In T (parseCost (listEnv num cls) s1).2 (parseCost (listEnv num cls) s2).2 := by
  have hc := h.cur
  have hd := h.dy
  fun_cases parseCost (listEnv num cls) s1 <;>
    (unfold parseCost; (try simp +zetaDelta only [] at *) <;> (first | grind [In.setYear, In.cur, In.dy, In.errs, AtB.facts, Tw, toRange] | (simp_all; done) | (simp_all <;> grind [In.setYear, In.cur, In.dy, In.errs, AtB.facts, Tw, toRange])))
grind_pattern parseCost_tw => In T s1 s2, parseCost (listEnv num cls) s1

theorem parseBalanceAssertion_tw {s1 s2} (h : In T s1 s2) (hk : s1.current.ty = .equals ∨ s1.current.ty = .doubleEquals) :
    (parseBalanceAssertion (listEnv num cls) s2).1 = (parseBalanceAssertion (listEnv num cls) s1).1 ∧ In T (parseBalanceAssertion (listEnv num cls) s1).2 (parseBalanceAssertion (listEnv num cls) s2).2 := by
  have hc := h.cur
  have hd := h.dy
  fun_cases parseBalanceAssertion (listEnv num cls) s1 <;>
    (unfold parseBalanceAssertion; (try simp +zetaDelta only [] at *) <;> (first | grind [In.setYear, In.cur, In.dy, In.errs, AtB.facts, Tw, toRange] | (simp_all; done) | (simp_all <;> grind [In.setYear, In.cur, In.dy, In.errs, AtB.facts, Tw, toRange])))
grind_pattern parseBalanceAssertion_tw => In T s1 s2, parseBalanceAssertion (listEnv num cls) s1

theorem postingOpen_tw {s1 s2} (h : In T s1 s2) :
    (postingOpen (listEnv num cls) s2).1 = (postingOpen (listEnv num cls) s1).1 ∧ In T (postingOpen (listEnv num cls) s1).2 (postingOpen (listEnv num cls) s2).2 := by
  have hc := h.cur
  have hd := h.dy
  fun_cases postingOpen (listEnv num cls) s1 <;>
    (unfold postingOpen; (try simp +zetaDelta only [] at *) <;> (first | grind [In.setYear, In.cur, In.dy, In.errs, AtB.facts, Tw, toRange] | (simp_all; done) | (simp_all <;> grind [In.setYear, In.cur, In.dy, In.errs, AtB.facts, Tw, toRange])))
grind_pattern postingOpen_tw => In T s1 s2, postingOpen (listEnv num cls) s1

theorem lineComment_tw {s1 s2} (h : In T s1 s2) :
    (lineComment (listEnv num cls) s2).1 = (lineComment (listEnv num cls) s1).1 ∧ In T (lineComment (listEnv num cls) s1).2 (lineComment (listEnv num cls) s2).2 := by
  have hc := h.cur
  have hd := h.dy
  fun_cases lineComment (listEnv num cls) s1 <;>
    (unfold lineComment; (try simp +zetaDelta only [] at *) <;> (first | grind [In.setYear, In.cur, In.dy, In.errs, AtB.facts, Tw, toRange] | (simp_all; done) | (simp_all <;> grind [In.setYear, In.cur, In.dy, In.errs, AtB.facts, Tw, toRange])))
grind_pattern lineComment_tw => In T s1 s2, lineComment (listEnv num cls) s1

theorem postingClosing_tw (cl : Option TokType) {s1 s2} (h : In T s1 s2) (hcl : ClosingOk cl) :
    In T (postingClosing (listEnv num cls) cl s1) (postingClosing (listEnv num cls) cl s2) := by
  have hc := h.cur
  unfold postingClosing ClosingOk at *
  grind
grind_pattern postingClosing_tw => In T s1 s2, postingClosing (listEnv num cls) cl s1

theorem postingAmount_tw {s1 s2} (h : In T s1 s2) :
    (postingAmount (listEnv num cls) s2).1 = (postingAmount (listEnv num cls) s1).1 ∧ In T (postingAmount (listEnv num cls) s1).2 (postingAmount (listEnv num cls) s2).2 := by
  have hc := h.cur
  have hd := h.dy
  fun_cases postingAmount (listEnv num cls) s1 <;>
    (unfold postingAmount; (try simp +zetaDelta only [] at *) <;> (first | grind [In.setYear, In.cur, In.dy, In.errs, AtB.facts, Tw, toRange] | (simp_all; done) | (simp_all <;> grind [In.setYear, In.cur, In.dy, In.errs, AtB.facts, Tw, toRange])))
grind_pattern postingAmount_tw => In T s1 s2, postingAmount (listEnv num cls) s1

theorem postingCost_tw {s1 s2} (h : In T s1 s2) :
    (postingCost (listEnv num cls) s2).1 = (postingCost (listEnv num cls) s1).1 ∧ In T (postingCost (listEnv num cls) s1).2 (postingCost (listEnv num cls) s2).2 := by
  have hc := h.cur
  have hd := h.dy
  fun_cases postingCost (listEnv num cls) s1 <;>
    (unfold postingCost; (try simp +zetaDelta only [] at *) <;> (first | grind [In.setYear, In.cur, In.dy, In.errs, AtB.facts, Tw, toRange] | (simp_all; done) | (simp_all <;> grind [In.setYear, In.cur, In.dy, In.errs, AtB.facts, Tw, toRange])))
grind_pattern postingCost_tw => In T s1 s2, postingCost (listEnv num cls) s1

theorem postingAssertion_tw {s1 s2} (h : In T s1 s2) :
    (postingAssertion (listEnv num cls) s2).1 = (postingAssertion (listEnv num cls) s1).1 ∧ In T (postingAssertion (listEnv num cls) s1).2 (postingAssertion (listEnv num cls) s2).2 := by
  have hc := h.cur
  have hd := h.dy
  fun_cases postingAssertion (listEnv num cls) s1 <;>
    (unfold postingAssertion; (try simp +zetaDelta only [] at *) <;> (first | grind [In.setYear, In.cur, In.dy, In.errs, AtB.facts, Tw, toRange] | (simp_all; done) | (simp_all <;> grind [In.setYear, In.cur, In.dy, In.errs, AtB.facts, Tw, toRange])))
grind_pattern postingAssertion_tw => In T s1 s2, postingAssertion (listEnv num cls) s1

theorem postingTail_tw (cl : Option TokType) {s1 s2} (h : In T s1 s2) (hcl : ClosingOk cl) :
    (postingTail (listEnv num cls) cl s2).1 = (postingTail (listEnv num cls) cl s1).1 ∧ In T (postingTail (listEnv num cls) cl s1).2 (postingTail (listEnv num cls) cl s2).2 := by
  have hc := h.cur
  have hd := h.dy
  fun_cases postingTail (listEnv num cls) cl s1 <;>
    (unfold postingTail; (try simp +zetaDelta only [] at *) <;> (first | grind [In.setYear, In.cur, In.dy, In.errs, AtB.facts, Tw, toRange] | (simp_all; done) | (simp_all <;> grind [In.setYear, In.cur, In.dy, In.errs, AtB.facts, Tw, toRange])))
grind_pattern postingTail_tw => In T s1 s2, postingTail (listEnv num cls) cl s1

theorem txDescription_tw {s1 s2} (h : In T s1 s2) :
    (txDescription (listEnv num cls) s2).1 = (txDescription (listEnv num cls) s1).1 ∧ In T (txDescription (listEnv num cls) s1).2 (txDescription (listEnv num cls) s2).2 := by
  have hc := h.cur
  have hd := h.dy
  fun_cases txDescription (listEnv num cls) s1 <;>
    (unfold txDescription; (try simp +zetaDelta only [] at *) <;> (first | grind [In.setYear, In.cur, In.dy, In.errs, AtB.facts, Tw, toRange] | (simp_all; done) | (simp_all <;> grind [In.setYear, In.cur, In.dy, In.errs, AtB.facts, Tw, toRange])))
grind_pattern txDescription_tw => In T s1 s2, txDescription (listEnv num cls) s1

theorem txDate2_tw {s1 s2} (h : In T s1 s2) :
    (txDate2 (listEnv num cls) s2).1 = (txDate2 (listEnv num cls) s1).1 ∧ In T (txDate2 (listEnv num cls) s1).2 (txDate2 (listEnv num cls) s2).2 := by
  have hc := h.cur
  have hd := h.dy
  fun_cases txDate2 (listEnv num cls) s1 <;>
    (unfold txDate2; (try simp +zetaDelta only [] at *) <;> (first | grind [In.setYear, In.cur, In.dy, In.errs, AtB.facts, Tw, toRange] | (simp_all; done) | (simp_all <;> grind [In.setYear, In.cur, In.dy, In.errs, AtB.facts, Tw, toRange])))
grind_pattern txDate2_tw => In T s1 s2, txDate2 (listEnv num cls) s1

theorem txStatus_tw {s1 s2} (h : In T s1 s2) :
    (txStatus (listEnv num cls) s2).1 = (txStatus (listEnv num cls) s1).1 ∧ In T (txStatus (listEnv num cls) s1).2 (txStatus (listEnv num cls) s2).2 := by
  have hc := h.cur
  have hd := h.dy
  fun_cases txStatus (listEnv num cls) s1 <;>
    (unfold txStatus; (try simp +zetaDelta only [] at *) <;> (first | grind [In.setYear, In.cur, In.dy, In.errs, AtB.facts, Tw, toRange] | (simp_all; done) | (simp_all <;> grind [In.setYear, In.cur, In.dy, In.errs, AtB.facts, Tw, toRange])))
grind_pattern txStatus_tw => In T s1 s2, txStatus (listEnv num cls) s1

theorem txCode_tw {s1 s2} (h : In T s1 s2) :
    (txCode (listEnv num cls) s2).1 = (txCode (listEnv num cls) s1).1 ∧ In T (txCode (listEnv num cls) s1).2 (txCode (listEnv num cls) s2).2 := by
  have hc := h.cur
  have hd := h.dy
  fun_cases txCode (listEnv num cls) s1 <;>
    (unfold txCode; (try simp +zetaDelta only [] at *) <;> (first | grind [In.setYear, In.cur, In.dy, In.errs, AtB.facts, Tw, toRange] | (simp_all; done) | (simp_all <;> grind [In.setYear, In.cur, In.dy, In.errs, AtB.facts, Tw, toRange])))
grind_pattern txCode_tw => In T s1 s2, txCode (listEnv num cls) s1

theorem txComment_tw {s1 s2} (h : In T s1 s2) :
    (txComment (listEnv num cls) s2).1 = (txComment (listEnv num cls) s1).1 ∧ In T (txComment (listEnv num cls) s1).2 (txComment (listEnv num cls) s2).2 := by
  have hc := h.cur
  have hd := h.dy
  fun_cases txComment (listEnv num cls) s1 <;>
    (unfold txComment; (try simp +zetaDelta only [] at *) <;> (first | grind [In.setYear, In.cur, In.dy, In.errs, AtB.facts, Tw, toRange] | (simp_all; done) | (simp_all <;> grind [In.setYear, In.cur, In.dy, In.errs, AtB.facts, Tw, toRange])))
grind_pattern txComment_tw => In T s1 s2, txComment (listEnv num cls) s1

theorem commodityInline_tw {s1 s2} (h : In T s1 s2) :
    (commodityInline (listEnv num cls) s2).1 = (commodityInline (listEnv num cls) s1).1 ∧ In T (commodityInline (listEnv num cls) s1).2 (commodityInline (listEnv num cls) s2).2 := by
  have hc := h.cur
  have hd := h.dy
  fun_cases commodityInline (listEnv num cls) s1 <;>
    (unfold commodityInline; (try simp +zetaDelta only [] at *) <;> (first | grind [In.setYear, In.cur, In.dy, In.errs, AtB.facts, Tw, toRange] | (simp_all; done) | (simp_all <;> grind [In.setYear, In.cur, In.dy, In.errs, AtB.facts, Tw, toRange])))
grind_pattern commodityInline_tw => In T s1 s2, commodityInline (listEnv num cls) s1

theorem accountNameRest_tw (nm : Bytes) {s1 s2} (h : In T s1 s2) :
    (accountNameRest (listEnv num cls) nm s2).1 = (accountNameRest (listEnv num cls) nm s1).1 ∧ In T (accountNameRest (listEnv num cls) nm s1).2 (accountNameRest (listEnv num cls) nm s2).2 := by
  have hc := h.cur
  have hd := h.dy
  fun_cases accountNameRest (listEnv num cls) nm s1 <;>
    (unfold accountNameRest; (try simp +zetaDelta only [] at *) <;> (first | grind [In.setYear, In.cur, In.dy, In.errs, AtB.facts, Tw, toRange] | (simp_all; done) | (simp_all <;> grind [In.setYear, In.cur, In.dy, In.errs, AtB.facts, Tw, toRange])))
grind_pattern accountNameRest_tw => In T s1 s2, accountNameRest (listEnv num cls) nm s1


/-! ### loops: in lockstep for equal fuel; canonical fuels are equalised by `…_fuel` -/

theorem skipLoopF_tw (n : Nat) {s1 s2} (h : In T s1 s2) :
    In T (skipLoopF (listEnv num cls) n s1) (skipLoopF (listEnv num cls) n s2) := by
  induction n generalizing s1 s2 with
  | zero => exact h
  | succ n ih =>
    unfold skipLoopF
    rw [h.cur]
    split
    · exact h
    · rename_i hl
      exact ih (h.adv num cls T (isLineEnd_false hl).1)

theorem skipUntilF_tw (b : Bool) (n : Nat) {s1 s2} (h : In T s1 s2) :
    In T (skipUntilF (listEnv num cls) b n s1) (skipUntilF (listEnv num cls) b n s2) := by
  induction n generalizing s1 s2 with
  | zero => exact h
  | succ n ih =>
    unfold skipUntilF
    rw [h.cur]
    split
    · exact h
    · rename_i hl
      exact ih (h.adv num cls T (isLineEnd_false (t := s1.current) (by grind)).1)

theorem subValueF_tw (n : Nat) {s1 s2} (acc : Bytes) (h : In T s1 s2) :
    (subValueF (listEnv num cls) n s2 acc).1 = (subValueF (listEnv num cls) n s1 acc).1 ∧
    In T (subValueF (listEnv num cls) n s1 acc).2 (subValueF (listEnv num cls) n s2 acc).2 := by
  induction n generalizing s1 s2 acc with
  | zero => exact ⟨rfl, h⟩
  | succ n ih =>
    unfold subValueF
    rw [h.cur]
    split
    · exact ⟨rfl, h⟩
    · rename_i hl
      exact ih _ (h.adv num cls T (isLineEnd_false (t := s1.current) (by grind)).1)

theorem includePathF_tw (n : Nat) {s1 s2} (acc : Bytes) (h : In T s1 s2) :
    (includePathF (listEnv num cls) n s2 acc).1 = (includePathF (listEnv num cls) n s1 acc).1 ∧
    In T (includePathF (listEnv num cls) n s1 acc).2 (includePathF (listEnv num cls) n s2 acc).2 := by
  induction n generalizing s1 s2 acc with
  | zero => exact ⟨rfl, h⟩
  | succ n ih =>
    unfold includePathF
    rw [h.cur]
    split
    · exact ⟨rfl, h⟩
    · rename_i hl
      exact ih _ (h.adv num cls T (isLineEnd_false (t := s1.current) (by grind)).1)

/-- Both canonical fuels can be replaced by their sum. -/
theorem fuel_sum (s1 s2 : PState (List Token)) :
    measure (listEnv num cls) s1 ≤ fuelOf (listEnv num cls) s1 + fuelOf (listEnv num cls) s2 ∧
    measure (listEnv num cls) s2 ≤ fuelOf (listEnv num cls) s1 + fuelOf (listEnv num cls) s2 := by
  have a := measure_le_fuelOf (listEnv num cls) s1
  have b := measure_le_fuelOf (listEnv num cls) s2
  omega

theorem skipLoop_tw {s1 s2} (h : In T s1 s2) :
    In T (skipLoopF (listEnv num cls) (fuelOf (listEnv num cls) s1) s1)
         (skipLoopF (listEnv num cls) (fuelOf (listEnv num cls) s2) s2) := by
  have f := fuel_sum num cls s1 s2
  rw [skipLoopF_fuel _ (listEnv_decr num cls) _ _ s1 (measure_le_fuelOf _ s1) f.1,
      skipLoopF_fuel _ (listEnv_decr num cls) _ _ s2 (measure_le_fuelOf _ s2) f.2]
  exact skipLoopF_tw num cls T _ h

theorem skipUntil_tw (b : Bool) {s1 s2} (h : In T s1 s2) :
    In T (skipUntilF (listEnv num cls) b (fuelOf (listEnv num cls) s1) s1)
         (skipUntilF (listEnv num cls) b (fuelOf (listEnv num cls) s2) s2) := by
  have f := fuel_sum num cls s1 s2
  rw [skipUntilF_fuel _ (listEnv_decr num cls) b _ _ s1 (measure_le_fuelOf _ s1) f.1,
      skipUntilF_fuel _ (listEnv_decr num cls) b _ _ s2 (measure_le_fuelOf _ s2) f.2]
  exact skipUntilF_tw num cls T b _ h

theorem subValue_tw {s1 s2} (acc : Bytes) (h : In T s1 s2) :
    (subValueF (listEnv num cls) (fuelOf (listEnv num cls) s2) s2 acc).1 =
      (subValueF (listEnv num cls) (fuelOf (listEnv num cls) s1) s1 acc).1 ∧
    In T (subValueF (listEnv num cls) (fuelOf (listEnv num cls) s1) s1 acc).2
         (subValueF (listEnv num cls) (fuelOf (listEnv num cls) s2) s2 acc).2 := by
  have f := fuel_sum num cls s1 s2
  rw [subValueF_fuel _ (listEnv_decr num cls) _ _ s1 acc (measure_le_fuelOf _ s1) f.1,
      subValueF_fuel _ (listEnv_decr num cls) _ _ s2 acc (measure_le_fuelOf _ s2) f.2]
  exact subValueF_tw num cls T _ acc h

theorem includePath_tw {s1 s2} (acc : Bytes) (h : In T s1 s2) :
    (includePathF (listEnv num cls) (fuelOf (listEnv num cls) s2) s2 acc).1 =
      (includePathF (listEnv num cls) (fuelOf (listEnv num cls) s1) s1 acc).1 ∧
    In T (includePathF (listEnv num cls) (fuelOf (listEnv num cls) s1) s1 acc).2
         (includePathF (listEnv num cls) (fuelOf (listEnv num cls) s2) s2 acc).2 := by
  have f := fuel_sum num cls s1 s2
  rw [includePathF_fuel _ (listEnv_decr num cls) _ _ s1 acc (measure_le_fuelOf _ s1) f.1,
      includePathF_fuel _ (listEnv_decr num cls) _ _ s2 acc (measure_le_fuelOf _ s2) f.2]
  exact includePathF_tw num cls T _ acc h

/-- Stepping over an optional Newline keeps the runs together (possibly reaching the boundary). -/
theorem optNL_tw {s1 s2} (h : In T s1 s2) :
    Tw T (if s1.current.ty = .newline then advance (listEnv num cls) s1 else s1)
         (if s2.current.ty = .newline then advance (listEnv num cls) s2 else s2) := by
  rw [h.cur]
  split
  · exact h.advNL num cls T
  · exact Or.inl h

theorem optNL_tw' {s1 s2} (h : Tw T s1 s2) :
    Tw T (if s1.current.ty = .newline then advance (listEnv num cls) s1 else s1)
         (if s2.current.ty = .newline then advance (listEnv num cls) s2 else s2) := by
  rcases h with h | h
  · exact optNL_tw num cls T h
  · have f := h.facts T
    simp only [f.2.1, f.2.2.2.1, if_false]
    exact Or.inr h

theorem skipToNextLine_tw {s1 s2} (h : In T s1 s2) :
    Tw T (skipToNextLine (listEnv num cls) s1) (skipToNextLine (listEnv num cls) s2) := by
  unfold skipToNextLine
  exact optNL_tw num cls T (skipLoop_tw num cls T h)

grind_pattern skipToNextLine_tw => In T s1 s2, skipToNextLine (listEnv num cls) s1

theorem parsePosting_tw {s1 s2} (h : In T s1 s2) (hi : s1.current.ty = .indent) :
    (parsePosting (listEnv num cls) s2).1 = (parsePosting (listEnv num cls) s1).1 ∧
    Tw T (parsePosting (listEnv num cls) s1).2 (parsePosting (listEnv num cls) s2).2 := by
  have hc := h.cur
  have hcl := postingOpen_closing (listEnv num cls) (advance (listEnv num cls) s1)
  fun_cases parsePosting (listEnv num cls) s1 <;>
    (unfold parsePosting; (try simp +zetaDelta only [] at *) <;> (first | grind [In.setYear, In.cur, In.dy, In.errs, AtB.facts, Tw, toRange] | (simp_all; done) | (simp_all <;> grind [In.setYear, In.cur, In.dy, In.errs, AtB.facts, Tw, toRange])))

grind_pattern parsePosting_tw => In T s1 s2, parsePosting (listEnv num cls) s1

theorem postingsF_tw (n : Nat) {s1 s2} (h : Tw T s1 s2) :
    (postingsF (listEnv num cls) n s2).1 = (postingsF (listEnv num cls) n s1).1 ∧
    Tw T (postingsF (listEnv num cls) n s1).2 (postingsF (listEnv num cls) n s2).2 := by
  induction n generalizing s1 s2 with
  | zero => exact ⟨rfl, h⟩
  | succ n ih =>
    rcases h with h | h
    · unfold postingsF
      rw [h.cur]
      split
      · exact ⟨rfl, Or.inl h⟩
      · rename_i hi
        have hi' : s1.current.ty = .indent := by simpa using hi
        obtain ⟨e1, t1⟩ := parsePosting_tw num cls T h hi'
        have t2 := optNL_tw' num cls T t1
        obtain ⟨e2, t3⟩ := ih t2
        simp only
        exact ⟨by rw [e1, e2], t3⟩
    · have f := h.facts T
      unfold postingsF
      rw [if_pos f.1, if_pos f.2.2.1]
      exact ⟨rfl, Or.inr h⟩

theorem postings_tw {s1 s2} (h : Tw T s1 s2) :
    (postingsF (listEnv num cls) (fuelOf (listEnv num cls) s2) s2).1 =
      (postingsF (listEnv num cls) (fuelOf (listEnv num cls) s1) s1).1 ∧
    Tw T (postingsF (listEnv num cls) (fuelOf (listEnv num cls) s1) s1).2
         (postingsF (listEnv num cls) (fuelOf (listEnv num cls) s2) s2).2 := by
  have f := fuel_sum num cls s1 s2
  rw [postingsF_fuel _ (listEnv_decr num cls) _ _ s1 (measure_le_fuelOf _ s1) f.1,
      postingsF_fuel _ (listEnv_decr num cls) _ _ s2 (measure_le_fuelOf _ s2) f.2]
  exact postingsF_tw num cls T _ h

theorem txHeader_tw {s1 s2} (h : In T s1 s2) :
    (txHeader (listEnv num cls) s2).1 = (txHeader (listEnv num cls) s1).1 ∧
    Tw T (txHeader (listEnv num cls) s1).2 (txHeader (listEnv num cls) s2).2 := by
  unfold txHeader
  obtain ⟨a1, a2⟩ := txDate2_tw num cls T h
  obtain ⟨b1, b2⟩ := txStatus_tw num cls T a2
  obtain ⟨c1, c2⟩ := txCode_tw num cls T b2
  obtain ⟨d1, d2⟩ := txDescription_tw num cls T c2
  obtain ⟨e1, e2⟩ := txComment_tw num cls T d2
  simp only
  exact ⟨by rw [a1, b1, c1, d1, e1], optNL_tw num cls T e2⟩

theorem parseTransaction_tw {s1 s2} (h : In T s1 s2) :
    (parseTransaction (listEnv num cls) s2).1 = (parseTransaction (listEnv num cls) s1).1 ∧
    Tw T (parseTransaction (listEnv num cls) s1).2 (parseTransaction (listEnv num cls) s2).2 := by
  unfold parseTransaction
  obtain ⟨a1, a2⟩ := parseDate_tw num cls T h
  rw [h.cur]
  cases h1 : parseDate (listEnv num cls) s1 with
  | mk r1 st1 =>
    cases h2 : parseDate (listEnv num cls) s2 with
    | mk r2 st2 =>
      rw [h1, h2] at a1 a2
      simp only at a1 a2
      subst a1
      cases r2 with
      | none => exact ⟨rfl, skipToNextLine_tw num cls T a2⟩
      | some dt =>
        simp only
        obtain ⟨b1, b2⟩ := txHeader_tw num cls T a2
        obtain ⟨c1, c2⟩ := postings_tw num cls T b2
        have hp : (postingsF (listEnv num cls) (fuelOf (listEnv num cls) (txHeader (listEnv num cls) st2).2)
            (txHeader (listEnv num cls) st2).2).2.current.pos =
            (postingsF (listEnv num cls) (fuelOf (listEnv num cls) (txHeader (listEnv num cls) st1).2)
            (txHeader (listEnv num cls) st1).2).2.current.pos := by
          rcases c2 with c | c
          · rw [c.cur]
          · exact (c.facts T).2.2.2.2.1
        exact ⟨by simp only [b1, c1, hp], c2⟩

theorem parseSubdirectivesF_tw (n : Nat) {s1 s2} (m : Subdirs) (h : Tw T s1 s2) :
    (parseSubdirectivesF (listEnv num cls) n s2 m).1 = (parseSubdirectivesF (listEnv num cls) n s1 m).1 ∧
    Tw T (parseSubdirectivesF (listEnv num cls) n s1 m).2 (parseSubdirectivesF (listEnv num cls) n s2 m).2 := by
  induction n generalizing s1 s2 m with
  | zero => exact ⟨rfl, h⟩
  | succ n ih =>
    rcases h with h | h
    · unfold parseSubdirectivesF
      rw [h.cur]
      split
      · exact ⟨rfl, Or.inl h⟩
      · rename_i hnl
        have hnl' : s1.current.ty = .newline := by simpa using hnl
        simp only
        rcases h.advNL num cls T with hA | hA
        · -- still inside the common prefix
          rw [hA.cur]
          split
          · exact ⟨rfl, Or.inl hA⟩
          · rename_i hi
            have hi' : (advance (listEnv num cls) s1).current.ty = .indent := by simpa using hi
            have hB := hA.adv num cls T (by simp [hi'])
            rw [hB.cur]
            split
            · rename_i hc
              exact ih _ (Or.inl (hB.adv num cls T (by simp [hc])))
            · split
              · exact ih _ (Or.inl hB)
              · split
                · rename_i ht
                  exact ih _ (Or.inl (hB.adv num cls T (by simp [ht])))
                · split
                  · rename_i hdv
                    have hC := hB.adv num cls T (by simp [hdv])
                    obtain ⟨e1, t1⟩ := subValue_tw num cls T [] hC
                    rw [e1]
                    exact ih _ (Or.inl t1)
                  · exact ih _ (skipToNextLine_tw num cls T hB)
        · -- the Newline was the last token of the common prefix
          have f := hA.facts T
          rw [if_pos f.1, if_pos f.2.2.1]
          exact ⟨rfl, Or.inr hA⟩
    · have f := h.facts T
      unfold parseSubdirectivesF
      rw [if_pos f.2.1, if_pos f.2.2.2.1]
      exact ⟨rfl, Or.inr h⟩

theorem parseSubdirectives_tw {s1 s2} (h : Tw T s1 s2) :
    (parseSubdirectives (listEnv num cls) s2).1 = (parseSubdirectives (listEnv num cls) s1).1 ∧
    Tw T (parseSubdirectives (listEnv num cls) s1).2 (parseSubdirectives (listEnv num cls) s2).2 := by
  unfold parseSubdirectives
  have f := fuel_sum num cls s1 s2
  rw [parseSubdirectivesF_fuel _ (listEnv_decr num cls) _ _ s1 [] (measure_le_fuelOf _ s1) f.1,
      parseSubdirectivesF_fuel _ (listEnv_decr num cls) _ _ s2 [] (measure_le_fuelOf _ s2) f.2]
  exact parseSubdirectivesF_tw num cls T _ [] h

/-- The position both runs look at. -/
theorem Tw.pos {s1 s2} (h : Tw T s1 s2) : s2.current.pos = s1.current.pos := by
  rcases h with h | h
  · rw [h.cur]
  · exact (h.facts T).2.2.2.2.1

theorem parseSubdirectives_tw' {s1 s2} (h : In T s1 s2) :
    (parseSubdirectives (listEnv num cls) s2).1 = (parseSubdirectives (listEnv num cls) s1).1 ∧
    Tw T (parseSubdirectives (listEnv num cls) s1).2 (parseSubdirectives (listEnv num cls) s2).2 :=
  parseSubdirectives_tw num cls T (Or.inl h)

grind_pattern parseSubdirectives_tw' => In T s1 s2, parseSubdirectives (listEnv num cls) s1
grind_pattern skipUntil_tw => In T s1 s2, skipUntilF (listEnv num cls) b (fuelOf (listEnv num cls) s1) s1
grind_pattern includePath_tw => In T s1 s2, includePathF (listEnv num cls) (fuelOf (listEnv num cls) s1) s1 acc

theorem parseAccountDirective_tw (sp : Pos) {s1 s2} (h : In T s1 s2) :
    (parseAccountDirective (listEnv num cls) sp s2).1 = (parseAccountDirective (listEnv num cls) sp s1).1 ∧
    Tw T (parseAccountDirective (listEnv num cls) sp s1).2 (parseAccountDirective (listEnv num cls) sp s2).2 := by
  have hc := h.cur
  have hd := h.dy
  fun_cases parseAccountDirective (listEnv num cls) sp s1 <;>
    (unfold parseAccountDirective; (try simp +zetaDelta only [] at *) <;> (first | grind [In.setYear, In.cur, In.dy, In.errs, AtB.facts, Tw, toRange, Tw.pos, DirResult.ofDir] | (simp_all; done) | (simp_all <;> grind [In.setYear, In.cur, In.dy, In.errs, AtB.facts, Tw, toRange, Tw.pos, DirResult.ofDir])))
grind_pattern parseAccountDirective_tw => In T s1 s2, parseAccountDirective (listEnv num cls) sp s1

theorem parseCommodityDirective_tw (sp : Pos) {s1 s2} (h : In T s1 s2) :
    (parseCommodityDirective (listEnv num cls) sp s2).1 = (parseCommodityDirective (listEnv num cls) sp s1).1 ∧
    Tw T (parseCommodityDirective (listEnv num cls) sp s1).2 (parseCommodityDirective (listEnv num cls) sp s2).2 := by
  have hc := h.cur
  have hd := h.dy
  fun_cases parseCommodityDirective (listEnv num cls) sp s1 <;>
    (unfold parseCommodityDirective; (try simp +zetaDelta only [] at *) <;> (first | grind [In.setYear, In.cur, In.dy, In.errs, AtB.facts, Tw, toRange, Tw.pos, DirResult.ofDir] | (simp_all; done) | (simp_all <;> grind [In.setYear, In.cur, In.dy, In.errs, AtB.facts, Tw, toRange, Tw.pos, DirResult.ofDir])))
grind_pattern parseCommodityDirective_tw => In T s1 s2, parseCommodityDirective (listEnv num cls) sp s1

theorem parseIncludeDirective_tw (sp : Pos) {s1 s2} (h : In T s1 s2) :
    (parseIncludeDirective (listEnv num cls) sp s2).1 = (parseIncludeDirective (listEnv num cls) sp s1).1 ∧
    Tw T (parseIncludeDirective (listEnv num cls) sp s1).2 (parseIncludeDirective (listEnv num cls) sp s2).2 := by
  have hc := h.cur
  have hd := h.dy
  fun_cases parseIncludeDirective (listEnv num cls) sp s1 <;>
    (unfold parseIncludeDirective; (try simp +zetaDelta only [] at *) <;> (first | grind [In.setYear, In.cur, In.dy, In.errs, AtB.facts, Tw, toRange, Tw.pos, DirResult.ofDir] | (simp_all; done) | (simp_all <;> grind [In.setYear, In.cur, In.dy, In.errs, AtB.facts, Tw, toRange, Tw.pos, DirResult.ofDir])))
grind_pattern parseIncludeDirective_tw => In T s1 s2, parseIncludeDirective (listEnv num cls) sp s1

theorem parsePriceDirective_tw (sp : Pos) {s1 s2} (h : In T s1 s2) :
    (parsePriceDirective (listEnv num cls) sp s2).1 = (parsePriceDirective (listEnv num cls) sp s1).1 ∧
    Tw T (parsePriceDirective (listEnv num cls) sp s1).2 (parsePriceDirective (listEnv num cls) sp s2).2 := by
  have hc := h.cur
  have hd := h.dy
  fun_cases parsePriceDirective (listEnv num cls) sp s1 <;>
    (unfold parsePriceDirective; (try simp +zetaDelta only [] at *) <;> (first | grind [In.setYear, In.cur, In.dy, In.errs, AtB.facts, Tw, toRange, Tw.pos, DirResult.ofDir] | (simp_all; done) | (simp_all <;> grind [In.setYear, In.cur, In.dy, In.errs, AtB.facts, Tw, toRange, Tw.pos, DirResult.ofDir])))
grind_pattern parsePriceDirective_tw => In T s1 s2, parsePriceDirective (listEnv num cls) sp s1

theorem parseDefaultCommodityDirective_tw (sp : Pos) {s1 s2} (h : In T s1 s2) :
    (parseDefaultCommodityDirective (listEnv num cls) sp s2).1 = (parseDefaultCommodityDirective (listEnv num cls) sp s1).1 ∧
    Tw T (parseDefaultCommodityDirective (listEnv num cls) sp s1).2 (parseDefaultCommodityDirective (listEnv num cls) sp s2).2 := by
  have hc := h.cur
  have hd := h.dy
  fun_cases parseDefaultCommodityDirective (listEnv num cls) sp s1 <;>
    (unfold parseDefaultCommodityDirective; (try simp +zetaDelta only [] at *) <;> (first | grind [In.setYear, In.cur, In.dy, In.errs, AtB.facts, Tw, toRange, Tw.pos, DirResult.ofDir] | (simp_all; done) | (simp_all <;> grind [In.setYear, In.cur, In.dy, In.errs, AtB.facts, Tw, toRange, Tw.pos, DirResult.ofDir])))
grind_pattern parseDefaultCommodityDirective_tw => In T s1 s2, parseDefaultCommodityDirective (listEnv num cls) sp s1

theorem parseYearDirective_tw (sp : Pos) {s1 s2} (h : In T s1 s2) :
    (parseYearDirective (listEnv num cls) sp s2).1 = (parseYearDirective (listEnv num cls) sp s1).1 ∧
    Tw T (parseYearDirective (listEnv num cls) sp s1).2 (parseYearDirective (listEnv num cls) sp s2).2 := by
  have hc := h.cur
  obtain ⟨src2, cur2, err2, dy2⟩ := s2
  simp only at hc
  subst hc
  unfold parseYearDirective
  simp only
  split
  · exact ⟨rfl, skipToNextLine_tw num cls T (h.error T _)⟩
  · rename_i hn
    have hn' : s1.current.ty = .number := by simpa using hn
    split
    · exact ⟨rfl, skipToNextLine_tw num cls T (h.error T _)⟩
    · split
      · exact ⟨rfl, skipToNextLine_tw num cls T (h.error T _)⟩
      · rename_i year _ _
        have h1 := h.setYear T year
        have h2 := h1.adv num cls T (by simp [hn'])
        exact ⟨by rw [h2.cur], skipToNextLine_tw num cls T h2⟩
grind_pattern parseYearDirective_tw => In T s1 s2, parseYearDirective (listEnv num cls) sp s1

theorem parseDirective_tw {s1 s2} (h : In T s1 s2) (hn : s1.current.ty ≠ .newline) :
    (parseDirective (listEnv num cls) s2).1 = (parseDirective (listEnv num cls) s1).1 ∧
    Tw T (parseDirective (listEnv num cls) s1).2 (parseDirective (listEnv num cls) s2).2 := by
  have hA := h.adv num cls T hn
  unfold parseDirective
  rw [h.cur]
  simp only
  split
  · obtain ⟨a, b⟩ := parseAccountDirective_tw num cls T s1.current.pos hA
    exact ⟨by rw [a], b⟩
  · split
    · obtain ⟨a, b⟩ := parseCommodityDirective_tw num cls T s1.current.pos hA
      exact ⟨by rw [a], b⟩
    · split
      · obtain ⟨a, b⟩ := parseIncludeDirective_tw num cls T s1.current.pos hA
        cases h1 : parseIncludeDirective (listEnv num cls) s1.current.pos (advance (listEnv num cls) s1) with
        | mk r1 t1 =>
          cases h2 : parseIncludeDirective (listEnv num cls) s1.current.pos (advance (listEnv num cls) s2) with
          | mk r2 t2 =>
            rw [h1, h2] at a b
            simp only at a b
            subst a
            cases r2 <;> exact ⟨rfl, b⟩
      · split
        · obtain ⟨a, b⟩ := parsePriceDirective_tw num cls T s1.current.pos hA
          exact ⟨by rw [a], b⟩
        · split
          · obtain ⟨a, b⟩ := parseYearDirective_tw num cls T s1.current.pos hA
            exact ⟨by rw [a], b⟩
          · split
            · obtain ⟨a, b⟩ := parseDefaultCommodityDirective_tw num cls T s1.current.pos hA
              exact ⟨by rw [a], b⟩
            · exact ⟨rfl, skipToNextLine_tw num cls T hA⟩

/-- **One iteration of the journal loop does the same on both lists** while both are inside the
    common prefix and the current token is not the Newline in front of the tails. -/
theorem journalStep_tw {s1 s2} (h : In T s1 s2) :
    (journalStep (listEnv num cls) s2).1 = (journalStep (listEnv num cls) s1).1 ∧
    Tw T (journalStep (listEnv num cls) s1).2 (journalStep (listEnv num cls) s2).2 := by
  unfold journalStep
  rw [h.cur]
  split
  · exact ⟨rfl, h.advNL num cls T⟩
  · rename_i hnl
    split
    · obtain ⟨a, b⟩ := parseComment_tw num cls T h hnl
      simp only
      exact ⟨by rw [a], Or.inl b⟩
    · split
      · obtain ⟨a, b⟩ := parseTransaction_tw num cls T h
        cases h1 : parseTransaction (listEnv num cls) s1 with
        | mk r1 t1 =>
          cases h2 : parseTransaction (listEnv num cls) s2 with
          | mk r2 t2 =>
            rw [h1, h2] at a b
            simp only at a b
            subst a
            cases r2 <;> exact ⟨rfl, b⟩
      · split
        · obtain ⟨a, b⟩ := parseDirective_tw num cls T h hnl
          cases h1 : parseDirective (listEnv num cls) s1 with
          | mk r1 t1 =>
            cases h2 : parseDirective (listEnv num cls) s2 with
            | mk r2 t2 =>
              rw [h1, h2] at a b
              simp only at a b
              subst a
              cases r2 <;> exact ⟨rfl, b⟩
        · exact ⟨rfl, skipToNextLine_tw num cls T (by rw [← h.cur]; exact h.error T _)⟩

/-! ### the two runs reach the end of the common prefix after the same iterations -/

/-- **Twin resynchronisation.**  Both runs are inside the common prefix `current :: P` (no EOF in
    it), which is followed by `y0 :: Y'` in the first list and by `z0 :: Z'` in the second.  Then
    both journal loops come back to their head in front of `y0` resp. `z0` after the SAME
    iterations: the same items, the same new errors, the same default year. -/
theorem twin_sync (hE : ∃ t ∈ T.y0 :: T.Y', t.ty = .eof) :
    ∀ (k : Nat) (s1 s2 : PState (List Token)) (P : List Token), P.length ≤ k → In T s1 s2 →
      s1.src = P ++ T.y0 :: T.Y' → (∀ t ∈ s1.current :: P, t.ty ≠ .eof) →
      ∃ items new dy,
        ∀ n1 n2 m1 m2, measure (listEnv num cls) s1 ≤ n1 → measure (listEnv num cls) s2 ≤ n2 →
          measure (listEnv num cls) ⟨T.Y', T.y0, s1.errors ++ new, dy⟩ ≤ m1 →
          measure (listEnv num cls) ⟨T.Z', T.z0, s1.errors ++ new, dy⟩ ≤ m2 →
          parseJournalF (listEnv num cls) n1 s1 =
            (pushAll items (parseJournalF (listEnv num cls) m1 ⟨T.Y', T.y0, s1.errors ++ new, dy⟩).1,
             (parseJournalF (listEnv num cls) m1 ⟨T.Y', T.y0, s1.errors ++ new, dy⟩).2) ∧
          parseJournalF (listEnv num cls) n2 s2 =
            (pushAll items (parseJournalF (listEnv num cls) m2 ⟨T.Z', T.z0, s1.errors ++ new, dy⟩).1,
             (parseJournalF (listEnv num cls) m2 ⟨T.Z', T.z0, s1.errors ++ new, dy⟩).2) := by
  obtain ⟨Y1, e, Q, hY, he, hY1⟩ := exists_first_eof _ hE
  intro k
  induction k with
  | zero =>
    intro s1 s2 P hk hin hsrc hne
    have hP : P = [] := List.eq_nil_of_length_eq_zero (by omega)
    subst hP
    -- the current token is the Newline in front of the tails: one iteration
    have hcur1 : s1.current.ty ≠ .eof := hne _ (by simp)
    have hnl : s1.current.ty = .newline := by
      obtain ⟨_, _, _, P', h1, _, hl⟩ := hin
      have : P' = [] := by
        have := h1.symm.trans hsrc
        simpa using this
      subst this
      simpa [lastNL] using hl
    obtain ⟨a, b⟩ := journalStep_tw num cls T hin
    rw [journalStep_newline _ s1 hnl] at a b
    rw [journalStep_newline _ s2 (by rw [hin.cur]; exact hnl)] at a b
    refine ⟨[.nothing], [], s1.defaultYear, ?_⟩
    intro n1 n2 m1 m2 h1 h2 h3 h4
    have hadv1 : advance (listEnv num cls) s1 = ⟨T.Y', T.y0, s1.errors, s1.defaultYear⟩ := by
      simp [advance, listEnv, listSrc, hsrc]
    have hsrc2 : s2.src = T.z0 :: T.Z' := by
      obtain ⟨_, _, _, P', h1', h2', _⟩ := hin
      have : P' = [] := by
        have := h1'.symm.trans hsrc
        simpa using this
      subst this
      simpa using h2'
    have hadv2 : advance (listEnv num cls) s2 = ⟨T.Z', T.z0, s1.errors, s1.defaultYear⟩ := by
      simp [advance, listEnv, listSrc, hsrc2, hin.errs, hin.dy]
    have hcur2 : s2.current.ty ≠ .eof := by rw [hin.cur]; exact hcur1
    have hm1 : 1 ≤ measure (listEnv num cls) s1 := by rw [measure_list, if_neg hcur1]; omega
    have hm2 : 1 ≤ measure (listEnv num cls) s2 := by rw [measure_list, if_neg hcur2]; omega
    obtain ⟨n1', rfl⟩ : ∃ x, n1 = x + 1 := ⟨n1 - 1, by omega⟩
    obtain ⟨n2', rfl⟩ : ∃ x, n2 = x + 1 := ⟨n2 - 1, by omega⟩
    have l1 := advance_lt (listEnv num cls) (listEnv_decr num cls) s1 hcur1
    have l2 := advance_lt (listEnv num cls) (listEnv_decr num cls) s2 hcur2
    rw [hadv1] at l1
    rw [hadv2] at l2
    simp only [List.append_nil] at h3 h4 ⊢
    constructor
    · rw [parseJournalF]
      simp only [hcur1, if_false]
      rw [journalStep_newline _ s1 hnl, hadv1]
      rw [parseJournalF_fuel _ (listEnv_decr num cls) n1' m1 _ (by omega) h3]
      rfl
    · rw [parseJournalF]
      simp only [hcur2, if_false]
      rw [journalStep_newline _ s2 (by rw [hin.cur]; exact hnl), hadv2]
      rw [parseJournalF_fuel _ (listEnv_decr num cls) n2' m2 _ (by omega) h4]
      rfl
  | succ k ih =>
    intro s1 s2 P hk hin hsrc hne
    have hcur1 : s1.current.ty ≠ .eof := hne _ (by simp)
    have hcur2 : s2.current.ty ≠ .eof := by rw [hin.cur]; exact hcur1
    -- the stream of the first run up to its first EOF
    have hs' : strm s1 = ((s1.current :: P) ++ Y1) ++ e :: Q := by
      simp only [strm, hsrc, hY]; simp
    have hPne : ∀ t ∈ (s1.current :: P) ++ Y1, t.ty ≠ .eof := by
      intro t ht
      rw [List.mem_append] at ht
      rcases ht with h | h
      · exact hne t h
      · exact hY1 t h
    obtain ⟨C, P'', new1, hCne, hP'', hstrm1, _, herr1, _⟩ :=
      step_stream num cls s1 _ e Q hs' he hPne hcur1
    obtain ⟨hitem, htw⟩ := journalStep_tw num cls T hin
    have hlt1 := journalStep_lt (listEnv num cls) (listEnv_decr num cls) s1 hcur1
    have hlt2 := journalStep_lt (listEnv num cls) (listEnv_decr num cls) s2 hcur2
    have hm1 : 1 ≤ measure (listEnv num cls) s1 := by rw [measure_list, if_neg hcur1]; omega
    have hm2 : 1 ≤ measure (listEnv num cls) s2 := by rw [measure_list, if_neg hcur2]; omega
    -- one iteration on each side
    have hstep1 : ∀ n, parseJournalF (listEnv num cls) (n + 1) s1 =
        (jpush (parseJournalF (listEnv num cls) n (journalStep (listEnv num cls) s1).2).1
            (journalStep (listEnv num cls) s1).1,
         (parseJournalF (listEnv num cls) n (journalStep (listEnv num cls) s1).2).2) := by
      intro n; rw [parseJournalF]; simp only [hcur1, if_false]
    have hstep2 : ∀ n, parseJournalF (listEnv num cls) (n + 1) s2 =
        (jpush (parseJournalF (listEnv num cls) n (journalStep (listEnv num cls) s2).2).1
            (journalStep (listEnv num cls) s1).1,
         (parseJournalF (listEnv num cls) n (journalStep (listEnv num cls) s2).2).2) := by
      intro n; rw [parseJournalF]; simp only [hcur2, if_false, hitem]
    generalize hs1' : (journalStep (listEnv num cls) s1).2 = t1 at *
    generalize hs2' : (journalStep (listEnv num cls) s2).2 = t2 at *
    generalize (journalStep (listEnv num cls) s1).1 = item at *
    rcases htw with hin' | hat
    · -- still inside: the remaining prefix is shorter
      obtain ⟨_, _, _, P', hP1, hP2, hl'⟩ := id hin'
      have hcons : s1.current :: P = C ++ t1.current :: P' := by
        have e1 : strm t1 = (t1.current :: P') ++ Y1 ++ e :: Q := by
          simp only [strm, hP1, hY]; simp
        have e2 : P'' = (t1.current :: P') ++ Y1 := by
          have := hstrm1.symm.trans e1
          exact List.append_cancel_right this
        rw [e2] at hP''
        have : (s1.current :: P) ++ Y1 = (C ++ t1.current :: P') ++ Y1 := by
          rw [hP'']; simp
        exact List.append_cancel_right this
      have hlen : P'.length ≤ k := by
        have := congrArg List.length hcons
        have hc0 : 0 < C.length := List.length_pos_iff.2 hCne
        simp at this
        omega
      have hne' : ∀ t ∈ t1.current :: P', t.ty ≠ .eof := by
        intro t ht
        apply hne
        rw [hcons]
        exact List.mem_append_right _ ht
      obtain ⟨items, new2, dy, hrun⟩ := ih t1 t2 P' hlen hin' hP1 hne'
      refine ⟨item :: items, new1 ++ new2, dy, ?_⟩
      intro n1 n2 m1 m2 h1 h2 h3 h4
      obtain ⟨n1', rfl⟩ : ∃ x, n1 = x + 1 := ⟨n1 - 1, by omega⟩
      obtain ⟨n2', rfl⟩ : ∃ x, n2 = x + 1 := ⟨n2 - 1, by omega⟩
      rw [hstep1, hstep2]
      have h3' : measure (listEnv num cls) ⟨T.Y', T.y0, t1.errors ++ new2, dy⟩ ≤ m1 := by
        simpa [measure_list] using h3
      have h4' : measure (listEnv num cls) ⟨T.Z', T.z0, t1.errors ++ new2, dy⟩ ≤ m2 := by
        simpa [measure_list] using h4
      obtain ⟨r1, r2⟩ := hrun n1' n2' m1 m2 (by omega) (by omega) h3' h4'
      rw [r1, r2, herr1, List.append_assoc]
      exact ⟨rfl, rfl⟩
    · -- both are in front of their tails
      obtain ⟨he2, hd2, c1, sr1, c2, sr2⟩ := id hat
      have ht1 : t1 = ⟨T.Y', T.y0, s1.errors ++ new1, t1.defaultYear⟩ := by
        cases t1; simp at c1 sr1 herr1 ⊢; exact ⟨sr1, c1, herr1⟩
      have ht2 : t2 = ⟨T.Z', T.z0, s1.errors ++ new1, t1.defaultYear⟩ := by
        cases t2; simp at c2 sr2 he2 hd2 ⊢; exact ⟨sr2, c2, by rw [he2, herr1], hd2⟩
      refine ⟨[item], new1, t1.defaultYear, ?_⟩
      intro n1 n2 m1 m2 h1 h2 h3 h4
      obtain ⟨n1', rfl⟩ : ∃ x, n1 = x + 1 := ⟨n1 - 1, by omega⟩
      obtain ⟨n2', rfl⟩ : ∃ x, n2 = x + 1 := ⟨n2 - 1, by omega⟩
      rw [hstep1, hstep2]
      generalize t1.defaultYear = dy1 at *
      subst ht1
      subst ht2
      rw [parseJournalF_fuel _ (listEnv_decr num cls) n1' m1 _ (by omega) h3,
          parseJournalF_fuel _ (listEnv_decr num cls) n2' m2 _ (by omega) h4]
      exact ⟨rfl, rfl⟩

end HL.Parser
