/-
  Helper lemmas for C17, tokenizer part: what `tokenizeForSemantics` emits for one lexer token
  (a "block" of tokens inside the cells the lexer token claims), tag spans inside a comment,
  and how blocks of consecutive lexer tokens line up.
-/
import HL.Lemmas.SemTok
import HL.Lemmas.SemTokUtf

namespace HL.Lemmas.SemTok
open HL HL.SemTok HL.SemTokSpec

/-- The derived `BEq TokType` agrees with equality. -/
instance instLawfulBEqTokType : LawfulBEq TokType where
  eq_of_beq := by intro a b h; cases a <;> cases b <;> first | rfl | (exact absurd h (by decide))
  rfl := by intro a; cases a <;> rfl

/-! ### `strings.Index` -/

theorem indexOf_le (pat : Bytes) (s : Bytes) (i : Nat) (h : indexOf pat s = some i) :
    i + pat.length ≤ s.length := by
  induction s generalizing i with
  | nil =>
    simp only [indexOf] at h
    split at h
    · cases h; simp_all [List.isEmpty_iff]
    · cases h
  | cons b bs ih =>
    simp only [indexOf] at h
    split at h
    · rename_i hp
      cases h
      have := (List.isPrefixOf_iff_prefix.mp hp).length_le
      simpa using this
    · cases hi : indexOf pat bs with
      | none => simp [hi] at h
      | some j =>
        simp [hi] at h
        subst h
        have := ih j hi
        simp only [List.length_cons]; omega

/-! ### tag spans -/

/-- Spans in increasing order without overlap, all inside `[lo, hi]`. -/
def SpansFrom : Nat → List TagSpan → Nat → Prop
  | lo, [], hi => lo ≤ hi
  | lo, sp :: rest, hi => lo ≤ sp.off ∧ SpansFrom (sp.off + sp.len) rest hi

theorem spansFrom_le {lo hi : Nat} {l : List TagSpan} (h : SpansFrom lo l hi) : lo ≤ hi := by
  induction l generalizing lo with
  | nil => exact h
  | cons sp rest ih => have := ih h.2; have := h.1; omega

theorem spansFrom_append {lo mid hi : Nat} {l l' : List TagSpan}
    (h : SpansFrom lo l mid) (h' : SpansFrom mid l' hi) : SpansFrom lo (l ++ l') hi := by
  induction l generalizing lo with
  | nil =>
    cases l' with
    | nil => exact Nat.le_trans h h'
    | cons sp rest => exact ⟨Nat.le_trans h h'.1, h'.2⟩
  | cons sp rest ih => exact ⟨h.1, ih h.2⟩

theorem spansFrom_mono_lo {lo lo' hi : Nat} {l : List TagSpan} (hl : lo' ≤ lo)
    (h : SpansFrom lo l hi) : SpansFrom lo' l hi := by
  cases l with
  | nil => exact Nat.le_trans hl h
  | cons sp rest => exact ⟨Nat.le_trans hl h.1, h.2⟩

def isTagTy (sp : TagSpan) : Prop := sp.ty = tyTag ∨ sp.ty = tyTagValue

theorem spansFrom_mem_le {lo hi : Nat} {l : List TagSpan} (h : SpansFrom lo l hi) :
    ∀ sp ∈ l, lo ≤ sp.off ∧ sp.off + sp.len ≤ hi := by
  induction l generalizing lo with
  | nil => intro sp hsp; cases hsp
  | cons a rest ih =>
    intro sp hsp
    rcases List.mem_cons.mp hsp with rfl | hsp
    · exact ⟨h.1, spansFrom_le h.2⟩
    · have := ih h.2 sp hsp
      exact ⟨by have := h.1; omega, this.2⟩

theorem spansFrom_mono_hi {lo hi hi' : Nat} {l : List TagSpan} (hl : hi ≤ hi')
    (h : SpansFrom lo l hi) : SpansFrom lo l hi' := by
  induction l generalizing lo with
  | nil => exact Nat.le_trans h hl
  | cons sp rest ih => exact ⟨h.1, ih h.2⟩

/-- One loop iteration appends spans that lie inside the part, and moves `partStart` behind
    the part and its comma. -/
theorem extractStep_spec (cls : Classes) (st : Nat × List TagSpan) (part : Bytes) :
    ∃ new, (extractStep cls st part).2 = st.2 ++ new ∧
      SpansFrom st.1 new (st.1 + part.length) ∧
      (extractStep cls st part).1 = st.1 + part.length + 1 ∧
      ∀ sp ∈ new, isTagTy sp := by
  have triv : ∃ new, st.2 = st.2 ++ new ∧ SpansFrom st.1 new (st.1 + part.length) ∧
      st.1 + part.length + 1 = st.1 + part.length + 1 ∧ ∀ sp ∈ new, isTagTy sp :=
    ⟨[], by simp, Nat.le_add_right _ _, rfl, by simp⟩
  have hpart := leadWs_trim_le part
  generalize hres : extractStep cls st part = res
  simp only [extractStep] at hres
  generalize trimSpace part = trimmed at hres hpart
  split at hres
  · subst hres; exact triv
  · rename_i colonIdx hci
    have hcl := indexOf_le _ _ _ hci
    simp only [List.length_singleton] at hcl
    have hname : (List.take colonIdx trimmed).length = colonIdx := by
      simp only [List.length_take]; omega
    have hrest := leadWs_trim_le (List.drop (colonIdx + 1) trimmed)
    simp only [List.length_drop] at hrest
    generalize List.take colonIdx trimmed = name at hres hname
    generalize trimSpace (List.drop (colonIdx + 1) trimmed) = value at hres hrest
    generalize leadWs (List.drop (colonIdx + 1) trimmed) = lwr at hres hrest
    split at hres
    · subst hres; exact triv
    · split at hres
      · subst hres
        refine ⟨[{ off := st.1 + leadWs part, len := name.length + 1, len16 := u16lenB name + 1, ty := tyTag }],
          rfl, ⟨by simp, by simp only [SpansFrom]; omega⟩, rfl, ?_⟩
        intro sp hsp; simp at hsp; subst hsp; exact Or.inl rfl
      · subst hres
        refine ⟨[{ off := st.1 + leadWs part, len := name.length + 1, len16 := u16lenB name + 1, ty := tyTag },
            { off := st.1 + leadWs part + name.length + 1 + lwr, len := value.length,
              len16 := u16lenB value, ty := tyTagValue }],
          by simp, ⟨by simp, ⟨by simp only; omega, by simp only [SpansFrom]; omega⟩⟩, rfl, ?_⟩
        intro sp hsp
        simp at hsp
        rcases hsp with rfl | rfl
        · exact Or.inl rfl
        · exact Or.inr rfl

theorem extractFold_spec (cls : Classes) (parts : List Bytes) (st : Nat × List TagSpan) :
    ∃ new, (parts.foldl (extractStep cls) st).2 = st.2 ++ new ∧
      (parts.foldl (extractStep cls) st).1 = st.1 + partsLen parts ∧
      ((parts = [] ∧ new = []) ∨ SpansFrom st.1 new (st.1 + partsLen parts - 1)) ∧
      ∀ sp ∈ new, isTagTy sp := by
  induction parts generalizing st with
  | nil => exact ⟨[], by simp, by simp [partsLen], Or.inl ⟨rfl, rfl⟩, by simp⟩
  | cons p rest ih =>
    obtain ⟨n1, e1, s1, l1, t1⟩ := extractStep_spec cls st p
    obtain ⟨n2, e2, l2, s2, t2⟩ := ih (extractStep cls st p)
    refine ⟨n1 ++ n2, ?_, ?_, Or.inr ?_, ?_⟩
    · simp only [List.foldl_cons, e2, e1, List.append_assoc]
    · simp only [List.foldl_cons, l2, l1, partsLen]; omega
    · rcases s2 with ⟨hr, hn⟩ | s2
      · subst hr; subst hn
        simp only [List.append_nil, partsLen]
        exact spansFrom_mono_hi (by omega) s1
      · rw [l1] at s2
        refine spansFrom_append s1 (spansFrom_mono_lo (by omega) (spansFrom_mono_hi ?_ s2))
        simp only [partsLen]; omega
    · intro sp hsp
      rcases List.mem_append.mp hsp with h | h
      · exact t1 sp h
      · exact t2 sp h

/-- The tag spans of a comment are ordered, disjoint and inside the comment text. -/
theorem extractSpans_spec (cls : Classes) (comment : Bytes) :
    ∃ hi, hi ≤ comment.length ∧ SpansFrom 0 (extractSpans cls comment) hi ∧
      ∀ sp ∈ extractSpans cls comment, isTagTy sp := by
  unfold extractSpans
  split
  · exact ⟨0, Nat.zero_le _, Nat.le_refl _, by simp⟩
  · obtain ⟨new, e, _, s, t⟩ := extractFold_spec cls (splitOn comma comment) (0, [])
    simp only [List.nil_append] at e
    have hl := splitOn_partsLen comma comment
    rcases s with ⟨hp, _⟩ | s
    · exact absurd hp (splitOn_ne_nil _ _)
    · rw [hl] at s
      exact ⟨comment.length, Nat.le_refl _, by simpa [e] using s, e ▸ t⟩

/-! ### `uint32` conversions without wrap-around -/

theorem u32pred_toNat (n : Nat) (h1 : 1 ≤ n) (h2 : n < 2 ^ 32) : (u32pred n).toNat = n - 1 := by
  unfold u32pred
  have h : (1 : UInt32) ≤ UInt32.ofNat n := by
    rw [UInt32.le_iff_toNat_le]
    simp [UInt32.toNat_ofNat', Nat.mod_eq_of_lt h2]; exact h1
  rw [UInt32.toNat_sub_of_le _ _ h]
  simp [UInt32.toNat_ofNat', Nat.mod_eq_of_lt h2]

theorem u32_add_toNat (a b : UInt32) (h : a.toNat + b.toNat < 2 ^ 32) :
    (a + b).toNat = a.toNat + b.toNat := by
  rw [UInt32.toNat_add]; exact Nat.mod_eq_of_lt h

/-! ### blocks -/

/-- Tokens on line `L`, in order, without overlap, inside the cells `[lo, hi]`. -/
def Block (L : Nat) : Nat → Nat → List AbsTok → Prop
  | lo, hi, [] => lo ≤ hi
  | lo, hi, a :: rest => a.line = L ∧ lo ≤ a.start ∧ Block L (a.start + a.len) hi rest

theorem block_le {L lo hi : Nat} {l : List AbsTok} (h : Block L lo hi l) : lo ≤ hi := by
  induction l generalizing lo with
  | nil => exact h
  | cons a rest ih => have := ih h.2.2; have := h.2.1; omega

theorem block_mem {L lo hi : Nat} {l : List AbsTok} (h : Block L lo hi l) :
    ∀ a ∈ l, a.line = L ∧ lo ≤ a.start ∧ a.start + a.len ≤ hi := by
  induction l generalizing lo with
  | nil => intro a ha; cases ha
  | cons b rest ih =>
    intro a ha
    rcases List.mem_cons.mp ha with rfl | ha
    · exact ⟨h.1, h.2.1, block_le h.2.2⟩
    · have := ih h.2.2 a ha
      exact ⟨this.1, by have := h.2.1; omega, this.2.2⟩

/-- What follows lies after cell `p` of line `L`. -/
def After (L p : Nat) : List AbsTok → Prop
  | [] => True
  | b :: _ => L < b.line ∨ (L = b.line ∧ p ≤ b.start)

theorem after_mono {L L' p p' : Nat} {l : List AbsTok} (h : After L' p' l)
    (hle : L < L' ∨ (L = L' ∧ p ≤ p')) : After L p l := by
  cases l with
  | nil => trivial
  | cons b rest => simp only [After] at *; omega

theorem block_append_ordered {L lo hi : Nat} {l l2 : List AbsTok} (h : Block L lo hi l)
    (ha : After L hi l2) (ho : orderedDisjoint l2 = true) : orderedDisjoint (l ++ l2) = true := by
  induction l generalizing lo with
  | nil => simpa using ho
  | cons a rest ih =>
    have hrest := ih h.2.2
    cases hr : rest with
    | nil =>
      subst hr
      cases l2 with
      | nil => simp [orderedDisjoint]
      | cons b r2 =>
        simp only [List.cons_append, List.nil_append, orderedDisjoint, Bool.and_eq_true,
          Bool.or_eq_true, decide_eq_true_eq, beq_iff_eq]
        refine ⟨?_, ho⟩
        have hb := block_le h.2.2
        simp only [After] at ha
        have := h.1
        omega
    | cons b r =>
      subst hr
      simp only [List.cons_append, orderedDisjoint, Bool.and_eq_true, Bool.or_eq_true,
        decide_eq_true_eq, beq_iff_eq]
      refine ⟨?_, by simpa using hrest⟩
      have := h.1; have := h.2.2.1; have := h.2.2.2.1
      omega

theorem after_block_append {L lo hi L0 p0 : Nat} {l l2 : List AbsTok} (h : Block L lo hi l)
    (h0 : L0 < L ∨ (L0 = L ∧ p0 ≤ lo)) (ha : After L hi l2) : After L0 p0 (l ++ l2) := by
  cases l with
  | nil =>
    simp only [List.nil_append]
    have : lo ≤ hi := h
    exact after_mono ha (by omega)
  | cons a rest =>
    simp only [List.cons_append, After]
    have := h.1; have := h.2.1
    omega

end HL.Lemmas.SemTok

namespace HL.Lemmas.SemTok
open HL HL.SemTok HL.SemTokSpec

/-! ### what one lexer token contributes -/

theorem block_mono {L lo lo' hi hi' : Nat} {l : List AbsTok} (h : Block L lo hi l)
    (h1 : lo' ≤ lo) (h2 : hi ≤ hi') : Block L lo' hi' l := by
  induction l generalizing lo lo' with
  | nil => simp only [Block] at *; omega
  | cons a rest ih => exact ⟨h.1, by have := h.2.1; omega, ih h.2.2 (Nat.le_refl _)⟩

theorem u32_toNat (n : Nat) (h : n < 2 ^ 32) : (u32 n).toNat = n := u32_toNat_of_lt n h

theorem noLf_iff (text : Bytes) (a b : Nat) (h : noLf text a b = true) : NoLfP text a b := by
  apply noLfP_of_slice
  simp only [noLf, Bool.not_eq_true', List.contains_eq_mem, decide_eq_false_iff_not] at h
  exact h

/-- What `extentOk` says, as propositions. -/
structure ExtentP (text : Bytes) (t : Token) : Prop where
  l1 : 1 ≤ t.pos.line
  l2 : t.pos.line < 2 ^ 32
  le : t.pos.off ≤ t.stop.off
  inText : t.stop.off ≤ text.length
  small : text.length < 2 ^ 32
  oneLine : NoLfP text t.pos.off t.stop.off
  cmt : t.ty = .comment → sliceB text t.pos.off t.stop.off = 0x3B :: t.val

theorem extentP_of (text : Bytes) (t : Token) (h : extentOk text t = true) : ExtentP text t := by
  simp only [extentOk, Bool.and_eq_true, decide_eq_true_eq, Bool.or_eq_true, bne_iff_ne, ne_eq,
    beq_iff_eq] at h
  obtain ⟨⟨⟨⟨⟨⟨h1, h2⟩, h3⟩, h4⟩, h5⟩, h6⟩, h7⟩ := h
  refine ⟨h1, h2, h3, h4, h5, noLf_iff _ _ _ h6, fun hc => ?_⟩
  rcases h7 with h7 | h7
  · exact absurd hc h7
  · exact h7

theorem ExtentP.cmtLen {text : Bytes} {t : Token} (h : ExtentP text t) (hc : t.ty = .comment) :
    t.pos.off + 1 + t.val.length = t.stop.off := by
  have h1 := congrArg List.length (h.cmt hc)
  rw [sliceB_length _ _ _ h.inText] at h1
  simp only [List.length_cons] at h1
  have := h.le
  omega

theorem colAt_lt (text : Bytes) (off : Nat) (h : text.length < 2 ^ 32) : colAt text off < 2 ^ 32 :=
  Nat.lt_of_le_of_lt (colAt_le text off) h

/-- The absolute token made from a span. -/
theorem absOf_tagToken (text : Bytes) (t : Token) (sp : TagSpan) (he : ExtentP text t)
    (h16 : sp.len16 < 2 ^ 32) :
    absOf (tagToken text t sp)
      = ⟨t.pos.line - 1, colAt text (t.pos.off + 1 + sp.off), sp.len16, sp.ty.toNat, 0⟩ := by
  simp only [absOf, tagToken, u32pred_toNat _ he.l1 he.l2, u32_toNat _ (colAt_lt text _ he.small),
    u32_toNat _ h16]
  rfl

theorem absOf_plainToken (text : Bytes) (t : Token) (semType mods : UInt32) (he : ExtentP text t)
    (h16 : (plainSpan text t semType).len16 < 2 ^ 32) :
    absOf (plainToken text t semType mods)
      = ⟨t.pos.line - 1, colAt text (plainSpan text t semType).off, (plainSpan text t semType).len16,
         semType.toNat, mods.toNat⟩ := by
  simp only [absOf, plainToken, u32pred_toNat _ he.l1 he.l2, u32_toNat _ (colAt_lt text _ he.small),
    u32_toNat _ h16]

/-- The spans of a comment, shifted to absolute offsets, turned into tokens, form a block. -/
theorem spans_block (text : Bytes) (t : Token) (he : ExtentP text t) (spans : List TagSpan)
    (lo hi : Nat) (h : SpansFrom lo spans hi)
    (hline : NoLfP text (t.pos.off + 1 + lo) (t.pos.off + 1 + hi))
    (hm : ∀ sp ∈ spans, measured text { sp with off := t.pos.off + 1 + sp.off } = true) :
    Block (t.pos.line - 1) (colAt text (t.pos.off + 1 + lo)) (colAt text (t.pos.off + 1 + hi))
      (spans.map (fun sp => absOf (tagToken text t sp))) := by
  induction spans generalizing lo with
  | nil =>
    simp only [List.map_nil, Block]
    have : lo ≤ hi := h
    exact colAt_mono _ _ _ (by omega) hline
  | cons sp rest ih =>
    have hle := spansFrom_le h.2
    have hlo := h.1
    have hm0 := hm sp List.mem_cons_self
    simp only [measured, Bool.and_eq_true, decide_eq_true_eq] at hm0
    have h16 : sp.len16 < 2 ^ 32 := by omega
    simp only [List.map_cons, Block, absOf_tagToken text t sp he h16]
    refine ⟨trivial, colAt_mono _ _ _ (by omega) (noLfP_sub hline (Nat.le_refl _) (by omega)), ?_⟩
    have := ih (sp.off + sp.len) h.2 (noLfP_sub hline (by omega) (Nat.le_refl _))
      (fun sp' hsp' => hm sp' (List.mem_cons_of_mem _ hsp'))
    refine block_mono this ?_ (Nat.le_refl _)
    have e : t.pos.off + 1 + (sp.off + sp.len) = t.pos.off + 1 + sp.off + sp.len := by omega
    rw [e]; exact hm0.1

theorem plainSpan_ty_irrel (text : Bytes) (t : Token) (x y : UInt32) :
    (plainSpan text t x).off = (plainSpan text t y).off ∧
    (plainSpan text t x).len = (plainSpan text t y).len ∧
    (plainSpan text t x).len16 = (plainSpan text t y).len16 := by
  simp only [plainSpan]; split <;> simp

/-- The plain span lies inside the token's extent. -/
theorem plainSpan_inside (text : Bytes) (t : Token) (x : UInt32) (he : ExtentP text t) :
    t.pos.off ≤ (plainSpan text t x).off ∧
    (plainSpan text t x).off + (plainSpan text t x).len ≤ t.stop.off := by
  simp only [plainSpan]
  split
  · rename_i hc
    have := he.cmtLen (by simpa using hc)
    simp only; omega
  · have h1 := leadWs_trim_le (sliceB text t.pos.off t.stop.off)
    rw [sliceB_length _ _ _ he.inText] at h1
    have := he.le
    simp only; omega

theorem extractTags_isEmpty (cls : Classes) (text : Bytes) (t : Token) :
    (extractTags cls text t).isEmpty = (extractSpans cls t.val).isEmpty := by
  simp [extractTags]

theorem stepTok_block (cls : Classes) (text : Bytes) (c : Ctx) (t : Token)
    (he : ExtentP text t) (hm : (emitted cls text t).all (measured text) = true) :
    Block (t.pos.line - 1) (colAt text t.pos.off) (colAt text t.stop.off)
      ((stepTok cls text c t).2.map absOf) := by
  have hwhole : colAt text t.pos.off ≤ colAt text t.stop.off := colAt_mono _ _ _ he.le he.oneLine
  generalize hres : stepTok cls text c t = res
  simp only [stepTok] at hres
  cases hmt : mapTokenType t.ty with
  | none => simp only [hmt] at hres; subst hres; simpa [Block] using hwhole
  | some semType0 =>
    simp only [hmt] at hres
    generalize (if (t.ty == TokType.text && (lineStart c t).isPayee) = true then tyPayee else semType0) = semType at hres
    by_cases hsp : (t.ty == .comment && !(extractSpans cls t.val).isEmpty) = true
    · -- a comment with tags
      simp only [Bool.and_eq_true, beq_iff_eq, Bool.not_eq_true', ] at hsp
      obtain ⟨hcm, hne⟩ := hsp
      have hc' : (t.ty == TokType.comment) = true := by simp [hcm]
      simp only [hc', if_true, extractTags_isEmpty, hne, Bool.not_false] at hres
      subst hres
      have hem : emitted cls text t
          = (extractSpans cls t.val).map fun sp => { sp with off := t.pos.off + 1 + sp.off } := by
        simp [emitted, hc', hne]
      rw [hem] at hm
      obtain ⟨hi, hhi, hs, _⟩ := extractSpans_spec cls t.val
      have hcl := he.cmtLen hcm
      have := spans_block text t he (extractSpans cls t.val) 0 hi hs
        (noLfP_sub he.oneLine (by omega) (by omega))
        (fun sp hsp => by
          simp only [List.all_map, List.all_eq_true] at hm
          exact hm sp hsp)
      simp only [extractTags, List.map_map]
      refine block_mono this ?_ ?_
      · exact colAt_mono _ _ _ (by omega) (noLfP_sub he.oneLine (Nat.le_refl _) (by omega))
      · exact colAt_mono _ _ _ (by omega) (noLfP_sub he.oneLine (by omega) (Nat.le_refl _))
    · -- a plain token (or nothing)
      have htags : (if (t.ty == TokType.comment) = true then extractTags cls text t else []).isEmpty = true := by
        by_cases hcm : (t.ty == TokType.comment) = true
        · simp only [hcm, if_true, extractTags_isEmpty]
          simpa [hcm] using hsp
        · simp [hcm]
      simp only [htags, Bool.not_true, Bool.false_eq_true, if_false] at hres
      split at hres
      · subst hres; simpa [Block] using hwhole
      · rename_i hnz
        subst hres
        have hn0 : (plainSpan text t semType).len16 ≠ 0 := by
          intro e; apply hnz; rw [e]; rfl
        have hirr := plainSpan_ty_irrel text t 0 semType
        have hem : emitted cls text t = [plainSpan text t 0] := by
          have h0 : (plainSpan text t 0).len16 ≠ 0 := by rw [hirr.2.2]; exact hn0
          have : ((if (t.ty == TokType.comment) = true then extractSpans cls t.val else []).isEmpty) = true := by
            by_cases hcm : (t.ty == TokType.comment) = true
            · simp only [hcm, if_true]; simpa [hcm] using hsp
            · simp [hcm]
          have hb : ((plainSpan text t 0).len16 == 0) = false := by simpa using h0
          simp only [emitted, this, Bool.not_true, Bool.false_eq_true, if_false, hb]
        rw [hem] at hm
        simp only [List.all_cons, List.all_nil, Bool.and_true, measured, Bool.and_eq_true,
          decide_eq_true_eq] at hm
        rw [hirr.1, hirr.2.1, hirr.2.2] at hm
        have hin := plainSpan_inside text t semType he
        have h16 : (plainSpan text t semType).len16 < 2 ^ 32 := by omega
        simp only [List.map_cons, List.map_nil, Block, absOf_plainToken text t semType _ he h16]
        refine ⟨trivial, colAt_mono _ _ _ hin.1 (noLfP_sub he.oneLine (Nat.le_refl _) (by omega)), ?_⟩
        refine Nat.le_trans hm.1 (colAt_mono _ _ _ hin.2 (noLfP_sub he.oneLine (by omega) (Nat.le_refl _)))

/-- Every token made from lexer token `t` is made from one of the pieces `emitted` lists: same
    line, the cursor's column of the piece's first byte, the piece's UTF-16 length. -/
theorem stepTok_abs_mem (cls : Classes) (text : Bytes) (c : Ctx) (t : Token)
    (he : ExtentP text t) (hm : (emitted cls text t).all (measured text) = true)
    (a : AbsTok) (ha : a ∈ (stepTok cls text c t).2.map absOf) :
    ∃ sp ∈ emitted cls text t, a.line = t.pos.line - 1 ∧ a.start = colAt text sp.off ∧ a.len = sp.len16 := by
  generalize hres : stepTok cls text c t = res at ha
  simp only [stepTok] at hres
  cases hmt : mapTokenType t.ty with
  | none => simp only [hmt] at hres; subst hres; simp at ha
  | some semType0 =>
    simp only [hmt] at hres
    generalize (if (t.ty == TokType.text && (lineStart c t).isPayee) = true then tyPayee else semType0) = semType at hres
    by_cases hsp : (t.ty == .comment && !(extractSpans cls t.val).isEmpty) = true
    · simp only [Bool.and_eq_true, beq_iff_eq, Bool.not_eq_true'] at hsp
      obtain ⟨hcm, hne⟩ := hsp
      have hc' : (t.ty == TokType.comment) = true := by simp [hcm]
      simp only [hc', if_true, extractTags_isEmpty, hne, Bool.not_false] at hres
      subst hres
      have hem : emitted cls text t
          = (extractSpans cls t.val).map fun sp => { sp with off := t.pos.off + 1 + sp.off } := by
        simp [emitted, hc', hne]
      rw [hem] at hm ⊢
      simp only [extractTags, List.map_map, List.mem_map, Function.comp] at ha
      obtain ⟨sp, hsp, rfl⟩ := ha
      simp only [List.all_map, List.all_eq_true] at hm
      have hm0 := hm sp hsp
      simp only [Function.comp, measured, Bool.and_eq_true, decide_eq_true_eq] at hm0
      have h16 : sp.len16 < 2 ^ 32 := by omega
      refine ⟨_, List.mem_map.mpr ⟨sp, hsp, rfl⟩, ?_⟩
      rw [absOf_tagToken text t sp he h16]
      exact ⟨rfl, rfl, rfl⟩
    · have htags : (if (t.ty == TokType.comment) = true then extractTags cls text t else []).isEmpty = true := by
        by_cases hcm : (t.ty == TokType.comment) = true
        · simp only [hcm, if_true, extractTags_isEmpty]
          simpa [hcm] using hsp
        · simp [hcm]
      simp only [htags, Bool.not_true, Bool.false_eq_true, if_false] at hres
      split at hres
      · subst hres; simp at ha
      · rename_i hnz
        subst hres
        have hn0 : (plainSpan text t semType).len16 ≠ 0 := by
          intro e; apply hnz; rw [e]; rfl
        have hirr := plainSpan_ty_irrel text t 0 semType
        have hem : emitted cls text t = [plainSpan text t 0] := by
          have h0 : (plainSpan text t 0).len16 ≠ 0 := by rw [hirr.2.2]; exact hn0
          have : ((if (t.ty == TokType.comment) = true then extractSpans cls t.val else []).isEmpty) = true := by
            by_cases hcm : (t.ty == TokType.comment) = true
            · simp only [hcm, if_true]; simpa [hcm] using hsp
            · simp [hcm]
          have hb : ((plainSpan text t 0).len16 == 0) = false := by simpa using h0
          simp only [emitted, this, Bool.not_true, Bool.false_eq_true, if_false, hb]
        rw [hem] at hm ⊢
        simp only [List.all_cons, List.all_nil, Bool.and_true, measured, Bool.and_eq_true,
          decide_eq_true_eq] at hm
        rw [hirr.2.2] at hm
        have h16 : (plainSpan text t semType).len16 < 2 ^ 32 := by omega
        simp only [List.map_cons, List.map_nil, List.mem_singleton] at ha
        subst ha
        refine ⟨_, List.mem_singleton.mpr rfl, ?_⟩
        rw [absOf_plainToken text t semType _ he h16, hirr.1, hirr.2.2]
        exact ⟨rfl, rfl, rfl⟩

/-! ### all tokens -/

/-- Position bound for the first mapped lexer token. -/
def Bound (text : Bytes) (L p : Nat) : List Token → Prop
  | [] => True
  | t :: _ => L < t.pos.line - 1 ∨ (L = t.pos.line - 1 ∧ p ≤ colAt text t.pos.off)

theorem stepTok_unmapped (cls : Classes) (text : Bytes) (c : Ctx) (t : Token) (h : mapTokenType t.ty = none) :
    (stepTok cls text c t).2 = [] := by simp [stepTok, h]

/-- All pieces of all mapped tokens are `measured`. -/
def MeasAll (cls : Classes) (text : Bytes) (l : List Token) : Prop :=
  ∀ t ∈ l, (emitted cls text t).all (measured text) = true

theorem measAll_of (cls : Classes) (text : Bytes) (toks : List Token) (hm : measB cls text toks = true) :
    MeasAll cls text (mappedBody toks) := by
  intro t ht
  simp only [measB, List.all_eq_true] at hm
  exact List.all_eq_true.mpr (hm t ht)

theorem tokGo_ordered (cls : Classes) (text : Bytes) (c : Ctx) (toks : List Token) (L p : Nat)
    (hall : (mappedBody toks).all (extentOk text) = true) (hch : chainB text (mappedBody toks) = true)
    (hm : MeasAll cls text (mappedBody toks))
    (hb : Bound text L p (mappedBody toks)) :
    orderedDisjoint ((tokGo cls text c toks).map absOf) = true ∧
      After L p ((tokGo cls text c toks).map absOf) := by
  induction toks generalizing c L p with
  | nil => simp [tokGo, orderedDisjoint, After]
  | cons t rest ih =>
    simp only [tokGo]
    by_cases he : t.ty = .eof
    · simp [he, orderedDisjoint, After]
    · have he' : (t.ty == TokType.eof) = false := by simp [he]
      simp only [he', Bool.false_eq_true, if_false, List.map_append]
      cases hmt : mapTokenType t.ty with
      | none =>
        have hmb : mappedBody (t :: rest) = mappedBody rest := by simp [mappedBody, he', hmt]
        rw [hmb] at hall hch hb hm
        rw [stepTok_unmapped cls text c t hmt]
        simpa using ih (stepTok cls text c t).1 L p hall hch hm hb
      | some ty =>
        have hmb : mappedBody (t :: rest) = t :: mappedBody rest := by simp [mappedBody, he', hmt]
        rw [hmb] at hall hch hb hm
        simp only [List.all_cons, Bool.and_eq_true] at hall
        obtain ⟨htb, hall'⟩ := hall
        have hext := extentP_of text t htb
        have hblk := stepTok_block cls text c t hext (hm t List.mem_cons_self)
        have hch' : chainB text (mappedBody rest) = true := by
          cases hr : mappedBody rest with
          | nil => simp [chainB]
          | cons t' r => rw [hr] at hch; simp only [chainB, Bool.and_eq_true] at hch; exact hch.2
        have hbound : Bound text (t.pos.line - 1) (colAt text t.stop.off) (mappedBody rest) := by
          cases hr : mappedBody rest with
          | nil => trivial
          | cons t' r =>
            rw [hr] at hch
            simp only [chainB, Bool.and_eq_true] at hch
            have h := hch.1
            simp only [Bound]
            simp only [follows, Bool.or_eq_true, decide_eq_true_eq, Bool.and_eq_true, beq_iff_eq] at h
            have := hext.l1
            rcases h.2 with h2 | ⟨h2, h3⟩
            · left; omega
            · right; exact ⟨by omega, colAt_mono _ _ _ h.1 (noLf_iff _ _ _ h3)⟩
        obtain ⟨ho, ha⟩ := ih (stepTok cls text c t).1 _ _ hall' hch'
          (fun t' ht' => hm t' (List.mem_cons_of_mem _ ht')) hbound
        refine ⟨block_append_ordered hblk ha ho, ?_⟩
        refine after_block_append hblk ?_ ha
        simpa [Bound] using hb

theorem tokGo_inline (cls : Classes) (text : Bytes) (lens : List Nat) (c : Ctx) (toks : List Token)
    (hall : (mappedBody toks).all (extentOk text) = true)
    (hm : MeasAll cls text (mappedBody toks))
    (hi : inlineB lens cls text toks = true) :
    ∀ a ∈ (tokGo cls text c toks).map absOf, inLine lens a = true := by
  induction toks generalizing c with
  | nil => simp [tokGo]
  | cons t rest ih =>
    simp only [tokGo]
    by_cases he : t.ty = .eof
    · simp [he]
    · have he' : (t.ty == TokType.eof) = false := by simp [he]
      simp only [he', Bool.false_eq_true, if_false, List.map_append]
      cases hmt : mapTokenType t.ty with
      | none =>
        have hmb : mappedBody (t :: rest) = mappedBody rest := by simp [mappedBody, he', hmt]
        simp only [inlineB, hmb] at hi
        rw [hmb] at hall hm
        rw [stepTok_unmapped cls text c t hmt]
        simpa using ih (stepTok cls text c t).1 hall hm (by simpa [inlineB] using hi)
      | some ty =>
        have hmb : mappedBody (t :: rest) = t :: mappedBody rest := by simp [mappedBody, he', hmt]
        simp only [inlineB, hmb, List.all_cons, Bool.and_eq_true] at hi
        rw [hmb] at hall hm
        simp only [List.all_cons, Bool.and_eq_true] at hall
        obtain ⟨htb, hall'⟩ := hall
        obtain ⟨hin, hirest⟩ := hi
        intro a ha
        rcases List.mem_append.mp ha with ha | ha
        · have hext := extentP_of text t htb
          have hmt' := hm t List.mem_cons_self
          obtain ⟨sp, hsp, h1, h2, h3⟩ := stepTok_abs_mem cls text c t hext hmt' a ha
          have hms := (List.all_eq_true.mp hmt') sp hsp
          have hin' := (List.all_eq_true.mp hin) sp hsp
          simp only [measured, Bool.and_eq_true, decide_eq_true_eq] at hms
          simp only [inLine, h1]
          split at hin'
          · simp only [decide_eq_true_eq] at hin' ⊢
            omega
          · cases hin'
        · exact ih _ hall' (fun t' ht' => hm t' (List.mem_cons_of_mem _ ht'))
            (by simpa [inlineB] using hirest) a ha

/-! ### legend and coverage -/

theorem mapTokenType_lt (k : TokType) (x : UInt32) (h : mapTokenType k = some x) : x.toNat < 13 := by
  cases k <;> simp [mapTokenType] at h <;> subst h <;> decide

theorem mapTokenType_kind (k : TokType) (x : UInt32) (h : mapTokenType k = some x) :
    (kindTypes k).contains x.toNat = true := by
  cases k <;> simp [mapTokenType] at h <;> subst h <;> decide

/-- The shape of everything `stepTok` emits. -/
theorem stepTok_mem (cls : Classes) (text : Bytes) (c : Ctx) (t : Token) (s : SemToken)
    (h : s ∈ (stepTok cls text c t).2) :
    (t.ty = .comment ∧ s ∈ extractTags cls text t ∧ (extractTags cls text t).isEmpty = false) ∨
    (∃ semType mods, (mapTokenType t.ty = some semType ∨ (t.ty = .text ∧ semType = tyPayee)) ∧
      (mods = 0 ∨ mods = 1) ∧ s = plainToken text t semType mods ∧
      u32 (plainSpan text t semType).len16 ≠ 0 ∧
      (t.ty = .comment → (extractTags cls text t).isEmpty = true)) := by
  generalize hres : stepTok cls text c t = res at h
  simp only [stepTok] at hres
  cases hm : mapTokenType t.ty with
  | none => simp only [hm] at hres; subst hres; simp at h
  | some semType =>
    simp only [hm] at hres
    have hsem : mapTokenType t.ty = some (if (t.ty == TokType.text && (lineStart c t).isPayee) = true then tyPayee else semType) ∨
        (t.ty = .text ∧ (if (t.ty == TokType.text && (lineStart c t).isPayee) = true then tyPayee else semType) = tyPayee) := by
      by_cases hp : (t.ty == TokType.text && (lineStart c t).isPayee) = true
      · rw [if_pos hp]; right
        simp only [Bool.and_eq_true, beq_iff_eq] at hp
        exact ⟨hp.1, rfl⟩
      · rw [if_neg hp]; exact Or.inl hm
    generalize (if (t.ty == TokType.text && (lineStart c t).isPayee) = true then tyPayee else semType) = sem at hres hsem
    have hmods : ∀ b : Bool, (if b = true then (1 : UInt32) else 0) = 0 ∨ (if b = true then (1 : UInt32) else 0) = 1 := by
      intro b; cases b <;> simp
    have hmods' := hmods ((lineStart c t).inDirective && ((lineStart c t).directiveType == kwAccount || (lineStart c t).directiveType == kwCommodity) && (t.ty == TokType.account || t.ty == TokType.commodity || t.ty == TokType.text))
    generalize (if ((lineStart c t).inDirective && ((lineStart c t).directiveType == kwAccount || (lineStart c t).directiveType == kwCommodity) && (t.ty == TokType.account || t.ty == TokType.commodity || t.ty == TokType.text)) = true then (1 : UInt32) else 0) = mods at hres hmods'
    generalize (if (t.ty == TokType.text && (lineStart c t).isPayee) = true then
      ({ lineStart c t with isPayee := false } : Ctx) else lineStart c t) = c2 at hres
    by_cases hcm : t.ty = .comment
    · have hc' : (t.ty == TokType.comment) = true := by simp [hcm]
      simp only [hc', if_true] at hres
      by_cases hsp : (extractTags cls text t).isEmpty = true
      · simp only [hsp, Bool.not_true, Bool.false_eq_true, if_false] at hres
        by_cases hz : (u32 (plainSpan text t sem).len16 == 0) = true
        · simp only [hz, if_true] at hres; subst hres; simp at h
        · simp only [hz, Bool.false_eq_true, if_false] at hres
          subst hres
          simp only [List.mem_singleton] at h
          exact Or.inr ⟨_, _, (by rw [hm] at hsem; exact hsem), hmods', h, by simpa using hz, fun _ => hsp⟩
      · have hsp' : (extractTags cls text t).isEmpty = false := by simpa using hsp
        simp only [hsp', Bool.not_false, if_true] at hres
        subst hres
        exact Or.inl ⟨hcm, h, hsp'⟩
    · have hc' : (t.ty == TokType.comment) = false := by simp [hcm]
      simp only [hc', Bool.false_eq_true, if_false, List.isEmpty_nil, Bool.not_true] at hres
      by_cases hz : (u32 (plainSpan text t sem).len16 == 0) = true
      · simp only [hz, if_true] at hres; subst hres; simp at h
      · simp only [hz, Bool.false_eq_true, if_false] at hres
        subst hres
        simp only [List.mem_singleton] at h
        exact Or.inr ⟨_, _, (by rw [hm] at hsem; exact hsem), hmods', h, by simpa using hz, fun hh => absurd hh hcm⟩

theorem extractTags_mem (cls : Classes) (text : Bytes) (t : Token) (s : SemToken)
    (h : s ∈ extractTags cls text t) : (s.ty = tyTag ∨ s.ty = tyTagValue) ∧ s.mods = 0 := by
  simp only [extractTags, List.mem_map] at h
  obtain ⟨sp, hsp, rfl⟩ := h
  obtain ⟨_, _, _, ht⟩ := extractSpans_spec cls t.val
  exact ⟨ht sp hsp, rfl⟩

theorem stepTok_legend (cls : Classes) (text : Bytes) (c : Ctx) (t : Token) (s : SemToken)
    (h : s ∈ (stepTok cls text c t).2) : s.ty.toNat < 13 ∧ s.mods.toNat < 4 := by
  rcases stepTok_mem cls text c t s h with ⟨_, hmem, _⟩ | ⟨semType, mods, hty, hmods, rfl, _, _⟩
  · obtain ⟨hty, hm⟩ := extractTags_mem cls text t s hmem
    rw [hm]
    rcases hty with h | h <;> rw [h] <;> decide
  · simp only [plainToken]
    refine ⟨?_, ?_⟩
    · rcases hty with h | ⟨_, h⟩
      · exact mapTokenType_lt _ _ h
      · subst h; decide
    · rcases hmods with h | h <;> subst h <;> decide

theorem tokGo_legend (cls : Classes) (text : Bytes) (c : Ctx) (toks : List Token) :
    ∀ s ∈ tokGo cls text c toks, s.ty.toNat < 13 ∧ s.mods.toNat < 4 := by
  induction toks generalizing c with
  | nil => simp [tokGo]
  | cons t rest ih =>
    simp only [tokGo]
    split
    · simp
    · intro s hs
      rcases List.mem_append.mp hs with h | h
      · exact stepTok_legend cls text c t s h
      · exact ih _ s h

theorem tokGoSrc_fst (cls : Classes) (text : Bytes) (c : Ctx) (toks : List Token) :
    (tokGoSrc cls text c toks).map (·.1) = tokGo cls text c toks := by
  induction toks generalizing c with
  | nil => rfl
  | cons t rest ih =>
    simp only [tokGoSrc, tokGo]
    split
    · rfl
    · simp [ih, List.map_map, Function.comp_def]

theorem tokGoSrc_mem (cls : Classes) (text : Bytes) (c : Ctx) (toks : List Token) (s : SemToken) (t : Token)
    (h : (s, t) ∈ tokGoSrc cls text c toks) :
    ∃ c', s ∈ (stepTok cls text c' t).2 ∧ t ∈ toks ∧ t.ty ≠ .eof := by
  induction toks generalizing c with
  | nil => simp [tokGoSrc] at h
  | cons t0 rest ih =>
    simp only [tokGoSrc] at h
    split at h
    · simp at h
    · rename_i he
      rcases List.mem_append.mp h with h | h
      · simp only [List.mem_map, Prod.mk.injEq] at h
        obtain ⟨s', hs', rfl, rfl⟩ := h
        exact ⟨c, hs', List.mem_cons_self, by simpa using he⟩
      · obtain ⟨c', h1, h2, h3⟩ := ih _ h
        exact ⟨c', h1, List.mem_cons_of_mem _ h2, h3⟩

theorem stripCR_semicolon (val : Bytes) (h : val.getLast? ≠ some cr) :
    stripCR (0x3B :: val) = 0x3B :: val := by
  unfold stripCR
  rw [if_neg]
  rw [List.getLast?_cons]
  intro e
  cases hv : val.getLast? with
  | none => rw [hv] at e; simp [cr] at e
  | some x => rw [hv] at e; simp at e; exact h (by rw [hv, e])

/-- The byte range `plainSpan` measures is the lexeme the specification assigns to the token,
    and its UTF-16 length is the lexeme's. -/
theorem plainSpan_lexeme (text : Bytes) (t : Token) (x : UInt32) (he : ExtentP text t)
    (hcr : devCrComment t = false) (hnz : (plainSpan text t x).len16 ≠ 0) :
    lexemeRange text t = ((plainSpan text t x).off, (plainSpan text t x).off + (plainSpan text t x).len) ∧
    u16lenB (sliceB text (plainSpan text t x).off ((plainSpan text t x).off + (plainSpan text t x).len))
      = (plainSpan text t x).len16 := by
  by_cases hc : t.ty = .comment
  · have hc' : (t.ty == TokType.comment) = true := by simp [hc]
    have hnp : (t.ty == TokType.pipe) = false := by simp [hc]
    have hlen := he.cmtLen hc
    have hraw := he.cmt hc
    have hcr' : t.val.getLast? ≠ some cr := by
      simpa [devCrComment, hc'] using hcr
    have hs := stripCR_semicolon t.val hcr'
    simp only [lexemeRange, plainSpan, hc', hnp, Bool.false_and, Bool.false_eq_true, if_false, if_true,
      hraw, hs, List.length_cons]
    refine ⟨trivial, ?_⟩
    rw [show t.pos.off + (t.val.length + 1) = t.stop.off by omega, hraw,
      u16lenB_cons_ascii _ _ (by decide)]
    omega
  · have hc' : (t.ty == TokType.comment) = false := by simp [hc]
    have hne : ¬ (t.ty == TokType.pipe && t.pos.off == t.stop.off) = true := by
      intro hp
      simp only [Bool.and_eq_true, beq_iff_eq] at hp
      apply hnz
      have : sliceB text t.pos.off t.stop.off = [] := by simp [sliceB, hp.2]
      simp only [plainSpan, hc', Bool.false_eq_true, if_false, this]
      rfl
    simp only [lexemeRange, plainSpan, hc', hne, Bool.false_eq_true, if_false]
    refine ⟨trivial, ?_⟩
    have h1 := leadWs_trim_le (sliceB text t.pos.off t.stop.off)
    rw [sliceB_length _ _ _ he.inText] at h1
    rw [sliceB_sub text t.pos.off t.stop.off _ _ h1, drop_take_trim]

/-- A plain token (not cut out of a comment) covers its lexeme: the extent is well-formed, the
    cursor's column at the lexeme's first byte is its LSP column (`placed`), and the token is
    not a comment that includes the CR of its line end. -/
theorem plain_covers (text : Bytes) (t : Token) (semType mods : UInt32)
    (hty : mapTokenType t.ty = some semType ∨ (t.ty = .text ∧ semType = tyPayee))
    (he : ExtentP text t) (hp : placed text t = true) (hcr : devCrComment t = false)
    (hnz : u32 (plainSpan text t semType).len16 ≠ 0) :
    coversTok text t (absOf (plainToken text t semType mods)) = true := by
  have hn0 : (plainSpan text t semType).len16 ≠ 0 := by
    intro e; apply hnz; rw [e]; rfl
  obtain ⟨hr, hl⟩ := plainSpan_lexeme text t semType he hcr hn0
  have hin := plainSpan_inside text t semType he
  have hle16 : (plainSpan text t semType).len16 ≤ text.length := by
    rw [← hl]
    refine Nat.le_trans (u16lenB_le _) ?_
    simp only [sliceB, List.length_take, List.length_drop]
    omega
  have h16 : (plainSpan text t semType).len16 < 2 ^ 32 := Nat.lt_of_le_of_lt hle16 he.small
  have hkind : (kindTypes t.ty).contains semType.toNat = true := by
    rcases hty with h | ⟨h1, h2⟩
    · exact mapTokenType_kind _ _ h
    · rw [h1, h2]; decide
  simp only [placed, hr, beq_iff_eq] at hp
  simp only [coversTok, absOf_plainToken text t semType mods he h16, lexemeSpan, hr, hl, hkind,
    Bool.and_true, hp, beq_self_eq_true, decide_eq_true_eq]
  omega

theorem orderedDisjoint_weakly (l : List AbsTok) (h : orderedDisjoint l = true) :
    weaklyOrdered l = true := by
  induction l with
  | nil => rfl
  | cons a rest ih =>
    cases rest with
    | nil => rfl
    | cons b r =>
      simp only [orderedDisjoint, weaklyOrdered, Bool.and_eq_true, Bool.or_eq_true,
        decide_eq_true_eq, beq_iff_eq] at h ⊢
      refine ⟨?_, ih h.2⟩
      rcases h.1 with h1 | ⟨h1, h2⟩
      · exact Or.inl h1
      · exact Or.inr ⟨h1, by omega⟩

theorem indexOf_spec (pat s : Bytes) (i : Nat) (h : indexOf pat s = some i) :
    (s.drop i).take pat.length = pat := by
  induction s generalizing i with
  | nil =>
    simp only [indexOf] at h
    split at h
    · cases h; simp_all [List.isEmpty_iff]
    · cases h
  | cons b bs ih =>
    simp only [indexOf] at h
    split at h
    · rename_i hp
      cases h
      obtain ⟨r, hr⟩ := List.isPrefixOf_iff_prefix.mp hp
      rw [List.drop_zero, ← hr]; simp
    · cases hi : indexOf pat bs with
      | none => simp [hi] at h
      | some j =>
        simp [hi] at h
        subst h
        simpa using ih j hi

/-! ### what the tag spans contain -/

/-- What a span found by `extractTagTokensFromComment` holds: a tag span is `name:` for a name
    that `isValidTagName` accepts; a value span is a non-empty string without white space around
    it (the result of a `strings.TrimSpace`); the token's length is the UTF-16 length of that
    text. -/
def SpanContent (cls : Classes) (comment : Bytes) (sp : TagSpan) : Prop :=
  (sp.ty = tyTag ∧ ∃ name, isValidTagName cls name = true ∧ sp.len = name.length + 1 ∧
      sp.len16 = u16lenB name + 1 ∧ (comment.drop sp.off).take sp.len = name ++ [colon]) ∨
  (sp.ty = tyTagValue ∧ ∃ value, value ≠ [] ∧ (∃ r, value = trimSpace r) ∧ sp.len = value.length ∧
      sp.len16 = u16lenB value ∧ (comment.drop sp.off).take sp.len = value)

/-- A slice of the comment that lies inside a part is a slice of the part. -/
theorem slice_in_part (comment part tail : Bytes) (ps k m : Nat)
    (h : comment.drop ps = part ++ tail) (hk : k + m ≤ part.length) :
    (comment.drop (ps + k)).take m = (part.drop k).take m := by
  rw [← List.drop_drop, h, List.drop_append_of_le_length (by omega),
    List.take_append_of_le_length (by simp only [List.length_drop]; omega)]

theorem slice_in_trim (s : Bytes) (j m : Nat) (h : j + m ≤ (trimSpace s).length) :
    (s.drop (leadWs s + j)).take m = ((trimSpace s).drop j).take m := by
  obtain ⟨post, hp⟩ := drop_leadWs s
  rw [← List.drop_drop, hp, List.drop_append_of_le_length (by omega),
    List.take_append_of_le_length (by simp only [List.length_drop]; omega)]

theorem extractStep_content (cls : Classes) (comment : Bytes) (st : Nat × List TagSpan)
    (part tail : Bytes) (hd : comment.drop st.1 = part ++ tail) :
    ∀ sp ∈ (extractStep cls st part).2, sp ∈ st.2 ∨ SpanContent cls comment sp := by
  have hpart := leadWs_trim_le part
  have hsl := slice_in_trim part
  generalize hres : extractStep cls st part = res
  simp only [extractStep] at hres
  generalize trimSpace part = trimmed at hres hpart hsl
  split at hres
  · subst hres; exact fun sp h => Or.inl h
  · rename_i colonIdx hci
    have hcl := indexOf_le _ _ _ hci
    have hcs := indexOf_spec _ _ _ hci
    simp only [List.length_singleton] at hcl hcs
    have hname : (List.take colonIdx trimmed).length = colonIdx := by
      simp only [List.length_take]; omega
    have hrest := leadWs_trim_le (List.drop (colonIdx + 1) trimmed)
    have hval := drop_take_trim (List.drop (colonIdx + 1) trimmed)
    simp only [List.length_drop] at hrest
    have htag : (comment.drop (st.1 + leadWs part)).take (colonIdx + 1)
        = List.take colonIdx trimmed ++ [colon] := by
      rw [slice_in_part comment part tail st.1 (leadWs part) (colonIdx + 1) hd (by omega)]
      have := hsl 0 (colonIdx + 1) (by omega)
      simp only [Nat.add_zero, List.drop_zero] at this
      rw [this, List.take_add, hcs]
    split at hres
    · subst hres; exact fun sp h => Or.inl h
    · rename_i hnm
      have hvalid : isValidTagName cls (List.take colonIdx trimmed) = true := by
        simp only [Bool.or_eq_true, Bool.not_eq_true', not_or, Bool.not_eq_false] at hnm
        exact hnm.2
      have hT : SpanContent cls comment (TagSpan.mk (st.1 + leadWs part)
          ((List.take colonIdx trimmed).length + 1) (u16lenB (List.take colonIdx trimmed) + 1) tyTag) := by
        refine Or.inl ⟨rfl, _, hvalid, rfl, rfl, ?_⟩
        simp only [hname]; exact htag
      split at hres
      · subst hres
        intro sp h
        rcases List.mem_append.mp h with h | h
        · exact Or.inl h
        · rw [List.mem_singleton] at h; subst h; exact Or.inr hT
      · rename_i hvne
        subst hres
        intro sp h
        rcases List.mem_append.mp h with h | h
        · rcases List.mem_append.mp h with h | h
          · exact Or.inl h
          · rw [List.mem_singleton] at h; subst h; exact Or.inr hT
        · rw [List.mem_singleton] at h; subst h
          refine Or.inr (Or.inr ⟨rfl, _, ?_, ⟨_, rfl⟩, rfl, rfl, ?_⟩)
          · intro e; apply hvne; simp [e]
          · simp only [hname]
            have e1 : st.1 + leadWs part + colonIdx + 1 + leadWs (List.drop (colonIdx + 1) trimmed)
                = st.1 + (leadWs part + (colonIdx + 1 + leadWs (List.drop (colonIdx + 1) trimmed))) := by omega
            rw [e1, slice_in_part comment part tail st.1 _ _ hd (by omega),
              hsl _ _ (by omega)]
            rw [List.drop_drop] at hval
            exact hval

theorem extractFold_content (cls : Classes) (comment : Bytes) (parts : List Bytes)
    (st : Nat × List TagSpan) (hne : parts ≠ []) (hd : comment.drop st.1 = joinParts comma parts) :
    ∀ sp ∈ (parts.foldl (extractStep cls) st).2, sp ∈ st.2 ∨ SpanContent cls comment sp := by
  induction parts generalizing st with
  | nil => exact absurd rfl hne
  | cons p rest ih =>
    obtain ⟨_, _, _, hnext, _⟩ := extractStep_spec cls st p
    cases rest with
    | nil =>
      simp only [List.foldl_cons, List.foldl_nil]
      exact extractStep_content cls comment st p [] (by simpa [joinParts] using hd)
    | cons q r =>
      have hd' : comment.drop st.1 = p ++ (comma :: joinParts comma (q :: r)) := by
        simpa [joinParts] using hd
      intro sp h
      have hnext' : comment.drop (extractStep cls st p).1 = joinParts comma (q :: r) := by
        rw [hnext, show st.1 + p.length + 1 = st.1 + (p.length + 1) by omega, ← List.drop_drop, hd']
        simp
      rcases ih (extractStep cls st p) (by simp) hnext' sp h with h | h
      · exact extractStep_content cls comment st p _ hd' sp h
      · exact Or.inr h

/-- Every tag token is cut out of the comment exactly around `name:` (a name the Go predicate
    `isValidTagName` accepts), every tag value token around a non-empty string. -/
theorem extractSpans_content (cls : Classes) (comment : Bytes) :
    ∀ sp ∈ extractSpans cls comment, SpanContent cls comment sp := by
  unfold extractSpans
  split
  · simp
  · intro sp h
    rcases extractFold_content cls comment _ (0, []) (splitOn_ne_nil _ _)
        (by simp [splitOn_join]) sp h with h | h
    · simp at h
    · exact h

end HL.Lemmas.SemTok
