/-
  Helper lemmas for C17, tokenizer part: what `tokenizeForSemantics` emits for one lexer token
  (a "block" of tokens inside the cells the lexer token claims), tag spans inside a comment,
  and how blocks of consecutive lexer tokens line up.
-/
import HL.Lemmas.SemTok

namespace HL.Lemmas.SemTok
open HL HL.SemTok HL.SemTokSpec

/-- The derived `BEq TokType` agrees with equality. -/
instance instLawfulBEqTokType : LawfulBEq TokType where
  eq_of_beq := by intro a b h; cases a <;> cases b <;> first | rfl | (exact absurd h (by decide))
  rfl := by intro a; cases a <;> rfl

/-! ### `strings.Index` -/

theorem indexOf_le (pat : Bytes) (s : Bytes) (i : Nat) (h : indexOf pat s = some i) :
    i + pat.length ≤ s.length := by
  induction s generalizing i with
  | nil =>
    simp only [indexOf] at h
    split at h
    · cases h; simp_all [List.isEmpty_iff]
    · cases h
  | cons b bs ih =>
    simp only [indexOf] at h
    split at h
    · rename_i hp
      cases h
      have := (List.isPrefixOf_iff_prefix.mp hp).length_le
      simpa using this
    · cases hi : indexOf pat bs with
      | none => simp [hi] at h
      | some j =>
        simp [hi] at h
        subst h
        have := ih j hi
        simp only [List.length_cons]; omega

/-! ### tag spans -/

/-- Spans in increasing order without overlap, all inside `[lo, hi]`. -/
def SpansFrom : Nat → List TagSpan → Nat → Prop
  | lo, [], hi => lo ≤ hi
  | lo, sp :: rest, hi => lo ≤ sp.off ∧ SpansFrom (sp.off + sp.len) rest hi

theorem spansFrom_le {lo hi : Nat} {l : List TagSpan} (h : SpansFrom lo l hi) : lo ≤ hi := by
  induction l generalizing lo with
  | nil => exact h
  | cons sp rest ih => have := ih h.2; have := h.1; omega

theorem spansFrom_append {lo mid hi : Nat} {l l' : List TagSpan}
    (h : SpansFrom lo l mid) (h' : SpansFrom mid l' hi) : SpansFrom lo (l ++ l') hi := by
  induction l generalizing lo with
  | nil =>
    cases l' with
    | nil => exact Nat.le_trans h h'
    | cons sp rest => exact ⟨Nat.le_trans h h'.1, h'.2⟩
  | cons sp rest ih => exact ⟨h.1, ih h.2⟩

theorem spansFrom_mono_lo {lo lo' hi : Nat} {l : List TagSpan} (hl : lo' ≤ lo)
    (h : SpansFrom lo l hi) : SpansFrom lo' l hi := by
  cases l with
  | nil => exact Nat.le_trans hl h
  | cons sp rest => exact ⟨Nat.le_trans hl h.1, h.2⟩

def isTagTy (sp : TagSpan) : Prop := sp.ty = tyTag ∨ sp.ty = tyTagValue

/-- One loop iteration appends spans that lie between the old and the new `searchStart`. -/
theorem extractStep_spec (cls : Classes) (comment : Bytes) (st : Nat × List TagSpan)
    (part : Bytes) (hst : st.1 ≤ comment.length) :
    ∃ new, (extractStep cls comment st part).2 = st.2 ++ new ∧
      SpansFrom st.1 new (extractStep cls comment st part).1 ∧
      (extractStep cls comment st part).1 ≤ comment.length ∧
      ∀ sp ∈ new, isTagTy sp := by
  have triv : ∃ new, st.2 = st.2 ++ new ∧ SpansFrom st.1 new st.1 ∧ st.1 ≤ comment.length ∧
      ∀ sp ∈ new, isTagTy sp := ⟨[], by simp, Nat.le_refl _, hst, by simp⟩
  generalize hres : extractStep cls comment st part = res
  simp only [extractStep] at hres
  generalize trimSpace part = trimmed at hres
  split at hres
  · subst hres; exact triv
  · rename_i colonIdx _
    generalize trimSpace (List.take colonIdx trimmed) = name at hres
    generalize (if colonIdx + 1 < trimmed.length then trimSpace (List.drop (colonIdx + 1) trimmed) else []) = value at hres
    split at hres
    · subst hres; exact triv
    · split at hres
      · subst hres; exact triv
      · rename_i ts hts
        have hlen := indexOf_le _ _ _ hts
        simp only [List.length_drop, List.length_append, List.length_singleton] at hlen
        have hEnd : ts + st.1 + name.length + 1 ≤ comment.length := by omega
        split at hres
        · subst hres
          refine ⟨[{ off := ts + st.1, len := name.length + 1, ty := tyTag }], rfl,
            ⟨by simp, by simp only [SpansFrom]; omega⟩, hEnd, ?_⟩
          intro sp hsp; simp at hsp; subst hsp; exact Or.inl rfl
        · split at hres
          · subst hres
            refine ⟨[{ off := ts + st.1, len := name.length + 1, ty := tyTag }], rfl,
              ⟨by simp, by simp only [SpansFrom]; omega⟩, hEnd, ?_⟩
            intro sp hsp; simp at hsp; subst hsp; exact Or.inl rfl
          · rename_i vs hvs
            have hlen2 := indexOf_le _ _ _ hvs
            simp only [List.length_drop] at hlen2
            subst hres
            refine ⟨[{ off := ts + st.1, len := name.length + 1, ty := tyTag },
                { off := ts + st.1 + name.length + 1 + vs, len := value.length, ty := tyTagValue }],
              by simp, ⟨by simp, ⟨by simp only; omega, by simp only [SpansFrom]; omega⟩⟩, by simp only; omega, ?_⟩
            intro sp hsp
            simp at hsp
            rcases hsp with rfl | rfl
            · exact Or.inl rfl
            · exact Or.inr rfl

theorem extractFold_spec (cls : Classes) (comment : Bytes) (parts : List Bytes)
    (st : Nat × List TagSpan) (hst : st.1 ≤ comment.length) :
    ∃ new, (parts.foldl (extractStep cls comment) st).2 = st.2 ++ new ∧
      SpansFrom st.1 new (parts.foldl (extractStep cls comment) st).1 ∧
      (parts.foldl (extractStep cls comment) st).1 ≤ comment.length ∧
      ∀ sp ∈ new, isTagTy sp := by
  induction parts generalizing st with
  | nil => exact ⟨[], by simp, Nat.le_refl _, hst, by simp⟩
  | cons p rest ih =>
    obtain ⟨n1, e1, s1, l1, t1⟩ := extractStep_spec cls comment st p hst
    obtain ⟨n2, e2, s2, l2, t2⟩ := ih (extractStep cls comment st p) l1
    refine ⟨n1 ++ n2, ?_, spansFrom_append s1 s2, l2, ?_⟩
    · simp only [List.foldl_cons, e2, e1, List.append_assoc]
    · intro sp hsp
      rcases List.mem_append.mp hsp with h | h
      · exact t1 sp h
      · exact t2 sp h

/-- The tag spans of a comment are ordered, disjoint and inside the comment text. -/
theorem extractSpans_spec (cls : Classes) (comment : Bytes) :
    ∃ hi, hi ≤ comment.length ∧ SpansFrom 0 (extractSpans cls comment) hi ∧
      ∀ sp ∈ extractSpans cls comment, isTagTy sp := by
  unfold extractSpans
  split
  · exact ⟨0, Nat.zero_le _, Nat.le_refl _, by simp⟩
  · obtain ⟨new, e, s, l, t⟩ := extractFold_spec cls comment (splitOn comma comment) (0, []) (Nat.zero_le _)
    simp only [List.nil_append] at e
    exact ⟨_, l, e ▸ s, e ▸ t⟩

/-! ### `uint32` conversions without wrap-around -/

theorem u32pred_toNat (n : Nat) (h1 : 1 ≤ n) (h2 : n < 2 ^ 32) : (u32pred n).toNat = n - 1 := by
  unfold u32pred
  have h : (1 : UInt32) ≤ UInt32.ofNat n := by
    rw [UInt32.le_iff_toNat_le]
    simp [UInt32.toNat_ofNat', Nat.mod_eq_of_lt h2]; exact h1
  rw [UInt32.toNat_sub_of_le _ _ h]
  simp [UInt32.toNat_ofNat', Nat.mod_eq_of_lt h2]

theorem u32_add_toNat (a b : UInt32) (h : a.toNat + b.toNat < 2 ^ 32) :
    (a + b).toNat = a.toNat + b.toNat := by
  rw [UInt32.toNat_add]; exact Nat.mod_eq_of_lt h

/-! ### blocks -/

/-- Tokens on line `L`, in order, without overlap, inside the cells `[lo, hi]`. -/
def Block (L : Nat) : Nat → Nat → List AbsTok → Prop
  | lo, hi, [] => lo ≤ hi
  | lo, hi, a :: rest => a.line = L ∧ lo ≤ a.start ∧ Block L (a.start + a.len) hi rest

theorem block_le {L lo hi : Nat} {l : List AbsTok} (h : Block L lo hi l) : lo ≤ hi := by
  induction l generalizing lo with
  | nil => exact h
  | cons a rest ih => have := ih h.2.2; have := h.2.1; omega

theorem block_mem {L lo hi : Nat} {l : List AbsTok} (h : Block L lo hi l) :
    ∀ a ∈ l, a.line = L ∧ lo ≤ a.start ∧ a.start + a.len ≤ hi := by
  induction l generalizing lo with
  | nil => intro a ha; cases ha
  | cons b rest ih =>
    intro a ha
    rcases List.mem_cons.mp ha with rfl | ha
    · exact ⟨h.1, h.2.1, block_le h.2.2⟩
    · have := ih h.2.2 a ha
      exact ⟨this.1, by have := h.2.1; omega, this.2.2⟩

/-- What follows lies after cell `p` of line `L`. -/
def After (L p : Nat) : List AbsTok → Prop
  | [] => True
  | b :: _ => L < b.line ∨ (L = b.line ∧ p ≤ b.start)

theorem after_mono {L L' p p' : Nat} {l : List AbsTok} (h : After L' p' l)
    (hle : L < L' ∨ (L = L' ∧ p ≤ p')) : After L p l := by
  cases l with
  | nil => trivial
  | cons b rest => simp only [After] at *; omega

theorem block_append_ordered {L lo hi : Nat} {l l2 : List AbsTok} (h : Block L lo hi l)
    (ha : After L hi l2) (ho : orderedDisjoint l2 = true) : orderedDisjoint (l ++ l2) = true := by
  induction l generalizing lo with
  | nil => simpa using ho
  | cons a rest ih =>
    have hrest := ih h.2.2
    cases hr : rest with
    | nil =>
      subst hr
      cases l2 with
      | nil => simp [orderedDisjoint]
      | cons b r2 =>
        simp only [List.cons_append, List.nil_append, orderedDisjoint, Bool.and_eq_true,
          Bool.or_eq_true, decide_eq_true_eq, beq_iff_eq]
        refine ⟨?_, ho⟩
        have hb := block_le h.2.2
        simp only [After] at ha
        have := h.1
        omega
    | cons b r =>
      subst hr
      simp only [List.cons_append, orderedDisjoint, Bool.and_eq_true, Bool.or_eq_true,
        decide_eq_true_eq, beq_iff_eq]
      refine ⟨?_, by simpa using hrest⟩
      have := h.1; have := h.2.2.1; have := h.2.2.2.1
      omega

theorem after_block_append {L lo hi L0 p0 : Nat} {l l2 : List AbsTok} (h : Block L lo hi l)
    (h0 : L0 < L ∨ (L0 = L ∧ p0 ≤ lo)) (ha : After L hi l2) : After L0 p0 (l ++ l2) := by
  cases l with
  | nil =>
    simp only [List.nil_append]
    have : lo ≤ hi := h
    exact after_mono ha (by omega)
  | cons a rest =>
    simp only [List.cons_append, After]
    have := h.1; have := h.2.1
    omega

end HL.Lemmas.SemTok

namespace HL.Lemmas.SemTok
open HL HL.SemTok HL.SemTokSpec

/-! ### what one lexer token contributes -/

theorem block_mono {L lo lo' hi hi' : Nat} {l : List AbsTok} (h : Block L lo hi l)
    (h1 : lo' ≤ lo) (h2 : hi ≤ hi') : Block L lo' hi' l := by
  induction l generalizing lo lo' with
  | nil => simp only [Block] at *; omega
  | cons a rest ih => exact ⟨h.1, by have := h.2.1; omega, ih h.2.2 (Nat.le_refl _)⟩

theorem u32_toNat (n : Nat) (h : n < 2 ^ 32) : (u32 n).toNat = n := u32_toNat_of_lt n h

theorem spans_block (L : Nat) (bl bc : UInt32) (hL : bl.toNat = L) (spans : List TagSpan)
    (lo hi : Nat) (h : SpansFrom lo spans hi) (hb : bc.toNat + 1 + hi < 2 ^ 32) :
    Block L (bc.toNat + 1 + lo) (bc.toNat + 1 + hi) (spans.map (fun sp => absOf (tagToken bl bc sp))) := by
  induction spans generalizing lo with
  | nil => simp only [List.map_nil, Block]; have : lo ≤ hi := h; omega
  | cons sp rest ih =>
    have hle := spansFrom_le h.2
    have h1 : (u32 sp.off).toNat = sp.off := u32_toNat _ (by omega)
    have h2 : (u32 sp.len).toNat = sp.len := u32_toNat _ (by omega)
    have h3 : (bc + 1).toNat = bc.toNat + 1 := by
      rw [u32_add_toNat] <;> simp <;> omega
    have h4 : (bc + 1 + u32 sp.off).toNat = bc.toNat + 1 + sp.off := by
      rw [u32_add_toNat] <;> rw [h3, h1] ; omega
    simp only [List.map_cons, Block]
    refine ⟨by simp [absOf, tagToken, hL], by simp only [absOf, tagToken, h4]; have := h.1; omega, ?_⟩
    have := ih (sp.off + sp.len) h.2
    simpa [absOf, tagToken, h4, h2, Nat.add_assoc] using this

theorem stepTok_block (cls : Classes) (c : Ctx) (t : Token) (hb : tokBounds cls t = true) :
    Block (t.pos.line - 1) (t.pos.col - 1) (t.pos.col - 1 + claimWidth cls t)
      ((stepTok cls c t).2.map absOf) := by
  simp only [tokBounds, Bool.and_eq_true, decide_eq_true_eq] at hb
  obtain ⟨⟨⟨hl1, hl2⟩, hc1⟩, hw⟩ := hb
  have hline : (u32pred t.pos.line).toNat = t.pos.line - 1 := u32pred_toNat _ hl1 hl2
  have hcol : (u32pred t.pos.col).toNat = t.pos.col - 1 := u32pred_toNat _ hc1 (by omega)
  generalize hres : stepTok cls c t = res
  simp only [stepTok] at hres
  cases hm : mapTokenType t.ty with
  | none =>
    simp only [hm] at hres
    subst hres
    simp [Block]
  | some semType =>
    simp only [hm] at hres
    have hcw : claimWidth cls t = if t.ty == .comment then
        (if (extractSpans cls t.val).isEmpty then u16lenB t.val + 1 else t.val.length + 1)
        else u16lenB t.val := by simp [claimWidth, hm]
    by_cases hcm : t.ty = .comment
    · have hc' : (t.ty == TokType.comment) = true := by simp [hcm]
      simp only [hc', if_true] at hres hcw
      by_cases hsp : (extractSpans cls t.val).isEmpty = true
      · -- a comment without tags: one token
        have htags : (extractTags cls t).isEmpty = true := by
          simp [extractTags, List.isEmpty_iff] at hsp ⊢; exact hsp
        simp only [htags, Bool.not_true, Bool.false_eq_true, if_false] at hres
        simp only [hsp, if_true] at hcw
        subst hres
        have hlen : (u32 (u16lenB t.val) + 1).toNat = u16lenB t.val + 1 := by
          rw [u32_add_toNat] <;> rw [u32_toNat _ (by omega)] <;> simp <;> omega
        simp only [List.map_cons, List.map_nil, Block, absOf, plainToken, hc', if_true, hline, hcol,
          hlen, hcw]
        exact ⟨trivial, Nat.le_refl _, Nat.le_refl _⟩
      · have htags : (extractTags cls t).isEmpty = false := by
          simp [extractTags, List.isEmpty_iff] at hsp ⊢; exact hsp
        simp only [htags, Bool.not_false, if_true] at hres
        simp only [hsp, Bool.false_eq_true, if_false] at hcw
        subst hres
        obtain ⟨hi, hhi, hs, _⟩ := extractSpans_spec cls t.val
        have := spans_block (t.pos.line - 1) (u32pred t.pos.line) (u32pred t.pos.col) hline
          (extractSpans cls t.val) 0 hi hs (by rw [hcol]; omega)
        simp only [extractTags, List.map_map]
        rw [hcol] at this
        exact block_mono this (by omega) (by omega)
    · have hc' : (t.ty == TokType.comment) = false := by simp [hcm]
      simp only [hc', Bool.false_eq_true, if_false, List.isEmpty_nil, Bool.not_true] at hres hcw
      subst hres
      have hlen : (u32 (u16lenB t.val)).toNat = u16lenB t.val := u32_toNat _ (by omega)
      simp only [List.map_cons, List.map_nil, Block, absOf, plainToken, hc', Bool.false_eq_true,
        if_false, hline, hcol, hlen, hcw]
      exact ⟨trivial, Nat.le_refl _, Nat.le_refl _⟩

/-! ### all tokens -/

/-- Position bound for the first mapped lexer token. -/
def Bound (L p : Nat) : List Token → Prop
  | [] => True
  | t :: _ => L < t.pos.line - 1 ∨ (L = t.pos.line - 1 ∧ p ≤ t.pos.col - 1)

theorem stepTok_unmapped (cls : Classes) (c : Ctx) (t : Token) (h : mapTokenType t.ty = none) :
    (stepTok cls c t).2 = [] := by simp [stepTok, h]

theorem tokGo_ordered (cls : Classes) (c : Ctx) (toks : List Token) (L p : Nat)
    (hall : (mappedBody toks).all (tokBounds cls) = true) (hch : chainB cls (mappedBody toks) = true)
    (hb : Bound L p (mappedBody toks)) :
    orderedDisjoint ((tokGo cls c toks).map absOf) = true ∧ After L p ((tokGo cls c toks).map absOf) := by
  induction toks generalizing c L p with
  | nil => simp [tokGo, orderedDisjoint, After]
  | cons t rest ih =>
    simp only [tokGo]
    by_cases he : t.ty = .eof
    · simp [he, orderedDisjoint, After]
    · have he' : (t.ty == TokType.eof) = false := by simp [he]
      simp only [he', Bool.false_eq_true, if_false, List.map_append]
      cases hm : mapTokenType t.ty with
      | none =>
        have hmb : mappedBody (t :: rest) = mappedBody rest := by simp [mappedBody, he', hm]
        rw [hmb] at hall hch hb
        rw [stepTok_unmapped cls c t hm]
        simpa using ih (stepTok cls c t).1 L p hall hch hb
      | some ty =>
        have hmb : mappedBody (t :: rest) = t :: mappedBody rest := by simp [mappedBody, he', hm]
        rw [hmb] at hall hch hb
        simp only [List.all_cons, Bool.and_eq_true] at hall
        obtain ⟨htb, hall'⟩ := hall
        have hblk := stepTok_block cls c t htb
        have hch' : chainB cls (mappedBody rest) = true := by
          cases hr : mappedBody rest with
          | nil => simp [chainB]
          | cons t' r => rw [hr] at hch; simp only [chainB, Bool.and_eq_true] at hch; exact hch.2
        have hbound : Bound (t.pos.line - 1) (t.pos.col - 1 + claimWidth cls t) (mappedBody rest) := by
          cases hr : mappedBody rest with
          | nil => trivial
          | cons t' r =>
            rw [hr] at hch
            simp only [chainB, Bool.and_eq_true] at hch
            have h := hch.1
            simp only [Bound]
            simp only [boxLe, Bool.or_eq_true, decide_eq_true_eq, Bool.and_eq_true, beq_iff_eq] at h
            simp only [tokBounds, Bool.and_eq_true, decide_eq_true_eq] at htb
            omega
        obtain ⟨ho, ha⟩ := ih (stepTok cls c t).1 _ _ hall' hch' hbound
        refine ⟨block_append_ordered hblk ha ho, ?_⟩
        refine after_block_append hblk ?_ ha
        simpa [Bound] using hb

theorem tokGo_inline (cls : Classes) (lens : List Nat) (c : Ctx) (toks : List Token)
    (hall : (mappedBody toks).all (tokBounds cls) = true) (hi : inlineB lens cls toks = true) :
    ∀ a ∈ (tokGo cls c toks).map absOf, inLine lens a = true := by
  induction toks generalizing c with
  | nil => simp [tokGo]
  | cons t rest ih =>
    simp only [tokGo]
    by_cases he : t.ty = .eof
    · simp [he]
    · have he' : (t.ty == TokType.eof) = false := by simp [he]
      simp only [he', Bool.false_eq_true, if_false, List.map_append]
      cases hm : mapTokenType t.ty with
      | none =>
        have hmb : mappedBody (t :: rest) = mappedBody rest := by simp [mappedBody, he', hm]
        simp only [inlineB, hmb] at hi
        rw [hmb] at hall
        rw [stepTok_unmapped cls c t hm]
        simpa using ih (stepTok cls c t).1 hall (by simpa [inlineB] using hi)
      | some ty =>
        have hmb : mappedBody (t :: rest) = t :: mappedBody rest := by simp [mappedBody, he', hm]
        simp only [inlineB, hmb, List.all_cons, Bool.and_eq_true] at hi
        rw [hmb] at hall
        simp only [List.all_cons, Bool.and_eq_true] at hall
        obtain ⟨htb, hall'⟩ := hall
        obtain ⟨hin, hirest⟩ := hi
        intro a ha
        rcases List.mem_append.mp ha with ha | ha
        · have hblk := stepTok_block cls c t htb
          have hmem := block_mem hblk a ha
          simp only [inLine, hmem.1]
          split at hin
          · simp only [decide_eq_true_eq] at hin ⊢
            omega
          · cases hin
        · exact ih _ hall' (by simpa [inlineB] using hirest) a ha

/-! ### legend and coverage -/

theorem mapTokenType_lt (k : TokType) (x : UInt32) (h : mapTokenType k = some x) : x.toNat < 13 := by
  cases k <;> simp [mapTokenType] at h <;> subst h <;> decide

theorem mapTokenType_kind (k : TokType) (x : UInt32) (h : mapTokenType k = some x) :
    (kindTypes k).contains x.toNat = true := by
  cases k <;> simp [mapTokenType] at h <;> subst h <;> decide

/-- The shape of everything `stepTok` emits. -/
theorem stepTok_mem (cls : Classes) (c : Ctx) (t : Token) (s : SemToken)
    (h : s ∈ (stepTok cls c t).2) :
    (t.ty = .comment ∧ s ∈ extractTags cls t ∧ (extractTags cls t).isEmpty = false) ∨
    (∃ semType mods, (mapTokenType t.ty = some semType ∨ (t.ty = .text ∧ semType = tyPayee)) ∧
      (mods = 0 ∨ mods = 1) ∧ s = plainToken t semType mods ∧
      (t.ty = .comment → (extractTags cls t).isEmpty = true)) := by
  generalize hres : stepTok cls c t = res at h
  simp only [stepTok] at hres
  cases hm : mapTokenType t.ty with
  | none => simp only [hm] at hres; subst hres; simp at h
  | some semType =>
    simp only [hm] at hres
    by_cases hcm : t.ty = .comment
    · have hc' : (t.ty == TokType.comment) = true := by simp [hcm]
      simp only [hc', if_true] at hres
      by_cases hsp : (extractTags cls t).isEmpty = true
      · simp only [hsp, Bool.not_true, Bool.false_eq_true, if_false] at hres
        subst hres
        simp only [List.mem_singleton] at h
        right
        refine ⟨_, _, ?_, ?_, h, fun _ => hsp⟩
        · left; simp [hcm]
        · split <;> simp
      · have hsp' : (extractTags cls t).isEmpty = false := by simpa using hsp
        simp only [hsp', Bool.not_false, if_true] at hres
        subst hres
        exact Or.inl ⟨hcm, h, hsp'⟩
    · have hc' : (t.ty == TokType.comment) = false := by simp [hcm]
      simp only [hc', Bool.false_eq_true, if_false, List.isEmpty_nil, Bool.not_true] at hres
      subst hres
      simp only [List.mem_singleton] at h
      right
      refine ⟨_, _, ?_, ?_, h, fun hh => absurd hh hcm⟩
      · by_cases hp : (t.ty == TokType.text && (lineStart c t).isPayee) = true
        · rw [if_pos hp]
          right
          simp only [Bool.and_eq_true, beq_iff_eq] at hp
          exact ⟨hp.1, rfl⟩
        · rw [if_neg hp]; exact Or.inl rfl
      · split <;> simp

theorem extractTags_mem (cls : Classes) (t : Token) (s : SemToken) (h : s ∈ extractTags cls t) :
    (s.ty = tyTag ∨ s.ty = tyTagValue) ∧ s.mods = 0 := by
  simp only [extractTags, List.mem_map] at h
  obtain ⟨sp, hsp, rfl⟩ := h
  obtain ⟨_, _, _, ht⟩ := extractSpans_spec cls t.val
  exact ⟨ht sp hsp, rfl⟩

theorem stepTok_legend (cls : Classes) (c : Ctx) (t : Token) (s : SemToken)
    (h : s ∈ (stepTok cls c t).2) : s.ty.toNat < 13 ∧ s.mods.toNat < 4 := by
  rcases stepTok_mem cls c t s h with ⟨_, hmem, _⟩ | ⟨semType, mods, hty, hmods, rfl, _⟩
  · obtain ⟨hty, hm⟩ := extractTags_mem cls t s hmem
    rw [hm]
    rcases hty with h | h <;> rw [h] <;> decide
  · simp only [plainToken]
    refine ⟨?_, ?_⟩
    · rcases hty with h | ⟨_, h⟩
      · exact mapTokenType_lt _ _ h
      · subst h; decide
    · rcases hmods with h | h <;> subst h <;> decide

theorem tokGo_legend (cls : Classes) (c : Ctx) (toks : List Token) :
    ∀ s ∈ tokGo cls c toks, s.ty.toNat < 13 ∧ s.mods.toNat < 4 := by
  induction toks generalizing c with
  | nil => simp [tokGo]
  | cons t rest ih =>
    simp only [tokGo]
    split
    · simp
    · intro s hs
      rcases List.mem_append.mp hs with h | h
      · exact stepTok_legend cls c t s h
      · exact ih _ s h

theorem tokGoSrc_fst (cls : Classes) (c : Ctx) (toks : List Token) :
    (tokGoSrc cls c toks).map (·.1) = tokGo cls c toks := by
  induction toks generalizing c with
  | nil => rfl
  | cons t rest ih =>
    simp only [tokGoSrc, tokGo]
    split
    · rfl
    · simp [ih, List.map_map, Function.comp_def]

theorem tokGoSrc_mem (cls : Classes) (c : Ctx) (toks : List Token) (s : SemToken) (t : Token)
    (h : (s, t) ∈ tokGoSrc cls c toks) : ∃ c', s ∈ (stepTok cls c' t).2 ∧ t ∈ toks ∧ t.ty ≠ .eof := by
  induction toks generalizing c with
  | nil => simp [tokGoSrc] at h
  | cons t0 rest ih =>
    simp only [tokGoSrc] at h
    split at h
    · simp at h
    · rename_i he
      rcases List.mem_append.mp h with h | h
      · simp only [List.mem_map, Prod.mk.injEq] at h
        obtain ⟨s', hs', rfl, rfl⟩ := h
        exact ⟨c, hs', List.mem_cons_self, by simpa using he⟩
      · obtain ⟨c', h1, h2, h3⟩ := ih _ h
        exact ⟨c', h1, List.mem_cons_of_mem _ h2, h3⟩

/-- A plain token (not cut out of a comment) covers its lexeme whenever the lexer's position and
    value are faithful to the text. -/
theorem plain_covers (text : Bytes) (t : Token) (semType mods : UInt32)
    (hty : mapTokenType t.ty = some semType ∨ (t.ty = .text ∧ semType = tyPayee))
    (hf : faithful text t = true)
    (hb : 1 ≤ t.pos.line ∧ t.pos.line < 2 ^ 32 ∧ 1 ≤ t.pos.col ∧ t.pos.col + u16lenB t.val + 1 < 2 ^ 32) :
    coversTok text t (absOf (plainToken t semType mods)) = true := by
  obtain ⟨hl1, hl2, hc1, hw⟩ := hb
  have hline : (u32pred t.pos.line).toNat = t.pos.line - 1 := u32pred_toNat _ hl1 hl2
  have hcol : (u32pred t.pos.col).toNat = t.pos.col - 1 := u32pred_toNat _ hc1 (by omega)
  have hlen : (plainToken t semType mods).len.toNat
      = u16lenB t.val + (if t.ty == .comment then 1 else 0) := by
    simp only [plainToken]
    split
    · rw [u32_add_toNat] <;> rw [u32_toNat _ (by omega)] <;> simp <;> omega
    · simp [u32_toNat _ (show u16lenB t.val < 2 ^ 32 by omega)]
  simp only [faithful, Bool.and_eq_true, decide_eq_true_eq, beq_iff_eq] at hf
  have hkind : (kindTypes t.ty).contains semType.toNat = true := by
    rcases hty with h | ⟨h1, h2⟩
    · exact mapTokenType_kind _ _ h
    · rw [h1, h2]; decide
  have hline' : (plainToken t semType mods).line.toNat = t.pos.line - 1 := by simp [plainToken, hline]
  have hcol' : (plainToken t semType mods).col.toNat = t.pos.col - 1 := by simp [plainToken, hcol]
  have hty' : (plainToken t semType mods).ty = semType := by simp [plainToken]
  have hlen' : (plainToken t semType mods).len.toNat
      = u16lenB t.val + (if t.ty = .comment then 1 else 0) := by
    rw [hlen]; by_cases h : t.ty = .comment <;> simp [h]
  have h1 : decide ((absOf (plainToken t semType mods)).len > 0) = true := by
    simp only [absOf, hlen', decide_eq_true_eq]; exact hf.1
  have h2 : (kindTypes t.ty).contains (absOf (plainToken t semType mods)).ty = true := by
    simp only [absOf, hty']; exact hkind
  have h3 : (lexemeSpan text t == ((absOf (plainToken t semType mods)).line,
      (absOf (plainToken t semType mods)).start, (absOf (plainToken t semType mods)).len)) = true := by
    simp only [absOf, hline', hcol', hlen', hf.2, beq_self_eq_true]
  simp only [coversTok, h1, h2, h3, Bool.and_self]

end HL.Lemmas.SemTok

namespace HL.Lemmas.SemTok
open HL HL.SemTok HL.SemTokSpec

/-! ### what the tag spans contain -/

theorem orderedDisjoint_weakly (l : List AbsTok) (h : orderedDisjoint l = true) :
    weaklyOrdered l = true := by
  induction l with
  | nil => rfl
  | cons a rest ih =>
    cases rest with
    | nil => rfl
    | cons b r =>
      simp only [orderedDisjoint, weaklyOrdered, Bool.and_eq_true, Bool.or_eq_true,
        decide_eq_true_eq, beq_iff_eq] at h ⊢
      refine ⟨?_, ih h.2⟩
      rcases h.1 with h1 | ⟨h1, h2⟩
      · exact Or.inl h1
      · exact Or.inr ⟨h1, by omega⟩

theorem indexOf_spec (pat s : Bytes) (i : Nat) (h : indexOf pat s = some i) :
    (s.drop i).take pat.length = pat := by
  induction s generalizing i with
  | nil =>
    simp only [indexOf] at h
    split at h
    · cases h; simp_all [List.isEmpty_iff]
    · cases h
  | cons b bs ih =>
    simp only [indexOf] at h
    split at h
    · rename_i hp
      cases h
      obtain ⟨r, hr⟩ := List.isPrefixOf_iff_prefix.mp hp
      rw [List.drop_zero, ← hr]; simp
    · cases hi : indexOf pat bs with
      | none => simp [hi] at h
      | some j =>
        simp [hi] at h
        subst h
        simpa using ih j hi

/-- What a span found by `extractTagTokensFromComment` holds: a tag span is `name:` for a name
    that `isValidTagName` accepts; a value span is not empty. -/
def SpanContent (cls : Classes) (comment : Bytes) (sp : TagSpan) : Prop :=
  (sp.ty = tyTag ∧ ∃ name, isValidTagName cls name = true ∧ sp.len = name.length + 1 ∧
      (comment.drop sp.off).take sp.len = name ++ [colon]) ∨
  (sp.ty = tyTagValue ∧ 0 < sp.len)

theorem extractStep_content (cls : Classes) (comment : Bytes) (st : Nat × List TagSpan)
    (part : Bytes) :
    ∀ sp ∈ (extractStep cls comment st part).2, sp ∈ st.2 ∨ SpanContent cls comment sp := by
  generalize hres : extractStep cls comment st part = res
  simp only [extractStep] at hres
  generalize trimSpace part = trimmed at hres
  split at hres
  · subst hres; exact fun sp h => Or.inl h
  · rename_i colonIdx _
    generalize trimSpace (List.take colonIdx trimmed) = name at hres
    generalize (if colonIdx + 1 < trimmed.length then trimSpace (List.drop (colonIdx + 1) trimmed) else []) = value at hres
    split at hres
    · subst hres; exact fun sp h => Or.inl h
    · rename_i hname
      split at hres
      · subst hres; exact fun sp h => Or.inl h
      · rename_i ts hts
        have hvalid : isValidTagName cls name = true := by
          simp only [Bool.or_eq_true, Bool.not_eq_true', not_or, Bool.not_eq_false] at hname
          exact hname.2
        have hspec := indexOf_spec _ _ _ hts
        simp only [List.drop_drop, List.length_append, List.length_singleton] at hspec
        have htag : SpanContent cls comment { off := ts + st.1, len := name.length + 1, ty := tyTag } := by
          refine Or.inl ⟨rfl, name, hvalid, rfl, ?_⟩
          have e : st.1 + ts = ts + st.1 := Nat.add_comm _ _
          first
            | exact hspec
            | (rw [e] at hspec; exact hspec)
        split at hres
        · subst hres
          intro sp h
          rcases List.mem_append.mp h with h | h
          · exact Or.inl h
          · simp at h; subst h; exact Or.inr htag
        · rename_i hval
          have hvpos : 0 < value.length := by
            cases value with
            | nil => simp at hval
            | cons _ _ => simp
          split at hres
          · subst hres
            intro sp h
            rcases List.mem_append.mp h with h | h
            · exact Or.inl h
            · simp at h; subst h; exact Or.inr htag
          · subst hres
            intro sp h
            rcases List.mem_append.mp h with h | h
            · rcases List.mem_append.mp h with h | h
              · exact Or.inl h
              · simp at h; subst h; exact Or.inr htag
            · simp at h; subst h; exact Or.inr (Or.inr ⟨rfl, hvpos⟩)

theorem extractFold_content (cls : Classes) (comment : Bytes) (parts : List Bytes)
    (st : Nat × List TagSpan) :
    ∀ sp ∈ (parts.foldl (extractStep cls comment) st).2, sp ∈ st.2 ∨ SpanContent cls comment sp := by
  induction parts generalizing st with
  | nil => exact fun sp h => Or.inl h
  | cons p rest ih =>
    intro sp h
    rcases ih (extractStep cls comment st p) sp h with h | h
    · exact extractStep_content cls comment st p sp h
    · exact Or.inr h

/-- Every tag token is cut out of the comment exactly around `name:` (a name the Go predicate
    `isValidTagName` accepts), every tag value token around a non-empty string. -/
theorem extractSpans_content (cls : Classes) (comment : Bytes) :
    ∀ sp ∈ extractSpans cls comment, SpanContent cls comment sp := by
  unfold extractSpans
  split
  · simp
  · intro sp h
    rcases extractFold_content cls comment _ (0, []) sp h with h | h
    · simp at h
    · exact h

end HL.Lemmas.SemTok
