/-
  Reachability: the queue loop of `computeReachableLocked` (`bfsF`) computes exactly the
  nodes reachable along the graph's edges, given the fuel `bfsFuel` (termination: the
  potential `queue length + Σ (out-degree + 1) over unvisited nodes` strictly decreases).
-/
import HL.Lemmas.AList
import HL.Spec.Rebuild
import HL.Model.Workspace
namespace HL.Lemmas.ReachIdx
open HL.Index HL.Workspace HL.Lemmas.AList HL.Spec.Rebuild

/-- successor function of an association-list graph -/
def succG (g : AList (List String)) (p : String) : List String := g.getD p []

theorem reachS_mono {s₁ s₂ : String → List String} {root x : String}
    (h : ReachS s₁ root x) (hs : ∀ p, ReachS s₁ root p → ∀ q, q ∈ s₁ p → q ∈ s₂ p) :
    ReachS s₂ root x := by
  induction h with
  | base => exact .base
  | step hp hq ih => exact .step ih (hs _ hp _ hq)

theorem reachS_congr {s₁ s₂ : String → List String} {root x : String}
    (h : ReachS s₁ root x) (hs : ∀ p, s₁ p = s₂ p) : ReachS s₂ root x :=
  reachS_mono h (fun p _ q hq => hs p ▸ hq)

theorem reachS_trans {s : String → List String} {a b c : String}
    (h₁ : ReachS s a b) (h₂ : ReachS s b c) : ReachS s a c := by
  induction h₂ with
  | base => exact h₁
  | step _ hq ih => exact .step ih hq

/-! ### soundness of the search -/

theorem bfsF_sound (g : AList (List String)) (root : String) :
    ∀ (n : Nat) (q r : List String),
      (∀ x ∈ q, ReachS (succG g) root x) → (∀ x ∈ r, ReachS (succG g) root x) →
      ∀ x ∈ bfsF g n q r, ReachS (succG g) root x := by
  intro n
  induction n with
  | zero => intro q r _ hr x hx; exact hr x (by simpa [bfsF] using hx)
  | succ n ih =>
    intro q r hq hr x hx
    cases q with
    | nil => exact hr x (by simpa [bfsF] using hx)
    | cons p q =>
      unfold bfsF at hx
      by_cases hp : p ∈ r
      · simp only [hp, if_true] at hx
        exact ih q r (fun y hy => hq y (List.mem_cons_of_mem _ hy)) hr x hx
      · simp only [hp, if_false] at hx
        have hpr : ReachS (succG g) root p := hq p List.mem_cons_self
        refine ih _ _ ?_ ?_ x hx
        · intro y hy
          rcases List.mem_append.mp hy with hy | hy
          · exact hq y (List.mem_cons_of_mem _ hy)
          · exact .step hpr (List.mem_filter.mp hy).1
        · intro y hy
          rcases List.mem_append.mp hy with hy | hy
          · exact hr y hy
          · simp only [List.mem_singleton] at hy; exact hy ▸ hpr

/-! ### completeness, with the fuel bound -/

/-- out-degrees (+1) of the nodes not yet visited -/
def rest (g : AList (List String)) (r : List String) : Nat :=
  ((g.filter fun e => e.1 ∉ r).map fun e => e.2.length + 1).sum

theorem rest_cons (k : String) (l : List String) (g : AList (List String)) (r : List String) :
    rest ((k, l) :: g) r = (if k ∈ r then 0 else l.length + 1) + rest g r := by
  unfold rest
  by_cases h : k ∈ r <;> simp [List.filter_cons, h]

theorem rest_visit (g : AList (List String)) (r : List String) (p : String) (hp : p ∉ r) :
    rest g (r ++ [p]) + (AList.getD g p []).length ≤ rest g r := by
  induction g with
  | nil => simp [rest, AList.getD]
  | cons e g ih =>
    obtain ⟨k, l⟩ := e
    rw [rest_cons, rest_cons]
    by_cases hk : k = p
    · subst hk
      have e1 : AList.getD ((k, l) :: g) k [] = l := by simp [AList.getD, get_cons]
      rw [e1]
      have hm : k ∈ r ++ [k] := by simp
      simp only [hm, if_true]
      simp only [hp, if_false]; omega
    · have e1 : AList.getD ((k, l) :: g) p [] = AList.getD g p [] := by
        simp [AList.getD, get_cons, hk]
      rw [e1]
      by_cases hr : k ∈ r
      · have hm : k ∈ r ++ [p] := List.mem_append_left _ hr
        simp only [hr, hm, if_true]; omega
      · have hm : k ∉ r ++ [p] := by simp [hr, hk]
        simp only [hr, hm, if_false]; omega

/-- every edge out of a visited node leads to a visited or queued node -/
def Closed (g : AList (List String)) (r q : List String) : Prop :=
  ∀ u ∈ r, ∀ v ∈ succG g u, v ∈ r ∨ v ∈ q

theorem bfsF_complete (g : AList (List String)) :
    ∀ (n : Nat) (q r : List String), q.length + rest g r < n → Closed g r q →
      (∀ x ∈ r, x ∈ bfsF g n q r) ∧ (∀ x ∈ q, x ∈ bfsF g n q r) ∧ Closed g (bfsF g n q r) [] := by
  intro n
  induction n with
  | zero => intro q r h; omega
  | succ n ih =>
    intro q r hfuel hcl
    cases q with
    | nil =>
      simp only [bfsF]
      exact ⟨fun x hx => hx, fun x hx => by simp at hx, hcl⟩
    | cons p q =>
      unfold bfsF
      by_cases hp : p ∈ r
      · simp only [hp, if_true]
        have hcl' : Closed g r q := by
          intro u hu v hv
          rcases hcl u hu v hv with h | h
          · exact Or.inl h
          · rcases List.mem_cons.mp h with h | h
            · exact Or.inl (h ▸ hp)
            · exact Or.inr h
        obtain ⟨h1, h2, h3⟩ := ih q r (by simp only [List.length_cons] at hfuel; omega) hcl'
        refine ⟨h1, ?_, h3⟩
        intro x hx
        rcases List.mem_cons.mp hx with hx | hx
        · exact hx ▸ h1 p hp
        · exact h2 x hx
      · simp only [hp, if_false]
        have hcl' : Closed g (r ++ [p]) (q ++ (g.getD p []).filter fun inc => inc ∉ p :: r) := by
          intro u hu v hv
          rcases List.mem_append.mp hu with hu | hu
          · rcases hcl u hu v hv with h | h
            · exact Or.inl (List.mem_append_left _ h)
            · rcases List.mem_cons.mp h with h | h
              · exact Or.inl (List.mem_append_right _ (by simp [h]))
              · exact Or.inr (List.mem_append_left _ h)
          · simp only [List.mem_singleton] at hu
            subst hu
            by_cases hv2 : v ∈ u :: r
            · rcases List.mem_cons.mp hv2 with h | h
              · exact Or.inl (List.mem_append_right _ (by simp [h]))
              · exact Or.inl (List.mem_append_left _ h)
            · exact Or.inr (List.mem_append_right _ (List.mem_filter.mpr ⟨hv, by simpa using hv2⟩))
        have hlen : ((g.getD p []).filter fun inc => inc ∉ p :: r).length ≤ (g.getD p []).length :=
          List.length_filter_le _ _
        have hrest := rest_visit g r p hp
        obtain ⟨h1, h2, h3⟩ := ih _ _ (by
          simp only [List.length_cons, List.length_append] at hfuel ⊢; omega) hcl'
        refine ⟨fun x hx => h1 x (List.mem_append_left _ hx), ?_, h3⟩
        intro x hx
        rcases List.mem_cons.mp hx with hx | hx
        · exact hx ▸ h1 p (List.mem_append_right _ (by simp))
        · exact h2 x (List.mem_append_left _ hx)

theorem rest_nil (g : AList (List String)) : rest g [] + 2 = bfsFuel g := by
  have : (g.filter fun e => e.1 ∉ ([] : List String)) = g := by
    rw [List.filter_eq_self]; intro a _; simp
  unfold rest bfsFuel
  rw [this]

/-- `computeReachableLocked` returns exactly the reachable nodes. -/
theorem mem_bfs_iff (g : AList (List String)) (root x : String) :
    x ∈ bfsF g (bfsFuel g) [root] [] ↔ ReachS (succG g) root x := by
  constructor
  · intro hx
    exact bfsF_sound g root _ [root] [] (fun y hy => by simp at hy; exact hy ▸ .base)
      (fun y hy => by simp at hy) x hx
  · intro hx
    obtain ⟨_, h2, h3⟩ := bfsF_complete g (bfsFuel g) [root] []
      (by have := rest_nil g; simp only [List.length_cons, List.length_nil]; omega)
      (fun u hu => by simp at hu)
    induction hx with
    | base => exact h2 root (by simp)
    | step _ hq ih =>
      rcases h3 _ ih _ hq with h | h
      · exact h
      · simp at h

/-! ### the specification's `reach` -/

theorem getD_graphOf (fs : FS) (p : String) : (graphOf fs).getD p [] = succs fs p := by
  induction fs with
  | nil => simp [graphOf, AList.getD, succs]
  | cons e r ih =>
    obtain ⟨k, c⟩ := e
    simp only [graphOf, List.map_cons, AList.getD, get_cons, succs] at *
    by_cases h : k = p
    · simp [h]
    · simp only [h, if_false]; exact ih

theorem mem_reach_iff (fs : FS) (root x : String) : x ∈ reach fs root ↔ Reach fs root x := by
  unfold reach
  rw [mem_bfs_iff]
  constructor
  · intro h; exact reachS_congr h (fun p => by simp [succG, getD_graphOf])
  · intro h; exact reachS_congr h (fun p => by simp [succG, getD_graphOf])

end HL.Lemmas.ReachIdx
